/-
Lemmas about the sampler skeleton (`Model/Sampler.lean`): what one `SamplingStep` / `Iterate` does to the
records, the clock and the completion flag; invariants (recorded times sorted and bounded by the clock,
`sample_pos` splits the request list at the clock, `last_tsi_ratio` is the floor of the clock).
-/
import Mathlib.Algebra.Order.Field.Rat
import Mathlib.Data.Rat.Floor
import Mathlib.Tactic.Linarith
import Mathlib.Tactic.Ring
import Strengths.Model.Sampler

namespace Strengths
namespace SimSt
variable {σ ω : Type} (A : Algo σ ω) (cfg : SamplerCfg)

/-! ### `Sample()` -/

@[simp] theorem sample_t (s : SimSt σ ω) : (s.sample A).t = s.t := by unfold sample; split <;> rfl
@[simp] theorem sample_x (s : SimSt σ ω) : (s.sample A).x = s.x := by unfold sample; split <;> rfl
@[simp] theorem sample_complete (s : SimSt σ ω) : (s.sample A).complete = s.complete := by unfold sample; split <;> rfl
@[simp] theorem sample_samplePos (s : SimSt σ ω) : (s.sample A).samplePos = s.samplePos := by unfold sample; split <;> rfl
@[simp] theorem sample_lastTsi (s : SimSt σ ω) : (s.sample A).lastTsi = s.lastTsi := by unfold sample; split <;> rfl
@[simp] theorem sample_done (s : SimSt σ ω) : (s.sample A).done = true := by
  unfold sample; split
  · assumption
  · rfl

theorem sample_recs (s : SimSt σ ω) :
    (s.sample A).recs = if s.done then s.recs else s.recs ++ [(s.t, A.obs s.x)] := by
  unfold sample; split <;> rfl

theorem sample_of_done (s : SimSt σ ω) (h : s.done = true) : s.sample A = s := by
  unfold sample; simp [h]

/-! ### does the sampling step record? -/

/-- `SampleOnTSample` enters its loop: there is an unconsumed request and it is not after the clock -/
def tsFires (s : SimSt σ ω) : Bool :=
  match cfg.tSamples.drop s.samplePos with
  | [] => false
  | τ :: _ => decide (τ ≤ s.t)

/-- number of requests the loop consumes -/
def tsTaken (s : SimSt σ ω) : Nat := ((cfg.tSamples.drop s.samplePos).takeWhile (fun τ => decide (τ ≤ s.t))).length

/-- the sampling step calls `Sample()` -/
def fires (s : SimSt σ ω) : Bool :=
  match cfg.policy with
  | 0 => tsFires cfg s
  | 1 => true
  | 2 => (tsiRatio s.t cfg.interval).gt s.lastTsi
  | _ => false

theorem tsLoop_eq (s : SimSt σ ω) (l : List Rat) :
    tsLoop A s l =
      match l with
      | [] => s
      | τ :: _ => if τ ≤ s.t then
          { (s.sample A) with samplePos := s.samplePos + (l.takeWhile (fun τ => decide (τ ≤ s.t))).length }
        else s := by
  induction l generalizing s with
  | nil => rfl
  | cons τ rest ih =>
    simp only [tsLoop]
    by_cases h : τ ≤ s.t
    · simp only [h, if_true]
      rw [ih]
      cases rest with
      | nil => simp [List.takeWhile, h]
      | cons τ2 r2 =>
        simp only [sample_t]
        by_cases h2 : τ2 ≤ s.t
        · simp only [h2, if_true]
          rw [sample_of_done A _ (by simp)]
          simp [List.takeWhile, h, h2]
          omega
        · simp [List.takeWhile, h, h2]
    · simp [h]

theorem sampleOnTSample_eq (s : SimSt σ ω) :
    sampleOnTSample A cfg s =
      if tsFires cfg s then { (s.sample A) with samplePos := s.samplePos + tsTaken cfg s } else s := by
  unfold sampleOnTSample tsFires tsTaken
  rw [tsLoop_eq]
  cases h : cfg.tSamples.drop s.samplePos with
  | nil => simp
  | cons τ rest => by_cases h2 : τ ≤ s.t <;> simp [h2]

/-- the sampling step is `Sample()` plus bookkeeping, or nothing -/
theorem samplingStep_cases (s : SimSt σ ω) :
    (fires cfg s = true ∧ (samplingStep A cfg s).recs = (s.sample A).recs ∧ (samplingStep A cfg s).done = true) ∨
    (fires cfg s = false ∧ samplingStep A cfg s = s) := by
  unfold samplingStep fires
  generalize cfg.policy = p
  match p with
  | 0 =>
    simp only []
    rw [sampleOnTSample_eq]
    by_cases h : tsFires cfg s = true
    · left; simp [h]
    · right; simp at h; simp [h]
  | 1 => left; simp
  | 2 =>
    simp only []
    unfold sampleOnInterval
    by_cases h : (tsiRatio s.t cfg.interval).gt s.lastTsi = true
    · left; simp [h]
    · right; simp at h; simp [h]
  | _ + 3 => right; simp

@[simp] theorem samplingStep_t (s : SimSt σ ω) : (samplingStep A cfg s).t = s.t := by
  unfold samplingStep
  generalize cfg.policy = p
  match p with
  | 0 => simp only []; rw [sampleOnTSample_eq]; split <;> simp
  | 1 => simp
  | 2 => simp only []; unfold sampleOnInterval; simp only []; split <;> simp
  | _ + 3 => rfl

@[simp] theorem samplingStep_x (s : SimSt σ ω) : (samplingStep A cfg s).x = s.x := by
  unfold samplingStep
  generalize cfg.policy = p
  match p with
  | 0 => simp only []; rw [sampleOnTSample_eq]; split <;> simp
  | 1 => simp
  | 2 => simp only []; unfold sampleOnInterval; simp only []; split <;> simp
  | _ + 3 => rfl

@[simp] theorem samplingStep_complete (s : SimSt σ ω) : (samplingStep A cfg s).complete = s.complete := by
  unfold samplingStep
  generalize cfg.policy = p
  match p with
  | 0 => simp only []; rw [sampleOnTSample_eq]; split <;> simp
  | 1 => simp
  | 2 => simp only []; unfold sampleOnInterval; simp only []; split <;> simp
  | _ + 3 => rfl

theorem samplingStep_recs (s : SimSt σ ω) :
    (samplingStep A cfg s).recs = if fires cfg s then (s.sample A).recs else s.recs := by
  rcases samplingStep_cases A cfg s with ⟨h, hr, _⟩ | ⟨h, hs⟩
  · simp [h, hr]
  · simp [h, hs]

/-! ### `CheckTMax` -/

@[simp] theorem checkTMax_t (s : SimSt σ ω) : (checkTMax cfg s).t = s.t := by unfold checkTMax; split <;> rfl
@[simp] theorem checkTMax_x (s : SimSt σ ω) : (checkTMax cfg s).x = s.x := by unfold checkTMax; split <;> rfl
@[simp] theorem checkTMax_recs (s : SimSt σ ω) : (checkTMax cfg s).recs = s.recs := by unfold checkTMax; split <;> rfl
@[simp] theorem checkTMax_done (s : SimSt σ ω) : (checkTMax cfg s).done = s.done := by unfold checkTMax; split <;> rfl
@[simp] theorem checkTMax_samplePos (s : SimSt σ ω) : (checkTMax cfg s).samplePos = s.samplePos := by unfold checkTMax; split <;> rfl
@[simp] theorem checkTMax_lastTsi (s : SimSt σ ω) : (checkTMax cfg s).lastTsi = s.lastTsi := by unfold checkTMax; split <;> rfl
theorem checkTMax_complete (s : SimSt σ ω) :
    (checkTMax cfg s).complete = (s.complete || decide (0 ≤ cfg.tMax ∧ cfg.tMax < s.t)) := by
  unfold checkTMax; split <;> simp_all

/-! ### one `Iterate()` -/

/-- a completed simulation: `Iterate` only resets the per-iteration flag and returns `false` -/
theorem iterate_of_complete (s : SimSt σ ω) (h : s.complete = true) :
    iterate A cfg s = ({ s with done := false }, false) := by
  unfold iterate; simp [h]

/-- Gillespie's `a0 == 0` -/
theorem iterate_of_stuck (s : SimSt σ ω) (h : s.complete = false) (hs : A.step s.x = none) :
    iterate A cfg s = ({ s with done := false, complete := true }, false) := by
  unfold iterate; simp [h, hs]

/-- the state right after `t += dt`, before `SamplingStep()` -/
def advanced (s : SimSt σ ω) (x' : σ) (dt : Rat) : SimSt σ ω := { s with done := false, x := x', t := s.t + dt }

theorem iterate_of_step (s : SimSt σ ω) (h : s.complete = false) {x' : σ} {dt : Rat} (hs : A.step s.x = some (x', dt)) :
    iterate A cfg s =
      (checkTMax cfg (samplingStep A cfg (advanced s x' dt)),
       !(checkTMax cfg (samplingStep A cfg (advanced s x' dt))).complete) := by
  unfold iterate advanced; simp [h, hs]

/-- `Iterate` returns `!complete` of the new state -/
theorem iterate_snd (s : SimSt σ ω) : (iterate A cfg s).2 = !(iterate A cfg s).1.complete := by
  unfold iterate
  by_cases h : s.complete = true
  · simp [h]
  · simp only [Bool.not_eq_true] at h
    simp only [h]
    cases hs : A.step s.x with
    | none => simp
    | some p => simp

/-- `Iterate` does not look at the per-iteration flag -/
theorem iterate_done_irrelevant (s : SimSt σ ω) (b : Bool) : iterate A cfg { s with done := b } = iterate A cfg s := by
  unfold iterate; rfl

theorem next_complete_of_complete (s : SimSt σ ω) (h : s.complete = true) : (next A cfg s).complete = true := by
  unfold next; rw [iterate_of_complete A cfg s h]; exact h

theorem next_recs_of_complete (s : SimSt σ ω) (h : s.complete = true) : (next A cfg s).recs = s.recs := by
  unfold next; rw [iterate_of_complete A cfg s h]

/-- what an iteration does to the records: nothing, or one record of the new time and state -/
theorem next_recs (s : SimSt σ ω) :
    (next A cfg s).recs = s.recs ∨
    ∃ x' dt, s.complete = false ∧ A.step s.x = some (x', dt) ∧ fires cfg (advanced s x' dt) = true ∧
      (next A cfg s).recs = s.recs ++ [(s.t + dt, A.obs x')] ∧ (next A cfg s).t = s.t + dt ∧ (next A cfg s).x = x' := by
  by_cases h : s.complete = true
  · left; exact next_recs_of_complete A cfg s h
  · simp only [Bool.not_eq_true] at h
    cases hs : A.step s.x with
    | none => left; unfold next; rw [iterate_of_stuck A cfg s h hs]
    | some p =>
      obtain ⟨x', dt⟩ := p
      unfold next
      rw [iterate_of_step A cfg s h hs]
      simp only [checkTMax_recs, checkTMax_t, checkTMax_x, samplingStep_t, samplingStep_x]
      rw [samplingStep_recs]
      by_cases hf : fires cfg (advanced s x' dt) = true
      · right
        refine ⟨x', dt, h, rfl, hf, ?_, rfl, rfl⟩
        rw [if_pos hf, sample_recs]
        simp [advanced]
      · left; simp only [Bool.not_eq_true] at hf; rw [hf]; simp [advanced]

theorem next_t (s : SimSt σ ω) :
    ((next A cfg s).t = s.t ∧ (next A cfg s).x = s.x) ∨
    ∃ x' dt, s.complete = false ∧ A.step s.x = some (x', dt) ∧ (next A cfg s).t = s.t + dt ∧ (next A cfg s).x = x' := by
  by_cases h : s.complete = true
  · left; unfold next; rw [iterate_of_complete A cfg s h]; exact ⟨rfl, rfl⟩
  · simp only [Bool.not_eq_true] at h
    cases hs : A.step s.x with
    | none => left; unfold next; rw [iterate_of_stuck A cfg s h hs]; exact ⟨rfl, rfl⟩
    | some p =>
      obtain ⟨x', dt⟩ := p
      right
      refine ⟨x', dt, h, rfl, ?_, ?_⟩ <;> (unfold next; rw [iterate_of_step A cfg s h hs]; simp [advanced])

/-! ### iterating -/

theorem iter_succ (n : Nat) (s : SimSt σ ω) : iter A cfg (n + 1) s = next A cfg (iter A cfg n s) := by
  induction n generalizing s with
  | zero => rfl
  | succ n ih => rw [iter, ih (next A cfg s)]; rfl

theorem iter_add (a b : Nat) (s : SimSt σ ω) : iter A cfg (a + b) s = iter A cfg b (iter A cfg a s) := by
  induction a generalizing s with
  | zero => simp [iter]
  | succ a ih => rw [Nat.succ_add, iter, ih]; rfl

/-! ### recorded times are sorted and bounded by the clock -/

/-- `sampled_t` -/
def times (s : SimSt σ ω) : List Rat := s.recs.map (·.1)

/-- every step advances the clock -/
def PosDt (A : Algo σ ω) : Prop := ∀ x x' dt, A.step x = some (x', dt) → 0 < dt
def NonnegDt (A : Algo σ ω) : Prop := ∀ x x' dt, A.step x = some (x', dt) → 0 ≤ dt

def StrictInv (s : SimSt σ ω) : Prop := s.times.Pairwise (· < ·) ∧ ∀ q ∈ s.times, q ≤ s.t
def MonoInv (s : SimSt σ ω) : Prop := s.times.Pairwise (· ≤ ·) ∧ ∀ q ∈ s.times, q ≤ s.t

theorem fresh_samplingStep_recs (x0 : σ) :
    (init A cfg x0).recs = if fires cfg (fresh x0 : SimSt σ ω) then [((0 : Rat), A.obs x0)] else [] := by
  unfold init
  rw [samplingStep_recs, sample_recs]
  rfl

theorem init_t (x0 : σ) : (init A cfg x0).t = 0 := by simp [init, fresh]
theorem init_x (x0 : σ) : (init A cfg x0).x = x0 := by simp [init, fresh]
theorem init_complete (x0 : σ) : (init A cfg x0).complete = false := by simp [init, fresh]

theorem init_strictInv (x0 : σ) : StrictInv (init A cfg x0) := by
  unfold StrictInv times
  rw [fresh_samplingStep_recs, init_t]
  split <;> simp

theorem next_strictInv (hA : PosDt A) (s : SimSt σ ω) (h : StrictInv s) : StrictInv (next A cfg s) := by
  obtain ⟨hp, hb⟩ := h
  rcases next_recs A cfg s with hr | ⟨x', dt, _, hs, _, hr, ht, _⟩
  · refine ⟨by unfold times at *; rw [hr]; exact hp, ?_⟩
    intro q hq
    have hq' : q ∈ s.times := by unfold times at *; rw [hr] at hq; exact hq
    rcases next_t A cfg s with ⟨ht, _⟩ | ⟨x', dt, _, hs, ht, _⟩
    · rw [ht]; exact hb q hq'
    · rw [ht]; have := hA _ _ _ hs; have := hb q hq'; linarith
  · have hdt := hA _ _ _ hs
    simp only [StrictInv, MonoInv, times] at hp hb ⊢
    rw [hr, ht]
    simp only [List.map_append, List.map_cons, List.map_nil]
    refine ⟨?_, ?_⟩
    · rw [List.pairwise_append]
      refine ⟨hp, by simp, ?_⟩
      intro a ha b hb'
      simp only [List.mem_singleton] at hb'
      have := hb a ha
      rw [hb']; linarith
    · intro q hq
      simp only [List.mem_append, List.mem_singleton] at hq
      rcases hq with hq | hq
      · have := hb q hq; linarith
      · rw [hq]

theorem iter_strictInv (hA : PosDt A) (x0 : σ) (n : Nat) : StrictInv (iter A cfg n (init A cfg x0)) := by
  induction n with
  | zero => exact init_strictInv A cfg x0
  | succ n ih => rw [iter_succ]; exact next_strictInv A cfg hA _ ih

theorem StrictInv.mono {s : SimSt σ ω} (h : StrictInv s) : MonoInv s :=
  ⟨h.1.imp (fun hab => le_of_lt hab), h.2⟩

theorem next_monoInv (hA : NonnegDt A) (s : SimSt σ ω) (h : MonoInv s) : MonoInv (next A cfg s) := by
  obtain ⟨hp, hb⟩ := h
  rcases next_recs A cfg s with hr | ⟨x', dt, _, hs, _, hr, ht, _⟩
  · refine ⟨by unfold times at *; rw [hr]; exact hp, ?_⟩
    intro q hq
    have hq' : q ∈ s.times := by unfold times at *; rw [hr] at hq; exact hq
    rcases next_t A cfg s with ⟨ht, _⟩ | ⟨x', dt, _, hs, ht, _⟩
    · rw [ht]; exact hb q hq'
    · rw [ht]; have := hA _ _ _ hs; have := hb q hq'; linarith
  · have hdt := hA _ _ _ hs
    simp only [StrictInv, MonoInv, times] at hp hb ⊢
    rw [hr, ht]
    simp only [List.map_append, List.map_cons, List.map_nil]
    refine ⟨?_, ?_⟩
    · rw [List.pairwise_append]
      refine ⟨hp, by simp, ?_⟩
      intro a ha b hb'
      simp only [List.mem_singleton] at hb'
      have := hb a ha
      rw [hb']; linarith
    · intro q hq
      simp only [List.mem_append, List.mem_singleton] at hq
      rcases hq with hq | hq
      · have := hb q hq; linarith
      · rw [hq]

theorem sample_monoInv (s : SimSt σ ω) (h : MonoInv s) : MonoInv (s.sample A) := by
  obtain ⟨hp, hb⟩ := h
  unfold MonoInv times at *
  rw [sample_recs, sample_t]
  by_cases hd : s.done = true
  · simp only [hd, if_true]; exact ⟨hp, hb⟩
  · simp only [hd]
    simp only [Bool.false_eq_true, if_false, List.map_append, List.map_cons, List.map_nil]
    refine ⟨?_, ?_⟩
    · rw [List.pairwise_append]
      refine ⟨hp, by simp, ?_⟩
      intro a ha b hb'
      simp only [List.mem_singleton] at hb'
      rw [hb']; exact hb a ha
    · intro q hq
      simp only [List.mem_append, List.mem_singleton] at hq
      rcases hq with hq | hq
      · exact hb q hq
      · rw [hq]

/-! ### a record at time 0 holds the initial state -/

def ZeroInv (x0 : σ) (s : SimSt σ ω) : Prop :=
  0 ≤ s.t ∧ (s.t = 0 → s.x = x0) ∧ ∀ r ∈ s.recs, r.1 = 0 → r.2 = A.obs x0

theorem init_zeroInv (x0 : σ) : ZeroInv A x0 (init A cfg x0) := by
  refine ⟨by rw [init_t], fun _ => init_x A cfg x0, ?_⟩
  rw [fresh_samplingStep_recs]
  split <;> simp

theorem next_zeroInv (hA : PosDt A) (x0 : σ) (s : SimSt σ ω) (h : ZeroInv A x0 s) : ZeroInv A x0 (next A cfg s) := by
  obtain ⟨h0, hx, hr⟩ := h
  have ht : (0 ≤ (next A cfg s).t) ∧ ((next A cfg s).t = 0 → (next A cfg s).x = x0) := by
    rcases next_t A cfg s with ⟨ht, hx'⟩ | ⟨x', dt, _, hs, ht, _⟩
    · rw [ht, hx']; exact ⟨h0, hx⟩
    · have := hA _ _ _ hs
      rw [ht]; exact ⟨by linarith, fun h => by exfalso; linarith⟩
  refine ⟨ht.1, ht.2, ?_⟩
  rcases next_recs A cfg s with hr' | ⟨x', dt, _, hs, _, hr', _, _⟩
  · rw [hr']; exact hr
  · have := hA _ _ _ hs
    rw [hr']
    intro r hmem
    simp only [List.mem_append, List.mem_singleton] at hmem
    rcases hmem with hm | hm
    · exact hr r hm
    · intro hz; rw [hm] at hz; simp only at hz; exfalso; linarith

theorem sample_zeroInv (x0 : σ) (s : SimSt σ ω) (h : ZeroInv A x0 s) : ZeroInv A x0 (s.sample A) := by
  obtain ⟨h0, hx, hr⟩ := h
  refine ⟨by simpa using h0, by simpa using hx, ?_⟩
  rw [sample_recs]
  by_cases hd : s.done = true
  · simp only [hd, if_true]; exact hr
  · simp only [hd]
    intro r hmem
    simp only [Bool.false_eq_true, if_false, List.mem_append, List.mem_singleton] at hmem
    rcases hmem with hm | hm
    · exact hr r hm
    · intro hz; rw [hm] at hz ⊢; simp only at hz ⊢; rw [hx hz]

end SimSt
end Strengths
