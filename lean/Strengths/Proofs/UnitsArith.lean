/-
Helper lemmas for C05 (arithmetic of quantities): every operator method of the model is a
homomorphism onto the SI-level specification (`Sim`), for all valid unit systems.
-/
import Strengths.Proofs.Units
import Strengths.Model.UnitsArith
import Mathlib.Tactic.Ring

namespace Strengths
set_option linter.unusedSimpArgs false
set_option linter.unusedVariables false

/-! ### scale algebra -/

theorem convFactor_mul_siFactor (U : Sys) {V : Sys} (hV : V.valid = true) (d : Dim) :
    convFactor U V d * siFactor V d = siFactor U d := by
  rw [convFactor_eq_div]; have := siFactor_ne hV d; field_simp

theorem convFactor_ne {U V : Sys} (hU : U.valid = true) (hV : V.valid = true) (d : Dim) : convFactor U V d ≠ 0 :=
  ne_of_gt (convFactor_pos hU hV d)

theorem siFactor_add {U : Sys} (hU : U.valid = true) (a b : Dim) :
    siFactor U (a.add b) = siFactor U a * siFactor U b := by
  simp only [siFactor, Dim.add]
  rw [zpow_add₀ (Sys.sSpace_ne hU), zpow_add₀ (Sys.sTime_ne hU), zpow_add₀ (Sys.sQty_ne hU)]
  ring

theorem siFactor_neg (U : Sys) (a : Dim) : siFactor U a.neg = (siFactor U a)⁻¹ := by
  simp only [siFactor, Dim.neg, zpow_neg, mul_inv]

theorem siFactor_add_neg {U : Sys} (hU : U.valid = true) (a b : Dim) :
    siFactor U (a.add b.neg) = siFactor U a / siFactor U b := by
  rw [siFactor_add hU, siFactor_neg, div_eq_mul_inv]

theorem Dim.add_neg_eq_sub (a b : Dim) : a.add b.neg = a.sub b := by
  simp [Dim.add, Dim.neg, Dim.sub, sub_eq_add_neg]

theorem pyMod_mul_right (a b : Rat) {f : Rat} (hf : f ≠ 0) : pyMod (a * f) (b * f) = pyMod a b * f := by
  unfold pyMod
  rw [mul_div_mul_right a b hf]
  ring

/-! ### the SI value of what a method computes, in terms of the SI values of its operands
(`U` is the system of `self`, valid; `V` the system of the other operand) -/

theorem add_conv {U : Sys} (hU : U.valid = true) (V : Sys) (d : Dim) (a b : Rat) :
    a * siFactor U d + b * siFactor V d = (a + b * convFactor V U d) * siFactor U d := by
  rw [add_mul, mul_assoc, convFactor_mul_siFactor V hU]

theorem sub_conv {U : Sys} (hU : U.valid = true) (V : Sys) (d : Dim) (a b : Rat) :
    a * siFactor U d - b * siFactor V d = (a + -(b * convFactor V U d)) * siFactor U d := by
  rw [add_mul, neg_mul, mul_assoc, convFactor_mul_siFactor V hU, sub_eq_add_neg]

theorem mul_conv {U : Sys} (hU : U.valid = true) (V : Sys) (d d' : Dim) (a b : Rat) :
    a * siFactor U d * (b * siFactor V d') = a * (b * convFactor V U d') * siFactor U (d.add d') := by
  rw [siFactor_add hU, ← convFactor_mul_siFactor V hU d']; ring

theorem div_conv {U V : Sys} (hU : U.valid = true) (hV : V.valid = true) (d d' : Dim) (a b : Rat) :
    a * siFactor U d / (b * siFactor V d') = a * (1 / b * convFactor V U d'.neg) * siFactor U (d.add d'.neg) := by
  rw [siFactor_add_neg hU, convFactor_eq_div, siFactor_neg, siFactor_neg]
  have := siFactor_ne hU d'
  have := siFactor_ne hV d'
  by_cases hb : b = 0
  · simp [hb]
  · field_simp

theorem pyMod_conv {U : Sys} (hU : U.valid = true) (V : Sys) (d : Dim) (a b : Rat) :
    pyMod (a * siFactor U d) (b * siFactor V d) = pyMod a (b * convFactor V U d) * siFactor U d := by
  rw [← convFactor_mul_siFactor V hU d, ← mul_assoc, pyMod_mul_right _ _ (siFactor_ne hU d)]

theorem pyMod_conv' {U : Sys} (hU : U.valid = true) (V : Sys) (d : Dim) (a b : Rat) :
    pyMod (b * siFactor V d) (a * siFactor U d) = pyMod (b * convFactor V U d) a * siFactor U d := by
  rw [← convFactor_mul_siFactor V hU d, ← mul_assoc, pyMod_mul_right _ _ (siFactor_ne hU d)]

/-! ### simulation relation -/

/-- the invariant of `UnitsSystem`: every quantity carries a valid system -/
def Operand.wf : Operand → Prop
  | .num _ => True
  | .val x => x.u.sys.valid = true
  | .arr x => x.u.sys.valid = true

/-- the model's outcome `a` and the SI-level outcome `b` agree: both raise, or `b` is the SI reading of `a` -/
def Sim (a : Res Operand) (b : Res SIVal) : Prop :=
  match a with
  | .ok r => b = .ok (siOf r) ∧ r.wf
  | .error _ => ∃ e, b = .error e

macro "si_simp" : tactic => `(tactic| simp [UVal.dunder, UVal.rdunder, UArr.dunder, UArr.rdunder, Operand.inv, Operand.neg,
  Operand.abs, negRes, UVal.invert, UArr.invert, Units.invert, numOp, siNeg, siAbs, siInv, Pay.map,
  UVal.sum, UVal.product, UVal.modulo, UVal.rmodulo, UArr.sum, UArr.product,
  UArr.modulo, UArr.rmodulo, siBin, siOf, Sim, BinOp.needsNonZero, BinOp.additive, qtyOk, Pay.zip, Pay.hasZero, ratOp,
  Operand.wf, UVal.si, UArr.si, UVal.toSys, UArr.toSys, Units.multiply, siFactor_ne, convFactor_ne,
  add_conv, sub_conv, mul_conv, div_conv, pyMod_conv, pyMod_conv', pyMod_mul_right, Dim.add_neg_eq_sub,
  siFactor_neg, convFactor_self, List.zipWith_map_right, List.zipWith_map_left, *])

macro "si_done" : tactic => `(tactic| all_goals (try (intros; first | (simp; done) | (left; ring_nf; done) | (ring_nf; done) | (field_simp; done) | (field_simp; ring_nf; done))))

theorem mul_conv2 {U : Sys} (hU : U.valid = true) (V : Sys) (d d' : Dim) (b : Rat) :
    siFactor U d * b * siFactor V d' = b * convFactor V U d' * siFactor U (d.add d') := by
  rw [siFactor_add hU, ← convFactor_mul_siFactor V hU d']; ring

theorem UVal.dunder_sim (op : BinOp) (x : UVal) (v : Operand) (hx : x.u.sys.valid = true) (hv : v.wf) :
    Sim (x.dunder op v) (siBin op (siOf (.val x)) (siOf v)) := by
  cases v with
  | num n =>
    cases op
    case div | mod => by_cases h0 : n = 0 <;> si_simp <;> si_done
    all_goals (si_simp <;> si_done)
  | val y =>
    have hy : y.u.sys.valid = true := hv
    cases op
    case div | mod => by_cases h : x.u.dim = y.u.dim <;> by_cases h0 : y.v = 0 <;> si_simp <;> si_done
    case mul => si_simp <;> si_done
    all_goals (by_cases h : x.u.dim = y.u.dim <;> si_simp <;> si_done)
  | arr y =>
    have hy : y.u.sys.valid = true := hv
    cases op
    case div | mod => by_cases h : x.u.dim = y.u.dim <;> by_cases h0 : 0 ∈ y.vs <;> si_simp <;> si_done
    case mul => si_simp <;> si_done
    all_goals (by_cases h : x.u.dim = y.u.dim <;> si_simp <;> si_done)

theorem UArr.dunder_sim (op : BinOp) (x : UArr) (v : Operand) (hx : x.u.sys.valid = true) (hv : v.wf) :
    Sim (x.dunder op v) (siBin op (siOf (.arr x)) (siOf v)) := by
  cases v with
  | num n =>
    cases op
    case div | mod => by_cases h0 : n = 0 <;> si_simp <;> si_done
    all_goals (si_simp <;> si_done)
  | val y =>
    have hy : y.u.sys.valid = true := hv
    cases op
    case div | mod => by_cases h : x.u.dim = y.u.dim <;> by_cases h0 : y.v = 0 <;> si_simp <;> si_done
    case mul =>
      si_simp; intro a _; left
      rw [siFactor_add hx, ← convFactor_mul_siFactor y.u.sys hx y.u.dim]; ring
    all_goals (by_cases h : x.u.dim = y.u.dim <;> si_simp <;> si_done)
  | arr y =>
    have hy : y.u.sys.valid = true := hv
    cases op
    case div | mod =>
      by_cases h : x.u.dim = y.u.dim <;> by_cases hl : x.vs.length = y.vs.length <;> by_cases h0 : 0 ∈ y.vs <;>
        si_simp <;> si_done
    case mul => by_cases hl : x.vs.length = y.vs.length <;> si_simp <;> si_done
    all_goals (by_cases h : x.u.dim = y.u.dim <;> by_cases hl : x.vs.length = y.vs.length <;> si_simp <;> si_done)

theorem UVal.rdunder_sim (op : BinOp) (x : UVal) (n : Rat) (hx : x.u.sys.valid = true) :
    Sim (x.rdunder op (.num n)) (siBin op (.num n) (siOf (.val x))) := by
  cases op
  case div | mod => by_cases h0 : x.v = 0 <;> si_simp <;> si_done
  all_goals (si_simp <;> si_done)

theorem UArr.rdunder_sim (op : BinOp) (x : UArr) (n : Rat) (hx : x.u.sys.valid = true) :
    Sim (x.rdunder op (.num n)) (siBin op (.num n) (siOf (.arr x))) := by
  cases op
  case div | mod => by_cases h0 : 0 ∈ x.vs <;> si_simp <;> si_done
  all_goals (si_simp <;> si_done)

theorem numOp_sim (op : BinOp) (a b : Rat) : Sim (numOp op a b) (siBin op (.num a) (.num b)) := by
  cases op
  case div | mod => by_cases h0 : b = 0 <;> si_simp
  all_goals si_simp

/-- Python's dispatch over the nine operand-type pairings -/
theorem binop_sim (op : BinOp) (a b : Operand) (ha : a.wf) (hb : b.wf) :
    Sim (binop op a b) (siBin op (siOf a) (siOf b)) := by
  cases a with
  | num m =>
    cases b with
    | num n => exact numOp_sim op m n
    | val y => exact UVal.rdunder_sim op y m hb
    | arr y => exact UArr.rdunder_sim op y m hb
  | val x => exact UVal.dunder_sim op x b ha hb
  | arr x => exact UArr.dunder_sim op x b ha hb

theorem abs_conv {f : Rat} (hf : 0 < f) (a : Rat) :
    (if 0 ≤ a * f then a * f else -(a * f)) = (if 0 ≤ a then a else -a) * f := by
  by_cases h : 0 ≤ a
  · have : 0 ≤ a * f := mul_nonneg h (le_of_lt hf)
    simp [h, this]
  · have : ¬ 0 ≤ a * f := by
      intro h'
      exact h (nonneg_of_mul_nonneg_left h' hf)
    simp [h, this]

theorem neg_sim (a : Operand) (ha : a.wf) : siNeg (siOf a) = siOf a.neg ∧ a.neg.wf := by
  cases a with
  | num n => si_simp
  | val x => have hx : x.u.sys.valid = true := ha; si_simp
  | arr x => have hx : x.u.sys.valid = true := ha; si_simp

theorem abs_sim (a : Operand) (ha : a.wf) : siAbs (siOf a) = siOf a.abs ∧ a.abs.wf := by
  cases a with
  | num n => si_simp
  | val x =>
    have hx : x.u.sys.valid = true := ha
    have := abs_conv (siFactor_pos hx x.u.dim); si_simp
  | arr x =>
    have hx : x.u.sys.valid = true := ha
    have := fun a => abs_conv (siFactor_pos hx x.u.dim) a
    si_simp

theorem inv_sim (a : Operand) (ha : a.wf) : Sim a.inv (siInv (siOf a)) := by
  cases a with
  | num n => by_cases h0 : n = 0 <;> si_simp
  | val x =>
    have hx : x.u.sys.valid = true := ha
    by_cases h0 : x.v = 0 <;> si_simp <;> si_done
  | arr x =>
    have hx : x.u.sys.valid = true := ha
    by_cases h0 : 0 ∈ x.vs <;> si_simp <;> si_done

/-! ### expression trees -/

def Expr.wf : Expr → Prop
  | .leaf o => o.wf
  | .bin _ a b => a.wf ∧ b.wf
  | .pow a b => a.wf ∧ b.wf
  | .neg a => a.wf
  | .abs a => a.wf
  | .inv a => a.wf

/-- what is assumed of `**`: the model's `powOp` agrees with the SI-level `siPow` (proved below for the cases
that do not need the trusted primitive, and from `PowContract` for the others) -/
def PowHom (pyPow : Rat → Rat → Rat) : Prop :=
  ∀ a b : Operand, a.wf → b.wf → Sim (powOp pyPow a b) (siPow pyPow (siOf a) (siOf b))

theorem Sim.ok_inv {a : Res Operand} {b : Res SIVal} {r : Operand} (h : Sim a b) (ha : a = .ok r) :
    b = .ok (siOf r) ∧ r.wf := by
  subst ha; exact h

theorem eval_sim (pyPow : Rat → Rat → Rat) (hp : PowHom pyPow) (e : Expr) (he : e.wf) :
    Sim (eval pyPow e) (evalSI pyPow e) := by
  induction e with
  | leaf o => exact ⟨rfl, he⟩
  | bin op a b iha ihb =>
    have ha := iha he.1
    have hb := ihb he.2
    simp only [eval, evalSI]
    cases hea : eval pyPow a with
    | error e => rw [hea] at ha; obtain ⟨e', h'⟩ := ha; simp [Sim, h']
    | ok x =>
      rw [hea] at ha
      obtain ⟨h1, wx⟩ := ha
      cases heb : eval pyPow b with
      | error e => rw [heb] at hb; obtain ⟨e', h'⟩ := hb; simp [Sim, h1, h']
      | ok y =>
        rw [heb] at hb
        obtain ⟨h2, wy⟩ := hb
        simp only [h1, h2]
        exact binop_sim op x y wx wy
  | pow a b iha ihb =>
    have ha := iha he.1
    have hb := ihb he.2
    simp only [eval, evalSI]
    cases hea : eval pyPow a with
    | error e => rw [hea] at ha; obtain ⟨e', h'⟩ := ha; simp [Sim, h']
    | ok x =>
      rw [hea] at ha
      obtain ⟨h1, wx⟩ := ha
      cases heb : eval pyPow b with
      | error e => rw [heb] at hb; obtain ⟨e', h'⟩ := hb; simp [Sim, h1, h']
      | ok y =>
        rw [heb] at hb
        obtain ⟨h2, wy⟩ := hb
        simp only [h1, h2]
        exact hp x y wx wy
  | neg a ih =>
    have ha := ih he
    simp only [eval, evalSI]
    cases hea : eval pyPow a with
    | error e => rw [hea] at ha; obtain ⟨e', h'⟩ := ha; simp [Sim, h']
    | ok x =>
      rw [hea] at ha
      obtain ⟨h1, wx⟩ := ha
      simp only [h1, Sim]
      have := neg_sim x wx
      exact ⟨by rw [this.1], this.2⟩
  | abs a ih =>
    have ha := ih he
    simp only [eval, evalSI]
    cases hea : eval pyPow a with
    | error e => rw [hea] at ha; obtain ⟨e', h'⟩ := ha; simp [Sim, h']
    | ok x =>
      rw [hea] at ha
      obtain ⟨h1, wx⟩ := ha
      simp only [h1, Sim]
      have := abs_sim x wx
      exact ⟨by rw [this.1], this.2⟩
  | inv a ih =>
    have ha := ih he
    simp only [eval, evalSI]
    cases hea : eval pyPow a with
    | error e => rw [hea] at ha; obtain ⟨e', h'⟩ := ha; simp [Sim, h']
    | ok x =>
      rw [hea] at ha
      obtain ⟨h1, wx⟩ := ha
      simp only [h1]
      exact inv_sim x wx

end Strengths
