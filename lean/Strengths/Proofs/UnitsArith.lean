/-
Helper lemmas for C05 (arithmetic of quantities): every operator method of the model is a
homomorphism onto the SI-level specification (`Sim`), for all valid unit systems.
-/
import Strengths.Proofs.Units
import Strengths.Model.UnitsArith
import Mathlib.Tactic.Ring
import Mathlib.Data.Int.GCD

namespace Strengths
set_option linter.unusedSimpArgs false
set_option linter.unusedVariables false

/-! ### scale algebra -/

theorem convFactor_mul_siFactor (U : Sys) {V : Sys} (hV : V.valid = true) (d : Dim) :
    convFactor U V d * siFactor V d = siFactor U d := by
  rw [convFactor_eq_div]; have := siFactor_ne hV d; field_simp

theorem convFactor_ne {U V : Sys} (hU : U.valid = true) (hV : V.valid = true) (d : Dim) : convFactor U V d ≠ 0 :=
  ne_of_gt (convFactor_pos hU hV d)

theorem siFactor_add {U : Sys} (hU : U.valid = true) (a b : Dim) :
    siFactor U (a.add b) = siFactor U a * siFactor U b := by
  simp only [siFactor, Dim.add]
  rw [zpow_add₀ (Sys.sSpace_ne hU), zpow_add₀ (Sys.sTime_ne hU), zpow_add₀ (Sys.sQty_ne hU)]
  ring

theorem siFactor_neg (U : Sys) (a : Dim) : siFactor U a.neg = (siFactor U a)⁻¹ := by
  simp only [siFactor, Dim.neg, zpow_neg, mul_inv]

theorem siFactor_add_neg {U : Sys} (hU : U.valid = true) (a b : Dim) :
    siFactor U (a.add b.neg) = siFactor U a / siFactor U b := by
  rw [siFactor_add hU, siFactor_neg, div_eq_mul_inv]

theorem Dim.add_neg_eq_sub (a b : Dim) : a.add b.neg = a.sub b := by
  simp [Dim.add, Dim.neg, Dim.sub, sub_eq_add_neg]

theorem pyMod_mul_right (a b : Rat) {f : Rat} (hf : f ≠ 0) : pyMod (a * f) (b * f) = pyMod a b * f := by
  unfold pyMod
  rw [mul_div_mul_right a b hf]
  ring

/-! ### the SI value of what a method computes, in terms of the SI values of its operands
(`U` is the system of `self`, valid; `V` the system of the other operand) -/

theorem add_conv {U : Sys} (hU : U.valid = true) (V : Sys) (d : Dim) (a b : Rat) :
    a * siFactor U d + b * siFactor V d = (a + b * convFactor V U d) * siFactor U d := by
  rw [add_mul, mul_assoc, convFactor_mul_siFactor V hU]

theorem sub_conv {U : Sys} (hU : U.valid = true) (V : Sys) (d : Dim) (a b : Rat) :
    a * siFactor U d - b * siFactor V d = (a + -(b * convFactor V U d)) * siFactor U d := by
  rw [add_mul, neg_mul, mul_assoc, convFactor_mul_siFactor V hU, sub_eq_add_neg]

theorem mul_conv {U : Sys} (hU : U.valid = true) (V : Sys) (d d' : Dim) (a b : Rat) :
    a * siFactor U d * (b * siFactor V d') = a * (b * convFactor V U d') * siFactor U (d.add d') := by
  rw [siFactor_add hU, ← convFactor_mul_siFactor V hU d']; ring

theorem div_conv {U V : Sys} (hU : U.valid = true) (hV : V.valid = true) (d d' : Dim) (a b : Rat) :
    a * siFactor U d / (b * siFactor V d') = a * (1 / b * convFactor V U d'.neg) * siFactor U (d.add d'.neg) := by
  rw [siFactor_add_neg hU, convFactor_eq_div, siFactor_neg, siFactor_neg]
  have := siFactor_ne hU d'
  have := siFactor_ne hV d'
  by_cases hb : b = 0
  · simp [hb]
  · field_simp

theorem pyMod_conv {U : Sys} (hU : U.valid = true) (V : Sys) (d : Dim) (a b : Rat) :
    pyMod (a * siFactor U d) (b * siFactor V d) = pyMod a (b * convFactor V U d) * siFactor U d := by
  rw [← convFactor_mul_siFactor V hU d, ← mul_assoc, pyMod_mul_right _ _ (siFactor_ne hU d)]

theorem pyMod_conv' {U : Sys} (hU : U.valid = true) (V : Sys) (d : Dim) (a b : Rat) :
    pyMod (b * siFactor V d) (a * siFactor U d) = pyMod (b * convFactor V U d) a * siFactor U d := by
  rw [← convFactor_mul_siFactor V hU d, ← mul_assoc, pyMod_mul_right _ _ (siFactor_ne hU d)]

/-! ### simulation relation -/

/-- the invariant of `UnitsSystem`: every quantity carries a valid system -/
def Operand.wf : Operand → Prop
  | .num _ => True
  | .val x => x.u.sys.valid = true
  | .arr x => x.u.sys.valid = true

/-- the model's outcome `a` and the SI-level outcome `b` agree: both raise, or `b` is the SI reading of `a` -/
def Sim (a : Res Operand) (b : Res SIVal) : Prop :=
  match a with
  | .ok r => b = .ok (siOf r) ∧ r.wf
  | .error _ => ∃ e, b = .error e

macro "si_simp" : tactic => `(tactic| simp [UVal.dunder, UVal.rdunder, UArr.dunder, UArr.rdunder, Operand.inv, Operand.neg,
  Operand.abs, negRes, UVal.invert, UArr.invert, Units.invert, numOp, siNeg, siAbs, siInv, Pay.map,
  UVal.sum, UVal.product, UVal.modulo, UVal.rmodulo, UArr.sum, UArr.product,
  UArr.modulo, UArr.rmodulo, siBin, siOf, Sim, BinOp.needsNonZero, BinOp.additive, qtyOk, Pay.zip, Pay.hasZero, ratOp,
  Operand.wf, UVal.si, UArr.si, UVal.toSys, UArr.toSys, Units.multiply, siFactor_ne, convFactor_ne,
  add_conv, sub_conv, mul_conv, div_conv, pyMod_conv, pyMod_conv', pyMod_mul_right, Dim.add_neg_eq_sub,
  siFactor_neg, convFactor_self, List.zipWith_map_right, List.zipWith_map_left, *])

macro "si_done" : tactic => `(tactic| all_goals (try (intros; first | (simp; done) | (left; ring_nf; done) | (ring_nf; done) | (field_simp; done) | (field_simp; ring_nf; done))))

theorem mul_conv2 {U : Sys} (hU : U.valid = true) (V : Sys) (d d' : Dim) (b : Rat) :
    siFactor U d * b * siFactor V d' = b * convFactor V U d' * siFactor U (d.add d') := by
  rw [siFactor_add hU, ← convFactor_mul_siFactor V hU d']; ring

theorem UVal.dunder_sim (op : BinOp) (x : UVal) (v : Operand) (hx : x.u.sys.valid = true) (hv : v.wf) :
    Sim (x.dunder op v) (siBin op (siOf (.val x)) (siOf v)) := by
  cases v with
  | num n =>
    cases op
    case div | mod => by_cases h0 : n = 0 <;> si_simp <;> si_done
    all_goals (si_simp <;> si_done)
  | val y =>
    have hy : y.u.sys.valid = true := hv
    cases op
    case div | mod => by_cases h : x.u.dim = y.u.dim <;> by_cases h0 : y.v = 0 <;> si_simp <;> si_done
    case mul => si_simp <;> si_done
    all_goals (by_cases h : x.u.dim = y.u.dim <;> si_simp <;> si_done)
  | arr y =>
    have hy : y.u.sys.valid = true := hv
    cases op
    case div | mod => by_cases h : x.u.dim = y.u.dim <;> by_cases h0 : 0 ∈ y.vs <;> si_simp <;> si_done
    case mul => si_simp <;> si_done
    all_goals (by_cases h : x.u.dim = y.u.dim <;> si_simp <;> si_done)

theorem UArr.dunder_sim (op : BinOp) (x : UArr) (v : Operand) (hx : x.u.sys.valid = true) (hv : v.wf) :
    Sim (x.dunder op v) (siBin op (siOf (.arr x)) (siOf v)) := by
  cases v with
  | num n =>
    cases op
    case div | mod => by_cases h0 : n = 0 <;> si_simp <;> si_done
    all_goals (si_simp <;> si_done)
  | val y =>
    have hy : y.u.sys.valid = true := hv
    cases op
    case div | mod => by_cases h : x.u.dim = y.u.dim <;> by_cases h0 : y.v = 0 <;> si_simp <;> si_done
    case mul =>
      si_simp; intro a _; left
      rw [siFactor_add hx, ← convFactor_mul_siFactor y.u.sys hx y.u.dim]; ring
    all_goals (by_cases h : x.u.dim = y.u.dim <;> si_simp <;> si_done)
  | arr y =>
    have hy : y.u.sys.valid = true := hv
    cases op
    case div | mod =>
      by_cases h : x.u.dim = y.u.dim <;> by_cases hl : x.vs.length = y.vs.length <;> by_cases h0 : 0 ∈ y.vs <;>
        si_simp <;> si_done
    case mul => by_cases hl : x.vs.length = y.vs.length <;> si_simp <;> si_done
    all_goals (by_cases h : x.u.dim = y.u.dim <;> by_cases hl : x.vs.length = y.vs.length <;> si_simp <;> si_done)

theorem UVal.rdunder_sim (op : BinOp) (x : UVal) (n : Rat) (hx : x.u.sys.valid = true) :
    Sim (x.rdunder op (.num n)) (siBin op (.num n) (siOf (.val x))) := by
  cases op
  case div | mod => by_cases h0 : x.v = 0 <;> si_simp <;> si_done
  all_goals (si_simp <;> si_done)

theorem UArr.rdunder_sim (op : BinOp) (x : UArr) (n : Rat) (hx : x.u.sys.valid = true) :
    Sim (x.rdunder op (.num n)) (siBin op (.num n) (siOf (.arr x))) := by
  cases op
  case div | mod => by_cases h0 : 0 ∈ x.vs <;> si_simp <;> si_done
  all_goals (si_simp <;> si_done)

theorem numOp_sim (op : BinOp) (a b : Rat) : Sim (numOp op a b) (siBin op (.num a) (.num b)) := by
  cases op
  case div | mod => by_cases h0 : b = 0 <;> si_simp
  all_goals si_simp

/-- Python's dispatch over the nine operand-type pairings -/
theorem binop_sim (op : BinOp) (a b : Operand) (ha : a.wf) (hb : b.wf) :
    Sim (binop op a b) (siBin op (siOf a) (siOf b)) := by
  cases a with
  | num m =>
    cases b with
    | num n => exact numOp_sim op m n
    | val y => exact UVal.rdunder_sim op y m hb
    | arr y => exact UArr.rdunder_sim op y m hb
  | val x => exact UVal.dunder_sim op x b ha hb
  | arr x => exact UArr.dunder_sim op x b ha hb

theorem abs_conv {f : Rat} (hf : 0 < f) (a : Rat) :
    (if 0 ≤ a * f then a * f else -(a * f)) = (if 0 ≤ a then a else -a) * f := by
  by_cases h : 0 ≤ a
  · have : 0 ≤ a * f := mul_nonneg h (le_of_lt hf)
    simp [h, this]
  · have : ¬ 0 ≤ a * f := by
      intro h'
      exact h (nonneg_of_mul_nonneg_left h' hf)
    simp [h, this]

theorem neg_sim (a : Operand) (ha : a.wf) : siNeg (siOf a) = siOf a.neg ∧ a.neg.wf := by
  cases a with
  | num n => si_simp
  | val x => have hx : x.u.sys.valid = true := ha; si_simp
  | arr x => have hx : x.u.sys.valid = true := ha; si_simp

theorem abs_sim (a : Operand) (ha : a.wf) : siAbs (siOf a) = siOf a.abs ∧ a.abs.wf := by
  cases a with
  | num n => si_simp
  | val x =>
    have hx : x.u.sys.valid = true := ha
    have := abs_conv (siFactor_pos hx x.u.dim); si_simp
  | arr x =>
    have hx : x.u.sys.valid = true := ha
    have := fun a => abs_conv (siFactor_pos hx x.u.dim) a
    si_simp

theorem inv_sim (a : Operand) (ha : a.wf) : Sim a.inv (siInv (siOf a)) := by
  cases a with
  | num n => by_cases h0 : n = 0 <;> si_simp
  | val x =>
    have hx : x.u.sys.valid = true := ha
    by_cases h0 : x.v = 0 <;> si_simp <;> si_done
  | arr x =>
    have hx : x.u.sys.valid = true := ha
    by_cases h0 : 0 ∈ x.vs <;> si_simp <;> si_done

/-! ### `**` -/

theorem raiseDim_ok_iff (d : Int) (e : Rat) (m : Int) :
    raiseDim d e = .ok m ↔ (d : Rat) * e = m := by
  unfold raiseDim
  constructor
  · intro h
    split at h
    · cases h
    · rename_i h0
      cases h
      have := not_not.mp h0
      exact sub_eq_zero.mp this
  · intro h
    have ht : ratTrunc ((d : Rat) * e) = m := by
      rw [h]; unfold ratTrunc
      split
      · exact Rat.floor_intCast m
      · have : (-(m : Rat)) = ((-m : Int) : Rat) := by push_cast; rfl
        rw [this, Rat.floor_intCast]; omega
    rw [ht, h]; simp

theorem raiseDim_error (d : Int) (e : Rat) {er : Err} (h : raiseDim d e = .error er) :
    ((d : Rat) * e).den ≠ 1 := by
  intro hden
  have := (raiseDim_ok_iff d e ((d : Rat) * e).num).2 (Rat.coe_int_num_of_den_eq_one hden).symm
  rw [this] at h; cases h

theorem raiseto_ok_iff (u : Units) (e : Rat) (u' : Units) :
    u.raiseto e = .ok u' ↔
      u'.sys = u.sys ∧ (u.dim.space : Rat) * e = u'.dim.space ∧ (u.dim.time : Rat) * e = u'.dim.time ∧
        (u.dim.qty : Rat) * e = u'.dim.qty := by
  unfold Units.raiseto
  constructor
  · intro h
    split at h
    · cases h
    · rename_i a ha
      split at h
      · cases h
      · rename_i b hb
        split at h
        · cases h
        · rename_i c hc
          cases h
          exact ⟨rfl, (raiseDim_ok_iff _ _ _).1 ha, (raiseDim_ok_iff _ _ _).1 hb, (raiseDim_ok_iff _ _ _).1 hc⟩
  · rintro ⟨hs, h1, h2, h3⟩
    rw [(raiseDim_ok_iff _ _ _).2 h1, (raiseDim_ok_iff _ _ _).2 h2, (raiseDim_ok_iff _ _ _).2 h3]
    cases u' with | mk s d => cases d; simp_all

/-- the code's `raiseto` and the specification's `dimPow` define the same partial function -/
theorem raiseto_dimPow (u : Units) (e : Rat) :
    (∀ u', u.raiseto e = .ok u' → dimPow u.dim e = some u'.dim) ∧
    (∀ er, u.raiseto e = .error er → dimPow u.dim e = none) := by
  constructor
  · intro u' h
    obtain ⟨_, h1, h2, h3⟩ := (raiseto_ok_iff u e u').1 h
    simp only [dimPow, h1, h2, h3, Rat.den_intCast, Rat.num_intCast, and_self, if_true]
  · intro er h
    unfold Units.raiseto at h
    simp only [dimPow]
    split at h
    · rename_i er' h1
      have := raiseDim_error _ _ h1
      simp [this]
    · split at h
      · rename_i er' h2
        have := raiseDim_error _ _ h2
        simp [this]
      · split at h
        · rename_i er' h3
          have := raiseDim_error _ _ h3
          simp [this]
        · cases h

/-- if `d · e` is an integer `m` then the (reduced) denominator `q` of `e = p/q` divides `d`: `d = c·q`, `m = c·p` -/
theorem den_dvd_of_mul_int (d m : Int) (e : Rat) (h : (d : Rat) * e = m) :
    ∃ c : Int, d = c * e.den ∧ m = c * e.num := by
  have hq : (e.den : Rat) ≠ 0 := by exact_mod_cast e.den_nz
  have he : e = (e.num : Rat) / (e.den : Rat) := (Rat.num_div_den e).symm
  have h1 : (d : Rat) * e.num = m * e.den := by
    rw [he] at h
    field_simp at h
    rw [h]; ring
  have h2 : d * e.num = m * (e.den : Int) := by exact_mod_cast h1
  have hg : Int.gcd (e.den : Int) e.num = 1 := by
    have := e.reduced
    simpa [Int.gcd, Nat.Coprime, Nat.gcd_comm] using this
  have hd : (e.den : Int) ∣ d :=
    Int.dvd_of_dvd_mul_left_of_gcd_one ⟨m, by rw [h2]; ring⟩ hg
  obtain ⟨c, hc'⟩ := hd
  refine ⟨c, by rw [hc']; ring, ?_⟩
  have hq' : (e.den : Int) ≠ 0 := by exact_mod_cast e.den_nz
  have : (e.den : Int) * (c * e.num) = (e.den : Int) * m := by
    rw [hc'] at h2; rw [← mul_assoc, h2]; ring
  exact (mul_left_cancel₀ hq' this).symm

/-- when `dim · e` is the integer vector `m` (`e = p/q` in lowest terms), the SI size of the unit is a perfect
`q`-th power `y^q`, and the SI size of the resulting unit is `y^p` -/
theorem siFactor_root {U : Sys} (hU : U.valid = true) (d m : Dim) (e : Rat)
    (h1 : (d.space : Rat) * e = m.space) (h2 : (d.time : Rat) * e = m.time) (h3 : (d.qty : Rat) * e = m.qty) :
    ∃ y : Rat, 0 < y ∧ siFactor U d = y ^ e.den ∧ siFactor U m = y ^ e.num := by
  obtain ⟨c1, hd1, hm1⟩ := den_dvd_of_mul_int _ _ _ h1
  obtain ⟨c2, hd2, hm2⟩ := den_dvd_of_mul_int _ _ _ h2
  obtain ⟨c3, hd3, hm3⟩ := den_dvd_of_mul_int _ _ _ h3
  refine ⟨siFactor U ⟨c1, c2, c3⟩, siFactor_pos hU _, ?_, ?_⟩
  · simp only [siFactor, hd1, hd2, hd3, zpow_mul, zpow_natCast, mul_pow]
  · simp only [siFactor, hm1, hm2, hm3, zpow_mul, mul_zpow]

/-- the float power of a positive base, as far as the homomorphism needs it, for one exponent `e = p/q`:
perfect `q`-th powers come out of the root, `(x · y^q)^e = x^e · y^p` -/
def PowScale (pyPow : Rat → Rat → Rat) (e : Rat) : Prop :=
  ∀ x y : Rat, 0 < x → 0 < y → pyPow (x * y ^ e.den) e = pyPow x e * y ^ e.num

/-- `powVal` (the value part of `**`) commutes with scaling by a perfect power; the contract is needed only for a
non-integer exponent -/
theorem powVal_scale (pyPow : Rat → Rat → Rat) (v e : Rat) {y : Rat} (hy : 0 < y)
    (hs : e.den ≠ 1 → PowScale pyPow e) :
    powVal pyPow (v * y ^ e.den) e =
      match powVal pyPow v e with
      | .error er => .error er
      | .ok w => .ok (w * y ^ e.num) := by
  have hyq : 0 < y ^ e.den := pow_pos hy _
  have h0 : v * y ^ e.den = 0 ↔ v = 0 := by
    constructor
    · intro h; rcases mul_eq_zero.1 h with h | h
      · exact h
      · exact absurd h (ne_of_gt hyq)
    · intro h; rw [h, zero_mul]
  have hneg : v * y ^ e.den < 0 ↔ v < 0 := by
    constructor
    · intro h
      by_contra hv
      exact absurd (mul_nonneg (not_lt.1 hv) (le_of_lt hyq)) (not_le.2 h)
    · intro h; exact mul_neg_of_neg_of_pos h hyq
  unfold powVal
  by_cases hd : e.den = 1
  · rw [if_pos hd, if_pos hd]
    have h0' : v * y ^ e.den = 0 ∧ e.num < 0 ↔ v = 0 ∧ e.num < 0 := by rw [h0]
    by_cases hz : v = 0 ∧ e.num < 0
    · rw [if_pos hz, if_pos (h0'.2 hz)]
    · rw [if_neg hz, if_neg (fun h => hz (h0'.1 h)), mul_zpow, hd, pow_one]
  · rw [if_neg hd, if_neg hd]
    by_cases hv : v < 0
    · simp [hv, hneg.2 hv]
    · have hv' : ¬ v * y ^ e.den < 0 := fun h => hv (hneg.1 h)
      simp only [hv, hv', if_false]
      by_cases hz : v = 0
      · simp only [hz, h0.2 hz, if_true]
        by_cases hen : e < 0 <;> simp [hen]
      · have hz' : ¬ v * y ^ e.den = 0 := fun h => hz (h0.1 h)
        simp only [hz, hz', if_false]
        have hpos : 0 < v := lt_of_le_of_ne (not_lt.1 hv) (Ne.symm hz)
        rw [hs hd v y hpos hy]

/-- `UnitValue ** e` -/
theorem UVal.pow_sim (pyPow : Rat → Rat → Rat) (x : UVal) (e : Rat) (hx : x.u.sys.valid = true)
    (hs : e.den ≠ 1 → PowScale pyPow e) :
    Sim (powOp pyPow (.val x) (.num e)) (siPow pyPow (siOf (.val x)) (siOf (.num e))) := by
  simp only [powOp, UVal.pow, siPow, siOf]
  cases hr : x.u.raiseto e with
  | error er =>
    have hn := (raiseto_dimPow x.u e).2 er hr
    cases powVal pyPow x.v e <;> cases powVal pyPow x.si e <;> simp [Sim, hn]
  | ok u' =>
    have hd := (raiseto_dimPow x.u e).1 u' hr
    obtain ⟨hsys, h1, h2, h3⟩ := (raiseto_ok_iff x.u e u').1 hr
    obtain ⟨y, hy, hF, hF'⟩ := siFactor_root hx x.u.dim u'.dim e h1 h2 h3
    have hv : powVal pyPow x.si e =
        (match powVal pyPow x.v e with
         | .error er => .error er
         | .ok w => .ok (w * y ^ e.num)) := by
      simp only [UVal.si, hF]
      exact powVal_scale pyPow x.v e hy hs
    rw [hv, hd]
    cases powVal pyPow x.v e with
    | error er => simp [Sim]
    | ok w =>
      simp only [Sim, siOf, UVal.si, Operand.wf, hsys, hF', hx, and_true]

/-- `a ** b` over all operand pairings; `R` restricts the exponents for which the power contract is available -/
theorem powOp_sim (pyPow : Rat → Rat → Rat) (a b : Operand) (ha : a.wf) (hb : b.wf)
    (hs : ∀ e, b = .num e → e.den ≠ 1 → PowScale pyPow e) :
    Sim (powOp pyPow a b) (siPow pyPow (siOf a) (siOf b)) := by
  cases a with
  | num m =>
    cases b with
    | num e =>
      simp only [powOp, siPow, siOf]
      cases powVal pyPow m e <;> simp [Sim, siOf, Operand.wf]
    | val y => simp [powOp, siPow, siOf, Sim]
    | arr y => simp [powOp, siPow, siOf, Sim]
  | val x =>
    cases b with
    | num e => exact UVal.pow_sim pyPow x e ha (hs e rfl)
    | val y => simp [powOp, siPow, siOf, Sim]
    | arr y => simp [powOp, siPow, siOf, Sim]
  | arr x => cases b <;> simp [powOp, siPow, siOf, Sim]

/-! ### expression trees -/

def Expr.wf : Expr → Prop
  | .leaf o => o.wf
  | .bin _ a b => a.wf ∧ b.wf
  | .pow a b => a.wf ∧ b.wf
  | .neg a => a.wf
  | .abs a => a.wf
  | .inv a => a.wf

/-- every exponent a `**` node of the tree evaluates to that is not an integer has the scaling contract -/
def Expr.expsOK (pyPow : Rat → Rat → Rat) : Expr → Prop
  | .leaf _ => True
  | .bin _ a b => a.expsOK pyPow ∧ b.expsOK pyPow
  | .pow a b => a.expsOK pyPow ∧ b.expsOK pyPow ∧
      ∀ n, eval pyPow b = .ok (.num n) → n.den ≠ 1 → PowScale pyPow n
  | .neg a => a.expsOK pyPow
  | .abs a => a.expsOK pyPow
  | .inv a => a.expsOK pyPow

theorem Sim.ok_inv {a : Res Operand} {b : Res SIVal} {r : Operand} (h : Sim a b) (ha : a = .ok r) :
    b = .ok (siOf r) ∧ r.wf := by
  subst ha; exact h

theorem eval_sim (pyPow : Rat → Rat → Rat) (e : Expr) (he : e.wf) (hp : e.expsOK pyPow) :
    Sim (eval pyPow e) (evalSI pyPow e) := by
  induction e with
  | leaf o => exact ⟨rfl, he⟩
  | bin op a b iha ihb =>
    have ha := iha he.1 hp.1
    have hb := ihb he.2 hp.2
    simp only [eval, evalSI]
    cases hea : eval pyPow a with
    | error e => rw [hea] at ha; obtain ⟨e', h'⟩ := ha; simp [Sim, h']
    | ok x =>
      rw [hea] at ha
      obtain ⟨h1, wx⟩ := ha
      cases heb : eval pyPow b with
      | error e => rw [heb] at hb; obtain ⟨e', h'⟩ := hb; simp [Sim, h1, h']
      | ok y =>
        rw [heb] at hb
        obtain ⟨h2, wy⟩ := hb
        simp only [h1, h2]
        exact binop_sim op x y wx wy
  | pow a b iha ihb =>
    have ha := iha he.1 hp.1
    have hb := ihb he.2 hp.2.1
    simp only [eval, evalSI]
    cases hea : eval pyPow a with
    | error e => rw [hea] at ha; obtain ⟨e', h'⟩ := ha; simp [Sim, h']
    | ok x =>
      rw [hea] at ha
      obtain ⟨h1, wx⟩ := ha
      cases heb : eval pyPow b with
      | error e => rw [heb] at hb; obtain ⟨e', h'⟩ := hb; simp [Sim, h1, h']
      | ok y =>
        rw [heb] at hb
        obtain ⟨h2, wy⟩ := hb
        simp only [h1, h2]
        exact powOp_sim pyPow x y wx wy (fun n hn => hp.2.2 n (by rw [heb, hn]))
  | neg a ih =>
    have ha := ih he hp
    simp only [eval, evalSI]
    cases hea : eval pyPow a with
    | error e => rw [hea] at ha; obtain ⟨e', h'⟩ := ha; simp [Sim, h']
    | ok x =>
      rw [hea] at ha
      obtain ⟨h1, wx⟩ := ha
      simp only [h1, Sim]
      have := neg_sim x wx
      exact ⟨by rw [this.1], this.2⟩
  | abs a ih =>
    have ha := ih he hp
    simp only [eval, evalSI]
    cases hea : eval pyPow a with
    | error e => rw [hea] at ha; obtain ⟨e', h'⟩ := ha; simp [Sim, h']
    | ok x =>
      rw [hea] at ha
      obtain ⟨h1, wx⟩ := ha
      simp only [h1, Sim]
      have := abs_sim x wx
      exact ⟨by rw [this.1], this.2⟩
  | inv a ih =>
    have ha := ih he hp
    simp only [eval, evalSI]
    cases hea : eval pyPow a with
    | error e => rw [hea] at ha; obtain ⟨e', h'⟩ := ha; simp [Sim, h']
    | ok x =>
      rw [hea] at ha
      obtain ⟨h1, wx⟩ := ha
      simp only [h1]
      exact inv_sim x wx

end Strengths
