/-
Helper lemmas for C05 (arithmetic of quantities): SI homomorphism of every operator method.
-/
import Strengths.Proofs.Units
import Strengths.Model.UnitsArith

namespace Strengths

end Strengths
