/-
Helper lemmas for C05 (arithmetic of quantities): every operator method of the model is a
homomorphism onto the SI-level specification (`Sim`), for all valid unit systems.
-/
import Strengths.Proofs.Units
import Strengths.Model.UnitsArith
import Mathlib.Tactic.Ring

namespace Strengths
set_option linter.unusedSimpArgs false
set_option linter.unusedVariables false

/-! ### scale algebra -/

theorem convFactor_mul_siFactor (U : Sys) {V : Sys} (hV : V.valid = true) (d : Dim) :
    convFactor U V d * siFactor V d = siFactor U d := by
  rw [convFactor_eq_div]; have := siFactor_ne hV d; field_simp

theorem convFactor_ne {U V : Sys} (hU : U.valid = true) (hV : V.valid = true) (d : Dim) : convFactor U V d ≠ 0 :=
  ne_of_gt (convFactor_pos hU hV d)

theorem siFactor_add {U : Sys} (hU : U.valid = true) (a b : Dim) :
    siFactor U (a.add b) = siFactor U a * siFactor U b := by
  simp only [siFactor, Dim.add]
  rw [zpow_add₀ (Sys.sSpace_ne hU), zpow_add₀ (Sys.sTime_ne hU), zpow_add₀ (Sys.sQty_ne hU)]
  ring

theorem siFactor_neg (U : Sys) (a : Dim) : siFactor U a.neg = (siFactor U a)⁻¹ := by
  simp only [siFactor, Dim.neg, zpow_neg, mul_inv]

theorem siFactor_add_neg {U : Sys} (hU : U.valid = true) (a b : Dim) :
    siFactor U (a.add b.neg) = siFactor U a / siFactor U b := by
  rw [siFactor_add hU, siFactor_neg, div_eq_mul_inv]

theorem Dim.add_neg_eq_sub (a b : Dim) : a.add b.neg = a.sub b := by
  simp [Dim.add, Dim.neg, Dim.sub, sub_eq_add_neg]

theorem pyMod_mul_right (a b : Rat) {f : Rat} (hf : f ≠ 0) : pyMod (a * f) (b * f) = pyMod a b * f := by
  unfold pyMod
  rw [mul_div_mul_right a b hf]
  ring

/-! ### the SI value of what a method computes, in terms of the SI values of its operands
(`U` is the system of `self`, valid; `V` the system of the other operand) -/

theorem add_conv {U : Sys} (hU : U.valid = true) (V : Sys) (d : Dim) (a b : Rat) :
    a * siFactor U d + b * siFactor V d = (a + b * convFactor V U d) * siFactor U d := by
  rw [add_mul, mul_assoc, convFactor_mul_siFactor V hU]

theorem sub_conv {U : Sys} (hU : U.valid = true) (V : Sys) (d : Dim) (a b : Rat) :
    a * siFactor U d - b * siFactor V d = (a + -(b * convFactor V U d)) * siFactor U d := by
  rw [add_mul, neg_mul, mul_assoc, convFactor_mul_siFactor V hU, sub_eq_add_neg]

theorem mul_conv {U : Sys} (hU : U.valid = true) (V : Sys) (d d' : Dim) (a b : Rat) :
    a * siFactor U d * (b * siFactor V d') = a * (b * convFactor V U d') * siFactor U (d.add d') := by
  rw [siFactor_add hU, ← convFactor_mul_siFactor V hU d']; ring

theorem div_conv {U V : Sys} (hU : U.valid = true) (hV : V.valid = true) (d d' : Dim) (a b : Rat) :
    a * siFactor U d / (b * siFactor V d') = a * (1 / b * convFactor V U d'.neg) * siFactor U (d.add d'.neg) := by
  rw [siFactor_add_neg hU, convFactor_eq_div, siFactor_neg, siFactor_neg]
  have := siFactor_ne hU d'
  have := siFactor_ne hV d'
  by_cases hb : b = 0
  · simp [hb]
  · field_simp

theorem pyMod_conv {U : Sys} (hU : U.valid = true) (V : Sys) (d : Dim) (a b : Rat) :
    pyMod (a * siFactor U d) (b * siFactor V d) = pyMod a (b * convFactor V U d) * siFactor U d := by
  rw [← convFactor_mul_siFactor V hU d, ← mul_assoc, pyMod_mul_right _ _ (siFactor_ne hU d)]

theorem pyMod_conv' {U : Sys} (hU : U.valid = true) (V : Sys) (d : Dim) (a b : Rat) :
    pyMod (b * siFactor V d) (a * siFactor U d) = pyMod (b * convFactor V U d) a * siFactor U d := by
  rw [← convFactor_mul_siFactor V hU d, ← mul_assoc, pyMod_mul_right _ _ (siFactor_ne hU d)]

/-! ### simulation relation -/

/-- the invariant of `UnitsSystem`: every quantity carries a valid system -/
def Operand.wf : Operand → Prop
  | .num _ => True
  | .val x => x.u.sys.valid = true
  | .arr x => x.u.sys.valid = true

/-- the model's outcome `a` and the SI-level outcome `b` agree: both raise, or `b` is the SI reading of `a` -/
def Sim (a : Res Operand) (b : Res SIVal) : Prop :=
  match a with
  | .ok r => b = .ok (siOf r) ∧ r.wf
  | .error _ => ∃ e, b = .error e

macro "si_simp" : tactic => `(tactic| simp [UVal.dunder, UVal.rdunder, UArr.dunder, UArr.rdunder, Operand.inv, Operand.neg,
  Operand.abs, negRes, UVal.invert, UArr.invert, Units.invert, numOp, siNeg, siAbs, siInv, Pay.map,
  UVal.sum, UVal.product, UVal.modulo, UVal.rmodulo, UArr.sum, UArr.product,
  UArr.modulo, UArr.rmodulo, siBin, siOf, Sim, BinOp.needsNonZero, BinOp.additive, qtyOk, Pay.zip, Pay.hasZero, ratOp,
  Operand.wf, UVal.si, UArr.si, UVal.toSys, UArr.toSys, Units.multiply, siFactor_ne, convFactor_ne,
  add_conv, sub_conv, mul_conv, div_conv, pyMod_conv, pyMod_conv', pyMod_mul_right, Dim.add_neg_eq_sub,
  siFactor_neg, convFactor_self, List.zipWith_map_right, List.zipWith_map_left, *])

macro "si_done" : tactic => `(tactic| all_goals (try (intros; first | (simp; done) | (left; ring_nf; done) | (ring_nf; done) | (field_simp; done) | (field_simp; ring_nf; done))))

theorem mul_conv2 {U : Sys} (hU : U.valid = true) (V : Sys) (d d' : Dim) (b : Rat) :
    siFactor U d * b * siFactor V d' = b * convFactor V U d' * siFactor U (d.add d') := by
  rw [siFactor_add hU, ← convFactor_mul_siFactor V hU d']; ring

theorem UVal.dunder_sim (op : BinOp) (x : UVal) (v : Operand) (hx : x.u.sys.valid = true) (hv : v.wf) :
    Sim (x.dunder op v) (siBin op (siOf (.val x)) (siOf v)) := by
  cases v with
  | num n =>
    cases op
    case div | mod => by_cases h0 : n = 0 <;> si_simp <;> si_done
    all_goals (si_simp <;> si_done)
  | val y =>
    have hy : y.u.sys.valid = true := hv
    cases op
    case div | mod => by_cases h : x.u.dim = y.u.dim <;> by_cases h0 : y.v = 0 <;> si_simp <;> si_done
    case mul => si_simp <;> si_done
    all_goals (by_cases h : x.u.dim = y.u.dim <;> si_simp <;> si_done)
  | arr y =>
    have hy : y.u.sys.valid = true := hv
    cases op
    case div | mod => by_cases h : x.u.dim = y.u.dim <;> by_cases h0 : 0 ∈ y.vs <;> si_simp <;> si_done
    case mul => si_simp <;> si_done
    all_goals (by_cases h : x.u.dim = y.u.dim <;> si_simp <;> si_done)

theorem UArr.dunder_sim (op : BinOp) (x : UArr) (v : Operand) (hx : x.u.sys.valid = true) (hv : v.wf) :
    Sim (x.dunder op v) (siBin op (siOf (.arr x)) (siOf v)) := by
  cases v with
  | num n =>
    cases op
    case div | mod => by_cases h0 : n = 0 <;> si_simp <;> si_done
    all_goals (si_simp <;> si_done)
  | val y =>
    have hy : y.u.sys.valid = true := hv
    cases op
    case div | mod => by_cases h : x.u.dim = y.u.dim <;> by_cases h0 : y.v = 0 <;> si_simp <;> si_done
    case mul =>
      si_simp; intro a _; left
      rw [siFactor_add hx, ← convFactor_mul_siFactor y.u.sys hx y.u.dim]; ring
    all_goals (by_cases h : x.u.dim = y.u.dim <;> si_simp <;> si_done)
  | arr y =>
    have hy : y.u.sys.valid = true := hv
    cases op
    case div | mod =>
      by_cases h : x.u.dim = y.u.dim <;> by_cases hl : x.vs.length = y.vs.length <;> by_cases h0 : 0 ∈ y.vs <;>
        si_simp <;> si_done
    case mul => by_cases hl : x.vs.length = y.vs.length <;> si_simp <;> si_done
    all_goals (by_cases h : x.u.dim = y.u.dim <;> by_cases hl : x.vs.length = y.vs.length <;> si_simp <;> si_done)

theorem UVal.rdunder_sim (op : BinOp) (x : UVal) (n : Rat) (hx : x.u.sys.valid = true) :
    Sim (x.rdunder op (.num n)) (siBin op (.num n) (siOf (.val x))) := by
  cases op
  case div | mod => by_cases h0 : x.v = 0 <;> si_simp <;> si_done
  all_goals (si_simp <;> si_done)

theorem UArr.rdunder_sim (op : BinOp) (x : UArr) (n : Rat) (hx : x.u.sys.valid = true) :
    Sim (x.rdunder op (.num n)) (siBin op (.num n) (siOf (.arr x))) := by
  cases op
  case div | mod => by_cases h0 : 0 ∈ x.vs <;> si_simp <;> si_done
  all_goals (si_simp <;> si_done)

theorem numOp_sim (op : BinOp) (a b : Rat) : Sim (numOp op a b) (siBin op (.num a) (.num b)) := by
  cases op
  case div | mod => by_cases h0 : b = 0 <;> si_simp
  all_goals si_simp

end Strengths
