/-
Termination of the correction loop of `GenerateStochasticDistribution` on a FAIR stream of uniform draws (C14).

The probabilistic statement ("terminates with probability 1 when the draws are independent and uniform") is
replaced by a deterministic fairness condition on the infinite stream `σ : ℕ → ℚ` of uniform draws:
`Fair σ` — every non-empty sub-interval of `[0, 1)` is hit infinitely often.  An i.i.d. uniform stream is fair
almost surely (second Borel–Cantelli lemma): that step is measure theory and stays TRUSTED; everything from
`Fair σ` to "the loop halts" is proved here.
-/
import Mathlib.Data.Nat.Pairing
import Mathlib.Algebra.Order.Floor.Semiring
import Mathlib.Algebra.Order.Archimedean.Basic
import Strengths.Proofs.InitState

namespace Strengths
open Gen Finset

/-- every non-empty sub-interval `[lo, hi) ⊆ [0, 1)` is hit at arbitrarily late times -/
def Fair (σ : Nat → Rat) : Prop :=
  ∀ lo hi : Rat, 0 ≤ lo → lo < hi → hi ≤ 1 → ∀ t, ∃ t', t ≤ t' ∧ lo ≤ σ t' ∧ σ t' < hi

/-- the draws `σ t0, …, σ (t0+N-1)` as the loop sees them -/
def streamSeg (σ : Nat → Rat) (t0 N : Nat) : List Draw := (List.range N).map fun t => Draw.unif (σ (t0 + t))

theorem streamSeg_zero (σ : Nat → Rat) (t0 : Nat) : streamSeg σ t0 0 = [] := rfl

theorem streamSeg_succ (σ : Nat → Rat) (t0 N : Nat) :
    streamSeg σ t0 (N + 1) = Draw.unif (σ t0) :: streamSeg σ (t0 + 1) N := by
  unfold streamSeg
  rw [List.range_succ_eq_map, List.map_cons, List.map_map]
  simp only [Nat.add_zero, List.cons.injEq, true_and]
  apply List.map_congr_left
  intro t _
  simp only [Function.comp, Nat.succ_eq_add_one]
  congr 2; omega

theorem streamSeg_add (σ : Nat → Rat) (t0 N M : Nat) :
    streamSeg σ t0 (N + M) = streamSeg σ t0 N ++ streamSeg σ (t0 + N) M := by
  induction N generalizing t0 with
  | zero => simp [streamSeg_zero]
  | succ N ih =>
    rw [Nat.add_right_comm, streamSeg_succ, streamSeg_succ, ih (t0 + 1), List.cons_append]
    congr 3; omega

/-- one pass of the `for(;;)`: `none` = nothing changed, `some sto'` = one molecule added / removed -/
def pass (x : State) (n s : Nat) (T : Rat) (rm : Bool) (u : Rat) (sto : State) : Option State :=
  match hitCell x s (u * T) (List.range n) 0 with
  | none => none
  | some i =>
    if rm then (if sto i s > 0 then some (sto.update i s (sto i s - 1)) else none)
    else some (sto.update i s (sto i s + 1))

theorem correctSpecies_pass (x : State) (n s : Nat) (T : Rat) (rm : Bool) (u : Rat) (ds : List Draw) (k : Nat)
    (sto : State) :
    correctSpecies x n s T rm (Draw.unif u :: ds) (k + 1) sto =
      match pass x n s T rm u sto with
      | none => correctSpecies x n s T rm ds (k + 1) sto
      | some sto' => correctSpecies x n s T rm ds k sto' := by
  simp only [correctSpecies, pass]
  cases hitCell x s (u * T) (List.range n) 0 with
  | none => rfl
  | some i =>
    cases rm
    · simp
    · by_cases h : sto i s > 0 <;> simp [h]

/-- loop invariant of one species: non-negative integers, nothing outside the support of the real-valued
amounts, and (when removing) at least as many molecules present as still have to be removed -/
def LoopInv (x : State) (n s : Nat) (rm : Bool) (k : Nat) (sto : State) : Prop :=
  (∀ i, IsNNInt (sto i s)) ∧ (∀ i, x i s = 0 → sto i s = 0) ∧ (rm = true → (k : Rat) ≤ colSum sto n s)

theorem pass_inv {x : State} {n s : Nat} {T : Rat} {rm : Bool} {u : Rat} {sto sto' : State} {k : Nat}
    (hT : 0 ≤ T) (hu : 0 ≤ u) (hinv : LoopInv x n s rm (k + 1) sto) (h : pass x n s T rm u sto = some sto') :
    LoopInv x n s rm k sto' := by
  obtain ⟨h1, h2, h3⟩ := hinv
  unfold pass at h
  split at h
  · cases h
  · rename_i i hhit
    obtain ⟨hmem, hxpos⟩ := hitCell_pos (by positivity) hhit
    have hi : i < n := List.mem_range.1 hmem
    cases rm
    · simp only [Bool.false_eq_true, if_false, Option.some.injEq] at h
      subst h
      refine ⟨fun j => ?_, fun j hj => ?_, fun hc => by cases hc⟩
      · rw [State.update_get]; split
        · exact (h1 i).add_one
        · exact h1 j
      · rw [State.update_get]; split
        · rename_i hc; rw [hc.1] at hj; exact absurd hj (ne_of_gt hxpos)
        · exact h2 j hj
    · simp only [if_true] at h
      split at h
      · rename_i hpos
        cases h
        refine ⟨fun j => ?_, fun j hj => ?_, fun _ => ?_⟩
        · rw [State.update_get]; split
          · exact (h1 i).sub_one hpos
          · exact h1 j
        · rw [State.update_get]; split
          · rename_i hc; rw [hc.1] at hj; exact absurd hj (ne_of_gt hxpos)
          · exact h2 j hj
        · have hc : colSum (sto.update i s (sto i s - 1)) n s = colSum sto n s + ((sto i s - 1) - sto i s) := by
            unfold colSum
            rw [sum_range_update_point (fun j => sto j s) (fun j => (sto.update i s (sto i s - 1)) j s) n i hi
              (fun j hj => State.update_other_cell _ _ _ _ _ _ hj)]
            simp
          have := h3 rfl
          rw [hc]; push_cast at this; linarith
      · cases h

/-- while removals are still due, some cell holds a molecule, and its real-valued amount is positive -/
theorem exists_removable {x : State} {n s : Nat} {k : Nat} {sto : State} (hx : ∀ i, 0 ≤ x i s)
    (hinv : LoopInv x n s true (k + 1) sto) : ∃ i, i < n ∧ 0 < sto i s ∧ 0 < x i s := by
  obtain ⟨h1, h2, h3⟩ := hinv
  have hsum : 0 < colSum sto n s := by
    have := h3 rfl; push_cast at this
    have hk : (0 : Rat) ≤ (k : Rat) := Nat.cast_nonneg k
    linarith
  by_contra hne
  have : ∀ i ∈ range n, sto i s = 0 := by
    intro i hi
    by_contra hpos
    have hp : 0 < sto i s := lt_of_le_of_ne (h1 i).nonneg (Ne.symm hpos)
    have hxi : x i s ≠ 0 := fun h0 => hpos (h2 i h0)
    exact hne ⟨i, mem_range.1 hi, hp, lt_of_le_of_ne (hx i) (Ne.symm hxi)⟩
  unfold colSum at hsum
  rw [Finset.sum_eq_zero this] at hsum
  exact lt_irrefl _ hsum

/-- the progress interval of `redist_progress_partial`, in terms of `pass` -/
theorem pass_progress (x : State) (n s : Nat) (rm : Bool) (hx : ∀ i, 0 ≤ x i s) (hT : 0 < colSum x n s) (sto : State)
    (hrm : rm = true → ∃ i, i < n ∧ 0 < sto i s ∧ 0 < x i s) :
    ∃ lo hi : Rat, 0 ≤ lo ∧ lo < hi ∧ hi ≤ 1 ∧ ∀ u, lo ≤ u → u < hi → (pass x n s (colSum x n s) rm u sto).isSome := by
  obtain ⟨lo, hi, h0, h1, h2, h3⟩ := correctSpecies_progress x n s rm hx hT sto hrm
  refine ⟨lo, hi, h0, h1, h2, fun u hlo hhi => ?_⟩
  obtain ⟨sto', heq⟩ := h3 u hlo hhi [] 0
  rw [correctSpecies_pass] at heq
  cases hp : pass x n s (colSum x n s) rm u sto with
  | some _ => rfl
  | none =>
    rw [hp] at heq
    simp [correctSpecies] at heq

/-- **the loop halts on every fair stream**: from every loop state that satisfies the invariant, at every time `t0`,
there is a number `N` of further draws after which the `for(;;)` has ended, having consumed exactly those draws -/
theorem correctSpecies_halts_fair (x : State) (n s : Nat) (rm : Bool) (hx : ∀ i, 0 ≤ x i s)
    (hT : 0 < colSum x n s) (σ : Nat → Rat) (hfair : Fair σ) (hσ : ∀ t, 0 ≤ σ t) :
    ∀ (k : Nat) (sto : State) (t0 : Nat), LoopInv x n s rm k sto →
      ∃ N out, correctSpecies x n s (colSum x n s) rm (streamSeg σ t0 N) k sto = some (out, []) := by
  intro k
  induction k with
  | zero => intro sto t0 _; exact ⟨0, sto, by simp [streamSeg_zero, correctSpecies]⟩
  | succ k ih =>
    intro sto t0 hinv
    have hrm : rm = true → ∃ i, i < n ∧ 0 < sto i s ∧ 0 < x i s := by
      intro h; subst h; exact exists_removable hx hinv
    obtain ⟨lo, hi, h0, h1, h2, hprog⟩ := pass_progress x n s rm hx hT sto hrm
    obtain ⟨t', ht', hlo, hhi⟩ := hfair lo hi h0 h1 h2 t0
    -- induction on the distance to the promised hit
    obtain ⟨d, rfl⟩ : ∃ d, t' = t0 + d := ⟨t' - t0, by omega⟩
    clear ht'
    induction d generalizing t0 with
    | zero =>
      have hsome := hprog (σ t0) (by simpa using hlo) (by simpa using hhi)
      obtain ⟨sto', hp⟩ := Option.isSome_iff_exists.1 hsome
      obtain ⟨N, out, hN⟩ := ih sto' (t0 + 1) (pass_inv (le_of_lt hT) (hσ t0) hinv hp)
      refine ⟨N + 1, out, ?_⟩
      rw [streamSeg_succ, correctSpecies_pass, hp]; exact hN
    | succ d ihd =>
      cases hp : pass x n s (colSum x n s) rm (σ t0) sto with
      | some sto' =>
        obtain ⟨N, out, hN⟩ := ih sto' (t0 + 1) (pass_inv (le_of_lt hT) (hσ t0) hinv hp)
        refine ⟨N + 1, out, ?_⟩
        rw [streamSeg_succ, correctSpecies_pass, hp]; exact hN
      | none =>
        have e1 : t0 + (d + 1) = t0 + 1 + d := by omega
        obtain ⟨N, out, hN⟩ := ihd (t0 + 1) (by rw [← e1]; exact hlo) (by rw [← e1]; exact hhi)
        refine ⟨N + 1, out, ?_⟩
        rw [streamSeg_succ, correctSpecies_pass, hp]; exact hN

/-! ### all species, and the whole of `GenerateStochasticDistribution` -/

/-- more draws after the ones a halting loop consumed are left untouched -/
theorem correctSpecies_append (x : State) (n s : Nat) (T : Rat) (rm : Bool) (more : List Draw) :
    ∀ (ds : List Draw) (k : Nat) (sto out : State) (rest : List Draw),
      correctSpecies x n s T rm ds k sto = some (out, rest) →
      correctSpecies x n s T rm (ds ++ more) k sto = some (out, rest ++ more) := by
  intro ds
  induction ds with
  | nil =>
    intro k sto out rest h
    cases k with
    | zero =>
      simp only [correctSpecies] at h; cases h
      cases more <;> simp [correctSpecies]
    | succ k => simp [correctSpecies] at h
  | cons d ds ih =>
    intro k sto out rest h
    cases k with
    | zero => simp only [correctSpecies] at h; cases h; simp [correctSpecies]
    | succ k =>
      cases d with
      | pois m => simp [correctSpecies] at h
      | norm v => simp [correctSpecies] at h
      | unif u =>
        rw [List.cons_append, correctSpecies_pass]
        rw [correctSpecies_pass] at h
        cases hp : pass x n s T rm u sto with
        | none => rw [hp] at h; exact ih _ _ _ _ h
        | some sto' => rw [hp] at h; exact ih _ _ _ _ h

theorem mem_streamSeg {σ : Nat → Rat} {t0 N : Nat} {u : Rat} (h : Draw.unif u ∈ streamSeg σ t0 N) : ∃ t, u = σ t := by
  simp only [streamSeg, List.mem_map, List.mem_range] at h
  obtain ⟨t, _, ht⟩ := h
  exact ⟨t0 + t, by cases ht; rfl⟩

/-- step 5 halts on every fair stream, for all species in turn -/
theorem redistCorrect_halts_fair (x : State) (n : Nat) (hx : ∀ i s, 0 ≤ x i s) (σ : Nat → Rat) (hfair : Fair σ)
    (hσ : ∀ t, 0 ≤ σ t) :
    ∀ (l : List Nat) (sto : State) (t0 : Nat), RedistInv x sto →
      ∃ N out, redistCorrect x n l (streamSeg σ t0 N) sto = some (out, []) := by
  intro l
  induction l with
  | nil => intro sto t0 _; exact ⟨0, sto, by simp [streamSeg_zero, redistCorrect]⟩
  | cons s rest ih =>
    intro sto t0 hinv
    have hdelta := redistDelta_eq (x := x) (n := n) (s := s) (fun i => hinv.1 i s)
    by_cases hz : redistDelta x sto n s = 0
    · obtain ⟨N, out, hN⟩ := ih sto t0 hinv
      exact ⟨N, out, by simp only [redistCorrect, hz, beq_self_eq_true, if_true]; exact hN⟩
    · set δ := redistDelta x sto n s with hδ
      have hxs : ∀ i, 0 ≤ x i s := fun i => hx i s
      have hTnn : 0 ≤ colSum x n s := Finset.sum_nonneg (fun i _ => hx i s)
      have hfl : (0 : Int) ≤ ⌊colSum x n s⌋ := Int.floor_nonneg.2 hTnn
      have hflr : (0 : Rat) ≤ (⌊colSum x n s⌋ : Rat) := by exact_mod_cast hfl
      have hsto_nn : 0 ≤ colSum sto n s := Finset.sum_nonneg (fun i _ => (hinv.1 i s).nonneg)
      -- the real-valued total of the species is positive whenever a correction is due
      have hTpos : 0 < colSum x n s := by
        rcases lt_or_gt_of_ne hz with hneg | hpos
        · have h1 : (δ : Rat) < 0 := by exact_mod_cast hneg
          have h2 : (1 : Rat) ≤ (⌊colSum x n s⌋ : Rat) := by
            have : (0 : Int) < ⌊colSum x n s⌋ := by
              have : (0 : Rat) < (⌊colSum x n s⌋ : Rat) := by linarith
              exact_mod_cast this
            exact_mod_cast this
          have h3 : (⌊colSum x n s⌋ : Rat) ≤ colSum x n s := Int.floor_le _
          linarith
        · have h1 : (0 : Rat) < (δ : Rat) := by exact_mod_cast hpos
          have hs : 0 < colSum sto n s := by linarith
          by_contra hnot
          have hzero : colSum x n s = 0 := le_antisymm (not_lt.1 hnot) hTnn
          have hall : ∀ i ∈ range n, x i s = 0 :=
            (Finset.sum_eq_zero_iff_of_nonneg (fun i _ => hx i s)).1 hzero
          have : colSum sto n s = 0 := Finset.sum_eq_zero (fun i hi => hinv.2 i s (hall i hi))
          linarith
      have hloop : LoopInv x n s (decide (δ > 0)) δ.natAbs sto := by
        refine ⟨fun i => hinv.1 i s, fun i => hinv.2 i s, fun hrm => ?_⟩
        have hpos : δ > 0 := by simpa using hrm
        have h0 : ((δ.natAbs : Int)) = δ := Int.natAbs_of_nonneg (le_of_lt hpos)
        have : ((δ.natAbs : Nat) : Rat) = (δ : Rat) := by rw [← Int.cast_natCast, h0]
        rw [this, hdelta]; linarith
      obtain ⟨N1, out1, h1⟩ := correctSpecies_halts_fair x n s (decide (δ > 0)) hxs hTpos σ hfair hσ δ.natAbs sto t0 hloop
      have hu1 : ∀ u, Draw.unif u ∈ streamSeg σ t0 N1 → 0 ≤ u := by
        intro u hu; obtain ⟨t, rfl⟩ := mem_streamSeg hu; exact hσ t
      obtain ⟨c1, c2, c3, _⟩ := correctSpecies_spec x n s _ _ hTnn _ _ sto out1 [] h1 hu1
        (fun i => hinv.1 i s) (fun i => hinv.2 i s)
      have hinv1 : RedistInv x out1 := by
        constructor
        · intro i s'
          by_cases he : s' = s
          · subst he; exact c2 i
          · rw [c1 i s' he]; exact hinv.1 i s'
        · intro i s' hx0
          by_cases he : s' = s
          · subst he; exact c3 i hx0
          · rw [c1 i s' he]; exact hinv.2 i s' hx0
      obtain ⟨N2, out, h2⟩ := ih out1 (t0 + N1) hinv1
      refine ⟨N1 + N2, out, ?_⟩
      have happ := correctSpecies_append x n s (colSum x n s) (decide (δ > 0)) (streamSeg σ (t0 + N1) N2)
        _ _ _ _ _ h1
      have hz' : (δ == 0) = false := by simpa using hz
      simp only [redistCorrect, ← hδ, hz', Bool.false_eq_true, if_false, streamSeg_add, speciesTotal_eq, happ,
        List.nil_append]
      exact h2

theorem redistEntry_append {v : Rat} {ds rest : List Draw} {r : Rat} (more : List Draw)
    (h : redistEntry v ds = some (r, rest)) : redistEntry v (ds ++ more) = some (r, rest ++ more) := by
  unfold redistEntry at h ⊢
  split at h
  · rename_i h1
    simp only [h1, if_true]
    split at h
    · rename_i h2
      simp only [h2, if_true]
      cases ds with
      | nil => simp at h
      | cons d ds' => cases d <;> simp_all
    · rename_i h2
      simp only [h2, if_false]
      cases h; rfl
  · rename_i h1
    simp only [h1, if_false]
    cases ds with
    | nil => simp at h
    | cons d ds' => cases d <;> simp_all

theorem redistDraw_append (x : State) (more : List Draw) :
    ∀ (l : List (Nat × Nat)) (ds : List Draw) (acc out : State) (rest : List Draw),
      redistDraw x l ds acc = some (out, rest) → redistDraw x l (ds ++ more) acc = some (out, rest ++ more) := by
  intro l
  induction l with
  | nil => intro ds acc out rest h; simp only [redistDraw] at h ⊢; cases h; rfl
  | cons p l ih =>
    intro ds acc out rest h
    obtain ⟨i0, s0⟩ := p
    simp only [redistDraw] at h ⊢
    split at h
    · cases h
    · rename_i v ds1 he
      rw [redistEntry_append more he]
      exact ih _ _ _ _ h

/-- **`redist_terminates_on_fair_stream`**: whatever the Poisson / normal draws `ds0` of step 2 were, when they are
followed by a fair stream of uniform draws in `[0,1)` the whole `GenerateStochasticDistribution` returns a state after
finitely many draws (all the `for(;;)` loops of step 5 end) -/
theorem redist_halts_fair (x : State) (n ns : Nat) (hx : ∀ i s, 0 ≤ x i s) (σ : Nat → Rat) (hfair : Fair σ)
    (hσ : ∀ t, 0 ≤ σ t) {ds0 : List Draw} {sto : State}
    (h2 : redistDraw x (cellMajor n ns) ds0 State.zero = some (sto, [])) :
    ∃ N out, redist x n ns (ds0 ++ streamSeg σ 0 N) = some (out, []) := by
  have hinv : RedistInv x sto := by
    have := redistDraw_inv x (fun i s r => IsNNInt r ∧ (x i s = 0 → r = 0))
      (fun i s ds r ds' he => ⟨(redistEntry_spec he).1, fun h0 => (redistEntry_spec he).2 (le_of_eq h0)⟩)
      (cellMajor n ns) ds0 State.zero sto [] (fun i s => ⟨isNNInt_zero, fun _ => rfl⟩) h2
    exact ⟨fun i s => (this i s).1, fun i s => (this i s).2⟩
  obtain ⟨N, out, hN⟩ := redistCorrect_halts_fair x n hx σ hfair hσ (List.range ns) sto 0 hinv
  refine ⟨N, out, ?_⟩
  unfold redist
  rw [redistDraw_append x (streamSeg σ 0 N) _ _ _ _ _ h2]
  simpa using hN

/-! ### fair streams exist -/

/-- a concrete fair stream: `t = ⟨a, b⟩ ↦ (a mod (b+1)) / (b+1)` enumerates every fraction of [0,1) infinitely often -/
def fairExample (t : Nat) : Rat := (((Nat.unpair t).1 % ((Nat.unpair t).2 + 1) : Nat) : Rat) / (((Nat.unpair t).2 + 1 : Nat) : Rat)

theorem fairExample_fair : Fair fairExample ∧ ∀ t, 0 ≤ fairExample t ∧ fairExample t < 1 := by
  constructor
  · intro lo hi h0 h1 h2 t
    have hd : 0 < hi - lo := by linarith
    obtain ⟨b, hb⟩ := exists_nat_gt (1 / (hi - lo))
    have hb1 : (0 : Rat) < (b : Rat) + 1 := by positivity
    have hstep : 1 / ((b : Rat) + 1) < hi - lo := by
      rw [div_lt_iff₀ hb1]
      have : 1 < (hi - lo) * (b : Rat) := by
        have := (div_lt_iff₀ hd).1 hb; linarith
      nlinarith
    set a := ⌈lo * ((b : Rat) + 1)⌉₊ with ha
    have ha1 : lo * ((b : Rat) + 1) ≤ (a : Rat) := Nat.le_ceil _
    have ha2 : (a : Rat) < lo * ((b : Rat) + 1) + 1 := Nat.ceil_lt_add_one (by positivity)
    have hlo : lo ≤ (a : Rat) / ((b : Rat) + 1) := by rw [le_div_iff₀ hb1]; exact ha1
    have hhi : (a : Rat) / ((b : Rat) + 1) < hi := by
      rw [div_lt_iff₀ hb1]
      have : (hi - lo) * ((b : Rat) + 1) > 1 := by
        have := (div_lt_iff₀ hb1).1 hstep; linarith
      nlinarith
    have halt : a < b + 1 := by
      have : (a : Rat) < (b : Rat) + 1 := by
        have := (div_lt_iff₀ hb1).1 hhi; nlinarith
      exact_mod_cast this
    refine ⟨Nat.pair (a + t * (b + 1)) b, ?_, ?_, ?_⟩
    · calc t ≤ t * (b + 1) := Nat.le_mul_of_pos_right t (Nat.succ_pos b)
        _ ≤ a + t * (b + 1) := Nat.le_add_left _ _
        _ ≤ Nat.pair (a + t * (b + 1)) b := Nat.left_le_pair _ _
    all_goals
      simp only [fairExample, Nat.unpair_pair, Nat.add_mul_mod_self_right, Nat.mod_eq_of_lt halt]
      push_cast
      first | exact hlo | exact hhi
  · intro t
    unfold fairExample
    have hpos : (0 : Rat) < (((Nat.unpair t).2 + 1 : Nat) : Rat) := by positivity
    refine ⟨by positivity, ?_⟩
    rw [div_lt_one hpos]
    exact_mod_cast Nat.mod_lt _ (Nat.succ_pos _)

end Strengths
