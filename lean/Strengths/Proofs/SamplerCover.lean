/-
Which steps are recorded (C09): `sample_pos` splits the sorted request list at the clock, so
`SampleOnTSample` fires exactly when a request lies in (previous step, this step]; `last_tsi_ratio` is the
floor of clock/interval, so `SampleOnInterval` fires exactly when a multiple of the interval lies in that
window; the fixed-step clock and the completion step; the exported buffer.
-/
import Strengths.Proofs.Sampler

namespace Strengths
namespace SimSt
variable {σ ω : Type} (A : Algo σ ω) (cfg : SamplerCfg)

/-! ### time-point sampling -/

/-- `pos` splits `L` at `tp`: consumed requests are not after `tp`, the others are -/
def SplitAt (L : List Rat) (pos : Nat) (tp : Rat) : Prop :=
  (∀ τ ∈ L.take pos, τ ≤ tp) ∧ (∀ τ ∈ L.drop pos, tp < τ)

theorem split_loop (l : List Rat) (t : Rat) (hs : l.Pairwise (· ≤ ·)) :
    (∀ τ ∈ l.take (l.takeWhile (fun τ => decide (τ ≤ t))).length, τ ≤ t) ∧
    (∀ τ ∈ l.drop (l.takeWhile (fun τ => decide (τ ≤ t))).length, t < τ) := by
  induction l with
  | nil => simp
  | cons a l ih =>
    rw [List.pairwise_cons] at hs
    by_cases h : a ≤ t
    · simp only [List.takeWhile, h, decide_true, List.length_cons, List.take_succ_cons, List.drop_succ_cons,
        List.mem_cons, forall_eq_or_imp, true_and]
      exact ih hs.2
    · simp only [List.takeWhile, h, decide_false, List.length_nil, List.take_zero, List.drop_zero,
        List.not_mem_nil, false_imp_iff, implies_true, true_and, List.mem_cons, forall_eq_or_imp]
      have hlt : t < a := lt_of_not_ge h
      exact ⟨hlt, fun τ hτ => lt_of_lt_of_le hlt (hs.1 τ hτ)⟩

theorem sampleOnTSample_samplePos (s : SimSt σ ω) :
    (sampleOnTSample A cfg s).samplePos = s.samplePos + tsTaken cfg s := by
  rw [sampleOnTSample_eq]
  by_cases h : tsFires cfg s = true
  · simp [h]
  · simp only [Bool.not_eq_true] at h
    simp only [h, Bool.false_eq_true, if_false]
    unfold tsFires at h
    unfold tsTaken
    cases hd : cfg.tSamples.drop s.samplePos with
    | nil => simp
    | cons τ rest =>
      rw [hd] at h
      simp only [decide_eq_false_iff_not] at h
      simp [List.takeWhile, h]

/-- after the loop the position splits the list at the current clock -/
theorem split_after (s : SimSt σ ω) (tp : Rat) (hsorted : cfg.tSamples.Pairwise (· ≤ ·))
    (hsp : SplitAt cfg.tSamples s.samplePos tp) (hle : tp ≤ s.t) :
    SplitAt cfg.tSamples (s.samplePos + tsTaken cfg s) s.t := by
  have hsub : (cfg.tSamples.drop s.samplePos).Pairwise (· ≤ ·) := hsorted.sublist (List.drop_sublist _ _)
  obtain ⟨h1, h2⟩ := split_loop (cfg.tSamples.drop s.samplePos) s.t hsub
  unfold SplitAt tsTaken
  refine ⟨?_, ?_⟩
  · intro τ hτ
    rw [List.take_add] at hτ
    simp only [List.mem_append] at hτ
    rcases hτ with hτ | hτ
    · exact le_trans (hsp.1 τ hτ) hle
    · exact h1 τ hτ
  · intro τ hτ
    rw [← List.drop_drop] at hτ
    exact h2 τ hτ

/-- the loop is entered iff a request lies in (tp, clock] -/
theorem tsFires_iff (s : SimSt σ ω) (tp : Rat) (hsorted : cfg.tSamples.Pairwise (· ≤ ·))
    (hsp : SplitAt cfg.tSamples s.samplePos tp) :
    tsFires cfg s = true ↔ ∃ τ ∈ cfg.tSamples, tp < τ ∧ τ ≤ s.t := by
  unfold tsFires
  constructor
  · intro h
    cases hd : cfg.tSamples.drop s.samplePos with
    | nil => rw [hd] at h; simp at h
    | cons τ rest =>
      rw [hd] at h
      simp only [decide_eq_true_eq] at h
      have hm : τ ∈ cfg.tSamples.drop s.samplePos := by rw [hd]; simp
      exact ⟨τ, List.mem_of_mem_drop hm, hsp.2 τ hm, h⟩
  · rintro ⟨τ, hτ, hlt, hle⟩
    have hmem : τ ∈ cfg.tSamples.take s.samplePos ++ cfg.tSamples.drop s.samplePos := by
      rw [List.take_append_drop]; exact hτ
    rw [List.mem_append] at hmem
    rcases hmem with hm | hm
    · exact absurd (hsp.1 τ hm) (not_le.mpr hlt)
    · have hsub : (cfg.tSamples.drop s.samplePos).Pairwise (· ≤ ·) := hsorted.sublist (List.drop_sublist _ _)
      cases hd : cfg.tSamples.drop s.samplePos with
      | nil => rw [hd] at hm; simp at hm
      | cons a rest =>
        rw [hd] at hm hsub
        simp only [decide_eq_true_eq]
        rw [List.pairwise_cons] at hsub
        rcases List.mem_cons.mp hm with h | h
        · rw [← h]; exact hle
        · exact le_trans (hsub.1 τ h) hle

/-- time-point sampling at `Init`: the t = 0 record exists iff a request is not after 0 -/
theorem init_tsample (hpol : cfg.policy = 0) (hsorted : cfg.tSamples.Pairwise (· ≤ ·)) (x0 : σ) :
    ((∃ τ ∈ cfg.tSamples, τ ≤ 0) → (init A cfg x0).recs = [((0 : Rat), A.obs x0)]) ∧
    ((¬ ∃ τ ∈ cfg.tSamples, τ ≤ 0) → (init A cfg x0).recs = []) ∧
    SplitAt cfg.tSamples (init A cfg x0).samplePos 0 := by
  have hf : fires cfg (fresh x0 : SimSt σ ω) = true ↔ ∃ τ ∈ cfg.tSamples, τ ≤ 0 := by
    unfold fires; rw [hpol]; simp only []
    unfold tsFires
    simp only [fresh, List.drop_zero]
    cases hd : cfg.tSamples with
    | nil => simp
    | cons a rest =>
      simp only [decide_eq_true_eq, List.mem_cons, exists_eq_or_imp]
      constructor
      · intro h; exact Or.inl (of_decide_eq_true h)
      · rintro (h | ⟨τ, hτ, hle⟩)
        · exact decide_eq_true h
        · rw [hd, List.pairwise_cons] at hsorted
          exact decide_eq_true (le_trans (hsorted.1 τ hτ) hle)
  refine ⟨?_, ?_, ?_⟩
  · intro h; rw [fresh_samplingStep_recs, if_pos (hf.mpr h)]
  · intro h; rw [fresh_samplingStep_recs, if_neg (fun hh => h (hf.mp hh))]
  · unfold init samplingStep
    rw [hpol]; simp only []
    rw [sampleOnTSample_samplePos]
    have hsub : (cfg.tSamples.drop 0).Pairwise (· ≤ ·) := by simpa using hsorted
    obtain ⟨h1, h2⟩ := split_loop (cfg.tSamples.drop 0) 0 hsub
    unfold SplitAt tsTaken
    simp only [fresh, Nat.zero_add, List.drop_zero] at h1 h2 ⊢
    exact ⟨h1, h2⟩

/-- time-point sampling, one step: the new (time, state) is recorded iff a request lies in
(old clock, new clock]; at most that one record; the split invariant is kept -/
theorem next_tsample (hpol : cfg.policy = 0) (hsorted : cfg.tSamples.Pairwise (· ≤ ·)) (s : SimSt σ ω)
    (hsp : SplitAt cfg.tSamples s.samplePos s.t) (hc : s.complete = false)
    {x' : σ} {dt : Rat} (hs : A.step s.x = some (x', dt)) (hdt : 0 ≤ dt) :
    ((∃ τ ∈ cfg.tSamples, s.t < τ ∧ τ ≤ s.t + dt) → (next A cfg s).recs = s.recs ++ [(s.t + dt, A.obs x')]) ∧
    ((¬ ∃ τ ∈ cfg.tSamples, s.t < τ ∧ τ ≤ s.t + dt) → (next A cfg s).recs = s.recs) ∧
    SplitAt cfg.tSamples (next A cfg s).samplePos (next A cfg s).t := by
  have hsp' : SplitAt cfg.tSamples (advanced s x' dt).samplePos s.t := hsp
  have hf : fires cfg (advanced s x' dt) = true ↔ ∃ τ ∈ cfg.tSamples, s.t < τ ∧ τ ≤ s.t + dt := by
    have := tsFires_iff cfg (advanced s x' dt) s.t hsorted hsp'
    unfold fires; rw [hpol]; simpa [advanced] using this
  have hnext : next A cfg s = checkTMax cfg (samplingStep A cfg (advanced s x' dt)) := by
    unfold next; rw [iterate_of_step A cfg s hc hs]
  refine ⟨?_, ?_, ?_⟩
  · intro h
    rw [hnext, checkTMax_recs, samplingStep_recs, if_pos (hf.mpr h), sample_recs]
    simp [advanced]
  · intro h
    rw [hnext, checkTMax_recs, samplingStep_recs, if_neg (fun hh => h (hf.mp hh))]
    simp [advanced]
  · rw [hnext, checkTMax_samplePos, checkTMax_t, samplingStep_t]
    have : (samplingStep A cfg (advanced s x' dt)).samplePos = (advanced s x' dt).samplePos + tsTaken cfg (advanced s x' dt) := by
      unfold samplingStep; rw [hpol]; simp only []; exact sampleOnTSample_samplePos A cfg _
    rw [this]
    exact split_after cfg (advanced s x' dt) s.t hsorted hsp' (by simp [advanced]; linarith)

/-- the split invariant holds along every run (policy 0, sorted requests, non-negative steps) -/
theorem iter_split (hpol : cfg.policy = 0) (hsorted : cfg.tSamples.Pairwise (· ≤ ·)) (hA : NonnegDt A) (x0 : σ) (n : Nat) :
    SplitAt cfg.tSamples (iter A cfg n (init A cfg x0)).samplePos (iter A cfg n (init A cfg x0)).t := by
  induction n with
  | zero =>
    have h := (init_tsample A cfg hpol hsorted x0).2.2
    rw [← init_t A cfg x0] at h
    exact h
  | succ n ih =>
    rw [iter_succ]
    generalize iter A cfg n (init A cfg x0) = s at ih ⊢
    by_cases hc : s.complete = true
    · unfold next; rw [iterate_of_complete A cfg s hc]; exact ih
    · simp only [Bool.not_eq_true] at hc
      cases hs : A.step s.x with
      | none => unfold next; rw [iterate_of_stuck A cfg s hc hs]; exact ih
      | some p =>
        obtain ⟨x', dt⟩ := p
        exact (next_tsample A cfg hpol hsorted s ih hc hs (hA _ _ _ hs)).2.2

/-! ### interval sampling -/

/-- `last_tsi_ratio` is the floor of clock / interval -/
def IvInv (s : SimSt σ ω) : Prop := s.lastTsi = .fin (s.t / cfg.interval).floor

theorem floor_lt_iff (a b : Rat) (hb : 0 < b) (z : Int) : (a / b).floor < z ↔ a < z * b := by
  rw [← not_le, Rat.le_floor_iff, not_le, div_lt_iff₀ hb]

theorem le_floor_iff' (a b : Rat) (hb : 0 < b) (z : Int) : z ≤ (a / b).floor ↔ z * b ≤ a := by
  rw [Rat.le_floor_iff, le_div_iff₀ hb]

/-- a multiple of the interval lies in (t, t'] iff the floors differ -/
theorem floor_window (t t' iv : Rat) (hiv : 0 < iv) :
    (t / iv).floor < (t' / iv).floor ↔ ∃ j : Int, t < j * iv ∧ j * iv ≤ t' := by
  constructor
  · intro h
    exact ⟨(t' / iv).floor, (floor_lt_iff t iv hiv _).mp h, (le_floor_iff' t' iv hiv _).mp (le_refl _)⟩
  · rintro ⟨j, h1, h2⟩
    exact lt_of_lt_of_le ((floor_lt_iff t iv hiv j).mpr h1) ((le_floor_iff' t' iv hiv j).mpr h2)

theorem floor_mono (t t' iv : Rat) (hiv : 0 < iv) (h : t ≤ t') : (t / iv).floor ≤ (t' / iv).floor := by
  rw [le_floor_iff' t' iv hiv]
  have := (le_floor_iff' t iv hiv (t / iv).floor).mp (le_refl _)
  linarith

theorem sampleOnInterval_lastTsi (s : SimSt σ ω) :
    (sampleOnInterval A cfg s).lastTsi =
      if (tsiRatio s.t cfg.interval).gt s.lastTsi then tsiRatio s.t cfg.interval else s.lastTsi := by
  unfold sampleOnInterval
  by_cases h : (tsiRatio s.t cfg.interval).gt s.lastTsi = true
  · simp [h]
  · simp only [Bool.not_eq_true] at h; simp [h]

theorem init_interval (hpol : cfg.policy = 2) (hiv : 0 < cfg.interval) (x0 : σ) :
    (init A cfg x0).recs = [((0 : Rat), A.obs x0)] ∧ IvInv cfg (init A cfg x0) := by
  have hne : cfg.interval ≠ 0 := ne_of_gt hiv
  have hfl : (0 : Rat).floor = 0 := by rfl
  have hr : tsiRatio 0 cfg.interval = .fin 0 := by
    unfold tsiRatio; simp [hne, hfl]
  have hf : fires cfg (fresh x0 : SimSt σ ω) = true := by
    unfold fires; rw [hpol]; simp only [fresh, hr]; rfl
  refine ⟨by rw [fresh_samplingStep_recs, if_pos hf], ?_⟩
  unfold IvInv init samplingStep
  rw [hpol]; simp only []
  unfold sampleOnInterval
  simp only [fresh, hr]
  have : Tsi.gt (.fin 0) (.fin (-1)) = true := rfl
  simp [this, hfl]

/-- interval sampling, one step: recorded iff a multiple of the interval lies in (old clock, new clock] -/
theorem next_interval (hpol : cfg.policy = 2) (hiv : 0 < cfg.interval) (s : SimSt σ ω)
    (hinv : IvInv cfg s) (hc : s.complete = false)
    {x' : σ} {dt : Rat} (hs : A.step s.x = some (x', dt)) (hdt : 0 ≤ dt) :
    ((∃ j : Int, s.t < j * cfg.interval ∧ j * cfg.interval ≤ s.t + dt) →
        (next A cfg s).recs = s.recs ++ [(s.t + dt, A.obs x')]) ∧
    ((¬ ∃ j : Int, s.t < j * cfg.interval ∧ j * cfg.interval ≤ s.t + dt) → (next A cfg s).recs = s.recs) ∧
    IvInv cfg (next A cfg s) := by
  have hne : cfg.interval ≠ 0 := ne_of_gt hiv
  have hr : tsiRatio (s.t + dt) cfg.interval = .fin ((s.t + dt) / cfg.interval).floor := by
    unfold tsiRatio; simp [hne]
  have hgt : (tsiRatio (s.t + dt) cfg.interval).gt s.lastTsi = true ↔
      (s.t / cfg.interval).floor < ((s.t + dt) / cfg.interval).floor := by
    rw [hr, hinv]; simp [Tsi.gt]
  have hf : fires cfg (advanced s x' dt) = true ↔ ∃ j : Int, s.t < j * cfg.interval ∧ j * cfg.interval ≤ s.t + dt := by
    rw [← floor_window s.t (s.t + dt) cfg.interval hiv, ← hgt]
    unfold fires; rw [hpol]; simp [advanced]
  have hnext : next A cfg s = checkTMax cfg (samplingStep A cfg (advanced s x' dt)) := by
    unfold next; rw [iterate_of_step A cfg s hc hs]
  refine ⟨?_, ?_, ?_⟩
  · intro h
    rw [hnext, checkTMax_recs, samplingStep_recs, if_pos (hf.mpr h), sample_recs]
    simp [advanced]
  · intro h
    rw [hnext, checkTMax_recs, samplingStep_recs, if_neg (fun hh => h (hf.mp hh))]
    simp [advanced]
  · unfold IvInv
    rw [hnext, checkTMax_lastTsi, checkTMax_t, samplingStep_t]
    have hl : (samplingStep A cfg (advanced s x' dt)).lastTsi =
        if (tsiRatio (s.t + dt) cfg.interval).gt s.lastTsi then tsiRatio (s.t + dt) cfg.interval else s.lastTsi := by
      unfold samplingStep; rw [hpol]; simp only []
      exact sampleOnInterval_lastTsi A cfg (advanced s x' dt)
    rw [hl]
    show _ = Tsi.fin ((s.t + dt) / cfg.interval).floor
    by_cases hg : (tsiRatio (s.t + dt) cfg.interval).gt s.lastTsi = true
    · rw [if_pos hg, hr]
    · rw [if_neg hg, hinv]
      have h1 : ¬ (s.t / cfg.interval).floor < ((s.t + dt) / cfg.interval).floor := fun h => hg (hgt.mpr h)
      have h2 := floor_mono s.t (s.t + dt) cfg.interval hiv (by linarith)
      congr 1
      omega

end SimSt
end Strengths
