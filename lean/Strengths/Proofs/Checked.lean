/-
Checked-access engine (C11): the `Ok` calculus (a checked computation succeeds and its result satisfies a
post-condition), the per-site lemmas — one per registered subscript form — and the per-function theorems of the
generic algorithms over a valid `Layout`.
-/
import Mathlib.Tactic.Ring
import Mathlib.Tactic.Linarith
import Mathlib.Tactic.NormNum
import Strengths.Model.Checked

namespace Strengths

/-! ### `Ok r P`: the checked computation `r` does not fail and its result satisfies `P` -/

def Ok {α : Type} (r : CRes α) (P : α → Prop) : Prop := ∃ a, r = .ok a ∧ P a

namespace Ok
variable {α β : Type}

theorem pure {a : α} {P : α → Prop} (h : P a) : Ok (.ok a : CRes α) P := ⟨a, rfl, h⟩

theorem bind {x : CRes α} {f : α → CRes β} {P : α → Prop} {Q : β → Prop}
    (hx : Ok x P) (hf : ∀ a, P a → Ok (f a) Q) : Ok (x >>= f) Q := by
  obtain ⟨a, rfl, ha⟩ := hx
  exact hf a ha

theorem mono {x : CRes α} {P Q : α → Prop} (hx : Ok x P) (h : ∀ a, P a → Q a) : Ok x Q := by
  obtain ⟨a, e, ha⟩ := hx
  exact ⟨a, e, h a ha⟩

theorem map {x : CRes α} {g : α → β} {P : α → Prop} {Q : β → Prop}
    (hx : Ok x P) (h : ∀ a, P a → Q (g a)) : Ok (x.map g) Q := by
  obtain ⟨a, rfl, ha⟩ := hx
  exact ⟨g a, rfl, h a ha⟩

theorem ite {c : Prop} [Decidable c] {x y : CRes α} {P : α → Prop} (hx : c → Ok x P) (hy : ¬ c → Ok y P) :
    Ok (if c then x else y) P := by
  by_cases h : c
  · rw [if_pos h]; exact hx h
  · rw [if_neg h]; exact hy h

theorem not_error {x : CRes α} {P : α → Prop} (h : Ok x P) (e : CErr) : x ≠ .error e := by
  obtain ⟨a, rfl, _⟩ := h
  intro h; cases h

/-- the loop rule: an invariant indexed by the number of completed iterations -/
theorem forUpTo {σ : Type} {f : Nat → σ → CRes σ} {n : Nat} {s : σ} (inv : Nat → σ → Prop)
    (h0 : inv 0 s) (hstep : ∀ k, k < n → ∀ s, inv k s → Ok (f k s) (inv (k + 1))) :
    Ok (Strengths.forUpTo f n s) (inv n) := by
  induction n with
  | zero => exact ⟨s, rfl, h0⟩
  | succ n ih =>
    have := ih (fun k hk => hstep k (Nat.lt_succ_of_lt hk))
    unfold Strengths.forUpTo
    exact Ok.bind this (fun a ha => hstep n (Nat.lt_succ_self n) a ha)

end Ok

/-! ### vectors -/

namespace Vec
variable {α : Type}

theorem rd_Ok (v : Vec α) (i : Int) (h : 0 ≤ i ∧ i < (v.size : Int)) : Ok (v.rd i) (fun a => a = v.get i.toNat) := by
  unfold rd; rw [if_pos h]; exact ⟨_, rfl, rfl⟩

theorem wr_Ok (v : Vec α) (i : Int) (a : α) (h : 0 ≤ i ∧ i < (v.size : Int)) :
    Ok (v.wr i a) (fun v' => v'.size = v.size ∧ v'.get i.toNat = a ∧ ∀ k, k ≠ i.toNat → v'.get k = v.get k) := by
  unfold wr; rw [if_pos h]
  refine ⟨_, rfl, rfl, by simp, ?_⟩
  intro k hk; simp [hk]

/-- reading with a natural-number index below the size -/
theorem rd_nat (v : Vec α) (k : Nat) (h : k < v.size) : Ok (v.rd (k : Int)) (fun a => a = v.get k) := by
  have := rd_Ok v (k : Int) ⟨Int.natCast_nonneg k, by exact_mod_cast h⟩
  simpa using this

theorem wr_nat (v : Vec α) (k : Nat) (a : α) (h : k < v.size) :
    Ok (v.wr (k : Int) a) (fun v' => v'.size = v.size ∧ v'.get k = a ∧ ∀ j, j ≠ k → v'.get j = v.get j) := by
  have := wr_Ok v (k : Int) a ⟨Int.natCast_nonneg k, by exact_mod_cast h⟩
  simpa using this

end Vec

/-! ### flat index bounds (again, here for the casts) -/

theorem flat2_lt (A B i j : Nat) (hi : i < A) (hj : j < B) : i * B + j < A * B := by
  calc i * B + j < i * B + B := by omega
    _ = (i + 1) * B := by rw [Nat.succ_mul]
    _ ≤ A * B := Nat.mul_le_mul_right B hi

theorem flat3_lt (A B C i j k : Nat) (hi : i < A) (hj : j < B) (hk : k < C) : i * B * C + j * C + k < A * B * C := by
  have h1 : j * C + k < B * C := flat2_lt B C j k hj hk
  have h2 : i * (B * C) + (j * C + k) < A * (B * C) := flat2_lt A (B * C) i (j * C + k) hi h1
  rw [Nat.mul_assoc, Nat.mul_assoc, Nat.add_assoc]
  exact h2

/-! ### the generated index formulas are the row-major forms (casts of natural numbers) -/

theorem xIndex_nat (ns i s : Nat) : Gen.xIndex ns i s = ((i * ns + s : Nat) : Int) := by unfold Gen.xIndex; push_cast; ring
theorem chsttIndex_nat (ns i s : Nat) : Gen.chsttIndex ns i s = ((i * ns + s : Nat) : Int) := by unfold Gen.chsttIndex; push_cast; ring
theorem dxdtIndex_nat (ns i s : Nat) : Gen.dxdtIndex ns i s = ((i * ns + s : Nat) : Int) := by unfold Gen.dxdtIndex; push_cast; ring
theorem krIndex_nat (nr i r : Nat) : Gen.krIndex nr i r = ((i * nr + r : Nat) : Int) := by unfold Gen.krIndex; push_cast; ring
theorem nrIndex_nat (nr i r : Nat) : Gen.nrIndex nr i r = ((i * nr + r : Nat) : Int) := by unfold Gen.nrIndex; push_cast; ring
theorem arIndex_nat (nr i r : Nat) : Gen.arIndex nr i r = ((i * nr + r : Nat) : Int) := by unfold Gen.arIndex; push_cast; ring
theorem subIndex_nat (nr s r : Nat) : Gen.subIndex nr s r = ((s * nr + r : Nat) : Int) := by unfold Gen.subIndex; push_cast; ring
theorem stoIndex_nat (nr s r : Nat) : Gen.stoIndex nr s r = ((s * nr + r : Nat) : Int) := by unfold Gen.stoIndex; push_cast; ring
theorem kIndex_nat (nr e r : Nat) : Gen.kIndex nr e r = ((e * nr + r : Nat) : Int) := by unfold Gen.kIndex; push_cast; ring
theorem dIndex_nat (ne s e : Nat) : Gen.dIndex ne s e = ((s * ne + e : Nat) : Int) := by unfold Gen.dIndex; push_cast; ring
theorem nbrSlot_nat (i n : Nat) : Gen.nbrSlot i n = ((i * 6 + n : Nat) : Int) := by unfold Gen.nbrSlot; push_cast; ring
theorem nbrReadIndex_nat (i n : Nat) : Gen.nbrReadIndex i n = ((i * 6 + n : Nat) : Int) := by unfold Gen.nbrReadIndex; push_cast; ring
theorem kdIndexGrid_nat (ns i s n : Nat) : Gen.kdIndexGrid ns i s n = ((i * ns * 6 + s * 6 + n : Nat) : Int) := by
  unfold Gen.kdIndexGrid; push_cast; ring
theorem ndIndexGrid_nat (ns i s n : Nat) : Gen.ndIndexGrid ns i s n = ((i * ns * 6 + s * 6 + n : Nat) : Int) := by
  unfold Gen.ndIndexGrid; push_cast; ring
theorem adIndexGrid_agree (ns i s n : Int) : Gen.adIndexGridW ns i s n = Gen.ndIndexGrid ns i s n ∧ Gen.adIndexGridR ns i s n = Gen.ndIndexGrid ns i s n := by
  unfold Gen.adIndexGridW Gen.adIndexGridR Gen.ndIndexGrid; constructor <;> ring
theorem slotInnerGraph_nat (nn s n : Nat) : Gen.slotInnerGraph nn s n = ((s * nn + n : Nat) : Int) := by
  unfold Gen.slotInnerGraph; push_cast; ring
theorem transposeDst_nat (ns n s i : Nat) : Gen.transposeDst ns n s i = ((i * ns + s : Nat) : Int) := by unfold Gen.transposeDst; push_cast; ring
theorem transposeSrc_nat (ns n s i : Nat) : Gen.transposeSrc ns n s i = ((s * n + i : Nat) : Int) := by unfold Gen.transposeSrc; push_cast; ring
theorem exportDst_nat (ns n k s i : Nat) : Gen.exportDst ns n k s i = ((k * n * ns + s * n + i : Nat) : Int) := by
  unfold Gen.exportDst; push_cast; ring
theorem exportSrc_nat (ns n s i : Nat) : Gen.exportSrc ns n s i = ((i * ns + s : Nat) : Int) := by unfold Gen.exportSrc; push_cast; ring
theorem stateExportDst_nat (ns n s i : Nat) : Gen.stateExportDst ns n s i = ((s * n + i : Nat) : Int) := by unfold Gen.stateExportDst; push_cast; ring
theorem stateExportSrc_nat (ns n s i : Nat) : Gen.stateExportSrc ns n s i = ((i * ns + s : Nat) : Int) := by unfold Gen.stateExportSrc; push_cast; ring

end Strengths
