/-
C18, grammar semantics: the `addunit` fold on the flattened contribution list — acceptance iff no two
contributions name different base units of one field, the resulting base units, dimension and SI scale,
invariance under permutation.
-/
import Mathlib.Tactic.Ring
import Strengths.Proofs.UnitsText

namespace Strengths
open Gen

/-! ### `addunit` in normal form -/

theorem add_space (a : Acc) (su : String) (e : Int) :
    a.add "space" su e = if a.space = none ∨ a.space = some su then
      .ok { a with space := some su, dim := { a.dim with space := a.dim.space + e } } else .error .badUnit := by
  simp [Acc.add]
theorem add_time (a : Acc) (su : String) (e : Int) :
    a.add "time" su e = if a.time = none ∨ a.time = some su then
      .ok { a with time := some su, dim := { a.dim with time := a.dim.time + e } } else .error .badUnit := by
  simp [Acc.add]
theorem add_qty (a : Acc) (su : String) (e : Int) :
    a.add "quantity" su e = if a.qty = none ∨ a.qty = some su then
      .ok { a with qty := some su, dim := { a.dim with qty := a.dim.qty + e } } else .error .badUnit := by
  simp [Acc.add]

def validField (f : String) : Prop := f = "space" ∨ f = "time" ∨ f = "quantity"

theorem get_space (a : Acc) : a.get "space" = a.space := by simp [Acc.get]
theorem get_time (a : Acc) : a.get "time" = a.time := by simp [Acc.get]
theorem get_qty (a : Acc) : a.get "quantity" = a.qty := by simp [Acc.get]

/-- `addunit` succeeds exactly when the field is free or already holds the same unit -/
theorem add_ok_of {a : Acc} {f su : String} (e : Int) (hf : validField f)
    (hc : a.get f = none ∨ a.get f = some su) : ∃ a', a.add f su e = .ok a' := by
  rcases hf with rfl | rfl | rfl
  · rw [get_space] at hc; rw [add_space, if_pos hc]; exact ⟨_, rfl⟩
  · rw [get_time] at hc; rw [add_time, if_pos hc]; exact ⟨_, rfl⟩
  · rw [get_qty] at hc; rw [add_qty, if_pos hc]; exact ⟨_, rfl⟩

theorem add_error_badUnit {a : Acc} {f su : String} {e : Int} {x : Err} (h : a.add f su e = .error x) :
    x = .badUnit := by
  unfold Acc.add at h
  repeat' split at h
  all_goals first | (cases h; rfl) | cases h

theorem add_ok_compat {a a' : Acc} {f su : String} {e : Int} (h : a.add f su e = .ok a') :
    a.get f = none ∨ a.get f = some su := by
  unfold Acc.add at h
  split at h
  · rename_i hf
    have : f = "space" := by simpa using hf
    subst this
    split at h
    · rename_i hc; rw [get_space]; simpa using hc
    · cases h
  · split at h
    · rename_i hf
      have : f = "time" := by simpa using hf
      subst this
      split at h
      · rename_i hc; rw [get_time]; simpa using hc
      · cases h
    · split at h
      · rename_i hf
        have : f = "quantity" := by simpa using hf
        subst this
        split at h
        · rename_i hc; rw [get_qty]; simpa using hc
        · cases h
      · cases h

/-- after a successful `addunit` a field holds a unit only if it did before or it is the one just set -/
theorem add_ok_get_rev {a a' : Acc} {f su : String} {e : Int} (h : a.add f su e = .ok a') (g v : String)
    (hg : a'.get g = some v) : a.get g = some v ∨ (g = f ∧ v = su) := by
  by_cases hgf : g = f
  · subst hgf
    have := (add_ok_get h).1
    rw [this] at hg
    exact Or.inr ⟨rfl, (Option.some.inj hg).symm⟩
  · left
    unfold Acc.add at h
    split at h
    · rename_i hf
      have : f = "space" := by simpa using hf
      subst this
      split at h
      · cases h
        simp only [Acc.get] at hg ⊢
        have : (g == "space") = false := by simpa using hgf
        simpa [this] using hg
      · cases h
    · split at h
      · rename_i hf
        have : f = "time" := by simpa using hf
        subst this
        split at h
        · cases h
          simp only [Acc.get] at hg ⊢
          have : (g == "time") = false := by simpa using hgf
          by_cases hs : (g == "space") = true
          · simpa [hs] using hg
          · simpa [hs, this] using hg
        · cases h
      · split at h
        · rename_i hf
          have : f = "quantity" := by simpa using hf
          subst this
          split at h
          · cases h
            simp only [Acc.get] at hg ⊢
            have : (g == "quantity") = false := by simpa using hgf
            by_cases hs : (g == "space") = true
            · simpa [hs] using hg
            · by_cases ht : (g == "time") = true
              · simpa [hs, ht] using hg
              · simpa [hs, ht, this] using hg
          · cases h
        · cases h

/-! ### the fold over a flat contribution list `(field, base unit, exponent)` -/

abbrev Contrib := String × String × Int

def addContribs (a : Acc) : List Contrib → Res Acc
  | [] => .ok a
  | (f, su, x) :: r =>
    match a.add f su x with
    | .error e => .error e
    | .ok a' => addContribs a' r

theorem addContribs_append (a : Acc) (l1 l2 : List Contrib) :
    addContribs a (l1 ++ l2) = match addContribs a l1 with
      | .error e => .error e
      | .ok a' => addContribs a' l2 := by
  induction l1 generalizing a with
  | nil => rfl
  | cons c cs ih =>
    obtain ⟨f, su, x⟩ := c
    simp only [List.cons_append, addContribs]
    cases a.add f su x with
    | error e => rfl
    | ok a' => exact ih a'

theorem addAll_eq_addContribs (a : Acc) (e : Int) (cs : List Contrib) :
    a.addAll e cs = addContribs a (cs.map fun c => (c.1, c.2.1, e * c.2.2)) := by
  induction cs generalizing a with
  | nil => rfl
  | cons c cs ih =>
    obtain ⟨f, su, m⟩ := c
    simp only [Acc.addAll, List.map_cons, addContribs]
    cases a.add f su (e * m) with
    | error x => rfl
    | ok a' => exact ih a'

/-- no two contributions name different base units for one field -/
def consistentC (cl : List Contrib) : Prop := ∀ c1 ∈ cl, ∀ c2 ∈ cl, c1.1 = c2.1 → c1.2.1 = c2.2.1

instance (cl : List Contrib) : Decidable (consistentC cl) := by unfold consistentC; infer_instance

/-- the units already chosen agree with every contribution -/
def compatC (a : Acc) (cl : List Contrib) : Prop := ∀ c ∈ cl, a.get c.1 = none ∨ a.get c.1 = some c.2.1

def contribsDim : List Contrib → Dim
  | [] => Dim.zero
  | c :: r => (fieldDim c.1 c.2.2).add (contribsDim r)

theorem addContribs_ok_spec : ∀ (cl : List Contrib) {a a' : Acc}, addContribs a cl = .ok a' →
    (∀ c ∈ cl, a'.get c.1 = some c.2.1) ∧ (∀ g v, a.get g = some v → a'.get g = some v) ∧
    (∀ g v, a'.get g = some v → a.get g = some v ∨ ∃ c ∈ cl, c.1 = g ∧ c.2.1 = v) ∧
    a'.dim = a.dim.add (contribsDim cl) ∧ compatC a cl := by
  intro cl
  induction cl with
  | nil =>
    intro a a' h; cases h
    exact ⟨by simp, fun _ _ h => h, fun _ _ h => Or.inl h, by simp [contribsDim, Dim.add_zero'], by simp [compatC]⟩
  | cons c cs ih =>
    intro a a' h
    obtain ⟨f, su, x⟩ := c
    simp only [addContribs] at h
    cases h1 : a.add f su x with
    | error e => rw [h1] at h; cases h
    | ok a1 =>
      rw [h1] at h
      have k1 := add_ok_get h1
      obtain ⟨k2a, k2b, k2c, k2d, k2e⟩ := ih h
      refine ⟨?_, fun g v hg => k2b g v (k1.2 g v hg), ?_, ?_, ?_⟩
      · intro c hc
        simp only [List.mem_cons] at hc
        rcases hc with hc | hc
        · subst hc; exact k2b _ _ k1.1
        · exact k2a c hc
      · intro g v hg
        rcases k2c g v hg with h0 | ⟨c, hc, hc1, hc2⟩
        · rcases add_ok_get_rev h1 g v h0 with h00 | ⟨hgf, hvs⟩
          · exact Or.inl h00
          · exact Or.inr ⟨(f, su, x), by simp, hgf.symm, hvs.symm⟩
        · exact Or.inr ⟨c, by simp [hc], hc1, hc2⟩
      · rw [k2d, add_ok_dim h1, Dim.add_assoc']; rfl
      · intro c hc
        simp only [List.mem_cons] at hc
        rcases hc with hc | hc
        · subst hc; exact add_ok_compat h1
        · -- a.get c.1 = some v → a1 keeps it → compat of a1
          cases hg : a.get c.1 with
          | none => exact Or.inl rfl
          | some v =>
            right
            have := k1.2 _ _ hg
            rcases k2e c hc with h0 | h0
            · rw [h0] at this; cases this
            · rw [h0] at this; exact this.symm ▸ rfl

theorem addContribs_ok_consistent {cl : List Contrib} {a a' : Acc} (h : addContribs a cl = .ok a') :
    consistentC cl := by
  have k := (addContribs_ok_spec cl h).1
  intro c1 h1 c2 h2 hf
  have e1 := k c1 h1
  have e2 := k c2 h2
  rw [hf, e2] at e1
  exact (Option.some.inj e1).symm

theorem addContribs_ok_of : ∀ (cl : List Contrib) (a : Acc), (∀ c ∈ cl, validField c.1) → compatC a cl →
    consistentC cl → ∃ a', addContribs a cl = .ok a' := by
  intro cl
  induction cl with
  | nil => intro a _ _ _; exact ⟨a, rfl⟩
  | cons c cs ih =>
    intro a hv hc hcons
    obtain ⟨f, su, x⟩ := c
    obtain ⟨a1, h1⟩ := add_ok_of x (hv (f, su, x) (by simp)) (hc (f, su, x) (by simp))
    simp only [addContribs, h1]
    apply ih a1 (fun c hc => hv c (by simp [hc]))
    · intro c hcm
      cases hg : a1.get c.1 with
      | none => exact Or.inl rfl
      | some v =>
        right
        rcases add_ok_get_rev h1 _ _ hg with h0 | ⟨hcf, hvs⟩
        · rcases hc c (by simp [hcm]) with h00 | h00
          · rw [h00] at h0; cases h0
          · rw [h00] at h0; exact h0.symm ▸ rfl
        · have := hcons (f, su, x) (by simp) c (by simp [hcm]) hcf.symm
          simp only at this
          rw [hvs, this]
    · intro c1 h1' c2 h2' hf
      exact hcons c1 (by simp [h1']) c2 (by simp [h2']) hf

theorem addContribs_error_badUnit : ∀ (cl : List Contrib) {a : Acc} {x : Err}, addContribs a cl = .error x →
    x = .badUnit := by
  intro cl
  induction cl with
  | nil => intro a x h; cases h
  | cons c cs ih =>
    intro a x h
    obtain ⟨f, su, y⟩ := c
    simp only [addContribs] at h
    cases h1 : a.add f su y with
    | error e => rw [h1] at h; cases h; exact add_error_badUnit h1
    | ok a1 => rw [h1] at h; exact ih h

/-! ### factor lists as flat contribution lists -/

def symC (s : String) : List Contrib :=
  match symContrib s with
  | .ok cs => cs
  | .error _ => []

def unitInField (f su : String) : Bool :=
  (f == "space" && spaceSyms.contains su) || (f == "time" && timeSyms.contains su) ||
    (f == "quantity" && qtySyms.contains su)

/-- every supported symbol has `addunit` calls, each on a valid field with a unit of that field -/
theorem symC_spec : ∀ s ∈ allSyms, symContrib s = .ok (symC s) ∧
    (symC s).all (fun c => unitInField c.1 c.2.1) = true := by decide +kernel

def flatC (l : List (String × Int)) : List Contrib :=
  l.flatMap fun p => (symC p.1).map fun c => (c.1, c.2.1, p.2 * c.2.2)

theorem addFactors_eq (l : List (String × Int)) (hs : ∀ p ∈ l, p.1 ∈ allSyms) (a : Acc) :
    addFactors a l = addContribs a (flatC l) := by
  induction l generalizing a with
  | nil => rfl
  | cons p r ih =>
    obtain ⟨sym, e⟩ := p
    have h1 := (symC_spec sym (hs (sym, e) (by simp))).1
    simp only [addFactors, h1, flatC, List.flatMap_cons, addContribs_append, addAll_eq_addContribs]
    cases addContribs a ((symC sym).map fun c => (c.1, c.2.1, e * c.2.2)) with
    | error x => rfl
    | ok a' => exact ih (fun q hq => hs q (by simp [hq])) a'

theorem mem_flatC {l : List (String × Int)} {c : Contrib} (h : c ∈ flatC l) :
    ∃ p ∈ l, ∃ c0 ∈ symC p.1, c = (c0.1, c0.2.1, p.2 * c0.2.2) := by
  simp only [flatC, List.mem_flatMap, List.mem_map] at h
  obtain ⟨p, hp, c0, hc0, rfl⟩ := h
  exact ⟨p, hp, c0, hc0, rfl⟩

theorem flatC_fields (l : List (String × Int)) (hs : ∀ p ∈ l, p.1 ∈ allSyms) :
    ∀ c ∈ flatC l, unitInField c.1 c.2.1 = true := by
  intro c hc
  obtain ⟨p, hp, c0, hc0, rfl⟩ := mem_flatC hc
  have := (symC_spec p.1 (hs p hp)).2
  rw [List.all_eq_true] at this
  exact this c0 hc0

theorem validField_of_unitInField {f su : String} (h : unitInField f su = true) : validField f := by
  simp only [unitInField, Bool.or_eq_true, Bool.and_eq_true, beq_iff_eq] at h
  rcases h with (h | h) | h
  · exact Or.inl h.1
  · exact Or.inr (Or.inl h.1)
  · exact Or.inr (Or.inr h.1)

theorem contribsDim_perm {l1 l2 : List Contrib} (h : l1.Perm l2) : contribsDim l1 = contribsDim l2 := by
  induction h with
  | nil => rfl
  | cons x _ ih => simp only [contribsDim, ih]
  | swap x y l =>
    simp only [contribsDim]
    rw [← Dim.add_assoc', ← Dim.add_assoc', Dim.add_comm' (fieldDim y.1 _)]
  | trans _ _ ih1 ih2 => rw [ih1, ih2]

theorem opt_ext {α} {o o' : Option α} (h : ∀ v, o = some v ↔ o' = some v) : o = o' := by
  cases o with
  | none =>
    cases o' with
    | none => rfl
    | some w => exact absurd ((h w).2 rfl) (by simp)
  | some v => exact ((h v).1 rfl).symm

theorem empty_get (g : String) : ({} : Acc).get g = none := by
  simp only [Acc.get]
  split
  · rfl
  · split
    · rfl
    · split <;> rfl

/-- the whole outcome of the fold from the empty accumulator depends only on the *set* of contributions
and the multiset of their exponents -/
theorem addContribs_perm (l1 l2 : List Contrib) (hp : l1.Perm l2) (hv : ∀ c ∈ l1, validField c.1) :
    (match addContribs {} l1, addContribs {} l2 with
      | .ok a1, .ok a2 => a1.space = a2.space ∧ a1.time = a2.time ∧ a1.qty = a2.qty ∧ a1.dim = a2.dim
      | .error x, .error y => x = y
      | _, _ => False) := by
  have hv2 : ∀ c ∈ l2, validField c.1 := fun c hc => hv c (hp.mem_iff.2 hc)
  have hcompat : ∀ l, compatC ({} : Acc) l := fun l c _ => Or.inl (empty_get _)
  have hcons : consistentC l1 ↔ consistentC l2 := by
    constructor
    · intro h c1 h1 c2 h2; exact h c1 (hp.mem_iff.2 h1) c2 (hp.mem_iff.2 h2)
    · intro h c1 h1 c2 h2; exact h c1 (hp.mem_iff.1 h1) c2 (hp.mem_iff.1 h2)
  cases h1 : addContribs {} l1 with
  | ok a1 =>
    obtain ⟨a2, h2⟩ := addContribs_ok_of l2 {} hv2 (hcompat l2) (hcons.1 (addContribs_ok_consistent h1))
    rw [h2]
    obtain ⟨s1a, _, s1c, s1d, _⟩ := addContribs_ok_spec l1 h1
    obtain ⟨s2a, _, s2c, s2d, _⟩ := addContribs_ok_spec l2 h2
    have key : ∀ g, a1.get g = a2.get g := by
      intro g
      apply opt_ext
      intro v
      constructor
      · intro h
        rcases s1c g v h with h0 | ⟨c, hc, hc1, hc2⟩
        · rw [empty_get] at h0; cases h0
        · have := s2a c (hp.mem_iff.1 hc); rw [hc1, hc2] at this; exact this
      · intro h
        rcases s2c g v h with h0 | ⟨c, hc, hc1, hc2⟩
        · rw [empty_get] at h0; cases h0
        · have := s1a c (hp.mem_iff.2 hc); rw [hc1, hc2] at this; exact this
    refine ⟨?_, ?_, ?_, ?_⟩
    · have := key "space"; rwa [get_space, get_space] at this
    · have := key "time"; rwa [get_time, get_time] at this
    · have := key "quantity"; rwa [get_qty, get_qty] at this
    · rw [s1d, s2d, contribsDim_perm hp]
  | error x =>
    cases h2 : addContribs {} l2 with
    | ok a2 =>
      obtain ⟨a1, h1'⟩ := addContribs_ok_of l1 {} hv (hcompat l1) (hcons.2 (addContribs_ok_consistent h2))
      rw [h1] at h1'; cases h1'
    | error y =>
      simp only []
      rw [addContribs_error_badUnit l1 h1, addContribs_error_badUnit l2 h2]

theorem flatC_perm {l1 l2 : List (String × Int)} (h : l1.Perm l2) : (flatC l1).Perm (flatC l2) :=
  List.Perm.flatMap_right _ h

/-- **order of the factors**: the whole result (accepted or not, units and exponents) is invariant
under permutation -/
theorem finishFactors_perm (l1 l2 : List (String × Int)) (hs : ∀ p ∈ l1, p.1 ∈ allSyms) (hp : l1.Perm l2) :
    finishFactors l1 = finishFactors l2 := by
  have hs2 : ∀ p ∈ l2, p.1 ∈ allSyms := fun p h => hs p (hp.mem_iff.2 h)
  have hv : ∀ c ∈ flatC l1, validField c.1 := fun c hc => validField_of_unitInField (flatC_fields l1 hs c hc)
  have k := addContribs_perm (flatC l1) (flatC l2) (flatC_perm hp) hv
  unfold finishFactors
  rw [addFactors_eq l1 hs, addFactors_eq l2 hs2]
  cases h1 : addContribs {} (flatC l1) with
  | ok a1 =>
    cases h2 : addContribs {} (flatC l2) with
    | ok a2 =>
      rw [h1, h2] at k
      simp only [] at k ⊢
      rw [k.1, k.2.1, k.2.2.1, k.2.2.2]
    | error y => rw [h1, h2] at k; exact absurd k (by simp)
  | error x =>
    cases h2 : addContribs {} (flatC l2) with
    | ok a2 => rw [h1, h2] at k; exact absurd k (by simp)
    | error y => rw [h1, h2] at k; simp only [] at k ⊢; rw [k]

/-! ### acceptance, resulting units, SI scale -/

def sysField (s : Sys) (f : String) : String :=
  if f = "space" then s.space else if f = "time" then s.time else s.qty

theorem finishFactors_ok_spec (l : List (String × Int)) (hs : ∀ p ∈ l, p.1 ∈ allSyms) (u : Units)
    (h : finishFactors l = .ok u) :
    u.dim = contribsDim (flatC l) ∧ u.sys.valid = true ∧ (∀ c ∈ flatC l, sysField u.sys c.1 = c.2.1) ∧
      consistentC (flatC l) := by
  unfold finishFactors at h
  rw [addFactors_eq l hs] at h
  cases h1 : addContribs {} (flatC l) with
  | error x => rw [h1] at h; cases h
  | ok acc =>
    rw [h1] at h
    simp only [] at h
    split at h
    · rename_i hv
      cases h
      obtain ⟨sa, _, _, sd, _⟩ := addContribs_ok_spec _ h1
      refine ⟨by rw [sd]; exact Dim.zero_add' _, hv, ?_, addContribs_ok_consistent h1⟩
      intro c hc
      have hg := sa c hc
      rcases validField_of_unitInField (flatC_fields l hs c hc) with hf | hf | hf
      · rw [hf, get_space] at hg; simp [sysField, hf, hg]
      · rw [hf, get_time] at hg; simp [sysField, hf, hg]
      · rw [hf, get_qty] at hg; simp [sysField, hf, hg]
    · cases h

/-- **acceptance**: a factor list of the grammar is accepted exactly when no two of its contributions
name different base units for one field -/
theorem finishFactors_ok_iff (l : List (String × Int)) (hs : ∀ p ∈ l, p.1 ∈ allSyms) :
    (∃ u, finishFactors l = .ok u) ↔ consistentC (flatC l) := by
  constructor
  · rintro ⟨u, h⟩; exact (finishFactors_ok_spec l hs u h).2.2.2
  · intro hc
    have hv : ∀ c ∈ flatC l, validField c.1 := fun c hc => validField_of_unitInField (flatC_fields l hs c hc)
    obtain ⟨acc, h1⟩ := addContribs_ok_of (flatC l) {} hv (fun c _ => Or.inl (empty_get _)) hc
    obtain ⟨_, _, sc, _, _⟩ := addContribs_ok_spec _ h1
    have hdv := (Sys.valid_iff _).1 (by decide +kernel : Sys.default.valid = true)
    have named : ∀ g v, acc.get g = some v → unitInField g v = true := by
      intro g v hg
      rcases sc g v hg with h0 | ⟨c, hcm, hc1, hc2⟩
      · rw [empty_get] at h0; cases h0
      · have := flatC_fields l hs c hcm; rwa [hc1, hc2] at this
    have hsv : (⟨acc.space.getD defaultSpace, acc.time.getD defaultTime, acc.qty.getD defaultQty⟩ : Sys).valid = true := by
      rw [Sys.valid_iff]
      refine ⟨?_, ?_, ?_⟩
      · cases hsp : acc.space with
        | none => exact hdv.1
        | some v =>
          have := named "space" v (by rw [get_space]; exact hsp)
          simpa [unitInField] using this
      · cases hsp : acc.time with
        | none => exact hdv.2.1
        | some v =>
          have := named "time" v (by rw [get_time]; exact hsp)
          simpa [unitInField] using this
      · cases hsp : acc.qty with
        | none => exact hdv.2.2
        | some v =>
          have := named "quantity" v (by rw [get_qty]; exact hsp)
          simpa [unitInField] using this
    refine ⟨⟨⟨acc.space.getD defaultSpace, acc.time.getD defaultTime, acc.qty.getD defaultQty⟩, acc.dim⟩, ?_⟩
    unfold finishFactors
    rw [addFactors_eq l hs, h1]
    simp only [hsv, if_true]

theorem finishFactors_error (l : List (String × Int)) (hs : ∀ p ∈ l, p.1 ∈ allSyms)
    (hc : ¬ consistentC (flatC l)) : finishFactors l = .error .badUnit := by
  cases h : finishFactors l with
  | ok u => exact absurd ((finishFactors_ok_iff l hs).1 ⟨u, h⟩) hc
  | error x =>
    unfold finishFactors at h
    rw [addFactors_eq l hs] at h
    cases h1 : addContribs {} (flatC l) with
    | error y => rw [h1] at h; cases h; rw [addContribs_error_badUnit _ h1]
    | ok acc =>
      rw [h1] at h
      simp only [] at h
      split at h
      · cases h
      · cases h; rfl

/-- SI value of one unit `su` of field `f` (from the scale tables) -/
def unitScale (f su : String) : Rat :=
  if f = "space" then scaleIn spaceScale su else if f = "time" then scaleIn timeScale su
  else if f = "quantity" then scaleIn qtyScale su else 1

/-- Π scale(unit)^exponent over a contribution list -/
def contribsSI : List Contrib → Rat
  | [] => 1
  | c :: r => unitScale c.1 c.2.1 ^ c.2.2 * contribsSI r

theorem siFactor_add {s : Sys} (hv : s.valid = true) (d1 d2 : Dim) :
    siFactor s (d1.add d2) = siFactor s d1 * siFactor s d2 := by
  simp only [siFactor, Dim.add]
  rw [zpow_add₀ (Sys.sSpace_ne hv), zpow_add₀ (Sys.sTime_ne hv), zpow_add₀ (Sys.sQty_ne hv)]
  ring

theorem siFactor_fieldDim (s : Sys) (f : String) (hf : validField f) (x : Int) :
    siFactor s (fieldDim f x) = unitScale f (sysField s f) ^ x := by
  rcases hf with rfl | rfl | rfl <;>
    simp [siFactor, fieldDim, unitScale, sysField, Sys.sSpace, Sys.sTime, Sys.sQty]

theorem contribsSI_eq_siFactor (s : Sys) (hv : s.valid = true) (cl : List Contrib)
    (h : ∀ c ∈ cl, validField c.1 ∧ sysField s c.1 = c.2.1) : contribsSI cl = siFactor s (contribsDim cl) := by
  induction cl with
  | nil => simp [contribsSI, contribsDim, siFactor, Dim.zero]
  | cons c r ih =>
    have hc := h c (by simp)
    simp only [contribsSI, contribsDim]
    rw [siFactor_add hv, siFactor_fieldDim s c.1 hc.1, hc.2, ih (fun x hx => h x (by simp [hx]))]

theorem contribsSI_append (l1 l2 : List Contrib) : contribsSI (l1 ++ l2) = contribsSI l1 * contribsSI l2 := by
  induction l1 with
  | nil => simp [contribsSI]
  | cons c r ih => simp only [List.cons_append, contribsSI, ih, mul_assoc]

theorem contribsSI_scaled (e : Int) (cs : List Contrib) :
    contribsSI (cs.map fun c => (c.1, c.2.1, e * c.2.2)) = contribsSI cs ^ e := by
  induction cs with
  | nil => simp [contribsSI]
  | cons c r ih =>
    simp only [List.map_cons, contribsSI, ih, mul_zpow]
    rw [mul_comm e, zpow_mul]

/-- SI value of one unit of a symbol, as its `addunit` calls define it -/
def symSI (s : String) : Rat := contribsSI (symC s)

def factorsSI : List (String × Int) → Rat
  | [] => 1
  | p :: r => symSI p.1 ^ p.2 * factorsSI r

theorem contribsSI_flatC (l : List (String × Int)) : contribsSI (flatC l) = factorsSI l := by
  induction l with
  | nil => rfl
  | cons p r ih =>
    have : flatC (p :: r) = ((symC p.1).map fun c => (c.1, c.2.1, p.2 * c.2.2)) ++ flatC r := by
      simp [flatC]
    rw [this, contribsSI_append, contribsSI_scaled, ih]
    rfl

/-- **SI scale**: an accepted factor list is read with SI scale Π (SI value of the symbol)^(signed exponent) -/
theorem finishFactors_si (l : List (String × Int)) (hs : ∀ p ∈ l, p.1 ∈ allSyms) (u : Units)
    (h : finishFactors l = .ok u) : siFactor u.sys u.dim = factorsSI l := by
  obtain ⟨hd, hv, hf, _⟩ := finishFactors_ok_spec l hs u h
  rw [hd, ← contribsSI_flatC]
  symm
  apply contribsSI_eq_siFactor u.sys hv
  intro c hc
  exact ⟨validField_of_unitInField (flatC_fields l hs c hc), hf c hc⟩

/-! ### transfer of text shapes from the raw (stripped) text to the preprocessed text -/

/-- identifies `u` with `µ` and nothing else -/
def uq (c : Char) : Char := if c = 'u' then 'µ' else c

theorem uq_eq {x y : Char} (h : uq x = uq y) (hy : y ≠ 'u' ∧ y ≠ 'µ') : x = y := by
  unfold uq at h
  split at h
  · rename_i hx
    split at h
    · rename_i hy'; exact absurd hy' hy.1
    · exact absurd h.symm hy.2
  · split at h
    · rename_i hy'; exact absurd hy' hy.1
    · exact h

theorem uq_cases {x y : Char} (h : uq x = uq y) : x = y ∨ ((x = 'u' ∨ x = 'µ') ∧ (y = 'u' ∨ y = 'µ')) := by
  by_cases hy : y ≠ 'u' ∧ y ≠ 'µ'
  · exact Or.inl (uq_eq h hy)
  · right
    have hy' : y = 'u' ∨ y = 'µ' := by
      by_cases h1 : y = 'u'
      · exact Or.inl h1
      · by_cases h2 : y = 'µ'
        · exact Or.inr h2
        · exact absurd ⟨h1, h2⟩ hy
    refine ⟨?_, hy'⟩
    by_cases hx : x ≠ 'u' ∧ x ≠ 'µ'
    · have := uq_eq h.symm hx
      rcases hy' with h1 | h1
      · exact Or.inl (by rw [← this, h1])
      · exact Or.inr (by rw [← this, h1])
    · by_cases h1 : x = 'u'
      · exact Or.inl h1
      · by_cases h2 : x = 'µ'
        · exact Or.inr h2
        · exact absurd ⟨h1, h2⟩ hx

theorem isBlank_uq (c : Char) : isBlank (uq c) = isBlank c := by
  unfold uq
  split
  · rename_i h; subst h; decide
  · rfl

theorem stripBy_map_uq (s : List Char) : (stripBlank s).map uq = stripBlank (s.map uq) := by
  have h1 : ∀ l : List Char, (l.dropWhile isBlank).map uq = (l.map uq).dropWhile isBlank := by
    intro l
    induction l with
    | nil => rfl
    | cons c cs ih =>
      simp only [List.dropWhile, List.map_cons, isBlank_uq]
      split
      · exact ih
      · simp
  unfold stripBlank stripBy
  rw [List.map_reverse, h1, List.map_reverse, h1]

/-- the preprocessed text and the stripped raw text agree up to `u`/`µ` -/
theorem prepUnits_uq (s0 : List Char) : (prepUnits s0).map uq = (stripBlank s0).map uq := by
  unfold prepUnits
  rw [stripBy_map_uq, stripBy_map_uq]
  have h := replaceChain_map uq (by decide) uSubst uSubst_patOk s0
  have h' : (uSubst.foldl (fun acc (x : String × String) =>
      match x with | (a, b) => replaceAll a.toList b.toList acc) s0).map uq = s0.map uq := h
  rw [h']

/-- a decomposition of the raw text around one character carries over -/
theorem uq_split {s t a r : List Char} {x : Char} (h : s.map uq = t.map uq) (ht : t = a ++ x :: r) :
    ∃ a' x' r', s = a' ++ x' :: r' ∧ a'.map uq = a.map uq ∧ uq x' = uq x ∧ r'.map uq = r.map uq := by
  subst ht
  rw [List.map_append, List.map_cons] at h
  obtain ⟨a', l2, hs, ha, hl2⟩ := List.map_eq_append_iff.1 h
  obtain ⟨x', r', hl, hx, hr⟩ := List.map_eq_cons_iff.1 hl2
  exact ⟨a', x', r', by rw [hs, hl], ha, hx, hr⟩

theorem uq_nil {s t : List Char} (h : s.map uq = t.map uq) (ht : t = []) : s = [] := by
  subst ht; simpa using h

end Strengths
