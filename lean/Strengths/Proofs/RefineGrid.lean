/-
Refinement, grid set-up: the object `setupGridC` builds refines the core input read off the SAME marshalled arrays
(`gridEngIn`: the decoding `Driver/Engine.lean` uses for the unchecked model) — `Build_mesh_kr` ↔ `meshKr`,
`Build_mesh_kd` ↔ `gridKd`, `mesh_neighbors` ↔ `engNbr?`, the transposed chemostat flags and state.
-/
import Strengths.Proofs.Refine

namespace Strengths
open Gen

/-- the reaction network held by the marshalled arrays -/
def argNet (a : EngArgs) : Net :=
  { nSpecies := a.ns, nReact := a.nr, nEnv := a.nenv,
    k := fun e r => a.k.get (e * a.nr + r), sub := fun s r => a.sub.get (s * a.nr + r),
    sto := fun s r => a.sto.get (s * a.nr + r), dcoef := fun s e => a.D.get (s * a.nenv + e) }

def argEnv (a : EngArgs) : Nat → Nat := fun i => (a.env.get i).toNat

/-- the core input of a grid set-up -/
def gridEngIn (a : EngArgs) (g : GridShape) (vol h : Rat) : EngIn :=
  { net := argNet a, topo := gridTopo g (argNet a) (argEnv a) h, env := argEnv a,
    chem := fun i s => decide (a.chstt.get (s * g.size + i) ≠ 0), vol := fun _ => vol }

theorem speciesFirstToMeshFirst_val {α : Type} [Inhabited α] (v : Vec α) (ns n : Nat) (hv : v.size = n * ns) :
    Ok (speciesFirstToMeshFirst v ns n) (fun mf => mf.size = n * ns ∧ ∀ i s, i < n → s < ns → mf.get (i * ns + s) = v.get (s * n + i)) := by
  let Inv := fun (s i : Nat) (mf : Vec α) => mf.size = n * ns ∧
    ∀ i' s', i' < n → s' < ns → (s' < s ∨ (s' = s ∧ i' < i)) → mf.get (i' * ns + s') = v.get (s' * n + i')
  unfold speciesFirstToMeshFirst
  refine Ok.mono (Ok.forUpTo (fun s mf => Inv s 0 mf) ⟨hv, fun i' s' _ _ h => by omega⟩ (fun s hs mf hmf => ?_))
    (fun mf h => ⟨h.1, fun i s hi hs => h.2 i s hi hs (Or.inl hs)⟩)
  refine Ok.mono (Ok.forUpTo (fun i mf => Inv s i mf) hmf (fun i hi mf hmf => ?_))
    (fun mf h => ⟨h.1, fun i' s' hi' hs' hb => h.2 i' s' hi' hs' (by omega)⟩)
  rw [transposeSrc_nat, transposeDst_nat]
  refine Ok.bind (Vec.rd_nat v _ (by rw [hv, Nat.mul_comm n ns]; exact flat2_lt ns n s i hs hi)) (fun a ha => ?_)
  refine Ok.mono (Vec.wr_nat mf _ a (by rw [hmf.1]; exact flat2_lt n ns i s hi hs)) (fun mf' h => ⟨h.1.trans hmf.1, fun i' s' hi' hs' hb => ?_⟩)
  by_cases heq : i' = i ∧ s' = s
  · obtain ⟨e1, e2⟩ := heq; subst e1 e2; rw [h.2.1, ha]
  · have hne : i' * ns + s' ≠ i * ns + s := fun hh => heq (flat2_inj hs' hs hh)
    rw [h.2.2 _ hne]
    exact hmf.2 i' s' hi' hs' (by omega)

theorem foldl_add_eq_listSum (f : Nat → Nat) (n : Nat) :
    (List.range n).foldl (fun q s => q + f s) 0 = ((List.range n).map f).sum := by
  rw [List.sum_eq_foldl, List.foldl_map]

/-- `Build_mesh_kr` ↔ `meshKr`: value of every entry -/
theorem buildMeshKr_val (n ns nr nenv : Nat) (env : Vec Int) (sub : Vec Nat) (k : Vec Rat) (vol : Nat → CRes Rat) (volv : Nat → Rat)
    (henv : EnvOK env n nenv) (hsub : sub.size = ns * nr) (hk : k.size = nenv * nr) (hvol : ∀ i, i < n → vol i = .ok (volv i)) :
    Ok (buildMeshKr n ns nr env sub k vol) (fun kr => kr.size = n * nr ∧ ∀ i r, i < n → r < nr →
      kr.get (i * nr + r) = k.get ((env.get i).toNat * nr + r) *
        (volv i) ^ ((1 : Int) - ((((List.range ns).map fun s => sub.get (s * nr + r)).sum : Nat) : Int))) := by
  let val := fun (i r : Nat) => k.get ((env.get i).toNat * nr + r) *
        (volv i) ^ ((1 : Int) - ((((List.range ns).map fun s => sub.get (s * nr + r)).sum : Nat) : Int))
  let Inv := fun (i r : Nat) (kr : Vec Rat) => kr.size = n * nr ∧
    ∀ i' r', i' < n → r' < nr → (i' < i ∨ (i' = i ∧ r' < r)) → kr.get (i' * nr + r') = val i' r'
  unfold buildMeshKr
  refine Ok.mono (Ok.forUpTo (fun i kr => Inv i 0 kr) ⟨rfl, fun i' r' _ _ h => by omega⟩ (fun i hi kr hkr => ?_))
    (fun kr h => ⟨h.1, fun i r hi hr => h.2 i r hi hr (Or.inl hi)⟩)
  refine Ok.mono (Ok.forUpTo (fun r kr => Inv i r kr) hkr (fun r hr kr hkr => ?_))
    (fun kr h => ⟨h.1, fun i' r' hi' hr' hb => h.2 i' r' hi' hr' (by omega)⟩)
  refine Ok.bind (Ok.forUpTo (fun m (q : Nat) => q = (List.range m).foldl (fun q s => q + sub.get (s * nr + r)) 0) rfl (fun s hs q hq => ?_))
    (fun q hq => ?_)
  · rw [subIndex_nat]
    refine Ok.bind (Vec.rd_nat sub _ (by rw [hsub]; exact flat2_lt ns nr s r hs hr)) (fun c hc => Ok.pure ?_)
    rw [foldl_range_succ, ← hq, hc]
  refine Ok.bind (Vec.rd_nat env i (by rw [henv.1]; exact hi)) (fun ev hev => ?_)
  have her := henv.2 i hi
  rw [← hev] at her
  obtain ⟨e', rfl⟩ := Int.eq_ofNat_of_zero_le her.1
  have he' : e' < nenv := by exact_mod_cast her.2
  rw [kIndex_nat]
  refine Ok.bind (Vec.rd_nat k _ (by rw [hk]; exact flat2_lt nenv nr e' r he' hr)) (fun kv hkv => ?_)
  rw [hvol i hi, ok_bind, krIndex_nat]
  refine Ok.mono (Vec.wr_nat kr _ _ (by rw [hkr.1]; exact flat2_lt n nr i r hi hr)) (fun kr' h => ⟨h.1.trans hkr.1, fun i' r' hi' hr' hb => ?_⟩)
  by_cases heq : i' = i ∧ r' = r
  · obtain ⟨e1, e2⟩ := heq; subst e1 e2
    rw [h.2.1, hkv, hq, foldl_add_eq_listSum]
    show _ = val i' r'
    simp only [val, ← hev, Int.toNat_natCast]
  · have hne : i' * nr + r' ≠ i * nr + r := fun hh => heq (flat2_inj hr' hr hh)
    rw [h.2.2 _ hne]
    exact hkr.2 i' r' hi' hr' (by omega)

/-- `mesh_neighbors[i*6+k]` read as an option is the core model's `engNbr?` -/
theorem nbG_eq_engNbr {g : GridShape} (hv : g.valid = true) {i k : Nat} (hi : i < g.size) (hk : k < 6) :
    nbG g i k = engNbr? g i k := by
  unfold nbG engNbr?
  rcases engNeighbor_range hv hi hk with h1 | h1
  · simp [h1, Gen.nbrNone]
  · have hne : engNeighbor g i k ≠ Gen.nbrNone := by unfold Gen.nbrNone; omega
    have hnn : ¬ engNeighbor g i k < 0 := by omega
    simp [hne, hnn]

/-- `Build_mesh_kd` (grid) ↔ `gridKd`: value of every entry -/
theorem buildMeshKdGrid_val (g : GridShape) (hv : g.valid = true) (ns nenv : Nat) (nbrs : Vec Int) (hn : NbrsOK g nbrs)
    (env : Vec Int) (henv : EnvOK env g.size nenv) (D : Vec Rat) (hD : D.size = ns * nenv) (h : Rat)
    (net : Net) (envf : Nat → Nat) (hnetD : ∀ s e, s < ns → e < nenv → D.get (s * nenv + e) = net.dcoef s e)
    (henvf : ∀ i, i < g.size → env.get i = (envf i : Int)) :
    Ok (buildMeshKdGrid g.size ns nenv nbrs env D h) (fun kd => kd.size = g.size * ns * 6 ∧
      ∀ i s k, i < g.size → s < ns → k < 6 → kd.get (i * ns * 6 + s * 6 + k) = gridKd g net envf h i s k) := by
  let Inv := fun (s i k : Nat) (kd : Vec Rat) => kd.size = g.size * ns * 6 ∧
    ∀ i' s' k', i' < g.size → s' < ns → k' < 6 → (s' < s ∨ (s' = s ∧ (i' < i ∨ (i' = i ∧ k' < k)))) →
      kd.get (i' * ns * 6 + s' * 6 + k') = gridKd g net envf h i' s' k'
  unfold buildMeshKdGrid
  have h0 : (Vec.replicate (ns * g.size * 6) (0 : Rat)).size = g.size * ns * 6 := by
    show ns * g.size * 6 = g.size * ns * 6; rw [Nat.mul_comm ns g.size]
  refine Ok.mono (Ok.forUpTo (fun s kd => Inv s 0 0 kd) ⟨h0, fun i' s' k' _ _ _ hb => by omega⟩ (fun s hs kd hkd => ?_))
    (fun kd hk => ⟨hk.1, fun i s k hi hs hk' => hk.2 i s k hi hs hk' (Or.inl hs)⟩)
  refine Ok.mono (Ok.forUpTo (fun i kd => Inv s i 0 kd) hkd (fun i hi kd hkd => ?_))
    (fun kd hk => ⟨hk.1, fun i' s' k' hi' hs' hk' hb => hk.2 i' s' k' hi' hs' hk' (by omega)⟩)
  refine Ok.mono (Ok.forUpTo (fun k kd => Inv s i k kd) hkd (fun k hk kd hkd => ?_))
    (fun kd hkk => ⟨hkk.1, fun i' s' k' hi' hs' hk' hb => hkk.2 i' s' k' hi' hs' hk' (by omega)⟩)
  -- writing entry (i, s, k) with the core value keeps the invariant
  have hw : ∀ v : Rat, v = gridKd g net envf h i s k → Ok (kd.wr (Gen.kdIndexGrid ns i s k) v) (fun kd' => Inv s i (k + 1) kd') := by
    intro v hvv
    rw [kdIndexGrid_nat]
    refine Ok.mono (Vec.wr_nat kd _ v (by rw [hkd.1]; exact flat3_lt g.size ns 6 i s k hi hs hk)) (fun kd' hk' => ⟨hk'.1.trans hkd.1, ?_⟩)
    intro i' s' k' hi' hs' hk'' hb
    by_cases heq : i' = i ∧ s' = s ∧ k' = k
    · obtain ⟨e1, e2, e3⟩ := heq; subst e1 e2 e3; rw [hk'.2.1, hvv]
    · have hne : i' * ns * 6 + s' * 6 + k' ≠ i * ns * 6 + s * 6 + k := fun hh => heq (flat3_inj hs' hk'' hs hk hh)
      rw [hk'.2.2 _ hne]
      exact hkd.2 i' s' k' hi' hs' hk'' (by omega)
  refine Ok.bind (nbrs_site hn hi hk) (fun j hj => ?_)
  have hnbeq := nbG_eq_engNbr hv hi hk
  by_cases hnone : j = Gen.nbrNone
  · rw [if_pos hnone]
    refine hw 0 ?_
    unfold gridKd
    rw [← hnbeq]; unfold nbG; rw [← hj, if_pos hnone]
  · rw [if_neg hnone]
    have hjr : 0 ≤ j ∧ j < (g.size : Int) := by
      rcases engNeighbor_range hv hi hk with h1 | h1
      · exfalso; apply hnone; rw [hj, h1]; rfl
      · rw [hj]; exact h1
    obtain ⟨j', hj'e⟩ := Int.eq_ofNat_of_zero_le hjr.1
    have hj' : j' < g.size := by rw [hj'e] at hjr; exact_mod_cast hjr.2
    have hnbsome : engNbr? g i k = some j' := by
      rw [← hnbeq]; unfold nbG; rw [← hj, if_neg hnone, hj'e]; simp
    rw [hj'e]
    refine Ok.bind (Vec.rd_nat env i (by rw [henv.1]; exact hi)) (fun ei hei => ?_)
    refine Ok.bind (Vec.rd_nat env j' (by rw [henv.1]; exact hj')) (fun ej hej => ?_)
    rw [hei, henvf i hi, hej, henvf j' hj', dIndex_nat, dIndex_nat]
    have hei' : envf i < nenv := by have := (henv.2 i hi).2; rw [henvf i hi] at this; exact_mod_cast this
    have hej' : envf j' < nenv := by have := (henv.2 j' hj').2; rw [henvf j' hj'] at this; exact_mod_cast this
    refine Ok.bind (Vec.rd_nat D _ (by rw [hD]; exact flat2_lt ns nenv s _ hs hei')) (fun Di hDi => ?_)
    refine Ok.bind (Vec.rd_nat D _ (by rw [hD]; exact flat2_lt ns nenv s _ hs hej')) (fun Dj hDj => ?_)
    refine hw _ ?_
    unfold gridKd
    rw [hnbsome, hDi, hDj, hnetD s _ hs hei', hnetD s _ hs hej']

/-- ASSEMBLY, grid: the object built by `engineexport_initialize_grid` + `Init` refines the core input decoded from the same
arrays, and its `mesh_x` is the transposed (processed) state -/
theorem setupGridC_refines (a : EngArgs) (g : GridShape) (vol h : Rat) (hv : ValidGridArgs a g) :
    Ok (setupGridC a g vol h) (fun S => SimOK S ∧ Refines (gridEngIn a g vol h) S.T S.L ∧ S.dt = a.dt ∧
      ∃ st0 : Vec Rat, (∀ j, j < g.size * a.ns → st0.get j = a.state.get j) ∧
        ∀ i s, i < g.size → s < a.ns → (absState S.T.ns S.x) i s = (a.process st0).get (s * g.size + i)) := by
  unfold setupGridC
  have hn : g.w * g.h * g.d = g.size := rfl
  simp only [hn]
  refine Ok.bind (mkVec_ok a.state _ hv.state) (fun st0 hst0 => ?_)
  refine Ok.bind (speciesFirstToMeshFirst_val (a.process st0) a.ns g.size (by rw [hv.process]; exact hst0.1)) (fun x0 hx0 => ?_)
  refine Ok.bind (mkVec_ok a.chstt _ hv.chstt) (fun ch0 hch0 => ?_)
  refine Ok.bind (speciesFirstToMeshFirst_val ch0 a.ns g.size hch0.1) (fun ch hch => ?_)
  refine Ok.bind (mkVec_ok a.env _ hv.env) (fun env henv => ?_)
  refine Ok.bind (mkVec_ok a.k _ hv.k) (fun k hk => ?_)
  refine Ok.bind (mkVec_ok a.sub _ hv.sub) (fun sub hsub => ?_)
  refine Ok.bind (mkVec_ok a.sto _ hv.sto) (fun sto hsto => ?_)
  refine Ok.bind (mkVec_ok a.D _ hv.D) (fun D hD => ?_)
  refine Ok.bind (mkVec_ok a.sampleT _ hv.sampleT) (fun ts hts => ?_)
  refine Ok.bind (buildMeshNeighbors_ok g) (fun nbrs hnbrs => ?_)
  have henvOK : EnvOK env g.size a.nenv := ⟨henv.1, fun i hi => by rw [henv.2 i hi]; exact hv.envRange i hi⟩
  have henvf : ∀ i, i < g.size → env.get i = ((argEnv a i : Nat) : Int) := by
    intro i hi
    rw [henv.2 i hi]; unfold argEnv
    exact (Int.toNat_of_nonneg (hv.envRange i hi).1).symm
  refine Ok.bind (buildMeshKr_val g.size a.ns a.nr a.nenv env sub k (fun _ => .ok vol) (fun _ => vol) henvOK hsub.1 hk.1 (fun _ _ => rfl))
    (fun kr hkr => ?_)
  have hnetD : ∀ s e, s < a.ns → e < a.nenv → D.get (s * a.nenv + e) = (argNet a).dcoef s e := by
    intro s e hs he
    exact hD.2 _ (flat2_lt a.ns a.nenv s e hs he)
  refine Ok.bind (buildMeshKdGrid_val g hv.valid a.ns a.nenv nbrs hnbrs env henvOK D hD.1 h (argNet a) (argEnv a) hnetD henvf) (fun kd hkd => ?_)
  let T : Tabs := { n := g.size, ns := a.ns, nr := a.nr, nenv := a.nenv, chstt := ch, sub := sub, sto := sto, kr := kr }
  let G : GridTabs := { nbrs := nbrs, opp := oppVec, kd := kd }
  have hT : TabsOK T := ⟨hch.1, hsub.1, hsto.1, hkr.1⟩
  have hG : GridOK g T G := ⟨hv.valid, rfl, hnbrs, rfl, hkd.1⟩
  have hL := gridLayout_ok hG
  have hscr : ScratchOK T (gridLayout a.ns G) (fun _ => 6)
      (scratchInit a.option g.size a.ns a.nr (.flat (Vec.replicate (6 * a.ns * g.size) 0)) (.flat (Vec.replicate (6 * a.ns * g.size) 0))) := by
    unfold scratchInit
    split
    · exact .euler _ (Nat.mul_comm a.ns g.size)
    · exact .tau _ (Nat.mul_comm a.nr g.size) (gridSlotOK hG _ rfl)
    · exact .gil _ ⟨Nat.mul_comm a.nr g.size, rfl, rfl, gridSlotOK hG _ rfl⟩
  have hsmp0 : SmpOK (freshSampler a ts) (g.size * a.ns) := ⟨hts.1, rfl, fun k hk => by
    have : k < 0 := hk
    omega⟩
  have hstep := samplingStep_ok hsmp0 x0 hx0.1
  rw [← conds_grid] at hstep
  refine Ok.bind hstep (fun smp hsmp => ?_)
  -- the layout with the core model's neighbour function
  have hL' : LayoutOK T (gridLayout a.ns G) (gridTopo g (argNet a) (argEnv a) h).nSlots (gridTopo g (argNet a) (argEnv a) h).nbr := by
    refine ⟨hL.nSlots, ?_, ?_, hL.kout, ?_, hL.slot, hL.slot_inj⟩
    · intro i k hi hk
      rw [hL.nbr i k hi hk]; exact congrArg _ (nbG_eq_engNbr hv.valid hi hk)
    · intro i k j hi hk hj
      exact hL.nbr_lt i k j hi hk (by rw [nbG_eq_engNbr hv.valid hi hk]; exact hj)
    · intro i s k j hi hs hk hj
      exact hL.kin i s k j hi hs hk (by rw [nbG_eq_engNbr hv.valid hi hk]; exact hj)
  have hkdsite : ∀ (i s k : Nat), i < g.size → s < a.ns → k < 6 → kd.rd (Gen.kdIndexGrid a.ns i s k) = .ok (gridKd g (argNet a) (argEnv a) h i s k) := by
    intro i s k hi hs hk
    rw [kdIndexGrid_nat]
    obtain ⟨v, hv1, hv2⟩ := Vec.rd_nat kd (i * a.ns * 6 + s * 6 + k) (by rw [hkd.1]; exact flat3_lt g.size a.ns 6 i s k hi hs hk)
    rw [hv1, hv2, hkd.2 i s k hi hs hk]
  have hR : Refines (gridEngIn a g vol h) T (gridLayout a.ns G) := by
    refine ⟨rfl, rfl, rfl, hT, hL', ?_, ?_, ?_, ?_, ?_, ?_⟩
    · intro s r hs hr; exact hsub.2 _ (flat2_lt a.ns a.nr s r hs hr)
    · intro s r hs hr; exact hsto.2 _ (flat2_lt a.ns a.nr s r hs hr)
    · intro i r hi hr
      show kr.get (i * a.nr + r) = _
      rw [hkr.2 i r hi hr]
      unfold meshKr Net.order
      have hkk : k.get ((env.get i).toNat * a.nr + r) = (argNet a).k (argEnv a i) r := by
        have he : (env.get i).toNat = argEnv a i := by rw [henvf i hi]; simp
        rw [he]
        have hlt : argEnv a i < a.nenv := by
          have := (henvOK.2 i hi).2; rw [henvf i hi] at this; exact_mod_cast this
        exact hk.2 _ (flat2_lt a.nenv a.nr _ r hlt hr)
      rw [hkk]
      have hsum : ((List.range a.ns).map fun s => sub.get (s * a.nr + r)) = ((List.range a.ns).map fun s => (argNet a).sub s r) := by
        apply List.map_congr_left
        intro s hs
        exact hsub.2 _ (flat2_lt a.ns a.nr s r (List.mem_range.mp hs) hr)
      rw [hsum]; rfl
    · intro i s hi hs
      show ch.get (i * a.ns + s) ≠ 0 ↔ decide (a.chstt.get (s * g.size + i) ≠ 0) = true
      rw [hch.2 i s hi hs, hch0.2 _ (by rw [Nat.mul_comm g.size a.ns]; exact flat2_lt a.ns g.size s i hs hi)]
      simp
    · intro i s k hi hs hk
      exact hkdsite i s k hi hs hk
    · intro i s k j hi hs hk hj
      have hk6 : k < 6 := hk
      have hjl : j < g.size := hL'.nbr_lt i k j hi hk hj
      show (nbrs.rd (Gen.nbrReadIndex i k) >>= fun j => oppVec.rd k >>= fun o => kd.rd (Gen.kdIndexGrid a.ns j s o) >>= fun c => .ok (j, c)) = _
      obtain ⟨j0, hj0, hje⟩ := nbrs_site hnbrs hi hk6
      have hje' : j0 = (j : Int) := by
        have h1 : engNbr? g i k = some j := hj
        rw [← nbG_eq_engNbr hv.valid hi hk6] at h1
        unfold nbG at h1
        split at h1
        · cases h1
        · injection h1 with h1
          rcases engNeighbor_range hv.valid hi hk6 with h2 | h2
          · rename_i hne; exact absurd (by rw [h2]; rfl) hne
          · rw [hje, ← h1]; exact (Int.toNat_of_nonneg h2.1).symm
      rw [hj0, ok_bind, hje']
      obtain ⟨osz, _⟩ := oppVec_site
      obtain ⟨ov, hov1, hov2⟩ := Vec.rd_nat oppVec k (by rw [osz]; exact hk6)
      rw [hov1, ok_bind, hov2]
      have hopp : oppVec.get k = ((oppOf k : Nat) : Int) := rfl
      have hoppl : oppOf k < 6 := by
        have : ∀ k, k < 6 → oppOf k < 6 := by decide
        exact this k hk6
      rw [hopp, hkdsite j s (oppOf k) hjl hs hoppl, ok_bind]
      show _ = Except.ok ((j : Int), (gridTopo g (argNet a) (argEnv a) h).kin i s k)
      have : (gridTopo g (argNet a) (argEnv a) h).kin i s k = gridKd g (argNet a) (argEnv a) h j s (oppOf k) := by
        show (match engNbr? g i k with | none => 0 | some j => gridKd g (argNet a) (argEnv a) h j s (oppOf k)) = _
        have h1 : engNbr? g i k = some j := hj
        rw [h1]
      rw [this]
  refine Ok.pure ⟨⟨hT, ⟨fun _ => 6, nbG g, hL, hscr⟩, hx0.1, hsmp, conds_grid⟩, hR, rfl, st0, hst0.2, ?_⟩
  intro i s hi hs
  exact hx0.2 i s hi hs

end Strengths
