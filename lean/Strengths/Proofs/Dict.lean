/- Helper lemmas for C12: `process_input_dict_keys` on canonical dictionaries, units / quantity write-then-read,
the generic reader applied to the generic writer's output. -/
import Strengths.Model.Dict

namespace Strengths.Dict
open Strengths Strengths.Gen

/-! ### association lists with distinct keys -/

theorem eq_of_key_eq {α} {l : List (String × α)} (hn : (l.map (·.1)).Nodup) {p q : String × α}
    (hp : p ∈ l) (hq : q ∈ l) (h : q.1 = p.1) : q = p := by
  induction l with
  | nil => cases hp
  | cons a t ih =>
    simp only [List.map_cons, List.nodup_cons, List.mem_map, not_exists, not_and] at hn
    rcases List.mem_cons.1 hp with rfl | hp' <;> rcases List.mem_cons.1 hq with rfl | hq'
    · rfl
    · exact absurd h (hn.1 q hq')
    · exact absurd h.symm (hn.1 p hp')
    · exact ih hn.2 hp' hq'

/-- `d[k] = v` where `(k, v)` is already an entry: nothing changes -/
theorem kvSet_self {d : KV} (hn : (d.map (·.1)).Nodup) {p : String × Json} (hp : p ∈ d) :
    kvSet d p.1 p.2 = d := by
  unfold kvSet
  have hany : d.any (fun q => q.1 == p.1) = true := List.any_eq_true.2 ⟨p, hp, by simp⟩
  rw [if_pos hany]
  conv => rhs; rw [← List.map_id d]
  apply List.map_congr_left
  intro q hq
  by_cases h : q.1 = p.1
  · have := eq_of_key_eq hn hp hq h
    simp [this]
  · simp [h]

theorem lookup_of_mem {α} {l : List (String × α)} (hn : (l.map (·.1)).Nodup) {p : String × α} (hp : p ∈ l) :
    l.lookup p.1 = some p.2 := by
  induction l with
  | nil => cases hp
  | cons a t ih =>
    simp only [List.map_cons, List.nodup_cons, List.mem_map, not_exists, not_and] at hn
    rcases List.mem_cons.1 hp with rfl | hp'
    · simp [List.lookup]
    · have hne : ¬ (p.1 = a.1) := fun h => hn.1 p hp' h
      have : (p.1 == a.1) = false := by simpa using hne
      simp only [List.lookup, this]
      exact ih hn.2 hp'

/-! ### `process_input_dict_keys` -/

/-- the two rejection tests depend on the keys only -/
def keysRejected (syn : List (List String)) (ks : List String) : Bool :=
  ks.any (fun k => !(syn.any (fun s => s.contains k))) ||
  syn.any (fun s => decide ((ks.filter (fun k => s.contains k)).length > 1))

/-- every key that belongs to a synonym group is the first key of that group -/
def keysCanonical (syn : List (List String)) (ks : List String) : Bool :=
  syn.all fun s => ks.all fun k => !s.contains k || s.head? == some k

theorem filter_keys_length (s : List String) (d : KV) :
    (d.filter (fun p => s.contains p.1)).length = ((d.map (·.1)).filter (fun k => s.contains k)).length := by
  rw [List.filter_map, List.length_map]
  rfl

theorem ite_or {α} (x y : Bool) (a b : α) : (if x then a else if y then a else b) = if (x || y) then a else b := by
  cases x <;> cases y <;> rfl

/-- the third step of `process_input_dict_keys` for one synonym group -/
def groupStep (acc : KV) (s : List String) : KV :=
  match s with
  | [] => acc
  | c :: _ => acc.foldl (fun acc' p => if s.contains p.1 then kvSet acc' c p.2 else acc') acc

theorem processKeys_eq (syn : List (List String)) (d : KV) :
    processKeys syn d =
      if keysRejected syn (d.map (·.1)) then .error .badKey else .ok (syn.foldl groupStep d) := by
  unfold processKeys keysRejected
  have h1 : d.any (fun p => !(syn.any (fun s => s.contains p.1))) =
      (d.map (·.1)).any (fun k => !(syn.any (fun s => s.contains k))) := by
    simp [List.any_map, Function.comp_def]
  have h2 : syn.any (fun s => decide ((d.filter (fun p => s.contains p.1)).length > 1)) =
      syn.any (fun s => decide (((d.map (·.1)).filter (fun k => s.contains k)).length > 1)) := by
    congr 1; funext s; rw [filter_keys_length]
  rw [h1, h2]
  exact ite_or _ _ _ _

theorem inner_fold_id (s : List String) (c : String) (d : KV) (hn : (d.map (·.1)).Nodup)
    (hc : ∀ p ∈ d, s.contains p.1 = true → p.1 = c) (l : KV) (hl : ∀ p ∈ l, p ∈ d) :
    l.foldl (fun acc' p => if s.contains p.1 then kvSet acc' c p.2 else acc') d = d := by
  induction l with
  | nil => rfl
  | cons a t ih =>
    simp only [List.foldl_cons]
    have ha : a ∈ d := hl a (List.mem_cons_self ..)
    have : (if s.contains a.1 then kvSet d c a.2 else d) = d := by
      split
      · rename_i h
        rw [← hc a ha h]
        exact kvSet_self hn ha
      · rfl
    rw [this]
    exact ih (fun p hp => hl p (List.mem_cons_of_mem _ hp))

theorem groupStep_id (syn : List (List String)) (d : KV) (hcan : keysCanonical syn (d.map (·.1)) = true)
    (hn : (d.map (·.1)).Nodup) (s : List String) (hsyn : s ∈ syn) : groupStep d s = d := by
  cases s with
  | nil => rfl
  | cons c r =>
    apply inner_fold_id (c :: r) c d hn _ d (fun p hp => hp)
    intro p hp hcont
    have := (List.all_eq_true.1 ((List.all_eq_true.1 hcan) (c :: r) hsyn)) p.1 (List.mem_map.2 ⟨p, hp, rfl⟩)
    simp only [hcont, Bool.not_true, Bool.false_or, List.head?_cons, beq_iff_eq, Option.some.injEq] at this
    exact this.symm

/-- a dictionary whose keys are canonical and distinct passes `process_input_dict_keys` unchanged -/
theorem processKeys_canonical (syn : List (List String)) (d : KV)
    (hrej : keysRejected syn (d.map (·.1)) = false) (hcan : keysCanonical syn (d.map (·.1)) = true)
    (hn : (d.map (·.1)).Nodup) : processKeys syn d = .ok d := by
  rw [processKeys_eq, hrej]
  simp only [Bool.false_eq_true, if_false]
  congr 1
  have key : ∀ (ss : List (List String)), (∀ s ∈ ss, s ∈ syn) → ss.foldl groupStep d = d := by
    intro ss
    induction ss with
    | nil => intro _; rfl
    | cons s t ih =>
      intro hs
      simp only [List.foldl_cons]
      rw [groupStep_id syn d hcan hn s (hs s (List.mem_cons_self ..))]
      exact ih (fun s' hs' => hs s' (List.mem_cons_of_mem _ hs'))
  exact key syn (fun s hs => hs)

/-- same, with the key list named (so that the three side conditions are closed terms for `decide`) -/
theorem processKeys_canonical' (syn : List (List String)) (d : KV) (ks : List String) (hks : d.map (·.1) = ks)
    (hrej : keysRejected syn ks = false) (hcan : keysCanonical syn ks = true) (hn : ks.Nodup) :
    processKeys syn d = .ok d := by
  subst hks
  exact processKeys_canonical syn d hrej hcan hn

/-! ### `mapRes` -/

theorem mapRes_ok {α β} (f : α → Res β) (g : α → β) (l : List α) (h : ∀ a ∈ l, f a = .ok (g a)) :
    mapRes f l = .ok (l.map g) := by
  induction l with
  | nil => rfl
  | cons a t ih =>
    simp only [mapRes, h a (List.mem_cons_self ..), ih (fun b hb => h b (List.mem_cons_of_mem _ hb)), List.map_cons]

end Strengths.Dict

namespace Strengths.Dict
open Strengths Strengths.Gen

/-! ### units and quantities: write, then read -/

theorem sysOfJson_write (us : Sys) (h : us.valid = true) :
    sysOfJson [("space", .str us.space), ("time", .str us.time), ("quantity", .str us.qty)] = .ok us := by
  unfold sysOfJson
  rw [processKeys_canonical' _ _ ["space", "time", "quantity"] rfl (by decide +kernel) (by decide +kernel)
    (by decide +kernel)]
  simp only [List.lookup, show ("space" == "space") = true from rfl, show ("time" == "space") = false by decide,
    show ("time" == "time") = true from rfl, show ("quantity" == "space") = false by decide,
    show ("quantity" == "time") = false by decide, show ("quantity" == "quantity") = true from rfl]
  cases us with | mk a b c =>
  simp only [mkSys]
  rw [if_pos h]

theorem readUnits_write (parent : Sys) (dflt : String) (us : Sys) (h : us.valid = true) :
    readUnits parent dflt (some (sysToJson us)) = .ok us := by
  simp only [readUnits, sysToJson, Option.getD_some]
  exact sysOfJson_write us h

/-- a quantity after its text has been re-read: same number, units as parsed back from the printed units -/
def reparse (x : UVal) : UVal :=
  match parseUnits (showUnits x.u) with
  | .ok u' => ⟨x.v, u'⟩
  | .error _ => x

def reparseArr (x : UArr) : UArr :=
  match parseUnits (showUnits x.u) with
  | .ok u' => ⟨x.vs, u'⟩
  | .error _ => x

/-- the printed units are read back with the same dimension, the same SI scale and the same text
(the base unit of a zero exponent is not printed and comes back as the default one).  This is the
print/parse law of the unit grammar (C18); here it is a hypothesis on the units that occur, discharged
by evaluation for concrete units (`printable_examples`). -/
def Printable (u : Units) : Prop :=
  ∃ u', parseUnits (showUnits u) = .ok u' ∧ u'.dim = u.dim ∧
    siFactor u'.sys u'.dim = siFactor u.sys u.dim ∧ showUnits u' = showUnits u

theorem reparse_physical {x : UVal} (h : Printable x.u) :
    (reparse x).v = x.v ∧ (reparse x).u.dim = x.u.dim ∧ (reparse x).si = x.si ∧ writeQty (reparse x) = writeQty x := by
  obtain ⟨u', h1, h2, h3, h4⟩ := h
  simp only [reparse, h1, UVal.si, h2, h3, writeQty, h4, and_self]
  rw [← h2, h3, h2]
  simp

theorem reparseArr_physical {x : UArr} (h : Printable x.u) :
    (reparseArr x).vs = x.vs ∧ (reparseArr x).u.dim = x.u.dim ∧ (reparseArr x).si = x.si ∧
      writeUArr (reparseArr x) = writeUArr x := by
  obtain ⟨u', h1, h2, h3, h4⟩ := h
  simp only [reparseArr, h1, UArr.si, h2, writeUArr, h4, and_self, true_and]
  rw [← h2, h3, h2]
  simp

theorem readQty_write (us : Sys) (dim : Dim) (x : UVal) (hp : Printable x.u) (hd : x.u.dim = dim) :
    readQty us dim (writeQty x) = .ok (reparse x) := by
  obtain ⟨u', h1, h2, _, _⟩ := hp
  simp only [writeQty, readQty, h1, reparse, h2, hd]
  simp

/-! ### environment dictionaries -/

theorem assocSet_fresh {α} (m : List (String × α)) (k : String) (v : α) (h : ∀ p ∈ m, p.1 ≠ k) :
    assocSet m k v = m ++ [(k, v)] := by
  unfold assocSet
  have : m.any (fun p => p.1 == k) = false := by
    apply List.any_eq_false.2
    intro p hp
    simpa using h p hp
  simp [this]

/-- keys that `process_unitvar_input` leaves alone (no comma, no blank at the ends) and distinct -/
def EnvKeysOK (ks : List String) : Prop := ks.Nodup ∧ ∀ k ∈ ks, splitKeys k = [k]

theorem readEnvQty_write (us : Sys) (dim : Dim) (m : List (String × UVal)) (acc : List (String × UVal))
    (hk : EnvKeysOK (m.map (·.1))) (hacc : ∀ p ∈ acc, ∀ q ∈ m, p.1 ≠ q.1)
    (hq : ∀ p ∈ m, Printable p.2.u ∧ p.2.u.dim = dim) :
    readEnvQty us dim (m.map fun p => (p.1, writeQty p.2)) acc = .ok (acc ++ m.map fun p => (p.1, reparse p.2)) := by
  induction m generalizing acc with
  | nil => simp [readEnvQty]
  | cons a t ih =>
    obtain ⟨hnd, hsp⟩ := hk
    simp only [List.map_cons, List.nodup_cons] at hnd
    have ha := hq a (List.mem_cons_self ..)
    simp only [List.map_cons, readEnvQty]
    have hw : writeQty a.2 = .qty a.2.v (showUnits a.2.u) := rfl
    rw [hw]
    simp only []
    rw [← hw, readQty_write us dim a.2 ha.1 ha.2]
    simp only [hsp a.1 (by simp), List.foldl_cons, List.foldl_nil]
    rw [assocSet_fresh acc a.1 (reparse a.2) (fun p hp => hacc p hp a (List.mem_cons_self ..))]
    rw [ih (acc ++ [(a.1, reparse a.2)]) ⟨hnd.2, fun k hk => hsp k (List.mem_cons_of_mem _ hk)⟩]
    · simp
    · intro p hp q hq'
      rcases List.mem_append.1 hp with h | h
      · exact hacc p h q (List.mem_cons_of_mem _ hq')
      · simp only [List.mem_singleton] at h
        subst h
        intro heq
        exact hnd.1 (List.mem_map.2 ⟨q, hq', heq.symm⟩)
    · exact fun p hp => hq p (List.mem_cons_of_mem _ hp)

/-! ### the generic reader on a written dictionary -/

theorem fromDictG_written {χ} (tbl : DictKeys.Table) (fields : List Field) (parent : Sys) (base : Option String)
    (fs : FS) (rc : String → Sys → Option String → Json → Res χ) (kvD : KV) (us : Sys) (g : Field → Val χ)
    (hpk : processKeys tbl.aliases kvD = .ok kvD)
    (hu : readUnits parent (tbl.unitsDefault.getD "inherit") (kvD.lookup "units") = .ok us)
    (hf : ∀ f ∈ fields, readField ⟨us, base, fs, rc⟩ kvD f = .ok (f.param, g f)) :
    fromDictG tbl fields parent base fs rc (.obj kvD) =
      .ok (("units_system", .sys us) :: fields.map fun f => (f.param, g f)) := by
  simp only [fromDictG, hpk, hu]
  rw [mapRes_ok _ (fun f => (f.param, g f)) fields hf]

end Strengths.Dict

namespace Strengths.Dict
open Strengths Strengths.Gen

/-! ### values of the kinds of a species / node / edge -/

/-- the value read back from the written form: quantities re-read from their text, everything else unchanged -/
def reparseVal {χ} : Val χ → Val χ
  | .qty x => .qty (reparse x)
  | .envQty m => .envQty (m.map fun p => (p.1, reparse p.2))
  | .arr x => .arr (reparseArr x)
  | v => v

/-- well-formed value of a `process_unitvar_input(single ✓, dict ✓)` property of dimension `dim` -/
def QtyEnvOK {χ} (dim : Dim) (v : Val χ) : Prop :=
  (∃ x, v = .qty x ∧ Printable x.u ∧ x.u.dim = dim) ∨
  (∃ m, v = .envQty m ∧ EnvKeysOK (m.map (·.1)) ∧ (∀ p ∈ m, p.1 ≠ "units" ∧ p.1 ≠ "value") ∧
    ∀ p ∈ m, Printable p.2.u ∧ p.2.u.dim = dim)

theorem lookup_none_of_forall {α} (l : List (String × α)) (k : String) (h : ∀ p ∈ l, p.1 ≠ k) : l.lookup k = none := by
  induction l with
  | nil => rfl
  | cons a t ih =>
    obtain ⟨ak, av⟩ := a
    have hne : ak ≠ k := h (ak, av) (List.mem_cons_self ..)
    have : (k == ak) = false := beq_eq_false_iff_ne.2 (fun h => hne h.symm)
    rw [List.lookup_cons, this]
    exact ih (fun p hp => h p (List.mem_cons_of_mem _ hp))

theorem readKind_qtyEnv_eq {χ} (c : Ctx χ) (d : KV) (ds : DimSpec) (j : Json) :
    readKind c d (.qtyEnv ds) j =
      match dimOf d ds with
      | .error e => .error e
      | .ok dim =>
        match j with
        | .obj kv => if isUnitArrayDict kv then .error .badValue else (readEnvQty c.us dim kv []).map .envQty
        | _ => (readQty c.us dim j).map .qty := by
  cases j <;> rfl

theorem readKind_qty_eq {χ} (c : Ctx χ) (d : KV) (dim : Dim) (j : Json) :
    readKind c d (.qty dim) j = (readQty c.us dim j).map .qty := by
  cases j <;> rfl

theorem readKind_qtyEnv_write {χ} (c : Ctx χ) (d : KV) (dim : Dim) (wc : χ → Json) (v : Val χ) (hv : QtyEnvOK dim v) :
    readKind c d (.qtyEnv (.fixed dim)) (writeVal wc v) = .ok (reparseVal v) := by
  rw [readKind_qtyEnv_eq]
  rcases hv with ⟨x, rfl, hp, hd⟩ | ⟨m, rfl, hk, hne, hq⟩
  · have hw : writeVal wc (.qty x) = .qty x.v (showUnits x.u) := rfl
    simp only [dimOf, hw]
    have hw' : Json.qty x.v (showUnits x.u) = writeQty x := rfl
    rw [hw', readQty_write c.us dim x hp hd]
    rfl
  · have hw : writeVal wc (.envQty m) = .obj (m.map fun p => (p.1, writeQty p.2)) := rfl
    simp only [dimOf, hw]
    have hua : isUnitArrayDict (m.map fun p => (p.1, writeQty p.2)) = false := by
      unfold isUnitArrayDict
      rw [lookup_none_of_forall _ "units" (by intro p hp; obtain ⟨q, hq', rfl⟩ := List.mem_map.1 hp; exact (hne q hq').1),
        lookup_none_of_forall _ "value" (by intro p hp; obtain ⟨q, hq', rfl⟩ := List.mem_map.1 hp; exact (hne q hq').2)]
      rfl
    rw [hua]
    simp only [Bool.false_eq_true, if_false]
    rw [readEnvQty_write c.us dim m [] hk (by intro p hp; cases hp) hq]
    rfl

theorem readKind_qty_write {χ} (c : Ctx χ) (d : KV) (dim : Dim) (wc : χ → Json) (x : UVal)
    (hp : Printable x.u) (hd : x.u.dim = dim) :
    readKind c d (.qty dim) (writeVal wc (.qty x)) = .ok (.qty (reparse x)) := by
  rw [readKind_qty_eq]
  have hw : writeVal wc (.qty x) = writeQty x := rfl
  rw [hw, readQty_write c.us dim x hp hd]
  rfl

end Strengths.Dict
