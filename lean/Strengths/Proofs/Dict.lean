/- Helper lemmas for C12: `process_input_dict_keys` on canonical dictionaries, units / quantity write-then-read,
the generic reader applied to the generic writer's output. -/
import Strengths.Model.Dict

namespace Strengths.Dict
open Strengths Strengths.Gen

/-! ### association lists with distinct keys -/

theorem eq_of_key_eq {α} {l : List (String × α)} (hn : (l.map (·.1)).Nodup) {p q : String × α}
    (hp : p ∈ l) (hq : q ∈ l) (h : q.1 = p.1) : q = p := by
  induction l with
  | nil => cases hp
  | cons a t ih =>
    simp only [List.map_cons, List.nodup_cons, List.mem_map, not_exists, not_and] at hn
    rcases List.mem_cons.1 hp with rfl | hp' <;> rcases List.mem_cons.1 hq with rfl | hq'
    · rfl
    · exact absurd h (hn.1 q hq')
    · exact absurd h.symm (hn.1 p hp')
    · exact ih hn.2 hp' hq'

/-- `d[k] = v` where `(k, v)` is already an entry: nothing changes -/
theorem kvSet_self {d : KV} (hn : (d.map (·.1)).Nodup) {p : String × Json} (hp : p ∈ d) :
    kvSet d p.1 p.2 = d := by
  unfold kvSet
  have hany : d.any (fun q => q.1 == p.1) = true := List.any_eq_true.2 ⟨p, hp, by simp⟩
  rw [if_pos hany]
  conv => rhs; rw [← List.map_id d]
  apply List.map_congr_left
  intro q hq
  by_cases h : q.1 = p.1
  · have := eq_of_key_eq hn hp hq h
    simp [this]
  · simp [h]

theorem lookup_of_mem {α} {l : List (String × α)} (hn : (l.map (·.1)).Nodup) {p : String × α} (hp : p ∈ l) :
    l.lookup p.1 = some p.2 := by
  induction l with
  | nil => cases hp
  | cons a t ih =>
    simp only [List.map_cons, List.nodup_cons, List.mem_map, not_exists, not_and] at hn
    rcases List.mem_cons.1 hp with rfl | hp'
    · simp [List.lookup]
    · have hne : ¬ (p.1 = a.1) := fun h => hn.1 p hp' h
      have : (p.1 == a.1) = false := by simpa using hne
      simp only [List.lookup, this]
      exact ih hn.2 hp'

/-! ### `process_input_dict_keys` -/

/-- the two rejection tests depend on the keys only -/
def keysRejected (syn : List (List String)) (ks : List String) : Bool :=
  ks.any (fun k => !(syn.any (fun s => s.contains k))) ||
  syn.any (fun s => decide ((ks.filter (fun k => s.contains k)).length > 1))

/-- every key that belongs to a synonym group is the first key of that group -/
def keysCanonical (syn : List (List String)) (ks : List String) : Bool :=
  syn.all fun s => ks.all fun k => !s.contains k || s.head? == some k

theorem filter_keys_length (s : List String) (d : KV) :
    (d.filter (fun p => s.contains p.1)).length = ((d.map (·.1)).filter (fun k => s.contains k)).length := by
  rw [List.filter_map, List.length_map]
  rfl

theorem ite_or {α} (x y : Bool) (a b : α) : (if x then a else if y then a else b) = if (x || y) then a else b := by
  cases x <;> cases y <;> rfl

/-- the third step of `process_input_dict_keys` for one synonym group -/
def groupStep (acc : KV) (s : List String) : KV :=
  match s with
  | [] => acc
  | c :: _ => acc.foldl (fun acc' p => if s.contains p.1 then kvSet acc' c p.2 else acc') acc

theorem processKeys_eq (syn : List (List String)) (d : KV) :
    processKeys syn d =
      if keysRejected syn (d.map (·.1)) then .error .badKey else .ok (syn.foldl groupStep d) := by
  unfold processKeys keysRejected
  have h1 : d.any (fun p => !(syn.any (fun s => s.contains p.1))) =
      (d.map (·.1)).any (fun k => !(syn.any (fun s => s.contains k))) := by
    simp [List.any_map, Function.comp_def]
  have h2 : syn.any (fun s => decide ((d.filter (fun p => s.contains p.1)).length > 1)) =
      syn.any (fun s => decide (((d.map (·.1)).filter (fun k => s.contains k)).length > 1)) := by
    congr 1; funext s; rw [filter_keys_length]
  rw [h1, h2]
  exact ite_or _ _ _ _

theorem inner_fold_id (s : List String) (c : String) (d : KV) (hn : (d.map (·.1)).Nodup)
    (hc : ∀ p ∈ d, s.contains p.1 = true → p.1 = c) (l : KV) (hl : ∀ p ∈ l, p ∈ d) :
    l.foldl (fun acc' p => if s.contains p.1 then kvSet acc' c p.2 else acc') d = d := by
  induction l with
  | nil => rfl
  | cons a t ih =>
    simp only [List.foldl_cons]
    have ha : a ∈ d := hl a (List.mem_cons_self ..)
    have : (if s.contains a.1 then kvSet d c a.2 else d) = d := by
      split
      · rename_i h
        rw [← hc a ha h]
        exact kvSet_self hn ha
      · rfl
    rw [this]
    exact ih (fun p hp => hl p (List.mem_cons_of_mem _ hp))

theorem groupStep_id (syn : List (List String)) (d : KV) (hcan : keysCanonical syn (d.map (·.1)) = true)
    (hn : (d.map (·.1)).Nodup) (s : List String) (hsyn : s ∈ syn) : groupStep d s = d := by
  cases s with
  | nil => rfl
  | cons c r =>
    apply inner_fold_id (c :: r) c d hn _ d (fun p hp => hp)
    intro p hp hcont
    have := (List.all_eq_true.1 ((List.all_eq_true.1 hcan) (c :: r) hsyn)) p.1 (List.mem_map.2 ⟨p, hp, rfl⟩)
    simp only [hcont, Bool.not_true, Bool.false_or, List.head?_cons, beq_iff_eq, Option.some.injEq] at this
    exact this.symm

/-- a dictionary whose keys are canonical and distinct passes `process_input_dict_keys` unchanged -/
theorem processKeys_canonical (syn : List (List String)) (d : KV)
    (hrej : keysRejected syn (d.map (·.1)) = false) (hcan : keysCanonical syn (d.map (·.1)) = true)
    (hn : (d.map (·.1)).Nodup) : processKeys syn d = .ok d := by
  rw [processKeys_eq, hrej]
  simp only [Bool.false_eq_true, if_false]
  congr 1
  have key : ∀ (ss : List (List String)), (∀ s ∈ ss, s ∈ syn) → ss.foldl groupStep d = d := by
    intro ss
    induction ss with
    | nil => intro _; rfl
    | cons s t ih =>
      intro hs
      simp only [List.foldl_cons]
      rw [groupStep_id syn d hcan hn s (hs s (List.mem_cons_self ..))]
      exact ih (fun s' hs' => hs s' (List.mem_cons_of_mem _ hs'))
  exact key syn (fun s hs => hs)

/-- same, with the key list named (so that the three side conditions are closed terms for `decide`) -/
theorem processKeys_canonical' (syn : List (List String)) (d : KV) (ks : List String) (hks : d.map (·.1) = ks)
    (hrej : keysRejected syn ks = false) (hcan : keysCanonical syn ks = true) (hn : ks.Nodup) :
    processKeys syn d = .ok d := by
  subst hks
  exact processKeys_canonical syn d hrej hcan hn

/-! ### `mapRes` -/

theorem mapRes_ok {α β} (f : α → Res β) (g : α → β) (l : List α) (h : ∀ a ∈ l, f a = .ok (g a)) :
    mapRes f l = .ok (l.map g) := by
  induction l with
  | nil => rfl
  | cons a t ih =>
    simp only [mapRes, h a (List.mem_cons_self ..), ih (fun b hb => h b (List.mem_cons_of_mem _ hb)), List.map_cons]

end Strengths.Dict

namespace Strengths.Dict
open Strengths Strengths.Gen

/-! ### units and quantities: write, then read -/

theorem sysOfJson_write (us : Sys) (h : us.valid = true) :
    sysOfJson [("space", .str us.space), ("time", .str us.time), ("quantity", .str us.qty)] = .ok us := by
  unfold sysOfJson
  rw [processKeys_canonical' _ _ ["space", "time", "quantity"] rfl (by decide +kernel) (by decide +kernel)
    (by decide +kernel)]
  simp only [List.lookup, show ("space" == "space") = true from rfl, show ("time" == "space") = false by decide,
    show ("time" == "time") = true from rfl, show ("quantity" == "space") = false by decide,
    show ("quantity" == "time") = false by decide, show ("quantity" == "quantity") = true from rfl]
  cases us with | mk a b c =>
  simp only [mkSys]
  rw [if_pos h]

theorem readUnits_write (parent : Sys) (dflt : String) (us : Sys) (h : us.valid = true) :
    readUnits parent dflt (some (sysToJson us)) = .ok us := by
  simp only [readUnits, sysToJson, Option.getD_some]
  exact sysOfJson_write us h

/-- a quantity after its text has been re-read: same number, units as parsed back from the printed units -/
def reparse (x : UVal) : UVal :=
  match parseUnits (showUnits x.u) with
  | .ok u' => ⟨x.v, u'⟩
  | .error _ => x

def reparseArr (x : UArr) : UArr :=
  match parseUnits (showUnits x.u) with
  | .ok u' => ⟨x.vs, u'⟩
  | .error _ => x

/-- the printed units are read back with the same dimension, the same SI scale and the same text
(the base unit of a zero exponent is not printed and comes back as the default one).  This is the
print/parse law of the unit grammar (C18); here it is a hypothesis on the units that occur, discharged
by evaluation for concrete units (`printable_examples`). -/
def Printable (u : Units) : Prop :=
  ∃ u', parseUnits (showUnits u) = .ok u' ∧ u'.dim = u.dim ∧
    siFactor u'.sys u'.dim = siFactor u.sys u.dim ∧ showUnits u' = showUnits u

theorem reparse_physical {x : UVal} (h : Printable x.u) :
    (reparse x).v = x.v ∧ (reparse x).u.dim = x.u.dim ∧ (reparse x).si = x.si ∧ writeQty (reparse x) = writeQty x := by
  obtain ⟨u', h1, h2, h3, h4⟩ := h
  simp only [reparse, h1, UVal.si, h2, h3, writeQty, h4, and_self]
  rw [← h2, h3, h2]
  simp

theorem reparseArr_physical {x : UArr} (h : Printable x.u) :
    (reparseArr x).vs = x.vs ∧ (reparseArr x).u.dim = x.u.dim ∧ (reparseArr x).si = x.si ∧
      writeUArr (reparseArr x) = writeUArr x := by
  obtain ⟨u', h1, h2, h3, h4⟩ := h
  simp only [reparseArr, h1, UArr.si, h2, writeUArr, h4, and_self, true_and]
  rw [← h2, h3, h2]
  simp

theorem readQty_write (us : Sys) (dim : Dim) (x : UVal) (hp : Printable x.u) (hd : x.u.dim = dim) :
    readQty us dim (writeQty x) = .ok (reparse x) := by
  obtain ⟨u', h1, h2, _, _⟩ := hp
  simp only [writeQty, readQty, h1, reparse, h2, hd]
  simp

/-! ### environment dictionaries -/

theorem assocSet_fresh {α} (m : List (String × α)) (k : String) (v : α) (h : ∀ p ∈ m, p.1 ≠ k) :
    assocSet m k v = m ++ [(k, v)] := by
  unfold assocSet
  have : m.any (fun p => p.1 == k) = false := by
    apply List.any_eq_false.2
    intro p hp
    simpa using h p hp
  simp [this]

/-- keys that `process_unitvar_input` leaves alone (no comma, no blank at the ends) and distinct -/
def EnvKeysOK (ks : List String) : Prop := ks.Nodup ∧ ∀ k ∈ ks, splitKeys k = [k]

theorem readEnvQty_write (us : Sys) (dim : Dim) (m : List (String × UVal)) (acc : List (String × UVal))
    (hk : EnvKeysOK (m.map (·.1))) (hacc : ∀ p ∈ acc, ∀ q ∈ m, p.1 ≠ q.1)
    (hq : ∀ p ∈ m, Printable p.2.u ∧ p.2.u.dim = dim) :
    readEnvQty us dim (m.map fun p => (p.1, writeQty p.2)) acc = .ok (acc ++ m.map fun p => (p.1, reparse p.2)) := by
  induction m generalizing acc with
  | nil => simp [readEnvQty]
  | cons a t ih =>
    obtain ⟨hnd, hsp⟩ := hk
    simp only [List.map_cons, List.nodup_cons] at hnd
    have ha := hq a (List.mem_cons_self ..)
    simp only [List.map_cons, readEnvQty]
    have hw : writeQty a.2 = .qty a.2.v (showUnits a.2.u) := rfl
    rw [hw]
    simp only []
    rw [← hw, readQty_write us dim a.2 ha.1 ha.2]
    simp only [hsp a.1 (by simp), List.foldl_cons, List.foldl_nil]
    rw [assocSet_fresh acc a.1 (reparse a.2) (fun p hp => hacc p hp a (List.mem_cons_self ..))]
    rw [ih (acc ++ [(a.1, reparse a.2)]) ⟨hnd.2, fun k hk => hsp k (List.mem_cons_of_mem _ hk)⟩]
    · simp
    · intro p hp q hq'
      rcases List.mem_append.1 hp with h | h
      · exact hacc p h q (List.mem_cons_of_mem _ hq')
      · simp only [List.mem_singleton] at h
        subst h
        intro heq
        exact hnd.1 (List.mem_map.2 ⟨q, hq', heq.symm⟩)
    · exact fun p hp => hq p (List.mem_cons_of_mem _ hp)

/-! ### the generic reader on a written dictionary -/

theorem fromDictG_written {χ} (tbl : DictKeys.Table) (fields : List Field) (parent : Sys) (base : Option String)
    (fs : FS) (rc : String → Sys → Option String → Json → Res χ) (kvD : KV) (us : Sys) (g : Field → Val χ)
    (hpk : processKeys tbl.aliases kvD = .ok kvD)
    (hu : readUnits parent (tbl.unitsDefault.getD "inherit") (kvD.lookup "units") = .ok us)
    (hf : ∀ f ∈ fields, readField ⟨us, base, fs, rc⟩ kvD f = .ok (f.param, g f)) :
    fromDictG tbl fields parent base fs rc (.obj kvD) =
      .ok (("units_system", .sys us) :: fields.map fun f => (f.param, g f)) := by
  simp only [fromDictG, hpk, hu]
  rw [mapRes_ok _ (fun f => (f.param, g f)) fields hf]

end Strengths.Dict

namespace Strengths.Dict
open Strengths Strengths.Gen

/-! ### values of the kinds of a species / node / edge -/

/-- the value read back from the written form: quantities re-read from their text, everything else unchanged -/
def reparseVal {χ} : Val χ → Val χ
  | .qty x => .qty (reparse x)
  | .envQty m => .envQty (m.map fun p => (p.1, reparse p.2))
  | .arr x => .arr (reparseArr x)
  | .stoich s p => .stoich (nz s) (nz p)
  | v => v

theorem sidesOrder_nz (l : List (String × Int)) : sidesOrder (nz l) = sidesOrder l := by
  have key : ∀ (l : List (String × Int)) (acc : Int),
      ((nz l).map (·.2)).foldl (· + ·) acc = (l.map (·.2)).foldl (· + ·) acc := by
    intro l
    induction l with
    | nil => intro acc; rfl
    | cons a t ih =>
      intro acc
      by_cases h : a.2 = 0
      · have : nz (a :: t) = nz t := by simp [nz, h]
        rw [this, ih]; simp [h]
      · have : nz (a :: t) = a :: nz t := by simp [nz, h]
        rw [this]; simp only [List.map_cons, List.foldl_cons]; exact ih _
  exact key l 0

theorem nz_nz (l : List (String × Int)) : nz (nz l) = nz l := by simp [nz, List.filter_filter]

/-- well-formed value of a `process_unitvar_input(single ✓, dict ✓)` property of dimension `dim` -/
def QtyEnvOK {χ} (dim : Dim) (v : Val χ) : Prop :=
  (∃ x, v = .qty x ∧ Printable x.u ∧ x.u.dim = dim) ∨
  (∃ m, v = .envQty m ∧ EnvKeysOK (m.map (·.1)) ∧ (∀ p ∈ m, p.1 ≠ "units" ∧ p.1 ≠ "value") ∧
    ∀ p ∈ m, Printable p.2.u ∧ p.2.u.dim = dim)

theorem lookup_none_of_forall {α} (l : List (String × α)) (k : String) (h : ∀ p ∈ l, p.1 ≠ k) : l.lookup k = none := by
  induction l with
  | nil => rfl
  | cons a t ih =>
    obtain ⟨ak, av⟩ := a
    have hne : ak ≠ k := h (ak, av) (List.mem_cons_self ..)
    have : (k == ak) = false := beq_eq_false_iff_ne.2 (fun h => hne h.symm)
    rw [List.lookup_cons, this]
    exact ih (fun p hp => h p (List.mem_cons_of_mem _ hp))

theorem readKind_qtyEnv_eq {χ} (c : Ctx χ) (d : KV) (ds : DimSpec) (j : Json) :
    readKind c d (.qtyEnv ds) j =
      match dimOf d ds with
      | .error e => .error e
      | .ok dim =>
        match j with
        | .obj kv => if isUnitArrayDict kv then .error .badValue else (readEnvQty c.us dim kv []).map .envQty
        | _ => (readQty c.us dim j).map .qty := by
  cases j <;> rfl

theorem readKind_qty_eq {χ} (c : Ctx χ) (d : KV) (dim : Dim) (j : Json) :
    readKind c d (.qty dim) j = (readQty c.us dim j).map .qty := by
  cases j <;> rfl

theorem readKind_qtyEnv_write' {χ} (c : Ctx χ) (d : KV) (ds : DimSpec) (dim : Dim) (wc : χ → Json) (v : Val χ)
    (hdim : dimOf d ds = .ok dim) (hv : QtyEnvOK dim v) :
    readKind c d (.qtyEnv ds) (writeVal wc v) = .ok (reparseVal v) := by
  rw [readKind_qtyEnv_eq, hdim]
  rcases hv with ⟨x, rfl, hp, hd⟩ | ⟨m, rfl, hk, hne, hq⟩
  · have hw : writeVal wc (.qty x) = .qty x.v (showUnits x.u) := rfl
    simp only [hw]
    have hw' : Json.qty x.v (showUnits x.u) = writeQty x := rfl
    rw [hw', readQty_write c.us dim x hp hd]
    rfl
  · have hw : writeVal wc (.envQty m) = .obj (m.map fun p => (p.1, writeQty p.2)) := rfl
    simp only [hw]
    have hua : isUnitArrayDict (m.map fun p => (p.1, writeQty p.2)) = false := by
      unfold isUnitArrayDict
      rw [lookup_none_of_forall _ "units" (by intro p hp; obtain ⟨q, hq', rfl⟩ := List.mem_map.1 hp; exact (hne q hq').1),
        lookup_none_of_forall _ "value" (by intro p hp; obtain ⟨q, hq', rfl⟩ := List.mem_map.1 hp; exact (hne q hq').2)]
      rfl
    rw [hua]
    simp only [Bool.false_eq_true, if_false]
    rw [readEnvQty_write c.us dim m [] hk (by intro p hp; cases hp) hq]
    rfl

theorem readKind_qtyEnv_write {χ} (c : Ctx χ) (d : KV) (dim : Dim) (wc : χ → Json) (v : Val χ) (hv : QtyEnvOK dim v) :
    readKind c d (.qtyEnv (.fixed dim)) (writeVal wc v) = .ok (reparseVal v) :=
  readKind_qtyEnv_write' c d (.fixed dim) dim wc v rfl hv

theorem readKind_qty_write {χ} (c : Ctx χ) (d : KV) (dim : Dim) (wc : χ → Json) (x : UVal)
    (hp : Printable x.u) (hd : x.u.dim = dim) :
    readKind c d (.qty dim) (writeVal wc (.qty x)) = .ok (.qty (reparse x)) := by
  rw [readKind_qty_eq]
  have hw : writeVal wc (.qty x) = writeQty x := rfl
  rw [hw, readQty_write c.us dim x hp hd]
  rfl

end Strengths.Dict

namespace Strengths.Dict
open Strengths Strengths.Gen

/-! ### the generic writer's dictionary, and the generic reader applied to it -/

/-- the dictionary `toDictG` writes -/
def writtenKV {χ} (fields : List Field) (extra : KV) (po : Option Sys) (wc : χ → Json) (o : Obj χ) : KV :=
  extra ++ (if po == some (objSys o) then [] else [("units", sysToJson (objSys o))]) ++
    fields.map fun f => (f.key, writeVal wc ((o.lookup f.param).getD .none))

theorem toDictG_eq {χ} (fields : List Field) (extra : KV) (po : Option Sys) (wc : χ → Json) (o : Obj χ) :
    toDictG fields extra po wc o = .obj (writtenKV fields extra po wc o) := rfl

/-- **generic round trip**: reading what the generic writer wrote gives, parameter by parameter, whatever the
kind-level reader makes of the written value (`g f`), in the units system of the object -/
theorem generic_roundtrip {χ} (tbl : DictKeys.Table) (fields : List Field) (extra : KV) (po : Option Sys)
    (parent : Sys) (base : Option String) (fs : FS) (rc : String → Sys → Option String → Json → Res χ)
    (wc : χ → Json) (o : Obj χ) (g : Field → Val χ) (ks : List String)
    (hks : (writtenKV fields extra po wc o).map (·.1) = ks)
    (hrej : keysRejected tbl.aliases ks = false) (hcan : keysCanonical tbl.aliases ks = true) (hn : ks.Nodup)
    (hu : readUnits parent (tbl.unitsDefault.getD "inherit") ((writtenKV fields extra po wc o).lookup "units") = .ok (objSys o))
    (hf : ∀ f ∈ fields, readKind ⟨objSys o, base, fs, rc⟩ (writtenKV fields extra po wc o) f.kind
        (writeVal wc ((o.lookup f.param).getD .none)) = .ok (g f)) :
    fromDictG tbl fields parent base fs rc (toDictG fields extra po wc o) =
      .ok (("units_system", .sys (objSys o)) :: fields.map fun f => (f.param, g f)) := by
  rw [toDictG_eq]
  apply fromDictG_written tbl fields parent base fs rc _ (objSys o) g
    (processKeys_canonical' _ _ ks hks hrej hcan hn) hu
  intro f hfm
  have hn' : ((writtenKV fields extra po wc o).map (·.1)).Nodup := hks ▸ hn
  have hmem : (f.key, writeVal wc ((o.lookup f.param).getD .none)) ∈ writtenKV fields extra po wc o :=
    List.mem_append_right _ (List.mem_map.2 ⟨f, hfm, rfl⟩)
  have hl := lookup_of_mem hn' hmem
  simp only [readField, hl]
  show Except.map _ (readKind _ _ f.kind (writeVal wc ((o.lookup f.param).getD .none))) = _
  rw [hf f hfm]
  rfl

/-- re-serialisation: if every parameter of `o'` is written like the one of `o` (and the units systems agree),
the dictionaries are equal -/
theorem toDictG_congr {χ} (fields : List Field) (extra : KV) (po : Option Sys) (wc : χ → Json) (o o' : Obj χ)
    (hs : objSys o' = objSys o)
    (hv : ∀ f ∈ fields, writeVal wc ((o'.lookup f.param).getD .none) = writeVal wc ((o.lookup f.param).getD .none)) :
    toDictG fields extra po wc o' = toDictG fields extra po wc o := by
  simp only [toDictG_eq, writtenKV, hs]
  congr 2
  apply List.map_congr_left
  intro f hf
  rw [hv f hf]

/-! ### kind by kind: the written value is read back -/

theorem mapRes_map {α β} (f : β → Res α) (h : α → β) (l : List α) (hf : ∀ a ∈ l, f (h a) = .ok a) :
    mapRes f (l.map h) = .ok l := by
  induction l with
  | nil => rfl
  | cons a t ih =>
    simp only [List.map_cons, mapRes, hf a (List.mem_cons_self ..), ih (fun b hb => hf b (List.mem_cons_of_mem _ hb))]

theorem mapRes_map' {α β γ} (f : β → Res γ) (h : α → β) (g : α → γ) (l : List α) (hf : ∀ a ∈ l, f (h a) = .ok (g a)) :
    mapRes f (l.map h) = .ok (l.map g) := by
  induction l with
  | nil => rfl
  | cons a t ih =>
    simp only [List.map_cons, mapRes, hf a (List.mem_cons_self ..), ih (fun b hb => hf b (List.mem_cons_of_mem _ hb))]

theorem pyIntOf_int (n : Int) : pyIntOf (.num (n : Rat)) = .ok n := by
  simp only [pyIntOf]
  split
  · rw [Rat.floor_intCast]
  · have : (-(n : Rat)) = ((-n : Int) : Rat) := by simp
    rw [this, Rat.floor_intCast]; simp

theorem readInts_write (l : List Int) : readInts (l.map fun (n : Int) => Json.num (n : Rat)) = .ok l :=
  mapRes_map pyIntOf _ l (fun n _ => pyIntOf_int n)

theorem readKind_label_str {χ} (c : Ctx χ) (d : KV) (wc : χ → Json) (l : String) (h : validLabel l = true) :
    readKind c d .label (writeVal wc (.str l)) = .ok (.str l) := by
  show (if validLabel l then (.ok (.str l) : Res (Val χ)) else .error .badValue) = _
  rw [h]; rfl

theorem readKind_label_none {χ} (c : Ctx χ) (d : KV) (wc : χ → Json) :
    readKind c d .label (writeVal wc .none) = .ok .none := rfl

theorem readKind_boolEnv_bool {χ} (c : Ctx χ) (d : KV) (wc : χ → Json) (b : Bool) :
    readKind c d .boolEnv (writeVal wc (.bool b)) = .ok (.bool b) := rfl

theorem readKind_boolEnv_raw {χ} (c : Ctx χ) (d : KV) (wc : χ → Json) (kv : KV) :
    readKind c d .boolEnv (writeVal wc (.raw (.obj kv))) = .ok (.raw (.obj kv)) := rfl

theorem readKind_stoich {χ} (c : Ctx χ) (d : KV) (wc : χ → Json) (s p : List (String × Int)) :
    readKind c d .stoich (writeVal wc (.stoich s p)) = .ok (.stoich (nz s) (nz p)) := rfl

theorem readKind_int {χ} (c : Ctx χ) (d : KV) (wc : χ → Json) (n : Int) :
    readKind c d .int (writeVal wc (.int n)) = .ok (.int n) := by
  show (pyIntOf (.num (n : Rat))).map Val.int = _
  rw [pyIntOf_int]; rfl

theorem readKind_seed {χ} (c : Ctx χ) (d : KV) (wc : χ → Json) (n : Int) :
    readKind c d .seed (writeVal wc (.int n)) = .ok (.int n) := by
  show (pyIntOf (.num (n : Rat))).map Val.int = _
  rw [pyIntOf_int]; rfl

theorem readKind_intOrInts {χ} (c : Ctx χ) (d : KV) (wc : χ → Json) (l : List Int) :
    readKind c d .intOrInts (writeVal wc (.ints l)) = .ok (.ints l) := by
  show (readInts (l.map fun (n : Int) => Json.num (n : Rat))).map Val.ints = _
  rw [readInts_write]; rfl

theorem readKind_intsOrPath {χ} (c : Ctx χ) (d : KV) (wc : χ → Json) (l : List Int) :
    readKind c d .intsOrPath (writeVal wc (.ints l)) = .ok (.ints l) := by
  show (readInts (l.map fun (n : Int) => Json.num (n : Rat))).map Val.ints = _
  rw [readInts_write]; rfl

theorem readKind_intPair {χ} (c : Ctx χ) (d : KV) (wc : χ → Json) (i j : Int) :
    readKind c d .intPair (writeVal wc (.ints [i, j])) = .ok (.ints [i, j]) := by
  show (match pyIntOf (.num (i : Rat)), pyIntOf (.num (j : Rat)) with
    | .ok i, .ok j => (.ok (.ints [i, j]) : Res (Val χ))
    | .error e, _ => .error e
    | _, .error e => .error e) = _
  rw [pyIntOf_int, pyIntOf_int]

theorem readKind_enum {χ} (c : Ctx χ) (d : KV) (wc : χ → Json) (allowed : List String) (s : String)
    (h : allowed.contains s = true) : readKind c d (.enum allowed) (writeVal wc (.str s)) = .ok (.str s) := by
  show (if allowed.contains s then (.ok (.str s) : Res (Val χ)) else .error .badValue) = _
  rw [h]; rfl

/-- environments: a non-empty list of labels none of which is "default" -/
theorem readKind_strList {χ} (c : Ctx χ) (d : KV) (wc : χ → Json) (l : List String) (hne : l ≠ [])
    (hd : ∀ s ∈ l, (s == "default") = false) :
    readKind c d .strList (writeVal wc (.strs l)) = .ok (.strs l) := by
  show (if (l.map Json.str).isEmpty then (.error .badValue : Res (Val χ)) else
    (mapRes (fun j => match j with
        | .str s => if s == "default" then Except.error Err.badValue else .ok s
        | _ => .error .typeError) (l.map Json.str)).map Val.strs) = _
  have : (l.map Json.str).isEmpty = false := by cases l with | nil => exact absurd rfl hne | cons => rfl
  rw [this]
  simp only [Bool.false_eq_true, if_false]
  rw [mapRes_map _ Json.str l (by intro s hs; simp only [hd s hs]; rfl)]
  rfl

theorem readKind_uarr_obj_eq {χ} (c : Ctx χ) (d : KV) (dim : Dim) (kv : KV) :
    readKind c d (.uarr dim) (.obj kv) =
      match readUArrDict c.base c.fs kv with
      | .error e => .error e
      | .ok x => if x.u.dim != dim then .error .dimMismatch else .ok (.arr x) := rfl

theorem readUArrDict_write (base : Option String) (fs : FS) (x : UArr) (u' : Units) (h1 : parseUnits (showUnits x.u) = .ok u') :
    readUArrDict base fs [("value", .arr (x.vs.map .num)), ("units", .str (showUnits x.u))] = .ok ⟨x.vs, u'⟩ := by
  unfold readUArrDict
  rw [processKeys_canonical' _ _ ["value", "units"] rfl (by decide +kernel) (by decide +kernel) (by decide +kernel)]
  simp only [List.lookup, show ("value" == "value") = true from rfl, show ("units" == "value") = false by decide,
    show ("units" == "units") = true from rfl, h1]
  rw [mapRes_map _ Json.num x.vs (fun q _ => rfl)]
  rfl

/-- a unit array: `unitarray_to_dict` then `unitarray_from_dict` + the dimension check of the owner -/
theorem readKind_uarr {χ} (c : Ctx χ) (d : KV) (wc : χ → Json) (x : UArr) (dim : Dim)
    (hp : Printable x.u) (hd : x.u.dim = dim) :
    readKind c d (.uarr dim) (writeVal wc (.arr x)) = .ok (.arr (reparseArr x)) := by
  obtain ⟨u', h1, h2, _, _⟩ := hp
  have hw : writeVal wc (.arr x) = .obj [("value", .arr (x.vs.map .num)), ("units", .str (showUnits x.u))] := rfl
  rw [hw, readKind_uarr_obj_eq, readUArrDict_write c.base c.fs x u' h1]
  simp only [reparseArr, h1, h2, hd]
  simp

theorem readKind_uarr_none {χ} (c : Ctx χ) (d : KV) (wc : χ → Json) (dim : Dim) :
    readKind c d (.uarr dim) (writeVal wc .none) = .ok .none := rfl

theorem readKind_intsOrPath_none {χ} (c : Ctx χ) (d : KV) (wc : χ → Json) :
    readKind c d .intsOrPath (writeVal wc .none) = .ok .none := rfl

theorem readKind_tmax_qty {χ} (c : Ctx χ) (d : KV) (wc : χ → Json) (x : UVal) (hp : Printable x.u) (hd : x.u.dim = Dim.time_) :
    readKind c d .tmax (writeVal wc (.qty x)) = .ok (.qty (reparse x)) := by
  have hw : writeVal wc (.qty x) = .qty x.v (showUnits x.u) := rfl
  rw [hw]
  have he : readKind c d .tmax (.qty x.v (showUnits x.u)) = (readQty c.us Dim.time_ (.qty x.v (showUnits x.u))).map Val.qty := rfl
  rw [he]
  have hw' : Json.qty x.v (showUnits x.u) = writeQty x := rfl
  rw [hw', readQty_write c.us Dim.time_ x hp hd]; rfl

theorem readKind_bc_obj_eq {χ} (c : Ctx χ) (d : KV) (kv : KV) :
    readKind c d .bc (.obj kv) = (bcOf kv).map fun m => (.raw (.obj (m.map fun p => (p.1, .str p.2))) : Val χ) := rfl

theorem bcOf_write (a b z : String)
    (ha : DictKeys.bcValues.contains a = true) (hb : DictKeys.bcValues.contains b = true) (hz : DictKeys.bcValues.contains z = true) :
    bcOf [("x", .str a), ("y", .str b), ("z", .str z)] = .ok [("x", a), ("y", b), ("z", z)] := by
  have hx : DictKeys.bcAxes.contains "x" = true := by decide +kernel
  have hy : DictKeys.bcAxes.contains "y" = true := by decide +kernel
  have hzz : DictKeys.bcAxes.contains "z" = true := by decide +kernel
  simp only [bcOf, List.foldl_cons, List.foldl_nil, hx, hy, hzz, ha, hb, hz, Bool.not_true, Bool.false_eq_true, if_false, if_true]
  rfl

/-- boundary conditions: the three axes with accepted values -/
theorem readKind_bc {χ} (c : Ctx χ) (d : KV) (wc : χ → Json) (a b z : String)
    (ha : DictKeys.bcValues.contains a = true) (hb : DictKeys.bcValues.contains b = true) (hz : DictKeys.bcValues.contains z = true) :
    readKind c d .bc (writeVal wc (.raw (.obj [("x", .str a), ("y", .str b), ("z", .str z)]))) =
      .ok (.raw (.obj [("x", .str a), ("y", .str b), ("z", .str z)])) := by
  have hw : writeVal wc (.raw (.obj [("x", .str a), ("y", .str b), ("z", .str z)])) = .obj [("x", .str a), ("y", .str b), ("z", .str z)] := rfl
  rw [hw, readKind_bc_obj_eq, bcOf_write a b z ha hb hz]
  rfl

/-- nested objects -/
theorem readKind_child {χ} (c : Ctx χ) (d : KV) (wc : χ → Json) (tag : String) (x x' : χ)
    (h : c.readChild tag c.us c.base (wc x) = .ok x') :
    readKind c d (.child tag) (writeVal wc (.child x)) = .ok (.child x') := by
  show (c.readChild tag c.us c.base (wc x)).map Val.child = _
  rw [h]; rfl

theorem readKind_children {χ} (c : Ctx χ) (d : KV) (wc : χ → Json) (tag : String) (l : List χ) (r : χ → χ)
    (h : ∀ x ∈ l, c.readChild tag c.us c.base (wc x) = .ok (r x)) :
    readKind c d (.children tag) (writeVal wc (.children l)) = .ok (.children (l.map r)) := by
  show (mapRes (c.readChild tag c.us c.base) (l.map wc)).map Val.children = _
  rw [mapRes_map' _ wc r l h]; rfl

end Strengths.Dict

namespace Strengths.Dict

/-- re-reading of a value that may hold nested objects (`r` = re-reading of a nested object) -/
def reparseValWith {χ} (r : χ → χ) : Val χ → Val χ
  | .child c => .child (r c)
  | .children l => .children (l.map r)
  | v => reparseVal v

/-- an object with every parameter re-read -/
def reparseObj {χ} (r : χ → χ) (o : Obj χ) : Obj χ := o.map fun p => (p.1, reparseValWith r p.2)

theorem lookup_map_snd {α β} (f : α → β) (l : List (String × α)) (k : String) :
    (l.map fun p => (p.1, f p.2)).lookup k = (l.lookup k).map f := by
  induction l with
  | nil => rfl
  | cons a t ih =>
    obtain ⟨ak, av⟩ := a
    simp only [List.map_cons, List.lookup_cons]
    cases k == ak <;> simp [ih]

theorem objSys_reparseObj {χ} (r : χ → χ) (o : Obj χ) : objSys (reparseObj r o) = objSys o := by
  unfold objSys reparseObj
  rw [lookup_map_snd]
  cases o.lookup "units_system" with
  | none => rfl
  | some v => cases v <;> rfl

theorem getD_reparseObj {χ} (r : χ → χ) (o : Obj χ) (k : String) :
    ((reparseObj r o).lookup k).getD .none = reparseValWith r ((o.lookup k).getD .none) := by
  unfold reparseObj
  rw [lookup_map_snd]
  cases o.lookup k <;> rfl

/-- re-serialisation of a re-read object, parameter by parameter -/
theorem toDictG_reparse {χ} (fields : List Field) (extra : KV) (po : Option Sys) (wc : χ → Json) (r : χ → χ) (o : Obj χ)
    (hv : ∀ f ∈ fields, writeVal wc (reparseValWith r ((o.lookup f.param).getD .none)) =
      writeVal wc ((o.lookup f.param).getD .none)) :
    toDictG fields extra po wc (reparseObj r o) = toDictG fields extra po wc o := by
  refine toDictG_congr _ _ _ _ _ _ (objSys_reparseObj _ _) ?_
  intro f hf
  rw [getD_reparseObj]
  exact hv f hf

theorem labelOf_reparseObj {χ} (r : χ → χ) (o : Obj χ) : labelOf (reparseObj r o) = labelOf o := by
  unfold labelOf reparseObj
  rw [lookup_map_snd]
  cases o.lookup "label" with
  | none => rfl
  | some v => cases v <;> rfl

theorem sidesOf_reparseObj {χ} (r : χ → χ) (o : Obj χ) : ∀ l ∈ sidesOf (reparseObj r o), l ∈ sidesOf o := by
  unfold sidesOf reparseObj
  rw [lookup_map_snd]
  cases o.lookup "stoichiometry" with
  | none => intro l hl; exact hl
  | some v =>
    cases v with
    | stoich s p =>
      intro l hl
      simp only [Option.map_some, reparseValWith, reparseVal, nz, List.mem_append, List.mem_map, List.mem_filter] at hl ⊢
      rcases hl with ⟨q, ⟨hq, _⟩, rfl⟩ | ⟨q, ⟨hq, _⟩, rfl⟩
      · exact .inl ⟨q, hq, rfl⟩
      · exact .inr ⟨q, hq, rfl⟩
    | _ => intro l hl; exact hl

theorem childList_reparseObj {χ} (r : χ → χ) (o : Obj χ) (k : String) :
    childList (reparseObj r o) k = (childList o k).map r := by
  unfold childList reparseObj
  rw [lookup_map_snd]
  cases o.lookup k with
  | none => rfl
  | some v => cases v <;> rfl

theorem getInt_reparseObj {χ} (r : χ → χ) (o : Obj χ) (k : String) : getInt (reparseObj r o) k = getInt o k := by
  unfold getInt reparseObj
  rw [lookup_map_snd]
  cases o.lookup k with
  | none => rfl
  | some v => cases v <;> rfl

theorem nEnvOf_reparse (r : L0 → L0) (n : L1) : nEnvOf (reparseObj r n) = nEnvOf n := by
  unfold nEnvOf reparseObj
  rw [lookup_map_snd]
  cases n.lookup "environments" with
  | none => rfl
  | some v => cases v <;> rfl

theorem cellEnvsOf_reparse (sp : L1) : cellEnvsOf (reparseObj (reparseObj (fun e => e)) sp) = cellEnvsOf sp := by
  have hnodes := childList_reparseObj (reparseObj (fun e : Empty => e)) sp "nodes"
  have hmap : ((childList sp "nodes").map (reparseObj (fun e : Empty => e))).map (fun n => getInt n "environment") =
      (childList sp "nodes").map (fun n => getInt n "environment") := by
    rw [List.map_map]; apply List.map_congr_left; intro n _; exact getInt_reparseObj _ n _
  unfold cellEnvsOf
  rw [hnodes, hmap]
  unfold reparseObj
  rw [lookup_map_snd]
  cases sp.lookup "cell_env" with
  | none => rfl
  | some v => cases v <;> rfl

end Strengths.Dict
