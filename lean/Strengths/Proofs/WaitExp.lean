/-
The waiting time of the Gillespie engine, `dt = log(1/u)/a0` with `u` uniform on (0,1): the map from the
primitive draw is the inverse CDF of the exponential distribution with rate `a0` (C07).
This is the only file that needs real analysis (`Real.log`, `Real.exp`).
-/
import Mathlib.Analysis.SpecialFunctions.Log.Basic

namespace Strengths

/-- `τ < log(1/u)/a0  ↔  u < exp(−a0·τ)`: with `u` uniform on (0,1), `P(dt > τ) = exp(−a0 τ)` -/
theorem wait_lt_iff {u a τ : ℝ} (hu : 0 < u) (ha : 0 < a) :
    τ < Real.log (1 / u) / a ↔ u < Real.exp (-(a * τ)) := by
  rw [lt_div_iff₀ ha, one_div, Real.log_inv, lt_neg, ← Real.log_lt_iff_lt_exp hu, mul_comm]

/-- the waiting time is positive for `u ∈ (0,1)` -/
theorem wait_pos {u a : ℝ} (hu : 0 < u) (hu1 : u < 1) (ha : 0 < a) : 0 < Real.log (1 / u) / a := by
  apply div_pos _ ha
  rw [one_div, Real.log_inv]
  exact neg_pos.2 (Real.log_neg hu hu1)

end Strengths
