/-
Refinement, graph set-up: `SetNeighbors` builds the half-edge lists of the core model (`graphSlots`), `Build_mesh_kd`
the constants of `graphTopo`, so the object `setupGraphC` builds refines the core input decoded from the same arrays.
-/
import Strengths.Proofs.RefineGrid

namespace Strengths

theorem Ok.and {α : Type} {r : CRes α} {P Q : α → Prop} (h1 : Ok r P) (h2 : Ok r Q) : Ok r (fun a => P a ∧ Q a) := by
  obtain ⟨a, ha, hp⟩ := h1
  obtain ⟨b, hb, hq⟩ := h2
  rw [ha] at hb
  cases hb
  exact ⟨a, ha, hp, hq⟩

/-- a vector as the list of its entries -/
def rowList {α : Type} (v : Vec α) : List α := (List.range v.size).map v.get

theorem rowList_push {α : Type} (v : Vec α) (a : α) : rowList (v.push a) = rowList v ++ [a] := by
  unfold rowList
  rw [push_size, List.range_succ, List.map_append]
  congr 1
  · apply List.map_congr_left
    intro k hk
    have : k ≠ v.size := by have := List.mem_range.mp hk; omega
    rw [push_get, if_neg this]
  · simp [push_get]

theorem rowList_length {α : Type} (v : Vec α) : (rowList v).length = v.size := by simp [rowList]

theorem rowList_get {α : Type} (v : Vec α) (k : Nat) (hk : k < v.size) : (rowList v)[k]? = some (v.get k) := by
  simp [rowList, hk]

/-- edge `e` of the marshalled arrays -/
def argEdge (ga : GraphArgs) (e : Nat) : GEdge :=
  { i := (ga.edgeI.get e).toNat, j := (ga.edgeJ.get e).toNat, sfc := ga.edgeSfc.get e, dst := ga.edgeDst.get e }

def argEdges (ga : GraphArgs) (m : Nat) : List GEdge := (List.range m).map (argEdge ga)

/-- the core input of a graph set-up -/
def graphEngIn (a : EngArgs) (ga : GraphArgs) : EngIn :=
  { net := argNet a,
    topo := graphTopo ga.n (argEdges ga ga.nEdges) (argNet a) (argEnv a) (fun i => ga.vol.get i) (fun i => ga.cbrt (ga.vol.get i)),
    env := argEnv a, chem := fun i s => decide (a.chstt.get (s * ga.n + i) ≠ 0), vol := fun i => ga.vol.get i }

theorem graphSlots_snoc (E : List GEdge) (e : GEdge) (i : Nat) :
    graphSlots (E ++ [e]) i = graphSlots E i ++
      ((if e.i = i then [(e.j, e.sfc, e.dst)] else []) ++ (if e.j = i then [(e.i, e.sfc, e.dst)] else [])) := by
  unfold graphSlots
  rw [List.flatMap_append]
  simp

/-- the rows `SetNeighbors` has built after the first `m` edges are the core model's half-edge lists of those edges -/
def RowsOK (ga : GraphArgs) (m : Nat) (st : NbSt) : Prop :=
  st.nn.size = ga.n ∧ st.nidx.size = ga.n ∧ st.nsfc.size = ga.n ∧ st.ndst.size = ga.n ∧
  ∀ i, i < ga.n →
    rowList (st.nidx.get i) = (graphSlots (argEdges ga m) i).map (fun t => (t.1 : Int)) ∧
    rowList (st.nsfc.get i) = (graphSlots (argEdges ga m) i).map (fun t => t.2.1) ∧
    rowList (st.ndst.get i) = (graphSlots (argEdges ga m) i).map (fun t => t.2.2)

theorem setNeighbors_val (ga : GraphArgs) (ei ej : Vec Int) (sfc dst : Vec Rat)
    (hei : EndsOK ga.n ga.nEdges ei) (hej : EndsOK ga.n ga.nEdges ej) (hsfc : sfc.size = ga.nEdges) (hdst : dst.size = ga.nEdges)
    (hei2 : ∀ k, k < ga.nEdges → ei.get k = ga.edgeI.get k) (hej2 : ∀ k, k < ga.nEdges → ej.get k = ga.edgeJ.get k)
    (hsfc2 : ∀ k, k < ga.nEdges → sfc.get k = ga.edgeSfc.get k) (hdst2 : ∀ k, k < ga.nEdges → dst.get k = ga.edgeDst.get k) :
    Ok (setNeighbors ga.n ga.nEdges ei ej sfc dst) (RowsOK ga ga.nEdges) := by
  unfold setNeighbors
  refine Ok.forUpTo (fun m st => RowsOK ga m st) ?_ (fun m hm st hst => ?_)
  · refine ⟨rfl, rfl, rfl, rfl, fun i _ => ?_⟩
    simp [argEdges, graphSlots, rowList, Vec.replicate]
    all_goals first | rfl | exact ⟨rfl, rfl⟩ | exact ⟨rfl, rfl, rfl⟩ | skip
  obtain ⟨hnn, hnidx, hnsfc, hndst, hrows⟩ := hst
  refine Ok.bind (Vec.rd_nat ei m (by rw [hei.1]; exact hm)) (fun a ha => ?_)
  refine Ok.bind (Vec.rd_nat ej m (by rw [hej.1]; exact hm)) (fun b hb => ?_)
  refine Ok.bind (Vec.rd_nat sfc m (by rw [hsfc]; exact hm)) (fun sf hsf => ?_)
  refine Ok.bind (Vec.rd_nat dst m (by rw [hdst]; exact hm)) (fun ds hds => ?_)
  have har := hei.2 m hm
  have hbr := hej.2 m hm
  rw [← ha] at har
  rw [← hb] at hbr
  obtain ⟨a', ha'e⟩ := Int.eq_ofNat_of_zero_le har.1
  obtain ⟨b', hb'e⟩ := Int.eq_ofNat_of_zero_le hbr.1
  have ha' : a' < ga.n := by rw [ha'e] at har; exact_mod_cast har.2
  have hb' : b' < ga.n := by rw [hb'e] at hbr; exact_mod_cast hbr.2
  have hedge : argEdge ga m = { i := a', j := b', sfc := sf, dst := ds } := by
    unfold argEdge
    rw [← hei2 m hm, ← hej2 m hm, ← hsfc2 m hm, ← hdst2 m hm, ← ha, ← hb, ← hsf, ← hds, ha'e, hb'e]
    simp
  rw [ha'e, hb'e]
  refine Ok.bind (Vec.rd_nat st.nn a' (by rw [hnn]; exact ha')) (fun ca _ => ?_)
  refine Ok.bind (Vec.wr_nat st.nn a' (ca + 1) (by rw [hnn]; exact ha')) (fun nn1 hnn1 => ?_)
  refine Ok.bind (Vec.rd_nat nn1 b' (by rw [hnn1.1, hnn]; exact hb')) (fun cb _ => ?_)
  refine Ok.bind (Vec.wr_nat nn1 b' (cb + 1) (by rw [hnn1.1, hnn]; exact hb')) (fun nn2 hnn2 => ?_)
  refine Ok.bind (pushAt_ok st.nidx a' (by rw [hnidx]; exact ha') (b' : Int)) (fun x1 hx1 => ?_)
  refine Ok.bind (pushAt_ok x1 b' (by rw [hx1.1, hnidx]; exact hb') (a' : Int)) (fun x2 hx2 => ?_)
  refine Ok.bind (pushAt_ok st.nsfc a' (by rw [hnsfc]; exact ha') sf) (fun s1 hs1 => ?_)
  refine Ok.bind (pushAt_ok s1 b' (by rw [hs1.1, hnsfc]; exact hb') sf) (fun s2 hs2 => ?_)
  refine Ok.bind (pushAt_ok st.ndst a' (by rw [hndst]; exact ha') ds) (fun d1 hd1 => ?_)
  refine Ok.bind (pushAt_ok d1 b' (by rw [hd1.1, hndst]; exact hb') ds) (fun d2 hd2 => ?_)
  refine Ok.pure ⟨by rw [hnn2.1, hnn1.1]; exact hnn, by rw [hx2.1, hx1.1]; exact hnidx,
    by rw [hs2.1, hs1.1]; exact hnsfc, by rw [hd2.1, hd1.1]; exact hndst, fun i hi => ?_⟩
  -- a row after the two pushes, as a list
  have rows2 : ∀ {α : Type} (v v1 v2 : Vec (Vec α)) (p q : α),
      (v1.get a' = (v.get a').push p ∧ ∀ j, j ≠ a' → v1.get j = v.get j) →
      (v2.get b' = (v1.get b').push q ∧ ∀ j, j ≠ b' → v2.get j = v1.get j) →
      rowList (v2.get i) = rowList (v.get i) ++ ((if a' = i then [p] else []) ++ (if b' = i then [q] else [])) := by
    intro α v v1 v2 p q h1 h2
    by_cases hib : i = b'
    · subst hib
      rw [h2.1, rowList_push]
      by_cases hia : i = a'
      · subst hia; rw [h1.1, rowList_push]; simp
      · rw [h1.2 i hia]; simp [Ne.symm hia]
    · rw [h2.2 i hib]
      by_cases hia : i = a'
      · subst hia; rw [h1.1, rowList_push]; simp [Ne.symm hib]
      · rw [h1.2 i hia]; simp [Ne.symm hia, Ne.symm hib]
  have hE : argEdges ga (m + 1) = argEdges ga m ++ [argEdge ga m] := by
    unfold argEdges; rw [List.range_succ, List.map_append]; rfl
  obtain ⟨r1, r2, r3⟩ := hrows i hi
  rw [hE, graphSlots_snoc, hedge]
  simp only [List.map_append]
  refine ⟨?_, ?_, ?_⟩
  · rw [rows2 st.nidx x1 x2 (b' : Int) (a' : Int) ⟨hx1.2.1, hx1.2.2⟩ ⟨hx2.2.1, hx2.2.2⟩, r1]
    by_cases h1 : a' = i <;> by_cases h2 : b' = i <;> simp [h1, h2]
  · rw [rows2 st.nsfc s1 s2 sf sf ⟨hs1.2.1, hs1.2.2⟩ ⟨hs2.2.1, hs2.2.2⟩, r2]
    by_cases h1 : a' = i <;> by_cases h2 : b' = i <;> simp [h1, h2]
  · rw [rows2 st.ndst d1 d2 ds ds ⟨hd1.2.1, hd1.2.2⟩ ⟨hd2.2.1, hd2.2.2⟩, r3]
    by_cases h1 : a' = i <;> by_cases h2 : b' = i <;> simp [h1, h2]

/-- slot `k` of node `i`: the half-edge of the core model and the entries of the three rows -/
theorem rows_at {ga : GraphArgs} {m : Nat} {st : NbSt} (h : RowsOK ga m st) {i k : Nat} (hi : i < ga.n) (hk : k < (st.nidx.get i).size) :
    ∃ t : Nat × Rat × Rat, (graphSlots (argEdges ga m) i)[k]? = some t ∧ (st.nidx.get i).get k = (t.1 : Int) ∧
      (st.nsfc.get i).get k = t.2.1 ∧ (st.ndst.get i).get k = t.2.2 := by
  obtain ⟨r1, r2, r3⟩ := h.2.2.2.2 i hi
  have hlen : (graphSlots (argEdges ga m) i).length = (st.nidx.get i).size := by
    have := congrArg List.length r1
    rw [rowList_length, List.length_map] at this
    exact this.symm
  have hk' : k < (graphSlots (argEdges ga m) i).length := by rw [hlen]; exact hk
  refine ⟨(graphSlots (argEdges ga m) i)[k], List.getElem?_eq_getElem hk', ?_, ?_, ?_⟩
  · have := congrArg (fun l => l[k]?) r1
    simp only [rowList_get _ k hk, List.getElem?_map, List.getElem?_eq_getElem hk', Option.map_some] at this
    exact Option.some.inj this
  · have hks : k < (st.nsfc.get i).size := by
      have := congrArg List.length r2; rw [rowList_length, List.length_map] at this; omega
    have := congrArg (fun l => l[k]?) r2
    simp only [rowList_get _ k hks, List.getElem?_map, List.getElem?_eq_getElem hk', Option.map_some] at this
    exact Option.some.inj this
  · have hks : k < (st.ndst.get i).size := by
      have := congrArg List.length r3; rw [rowList_length, List.length_map] at this; omega
    have := congrArg (fun l => l[k]?) r3
    simp only [rowList_get _ k hks, List.getElem?_map, List.getElem?_eq_getElem hk', Option.map_some] at this
    exact Option.some.inj this

theorem rows_len {ga : GraphArgs} {m : Nat} {st : NbSt} (h : RowsOK ga m st) {i : Nat} (hi : i < ga.n) :
    (graphSlots (argEdges ga m) i).length = (st.nidx.get i).size := by
  obtain ⟨r1, _, _⟩ := h.2.2.2.2 i hi
  have := congrArg List.length r1
  rw [rowList_length, List.length_map] at this
  exact this.symm

/-- `Build_mesh_kd` (graph) ↔ `graphTopo.kout / kin`: value of every entry of `mesh_kd_out`, `mesh_kd_in` -/
theorem buildMeshKdGraph_val (a : EngArgs) (ga : GraphArgs) (nb : NbSt) (hnb : NbOK ga.n nb) (hrows : RowsOK ga ga.nEdges nb)
    (env : Vec Int) (henv : EnvOK env ga.n a.nenv) (henvf : ∀ i, i < ga.n → env.get i = ((argEnv a i : Nat) : Int))
    (vol : Vec Rat) (hvol : vol.size = ga.n) (hvolv : ∀ i, i < ga.n → vol.get i = ga.vol.get i)
    (D : Vec Rat) (hD : D.size = a.ns * a.nenv) (hDv : ∀ s e, s < a.ns → e < a.nenv → D.get (s * a.nenv + e) = (argNet a).dcoef s e) :
    Ok (buildMeshKdGraph ga.n a.ns a.nenv nb env vol D ga.cbrt) (fun kd => KdOK ga.n a.ns nb kd ga.n ∧
      ∀ i s k, i < ga.n → s < a.ns → k < (nb.nidx.get i).size →
        (kd.1.get i).get (s * (nb.nidx.get i).size + k) = (graphEngIn a ga).topo.kout i s k ∧
        (kd.2.get i).get (s * (nb.nidx.get i).size + k) = (graphEngIn a ga).topo.kin i s k) := by
  let M := fun i => (nb.nidx.get i).size
  let Val := fun (i s k : Nat) (kd : Vec (Vec Rat) × Vec (Vec Rat)) =>
    (kd.1.get i).get (s * M i + k) = (graphEngIn a ga).topo.kout i s k ∧ (kd.2.get i).get (s * M i + k) = (graphEngIn a ga).topo.kin i s k
  let Inv := fun (i s k : Nat) (kd : Vec (Vec Rat) × Vec (Vec Rat)) => KdOK ga.n a.ns nb kd (if s = 0 ∧ k = 0 then i else i + 1) ∧
    ∀ i' s' k', i' < ga.n → s' < a.ns → k' < M i' → (i' < i ∨ (i' = i ∧ (s' < s ∨ (s' = s ∧ k' < k)))) → Val i' s' k' kd
  unfold buildMeshKdGraph
  refine Ok.mono (Ok.forUpTo (fun i kd => Inv i 0 0 kd) ⟨by simp only [and_self, if_true]; exact ⟨rfl, rfl, fun i hi => by omega⟩,
      fun i' s' k' _ _ _ hb => by omega⟩ (fun i hi p hp => ?_))
    (fun kd hk => ⟨by have := hk.1; simpa using this, fun i s k hi hs hk' => hk.2 i s k hi hs hk' (Or.inl hi)⟩)
  have hpK : KdOK ga.n a.ns nb p i := by have := hp.1; simpa using this
  refine Ok.bind (Vec.rd_nat nb.nn i (by rw [hnb.nn]; exact hi)) (fun m hm => ?_)
  have hmM : m = ((nb.nidx.get i).size : Int) := hm.trans (hnb.cnt i hi)
  subst hmM
  simp only [Int.toNat_natCast]
  refine Ok.bind (Vec.wr_nat p.1 i _ (by rw [hpK.1]; exact hi)) (fun o1 ho1 => ?_)
  refine Ok.bind (Vec.wr_nat p.2 i _ (by rw [hpK.2.1]; exact hi)) (fun i1 hi1 => ?_)
  -- invariant inside cell i: rows 0..i have their sizes; values of earlier cells are untouched
  let Inv2 := fun (s k : Nat) (kd : Vec (Vec Rat) × Vec (Vec Rat)) => KdOK ga.n a.ns nb kd (i + 1) ∧
    ∀ i' s' k', i' < ga.n → s' < a.ns → k' < M i' → (i' < i ∨ (i' = i ∧ (s' < s ∨ (s' = s ∧ k' < k)))) → Val i' s' k' kd
  have hstart : Inv2 0 0 (o1, i1) := by
    refine ⟨⟨ho1.1.trans hpK.1, hi1.1.trans hpK.2.1, fun i' hi' => ?_⟩, fun i' s' k' hi' hs' hk' hb => ?_⟩
    · by_cases he : i' = i
      · subst he; rw [ho1.2.1, hi1.2.1]; exact ⟨rfl, rfl⟩
      · show (o1.get i').size = _ ∧ (i1.get i').size = _
        rw [ho1.2.2 i' he, hi1.2.2 i' he]; exact hpK.2.2 i' (by omega)
    · have hlt : i' < i := by omega
      have hne : i' ≠ i := by omega
      show (o1.get i').get _ = _ ∧ (i1.get i').get _ = _
      rw [ho1.2.2 i' hne, hi1.2.2 i' hne]
      exact hp.2 i' s' k' hi' hs' hk' (Or.inl hlt)
  refine Ok.mono (Ok.forUpTo (fun s kd => Inv2 s 0 kd) hstart (fun s hs p hp => ?_))
    (fun kd hk => ⟨by simp only [Nat.add_one_ne_zero, false_and, if_false]; exact hk.1,
      fun i' s' k' hi' hs' hk' hb => hk.2 i' s' k' hi' hs' hk' (by omega)⟩)
  refine Ok.mono (Ok.forUpTo (fun k kd => Inv2 s k kd) hp (fun k hk p hp => ?_))
    (fun kd hkk => ⟨hkk.1, fun i' s' k' hi' hs' hk' hb => hkk.2 i' s' k' hi' hs' hk' (by
      rcases hb with hb | ⟨hb, hb2 | ⟨hb2, hb3⟩⟩
      · exact Or.inl hb
      · subst hb
        by_cases h : s' < s
        · exact Or.inr ⟨rfl, Or.inl h⟩
        · exact Or.inr ⟨rfl, Or.inr ⟨by omega, hk'⟩⟩
      · omega)⟩)
  have hkM : k < M i := hk
  refine Ok.bind (Vec.rd_nat nb.nidx i (by rw [hnb.nidx]; exact hi)) (fun row hrow => ?_)
  subst hrow
  refine Ok.bind (Vec.rd_nat (nb.nidx.get i) k hk) (fun j hj => ?_)
  obtain ⟨t, hslot, ht1, ht2, ht3⟩ := rows_at hrows hi hk
  have hjr := hnb.ent i k hi hk
  rw [ht1] at hjr
  have ht1lt : t.1 < ga.n := by exact_mod_cast hjr.2
  rw [hj, ht1]
  refine Ok.bind (Vec.rd_nat vol i (by rw [hvol]; exact hi)) (fun vi hvi => ?_)
  refine Ok.bind (Vec.rd_nat vol t.1 (by rw [hvol]; exact ht1lt)) (fun vj hvj => ?_)
  refine Ok.bind (Vec.rd_nat env i (by rw [henv.1]; exact hi)) (fun e1 he1 => ?_)
  refine Ok.bind (Vec.rd_nat env t.1 (by rw [henv.1]; exact ht1lt)) (fun e2 he2 => ?_)
  rw [he1, henvf i hi, he2, henvf t.1 ht1lt, dIndex_nat, dIndex_nat]
  have hei' : argEnv a i < a.nenv := by have := (henv.2 i hi).2; rw [henvf i hi] at this; exact_mod_cast this
  have hej' : argEnv a t.1 < a.nenv := by have := (henv.2 t.1 ht1lt).2; rw [henvf t.1 ht1lt] at this; exact_mod_cast this
  refine Ok.bind (Vec.rd_nat D _ (by rw [hD]; exact flat2_lt a.ns a.nenv s _ hs hei')) (fun Di hDi => ?_)
  refine Ok.bind (Vec.rd_nat D _ (by rw [hD]; exact flat2_lt a.ns a.nenv s _ hs hej')) (fun Dj hDj => ?_)
  refine Ok.bind (Vec.rd_nat nb.nsfc i (by rw [hnb.nsfc]; exact hi)) (fun srow hsrow => ?_)
  refine Ok.bind (Vec.rd_nat srow k (by rw [hsrow, hnb.sfcSz i hi]; exact hk)) (fun sf hsf => ?_)
  refine Ok.bind (Vec.rd_nat nb.ndst i (by rw [hnb.ndst]; exact hi)) (fun drow hdrow => ?_)
  refine Ok.bind (Vec.rd_nat drow k (by rw [hdrow, hnb.dstSz i hi]; exact hk)) (fun ds hds => ?_)
  try simp only []
  rw [slotInnerGraph_nat]
  have hidx : s * (nb.nidx.get i).size + k < a.ns * (nb.nidx.get i).size := flat2_lt a.ns _ s k hs hk
  have hrow1 := (hp.1.2.2 i (by omega)).1
  have hrow2 := (hp.1.2.2 i (by omega)).2
  refine Ok.bind (Vec.rd_nat p.1 i (by rw [hp.1.1]; exact hi)) (fun orow horow => ?_)
  refine Ok.bind (Vec.wr_nat orow _ _ (by rw [horow, hrow1]; exact hidx)) (fun orow' horow' => ?_)
  refine Ok.bind (Vec.wr_nat p.1 i orow' (by rw [hp.1.1]; exact hi)) (fun o2 ho2 => ?_)
  refine Ok.bind (Vec.rd_nat p.2 i (by rw [hp.1.2.1]; exact hi)) (fun irow hirow => ?_)
  refine Ok.bind (Vec.wr_nat irow _ _ (by rw [hirow, hrow2]; exact hidx)) (fun irow' hirow' => ?_)
  refine Ok.bind (Vec.wr_nat p.2 i irow' (by rw [hp.1.2.1]; exact hi)) (fun i2 hi2 => ?_)
  -- the values written are the core model's constants
  have hslot' : (graphSlots (argEdges ga ga.nEdges) i)[k]? = some (t.1, t.2.1, t.2.2) := hslot
  have hkoutv : (graphEngIn a ga).topo.kout i s k =
      interfaceD (ga.cbrt (ga.vol.get i)) (ga.cbrt (ga.vol.get t.1)) ((argNet a).dcoef s (argEnv a i)) ((argNet a).dcoef s (argEnv a t.1)) *
        t.2.1 / (ga.vol.get i * t.2.2) := by
    show (match (graphSlots (argEdges ga ga.nEdges) i)[k]? with
      | none => 0
      | some (j, sfc, dst) => interfaceD _ _ _ _ * sfc / (_ * dst)) = _
    rw [hslot']
  have hkinv : (graphEngIn a ga).topo.kin i s k =
      interfaceD (ga.cbrt (ga.vol.get i)) (ga.cbrt (ga.vol.get t.1)) ((argNet a).dcoef s (argEnv a i)) ((argNet a).dcoef s (argEnv a t.1)) *
        t.2.1 / (ga.vol.get t.1 * t.2.2) := by
    show (match (graphSlots (argEdges ga ga.nEdges) i)[k]? with
      | none => 0
      | some (j, sfc, dst) => interfaceD _ _ _ _ * sfc / (_ * dst)) = _
    rw [hslot']
  refine Ok.pure ⟨⟨ho2.1.trans hp.1.1, hi2.1.trans hp.1.2.1, fun i' hi' => ?_⟩, fun i' s' k' hi' hs' hk' hb => ?_⟩
  · by_cases he : i' = i
    · subst he
      show (o2.get i').size = _ ∧ (i2.get i').size = _
      rw [ho2.2.1, hi2.2.1, horow'.1, hirow'.1, horow, hirow]
      exact ⟨hrow1, hrow2⟩
    · show (o2.get i').size = _ ∧ (i2.get i').size = _
      rw [ho2.2.2 i' he, hi2.2.2 i' he]; exact hp.1.2.2 i' hi'
  · show (o2.get i').get _ = _ ∧ (i2.get i').get _ = _
    by_cases he : i' = i
    · subst he
      rw [ho2.2.1, hi2.2.1]
      by_cases heq : s' = s ∧ k' = k
      · obtain ⟨e1', e2'⟩ := heq; subst e1' e2'
        rw [horow'.2.1, hirow'.2.1, hkoutv, hkinv, hvi, hvj, hDi, hDj, hsf, hds, hsrow, hdrow, ht2, ht3,
          hvolv i' hi, hvolv t.1 ht1lt, hDv s' _ hs hei', hDv s' _ hs hej']
        exact ⟨rfl, rfl⟩
      · have hne : s' * (nb.nidx.get i').size + k' ≠ s * (nb.nidx.get i').size + k := fun hh => heq (flat2_inj hk' hk hh)
        rw [horow'.2.2 _ hne, hirow'.2.2 _ hne, horow, hirow]
        exact hp.2 i' s' k' hi' hs' hk' (by omega)
    · rw [ho2.2.2 i' he, hi2.2.2 i' he]
      exact hp.2 i' s' k' hi' hs' hk' (by omega)

/-- ASSEMBLY, graph: the object built by `engineexport_initialize_graph` + `Init` refines the core input decoded from the
same arrays (`graphTopo` of the edge list), and its `mesh_x` is the transposed (processed) state -/
theorem setupGraphC_refines (a : EngArgs) (ga : GraphArgs) (hv : ValidGraphArgs a ga) :
    Ok (setupGraphC a ga) (fun S => SimOK S ∧ Refines (graphEngIn a ga) S.T S.L ∧ S.dt = a.dt ∧
      ∃ st0 : Vec Rat, (∀ j, j < ga.n * a.ns → st0.get j = a.state.get j) ∧
        ∀ i s, i < ga.n → s < a.ns → (absState S.T.ns S.x) i s = (a.process st0).get (s * ga.n + i)) := by
  unfold setupGraphC
  simp only []
  refine Ok.bind (mkVec_ok ga.edgeI _ hv.edgeI) (fun ei hei => ?_)
  refine Ok.bind (mkVec_ok ga.edgeJ _ hv.edgeJ) (fun ej hej => ?_)
  refine Ok.bind (mkVec_ok ga.edgeSfc _ hv.sfc) (fun sfc hsfc => ?_)
  refine Ok.bind (mkVec_ok ga.edgeDst _ hv.dst) (fun dst hdst => ?_)
  refine Ok.bind (mkVec_ok a.state _ hv.state) (fun st0 hst0 => ?_)
  refine Ok.bind (speciesFirstToMeshFirst_val (a.process st0) a.ns ga.n (by rw [hv.process]; exact hst0.1)) (fun x0 hx0 => ?_)
  refine Ok.bind (mkVec_ok a.chstt _ hv.chstt) (fun ch0 hch0 => ?_)
  refine Ok.bind (speciesFirstToMeshFirst_val ch0 a.ns ga.n hch0.1) (fun ch hch => ?_)
  refine Ok.bind (mkVec_ok a.env _ hv.env) (fun env henv => ?_)
  refine Ok.bind (mkVec_ok ga.vol _ hv.vol) (fun vol hvol => ?_)
  refine Ok.bind (mkVec_ok a.k _ hv.k) (fun k hk => ?_)
  refine Ok.bind (mkVec_ok a.sub _ hv.sub) (fun sub hsub => ?_)
  refine Ok.bind (mkVec_ok a.sto _ hv.sto) (fun sto hsto => ?_)
  refine Ok.bind (mkVec_ok a.D _ hv.D) (fun D hD => ?_)
  refine Ok.bind (mkVec_ok a.sampleT _ hv.sampleT) (fun ts hts => ?_)
  have heiOK : EndsOK ga.n ga.nEdges ei := ⟨hei.1, fun k hk => by rw [hei.2 k hk]; exact hv.edgeIRange k hk⟩
  have hejOK : EndsOK ga.n ga.nEdges ej := ⟨hej.1, fun k hk => by rw [hej.2 k hk]; exact hv.edgeJRange k hk⟩
  refine Ok.bind (Ok.and (setNeighbors_ok ga.n ga.nEdges ei ej sfc dst heiOK hejOK hsfc.1 hdst.1)
    (setNeighbors_val ga ei ej sfc dst heiOK hejOK hsfc.1 hdst.1 hei.2 hej.2 hsfc.2 hdst.2)) (fun nb hnb2 => ?_)
  obtain ⟨hnb, hrows⟩ := hnb2
  have henvOK : EnvOK env ga.n a.nenv := ⟨henv.1, fun i hi => by rw [henv.2 i hi]; exact hv.envRange i hi⟩
  have henvf : ∀ i, i < ga.n → env.get i = ((argEnv a i : Nat) : Int) := by
    intro i hi
    rw [henv.2 i hi]; unfold argEnv
    exact (Int.toNat_of_nonneg (hv.envRange i hi).1).symm
  have hvolrd : ∀ i, i < ga.n → vol.rd (i : Int) = .ok (vol.get i) := by
    intro i hi
    obtain ⟨v, h1, h2⟩ := Vec.rd_nat vol i (by rw [hvol.1]; exact hi)
    rw [h1, h2]
  refine Ok.bind (buildMeshKr_val ga.n a.ns a.nr a.nenv env sub k (fun i => vol.rd i) (fun i => vol.get i) henvOK hsub.1 hk.1 hvolrd)
    (fun kr hkr => ?_)
  have hDv : ∀ s e, s < a.ns → e < a.nenv → D.get (s * a.nenv + e) = (argNet a).dcoef s e := by
    intro s e hs he
    exact hD.2 _ (flat2_lt a.ns a.nenv s e hs he)
  refine Ok.bind (buildMeshKdGraph_val a ga nb hnb hrows env henvOK henvf vol hvol.1 hvol.2 D hD.1 hDv) (fun kd hkd => ?_)
  refine Ok.bind (nestedInit_ok ga.n a.ns nb hnb (0 : Int)) (fun mnd hmnd => ?_)
  refine Ok.bind (nestedInit_ok ga.n a.ns nb hnb (0 : Rat)) (fun mad hmad => ?_)
  let T : Tabs := { n := ga.n, ns := a.ns, nr := a.nr, nenv := a.nenv, chstt := ch, sub := sub, sto := sto, kr := kr }
  let G : GraphTabs := GraphTabs.ofParts nb kd
  have hT : TabsOK T := ⟨hch.1, hsub.1, hsto.1, hkr.1⟩
  have hG : GraphOK T G := ⟨hnb, hkd.1⟩
  have hL := graphLayout_ok hG
  have hscr : ScratchOK T (graphLayout G) (fun i => (G.nidx.get i).size)
      (scratchInit a.option ga.n a.ns a.nr (.nested mnd) (.nested mad)) := by
    unfold scratchInit
    split
    · exact .euler _ (Nat.mul_comm a.ns ga.n)
    · exact .tau _ (Nat.mul_comm a.nr ga.n) (graphSlotOK hG mnd hmnd.1 hmnd.2)
    · exact .gil _ ⟨Nat.mul_comm a.nr ga.n, rfl, rfl, graphSlotOK hG mad hmad.1 hmad.2⟩
  have hsmp0 : SmpOK (freshSampler a ts) (ga.n * a.ns) := ⟨hts.1, rfl, fun k hk => by
    have : k < 0 := hk
    omega⟩
  have hstep := samplingStep_ok hsmp0 x0 hx0.1
  rw [← conds_graph] at hstep
  refine Ok.bind hstep (fun smp hsmp => ?_)
  -- slots and neighbours of the core model
  have hslots : ∀ i, i < ga.n → (graphEngIn a ga).topo.nSlots i = (nb.nidx.get i).size := fun i hi => rows_len hrows hi
  have hnbr : ∀ i k, i < ga.n → k < (nb.nidx.get i).size → (graphEngIn a ga).topo.nbr i k = nbGraph G i k := by
    intro i k hi hk
    obtain ⟨t, hslot, ht1, _, _⟩ := rows_at hrows hi hk
    show ((graphSlots (argEdges ga ga.nEdges) i)[k]?).map (fun t => t.1) = some ((nb.nidx.get i).get k).toNat
    rw [hslot, ht1]; simp
  have hL' : LayoutOK T (graphLayout G) (graphEngIn a ga).topo.nSlots (graphEngIn a ga).topo.nbr := by
    refine ⟨?_, ?_, ?_, ?_, ?_, ?_, ?_⟩
    · intro i hi; rw [hL.nSlots i hi, hslots i hi]; rfl
    · intro i k hi hk
      rw [hslots i hi] at hk
      rw [hL.nbr i k hi hk, hnbr i k hi hk]
    · intro i k j hi hk hj
      rw [hslots i hi] at hk
      exact hL.nbr_lt i k j hi hk (by rw [← hnbr i k hi hk]; exact hj)
    · intro i s k hi hs hk
      rw [hslots i hi] at hk
      exact hL.kout i s k hi hs hk
    · intro i s k j hi hs hk hj
      rw [hslots i hi] at hk
      exact hL.kin i s k j hi hs hk (by rw [← hnbr i k hi hk]; exact hj)
    · intro i s k hi hs hk
      rw [hslots i hi] at hk
      exact hL.slot i s k hi hs hk
    · intro i s k i' s' k' a0 hi hs hk hi' hs' hk' e1 e2
      rw [hslots i hi] at hk
      rw [hslots i' hi'] at hk'
      exact hL.slot_inj i s k i' s' k' a0 hi hs hk hi' hs' hk' e1 e2
  have hnnrd : ∀ i, i < ga.n → nb.nn.rd (i : Int) = .ok (((nb.nidx.get i).size : Nat) : Int) := by
    intro i hi
    obtain ⟨m, hm, hme⟩ := Vec.rd_nat nb.nn i (by rw [hnb.nn]; exact hi)
    rw [hm, hme]; exact congrArg _ (hnb.cnt i hi)
  have hR : Refines (graphEngIn a ga) T (graphLayout G) := by
    refine ⟨rfl, rfl, rfl, hT, hL', ?_, ?_, ?_, ?_, ?_, ?_⟩
    · intro s r hs hr; exact hsub.2 _ (flat2_lt a.ns a.nr s r hs hr)
    · intro s r hs hr; exact hsto.2 _ (flat2_lt a.ns a.nr s r hs hr)
    · intro i r hi hr
      show kr.get (i * a.nr + r) = _
      rw [hkr.2 i r hi hr]
      unfold meshKr Net.order
      have hkk : k.get ((env.get i).toNat * a.nr + r) = (argNet a).k (argEnv a i) r := by
        have he : (env.get i).toNat = argEnv a i := by rw [henvf i hi]; simp
        rw [he]
        have hlt : argEnv a i < a.nenv := by
          have := (henvOK.2 i hi).2; rw [henvf i hi] at this; exact_mod_cast this
        exact hk.2 _ (flat2_lt a.nenv a.nr _ r hlt hr)
      rw [hkk]
      have hsum : ((List.range a.ns).map fun s => sub.get (s * a.nr + r)) = ((List.range a.ns).map fun s => (argNet a).sub s r) := by
        apply List.map_congr_left
        intro s hs
        exact hsub.2 _ (flat2_lt a.ns a.nr s r (List.mem_range.mp hs) hr)
      rw [hsum, hvol.2 i hi]; rfl
    · intro i s hi hs
      show ch.get (i * a.ns + s) ≠ 0 ↔ decide (a.chstt.get (s * ga.n + i) ≠ 0) = true
      rw [hch.2 i s hi hs, hch0.2 _ (by rw [Nat.mul_comm ga.n a.ns]; exact flat2_lt a.ns ga.n s i hs hi)]
      simp
    · intro i s k hi hs hk
      rw [hslots i hi] at hk
      show (nb.nn.rd (i : Int) >>= fun m => kd.1.rd (i : Int) >>= fun row => row.rd (Gen.slotInnerGraph m s k)) = _
      rw [hnnrd i hi, ok_bind]
      obtain ⟨row, hr1, hr2⟩ := Vec.rd_nat kd.1 i (by rw [hkd.1.1]; exact hi)
      rw [hr1, ok_bind, slotInnerGraph_nat]
      obtain ⟨v, hv1, hv2⟩ := Vec.rd_nat row (s * (nb.nidx.get i).size + k)
        (by rw [hr2, (hkd.1.2.2 i hi).1]; exact flat2_lt a.ns _ s k hs hk)
      rw [hv1, hv2, hr2, (hkd.2 i s k hi hs hk).1]
    · intro i s k j hi hs hk hj
      rw [hslots i hi] at hk
      obtain ⟨t, hslot, ht1, _, _⟩ := rows_at hrows hi hk
      have hjt : j = t.1 := by
        have h1 : ((graphSlots (argEdges ga ga.nEdges) i)[k]?).map (fun t => t.1) = some j := hj
        rw [hslot] at h1
        simpa using h1.symm
      show (nb.nidx.rd (i : Int) >>= fun row => row.rd (k : Int) >>= fun j => nb.nn.rd (i : Int) >>= fun m =>
        kd.2.rd (i : Int) >>= fun r2 => r2.rd (Gen.slotInnerGraph m s k) >>= fun c => .ok (j, c)) = _
      obtain ⟨row, hr1, hr2⟩ := Vec.rd_nat nb.nidx i (by rw [hnb.nidx]; exact hi)
      rw [hr1, ok_bind, hr2]
      obtain ⟨jv, hj1, hj2⟩ := Vec.rd_nat (nb.nidx.get i) k hk
      rw [hj1, ok_bind, hnnrd i hi, ok_bind]
      obtain ⟨row2, hq1, hq2⟩ := Vec.rd_nat kd.2 i (by rw [hkd.1.2.1]; exact hi)
      rw [hq1, ok_bind, slotInnerGraph_nat]
      obtain ⟨v, hv1, hv2⟩ := Vec.rd_nat row2 (s * (nb.nidx.get i).size + k)
        (by rw [hq2, (hkd.1.2.2 i hi).2]; exact flat2_lt a.ns _ s k hs hk)
      rw [hv1, ok_bind, hv2, hq2, (hkd.2 i s k hi hs hk).2, hj2, ht1, hjt]
  refine Ok.pure ⟨⟨hT, ⟨_, nbGraph G, hL, hscr⟩, hx0.1, hsmp, conds_graph⟩, hR, rfl, st0, hst0.2, ?_⟩
  intro i s hi hs
  exact hx0.2 i s hi hs

end Strengths
