/-
Checked-access engine (C11): the grid tables built by `Init` (`BuildMeshNeighbors`, `Build_mesh_kr`, `Build_mesh_kd`)
have the sizes and contents that make the grid layout valid (`LayoutOK`), for every valid grid shape.
-/
import Strengths.Proofs.CheckedAlgo
import Strengths.Proofs.Grid
import Strengths.Model.CheckedInit

namespace Strengths
open Gen

/-! ### injectivity of the row-major forms -/

theorem flat2_inj {B a b a' b' : Nat} (hb : b < B) (hb' : b' < B) (h : a * B + b = a' * B + b') : a = a' ∧ b = b' := by
  rcases Nat.lt_trichotomy a a' with hlt | heq | hgt
  · exfalso
    have : (a + 1) * B ≤ a' * B := Nat.mul_le_mul_right B hlt
    rw [Nat.succ_mul] at this; omega
  · subst heq; exact ⟨rfl, by omega⟩
  · exfalso
    have : (a' + 1) * B ≤ a * B := Nat.mul_le_mul_right B hgt
    rw [Nat.succ_mul] at this; omega

theorem flat3_inj {B C i j k i' j' k' : Nat} (hj : j < B) (hk : k < C) (hj' : j' < B) (hk' : k' < C)
    (h : i * B * C + j * C + k = i' * B * C + j' * C + k') : i = i' ∧ j = j' ∧ k = k' := by
  have h1 : j * C + k < B * C := flat2_lt B C j k hj hk
  have h2 : j' * C + k' < B * C := flat2_lt B C j' k' hj' hk'
  have h3 : i * (B * C) + (j * C + k) = i' * (B * C) + (j' * C + k') := by
    rw [← Nat.mul_assoc, ← Nat.mul_assoc, ← Nat.add_assoc, ← Nat.add_assoc]; exact h
  obtain ⟨e1, e2⟩ := flat2_inj h1 h2 h3
  obtain ⟨e3, e4⟩ := flat2_inj hk hk' e2
  exact ⟨e1, e3, e4⟩

/-! ### `GetNeighborIndex` returns −1 or a cell index -/

theorem engNeighbor_range {g : GridShape} (hv : g.valid = true) {i k : Nat} (hi : i < g.size) (hk : k < 6) :
    engNeighbor g i k = -1 ∨ (0 ≤ engNeighbor g i k ∧ engNeighbor g i k < (g.size : Int)) := by
  obtain ⟨hw, hh, hd⟩ := GridShape.valid_pos hv
  have hi0 : (0 : Int) ≤ i := Int.natCast_nonneg i
  have hi1 : (i : Int) < (g.w : Int) * g.h * g.d := by rw [← size_cast]; exact_mod_cast hi
  obtain ⟨hx, hy, hz, _⟩ := encode_decode hw hh hi0 hi1
  obtain ⟨mx, my, mz⟩ := mesh_coords hv i
  simp only [engNeighbor, mx, my, mz]
  rw [engNeighborOfCoords_eq g k hk hx hy hz]
  cases hxs : axisStep g.px (↑g.w) ((i : Int) % g.w) (dirDeltaOn k 0) with
  | none => left; rfl
  | some a =>
    cases hys : axisStep g.py (↑g.h) ((i : Int) % (g.w * g.h) / g.w) (dirDeltaOn k 1) with
    | none => left; rfl
    | some b =>
      cases hzs : axisStep g.pz (↑g.d) ((i : Int) / (g.w * g.h)) (dirDeltaOn k 2) with
      | none => left; rfl
      | some c =>
        right
        obtain ⟨ra, _⟩ := axisStep_inv hx.1 hx.2 (dirDeltaOn_cases k hk 0) hxs
        obtain ⟨rb, _⟩ := axisStep_inv hy.1 hy.2 (dirDeltaOn_cases k hk 1) hys
        obtain ⟨rc, _⟩ := axisStep_inv hz.1 hz.2 (dirDeltaOn_cases k hk 2) hzs
        obtain ⟨j0, j1⟩ := encode_range ra.1 ra.2 rb.1 rb.2 rc.1 rc.2
        simp only
        rw [size_cast]
        exact ⟨j0, j1⟩

/-! ### `BuildMeshNeighbors` -/

theorem buildMeshNeighbors_ok (g : GridShape) :
    Ok (buildMeshNeighbors g) (fun v => v.size = g.size * 6 ∧ ∀ i k, i < g.size → k < 6 → v.get (i * 6 + k) = engNeighbor g i k) := by
  unfold buildMeshNeighbors
  have hsz : g.w * g.h * g.d = g.size := rfl
  rw [hsz]
  let Inv := fun (i k : Nat) (v : Vec Int) => v.size = g.size * 6 ∧
    ∀ i' k', i' < g.size → k' < 6 → (i' < i ∨ (i' = i ∧ k' < k)) → v.get (i' * 6 + k') = engNeighbor g i' k'
  refine Ok.mono (Ok.forUpTo (fun i v => Inv i 0 v) ⟨rfl, fun i' k' _ _ h => by omega⟩ (fun i hi v hinv => ?_))
    (fun v h => ⟨h.1, fun i k hi hk => h.2 i k hi hk (Or.inl hi)⟩)
  refine Ok.mono (Ok.forUpTo (fun k v => Inv i k v) hinv (fun k hk v hinv => ?_))
    (fun v h => ⟨h.1, fun i' k' hi' hk' hb => h.2 i' k' hi' hk' (by omega)⟩)
  rw [nbrSlot_nat]
  have hlt : i * 6 + k < v.size := by rw [hinv.1]; omega
  refine Ok.mono (Vec.wr_nat v (i * 6 + k) _ hlt) (fun v' hv' => ⟨hv'.1.trans hinv.1, ?_⟩)
  intro i' k' hi' hk' hb
  by_cases he : i' = i ∧ k' = k
  · obtain ⟨e1, e2⟩ := he; subst e1 e2; exact hv'.2.1
  · rw [hv'.2.2 (i' * 6 + k') (by omega)]
    exact hinv.2 i' k' hi' hk' (by omega)

/-! ### `Build_mesh_kr` -/

/-- entries of `mesh_env` are environment indices -/
def EnvOK (env : Vec Int) (n nenv : Nat) : Prop := env.size = n ∧ ∀ i, i < n → 0 ≤ env.get i ∧ env.get i < (nenv : Int)

theorem env_site {env : Vec Int} {n nenv : Nat} (he : EnvOK env n nenv) {i : Nat} (hi : i < n) :
    Ok (env.rd (i : Int)) (fun e => 0 ≤ e ∧ e < (nenv : Int)) := by
  refine Ok.mono (Vec.rd_nat env i (by rw [he.1]; exact hi)) (fun e h => ?_)
  rw [h]; exact he.2 i hi

theorem table_site_int {α : Type} (v : Vec α) (A B : Nat) (hv : v.size = A * B) (e : Int) (b : Nat) (he : 0 ≤ e ∧ e < (A : Int)) (hb : b < B) :
    0 ≤ e * (B : Int) + (b : Int) ∧ e * (B : Int) + (b : Int) < (v.size : Int) := by
  obtain ⟨e', rfl⟩ := Int.eq_ofNat_of_zero_le he.1
  have he' : e' < A := by exact_mod_cast he.2
  have := flat2_lt A B e' b he' hb
  rw [hv]
  constructor
  · positivity
  · exact_mod_cast this

theorem buildMeshKr_ok (n ns nr nenv : Nat) (env : Vec Int) (sub : Vec Nat) (k : Vec Rat) (vol : Nat → CRes Rat)
    (henv : EnvOK env n nenv) (hsub : sub.size = ns * nr) (hk : k.size = nenv * nr) (hvol : ∀ i, i < n → Ok (vol i) (fun _ => True)) :
    Ok (buildMeshKr n ns nr env sub k vol) (fun kr => kr.size = n * nr) := by
  unfold buildMeshKr
  refine Ok.forUpTo (fun _ (kr : Vec Rat) => kr.size = n * nr) rfl (fun i hi kr hkr => ?_)
  refine Ok.forUpTo (fun _ (kr : Vec Rat) => kr.size = n * nr) hkr (fun r hr kr hkr => ?_)
  refine Ok.bind (Ok.forUpTo (fun _ (_ : Nat) => True) trivial (fun s hs q _ => ?_)) (fun q _ => ?_)
  · rw [subIndex_nat]
    exact Ok.bind (Vec.rd_nat sub _ (by rw [hsub]; exact flat2_lt ns nr s r hs hr)) (fun c _ => Ok.pure trivial)
  refine Ok.bind (env_site henv hi) (fun e he => ?_)
  have hks : 0 ≤ Gen.kIndex nr e r ∧ Gen.kIndex nr e r < (k.size : Int) := by
    unfold Gen.kIndex; exact table_site_int k nenv nr hk e r he hr
  refine Ok.bind (Vec.rd_Ok _ _ hks) (fun kv _ => ?_)
  refine Ok.bind (hvol i hi) (fun v _ => ?_)
  rw [krIndex_nat]
  exact Ok.mono (Vec.wr_nat kr _ _ (by rw [hkr]; exact flat2_lt n nr i r hi hr)) (fun kr' h => h.1.trans hkr)

/-! ### `Build_mesh_kd` (grid) -/

/-- `mesh_neighbors` as `BuildMeshNeighbors` leaves it -/
def NbrsOK (g : GridShape) (nbrs : Vec Int) : Prop :=
  nbrs.size = g.size * 6 ∧ ∀ i k, i < g.size → k < 6 → nbrs.get (i * 6 + k) = engNeighbor g i k

theorem nbrs_site {g : GridShape} {nbrs : Vec Int} (hn : NbrsOK g nbrs) {i k : Nat} (hi : i < g.size) (hk : k < 6) :
    Ok (nbrs.rd (Gen.nbrReadIndex i k)) (fun j => j = engNeighbor g i k) := by
  rw [nbrReadIndex_nat]
  refine Ok.mono (Vec.rd_nat nbrs (i * 6 + k) (by rw [hn.1]; omega)) (fun j h => ?_)
  rw [h]; exact hn.2 i k hi hk

theorem buildMeshKdGrid_ok (g : GridShape) (hv : g.valid = true) (ns nenv : Nat) (nbrs : Vec Int) (hn : NbrsOK g nbrs)
    (env : Vec Int) (henv : EnvOK env g.size nenv) (D : Vec Rat) (hD : D.size = ns * nenv) (h : Rat) :
    Ok (buildMeshKdGrid g.size ns nenv nbrs env D h) (fun kd => kd.size = g.size * ns * 6) := by
  unfold buildMeshKdGrid
  have h0 : (Vec.replicate (ns * g.size * 6) (0 : Rat)).size = g.size * ns * 6 := by
    show ns * g.size * 6 = g.size * ns * 6; rw [Nat.mul_comm ns g.size]
  refine Ok.forUpTo (fun _ (kd : Vec Rat) => kd.size = g.size * ns * 6) h0 (fun s hs kd hkd => ?_)
  refine Ok.forUpTo (fun _ (kd : Vec Rat) => kd.size = g.size * ns * 6) hkd (fun i hi kd hkd => ?_)
  refine Ok.forUpTo (fun _ (kd : Vec Rat) => kd.size = g.size * ns * 6) hkd (fun k hk kd hkd => ?_)
  have hw : ∀ v : Rat, Ok (kd.wr (Gen.kdIndexGrid ns i s k) v) (fun kd' => kd'.size = g.size * ns * 6) := by
    intro v
    rw [kdIndexGrid_nat]
    exact Ok.mono (Vec.wr_nat kd _ v (by rw [hkd]; exact flat3_lt g.size ns 6 i s k hi hs hk)) (fun kd' h => h.1.trans hkd)
  refine Ok.bind (nbrs_site hn hi hk) (fun j hj => ?_)
  refine Ok.ite (fun _ => hw 0) (fun hne => ?_)
  have hjr : 0 ≤ j ∧ j < (g.size : Int) := by
    rcases engNeighbor_range hv hi hk with h1 | h1
    · exfalso; apply hne; rw [hj, h1]; rfl
    · rw [hj]; exact h1
  obtain ⟨j', rfl⟩ := Int.eq_ofNat_of_zero_le hjr.1
  have hj' : j' < g.size := by exact_mod_cast hjr.2
  refine Ok.bind (env_site henv hi) (fun ei hei => ?_)
  refine Ok.bind (env_site henv hj') (fun ej hej => ?_)
  have hDs : ∀ e : Int, 0 ≤ e ∧ e < (nenv : Int) → 0 ≤ Gen.dIndex nenv s e ∧ Gen.dIndex nenv s e < (D.size : Int) := by
    intro e he
    obtain ⟨e', rfl⟩ := Int.eq_ofNat_of_zero_le he.1
    have he' : e' < nenv := by exact_mod_cast he.2
    rw [dIndex_nat, hD]
    exact ⟨Int.natCast_nonneg _, by exact_mod_cast flat2_lt ns nenv s e' hs he'⟩
  refine Ok.bind (Vec.rd_Ok _ _ (hDs ei hei)) (fun Di _ => ?_)
  refine Ok.bind (Vec.rd_Ok _ _ (hDs ej hej)) (fun Dj _ => ?_)
  exact hw _

/-! ### the grid layout is valid -/

/-- what `mesh_neighbors[i*6+k]` means: `none` for −1 -/
def nbG (g : GridShape) (i k : Nat) : Option Nat :=
  if engNeighbor g i k = Gen.nbrNone then none else some (engNeighbor g i k).toNat

theorem oppVec_site : oppVec.size = 6 ∧ ∀ k, k < 6 → ∃ o : Nat, o < 6 ∧ oppVec.get k = (o : Int) := by
  refine ⟨by decide, ?_⟩
  intro k hk
  refine ⟨Gen.oppDir.getD k 0, ?_, rfl⟩
  have : ∀ k, k < 6 → Gen.oppDir.getD k 0 < 6 := by decide
  exact this k hk

structure GridOK (g : GridShape) (T : Tabs) (G : GridTabs) : Prop where
  valid : g.valid = true
  n : T.n = g.size
  nbrs : NbrsOK g G.nbrs
  opp : G.opp = oppVec
  kd : G.kd.size = g.size * T.ns * 6

theorem gridLayout_ok {g : GridShape} {T : Tabs} {G : GridTabs} (h : GridOK g T G) :
    LayoutOK T (gridLayout T.ns G) (fun _ => 6) (nbG g) := by
  have hkd : ∀ (i s k : Nat), i < g.size → s < T.ns → k < 6 → 0 ≤ Gen.kdIndexGrid T.ns i s k ∧ Gen.kdIndexGrid T.ns i s k < (G.kd.size : Int) := by
    intro i s k hi hs hk
    rw [kdIndexGrid_nat, h.kd]
    exact ⟨Int.natCast_nonneg _, by exact_mod_cast flat3_lt g.size T.ns 6 i s k hi hs hk⟩
  have hnb : ∀ i k j, i < g.size → k < 6 → nbG g i k = some j → engNeighbor g i k = (j : Int) ∧ j < g.size := by
    intro i k j hi hk hj
    unfold nbG at hj
    split at hj
    · cases hj
    · next hne =>
      injection hj with hj
      rcases engNeighbor_range h.valid hi hk with h1 | h1
      · exfalso; apply hne; rw [h1]; rfl
      · have e : ((engNeighbor g i k).toNat : Int) = engNeighbor g i k := Int.toNat_of_nonneg h1.1
        rw [hj] at e
        exact ⟨e.symm, by rw [← e] at h1; exact_mod_cast h1.2⟩
  constructor
  · intro i _; rfl
  · intro i k hi hk
    rw [h.n] at hi
    obtain ⟨j, hj, hje⟩ := nbrs_site h.nbrs hi hk
    show (G.nbrs.rd (Gen.nbrReadIndex i k) >>= fun j => _) = _
    rw [hj, ok_bind, hje]; rfl
  · intro i k j hi hk hj
    rw [h.n] at hi ⊢
    exact (hnb i k j hi hk hj).2
  · intro i s k hi hs hk
    rw [h.n] at hi
    exact Ok.mono (Vec.rd_Ok _ _ (hkd i s k hi hs hk)) (fun _ _ => trivial)
  · intro i s k j hi hs hk hj
    rw [h.n] at hi
    obtain ⟨e1, hjl⟩ := hnb i k j hi hk hj
    show Ok (G.nbrs.rd (Gen.nbrReadIndex i k) >>= fun j => G.opp.rd k >>= fun o => G.kd.rd (Gen.kdIndexGrid T.ns j s o) >>= fun c => .ok (j, c)) _
    obtain ⟨j0, hj0, hje⟩ := nbrs_site h.nbrs hi hk
    rw [hj0, ok_bind, hje, e1, h.opp]
    obtain ⟨osz, oget⟩ := oppVec_site
    obtain ⟨o, ho, hoe⟩ := oget k hk
    refine Ok.bind (Vec.rd_nat oppVec k (by rw [osz]; exact hk)) (fun ov hov => ?_)
    rw [hov, hoe]
    exact Ok.bind (Vec.rd_Ok _ _ (hkd j s o hjl hs ho)) (fun c _ => Ok.pure rfl)
  · intro i s k _ _ _
    exact Ok.pure trivial
  · intro i s k i' s' k' a hi hs hk hi' hs' hk' e1 e2
    have e1' : (Except.ok (SlotAddr.flat (Gen.ndIndexGrid T.ns i s k)) : CRes SlotAddr) = .ok a := e1
    have e2' : (Except.ok (SlotAddr.flat (Gen.ndIndexGrid T.ns i' s' k')) : CRes SlotAddr) = .ok a := e2
    have := e1'.trans e2'.symm
    injection this with this
    injection this with this
    rw [ndIndexGrid_nat, ndIndexGrid_nat] at this
    have hnat : i * T.ns * 6 + s * 6 + k = i' * T.ns * 6 + s' * 6 + k' := by exact_mod_cast this
    exact flat3_inj hs hk hs' hk' hnat

/-- a flat scratch vector of `6·n_species·n_meshes` entries (`mesh_nd`, `mesh_ad` of the grid algorithms) -/
theorem gridSlotOK {α : Type} {g : GridShape} {T : Tabs} {G : GridTabs} (h : GridOK g T G) (v : Vec α) (hv : v.size = 6 * T.ns * g.size) :
    SlotOK T (gridLayout T.ns G) (fun _ => 6) (SlotVec.flat v) := by
  intro i s k hi hs hk a ha
  rw [h.n] at hi
  have e : (Except.ok (SlotAddr.flat (Gen.ndIndexGrid T.ns i s k)) : CRes SlotAddr) = .ok a := ha
  injection e with e
  subst e
  show Ok (v.rd (Gen.ndIndexGrid T.ns i s k)) _
  rw [ndIndexGrid_nat]
  have : i * T.ns * 6 + s * 6 + k < v.size := by
    rw [hv, show 6 * T.ns * g.size = g.size * T.ns * 6 by ring]
    exact flat3_lt g.size T.ns 6 i s k hi hs hk
  exact Ok.mono (Vec.rd_nat v _ this) (fun _ _ => trivial)

end Strengths
