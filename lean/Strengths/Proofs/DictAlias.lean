/- C12: `process_input_dict_keys` on a dictionary in which one canonical key is spelled with a synonym, and the
generic reader's independence of that spelling. -/
import Strengths.Proofs.Dict

namespace Strengths.Dict
open Strengths Strengths.Gen

/-- the per-entry step of the third loop of `process_input_dict_keys` for group `s` with canonical key `c` -/
def entryStep (s : List String) (c : String) (acc : KV) (p : String × Json) : KV :=
  if s.contains p.1 then kvSet acc c p.2 else acc

theorem groupStep_cons (acc : KV) (c : String) (r : List String) :
    groupStep acc (c :: r) = acc.foldl (entryStep (c :: r) c) acc := rfl

theorem foldl_entryStep_skip (s : List String) (c : String) (l : KV) (acc : KV) (h : ∀ p ∈ l, s.contains p.1 = false) :
    l.foldl (entryStep s c) acc = acc := by
  induction l generalizing acc with
  | nil => rfl
  | cons p t ih =>
    simp only [List.foldl_cons, entryStep, h p (List.mem_cons_self ..), Bool.false_eq_true, if_false]
    exact ih acc (fun q hq => h q (List.mem_cons_of_mem _ hq))

theorem kvSet_fresh (d : KV) (k : String) (v : Json) (h : ∀ p ∈ d, p.1 ≠ k) : kvSet d k v = d ++ [(k, v)] := by
  unfold kvSet
  have : d.any (fun p => p.1 == k) = false := by
    apply List.any_eq_false.2
    intro p hp
    simpa using h p hp
  simp [this]

/-- the situation: `pre ++ (a, v) :: post`, `a` a non-canonical synonym of group `s = c :: r`; no other key of the
dictionary belongs to `s`; every other key is the canonical key of each group that contains it -/
structure AliasCase (syn : List (List String)) (pre post : KV) (a c : String) (r : List String) (v : Json) : Prop where
  hs : (c :: r) ∈ syn
  ha : (c :: r).contains a = true
  hac : a ≠ c
  only_s : ∀ s' ∈ syn, (s'.contains a = true ∨ s'.contains c = true) → s' = c :: r
  others : ∀ p ∈ pre ++ post, ∀ s' ∈ syn, s'.contains p.1 = true → s'.head? = some p.1
  not_in_s : ∀ p ∈ pre ++ post, (c :: r).contains p.1 = false
  nodup : ((pre ++ (a, v) :: post).map (·.1)).Nodup
  c_absent : ∀ p ∈ pre ++ (a, v) :: post, p.1 ≠ c

variable {syn : List (List String)} {pre post : KV} {a c : String} {r : List String} {v : Json}

theorem AliasCase.nodup' (h : AliasCase syn pre post a c r v) :
    (((pre ++ (a, v) :: post) ++ [(c, v)]).map (·.1)).Nodup := by
  rw [List.map_append, List.nodup_append]
  refine ⟨h.nodup, by simp, ?_⟩
  intro x hx y hy
  simp only [List.map_cons, List.map_nil, List.mem_singleton] at hy
  subst hy
  obtain ⟨p, hp, rfl⟩ := List.mem_map.1 hx
  exact h.c_absent p hp

/-- the group of the synonym: the canonical key is appended with the synonym's value -/
theorem AliasCase.step_s (h : AliasCase syn pre post a c r v) :
    groupStep (pre ++ (a, v) :: post) (c :: r) = (pre ++ (a, v) :: post) ++ [(c, v)] := by
  rw [groupStep_cons]
  have hpre : ∀ p ∈ pre, (c :: r).contains p.1 = false := fun p hp => h.not_in_s p (List.mem_append_left _ hp)
  have hpost : ∀ p ∈ post, (c :: r).contains p.1 = false := fun p hp => h.not_in_s p (List.mem_append_right _ hp)
  rw [List.foldl_append, foldl_entryStep_skip _ _ pre _ hpre, List.foldl_cons]
  have : entryStep (c :: r) c (pre ++ (a, v) :: post) (a, v) = (pre ++ (a, v) :: post) ++ [(c, v)] := by
    simp only [entryStep, h.ha, if_true]
    exact kvSet_fresh _ c v h.c_absent
  rw [this, foldl_entryStep_skip _ _ post _ hpost]

/-- … and processing that group again changes nothing -/
theorem AliasCase.step_s_again (h : AliasCase syn pre post a c r v) :
    groupStep ((pre ++ (a, v) :: post) ++ [(c, v)]) (c :: r) = (pre ++ (a, v) :: post) ++ [(c, v)] := by
  rw [groupStep_cons]
  have hpre : ∀ p ∈ pre, (c :: r).contains p.1 = false := fun p hp => h.not_in_s p (List.mem_append_left _ hp)
  have hpost : ∀ p ∈ post, (c :: r).contains p.1 = false := fun p hp => h.not_in_s p (List.mem_append_right _ hp)
  have hself : kvSet ((pre ++ (a, v) :: post) ++ [(c, v)]) c v = (pre ++ (a, v) :: post) ++ [(c, v)] :=
    kvSet_self (p := (c, v)) h.nodup' (by simp)
  have hcc : (c :: r).contains c = true := by simp
  have e1 : entryStep (c :: r) c ((pre ++ (a, v) :: post) ++ [(c, v)]) (a, v) = (pre ++ (a, v) :: post) ++ [(c, v)] := by
    simp only [entryStep, h.ha, if_true]; exact hself
  rw [List.foldl_append, List.foldl_append, foldl_entryStep_skip _ _ pre _ hpre]
  simp only [List.foldl_cons, List.foldl_nil]
  rw [e1, foldl_entryStep_skip _ _ post _ hpost]
  simp only [entryStep, hcc, if_true]
  exact hself

/-- any other group leaves both dictionaries unchanged -/
theorem AliasCase.step_other (h : AliasCase syn pre post a c r v) (s' : List String) (hs' : s' ∈ syn) (hne : s' ≠ c :: r)
    (acc : KV) (hacc : acc = pre ++ (a, v) :: post ∨ acc = (pre ++ (a, v) :: post) ++ [(c, v)]) :
    groupStep acc s' = acc := by
  have hna : s'.contains a = false := by
    cases hh : s'.contains a with
    | false => rfl
    | true => exact absurd (h.only_s s' hs' (.inl hh)) hne
  have hnc : s'.contains c = false := by
    cases hh : s'.contains c with
    | false => rfl
    | true => exact absurd (h.only_s s' hs' (.inr hh)) hne
  cases s' with
  | nil => rfl
  | cons c' r' =>
    have hn : (acc.map (·.1)).Nodup := by rcases hacc with rfl | rfl; exact h.nodup; exact h.nodup'
    apply inner_fold_id (c' :: r') c' acc hn _ acc (fun p hp => hp)
    intro p hp hcont
    have hp' : p ∈ pre ++ post := by
      rcases hacc with rfl | rfl
      · rcases List.mem_append.1 hp with hp | hp
        · exact List.mem_append_left _ hp
        · rcases List.mem_cons.1 hp with rfl | hp
          · rw [hna] at hcont; cases hcont
          · exact List.mem_append_right _ hp
      · rcases List.mem_append.1 hp with hp | hp
        · rcases List.mem_append.1 hp with hp | hp
          · exact List.mem_append_left _ hp
          · rcases List.mem_cons.1 hp with rfl | hp
            · rw [hna] at hcont; cases hcont
            · exact List.mem_append_right _ hp
        · simp only [List.mem_singleton] at hp
          subst hp
          rw [hnc] at hcont; cases hcont
    have := h.others p hp' (c' :: r') hs' hcont
    simpa using this.symm

/-- the third loop on the dictionary with the synonym: the canonical key is added at the end, nothing else changes -/
theorem AliasCase.fold (h : AliasCase syn pre post a c r v) :
    syn.foldl groupStep (pre ++ (a, v) :: post) = (pre ++ (a, v) :: post) ++ [(c, v)] := by
  -- invariant over a suffix `ss` of the group list: before `c :: r` has been met the dictionary is unchanged
  have key : ∀ (ss : List (List String)), (∀ s' ∈ ss, s' ∈ syn) →
      (ss.foldl groupStep ((pre ++ (a, v) :: post) ++ [(c, v)]) = (pre ++ (a, v) :: post) ++ [(c, v)]) ∧
      ((c :: r) ∈ ss → ss.foldl groupStep (pre ++ (a, v) :: post) = (pre ++ (a, v) :: post) ++ [(c, v)]) ∧
      ((c :: r) ∉ ss → ss.foldl groupStep (pre ++ (a, v) :: post) = pre ++ (a, v) :: post) := by
    intro ss
    induction ss with
    | nil => intro _; exact ⟨rfl, fun hh => absurd hh (by simp), fun _ => rfl⟩
    | cons s' t ih =>
      intro hss
      obtain ⟨ih1, ih2, ih3⟩ := ih (fun x hx => hss x (List.mem_cons_of_mem _ hx))
      have hs' := hss s' (List.mem_cons_self ..)
      by_cases he : s' = c :: r
      · subst he
        refine ⟨?_, fun _ => ?_, fun hh => absurd (List.mem_cons_self ..) hh⟩
        · rw [List.foldl_cons, h.step_s_again]; exact ih1
        · rw [List.foldl_cons, h.step_s]; exact ih1
      · refine ⟨?_, fun hh => ?_, fun hh => ?_⟩
        · rw [List.foldl_cons, h.step_other s' hs' he _ (.inr rfl)]; exact ih1
        · rw [List.foldl_cons, h.step_other s' hs' he _ (.inl rfl)]
          rcases List.mem_cons.1 hh with hh | hh
          · exact absurd hh.symm he
          · exact ih2 hh
        · rw [List.foldl_cons, h.step_other s' hs' he _ (.inl rfl)]
          exact ih3 (fun hm => hh (List.mem_cons_of_mem _ hm))
  exact (key syn (fun _ hx => hx)).2.1 h.hs

/-- **`process_input_dict_keys` with one synonym**: an accepted dictionary in which the canonical key `c` is spelled
`a` comes out with `c ↦ v` appended (the synonym entry stays; readers never look at it) -/
theorem AliasCase.processKeys (h : AliasCase syn pre post a c r v)
    (hacc : keysRejected syn ((pre ++ (a, v) :: post).map (·.1)) = false) :
    processKeys syn (pre ++ (a, v) :: post) = .ok ((pre ++ (a, v) :: post) ++ [(c, v)]) := by
  rw [processKeys_eq, hacc]
  simp only [Bool.false_eq_true, if_false, h.fold]

end Strengths.Dict

namespace Strengths.Dict
open Strengths Strengths.Gen

/-! ### the reader looks at canonical keys only -/

theorem dimOf_congr (d1 d2 : KV) (h : stoichOf d1 = stoichOf d2) (ds : DimSpec) : dimOf d1 ds = dimOf d2 ds := by
  cases ds <;> simp only [dimOf, h]

theorem readKind_congr {χ} (c : Ctx χ) (d1 d2 : KV) (h : stoichOf d1 = stoichOf d2) (k : Kind) (j : Json) :
    readKind c d1 k j = readKind c d2 k j := by
  cases k with
  | qtyEnv ds => rw [readKind_qtyEnv_eq, readKind_qtyEnv_eq, dimOf_congr d1 d2 h]
  | intPair =>
    cases j with
    | arr l => rcases l with _ | ⟨x, _ | ⟨y, t⟩⟩ <;> rfl
    | _ => rfl
  | _ => cases j <;> rfl

theorem mapRes_congr {α β} (f g : α → Res β) (l : List α) (h : ∀ a ∈ l, f a = g a) : mapRes f l = mapRes g l := by
  induction l with
  | nil => rfl
  | cons a t ih =>
    simp only [mapRes, h a (List.mem_cons_self ..), ih (fun b hb => h b (List.mem_cons_of_mem _ hb))]

/-- two dictionaries whose processed forms agree on `units`, on the stoichiometry and on the key of every field are
read as the same object -/
theorem fromDictG_congr {χ} (tbl : DictKeys.Table) (fields : List Field) (parent : Sys) (base : Option String) (fs : FS)
    (rc : String → Sys → Option String → Json → Res χ) (kv1 kv2 d1 d2 : KV)
    (h1 : processKeys tbl.aliases kv1 = .ok d1) (h2 : processKeys tbl.aliases kv2 = .ok d2)
    (hu : d1.lookup "units" = d2.lookup "units") (hs : d1.lookup "stoichiometry" = d2.lookup "stoichiometry")
    (hf : ∀ f ∈ fields, d1.lookup f.key = d2.lookup f.key) :
    fromDictG tbl fields parent base fs rc (.obj kv1) = fromDictG tbl fields parent base fs rc (.obj kv2) := by
  have hst : stoichOf d1 = stoichOf d2 := by simp only [stoichOf, hs]
  simp only [fromDictG, h1, h2, hu]
  cases readUnits parent (tbl.unitsDefault.getD "inherit") (d2.lookup "units") with
  | error e => rfl
  | ok us =>
    simp only []
    rw [mapRes_congr (readField ⟨us, base, fs, rc⟩ d1) (readField ⟨us, base, fs, rc⟩ d2) fields (by
      intro f hfm
      simp only [readField, hf f hfm]
      cases (d2.lookup f.key).or f.dflt with
      | none => rfl
      | some j => simp only [readKind_congr _ d1 d2 hst])]

/-! ### lookups in the two processed dictionaries -/

theorem lookup_append' {α} (k : String) (l1 l2 : List (String × α)) :
    (l1 ++ l2).lookup k = (l1.lookup k).or (l2.lookup k) := by
  induction l1 with
  | nil => simp
  | cons p t ih =>
    obtain ⟨pk, pv⟩ := p
    simp only [List.cons_append, List.lookup_cons]
    cases k == pk <;> simp [ih]

theorem lookup_cons_ne {α} (k k' : String) (v : α) (l : List (String × α)) (h : k ≠ k') :
    ((k', v) :: l).lookup k = l.lookup k := by
  rw [List.lookup_cons, beq_eq_false_iff_ne.2 h]

variable {syn : List (List String)} {pre post : KV} {a c : String} {r : List String} {v : Json}

/-- under every key other than the synonym itself, the processed dictionary with the synonym and the dictionary with
the canonical spelling hold the same value -/
theorem AliasCase.lookup_eq (h : AliasCase syn pre post a c r v) (k : String) (hk : k ≠ a) :
    ((pre ++ (a, v) :: post) ++ [(c, v)]).lookup k = (pre ++ (c, v) :: post).lookup k := by
  have hcpre : pre.lookup c = none :=
    lookup_none_of_forall pre c (fun p hp => h.c_absent p (List.mem_append_left _ hp))
  have hcpost : post.lookup c = none :=
    lookup_none_of_forall post c (fun p hp => h.c_absent p (List.mem_append_right _ (List.mem_cons_of_mem _ hp)))
  rw [lookup_append', lookup_append', lookup_append', lookup_cons_ne k a v post hk]
  by_cases hc : k = c
  · subst hc
    rw [hcpre, hcpost]
    simp [List.lookup_cons]
  · rw [lookup_cons_ne k c v post hc, lookup_cons_ne k c v [] hc]
    cases pre.lookup k <;> cases post.lookup k <;> simp

/-- acceptance does not depend on which spelling is used -/
theorem AliasCase.accepted_iff (h : AliasCase syn pre post a c r v) :
    keysRejected syn ((pre ++ (a, v) :: post).map (·.1)) = keysRejected syn ((pre ++ (c, v) :: post).map (·.1)) := by
  have hsame : ∀ s' ∈ syn, s'.contains a = s'.contains c := by
    intro s' hs'
    cases ha : s'.contains a with
    | true =>
      have := h.only_s s' hs' (.inl ha)
      subst this
      simp
    | false =>
      cases hc : s'.contains c with
      | false => rfl
      | true =>
        have := h.only_s s' hs' (.inr hc)
        subst this
        rw [h.ha] at ha; cases ha
  have hany : syn.any (fun s => s.contains a) = syn.any (fun s => s.contains c) := by
    have : ∀ (l : List (List String)), (∀ s' ∈ l, s'.contains a = s'.contains c) →
        l.any (fun s => s.contains a) = l.any (fun s => s.contains c) := by
      intro l
      induction l with
      | nil => intro _; rfl
      | cons x t ih =>
        intro hl
        simp only [List.any_cons, hl x (List.mem_cons_self ..), ih (fun y hy => hl y (List.mem_cons_of_mem _ hy))]
    exact this syn hsame
  have hflt : ∀ (l : List (List String)), (∀ s' ∈ l, s'.contains a = s'.contains c) →
      l.any (fun s => decide ((((pre ++ (a, v) :: post).map (·.1)).filter (fun k => s.contains k)).length > 1)) =
      l.any (fun s => decide ((((pre ++ (c, v) :: post).map (·.1)).filter (fun k => s.contains k)).length > 1)) := by
    intro l
    induction l with
    | nil => intro _; rfl
    | cons x t ih =>
      intro hl
      have hx := hl x (List.mem_cons_self ..)
      simp only [List.any_cons, ih (fun y hy => hl y (List.mem_cons_of_mem _ hy))]
      congr 2
      simp only [List.map_append, List.map_cons, List.filter_append, List.filter_cons, hx]
      cases x.contains c <;> simp
  unfold keysRejected
  rw [hflt syn hsame]
  congr 1
  simp only [List.map_append, List.map_cons, List.any_append, List.any_cons, hany]

/-- **alias interchangeability** for the generic reader (hence for every `*_from_dict` of the model): spelling one
canonical key with any accepted synonym of its group gives the same result — the same object or the same error -/
theorem alias_interchangeable_generic {χ} (tbl : DictKeys.Table) (fields : List Field) (parent : Sys) (base : Option String)
    (fs : FS) (rc : String → Sys → Option String → Json → Res χ)
    (h : AliasCase tbl.aliases pre post a c r v)
    (hn : ((pre ++ (c, v) :: post).map (·.1)).Nodup)
    (hkeys : a ≠ "units" ∧ a ≠ "stoichiometry" ∧ ∀ f ∈ fields, f.key ≠ a) :
    fromDictG tbl fields parent base fs rc (.obj (pre ++ (a, v) :: post)) =
      fromDictG tbl fields parent base fs rc (.obj (pre ++ (c, v) :: post)) := by
  cases hrej : keysRejected tbl.aliases ((pre ++ (c, v) :: post).map (·.1)) with
  | true =>
    -- both spellings are rejected
    have hrej' := h.accepted_iff.trans hrej
    simp only [fromDictG, processKeys_eq, hrej, hrej', if_true]
  | false =>
    have hrej' := h.accepted_iff.trans hrej
    have hcan : keysCanonical tbl.aliases ((pre ++ (c, v) :: post).map (·.1)) = true := by
      unfold keysCanonical
      apply List.all_eq_true.2
      intro s' hs'
      apply List.all_eq_true.2
      intro k hk
      obtain ⟨p, hp, rfl⟩ := List.mem_map.1 hk
      cases hcont : s'.contains p.1 with
      | false => rfl
      | true =>
        simp only [Bool.not_true, Bool.false_or, beq_iff_eq]
        rcases List.mem_append.1 hp with hp | hp
        · exact h.others p (List.mem_append_left _ hp) s' hs' hcont
        · rcases List.mem_cons.1 hp with rfl | hp
          · have := h.only_s s' hs' (.inr hcont)
            subst this; rfl
          · exact h.others p (List.mem_append_right _ hp) s' hs' hcont
    exact fromDictG_congr tbl fields parent base fs rc _ _ _ _ (h.processKeys hrej')
      (processKeys_canonical _ _ hrej hcan hn) (h.lookup_eq "units" (Ne.symm hkeys.1))
      (h.lookup_eq "stoichiometry" (Ne.symm hkeys.2.1)) (fun f hf => h.lookup_eq f.key (hkeys.2.2 f hf))

end Strengths.Dict

namespace Strengths.Dict

/-- the hypotheses of `AliasCase`, which only concern keys, as a computable test on the key lists -/
def aliasCheck (syn : List (List String)) (kpre kpost : List String) (a c : String) (r : List String) : Bool :=
  syn.contains (c :: r) && (c :: r).contains a && (a != c) &&
  syn.all (fun s' => !(s'.contains a || s'.contains c) || s' == c :: r) &&
  (kpre ++ kpost).all (fun k => syn.all (fun s' => !s'.contains k || s'.head? == some k)) &&
  (kpre ++ kpost).all (fun k => !(c :: r).contains k) &&
  decide ((kpre ++ a :: kpost).Nodup) && (kpre ++ a :: kpost).all (fun k => k != c) &&
  decide ((kpre ++ c :: kpost).Nodup) &&
  (a != "units") && (a != "stoichiometry") && !((syn.filterMap List.head?).contains a)

theorem AliasCase.of_check (syn : List (List String)) (pre post : KV) (a c : String) (r : List String) (v : Json)
    (h : aliasCheck syn (pre.map (·.1)) (post.map (·.1)) a c r = true) :
    AliasCase syn pre post a c r v ∧ ((pre ++ (c, v) :: post).map (·.1)).Nodup ∧ a ≠ "units" ∧ a ≠ "stoichiometry" ∧
      a ∉ syn.filterMap List.head? := by
  simp only [aliasCheck, Bool.and_eq_true, List.contains_eq_mem, decide_eq_true_eq, bne_iff_ne, ne_eq, List.all_eq_true,
    Bool.or_eq_true, Bool.not_eq_true', beq_iff_eq, List.mem_append, decide_eq_false_iff_not, Bool.not_eq_eq_eq_not,
    Bool.not_true, Bool.decide_eq_false] at h
  obtain ⟨⟨⟨⟨⟨⟨⟨⟨⟨⟨⟨h1, h2⟩, h3⟩, h4⟩, h5⟩, h6⟩, h7⟩, h8⟩, h9⟩, h10⟩, h11⟩, h12⟩ := h
  refine ⟨⟨h1, by simpa using h2, h3, ?_, ?_, ?_, ?_, ?_⟩, ?_, h10, h11, h12⟩
  · intro s' hs' hor
    rcases h4 s' hs' with hh | hh
    · simp only [Bool.or_eq_false_iff, decide_eq_false_iff_not] at hh
      rcases hor with ho | ho
      · simp [List.contains_eq_mem] at ho; exact absurd ho hh.1
      · simp [List.contains_eq_mem] at ho; exact absurd ho hh.2
    · exact hh
  · intro p hp s' hs' hcont
    have hk : p.1 ∈ pre.map (·.1) ∨ p.1 ∈ post.map (·.1) := by
      rcases List.mem_append.1 hp with hp | hp
      · exact .inl (List.mem_map.2 ⟨p, hp, rfl⟩)
      · exact .inr (List.mem_map.2 ⟨p, hp, rfl⟩)
    rcases h5 p.1 hk s' hs' with hh | hh
    · simp [List.contains_eq_mem] at hcont; exact absurd hcont hh
    · exact hh
  · intro p hp
    have hk : p.1 ∈ pre.map (·.1) ∨ p.1 ∈ post.map (·.1) := by
      rcases List.mem_append.1 hp with hp | hp
      · exact .inl (List.mem_map.2 ⟨p, hp, rfl⟩)
      · exact .inr (List.mem_map.2 ⟨p, hp, rfl⟩)
    have := h6 p.1 hk
    simpa [List.contains_eq_mem] using this
  · simpa [List.map_append] using h7
  · intro p hp
    apply h8 p.1
    rcases List.mem_append.1 hp with hp | hp
    · exact .inl (List.mem_map.2 ⟨p, hp, rfl⟩)
    · rcases List.mem_cons.1 hp with rfl | hp
      · exact .inr (List.mem_cons_self ..)
      · exact .inr (List.mem_cons_of_mem _ (List.mem_map.2 ⟨p, hp, rfl⟩))
  · simpa [List.map_append] using h9

end Strengths.Dict
