/-
On a graph without parallel edges and self-loops the interfaces visited by the Python kinetics loop are the Spec's
interfaces (C01 kinetics_eq_rate on graphs: discharge of the permutation hypothesis).
-/
import Mathlib.Data.List.Nodup
import Mathlib.Data.List.Pairwise
import Strengths.Proofs.KineticsPy
namespace Strengths
open Spec Gen

/-- two edges join the same pair of nodes (in either orientation) -/
def sameEnds (e e' : PyEdge) : Prop := (e.i = e'.i ∧ e.j = e'.j) ∨ (e.i = e'.j ∧ e.j = e'.i)

/-- a graph without self-loops and without parallel edges whose edges join nodes of the graph (the restriction the
statement of C01 makes for the Python graph functions; `RDGraphSpace.check()` rejects the duplicates) -/
def SimpleEdges (n : Nat) (edges : List PyEdge) : Prop :=
  (∀ e ∈ edges, e.i < n ∧ e.j < n ∧ e.i ≠ e.j) ∧ edges.Pairwise (fun e e' => ¬ sameEnds e e')

instance sameEnds_symm : Std.Symm (fun e e' : PyEdge => ¬ sameEnds e e') where
  symm := by
    intro e e' h hh
    apply h
    unfold sameEnds at *
    rcases hh with ⟨a, b⟩ | ⟨a, b⟩
    · exact Or.inl ⟨a.symm, b.symm⟩
    · exact Or.inr ⟨b.symm, a.symm⟩

def joins (e : PyEdge) (i j : Nat) : Prop := (e.i = i ∧ e.j = j) ∨ (e.i = j ∧ e.j = i)

theorem getEdge_some_iff (n : Nat) (edges : List PyEdge) (hs : SimpleEdges n edges) (i j : Nat) (e : PyEdge) :
    pyGetEdge edges i j = some e ↔ e ∈ edges ∧ joins e i j := by
  unfold pyGetEdge
  constructor
  · intro h
    refine ⟨List.mem_of_find?_eq_some h, ?_⟩
    have := List.find?_some h
    simp only [Bool.or_eq_true, Bool.and_eq_true, beq_iff_eq] at this
    exact this
  · rintro ⟨hm, hj⟩
    have hp : (fun e : PyEdge => (e.i == i && e.j == j) || (e.i == j && e.j == i)) e = true := by
      simp only [Bool.or_eq_true, Bool.and_eq_true, beq_iff_eq]; exact hj
    cases hf : edges.find? (fun e : PyEdge => (e.i == i && e.j == j) || (e.i == j && e.j == i)) with
    | none =>
      rw [List.find?_eq_none] at hf
      exact absurd hp (hf e hm)
    | some e' =>
      have hm' := List.mem_of_find?_eq_some hf
      have hj' := List.find?_some hf
      simp only [Bool.or_eq_true, Bool.and_eq_true, beq_iff_eq] at hj'
      by_cases hee : e' = e
      · rw [hee]
      · have := hs.2.forall hm' hm hee
        exfalso
        apply this
        unfold sameEnds
        unfold joins at hj
        rcases hj with ⟨a, b⟩ | ⟨a, b⟩ <;> rcases hj' with ⟨a', b'⟩ | ⟨a', b'⟩
        · exact Or.inl ⟨a'.trans a.symm, b'.trans b.symm⟩
        · exact Or.inr ⟨a'.trans b.symm, b'.trans a.symm⟩
        · exact Or.inr ⟨a'.trans b.symm, b'.trans a.symm⟩
        · exact Or.inl ⟨a'.trans a.symm, b'.trans b.symm⟩

theorem mem_graphFaces (edges : List PyEdge) (i : Nat) (f : Face) :
    f ∈ graphFaces (edgesSI edges) i ↔
      ∃ e ∈ edges, (e.i = i ∧ f = ⟨e.j, e.sfc.si, e.dst.si⟩) ∨ (e.j = i ∧ f = ⟨e.i, e.sfc.si, e.dst.si⟩) := by
  unfold graphFaces edgesSI
  simp only [List.mem_flatMap, List.mem_map, List.mem_append]
  constructor
  · rintro ⟨t, ⟨e, he, rfl⟩, hf⟩
    refine ⟨e, he, ?_⟩
    rcases hf with hf | hf
    · split at hf
      · next h => simp only [List.mem_singleton] at hf; exact Or.inl ⟨h, hf⟩
      · cases hf
    · split at hf
      · next h => simp only [List.mem_singleton] at hf; exact Or.inr ⟨h, hf⟩
      · cases hf
  · rintro ⟨e, he, h⟩
    refine ⟨_, ⟨e, he, rfl⟩, ?_⟩
    rcases h with ⟨h1, h2⟩ | ⟨h1, h2⟩
    · left; simp [h1, h2]
    · right; simp [h1, h2]

theorem mem_pyFaces (n : Nat) (edges : List PyEdge) (i : Nat) (f : Face) :
    f ∈ pyFaces n edges i ↔ ∃ j, j < n ∧ j ≠ i ∧ ∃ e, pyGetEdge edges i j = some e ∧ f = faceOfEdge j e := by
  unfold pyFaces pyGraphNeighbors
  simp only [List.mem_filterMap, List.mem_filter, List.mem_range, Bool.and_eq_true, bne_iff_ne, ne_eq, Option.map_eq_some_iff]
  constructor
  · rintro ⟨j, ⟨hj, hne, _⟩, e, he, rfl⟩
    exact ⟨j, hj, hne, e, he, rfl⟩
  · rintro ⟨j, hj, hne, e, he, rfl⟩
    exact ⟨j, ⟨hj, hne, by rw [he]; rfl⟩, e, he, rfl⟩

/-- the interface of edge `e` seen from node `i` (no self-loops) -/
def faceFrom (i : Nat) (e : PyEdge) : Option Face :=
  if e.i = i then some ⟨e.j, e.sfc.si, e.dst.si⟩ else if e.j = i then some ⟨e.i, e.sfc.si, e.dst.si⟩ else none

theorem graphFaces_eq_filterMap (edges : List PyEdge) (i : Nat) (hl : ∀ e ∈ edges, e.i ≠ e.j) :
    graphFaces (edgesSI edges) i = edges.filterMap (faceFrom i) := by
  induction edges with
  | nil => rfl
  | cons e es ih =>
    have hne := hl e (List.mem_cons_self)
    have ih' := ih (fun a ha => hl a (List.mem_cons_of_mem _ ha))
    unfold graphFaces edgesSI at ih' ⊢
    simp only [List.map_cons, List.flatMap_cons, List.filterMap_cons, faceFrom]
    rw [ih']
    by_cases h1 : e.i = i
    · have h2 : ¬ e.j = i := fun h => hne (h1.trans h.symm)
      simp [h1, h2, faceFrom]
    · by_cases h2 : e.j = i
      · simp [h1, h2, faceFrom]
      · simp [h1, h2, faceFrom]

theorem nodup_graphFaces (n : Nat) (edges : List PyEdge) (hs : SimpleEdges n edges) (i : Nat) :
    (graphFaces (edgesSI edges) i).Nodup := by
  rw [graphFaces_eq_filterMap edges i (fun e he => (hs.1 e he).2.2)]
  unfold List.Nodup
  apply List.Pairwise.filterMap (faceFrom i) _ hs.2
  intro e e' hR b hb b' hb' hbb
  apply hR
  subst hbb
  unfold faceFrom at hb hb'
  unfold sameEnds
  by_cases h1 : e.i = i <;> by_cases h1' : e'.i = i
  · simp only [h1, h1', if_true, Option.mem_def, Option.some.injEq] at hb hb'
    rw [← hb'] at hb
    simp only [Face.mk.injEq] at hb
    exact Or.inl ⟨h1.trans h1'.symm, hb.1⟩
  · simp only [h1, h1', if_true, if_false, Option.mem_def, Option.some.injEq] at hb hb'
    by_cases h2' : e'.j = i
    · simp only [h2', if_true, Option.some.injEq] at hb'
      rw [← hb'] at hb
      simp only [Face.mk.injEq] at hb
      exact Or.inr ⟨h1.trans h2'.symm, hb.1⟩
    · simp [h2'] at hb'
  · simp only [h1, h1', if_true, if_false, Option.mem_def, Option.some.injEq] at hb hb'
    by_cases h2 : e.j = i
    · simp only [h2, if_true, Option.some.injEq] at hb
      rw [← hb'] at hb
      simp only [Face.mk.injEq] at hb
      exact Or.inr ⟨hb.1, h2.trans h1'.symm⟩
    · simp [h2] at hb
  · simp only [h1, h1', if_false, Option.mem_def] at hb hb'
    by_cases h2 : e.j = i <;> by_cases h2' : e'.j = i
    · simp only [h2, h2', if_true, Option.some.injEq] at hb hb'
      rw [← hb'] at hb
      simp only [Face.mk.injEq] at hb
      exact Or.inl ⟨hb.1, h2.trans h2'.symm⟩
    · simp [h2'] at hb'
    · simp [h2] at hb
    · simp [h2] at hb

theorem nodup_pyFaces (n : Nat) (edges : List PyEdge) (i : Nat) : (pyFaces n edges i).Nodup := by
  unfold pyFaces pyGraphNeighbors
  apply List.Nodup.filterMap _ (List.nodup_range.filter _)
  intro a a' b hb hb'
  simp only [Option.mem_def, Option.map_eq_some_iff] at hb hb'
  obtain ⟨e, _, rfl⟩ := hb
  obtain ⟨e', _, h⟩ := hb'
  have := congrArg Face.nbr h
  simpa [faceOfEdge] using this.symm

/-- **on a graph without parallel edges and self-loops the interfaces the Python loop visits are the Spec's interfaces** -/
theorem simple_graph_faces (n : Nat) (edges : List PyEdge) (hs : SimpleEdges n edges) (i : Nat) (hi : i < n) :
    (pyFaces n edges i).Perm (graphFaces (edgesSI edges) i) := by
  rw [List.perm_ext_iff_of_nodup (nodup_pyFaces n edges i) (nodup_graphFaces n edges hs i)]
  intro f
  rw [mem_pyFaces, mem_graphFaces]
  constructor
  · rintro ⟨j, hj, hne, e, he, rfl⟩
    obtain ⟨hm, hjn⟩ := (getEdge_some_iff n edges hs i j e).1 he
    refine ⟨e, hm, ?_⟩
    unfold joins at hjn
    rcases hjn with ⟨a, b⟩ | ⟨a, b⟩
    · left; exact ⟨a, by simp [faceOfEdge, b]⟩
    · right; exact ⟨b, by simp [faceOfEdge, a]⟩
  · rintro ⟨e, hm, h⟩
    obtain ⟨h1, h2, h3⟩ := hs.1 e hm
    rcases h with ⟨a, rfl⟩ | ⟨a, rfl⟩
    · refine ⟨e.j, h2, fun hh => h3 (a.trans hh.symm), e, ?_, rfl⟩
      exact (getEdge_some_iff n edges hs i e.j e).2 ⟨hm, Or.inl ⟨a, rfl⟩⟩
    · refine ⟨e.i, h1, fun hh => h3 (hh.trans a.symm), e, ?_, rfl⟩
      exact (getEdge_some_iff n edges hs i e.i e).2 ⟨hm, Or.inr ⟨rfl, a⟩⟩

end Strengths
