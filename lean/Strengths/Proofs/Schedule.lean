/-
Driving schedules (C08): every drive call is a number of `Iterate()` calls, so any two schedules that reach
completion leave the same records; forgetting a component of the algorithm state the step does not depend on
(the generator state for Euler) does not change the records.
-/
import Strengths.Proofs.Lifecycle

namespace Strengths
namespace SimSt
variable {σ ω : Type} (A : Algo σ ω) (cfg : SamplerCfg)

theorem Same.symm {s s' : SimSt σ ω} (h : Same s s') : Same s' s :=
  ⟨h.1.symm, h.2.1.symm, h.2.2.1.symm, h.2.2.2.1.symm, h.2.2.2.2.1.symm, h.2.2.2.2.2.symm⟩

theorem Same.trans {s s' s'' : SimSt σ ω} (h : Same s s') (h' : Same s' s'') : Same s s'' :=
  ⟨h.1.trans h'.1, h.2.1.trans h'.2.1, h.2.2.1.trans h'.2.2.1, h.2.2.2.1.trans h'.2.2.2.1,
    h.2.2.2.2.1.trans h'.2.2.2.2.1, h.2.2.2.2.2.trans h'.2.2.2.2.2⟩

theorem next_congr (s s' : SimSt σ ω) (h : Same s s') : next A cfg s = next A cfg s' := by
  unfold next; rw [iterate_congr A cfg s s' h]

theorem iter_congr (n : Nat) (s s' : SimSt σ ω) (h : Same s s') : Same (iter A cfg n s) (iter A cfg n s') := by
  cases n with
  | zero => exact h
  | succ n => simp only [iter]; rw [next_congr A cfg s s' h]; exact Same.refl _

/-- a drive call of the API -/
inductive Drive where
  | iterate
  | iterateN (n : Nat)
  /-- `run`: `k` = further iterations the wall clock allows -/
  | run (k : Nat)

/-- upper bound of the `Iterate()` calls a drive call makes -/
def Drive.count : Drive → Nat
  | .iterate => 1
  | .iterateN n => n
  | .run k => k + 1

def applyDrive (d : Drive) (s : SimSt σ ω) : SimSt σ ω :=
  match d with
  | .iterate => next A cfg s
  | .iterateN n => (iterateN A cfg n s).1
  | .run k => (run A cfg k s).1

def applySchedule : List Drive → SimSt σ ω → SimSt σ ω
  | [], s => s
  | d :: rest, s => applySchedule rest (applyDrive A cfg d s)

theorem applyDrive_same (d : Drive) (s : SimSt σ ω) : Same (applyDrive A cfg d s) (iter A cfg d.count s) := by
  cases d with
  | iterate => exact Same.refl _
  | iterateN n => exact iterateN_state A cfg n s
  | run k => exact (run_eq_iterateN A cfg k s).1.trans (iterateN_state A cfg (k + 1) s)

/-- a schedule is, up to the per-iteration flag, `Iterate()` applied (sum of the counts) times -/
theorem applySchedule_same (l : List Drive) (s : SimSt σ ω) :
    Same (applySchedule A cfg l s) (iter A cfg (l.map Drive.count).sum s) := by
  induction l generalizing s with
  | nil => exact Same.refl _
  | cons d rest ih =>
    simp only [applySchedule, List.map_cons, List.sum_cons]
    rw [iter_add]
    exact (ih _).trans (iter_congr A cfg _ _ _ (applyDrive_same A cfg d s))

/-- two iteration counts that both reach completion give the same records, clock and state -/
theorem iter_complete_unique (s : SimSt σ ω) (a b : Nat) (ha : (iter A cfg a s).complete = true) (hb : (iter A cfg b s).complete = true) :
    (iter A cfg a s).recs = (iter A cfg b s).recs ∧ (iter A cfg a s).t = (iter A cfg b s).t ∧ (iter A cfg a s).x = (iter A cfg b s).x := by
  have key : ∀ a b : Nat, a ≤ b → (iter A cfg a s).complete = true →
      (iter A cfg a s).recs = (iter A cfg b s).recs ∧ (iter A cfg a s).t = (iter A cfg b s).t ∧ (iter A cfg a s).x = (iter A cfg b s).x := by
    intro a b hab ha
    obtain ⟨k, rfl⟩ := Nat.exists_eq_add_of_le hab
    rw [iter_add]
    obtain ⟨_, h2, h3, h4, _⟩ := iter_of_complete A cfg _ ha k
    exact ⟨h4.symm, h2.symm, h3.symm⟩
  rcases Nat.le_total a b with h | h
  · exact key a b h ha
  · obtain ⟨h1, h2, h3⟩ := key b a h hb
    exact ⟨h1.symm, h2.symm, h3.symm⟩

/-! ### forgetting part of the algorithm state -/

/-- image of the members under a map of the algorithm state -/
def mapX {σ' : Type} (f : σ → σ') (s : SimSt σ ω) : SimSt σ' ω :=
  { x := f s.x, t := s.t, samplePos := s.samplePos, lastTsi := s.lastTsi, done := s.done, complete := s.complete, recs := s.recs }

variable {σ' : Type} (A' : Algo σ' ω) (f : σ → σ')

/-- `A'` is `A` seen through `f`: same observation, same time increment, same completion -/
def Commutes : Prop :=
  (∀ x, A.obs x = A'.obs (f x)) ∧ (∀ x, A'.step (f x) = (A.step x).map fun p => (f p.1, p.2))

theorem mapX_sample (hc : Commutes A A' f) (s : SimSt σ ω) : mapX f (s.sample A) = (mapX f s).sample A' := by
  unfold sample mapX
  by_cases h : s.done = true
  · simp [h]
  · simp [h, hc.1 s.x]

theorem mapX_setPos (s : SimSt σ ω) (p : Nat) : mapX f { s with samplePos := p } = { (mapX f s) with samplePos := p } := rfl
theorem mapX_setTsi (s : SimSt σ ω) (r : Tsi) : mapX f { s with lastTsi := r } = { (mapX f s) with lastTsi := r } := rfl

theorem mapX_tsLoop (hc : Commutes A A' f) (l : List Rat) (s : SimSt σ ω) : mapX f (tsLoop A s l) = tsLoop A' (mapX f s) l := by
  induction l generalizing s with
  | nil => rfl
  | cons τ rest ih =>
    unfold tsLoop
    have ht : (mapX f s).t = s.t := rfl
    have hp : (mapX f s).samplePos = s.samplePos := rfl
    rw [ht, hp]
    by_cases h : τ ≤ s.t
    · rw [if_pos h, if_pos h, ih, mapX_setPos, mapX_sample A A' f hc]
    · rw [if_neg h, if_neg h]

theorem mapX_samplingStep (hc : Commutes A A' f) (s : SimSt σ ω) : mapX f (samplingStep A cfg s) = samplingStep A' cfg (mapX f s) := by
  unfold samplingStep
  generalize cfg.policy = p
  match p with
  | 0 => simp only []; unfold sampleOnTSample; rw [mapX_tsLoop A A' f hc]; rfl
  | 1 => exact mapX_sample A A' f hc s
  | 2 =>
    simp only []
    unfold sampleOnInterval
    have ht : (mapX f s).t = s.t := rfl
    have hl : (mapX f s).lastTsi = s.lastTsi := rfl
    simp only [ht, hl]
    by_cases h : (tsiRatio s.t cfg.interval).gt s.lastTsi = true
    · rw [if_pos h, if_pos h, mapX_setTsi, mapX_sample A A' f hc]
    · rw [if_neg h, if_neg h]
  | _ + 3 => rfl

theorem mapX_checkTMax (s : SimSt σ ω) : mapX f (checkTMax cfg s) = checkTMax cfg (mapX f s) := by
  unfold checkTMax
  have ht : (mapX f s).t = s.t := rfl
  rw [ht]
  split <;> rfl

theorem mapX_iterate (hc : Commutes A A' f) (s : SimSt σ ω) :
    mapX f (iterate A cfg s).1 = (iterate A' cfg (mapX f s)).1 ∧ (iterate A cfg s).2 = (iterate A' cfg (mapX f s)).2 := by
  by_cases h : s.complete = true
  · have h' : (mapX f s).complete = true := h
    rw [iterate_of_complete A cfg s h, iterate_of_complete A' cfg _ h']; exact ⟨rfl, rfl⟩
  · simp only [Bool.not_eq_true] at h
    have h' : (mapX f s).complete = false := h
    cases hs : A.step s.x with
    | none =>
      have hs' : A'.step (mapX f s).x = none := by
        rw [show (mapX f s).x = f s.x from rfl, hc.2, hs]; rfl
      rw [iterate_of_stuck A cfg s h hs, iterate_of_stuck A' cfg _ h' hs']; exact ⟨rfl, rfl⟩
    | some p =>
      obtain ⟨x', dt⟩ := p
      have hs' : A'.step (mapX f s).x = some (f x', dt) := by
        rw [show (mapX f s).x = f s.x from rfl, hc.2, hs]; rfl
      rw [iterate_of_step A cfg s h hs, iterate_of_step A' cfg _ h' hs']
      have e : mapX f (checkTMax cfg (samplingStep A cfg (advanced s x' dt))) =
          checkTMax cfg (samplingStep A' cfg (advanced (mapX f s) (f x') dt)) := by
        rw [mapX_checkTMax, mapX_samplingStep A cfg A' f hc]; rfl
      refine ⟨e, ?_⟩
      have := congrArg SimSt.complete e
      show (!_) = (!_)
      rw [← this]; rfl

theorem mapX_iter (hc : Commutes A A' f) (n : Nat) (s : SimSt σ ω) : mapX f (iter A cfg n s) = iter A' cfg n (mapX f s) := by
  induction n generalizing s with
  | zero => rfl
  | succ n ih =>
    simp only [iter]
    rw [ih]
    unfold next
    rw [(mapX_iterate A cfg A' f hc s).1]

theorem mapX_init (hc : Commutes A A' f) (x0 : σ) : mapX f (init A cfg x0) = init A' cfg (f x0) := by
  unfold init
  rw [mapX_samplingStep A cfg A' f hc]; rfl

end SimSt
end Strengths
