/-
The engine's neighbour table of a grid lists the Spec's six-neighbourhood (`Spec.gridNbrs`), slot by slot,
for every valid grid (C01 grid theorems become unconditional; C15 rate corollary).
Built on the geometry lemmas of `Proofs/Grid.lean` (`engNeighborOfCoords_eq`, `mesh_coords`, `cellCoords_range`).
-/
import Strengths.Proofs.Grid
import Strengths.Proofs.Kinetics

namespace Strengths
open Gen

/-- the engine's slot `n` of cell `i` as a function of the per-axis steps -/
theorem engNbr_formula {g : GridShape} (hv : g.valid = true) {i n : Nat} (hi : i < g.size) (hn : n < 6) :
    engNbr? g i n =
      match axisStep g.px g.w (cellCoords g i).1 (dirDeltaOn n 0), axisStep g.py g.h (cellCoords g i).2.1 (dirDeltaOn n 1),
            axisStep g.pz g.d (cellCoords g i).2.2 (dirDeltaOn n 2) with
      | some a, some b, some c => some (a + b * g.w + c * (g.w * g.h)).toNat
      | _, _, _ => none := by
  obtain ⟨hx, hy, hz, _⟩ := cellCoords_range hv hi
  obtain ⟨mx, my, mz⟩ := mesh_coords hv i
  obtain ⟨hw, hh, hd⟩ := GridShape.valid_pos hv
  unfold engNbr?
  simp only [engNeighbor, mx, my, mz]
  have hxx : (0 : Int) ≤ (i : Int) % g.w ∧ (i : Int) % g.w < g.w := hx
  have hyy : (0 : Int) ≤ (i : Int) % (g.w * g.h) / g.w ∧ (i : Int) % (g.w * g.h) / g.w < g.h := hy
  have hzz : (0 : Int) ≤ (i : Int) / (g.w * g.h) ∧ (i : Int) / (g.w * g.h) < g.d := hz
  rw [engNeighborOfCoords_eq g n hn hxx hyy hzz]
  simp only [cellCoords]
  cases hxs : axisStep g.px (↑g.w) ((i : Int) % g.w) (dirDeltaOn n 0) with
  | none => simp [nbrNone]
  | some a =>
    cases hys : axisStep g.py (↑g.h) ((i : Int) % (g.w * g.h) / g.w) (dirDeltaOn n 1) with
    | none => simp [nbrNone]
    | some b =>
      cases hzs : axisStep g.pz (↑g.d) ((i : Int) / (g.w * g.h)) (dirDeltaOn n 2) with
      | none => simp [nbrNone]
      | some c =>
        have ha := (axisStep_inv hxx.1 hxx.2 (dirDeltaOn_cases n hn 0) hxs).1
        have hb := (axisStep_inv hyy.1 hyy.2 (dirDeltaOn_cases n hn 1) hys).1
        have hc := (axisStep_inv hzz.1 hzz.2 (dirDeltaOn_cases n hn 2) hzs).1
        have hnn : 0 ≤ a + b * g.w + c * (g.w * g.h) := by
          have h1 : 0 ≤ b * (g.w : Int) := Int.mul_nonneg hb.1 (by omega)
          have h2 : 0 ≤ c * ((g.w : Int) * g.h) := Int.mul_nonneg hc.1 (Int.mul_nonneg (by omega) (by omega))
          omega
        have hne : ¬ (a + b * (g.w : Int) + c * ((g.w : Int) * g.h) = -1) := by omega
        have hlt : ¬ (a + b * (g.w : Int) + c * ((g.w : Int) * g.h) < 0) := by omega
        simp [nbrNone, hne, hlt]

/-- one axis: the engine-side step specification against the Spec's `axisStep`, forward -/
theorem axisStep_plus (per : Bool) (len c : Nat) (hc : c < len) :
    axisStep per (len : Int) (c : Int) 1 = (Spec.axisStep len per c true).map fun v => (v : Int) := by
  unfold axisStep Spec.axisStep
  have h0 : (0 : Int) ≤ c := Int.natCast_nonneg c
  have h1 : (c : Int) < len := by exact_mod_cast hc
  cases per
  · by_cases h : c + 1 < len
    · have : (0 : Int) ≤ (c : Int) + 1 ∧ (c : Int) + 1 < len := ⟨by omega, by exact_mod_cast h⟩
      simp [h, this]
    · have : ¬ ((0 : Int) ≤ (c : Int) + 1 ∧ (c : Int) + 1 < len) := by
        intro hh; exact h (by exact_mod_cast hh.2)
      simp [h, this]
  · simp only [if_true]
    rw [wrap_succ h0 h1]
    by_cases h : c + 1 < len
    · have : ¬ ((c : Int) + 1 = len) := by
        intro hh; have : c + 1 = len := by exact_mod_cast hh
        omega
      simp [h, this]
    · have : (c : Int) + 1 = len := by
        have : c + 1 = len := by omega
        exact_mod_cast this
      simp [h, this]

/-- one axis, backward -/
theorem axisStep_minus (per : Bool) (len c : Nat) (hc : c < len) :
    axisStep per (len : Int) (c : Int) (-1) = (Spec.axisStep len per c false).map fun v => (v : Int) := by
  unfold axisStep Spec.axisStep
  have h0 : (0 : Int) ≤ c := Int.natCast_nonneg c
  have h1 : (c : Int) < len := by exact_mod_cast hc
  cases per
  · by_cases h : 0 < c
    · have : (0 : Int) ≤ (c : Int) + -1 ∧ (c : Int) + -1 < len := ⟨by omega, by omega⟩
      have e : ((c - 1 : Nat) : Int) = (c : Int) + -1 := by omega
      simp [h, this, e]
    · have : ¬ ((0 : Int) ≤ (c : Int) + -1 ∧ (c : Int) + -1 < len) := by omega
      simp [h]
      intro hh; omega
  · simp only [if_true]
    rw [show (c : Int) + -1 = (c : Int) - 1 by ring, wrap_pred h0 h1]
    by_cases h : 0 < c
    · have : ¬ ((c : Int) = 0) := by omega
      have e : ((c - 1 : Nat) : Int) = (c : Int) - 1 := by omega
      simp [h, e]
      intro hh; omega
    · have : (c : Int) = 0 := by omega
      have e : ((len - 1 : Nat) : Int) = (len : Int) - 1 := by omega
      simp [h, this, e]

/-- the coordinates of a cell over `Int` are the casts of the Spec's coordinates over `Nat` -/
theorem cellCoords_cast (g : GridShape) (i : Nat) :
    cellCoords g i = (((i % g.w : Nat) : Int), (((i / g.w) % g.h : Nat) : Int), ((i / (g.w * g.h) : Nat) : Int)) := by
  unfold cellCoords
  rw [← Nat.mod_mul_right_div_self]
  push_cast
  rfl

theorem toNat_idx (w h x y z : Nat) :
    ((x : Int) + (y : Int) * w + (z : Int) * ((w : Int) * h)).toNat = x + w * (y + h * z) := by
  have : ((x : Int) + (y : Int) * w + (z : Int) * ((w : Int) * h)) = ((x + w * (y + h * z) : Nat) : Int) := by
    push_cast; ring
  rw [this, Int.toNat_natCast]

theorem slot_x (w h y z : Nat) (sx : Option Nat) :
    (match sx.map (fun v => (v : Int)), some (y : Int), some (z : Int) with
      | some a, some b, some c => some (a + b * (w : Int) + c * ((w : Int) * h)).toNat
      | _, _, _ => none) = sx.map fun v => v + w * (y + h * z) := by
  cases sx with
  | none => rfl
  | some v => simp [toNat_idx]

theorem slot_y (w h x z : Nat) (sy : Option Nat) :
    (match some (x : Int), sy.map (fun v => (v : Int)), some (z : Int) with
      | some a, some b, some c => some (a + b * (w : Int) + c * ((w : Int) * h)).toNat
      | _, _, _ => none) = sy.map fun v => x + w * (v + h * z) := by
  cases sy with
  | none => rfl
  | some v => simp [toNat_idx]

theorem slot_z (w h x y : Nat) (sz : Option Nat) :
    (match some (x : Int), some (y : Int), sz.map (fun v => (v : Int)) with
      | some a, some b, some c => some (a + b * (w : Int) + c * ((w : Int) * h)).toNat
      | _, _, _ => none) = sz.map fun v => x + w * (y + h * v) := by
  cases sz with
  | none => rfl
  | some v => simp [toNat_idx]

/-- **the six slots of `GetNeighborIndex`/`BuildMeshNeighbors` list the Spec's six-neighbourhood in the same order**,
for every valid grid (all sizes, all 8 boundary settings, periodic axes of length 1 and 2 included) and every cell -/
theorem engine_slots_are_spec_nbrs {g : GridShape} (hv : g.valid = true) {i : Nat} (hi : i < g.size) :
    (List.range 6).filterMap (engNbr? g i) = Spec.gridNbrs g.w g.h g.d g.px g.py g.pz i := by
  obtain ⟨hw, hh, hd⟩ := GridShape.valid_pos hv
  have hwN : 0 < g.w := by exact_mod_cast hw
  have hhN : 0 < g.h := by exact_mod_cast hh
  have hxN : i % g.w < g.w := Nat.mod_lt _ hwN
  have hyN : (i / g.w) % g.h < g.h := Nat.mod_lt _ hhN
  have hzN : i / (g.w * g.h) < g.d := by
    rw [Nat.div_lt_iff_lt_mul (Nat.mul_pos hwN hhN)]
    have : g.size = g.w * g.h * g.d := rfl
    rw [Nat.mul_comm]; omega
  have hx0 : axisStep g.px (g.w : Int) ((i % g.w : Nat) : Int) 0 = some ((i % g.w : Nat) : Int) :=
    axisStep_zero (Int.natCast_nonneg _) (by exact_mod_cast hxN)
  have hy0 : axisStep g.py (g.h : Int) (((i / g.w) % g.h : Nat) : Int) 0 = some (((i / g.w) % g.h : Nat) : Int) :=
    axisStep_zero (Int.natCast_nonneg _) (by exact_mod_cast hyN)
  have hz0 : axisStep g.pz (g.d : Int) ((i / (g.w * g.h) : Nat) : Int) 0 = some ((i / (g.w * g.h) : Nat) : Int) :=
    axisStep_zero (Int.natCast_nonneg _) (by exact_mod_cast hzN)
  obtain ⟨t00, t01, t02, t10, t11, t12, t20, t21, t22, t30, t31, t32, t40, t41, t42, t50, t51, t52⟩ := dirDeltaOn_table
  have e0 : engNbr? g i 0 = (Spec.axisStep g.w g.px (i % g.w) true).map fun v => v + g.w * ((i / g.w) % g.h + g.h * (i / (g.w * g.h))) := by
    rw [engNbr_formula hv hi (by omega), cellCoords_cast]
    simp only [t00, t01, t02, hy0, hz0, axisStep_plus g.px g.w (i % g.w) hxN]
    exact slot_x g.w g.h _ _ _
  have e1 : engNbr? g i 1 = (Spec.axisStep g.w g.px (i % g.w) false).map fun v => v + g.w * ((i / g.w) % g.h + g.h * (i / (g.w * g.h))) := by
    rw [engNbr_formula hv hi (by omega), cellCoords_cast]
    simp only [t10, t11, t12, hy0, hz0, axisStep_minus g.px g.w (i % g.w) hxN]
    exact slot_x g.w g.h _ _ _
  have e2 : engNbr? g i 2 = (Spec.axisStep g.h g.py ((i / g.w) % g.h) true).map fun v => i % g.w + g.w * (v + g.h * (i / (g.w * g.h))) := by
    rw [engNbr_formula hv hi (by omega), cellCoords_cast]
    simp only [t20, t21, t22, hx0, hz0, axisStep_plus g.py g.h _ hyN]
    exact slot_y g.w g.h _ _ _
  have e3 : engNbr? g i 3 = (Spec.axisStep g.h g.py ((i / g.w) % g.h) false).map fun v => i % g.w + g.w * (v + g.h * (i / (g.w * g.h))) := by
    rw [engNbr_formula hv hi (by omega), cellCoords_cast]
    simp only [t30, t31, t32, hx0, hz0, axisStep_minus g.py g.h _ hyN]
    exact slot_y g.w g.h _ _ _
  have e4 : engNbr? g i 4 = (Spec.axisStep g.d g.pz (i / (g.w * g.h)) true).map fun v => i % g.w + g.w * ((i / g.w) % g.h + g.h * v) := by
    rw [engNbr_formula hv hi (by omega), cellCoords_cast]
    simp only [t40, t41, t42, hx0, hy0, axisStep_plus g.pz g.d _ hzN]
    exact slot_z g.w g.h _ _ _
  have e5 : engNbr? g i 5 = (Spec.axisStep g.d g.pz (i / (g.w * g.h)) false).map fun v => i % g.w + g.w * ((i / g.w) % g.h + g.h * v) := by
    rw [engNbr_formula hv hi (by omega), cellCoords_cast]
    simp only [t50, t51, t52, hx0, hy0, axisStep_minus g.pz g.d _ hzN]
    exact slot_z g.w g.h _ _ _
  have hr : List.range 6 = [0, 1, 2, 3, 4, 5] := by decide
  rw [hr]
  simp only [List.filterMap_cons, List.filterMap_nil, e0, e1, e2, e3, e4, e5, Spec.gridNbrs, id]

end Strengths
