/-
C13 — Default state and chemostat map: density × volume, species-major layout.
(first instalment: layout; the rest follows)
-/
import Strengths.Model.SystemState

namespace Strengths.C13
open Strengths Strengths.Gen Strengths.RDS

/-- species-major layout: `index = species × number of cells + cell` -/
theorem state_layout (n s c : Int) : stateIndex n s c = s * n + c := by
  simp [stateIndex]

end Strengths.C13
