/-
C13 — Default state and chemostat map: density × volume, species-major layout.

The index formulas (`stateIndex`, `cellIndexArr`, …) and the constants of the default generation
(`envFallbackKeys`, `defaultDensityValue`, `defaultStateUnitsSource`, …) are regenerated from the
sources on every run (`Gen.IndexPy`, `Gen.SystemPy`).
-/
import Strengths.Proofs.SystemState
import Strengths.Proofs.Grid

namespace Strengths.C13
open Strengths Strengths.Gen Strengths.RDS

/-! ## layout -/

/-- species-major layout: `index = species × number of cells + cell` -/
theorem state_layout (n s c : Int) : stateIndex n s c = s * n + c := by
  simp [stateIndex]

/-- `cell = z·w·h + y·w + x` on grids (tuple and object forms) -/
theorem cell_layout (w h x y z : Int) :
    cellIndexArr w h x y z = z * w * h + y * w + x ∧ cellIndexObj w h x y z = z * w * h + y * w + x := by
  constructor <;> simp only [cellIndexArr, cellIndexObj] <;> ring

theorem state_size (n ns : Int) : stateSize n ns = n * ns := rfl

/-- distinct (species, cell) pairs have distinct entries -/
theorem index_injective {n s c s' c' : Int} (hc : 0 ≤ c ∧ c < n) (hc' : 0 ≤ c' ∧ c' < n)
    (e : stateIndex n s c = stateIndex n s' c') : s = s' ∧ c = c' := by
  simp only [stateIndex] at e
  have hn : 0 < n := by omega
  have a := (Int.ediv_emod_unique (a := s * n + c) (r := c) (q := s) hn).2 ⟨by ring, hc.1, hc.2⟩
  have b := (Int.ediv_emod_unique (a := s' * n + c') (r := c') (q := s') hn).2 ⟨by ring, hc'.1, hc'.2⟩
  rw [e] at a
  exact ⟨a.1.symm.trans b.1, a.2.symm.trans b.2⟩

/-- an entry index of a valid (species, cell) pair lies inside the state array -/
theorem index_in_range {n ns s c : Int} (hs : 0 ≤ s ∧ s < ns) (hc : 0 ≤ c ∧ c < n) :
    0 ≤ stateIndex n s c ∧ stateIndex n s c < stateSize n ns := by
  simp only [stateIndex, stateSize]
  constructor
  · nlinarith
  · nlinarith

/-! ## the fallback chain and the constants of the default generation -/

theorem default_constants :
    envFallbackKeys = ["default"] ∧ defaultDensityValue = 0 ∧ defaultChemostatValue = 0 ∧
    defaultStateUnitsSource = "self.network.units_system" ∧
    speciesStateEntry = "(cell_species_density*cell_vol.get_at(i)).convert(units_system).value" ∧
    speciesStateReturn = "UnitArray(state,Units(units_system,quantity_units_dimensions()))" ∧
    speciesChemEntry = "int(cell_species_cstt)" := by decide +kernel

/-- the value of a per-environment property in an environment: its own entry, else `"default"`, else the default argument -/
theorem value_in_env {α} (l : List (String × α)) (env : String) (dflt : α) :
    valueInEnv (.dict l) env dflt =
      match l.lookup env with
      | some a => a
      | none => match l.lookup "default" with
        | some a => a
        | none => dflt := by
  simp only [valueInEnv, default_constants.1, List.findSome?_cons, List.findSome?_nil]
  cases l.lookup env <;> cases h : l.lookup "default" <;> simp [h]

theorem value_in_env_scalar {α} (a : α) (env : String) (dflt : α) : valueInEnv (.single a) env dflt = a := rfl

/-- the default state is expressed in the NETWORK's units system -/
theorem default_state_units (net : Network) (sysUnits : Sys) : defaultStateSys net sysUnits = net.sys := by
  simp [defaultStateSys, default_constants.2.2.2.1]

/-! ## default state: entry (s, i) = density of s in env(i) × volume(i), as an amount -/

/-- structure: entry `s·n + i` of the generated state is the entry computed for species `s` and cell `i` -/
theorem default_state_layout {net : Network} {space : Space} {target : Sys} {st : UArr}
    (h : systemState net space target = .ok st) :
    st.u = ⟨target, Dim.quantity⟩ ∧ st.vs.length = net.species.length * space.size ∧
    ∀ s (hs : s < net.species.length) i, i < space.size →
      ∃ v, st.vs[s * space.size + i]? = some v ∧
        speciesStateEntryAt net.species[s] net space.volArray space.envArray target i = .ok v := by
  unfold systemState at h
  split at h
  · cases h
  · next vs hvs =>
    cases h
    obtain ⟨parts, hp, rfl⟩ := concatRes_ok hvs
    have hlen : parts.length = net.species.length := by
      have := congrArg List.length hp; simpa using this.symm
    have hpart : ∀ s (hs : s < net.species.length), ∃ q, parts[s]? = some q ∧
        (List.range space.size).map (fun i => speciesStateEntryAt net.species[s] net space.volArray space.envArray target i) = q.map Except.ok := by
      intro s hs
      have h1 := congrArg (fun l => l[s]?) hp
      simp only [List.getElem?_map, List.getElem?_eq_getElem hs, Option.map_some] at h1
      cases hq : parts[s]? with
      | none => rw [hq] at h1; simp at h1
      | some q =>
        rw [hq] at h1
        simp only [Option.map_some, Option.some.injEq] at h1
        exact ⟨q, rfl, seqRes_ok h1⟩
    have hall : ∀ p ∈ parts, p.length = space.size := by
      intro p hp'
      obtain ⟨s, hs, rfl⟩ := List.getElem_of_mem hp'
      obtain ⟨q, hq, hm⟩ := hpart s (by omega)
      rw [List.getElem?_eq_getElem hs] at hq
      cases hq
      have := congrArg List.length hm
      simpa using this.symm
    refine ⟨rfl, ?_, ?_⟩
    · rw [List.length_flatten, List.map_congr_left (fun p hp' => hall p hp'), List.map_const', List.sum_replicate, hlen]
      simp
    · intro s hs i hi
      obtain ⟨q, hq, hm⟩ := hpart s hs
      rw [flatten_uniform space.size parts hall s i hi, hq]
      have h2 := congrArg (fun l => l[i]?) hm
      simp only [List.getElem?_map, List.getElem?_range hi, Option.map_some] at h2
      cases hv : q[i]? with
      | none => rw [hv] at h2; simp at h2
      | some v =>
        rw [hv] at h2
        simp only [Option.map_some, Option.some.injEq] at h2
        exact ⟨v, by simp [hv], h2⟩

/-- value: an entry computed from density `dens` (the species' density in the cell's environment) and cell
volume `vol` has SI value SI(dens) · SI(vol) and is an amount in the target system -/
theorem default_state_entry {sp : Species} {net : Network} {vols : UArr} {envs : List Int} {target : Sys} {i : Nat} {v : Rat}
    (h : speciesStateEntryAt sp net vols envs target i = .ok v) :
    ∃ ei label volv, pyGet envs i = .ok ei ∧ pyGet net.envs ei = .ok label ∧ vols.vs[i]? = some volv ∧
      let dens := valueInEnv sp.density label defaultDensity
      (dens.u.sys.valid = true → target.valid = true →
        (UVal.mk v ⟨target, dens.u.dim.add vols.u.dim⟩).si = dens.si * (UVal.mk volv vols.u).si) ∧
      (dens.u.dim = Dim.density → vols.u.dim = Dim.volume → dens.u.dim.add vols.u.dim = Dim.quantity) := by
  unfold speciesStateEntryAt at h
  split at h
  · cases h
  · next ei hei =>
    split at h
    · cases h
    · next label hl =>
      split at h
      · cases h
      · next volv hv =>
        cases h
        refine ⟨ei, label, volv, hei, hl, hv, ?_, ?_⟩
        · intro hd ht
          exact entry_si (vol := ⟨volv, vols.u⟩) hd ht
        · intro h1 h2; rw [h1, h2]; exact density_times_volume_is_amount

/-- the default chemostat map holds the species' flag for the cell's environment (fallback `"default"`, then 0) -/
theorem default_chem_entry {sp : Species} {net : Network} {envs : List Int} {i : Nat} {f : Int}
    (h : speciesChemEntryAt sp net envs i = .ok f) :
    ∃ ei label, pyGet envs i = .ok ei ∧ pyGet net.envs ei = .ok label ∧ f = valueInEnv sp.chstt label 0 := by
  unfold speciesChemEntryAt at h
  split at h
  · cases h
  · next ei hei =>
    split at h
    · cases h
    · next label hl => cases h; exact ⟨ei, label, hei, hl, by rw [default_constants.2.2.1]⟩

/-! ## getters and setters: an abstract map keyed by the entry index -/

/-- naming a species by label or by object is the same; by index it is the position of the label -/
theorem species_ref_forms (net : Network) (l : String) :
    speciesIndex net (.label l) = speciesIndex net (.obj l) ∧
    ∀ k : Nat, speciesIndex net (.label l) = some (k : Int) → k < net.species.length ∧
      speciesIndex net (.idx k) = some (k : Int) := by
  refine ⟨rfl, fun k hk => ?_⟩
  simp only [speciesIndex, Option.map_eq_some_iff] at hk
  obtain ⟨a, ha, hak⟩ := hk
  have : a = k := by exact_mod_cast hak
  subst this
  have hlt := (List.findIdx?_eq_some_iff_getElem.1 ha).1
  refine ⟨hlt, ?_⟩
  simp only [speciesIndex]
  have : (decide ((a : Int) ≥ 0) && decide ((a : Int) < net.species.length)) = true := by
    simp [hlt]
  simp [hlt]

/-- the entry index depends only on network and space: writes do not move entries -/
theorem state_index_stable (s : System) (st : UArr) (ch : List Int) (sp : SpRef) (pos : Pos) :
    ({ s with state := st, chem := ch } : System).stateIndex sp pos = s.stateIndex sp pos := rfl

/-- the value `set_state` writes: a bare number is an amount in the SYSTEM's units, a UnitValue keeps its own -/
def written (s : System) : QIn → UVal
  | .num v => ⟨v, ⟨s.sys, Dim.quantity⟩⟩
  | .uval x => x

/-- `set_state` writes exactly the addressed entry, with the value converted into the state's units
(its SI value is preserved); units, the other entries and the chemostat map are untouched -/
theorem set_state_spec {s s' : System} {sp : SpRef} {pos : Pos} {value : QIn} {k : Int}
    (hk : s.stateIndex sp pos = .ok k) (h0 : 0 ≤ k) (h : s.setState sp pos value = .ok s') :
    (written s value).u.dim = s.state.u.dim ∧ s'.state.u = s.state.u ∧ s'.chem = s.chem ∧ s'.net = s.net ∧ s'.space = s.space ∧
    s'.state.vs = s.state.vs.set k.toNat ((written s value).toSys s.state.u.sys).v ∧ k.toNat < s.state.vs.length ∧
    (s.state.u.sys.valid = true → ((written s value).toSys s.state.u.sys).si = (written s value).si) := by
  have hw : s.setState sp pos value =
      (if (written s value).u.dim != s.state.u.dim then .error .dimMismatch
       else match pySet s.state.vs k ((written s value).toSys s.state.u.sys).v with
        | .error e => .error e
        | .ok vs => .ok { s with state := ⟨vs, s.state.u⟩ }) := by
    unfold System.setState
    rw [hk]
    cases value <;> rfl
  rw [hw] at h
  split at h
  · cases h
  · next hdim =>
    unfold pySet at h
    rw [if_pos h0] at h
    split at h
    · cases h
    · next vs hvs =>
      cases h
      split at hvs
      · next hlt =>
        cases hvs
        exact ⟨by simpa using hdim, rfl, rfl, rfl, rfl, rfl, hlt, fun hv => toSys_si _ hv⟩
      · cases hvs

/-- `get_state` reads the addressed entry, in the state's units -/
theorem get_state_spec {s : System} {sp : SpRef} {pos : Pos} {k : Int}
    (hk : s.stateIndex sp pos = .ok k) (h0 : 0 ≤ k) (h1 : k.toNat < s.state.vs.length) :
    s.getState sp pos = .ok ⟨s.state.vs[k.toNat]'h1, s.state.u⟩ := by
  unfold System.getState
  rw [hk]
  simp only [pyGet, if_pos h0, List.getElem?_eq_getElem h1]

/-- read after write: the written entry returns the written value, every other entry its old value -/
theorem get_set {s s' : System} {sp sp' : SpRef} {pos pos' : Pos} {value : QIn} {k k' : Int}
    (hk : s.stateIndex sp pos = .ok k) (h0 : 0 ≤ k) (hk' : s.stateIndex sp' pos' = .ok k') (h0' : 0 ≤ k')
    (h1' : k'.toNat < s.state.vs.length) (h : s.setState sp pos value = .ok s') :
    ∃ v, s'.getState sp' pos' = .ok ⟨v, s.state.u⟩ ∧
      (k' = k → v = ((written s value).toSys s.state.u.sys).v) ∧
      (k' ≠ k → v = s.state.vs[k'.toNat]'h1') := by
  obtain ⟨_, hu, _, hn, hsp, hvs, hlt, _⟩ := set_state_spec hk h0 h
  have hidx : s'.stateIndex sp' pos' = .ok k' := by
    unfold System.stateIndex at hk' ⊢; rw [hn, hsp]; exact hk'
  have hlen : k'.toNat < s'.state.vs.length := by rw [hvs, List.length_set]; exact h1'
  refine ⟨s'.state.vs[k'.toNat]'hlen, by rw [get_state_spec hidx h0' hlen, hu], ?_, ?_⟩
  · intro e; subst e; simp only [hvs, List.getElem_set_self]
  · intro e
    have : k.toNat ≠ k'.toNat := fun c => e (by omega)
    simp only [hvs, List.getElem_set_ne this]

/-- the chemostat map behaves the same way -/
theorem set_chem_spec {s s' : System} {sp : SpRef} {pos : Pos} {value k : Int}
    (hk : s.stateIndex sp pos = .ok k) (h0 : 0 ≤ k) (h : s.setChem sp pos value = .ok s') :
    s'.chem = s.chem.set k.toNat value ∧ s'.state = s.state ∧ k.toNat < s.chem.length := by
  unfold System.setChem at h
  rw [hk] at h
  simp only [pySet, if_pos h0] at h
  split at h
  · cases h
  · next c hc =>
    cases h
    split at hc
    · next hlt => cases hc; exact ⟨rfl, rfl, hlt⟩
    · cases hc

/-- an invalid position or species changes nothing: the setters raise before writing -/
theorem set_state_rejects {s : System} {sp : SpRef} {pos : Pos} {value : QIn} {e : Err}
    (hk : s.stateIndex sp pos = .error e) : s.setState sp pos value = .error e ∧ s.getState sp pos = .error e ∧
    (∀ v, s.setChem sp pos v = .error e) ∧ s.getChem sp pos = .error e := by
  simp [System.setState, System.getState, System.setChem, System.getChem, hk]

/-- a grid position rejected by `is_within_bounds` (C15: exactly the positions that name no cell), or a graph
index outside `[0, size)`, has no entry index — so nothing is read or written (`set_state_rejects`) -/
theorem state_index_rejects_outside (s : System) (sp : SpRef) (pos : Pos) :
    (∀ g v e u, s.space = .grid g v e u → pyWithinBounds g pos = false → (s.stateIndex sp pos).isError = true) ∧
    (∀ nodes u p, s.space = .graph nodes u → pos = .num p → ¬ (0 ≤ p ∧ p < nodes.length) →
      (s.stateIndex sp pos).isError = true) := by
  constructor
  · intro g v e u hs hout
    have hg : cellIndexGuarded = true := by decide
    unfold System.stateIndex
    simp [hs, Space.cellIndex, pyCellIndex, hg, hout, Res.isError]
  · intro nodes u p hs hp hout
    unfold System.stateIndex
    have : graphIndexBad nodes.length p = true := by
      simp only [graphIndexBad, Bool.or_eq_true, decide_eq_true_eq]; omega
    simp [hs, hp, Space.cellIndex, graphCellIndex, this, Res.isError]

/-! ## regenerating the defaults reflects the current species -/

/-- `set_default_state` recomputes the state from the CURRENT network (so an edited species is reflected) and
does not depend on the previous state or chemostat map -/
theorem regenerate_reflects_edit (s : System) (net' : Network) (old : UArr) (oldc : List Int) :
    ({ s with net := net', state := old, chem := oldc } : System).setDefaultState =
      (match systemState net' s.space net'.sys with
        | .error e => .error e
        | .ok st => .ok { s with net := net', state := st, chem := oldc }) ∧
    ({ s with net := net', state := old, chem := oldc } : System).setDefaultChem =
      (match systemChem net' s.space with
        | .error e => .error e
        | .ok c => .ok { s with net := net', state := old, chem := c }) := by
  simp only [System.setDefaultState, System.setDefaultChem, default_state_units]
  constructor <;> split <;> simp_all

/-- a freshly built system has exactly these defaults -/
theorem fresh_system_defaults {net : Network} {space : Space} {u : Sys} {s : System} (h : mkSystem net space u = .ok s) :
    systemState net space net.sys = .ok s.state ∧ systemChem net space = .ok s.chem ∧ s.net = net ∧ s.space = space := by
  unfold mkSystem at h
  rw [default_state_units] at h
  split at h
  · cases h
  · split at h
    · cases h
    · split at h
      · cases h
      · cases h; simp_all

/-! ## constructor defaults of the spaces -/

/-- the documented defaults: a 1 × 1 × 1 grid, environment 0, cell volume the NUMBER 1 (hence one cubic unit of the space's
own units system), reflecting boundaries; graph node: volume 1, environment 0; edge: surface 1, distance 1 -/
theorem space_constructor_defaults :
    gridCtorDefaults = [("w", "1"), ("h", "1"), ("d", "1"), ("cell_env", "0"), ("cell_vol", "1"), ("boundary_conditions", "None"),
      ("units_system", "UnitsSystem()")] ∧
    graphNodeCtorDefaults = [("volume", "1"), ("environment", "0"), ("units_system", "UnitsSystem()")] ∧
    graphEdgeCtorDefaults = [("i", "<required>"), ("j", "<required>"), ("surface", "1"), ("distance", "1"), ("units_system", "UnitsSystem()")] ∧
    graphCtorDefaults = [("nodes", "[]"), ("edges", "[]"), ("units_system", "UnitsSystem()")] ∧
    systemCtorDefaults = [("network", "<required>"), ("space", "RDGridSpace()"), ("state", "None"), ("chemostats", "None"),
      ("units_system", "UnitsSystem()")] ∧
    gridDefaultCellVol = some 1 ∧ gridDefaultCellEnv = some 0 ∧ gridDefaultW = some 1 ∧ gridDefaultH = some 1 ∧ gridDefaultD = some 1 ∧
    nodeDefaultVolume = some 1 ∧ nodeDefaultEnv = some 0 ∧
    gridDefaultBoundary = [("x", "reflecting"), ("y", "reflecting"), ("z", "reflecting")] := by decide +kernel

/-- a grid built without any argument but the units system: one cell, environment 0, reflecting, and a cell volume of 1
in the space's OWN units system, whatever that system is -/
theorem default_grid (sys : Sys) :
    mkGridSpace none none none none none none none none sys =
      .ok (.grid ⟨1, 1, 1, false, false, false⟩ ⟨1, ⟨sys, Dim.volume⟩⟩ [0] sys) := by
  obtain ⟨_, _, _, _, _, hv, he, hw, hh, hd, _, _, hb⟩ := space_constructor_defaults
  have f1 : (Rat.floor (1 : Rat)).toNat = 1 := by decide +kernel
  have f0 : Rat.floor (0 : Rat) = 0 := by decide +kernel
  have lx : (List.lookup "x" [("x", "reflecting"), ("y", "reflecting"), ("z", "reflecting")] == some "periodical") = false := by
    decide +kernel
  have ly : (List.lookup "y" [("x", "reflecting"), ("y", "reflecting"), ("z", "reflecting")] == some "periodical") = false := by
    decide +kernel
  have lz : (List.lookup "z" [("x", "reflecting"), ("y", "reflecting"), ("z", "reflecting")] == some "periodical") = false := by
    decide +kernel
  simp only [mkGridSpace, hv, he, hw, hh, hd, hb, Option.getD, defaultNat, QIn.toUVal, f1, f0, lx, ly, lz, GridShape.size]
  rfl

/-- an omitted cell volume is 1 cubic space unit also when the other arguments are given: its SI value is the SI value of
the cube of the space's length unit -/
theorem default_cell_volume (w h d : Option Nat) (px py pz : Option Bool) (env : Option (List Int)) (sys : Sys) :
    ∃ g e, mkGridSpace w h d px py pz none env sys = .ok (.grid g ⟨1, ⟨sys, Dim.volume⟩⟩ e sys) ∧
      (UVal.mk 1 ⟨sys, Dim.volume⟩).si = siFactor sys Dim.volume := by
  obtain ⟨_, _, _, _, _, hv, _⟩ := space_constructor_defaults
  simp only [mkGridSpace, hv, Option.getD, QIn.toUVal]
  exact ⟨_, _, rfl, by simp [UVal.si]⟩

theorem default_graph_node (sys : Sys) : mkGraphNode none none sys = .ok (⟨1, ⟨sys, Dim.volume⟩⟩, 0) := by
  obtain ⟨_, _, _, _, _, _, _, _, _, _, hv, he, _⟩ := space_constructor_defaults
  have f0 : Rat.floor (0 : Rat) = 0 := by decide +kernel
  simp only [mkGraphNode, hv, he, Option.getD, QIn.toUVal, f0]

/-- `copy()` of a system and of its parts duplicates the WHOLE object (deep copy): the model's value semantics — a write
on one system, network or space never shows in another — is what the code implements for copies -/
theorem copies_are_deep :
    systemCopyBody = ["returncpy.deepcopy(self)"] ∧ gridCopyBody = ["returncpy.deepcopy(self)"] ∧
    graphCopyBody = ["returncpy.deepcopy(self)"] ∧ networkCopyBody = ["returncpy.deepcopy(self)"] ∧
    speciesCopyBody = ["returncpy.deepcopy(self)"] := by decide +kernel

/-! ## non-vacuity -/

/-! ## rarely written label forms; lists re-assigned after construction -/

/-- the UNNAMED environment `""` (the only environment of a network built without an environment list) is a dictionary key
like any other: `"".split(",")` is `[""]`, so an entry keyed by it is kept by the density / chemostat setters -/
theorem unnamed_key : dictKeys "" = [""] ∧ dictKeys "default" = ["default"] := by
  constructor <;> decide

/-- a density dictionary with an entry for the unnamed environment and a `"default"` entry: cells of the unnamed environment
get the former, every other environment the latter -/
theorem unnamed_env_entry {sys : Sys} {dim : Dim} {q dq : QIn} {x dx : UVal}
    (h : q.toUVal sys dim = .ok x) (hd : dq.toUVal sys dim = .ok dx) (dflt : UVal) :
    ∃ d, processUnitVar sys dim (.dict [("", q), ("default", dq)]) = .ok d ∧
      valueInEnv d "" dflt = x ∧ valueInEnv d "cyt" dflt = dx := by
  refine ⟨.dict [("", x), ("default", dx)], ?_, ?_, ?_⟩
  · simp [processUnitVar, processUnitVar.go, h, hd, unnamed_key.1, unnamed_key.2, dictSet]
  · simp [valueInEnv]
  · have : envFallbackKeys = ["default"] := default_constants.1
    simp [valueInEnv, this, List.lookup]

/-- the index of a species named by label / by object is its position in the CURRENT species list (labels distinct) -
whatever list the network was constructed with: the model keeps nothing else -/
theorem species_index_current (net : Network) {k : Nat} (hk : k < net.species.length)
    (hd : (net.species.map (·.label)).Nodup) :
    speciesIndex net (.label net.species[k].label) = some (k : Int) ∧
    speciesIndex net (.obj net.species[k].label) = some (k : Int) ∧
    speciesIndex net (.idx k) = some (k : Int) := by
  have key : (net.species.findIdx? fun sp => sp.label == net.species[k].label) = some k := by
    rw [List.findIdx?_eq_some_iff_getElem]
    refine ⟨hk, by simp, fun j hj hEq => ?_⟩
    have hj' : j < net.species.length := Nat.lt_trans hj hk
    have hl : net.species[j].label = net.species[k].label := by simpa using hEq
    have hne := (List.pairwise_iff_getElem.1 hd) j k (by simpa using hj') (by simpa using hk) hj
    exact hne (by simpa using hl)
  refine ⟨by simp [speciesIndex, key], by simp [speciesIndex, key], ?_⟩
  simp [speciesIndex, hk]

/-- re-assigning the species list / the environment list of the network of a system touches neither the space nor the
arrays; the defaults regenerated afterwards are those of the current lists (`regenerate_reflects_edit`) -/
theorem assign_keeps_arrays {s s' : System} {order : List Nat} (h : s.assignSpeciesOrder order = .ok s') (envs : List String) :
    s'.space = s.space ∧ s'.state = s.state ∧ s'.chem = s.chem ∧ s'.net.envs = s.net.envs ∧ s'.net.sys = s.net.sys ∧
    (s.assignEnvs envs).net.species = s.net.species ∧ (s.assignEnvs envs).net.envs = envs ∧
    (s.assignEnvs envs).state = s.state ∧ (s.assignEnvs envs).chem = s.chem := by
  unfold System.assignSpeciesOrder at h
  split at h
  · cases h
  · cases h; simp [System.assignEnvs]

example : stateIndex 4 1 2 = 6 ∧ stateIndex 4 0 3 = 3 := by decide

end Strengths.C13
