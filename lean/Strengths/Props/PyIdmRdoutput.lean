/-
Idiom inventory of src/strengths/rdoutput.py (generated: `Gen.PyIdioms.inv_rdoutput`, regenerated from the source on every run).
-/
import Strengths.Model.PyIdioms

namespace Strengths.PyIdioms
open Strengths.Gen.PyIdioms

/-- `rdoutput.py` keeps value semantics: no identity comparison except with `None`, no substring test on a literal, no
`assert`, no `and`/`or` selecting a value, no `*d.values()` (the model compares by value, handles absence through `Option`,
and reads dictionaries by key) -/
theorem rdoutput_value_semantic : valueSemantic inv_rdoutput = true := by decide +kernel

/-- `rdoutput.py` never aliases an array on purpose: no `np.asarray`, `np.frombuffer`, `.view(…)`, `memoryview` — what a function
returns is a fresh object (the model's values are immutable; this is the source fact that lets mutation of a returned
object be ignored) -/
theorem rdoutput_no_views : views_rdoutput = [] := by decide +kernel

/-- a trajectory owns its data: `RDTrajectory.__init__` copies the data array, the sample times, the system and the script, each on its own (so `out.system` and `out.script.system` are different objects and none of them is the engine's or the caller's) -/
theorem rdoutput_copies :
    copies_rdoutput =
      [("RDTrajectory.__init__", "data.copy()"), ("RDTrajectory.__init__", "t_sample.copy()"), ("RDTrajectory.__init__", "system.copy()"), ("RDTrajectory.__init__", "script.copy()")] := by
  decide +kernel

end Strengths.PyIdioms
