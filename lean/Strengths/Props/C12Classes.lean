/-
C12, part 3: class-level round trips through the generic reader / writer, for every class.

For every class X:   X_from_dict (X_to_dict x)  =  ok (x with every quantity re-read from its own text)   (`…_roundtrip`)
and                   X_to_dict of that          =  X_to_dict x                                               (`…_reserialise`)
for ALL well-formed objects (valid units systems at every level, heterogeneous or not).  What "re-read from its
text" preserves is `quantity_physical` / `array_physical`: value, dimension, SI value and printed text.
The `Printable` hypothesis of part 2 is discharged here from C18's print→parse law (`printable_of_valid`).
-/
import Strengths.Props.C12
import Strengths.Proofs.DictPrintable
import Strengths.Proofs.DictAlias

namespace Strengths.C12
open Strengths Strengths.Gen Strengths.Dict

/-! ## what re-reading preserves -/

/-- a quantity over a valid units system, re-read from its printed text: same number, dimension, SI value, text -/
theorem quantity_physical (x : UVal) (hv : x.u.sys.valid = true) :
    (reparse x).v = x.v ∧ (reparse x).u.dim = x.u.dim ∧ (reparse x).si = x.si ∧ writeQty (reparse x) = writeQty x :=
  reparse_physical (printable_of_valid x.u hv)

theorem array_physical (x : UArr) (hv : x.u.sys.valid = true) :
    (reparseArr x).vs = x.vs ∧ (reparseArr x).u.dim = x.u.dim ∧ (reparseArr x).si = x.si ∧
      writeUArr (reparseArr x) = writeUArr x :=
  reparseArr_physical (printable_of_valid x.u hv)

/-- well-formed value of a scalar-or-per-environment quantity property (what the setters of the package produce):
dimension `dim`, valid units systems, environment keys distinct, without commas / outer blanks, not "units"/"value" -/
def QtyEnvWF {χ} (dim : Dim) (v : Val χ) : Prop :=
  (∃ x, v = .qty x ∧ x.u.sys.valid = true ∧ x.u.dim = dim) ∨
  (∃ m, v = .envQty m ∧ EnvKeysOK (m.map (·.1)) ∧ (∀ p ∈ m, p.1 ≠ "units" ∧ p.1 ≠ "value") ∧
    ∀ p ∈ m, p.2.u.sys.valid = true ∧ p.2.u.dim = dim)

theorem QtyEnvWF.ok {χ} {dim : Dim} {v : Val χ} (h : QtyEnvWF dim v) : QtyEnvOK dim v := by
  rcases h with ⟨x, rfl, hv, hd⟩ | ⟨m, rfl, hk, hne, hq⟩
  · exact .inl ⟨x, rfl, printable_of_valid _ hv, hd⟩
  · exact .inr ⟨m, rfl, hk, hne, fun p hp => ⟨printable_of_valid _ (hq p hp).1, (hq p hp).2⟩⟩

/-- writing a re-read value gives the same JSON -/
theorem writeVal_reparse {χ} (wc : χ → Json) (dim : Dim) (v : Val χ) (h : QtyEnvWF dim v) :
    writeVal wc (reparseVal v) = writeVal wc v := by
  rcases h with ⟨x, rfl, hv, _⟩ | ⟨m, rfl, _, _, hq⟩
  · exact (quantity_physical x hv).2.2.2
  · show Json.obj _ = Json.obj _
    congr 1
    rw [List.map_map]
    apply List.map_congr_left
    intro p hp
    simp only [Function.comp]
    rw [(quantity_physical p.2 (hq p hp).1).2.2.2]

/-- label: `None` or a string without blanks and `+` -/
def LabelWF {χ} (v : Val χ) : Prop := v = .none ∨ ∃ l, v = .str l ∧ validLabel l = true

theorem readKind_label {χ} (c : Ctx χ) (d : KV) (wc : χ → Json) (v : Val χ) (h : LabelWF v) :
    readKind c d .label (writeVal wc v) = .ok v := by
  rcases h with rfl | ⟨l, rfl, hl⟩
  · exact readKind_label_none c d wc
  · exact readKind_label_str c d wc l hl

/-! ## reaction -/

def reactionObj (us : Sys) (l : Val Empty) (s p : List (String × Int)) (vkf vkr : Val Empty) : L0 :=
  [("units_system", .sys us), ("label", l), ("stoichiometry", .stoich s p), ("kf", vkf), ("kr", vkr)]

theorem reactionFields_eq : reactionFields =
    [⟨"label", "label", .label, some .null⟩, ⟨"stoichiometry", "stoichiometry", .stoich, none⟩,
     ⟨"k+", "kf", .qtyEnv .kf, some (.num 0)⟩, ⟨"k-", "kr", .qtyEnv .kr, some (.num 0)⟩] := by
  rfl

/-- `reaction_from_dict(reaction_to_dict(r), parent)`: the rate constants must have the dimension of their side's
total order (`kf_units_dimensions` / `kr_units_dimensions`), for every stoichiometry (empty sides, repeated species …) -/
theorem reaction_roundtrip (parent us : Sys) (l : Val Empty) (s p : List (String × Int)) (vkf vkr : Val Empty)
    (hus : us.valid = true) (hl : LabelWF l) (hf : QtyEnvWF (kDim (sidesOrder s)) vkf) (hr : QtyEnvWF (kDim (sidesOrder p)) vkr) :
    reactionFromDict parent (reactionToDict (reactionObj us l s p vkf vkr)) =
      .ok (reactionObj us l (nz s) (nz p) (reparseVal vkf) (reparseVal vkr)) := by
  unfold reactionFromDict reactionToDict
  rw [reactionFields_eq]
  let g : Field → Val Empty := fun f =>
    if f.param == "label" then l else if f.param == "stoichiometry" then .stoich (nz s) (nz p)
    else if f.param == "kf" then reparseVal vkf else reparseVal vkr
  have := generic_roundtrip DictKeys.reaction
    [⟨"label", "label", .label, some .null⟩, ⟨"stoichiometry", "stoichiometry", .stoich, none⟩,
     ⟨"k+", "kf", .qtyEnv .kf, some (.num 0)⟩, ⟨"k-", "kr", .qtyEnv .kr, some (.num 0)⟩]
    [] none parent none (fun _ => none) noChild noWrite (reactionObj us l s p vkf vkr) g
    ["units", "label", "stoichiometry", "k+", "k-"] rfl (by decide +kernel) (by decide +kernel) (by decide +kernel)
    (readUnits_write parent _ us hus) (by
      intro f hfm
      simp only [List.mem_cons, List.not_mem_nil, or_false] at hfm
      rcases hfm with rfl | rfl | rfl | rfl
      · exact readKind_label _ _ noWrite l hl
      · exact readKind_stoich _ _ noWrite s p
      · refine readKind_qtyEnv_write' _ _ .kf _ noWrite vkf ?_ hf.ok
        show Except.ok (kDim (sidesOrder (nz s))) = _
        rw [sidesOrder_nz]
      · refine readKind_qtyEnv_write' _ _ .kr _ noWrite vkr ?_ hr.ok
        show Except.ok (kDim (sidesOrder (nz p))) = _
        rw [sidesOrder_nz])
  rw [this]
  rfl

theorem reaction_reserialise (us : Sys) (l : Val Empty) (s p : List (String × Int)) (vkf vkr : Val Empty)
    (hf : QtyEnvWF (kDim (sidesOrder s)) vkf) (hr : QtyEnvWF (kDim (sidesOrder p)) vkr) :
    reactionToDict (reactionObj us l (nz s) (nz p) (reparseVal vkf) (reparseVal vkr)) = reactionToDict (reactionObj us l s p vkf vkr) := by
  unfold reactionToDict
  rw [reactionFields_eq]
  refine toDictG_congr _ _ _ _ _ _ ?_ ?_
  · rfl
  intro f hfm
  simp only [List.mem_cons, List.not_mem_nil, or_false] at hfm
  rcases hfm with rfl | rfl | rfl | rfl
  · rfl
  · show Json.eqn (nz (nz s)) (nz (nz p)) = Json.eqn (nz s) (nz p)
    rw [nz_nz, nz_nz]
  · exact writeVal_reparse noWrite _ vkf hf
  · exact writeVal_reparse noWrite _ vkr hr

/-! ## species (scalar or per-environment D / density; Boolean or per-environment chstt), node, edge -/

abbrev rp0 : L0 → L0 := reparseObj (fun e => e)

def speciesObj' (us : Sys) (l : String) (vD vρ vc : Val Empty) : L0 :=
  [("units_system", .sys us), ("label", .str l), ("D", vD), ("density", vρ), ("chstt", vc)]

def ChsttWF {χ} (v : Val χ) : Prop := (∃ b, v = .bool b) ∨ ∃ kv, v = .raw (.obj kv)

def SpeciesWF (c : L0) : Prop :=
  ∃ us l vD vρ vc, c = speciesObj' us l vD vρ vc ∧ us.valid = true ∧ validLabel l = true ∧
    QtyEnvWF Dim.diffusion vD ∧ QtyEnvWF Dim.density vρ ∧ ChsttWF vc

theorem reparseVal_qtyEnv {χ} {dim : Dim} {v : Val χ} (r : χ → χ) (h : QtyEnvWF dim v) : reparseValWith r v = reparseVal v := by
  rcases h with ⟨x, rfl, _⟩ | ⟨m, rfl, _⟩ <;> rfl

theorem species_roundtrip_wf (parent : Sys) (c : L0) (h : SpeciesWF c) :
    speciesFromDict parent (speciesToDict c) = .ok (rp0 c) := by
  obtain ⟨us, l, vD, vρ, vc, rfl, hus, hl, hD, hρ, hc⟩ := h
  unfold speciesFromDict speciesToDict
  rw [speciesFields_eq]
  let g : Field → Val Empty := fun f =>
    if f.param == "label" then .str l else if f.param == "D" then reparseVal vD
    else if f.param == "density" then reparseVal vρ else vc
  have := generic_roundtrip DictKeys.species
    [⟨"label", "label", .label, none⟩, ⟨"D", "D", .qtyEnv (.fixed Dim.diffusion), some (.num 0)⟩,
     ⟨"density", "density", .qtyEnv (.fixed Dim.density), some (.num 0)⟩, ⟨"chstt", "chstt", .boolEnv, some (.bool false)⟩]
    [] none parent none (fun _ => none) noChild noWrite (speciesObj' us l vD vρ vc) g
    ["units", "label", "D", "density", "chstt"] rfl (by decide +kernel) (by decide +kernel) (by decide +kernel)
    (readUnits_write parent _ us hus) (by
      intro f hfm
      simp only [List.mem_cons, List.not_mem_nil, or_false] at hfm
      rcases hfm with rfl | rfl | rfl | rfl
      · exact readKind_label_str _ _ noWrite l hl
      · exact readKind_qtyEnv_write _ _ _ noWrite vD hD.ok
      · exact readKind_qtyEnv_write _ _ _ noWrite vρ hρ.ok
      · rcases hc with ⟨b, rfl⟩ | ⟨kv, rfl⟩
        · exact readKind_boolEnv_bool _ _ noWrite b
        · exact readKind_boolEnv_raw _ _ noWrite kv)
  rw [this]
  have e1 := reparseVal_qtyEnv (fun e : Empty => e) hD
  have e2 := reparseVal_qtyEnv (fun e : Empty => e) hρ
  rcases hc with ⟨b, rfl⟩ | ⟨kv, rfl⟩ <;>
    simp only [rp0, reparseObj, speciesObj', List.map_cons, List.map_nil, e1, e2] <;> rfl

theorem species_reserialise_wf (c : L0) (h : SpeciesWF c) : speciesToDict (rp0 c) = speciesToDict c := by
  obtain ⟨us, l, vD, vρ, vc, rfl, _, _, hD, hρ, hc⟩ := h
  unfold speciesToDict
  rw [speciesFields_eq]
  refine toDictG_congr _ _ _ _ _ _ ?_ ?_
  · rfl
  intro f hfm
  simp only [List.mem_cons, List.not_mem_nil, or_false] at hfm
  have e1 := reparseVal_qtyEnv (fun e : Empty => e) hD
  have e2 := reparseVal_qtyEnv (fun e : Empty => e) hρ
  rcases hfm with rfl | rfl | rfl | rfl
  · rfl
  · show writeVal noWrite (reparseValWith _ vD) = _
    rw [e1]; exact writeVal_reparse noWrite _ vD hD
  · show writeVal noWrite (reparseValWith _ vρ) = _
    rw [e2]; exact writeVal_reparse noWrite _ vρ hρ
  · rcases hc with ⟨b, rfl⟩ | ⟨kv, rfl⟩ <;> rfl

def ReactionWF (c : L0) : Prop :=
  ∃ us l s p vkf vkr, c = reactionObj us l s p vkf vkr ∧ us.valid = true ∧ LabelWF l ∧
    QtyEnvWF (kDim (sidesOrder s)) vkf ∧ QtyEnvWF (kDim (sidesOrder p)) vkr

theorem reaction_roundtrip_wf (parent : Sys) (c : L0) (h : ReactionWF c) :
    reactionFromDict parent (reactionToDict c) = .ok (rp0 c) := by
  obtain ⟨us, l, s, p, vkf, vkr, rfl, hus, hl, hf, hr⟩ := h
  rw [reaction_roundtrip parent us l s p vkf vkr hus hl hf hr]
  have e1 := reparseVal_qtyEnv (fun e : Empty => e) hf
  have e2 := reparseVal_qtyEnv (fun e : Empty => e) hr
  rcases hl with rfl | ⟨l', rfl, _⟩ <;>
    simp only [rp0, reparseObj, reactionObj, List.map_cons, List.map_nil, e1, e2] <;> rfl

theorem reaction_reserialise_wf (c : L0) (h : ReactionWF c) : reactionToDict (rp0 c) = reactionToDict c := by
  obtain ⟨us, l, s, p, vkf, vkr, rfl, _, hl, hf, hr⟩ := h
  have e1 := reparseVal_qtyEnv (fun e : Empty => e) hf
  have e2 := reparseVal_qtyEnv (fun e : Empty => e) hr
  have : rp0 (reactionObj us l s p vkf vkr) = reactionObj us l (nz s) (nz p) (reparseVal vkf) (reparseVal vkr) := by
    rcases hl with rfl | ⟨l', rfl, _⟩ <;>
      simp only [rp0, reparseObj, reactionObj, List.map_cons, List.map_nil, e1, e2] <;> rfl
  rw [this]
  exact reaction_reserialise us l s p vkf vkr hf hr

/-! ## graph nodes and edges: `units` is written only when it differs from the graph's -/

def nodeObj (us : Sys) (vol : UVal) (env : Int) : L0 :=
  [("units_system", .sys us), ("volume", .qty vol), ("environment", .int env)]

def NodeWF (c : L0) : Prop :=
  ∃ us vol env, c = nodeObj us vol env ∧ us.valid = true ∧ vol.u.sys.valid = true ∧ vol.u.dim = Dim.volume

theorem nodeFields_eq : nodeFields =
    [⟨"volume", "volume", .qty Dim.volume, some (.num 1)⟩, ⟨"environment", "environment", .int, some (.num 0)⟩] := by rfl

/-- a node with its own units system or with the graph's (then `units` is omitted and inherited back) -/
theorem node_roundtrip (parent : Sys) (c : L0) (h : NodeWF c) :
    nodeFromDict parent (nodeToDict parent c) = .ok (rp0 c) := by
  obtain ⟨us, vol, env, rfl, hus, hv, hd⟩ := h
  unfold nodeFromDict nodeToDict
  rw [nodeFields_eq]
  let g : Field → Val Empty := fun f => if f.param == "volume" then .qty (reparse vol) else .int env
  have hfields : ∀ (d : KV) f, f ∈ ([⟨"volume", "volume", .qty Dim.volume, some (.num 1)⟩,
      ⟨"environment", "environment", .int, some (.num 0)⟩] : List Field) →
      readKind (⟨us, none, fun _ => none, noChild⟩ : Ctx Empty) d f.kind
        (writeVal noWrite (((nodeObj us vol env).lookup f.param).getD .none)) = .ok (g f) := by
    intro d f hfm
    simp only [List.mem_cons, List.not_mem_nil, or_false] at hfm
    rcases hfm with rfl | rfl
    · exact readKind_qty_write _ _ _ noWrite vol (printable_of_valid _ hv) hd
    · exact readKind_int _ _ noWrite env
  by_cases hp : parent = us
  · subst hp
    have := generic_roundtrip DictKeys.node _ [] (some parent) parent none (fun _ => none) noChild noWrite
      (nodeObj parent vol env) g ["volume", "environment"]
      (by simp [writtenKV, nodeObj, objSys]) (by decide +kernel) (by decide +kernel) (by decide +kernel)
      (by simp [writtenKV, nodeObj, objSys, List.lookup, readUnits]; rfl) (hfields _)
    rw [this]; rfl
  · have hne : (some parent == some us) = false := by simpa using hp
    have := generic_roundtrip DictKeys.node _ [] (some parent) parent none (fun _ => none) noChild noWrite
      (nodeObj us vol env) g ["units", "volume", "environment"]
      (by simp [writtenKV, nodeObj, objSys, hne]) (by decide +kernel) (by decide +kernel) (by decide +kernel)
      (by
        have : (writtenKV ([⟨"volume", "volume", .qty Dim.volume, some (.num 1)⟩,
          ⟨"environment", "environment", .int, some (.num 0)⟩] : List Field) [] (some parent) noWrite (nodeObj us vol env)).lookup "units"
            = some (sysToJson us) := by simp [writtenKV, nodeObj, objSys, hne, List.lookup]
        rw [this]; exact readUnits_write parent _ us hus) (hfields _)
    rw [this]; rfl

theorem node_reserialise (parent : Sys) (c : L0) (h : NodeWF c) : nodeToDict parent (rp0 c) = nodeToDict parent c := by
  obtain ⟨us, vol, env, rfl, _, hv, _⟩ := h
  unfold nodeToDict
  rw [nodeFields_eq]
  refine toDictG_reparse _ _ _ _ _ _ ?_
  intro f hfm
  simp only [List.mem_cons, List.not_mem_nil, or_false] at hfm
  rcases hfm with rfl | rfl
  · exact (quantity_physical vol hv).2.2.2
  · rfl

def edgeObj (us : Sys) (i j : Int) (surf dist : UVal) : L0 :=
  [("units_system", .sys us), ("i", .ints [i, j]), ("surface", .qty surf), ("distance", .qty dist)]

def EdgeWF (c : L0) : Prop :=
  ∃ us i j surf dist, c = edgeObj us i j surf dist ∧ us.valid = true ∧ surf.u.sys.valid = true ∧ surf.u.dim = Dim.surface ∧
    dist.u.sys.valid = true ∧ dist.u.dim = Dim.length

theorem edgeFields_eq : edgeFields =
    [⟨"nodes", "i", .intPair, none⟩, ⟨"surface", "surface", .qty Dim.surface, some (.num 1)⟩,
     ⟨"distance", "distance", .qty Dim.length, some (.num 1)⟩] := by rfl

/-- an edge with its own units system (seeded fix10 / independent mutation m2) or with the graph's -/
theorem edge_roundtrip (parent : Sys) (c : L0) (h : EdgeWF c) :
    edgeFromDict parent (edgeToDict parent c) = .ok (rp0 c) := by
  obtain ⟨us, i, j, surf, dist, rfl, hus, hs, hsd, hdv, hdd⟩ := h
  unfold edgeFromDict edgeToDict
  rw [edgeFields_eq]
  let g : Field → Val Empty := fun f =>
    if f.param == "i" then .ints [i, j] else if f.param == "surface" then .qty (reparse surf) else .qty (reparse dist)
  have hfields : ∀ (d : KV) f, f ∈ ([⟨"nodes", "i", .intPair, none⟩, ⟨"surface", "surface", .qty Dim.surface, some (.num 1)⟩,
      ⟨"distance", "distance", .qty Dim.length, some (.num 1)⟩] : List Field) →
      readKind (⟨us, none, fun _ => none, noChild⟩ : Ctx Empty) d f.kind
        (writeVal noWrite (((edgeObj us i j surf dist).lookup f.param).getD .none)) = .ok (g f) := by
    intro d f hfm
    simp only [List.mem_cons, List.not_mem_nil, or_false] at hfm
    rcases hfm with rfl | rfl | rfl
    · exact readKind_intPair _ _ noWrite i j
    · exact readKind_qty_write _ _ _ noWrite surf (printable_of_valid _ hs) hsd
    · exact readKind_qty_write _ _ _ noWrite dist (printable_of_valid _ hdv) hdd
  by_cases hp : parent = us
  · subst hp
    have := generic_roundtrip DictKeys.edge _ [] (some parent) parent none (fun _ => none) noChild noWrite
      (edgeObj parent i j surf dist) g ["nodes", "surface", "distance"]
      (by simp [writtenKV, edgeObj, objSys]) (by decide +kernel) (by decide +kernel) (by decide +kernel)
      (by simp [writtenKV, edgeObj, objSys, List.lookup, readUnits]; rfl) (hfields _)
    rw [this]; rfl
  · have hne : (some parent == some us) = false := by simpa using hp
    have := generic_roundtrip DictKeys.edge _ [] (some parent) parent none (fun _ => none) noChild noWrite
      (edgeObj us i j surf dist) g ["units", "nodes", "surface", "distance"]
      (by simp [writtenKV, edgeObj, objSys, hne]) (by decide +kernel) (by decide +kernel) (by decide +kernel)
      (by
        have : (writtenKV ([⟨"nodes", "i", .intPair, none⟩, ⟨"surface", "surface", .qty Dim.surface, some (.num 1)⟩,
          ⟨"distance", "distance", .qty Dim.length, some (.num 1)⟩] : List Field) [] (some parent) noWrite
            (edgeObj us i j surf dist)).lookup "units" = some (sysToJson us) := by
          simp [writtenKV, edgeObj, objSys, hne, List.lookup]
        rw [this]; exact readUnits_write parent _ us hus) (hfields _)
    rw [this]; rfl

theorem edge_reserialise (parent : Sys) (c : L0) (h : EdgeWF c) : edgeToDict parent (rp0 c) = edgeToDict parent c := by
  obtain ⟨us, i, j, surf, dist, rfl, _, hs, _, hdv, _⟩ := h
  unfold edgeToDict
  rw [edgeFields_eq]
  refine toDictG_reparse _ _ _ _ _ _ ?_
  intro f hfm
  simp only [List.mem_cons, List.not_mem_nil, or_false] at hfm
  rcases hfm with rfl | rfl | rfl
  · rfl
  · exact (quantity_physical surf hs).2.2.2
  · exact (quantity_physical dist hdv).2.2.2

/-! ## network: species and reactions with their own units systems, environments, label validity -/

abbrev rp1 : L1 → L1 := reparseObj rp0

def networkObj (us : Sys) (sp rs : List L0) (envs : List String) : L1 :=
  [("units_system", .sys us), ("species", .children sp), ("reactions", .children rs), ("environments", .strs envs)]

theorem networkFields_eq : networkFields =
    [⟨"species", "species", .children "species", none⟩, ⟨"reactions", "reactions", .children "reaction", some (.arr [])⟩,
     ⟨"environments", "environments", .strList, some (.arr [.str ""])⟩] := by rfl

def NetworkWF (o : L1) : Prop :=
  ∃ us sp rs envs, o = networkObj us sp rs envs ∧ us.valid = true ∧ (∀ c ∈ sp, SpeciesWF c) ∧ (∀ c ∈ rs, ReactionWF c) ∧
    envs ≠ [] ∧ (∀ e ∈ envs, (e == "default") = false) ∧
    networkValid (sp.map labelOf) (rs.map labelOf) (rs.flatMap sidesOf) = true

theorem writeL0_species (us : Sys) (c : L0) (h : SpeciesWF c) : writeL0 us c = speciesToDict c := by
  obtain ⟨_, _, _, _, _, rfl, _⟩ := h; rfl

theorem writeL0_reaction (us : Sys) (c : L0) (h : ReactionWF c) : writeL0 us c = reactionToDict c := by
  obtain ⟨_, _, _, _, _, _, rfl, _⟩ := h; rfl

theorem level0Child_species (us : Sys) (b : Option String) (j : Json) : level0Child "species" us b j = speciesFromDict us j := rfl
theorem level0Child_reaction (us : Sys) (b : Option String) (j : Json) : level0Child "reaction" us b j = reactionFromDict us j := rfl
theorem level0Child_node (us : Sys) (b : Option String) (j : Json) : level0Child "node" us b j = nodeFromDict us j := rfl
theorem level0Child_edge (us : Sys) (b : Option String) (j : Json) : level0Child "edge" us b j = edgeFromDict us j := rfl

/-- `rdnetwork_from_dict(rdnetwork_to_dict(n))`: every species / reaction keeps its own units system, its
per-environment dictionaries, labels and stoichiometry; quantities are re-read from their text -/
theorem network_roundtrip (parent : Sys) (base : Option String) (fs : FS) (o : L1) (h : NetworkWF o) :
    networkFromDict parent base fs (networkToDict o) = .ok (rp1 o) := by
  obtain ⟨us, sp, rs, envs, rfl, hus, hsp, hrs, hne, hdef, hval⟩ := h
  unfold networkFromDict networkToDict
  rw [networkFields_eq]
  have hsys : objSys (networkObj us sp rs envs) = us := rfl
  rw [hsys]
  let g : Field → Val L0 := fun f =>
    if f.param == "species" then .children (sp.map rp0) else if f.param == "reactions" then .children (rs.map rp0) else .strs envs
  have := generic_roundtrip DictKeys.network
    [⟨"species", "species", .children "species", none⟩, ⟨"reactions", "reactions", .children "reaction", some (.arr [])⟩,
     ⟨"environments", "environments", .strList, some (.arr [.str ""])⟩]
    [] none parent base fs level0Child (writeL0 us) (networkObj us sp rs envs) g
    ["units", "species", "reactions", "environments"] rfl (by decide +kernel) (by decide +kernel) (by decide +kernel)
    (readUnits_write parent _ us hus) (by
      intro f hfm
      simp only [List.mem_cons, List.not_mem_nil, or_false] at hfm
      rcases hfm with rfl | rfl | rfl
      · refine readKind_children _ _ (writeL0 us) "species" sp rp0 ?_
        intro c hc
        show level0Child "species" us base (writeL0 us c) = _
        rw [writeL0_species us c (hsp c hc), level0Child_species]
        exact species_roundtrip_wf us c (hsp c hc)
      · refine readKind_children _ _ (writeL0 us) "reaction" rs rp0 ?_
        intro c hc
        show level0Child "reaction" us base (writeL0 us c) = _
        rw [writeL0_reaction us c (hrs c hc), level0Child_reaction]
        exact reaction_roundtrip_wf us c (hrs c hc)
      · exact readKind_strList _ _ (writeL0 us) envs hne hdef)
  rw [this]
  have hl : ∀ l : List L0, (l.map rp0).map labelOf = l.map labelOf := by
    intro l; rw [List.map_map]; apply List.map_congr_left; intro c _; exact labelOf_reparseObj _ c
  have hval' : networkValid (sp.map labelOf) (rs.map labelOf) ((rs.map rp0).flatMap sidesOf) = true := by
    unfold networkValid at hval ⊢
    simp only [Bool.and_eq_true] at hval ⊢
    refine ⟨hval.1, ?_⟩
    apply List.all_eq_true.2
    intro x hx
    obtain ⟨c', hc', hxc⟩ := List.mem_flatMap.1 hx
    obtain ⟨c, hc, rfl⟩ := List.mem_map.1 hc'
    exact List.all_eq_true.1 hval.2 x (List.mem_flatMap.2 ⟨c, hc, sidesOf_reparseObj _ c x hxc⟩)
  show (if networkValid ((sp.map rp0).map labelOf) ((rs.map rp0).map labelOf) ((rs.map rp0).flatMap sidesOf) then _ else _) = _
  rw [hl, hl, hval']
  rfl

theorem network_reserialise (o : L1) (h : NetworkWF o) : networkToDict (rp1 o) = networkToDict o := by
  obtain ⟨us, sp, rs, envs, rfl, _, hsp, hrs, _, _, _⟩ := h
  unfold networkToDict
  rw [networkFields_eq, objSys_reparseObj]
  have hsys : objSys (networkObj us sp rs envs) = us := rfl
  rw [hsys]
  refine toDictG_reparse _ _ _ _ _ _ ?_
  intro f hfm
  simp only [List.mem_cons, List.not_mem_nil, or_false] at hfm
  rcases hfm with rfl | rfl | rfl
  · show Json.arr _ = Json.arr _
    congr 1
    rw [List.map_map]
    apply List.map_congr_left
    intro c hc
    simp only [Function.comp]
    have hw : SpeciesWF (rp0 c) → writeL0 us (rp0 c) = speciesToDict (rp0 c) := writeL0_species us _
    obtain ⟨us', l, vD, vρ, vc, rfl, hus', hl, hD, hρ, hvc⟩ := hsp c hc
    have e : writeL0 us (rp0 (speciesObj' us' l vD vρ vc)) = speciesToDict (rp0 (speciesObj' us' l vD vρ vc)) := by
      rcases hvc with ⟨b, rfl⟩ | ⟨kv, rfl⟩ <;> rfl
    rw [e, species_reserialise_wf _ ⟨us', l, vD, vρ, vc, rfl, hus', hl, hD, hρ, hvc⟩]
    rfl
  · show Json.arr _ = Json.arr _
    congr 1
    rw [List.map_map]
    apply List.map_congr_left
    intro c hc
    simp only [Function.comp]
    obtain ⟨us', l, s, p, vkf, vkr, rfl, hus', hl, hf, hr⟩ := hrs c hc
    have e : writeL0 us (rp0 (reactionObj us' l s p vkf vkr)) = reactionToDict (rp0 (reactionObj us' l s p vkf vkr)) := rfl
    rw [e, reaction_reserialise_wf _ ⟨us', l, s, p, vkf, vkr, rfl, hus', hl, hf, hr⟩]
    rfl
  · rfl

/-! ## spaces: grid and graph (dispatch on "type") -/

theorem spaceFromDict_grid (parent : Sys) (base : Option String) (fs : FS) (kv : KV)
    (h : kv.lookup "type" = some (.str "grid")) :
    spaceFromDict parent base fs (.obj kv) =
      (gridFromDict parent base fs (.obj kv)).map fun o => ("type", .str "grid") :: o := by
  simp [spaceFromDict, h]

theorem spaceFromDict_graph (parent : Sys) (base : Option String) (fs : FS) (kv : KV)
    (h : kv.lookup "type" = some (.str "graph")) :
    spaceFromDict parent base fs (.obj kv) =
      (graphFromDict parent base fs (.obj kv)).map fun o => ("type", .str "graph") :: o := by
  have : ¬ ("graph" = "grid") := by decide
  simp [spaceFromDict, h, this]

def gridObj (us : Sys) (w h d : Int) (envs : List Int) (vol : UVal) (a b z : String) : L1 :=
  [("type", .str "grid"), ("units_system", .sys us), ("w", .int w), ("h", .int h), ("d", .int d), ("cell_env", .ints envs),
   ("cell_vol", .qty vol), ("boundary_conditions", .raw (.obj [("x", .str a), ("y", .str b), ("z", .str z)]))]

def GridWF (o : L1) : Prop :=
  ∃ us w h d envs vol a b z, o = gridObj us w h d envs vol a b z ∧ us.valid = true ∧ 0 < w ∧ 0 < h ∧ 0 < d ∧
    envs.length = (w * h * d).toNat ∧ vol.u.sys.valid = true ∧ vol.u.dim = Dim.volume ∧
    DictKeys.bcValues.contains a = true ∧ DictKeys.bcValues.contains b = true ∧ DictKeys.bcValues.contains z = true

theorem gridFields_eq : gridFields =
    [⟨"w", "w", .int, some (.num 1)⟩, ⟨"h", "h", .int, some (.num 1)⟩, ⟨"d", "d", .int, some (.num 1)⟩,
     ⟨"cell_env", "cell_env", .intOrInts, some (.num 0)⟩, ⟨"cell_volume", "cell_vol", .qty Dim.volume, some (.num 1)⟩,
     ⟨"boundary_conditions", "boundary_conditions", .bc, some .null⟩] := by rfl

/-- grid: sizes, environment map, cell volume (own units), all eight boundary-condition combinations -/
theorem grid_roundtrip (parent : Sys) (base : Option String) (fs : FS) (o : L1) (hwf : GridWF o) :
    spaceFromDict parent base fs (spaceToDict o) = .ok (rp1 o) := by
  obtain ⟨us, w, h, d, envs, vol, a, b, z, rfl, hus, hw, hh, hd, hlen, hv, hvd, ha, hb, hz⟩ := hwf
  have hto : spaceToDict (gridObj us w h d envs vol a b z) = gridToDict (gridObj us w h d envs vol a b z) := rfl
  rw [hto]
  unfold gridToDict
  rw [gridFields_eq, toDictG_eq, spaceFromDict_grid _ _ _ _ rfl, ← toDictG_eq]
  unfold gridFromDict
  rw [gridFields_eq]
  let g : Field → Val L0 := fun f =>
    if f.param == "w" then .int w else if f.param == "h" then .int h else if f.param == "d" then .int d
    else if f.param == "cell_env" then .ints envs else if f.param == "cell_vol" then .qty (reparse vol)
    else .raw (.obj [("x", .str a), ("y", .str b), ("z", .str z)])
  have := generic_roundtrip DictKeys.grid
    [⟨"w", "w", .int, some (.num 1)⟩, ⟨"h", "h", .int, some (.num 1)⟩, ⟨"d", "d", .int, some (.num 1)⟩,
     ⟨"cell_env", "cell_env", .intOrInts, some (.num 0)⟩, ⟨"cell_volume", "cell_vol", .qty Dim.volume, some (.num 1)⟩,
     ⟨"boundary_conditions", "boundary_conditions", .bc, some .null⟩]
    [("type", .str "grid")] none parent base fs level0Child (fun _ => Json.null) (gridObj us w h d envs vol a b z) g
    ["type", "units", "w", "h", "d", "cell_env", "cell_volume", "boundary_conditions"] rfl
    (by decide +kernel) (by decide +kernel) (by decide +kernel)
    (readUnits_write parent _ us hus) (by
      intro f hfm
      simp only [List.mem_cons, List.not_mem_nil, or_false] at hfm
      rcases hfm with rfl | rfl | rfl | rfl | rfl | rfl
      · exact readKind_int _ _ _ w
      · exact readKind_int _ _ _ h
      · exact readKind_int _ _ _ d
      · exact readKind_intOrInts _ _ _ envs
      · exact readKind_qty_write _ _ _ _ vol (printable_of_valid _ hv) hvd
      · exact readKind_bc _ _ _ a b z ha hb hz)
  rw [this]
  have hfin : finishGrid ([("units_system", .sys us), ("w", .int w), ("h", .int h), ("d", .int d), ("cell_env", .ints envs),
      ("cell_vol", .qty (reparse vol)), ("boundary_conditions", .raw (.obj [("x", .str a), ("y", .str b), ("z", .str z)]))] : L1) =
      .ok [("units_system", .sys us), ("w", .int w), ("h", .int h), ("d", .int d), ("cell_env", .ints envs),
      ("cell_vol", .qty (reparse vol)), ("boundary_conditions", .raw (.obj [("x", .str a), ("y", .str b), ("z", .str z)]))] := by
    have e1 : ¬ (w ≤ 0) := by omega
    have e2 : ¬ (h ≤ 0) := by omega
    have e3 : ¬ (d ≤ 0) := by omega
    simp [finishGrid, getInt, List.lookup, e1, e2, e3, hlen]
  have hcore : ((("units_system", Val.sys (objSys (gridObj us w h d envs vol a b z))) :: List.map (fun f => (f.param, g f))
      [⟨"w", "w", .int, some (.num 1)⟩, ⟨"h", "h", .int, some (.num 1)⟩, ⟨"d", "d", .int, some (.num 1)⟩,
       ⟨"cell_env", "cell_env", .intOrInts, some (.num 0)⟩, ⟨"cell_volume", "cell_vol", .qty Dim.volume, some (.num 1)⟩,
       ⟨"boundary_conditions", "boundary_conditions", .bc, some .null⟩]) : L1) =
      [("units_system", .sys us), ("w", .int w), ("h", .int h), ("d", .int d), ("cell_env", .ints envs),
       ("cell_vol", .qty (reparse vol)), ("boundary_conditions", .raw (.obj [("x", .str a), ("y", .str b), ("z", .str z)]))] := rfl
  show Except.map _ (finishGrid _) = _
  rw [hcore, hfin]
  rfl

theorem grid_reserialise (o : L1) (hwf : GridWF o) : spaceToDict (rp1 o) = spaceToDict o := by
  obtain ⟨us, w, h, d, envs, vol, a, b, z, rfl, _, _, _, _, _, hv, _, _, _, _⟩ := hwf
  have h1 : spaceToDict (rp1 (gridObj us w h d envs vol a b z)) = gridToDict (rp1 (gridObj us w h d envs vol a b z)) := rfl
  have h2 : spaceToDict (gridObj us w h d envs vol a b z) = gridToDict (gridObj us w h d envs vol a b z) := rfl
  rw [h1, h2]
  unfold gridToDict
  rw [gridFields_eq]
  refine toDictG_reparse _ _ _ _ _ _ ?_
  intro f hfm
  simp only [List.mem_cons, List.not_mem_nil, or_false] at hfm
  rcases hfm with rfl | rfl | rfl | rfl | rfl | rfl
  · rfl
  · rfl
  · rfl
  · rfl
  · exact (quantity_physical vol hv).2.2.2
  · rfl

/-! ### graph: nodes and edges with their own units systems or the graph's -/

def graphObj (us : Sys) (nodes edges : List L0) : L1 :=
  [("type", .str "graph"), ("units_system", .sys us), ("nodes", .children nodes), ("edges", .children edges)]

def GraphWF (o : L1) : Prop :=
  ∃ us nodes edges, o = graphObj us nodes edges ∧ us.valid = true ∧ (∀ c ∈ nodes, NodeWF c) ∧ (∀ c ∈ edges, EdgeWF c)

theorem graphFields_eq : graphFields =
    [⟨"nodes", "nodes", .children "node", none⟩, ⟨"edges", "edges", .children "edge", none⟩] := by rfl

theorem writeL0_node (us : Sys) (c : L0) (h : NodeWF c) : writeL0 us c = nodeToDict us c := by
  obtain ⟨_, _, _, rfl, _⟩ := h; rfl

theorem writeL0_edge (us : Sys) (c : L0) (h : EdgeWF c) : writeL0 us c = edgeToDict us c := by
  obtain ⟨_, _, _, _, _, rfl, _⟩ := h; rfl

theorem graph_roundtrip (parent : Sys) (base : Option String) (fs : FS) (o : L1) (hwf : GraphWF o) :
    spaceFromDict parent base fs (spaceToDict o) = .ok (rp1 o) := by
  obtain ⟨us, nodes, edges, rfl, hus, hn, he⟩ := hwf
  have hto : spaceToDict (graphObj us nodes edges) = graphToDict (graphObj us nodes edges) := rfl
  rw [hto]
  unfold graphToDict
  have hsys : objSys (graphObj us nodes edges) = us := rfl
  rw [graphFields_eq, hsys, toDictG_eq, spaceFromDict_graph _ _ _ _ rfl, ← toDictG_eq]
  unfold graphFromDict
  rw [graphFields_eq]
  let g : Field → Val L0 := fun f =>
    if f.param == "nodes" then .children (nodes.map rp0) else .children (edges.map rp0)
  have := generic_roundtrip DictKeys.graph
    [⟨"nodes", "nodes", .children "node", none⟩, ⟨"edges", "edges", .children "edge", none⟩]
    [("type", .str "graph")] none parent base fs level0Child (writeL0 us) (graphObj us nodes edges) g
    ["type", "units", "nodes", "edges"] rfl (by decide +kernel) (by decide +kernel) (by decide +kernel)
    (readUnits_write parent _ us hus) (by
      intro f hfm
      simp only [List.mem_cons, List.not_mem_nil, or_false] at hfm
      rcases hfm with rfl | rfl
      · refine readKind_children _ _ (writeL0 us) "node" nodes rp0 ?_
        intro c hc
        show level0Child "node" us base (writeL0 us c) = _
        rw [writeL0_node us c (hn c hc), level0Child_node]
        exact node_roundtrip us c (hn c hc)
      · refine readKind_children _ _ (writeL0 us) "edge" edges rp0 ?_
        intro c hc
        show level0Child "edge" us base (writeL0 us c) = _
        rw [writeL0_edge us c (he c hc), level0Child_edge]
        exact edge_roundtrip us c (he c hc))
  rw [this]
  rfl

theorem graph_reserialise (o : L1) (hwf : GraphWF o) : spaceToDict (rp1 o) = spaceToDict o := by
  obtain ⟨us, nodes, edges, rfl, _, hn, he⟩ := hwf
  have h1 : spaceToDict (rp1 (graphObj us nodes edges)) = graphToDict (rp1 (graphObj us nodes edges)) := rfl
  have h2 : spaceToDict (graphObj us nodes edges) = graphToDict (graphObj us nodes edges) := rfl
  rw [h1, h2]
  unfold graphToDict
  rw [graphFields_eq, objSys_reparseObj]
  have hsys : objSys (graphObj us nodes edges) = us := rfl
  rw [hsys]
  refine toDictG_reparse _ _ _ _ _ _ ?_
  intro f hfm
  simp only [List.mem_cons, List.not_mem_nil, or_false] at hfm
  rcases hfm with rfl | rfl
  · show Json.arr _ = Json.arr _
    congr 1
    rw [List.map_map]
    apply List.map_congr_left
    intro c hc
    simp only [Function.comp]
    obtain ⟨us', vol, env, rfl, hus', hv, hd⟩ := hn c hc
    have e : writeL0 us (rp0 (nodeObj us' vol env)) = nodeToDict us (rp0 (nodeObj us' vol env)) := rfl
    rw [e, node_reserialise us _ ⟨us', vol, env, rfl, hus', hv, hd⟩]
    rfl
  · show Json.arr _ = Json.arr _
    congr 1
    rw [List.map_map]
    apply List.map_congr_left
    intro c hc
    simp only [Function.comp]
    obtain ⟨us', i, j, surf, dist, rfl, hus', h1', h2', h3', h4'⟩ := he c hc
    have e : writeL0 us (rp0 (edgeObj us' i j surf dist)) = edgeToDict us (rp0 (edgeObj us' i j surf dist)) := rfl
    rw [e, edge_reserialise us _ ⟨us', i, j, surf, dist, rfl, hus', h1', h2', h3', h4'⟩]
    rfl

/-! ## system: network + space (grid or graph) + explicit state and chemostat map -/

abbrev rp2 : L2 → L2 := reparseObj rp1

def systemObj (us : Sys) (net sp : L1) (state : UArr) (chem : List Int) : L2 :=
  [("units_system", .sys us), ("network", .child net), ("space", .child sp), ("state", .arr state), ("chemostats", .ints chem)]

def SpaceWF (sp : L1) : Prop := GridWF sp ∨ GraphWF sp

def SystemWF (o : L2) : Prop :=
  ∃ us net sp state chem, o = systemObj us net sp state chem ∧ us.valid = true ∧ NetworkWF net ∧ SpaceWF sp ∧
    state.u.sys.valid = true ∧ state.u.dim = Dim.quantity ∧ (∀ e ∈ cellEnvsOf sp, e < (nEnvOf net : Int))

theorem systemFields_eq : systemFields =
    [⟨"network", "network", .childOrPath "network", none⟩, ⟨"space", "space", .childOrPath "space", none⟩,
     ⟨"state", "state", .uarr Dim.quantity, some .null⟩, ⟨"chemostats", "chemostats", .intsOrPath, some .null⟩] := by rfl

theorem space_roundtrip (parent : Sys) (base : Option String) (fs : FS) (sp : L1) (h : SpaceWF sp) :
    spaceFromDict parent base fs (spaceToDict sp) = .ok (rp1 sp) :=
  h.elim (grid_roundtrip parent base fs sp) (graph_roundtrip parent base fs sp)

theorem space_reserialise (sp : L1) (h : SpaceWF sp) : spaceToDict (rp1 sp) = spaceToDict sp :=
  h.elim (grid_reserialise sp) (graph_reserialise sp)

theorem writeL1_network (n : L1) (h : NetworkWF n) : writeL1 n = networkToDict n := by
  obtain ⟨_, _, _, _, rfl, _⟩ := h; rfl

theorem writeL1_space (sp : L1) (h : SpaceWF sp) : writeL1 sp = spaceToDict sp := by
  rcases h with ⟨_, _, _, _, _, _, _, _, _, rfl, _⟩ | ⟨_, _, _, rfl, _⟩ <;> rfl

theorem spaceToDict_obj (sp : L1) (h : SpaceWF sp) : ∃ kv, spaceToDict sp = .obj kv := by
  rcases h with ⟨_, _, _, _, _, _, _, _, _, rfl, _⟩ | ⟨_, _, _, rfl, _⟩
  · exact ⟨_, toDictG_eq _ _ _ _ _⟩
  · exact ⟨_, toDictG_eq _ _ _ _ _⟩

theorem readKind_childOrPath_obj {χ} (c : Ctx χ) (d : KV) (tag : String) (kv : KV) :
    readKind c d (.childOrPath tag) (.obj kv) = (c.readChild tag c.us c.base (.obj kv)).map .child := rfl

theorem level1Child_network (fs : FS) (us : Sys) (b : Option String) (j : Json) :
    level1Child fs "network" us b j = networkFromDict us b fs j := rfl
theorem level1Child_space (fs : FS) (us : Sys) (b : Option String) (j : Json) :
    level1Child fs "space" us b j = spaceFromDict us b fs j := rfl

theorem systemFromDictRaw_present (parent : Sys) (base : Option String) (fs : FS) (kv kvs : KV)
    (hpk : processKeys DictKeys.system.aliases kv = .ok kv) (hl : kv.lookup "space" = some (.obj kvs)) :
    systemFromDictRaw parent base fs (.obj kv) =
      fromDictG DictKeys.system systemFields parent base fs (level1Child fs) (.obj kv) := by
  unfold systemFromDictRaw
  simp only [hpk, hl]
  rfl

/-- `rdsystem_from_dict(rdsystem_to_dict(s))` for every system with explicit state and chemostat map:
units systems at four levels (system, network, species/reactions, space and its nodes/edges) are all kept -/
theorem system_roundtrip (parent : Sys) (base : Option String) (fs : FS) (o : L2) (hwf : SystemWF o) :
    systemFromDict parent base fs (systemToDict o) = .ok (rp2 o) := by
  obtain ⟨us, net, sp, state, chem, rfl, hus, hnet, hsp, hsv, hsd, henv⟩ := hwf
  obtain ⟨kvn, hkvn⟩ : ∃ kv, networkToDict net = .obj kv := ⟨_, toDictG_eq _ _ _ _ _⟩
  obtain ⟨kvs, hkvs⟩ := spaceToDict_obj sp hsp
  have hwn : writeL1 net = .obj kvn := by rw [writeL1_network net hnet, hkvn]
  have hws : writeL1 sp = .obj kvs := by rw [writeL1_space sp hsp, hkvs]
  let flds : List Field := [⟨"network", "network", .childOrPath "network", none⟩, ⟨"space", "space", .childOrPath "space", none⟩,
     ⟨"state", "state", .uarr Dim.quantity, some .null⟩, ⟨"chemostats", "chemostats", .intsOrPath, some .null⟩]
  let g : Field → Val L1 := fun f =>
    if f.param == "network" then .child (rp1 net) else if f.param == "space" then .child (rp1 sp)
    else if f.param == "state" then .arr (reparseArr state) else .ints chem
  have hks : (writtenKV flds [] none writeL1 (systemObj us net sp state chem)).map (·.1) =
      ["units", "network", "space", "state", "chemostats"] := rfl
  have hgen := generic_roundtrip DictKeys.system flds [] none parent base fs (level1Child fs) writeL1
    (systemObj us net sp state chem) g ["units", "network", "space", "state", "chemostats"] hks
    (by decide +kernel) (by decide +kernel) (by decide +kernel)
    (readUnits_write parent _ us hus) (by
      intro f hfm
      simp only [flds, List.mem_cons, List.not_mem_nil, or_false] at hfm
      rcases hfm with rfl | rfl | rfl | rfl
      · show readKind _ _ (.childOrPath "network") (writeL1 net) = _
        rw [hwn, readKind_childOrPath_obj]
        show (level1Child fs "network" us base (.obj kvn)).map Val.child = _
        rw [level1Child_network, ← hkvn, network_roundtrip us base fs net hnet]; rfl
      · show readKind _ _ (.childOrPath "space") (writeL1 sp) = _
        rw [hws, readKind_childOrPath_obj]
        show (level1Child fs "space" us base (.obj kvs)).map Val.child = _
        rw [level1Child_space, ← hkvs, space_roundtrip us base fs sp hsp]; rfl
      · exact readKind_uarr _ _ writeL1 state Dim.quantity (printable_of_valid _ hsv) hsd
      · exact readKind_intsOrPath _ _ writeL1 chem)
  unfold systemFromDict systemToDict
  rw [systemFields_eq]
  have hraw : systemFromDictRaw parent base fs (toDictG flds [] none writeL1 (systemObj us net sp state chem)) =
      fromDictG DictKeys.system systemFields parent base fs (level1Child fs)
        (toDictG flds [] none writeL1 (systemObj us net sp state chem)) := by
    rw [toDictG_eq]
    have hpk := processKeys_canonical' DictKeys.system.aliases
      (writtenKV flds [] none writeL1 (systemObj us net sp state chem)) _ hks
      (by decide +kernel) (by decide +kernel) (by decide +kernel)
    have hl : (writtenKV flds [] none writeL1 (systemObj us net sp state chem)).lookup "space" = some (.obj kvs) := by
      rw [← hws]; rfl
    exact systemFromDictRaw_present parent base fs _ kvs hpk hl
  rw [hraw, systemFields_eq, hgen]
  -- the environment-index check of the RDSystem constructor on the reloaded object
  show finishSystem _ = _
  have hfin : finishSystem ([("units_system", .sys us), ("network", .child (rp1 net)), ("space", .child (rp1 sp)),
      ("state", .arr (reparseArr state)), ("chemostats", .ints chem)] : L2) =
      .ok [("units_system", .sys us), ("network", .child (rp1 net)), ("space", .child (rp1 sp)),
      ("state", .arr (reparseArr state)), ("chemostats", .ints chem)] := by
    have h1 : nEnvOf (rp1 net) = nEnvOf net := nEnvOf_reparse _ net
    have h2 : cellEnvsOf (rp1 sp) = cellEnvsOf sp := cellEnvsOf_reparse sp
    have hany : (cellEnvsOf sp).any (fun e => decide (e ≥ (nEnvOf net : Int))) = false := by
      apply List.any_eq_false.2
      intro e he
      have := henv e he
      simp only [decide_eq_true_eq]; omega
    show (if (cellEnvsOf (rp1 sp)).any (fun e => decide (e ≥ (nEnvOf (rp1 net) : Int))) then _ else _) = _
    rw [h1, h2, hany]; rfl
  exact hfin

theorem system_reserialise (o : L2) (hwf : SystemWF o) : systemToDict (rp2 o) = systemToDict o := by
  obtain ⟨us, net, sp, state, chem, rfl, _, hnet, hsp, hsv, _, _⟩ := hwf
  unfold systemToDict
  rw [systemFields_eq]
  refine toDictG_reparse _ _ _ _ _ _ ?_
  intro f hfm
  simp only [List.mem_cons, List.not_mem_nil, or_false] at hfm
  rcases hfm with rfl | rfl | rfl | rfl
  · show writeL1 (rp1 net) = writeL1 net
    have e : writeL1 (rp1 net) = networkToDict (rp1 net) := by
      obtain ⟨_, _, _, _, rfl, _⟩ := hnet; rfl
    rw [e, writeL1_network net hnet, network_reserialise net hnet]
  · show writeL1 (rp1 sp) = writeL1 sp
    have e : writeL1 (rp1 sp) = spaceToDict (rp1 sp) := by
      rcases hsp with ⟨_, _, _, _, _, _, _, _, _, rfl, _⟩ | ⟨_, _, _, rfl, _⟩ <;> rfl
    rw [e, writeL1_space sp hsp, space_reserialise sp hsp]
  · exact (array_physical state hsv).2.2.2
  · rfl

/-! ## script: system + sampling parameters + seed + initial-state processing mode -/

abbrev rp3 : L3 → L3 := reparseObj rp2

def scriptObj (us : Sys) (sys : L2) (ts : UArr) (dt : UVal) (tmax : Val L2) (policy : String) (interval : UVal)
    (seed : Int) (mode : String) : L3 :=
  [("units_system", .sys us), ("system", .child sys), ("t_sample", .arr ts), ("time_step", .qty dt), ("t_max", tmax),
   ("sampling_policy", .str policy), ("sampling_interval", .qty interval), ("rng_seed", .int seed),
   ("init_state_processing", .str mode)]

def TimeWF (x : UVal) : Prop := x.u.sys.valid = true ∧ x.u.dim = Dim.time_

/-- a script as the constructor leaves it: `t_max` is a time, or "default" (then there is a last requested time) -/
def ScriptWF (o : L3) : Prop :=
  ∃ us sys ts dt tmax policy interval seed mode, o = scriptObj us sys ts dt tmax policy interval seed mode ∧
    us.valid = true ∧ SystemWF sys ∧ ts.u.sys.valid = true ∧ ts.u.dim = Dim.time_ ∧ TimeWF dt ∧ TimeWF interval ∧
    ((∃ x, tmax = .qty x ∧ TimeWF x) ∨ (tmax = .str "default" ∧ ts.vs ≠ [])) ∧
    DictKeys.pyPolicies.contains policy = true ∧ DictKeys.pyModes.contains mode = true

theorem scriptFields_eq : scriptFields =
    [⟨"system", "system", .childOrPath "system", none⟩, ⟨"t_sample", "t_sample", .uarr Dim.time_, none⟩,
     ⟨"time_step", "time_step", .qty Dim.time_, some (.num (1 / 1000))⟩, ⟨"t_max", "t_max", .tmax, some (.str "default")⟩,
     ⟨"sampling_policy", "sampling_policy", .enum DictKeys.pyPolicies, some (.str "on_t_sample")⟩,
     ⟨"sampling_interval", "sampling_interval", .qty Dim.time_, some (.num 1)⟩, ⟨"rng_seed", "rng_seed", .seed, some .null⟩,
     ⟨"init_state_processing", "init_state_processing", .enum DictKeys.pyModes, some (.str "auto")⟩] := by rfl

theorem level2Child_system (fs : FS) (us : Sys) (b : Option String) (j : Json) :
    level2Child fs "system" us b j = systemFromDict us b fs j := rfl

/-- the script with an explicit `t_max` (what `rdscript_to_dict` always writes) -/
theorem script_roundtrip_explicit (base : Option String) (fs : FS) (us : Sys) (sys : L2) (ts : UArr) (dt x : UVal)
    (policy : String) (interval : UVal) (seed : Int) (mode : String)
    (hus : us.valid = true) (hsys : SystemWF sys) (htv : ts.u.sys.valid = true) (htd : ts.u.dim = Dim.time_)
    (hdt : TimeWF dt) (hint : TimeWF interval) (hx : TimeWF x)
    (hpol : DictKeys.pyPolicies.contains policy = true) (hmode : DictKeys.pyModes.contains mode = true) :
    scriptFromDict base fs (toDictG scriptFields [] none systemToDict (scriptObj us sys ts dt (.qty x) policy interval seed mode)) =
      .ok (rp3 (scriptObj us sys ts dt (.qty x) policy interval seed mode)) := by
  obtain ⟨kvs, hkvs⟩ : ∃ kv, systemToDict sys = .obj kv := ⟨_, toDictG_eq _ _ _ _ _⟩
  unfold scriptFromDict
  rw [scriptFields_eq]
  let g : Field → Val L2 := fun f =>
    if f.param == "system" then .child (rp2 sys) else if f.param == "t_sample" then .arr (reparseArr ts)
    else if f.param == "time_step" then .qty (reparse dt) else if f.param == "t_max" then .qty (reparse x)
    else if f.param == "sampling_policy" then .str policy else if f.param == "sampling_interval" then .qty (reparse interval)
    else if f.param == "rng_seed" then .int seed else .str mode
  have hgen := generic_roundtrip DictKeys.script
    [⟨"system", "system", .childOrPath "system", none⟩, ⟨"t_sample", "t_sample", .uarr Dim.time_, none⟩,
     ⟨"time_step", "time_step", .qty Dim.time_, some (.num (1 / 1000))⟩, ⟨"t_max", "t_max", .tmax, some (.str "default")⟩,
     ⟨"sampling_policy", "sampling_policy", .enum DictKeys.pyPolicies, some (.str "on_t_sample")⟩,
     ⟨"sampling_interval", "sampling_interval", .qty Dim.time_, some (.num 1)⟩, ⟨"rng_seed", "rng_seed", .seed, some .null⟩,
     ⟨"init_state_processing", "init_state_processing", .enum DictKeys.pyModes, some (.str "auto")⟩]
    [] none Sys.default base fs (level2Child fs) systemToDict (scriptObj us sys ts dt (.qty x) policy interval seed mode) g
    ["units", "system", "t_sample", "time_step", "t_max", "sampling_policy", "sampling_interval", "rng_seed",
     "init_state_processing"] rfl (by decide +kernel) (by decide +kernel) (by decide +kernel)
    (readUnits_write Sys.default _ us hus) (by
      intro f hfm
      simp only [List.mem_cons, List.not_mem_nil, or_false] at hfm
      rcases hfm with rfl | rfl | rfl | rfl | rfl | rfl | rfl | rfl
      · show readKind _ _ (.childOrPath "system") (systemToDict sys) = _
        rw [hkvs, readKind_childOrPath_obj]
        show (level2Child fs "system" us base (.obj kvs)).map Val.child = _
        rw [level2Child_system, ← hkvs, system_roundtrip us base fs sys hsys]; rfl
      · exact readKind_uarr _ _ systemToDict ts Dim.time_ (printable_of_valid _ htv) htd
      · exact readKind_qty_write _ _ _ systemToDict dt (printable_of_valid _ hdt.1) hdt.2
      · exact readKind_tmax_qty _ _ systemToDict x (printable_of_valid _ hx.1) hx.2
      · exact readKind_enum _ _ systemToDict _ policy hpol
      · exact readKind_qty_write _ _ _ systemToDict interval (printable_of_valid _ hint.1) hint.2
      · exact readKind_seed _ _ systemToDict seed
      · exact readKind_enum _ _ systemToDict _ mode hmode)
  rw [hgen]
  rfl

theorem resolveTmax_qty (us : Sys) (sys : L2) (ts : UArr) (dt x : UVal) (policy : String) (interval : UVal) (seed : Int) (mode : String) :
    resolveTmax (scriptObj us sys ts dt (.qty x) policy interval seed mode) = scriptObj us sys ts dt (.qty x) policy interval seed mode := rfl

theorem resolveTmax_default (us : Sys) (sys : L2) (ts : UArr) (dt : UVal) (policy : String) (interval : UVal) (seed : Int)
    (mode : String) (v : Rat) (hv : ts.vs.getLast? = some v) :
    resolveTmax (scriptObj us sys ts dt (.str "default") policy interval seed mode) =
      scriptObj us sys ts dt (.qty ⟨v, ts.u⟩) policy interval seed mode := by
  simp [resolveTmax, scriptObj, List.lookup, hv]

/-- `rdscript_from_dict(rdscript_to_dict(s))`: the reloaded script is the original with `t_max` made explicit
(the last requested sample time when it was "default") and every quantity re-read from its text: sampling
parameters, policy, seed (0 included), initial-state processing mode, units systems and the whole system -/
theorem script_roundtrip (base : Option String) (fs : FS) (o : L3) (hwf : ScriptWF o) :
    scriptFromDict base fs (scriptToDict o) = .ok (rp3 (resolveTmax o)) := by
  obtain ⟨us, sys, ts, dt, tmax, policy, interval, seed, mode, rfl, hus, hsys, htv, htd, hdt, hint, htm, hpol, hmode⟩ := hwf
  unfold scriptToDict
  rcases htm with ⟨x, rfl, hx⟩ | ⟨rfl, hne⟩
  · rw [resolveTmax_qty]
    exact script_roundtrip_explicit base fs us sys ts dt x policy interval seed mode hus hsys htv htd hdt hint hx hpol hmode
  · obtain ⟨v, hv⟩ : ∃ v, ts.vs.getLast? = some v := by
      cases h : ts.vs.getLast? with
      | none => exact absurd (List.getLast?_eq_none_iff.1 h) hne
      | some v => exact ⟨v, rfl⟩
    rw [resolveTmax_default us sys ts dt policy interval seed mode v hv]
    exact script_roundtrip_explicit base fs us sys ts dt ⟨v, ts.u⟩ policy interval seed mode hus hsys htv htd hdt hint
      ⟨htv, htd⟩ hpol hmode

theorem script_reserialise_explicit (us : Sys) (sys : L2) (ts : UArr) (dt x : UVal) (policy : String) (interval : UVal)
    (seed : Int) (mode : String) (hsys : SystemWF sys) (htv : ts.u.sys.valid = true) (hdt : TimeWF dt) (hint : TimeWF interval)
    (hx : TimeWF x) :
    scriptToDict (rp3 (scriptObj us sys ts dt (.qty x) policy interval seed mode)) =
      toDictG scriptFields [] none systemToDict (scriptObj us sys ts dt (.qty x) policy interval seed mode) := by
  unfold scriptToDict
  have hr : resolveTmax (rp3 (scriptObj us sys ts dt (.qty x) policy interval seed mode)) =
      rp3 (scriptObj us sys ts dt (.qty x) policy interval seed mode) := rfl
  rw [hr, scriptFields_eq]
  refine toDictG_reparse _ _ _ _ _ _ ?_
  intro f hfm
  simp only [List.mem_cons, List.not_mem_nil, or_false] at hfm
  rcases hfm with rfl | rfl | rfl | rfl | rfl | rfl | rfl | rfl
  · exact system_reserialise sys hsys
  · exact (array_physical ts htv).2.2.2
  · exact (quantity_physical dt hdt.1).2.2.2
  · exact (quantity_physical x hx.1).2.2.2
  · rfl
  · exact (quantity_physical interval hint.1).2.2.2
  · rfl
  · rfl

/-- serialising the reloaded script gives the same dictionary -/
theorem script_reserialise (o : L3) (hwf : ScriptWF o) : scriptToDict (rp3 (resolveTmax o)) = scriptToDict o := by
  obtain ⟨us, sys, ts, dt, tmax, policy, interval, seed, mode, rfl, _, hsys, htv, htd, hdt, hint, htm, _, _⟩ := hwf
  rcases htm with ⟨x, rfl, hx⟩ | ⟨rfl, hne⟩
  · rw [resolveTmax_qty, script_reserialise_explicit us sys ts dt x policy interval seed mode hsys htv hdt hint hx]
    rfl
  · obtain ⟨v, hv⟩ : ∃ v, ts.vs.getLast? = some v := by
      cases h : ts.vs.getLast? with
      | none => exact absurd (List.getLast?_eq_none_iff.1 h) hne
      | some v => exact ⟨v, rfl⟩
    rw [resolveTmax_default us sys ts dt policy interval seed mode v hv,
      script_reserialise_explicit us sys ts dt ⟨v, ts.u⟩ policy interval seed mode hsys htv hdt hint ⟨htv, htd⟩]
    unfold scriptToDict
    rw [resolveTmax_default us sys ts dt policy interval seed mode v hv]

/-! ## non-vacuity: a concrete heterogeneous system satisfies every well-formedness predicate -/

def exSpecies : L0 := speciesObj' ⟨"mm", "min", "mol"⟩ "A"
  (.envQty [("cyt", ⟨2, ⟨⟨"km", "h", "molecule"⟩, Dim.diffusion⟩⟩), ("default", ⟨0, ⟨⟨"mm", "min", "mol"⟩, Dim.diffusion⟩⟩)])
  (.qty ⟨3, ⟨⟨"dm", "s", "mol"⟩, Dim.density⟩⟩) (.bool false)
def exReaction : L0 := reactionObj ⟨"µm", "s", "molecule"⟩ .none [("A", 2)] []
  (.qty ⟨5, ⟨⟨"µm", "s", "molecule"⟩, kDim 2⟩⟩) (.qty ⟨0, ⟨⟨"µm", "s", "molecule"⟩, kDim 0⟩⟩)
def exNetwork : L1 := networkObj ⟨"m", "s", "mol"⟩ [exSpecies] [exReaction] ["cyt", "mem"]
def exGraph : L1 := graphObj ⟨"µm", "s", "molecule"⟩
  [nodeObj ⟨"mm", "s", "molecule"⟩ ⟨2, ⟨⟨"mm", "s", "molecule"⟩, Dim.volume⟩⟩ 0,
   nodeObj ⟨"µm", "s", "molecule"⟩ ⟨3, ⟨⟨"nm", "s", "mol"⟩, Dim.volume⟩⟩ 1]
  [edgeObj ⟨"cm", "h", "mol"⟩ 0 1 ⟨3/2, ⟨⟨"cm", "h", "mol"⟩, Dim.surface⟩⟩ ⟨1/2, ⟨⟨"cm", "h", "mol"⟩, Dim.length⟩⟩]

theorem example_wf :
    SpeciesWF exSpecies ∧ ReactionWF exReaction ∧ NetworkWF exNetwork ∧ GraphWF exGraph ∧
    SystemWF (systemObj ⟨"km", "h", "kmol"⟩ exNetwork exGraph ⟨[1, 2], ⟨⟨"µm", "s", "mmol"⟩, Dim.quantity⟩⟩ [0, 1]) := by
  have hs : SpeciesWF exSpecies := ⟨_, _, _, _, _, rfl, by decide +kernel, by decide +kernel,
    .inr ⟨_, rfl, ⟨by decide +kernel, by decide +kernel⟩, by decide +kernel, by decide +kernel⟩,
    .inl ⟨_, rfl, by decide +kernel, rfl⟩, .inl ⟨_, rfl⟩⟩
  have hr : ReactionWF exReaction := ⟨_, _, _, _, _, _, rfl, by decide +kernel, .inl rfl,
    .inl ⟨_, rfl, by decide +kernel, by decide +kernel⟩, .inl ⟨_, rfl, by decide +kernel, by decide +kernel⟩⟩
  have hn : NetworkWF exNetwork := ⟨_, _, _, _, rfl, by decide +kernel,
    by intro c hc; simp only [List.mem_singleton] at hc; exact hc ▸ hs,
    by intro c hc; simp only [List.mem_singleton] at hc; exact hc ▸ hr,
    by decide, by decide +kernel, by decide +kernel⟩
  have hg : GraphWF exGraph := ⟨_, _, _, rfl, by decide +kernel,
    by
      intro c hc
      simp only [List.mem_cons, List.not_mem_nil, or_false] at hc
      rcases hc with rfl | rfl
      · exact ⟨_, _, _, rfl, by decide +kernel, by decide +kernel, rfl⟩
      · exact ⟨_, _, _, rfl, by decide +kernel, by decide +kernel, rfl⟩,
    by
      intro c hc
      simp only [List.mem_singleton] at hc
      subst hc
      exact ⟨_, _, _, _, _, rfl, by decide +kernel, by decide +kernel, rfl, by decide +kernel, rfl⟩⟩
  exact ⟨hs, hr, hn, hg, _, _, _, _, _, rfl, by decide +kernel, hn, .inr hg, by decide +kernel, rfl, by decide +kernel⟩

/-- a reaction holding an explicit zero coefficient first (`Reaction([{"A": 0, "B": 2}, {"D": 1}])`) is well-formed; its
equation is written without the zero entry and read back as `2 B -> D`, with the same rate-constant dimension -/
theorem example_zero_coefficient :
    ReactionWF (reactionObj ⟨"mm", "s", "mol"⟩ .none [("A", 0), ("B", 2)] [("D", 1)]
      (.qty ⟨5, ⟨⟨"mm", "s", "mol"⟩, kDim 2⟩⟩) (.qty ⟨0, ⟨⟨"mm", "s", "mol"⟩, kDim 1⟩⟩)) ∧
    nz [("A", 0), ("B", 2)] = [("B", 2)] ∧ sidesOrder (nz [("A", 0), ("B", 2)]) = 2 := by
  refine ⟨⟨_, _, _, _, _, _, rfl, by decide +kernel, .inl rfl, .inl ⟨_, rfl, by decide +kernel, by decide +kernel⟩,
    .inl ⟨_, rfl, by decide +kernel, by decide +kernel⟩⟩, by decide +kernel, by decide +kernel⟩

/-! ## alias interchangeability, for every reader and every synonym the source accepts -/

/-- on the key list each writer emits, at every position, for every synonym of that key's group: the key-level
conditions under which `process_input_dict_keys` handles the synonym (checked on the regenerated tables) -/
theorem alias_checks_all :
    ∀ t ∈ DictKeys.all, ∀ i < (written t).length, ∀ g ∈ t.aliases, g.head? = (written t)[i]? → ∀ a ∈ g.tail,
      aliasCheck t.aliases ((written t).take i) ((written t).drop (i + 1)) a ((written t).getD i "") g.tail = true := by
  decide +kernel

/-- **alias_interchangeable**: take any dictionary carrying the keys a writer emits (any values at all, well-formed or
not), and spell one of its keys with any synonym its reader accepts: the generic reader — hence every `*_from_dict` of
the model, which are instances of it — returns exactly the same result (same object or same error).
The fields may be any schema that looks up canonical keys only. -/
theorem alias_interchangeable {χ} (t : DictKeys.Table) (ht : t ∈ DictKeys.all) (fields : List Field) (parent : Sys) (base : Option String)
    (fs : FS) (rc : String → Sys → Option String → Json → Res χ)
    (pre post : KV) (c a : String) (r : List String) (v : Json)
    (hg : (c :: r) ∈ t.aliases) (ha : a ∈ r)
    (hkeys : (pre ++ (c, v) :: post).map (·.1) = written t)
    (hfk : ∀ f ∈ fields, f.key ∈ canonical t) :
    fromDictG t fields parent base fs rc (.obj (pre ++ (a, v) :: post)) =
      fromDictG t fields parent base fs rc (.obj (pre ++ (c, v) :: post)) := by
  have hlen : pre.length < (written t).length := by
    rw [← hkeys]; simp
  have hsplit : written t = pre.map (·.1) ++ c :: post.map (·.1) := by rw [← hkeys]; simp
  have hi : (written t)[pre.length]? = some c := by
    rw [hsplit, List.getElem?_append_right (by simp)]; simp
  have htake : (written t).take pre.length = pre.map (·.1) := by
    rw [hsplit]; simp [List.take_append]
  have hdrop : (written t).drop (pre.length + 1) = post.map (·.1) := by
    rw [hsplit]
    have : pre.length + 1 = (pre.map (·.1) ++ [c]).length := by simp
    rw [this, show pre.map (·.1) ++ c :: post.map (·.1) = (pre.map (·.1) ++ [c]) ++ post.map (·.1) by simp,
      List.drop_left]
  have hget : (written t).getD pre.length "" = c := by
    rw [List.getD_eq_getElem?_getD, hi]; rfl
  have hchk := alias_checks_all t ht pre.length hlen (c :: r) hg (by rw [hi]; rfl) a ha
  rw [htake, hdrop, hget] at hchk
  obtain ⟨hcase, hn, h1, h2, h3⟩ := AliasCase.of_check t.aliases pre post a c r v hchk
  refine alias_interchangeable_generic t fields parent base fs rc hcase hn ⟨h1, h2, ?_⟩
  intro f hf heq
  exact h3 (heq ▸ hfk f hf)

/-- instance: a species dictionary with `density` spelled `conc` (any values) -/
example (parent : Sys) (vl vD vd vc vu : Json) :
    speciesFromDict parent (.obj [("label", vl), ("D", vD), ("conc", vd), ("chstt", vc), ("units", vu)]) =
    speciesFromDict parent (.obj [("label", vl), ("D", vD), ("density", vd), ("chstt", vc), ("units", vu)]) := by
  unfold speciesFromDict
  exact alias_interchangeable DictKeys.species (by decide +kernel) speciesFields parent none _ noChild
    [("label", vl), ("D", vD)] [("chstt", vc), ("units", vu)] "density" "conc" ["concentration", "dens", "conc", "C"] vd
    (by decide +kernel) (by decide +kernel) rfl (by decide +kernel)

end Strengths.C12
