/-
Numeric inventory of src/strengths/kinetics.py (generated: `Gen.PyNumeric.inv_kinetics`, regenerated from the source on every run).
-/
import Strengths.Model.PyNumeric

namespace Strengths.PyNumeric
open Strengths.Gen.PyNumeric

/-- `kinetics.py` never rounds, truncates, compares with a tolerance, stores numbers in less than 64 bits, or prints them with a
limited number of digits (the model computes its values exactly and its texts through `repr`) -/
theorem kinetics_full_precision : fullPrecision inv_kinetics = true := by decide +kernel

/-- `kinetics.py` takes no maximum / minimum / absolute value and swallows no exception: nothing it computes is clamped -/
theorem kinetics_no_clamping : clamp_kinetics = [] := by decide +kernel

end Strengths.PyNumeric
