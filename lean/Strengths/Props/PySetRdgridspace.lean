/-
Failure atomicity of the setters of src/strengths/rdgridspace.py (generated: `Gen.PySetters.setters_rdgridspace`, regenerated from the
source on every run).
-/
import Strengths.Model.PySetters

namespace Strengths.PySetters
open Strengths.Gen.PySetters

/-- every property setter and `set_*` method of `rdgridspace.py` validates before it stores: on no execution path is a `raise` or
a checking call reached after an attribute of `self` has been assigned — a refused assignment leaves the object as it was
(value-semantic setters are what the model assumes: `Model` setters return either an error or a new value, never both) -/
theorem rdgridspace_setters_atomic : setters_rdgridspace.all atomic = true := by decide +kernel

/-- non-vacuity: the file has setters, and some of them do refuse arguments -/
example : setters_rdgridspace ≠ [] ∧ (setters_rdgridspace.any fun s => s.paths.any refuses) = true := by decide +kernel

end Strengths.PySetters
