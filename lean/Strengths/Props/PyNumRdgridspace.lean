/-
Numeric inventory of src/strengths/rdgridspace.py (generated: `Gen.PyNumeric.inv_rdgridspace`, regenerated from the source on every run).
-/
import Strengths.Model.PyNumeric

namespace Strengths.PyNumeric
open Strengths.Gen.PyNumeric

/-- `rdgridspace.py` never rounds, truncates, compares with a tolerance, stores numbers in less than 64 bits, or prints them with a
limited number of digits (the model computes its values exactly and its texts through `repr`) -/
theorem rdgridspace_full_precision : fullPrecision inv_rdgridspace = true := by decide +kernel

/-- the only maxima / minima / absolute values taken in `rdgridspace.py` are the per-axis distances of `are_neighbors` and their periodic images (integers); no amount, rate, time or
coefficient is clamped, and no exception is swallowed -/
theorem rdgridspace_no_clamping :
    clamp_rdgridspace =
      [("clamp", "abs(coord1[0]-coord2[0])"), ("clamp", "abs(coord1[1]-coord2[1])"), ("clamp", "abs(coord1[2]-coord2[2])"), ("clamp", "min(dx,abs(self.w-dx))"), ("clamp", "abs(self.w-dx)"), ("clamp", "min(dy,abs(self.h-dy))"), ("clamp", "abs(self.h-dy)"), ("clamp", "min(dz,abs(self.d-dz))"), ("clamp", "abs(self.d-dz)")] := by
  decide +kernel

end Strengths.PyNumeric
