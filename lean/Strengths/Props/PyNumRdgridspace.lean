/-
Numeric inventory of src/strengths/rdgridspace.py (generated: `Gen.PyNumeric.inv_rdgridspace`, regenerated from the source on every run).
-/
import Strengths.Model.PyNumeric

namespace Strengths.PyNumeric
open Strengths.Gen.PyNumeric

/-- `rdgridspace.py` never rounds, truncates, compares with a tolerance, stores numbers in less than 64 bits, or prints them with a
limited number of digits (the model computes its values exactly and its texts through `repr`) -/
theorem rdgridspace_full_precision : fullPrecision inv_rdgridspace = true := by decide +kernel

end Strengths.PyNumeric
