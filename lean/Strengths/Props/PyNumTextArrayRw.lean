/-
Numeric inventory of src/strengths/text_array_rw.py (generated: `Gen.PyNumeric.inv_text_array_rw`, regenerated from the source on every run).
-/
import Strengths.Model.PyNumeric

namespace Strengths.PyNumeric
open Strengths.Gen.PyNumeric

/-- `text_array_rw.py` never rounds, truncates, compares with a tolerance, stores numbers in less than 64 bits, or prints them with a
limited number of digits (the model computes its values exactly and its texts through `repr`) -/
theorem text_array_rw_full_precision : fullPrecision inv_text_array_rw = true := by decide +kernel

/-- `text_array_rw.py` takes no maximum / minimum / absolute value and swallows no exception: nothing it computes is clamped -/
theorem text_array_rw_no_clamping : clamp_text_array_rw = [] := by decide +kernel

end Strengths.PyNumeric
