/-
Numeric inventory of src/strengths/rdspace.py (generated: `Gen.PyNumeric.inv_rdspace`, regenerated from the source on every run).
-/
import Strengths.Model.PyNumeric

namespace Strengths.PyNumeric
open Strengths.Gen.PyNumeric

/-- `rdspace.py` never rounds, truncates, compares with a tolerance, stores numbers in less than 64 bits, or prints them with a
limited number of digits (the model computes its values exactly and its texts through `repr`) -/
theorem rdspace_full_precision : fullPrecision inv_rdspace = true := by decide +kernel

/-- `rdspace.py` takes no maximum / minimum / absolute value and swallows no exception: nothing it computes is clamped -/
theorem rdspace_no_clamping : clamp_rdspace = [] := by decide +kernel

end Strengths.PyNumeric
