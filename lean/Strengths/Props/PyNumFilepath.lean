/-
Numeric inventory of src/strengths/filepath.py (generated: `Gen.PyNumeric.inv_filepath`, regenerated from the source on every run).
-/
import Strengths.Model.PyNumeric

namespace Strengths.PyNumeric
open Strengths.Gen.PyNumeric

/-- `filepath.py` never rounds, truncates, compares with a tolerance, stores numbers in less than 64 bits, or prints them with a
limited number of digits (the model computes its values exactly and its texts through `repr`) -/
theorem filepath_full_precision : fullPrecision inv_filepath = true := by decide +kernel

/-- `filepath.py` takes no maximum / minimum / absolute value and swallows no exception: nothing it computes is clamped -/
theorem filepath_no_clamping : clamp_filepath = [] := by decide +kernel

end Strengths.PyNumeric
