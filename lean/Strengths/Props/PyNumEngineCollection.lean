/-
Numeric inventory of src/strengths/engine_collection.py (generated: `Gen.PyNumeric.inv_engine_collection`, regenerated from the source on every run).
-/
import Strengths.Model.PyNumeric

namespace Strengths.PyNumeric
open Strengths.Gen.PyNumeric

/-- `engine_collection.py` never rounds, truncates, compares with a tolerance, stores numbers in less than 64 bits, or prints them with a
limited number of digits (the model computes its values exactly and its texts through `repr`) -/
theorem engine_collection_full_precision : fullPrecision inv_engine_collection = true := by decide +kernel

/-- `engine_collection.py` takes no maximum / minimum / absolute value and swallows no exception: nothing it computes is clamped -/
theorem engine_collection_no_clamping : clamp_engine_collection = [] := by decide +kernel

end Strengths.PyNumeric
