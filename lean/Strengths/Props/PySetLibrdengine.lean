/-
`LibRDEngine.setup` / `finalize` as store / raise paths (generated: `Gen.PySetters.setters_librdengine`).
-/
import Strengths.Model.PySetters

namespace Strengths.PySetters
open Strengths.Gen.PySetters

/-- `setup` does its bookkeeping (copy of the script, completion flag, engine units) first and refuses only an unsupported
space type, on the one path that then ends in `raise`; `finalize` stores nothing -/
theorem librdengine_setup_paths :
    setters_librdengine =
      [⟨"LibRDEngine", "setup",
        [[.store "_script", .store "_simulation_unfinished", .store "_units_system"],
         [.store "_script", .store "_simulation_unfinished", .store "_units_system", .raise]]⟩,
       ⟨"LibRDEngine", "finalize", [[]]⟩] := by
  decide +kernel

end Strengths.PySetters
