/-
C12 — stoichiometry through the dictionary form.

A reaction dictionary carries its stoichiometry as the equation text written by `Reaction.to_string` and read by
`Reaction._fromstring` (model: `Strengths.Model.Network`, shared with C19; source constants regenerated in
`Strengths.Gen.Network`).  It is the one place of a dictionary where a species label stands next to a number, so the
round trip must hold for labels of every lexical form: starting with / ending in / made only of digits, a label that is
another label behind a digit prefix ("1O2" next to "O2"), signs, brackets, non-ASCII letters.
-/
import Strengths.Proofs.Network

namespace Strengths.C12
open Strengths Strengths.Gen

/-- the reader / writer of the equation text are the modelled ones: separators and token-length tests of `_fromstring`
(one word = the label with coefficient 1, two words = coefficient and label, nothing else), how repeated labels
accumulate, where the coefficient comes from, the text pieces and tests of `to_string` -/
theorem equation_text_source :
    eqSplitSeps = ["+", "->"] ∧
    eqLenTests = ["len(v3)==1", "len(v4)==1", "len(v4)==2", "len(v7)!=2"] ∧
    eqAccumulate = ("v2[v6]=v5", "v2[v6]+=v5") ∧
    eqCoefAssigns = ["v5,v6=1,\"\"", "v5=int(v4[0].strip())"] ∧
    toStringConsts = ["", "+ ", " ", " ", "-> "] ∧
    toStringTests = ["v0[v3]!=0", "notv2", "v0[v3]!=1"] := by
  decide +kernel

/-- the written equation is read back with the same coefficient for EVERY label, for all side dictionaries whose keys are
distinct label words (non-empty, no blank, no `+`, no `->`: digits anywhere are allowed) -/
theorem written_equation_reread (sub prod : Side) (hs : sub.WF) (hp : prod.WF) :
    ∃ sub' prod', parseEquation (eqToString sub prod) = .ok (sub', prod') ∧
      (∀ l, sub'.coef l = sub.coef l) ∧ (∀ l, prod'.coef l = prod.coef l) :=
  parseEquation_toString sub prod hs hp

/-- hence equal stoichiometric vectors over any species list -/
theorem written_equation_vectors (sub prod : Side) (hs : sub.WF) (hp : prod.WF) (labels : List Label) :
    ∃ sub' prod', parseEquation (eqToString sub prod) = .ok (sub', prod') ∧
      sstoVec sub' prod' labels = sstoVec sub prod labels ∧ pstoVec sub' prod' labels = pstoVec sub prod labels := by
  obtain ⟨sub', prod', hparse, h1, h2⟩ := parseEquation_toString sub prod hs hp
  exact ⟨sub', prod', hparse, by simp only [sstoVec, h1, h2], by simp only [pstoVec, h1, h2]⟩

/-! non-vacuity on the label forms that matter: a label behind a digit prefix of another one, coefficient 1 (nothing is
written between the "+" and the label) and a coefficient next to a digit-leading label -/
example : parseEquation (eqToString [("1O2".toList, 1)] [("O2".toList, 1)]) =
    .ok ([("1O2".toList, 1)], [("O2".toList, 1)]) := by decide +kernel
example : parseEquation (eqToString [("3PG".toList, 1), ("2".toList, 2)] [("2PG".toList, 12), ("PG".toList, 1)]) =
    .ok ([("3PG".toList, 1), ("2".toList, 2)], [("2PG".toList, 12), ("PG".toList, 1)]) := by decide +kernel
example : eqToString [("1O2".toList, 1), ("2A".toList, 3)] [("O2".toList, 1)] = "1O2 + 3 2A -> O2 ".toList := by decide +kernel

end Strengths.C12
