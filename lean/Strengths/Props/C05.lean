/-
C05 — Arithmetic on quantities is arithmetic on their SI values, or an error.

Model: `Strengths/Model/UnitsArith.lean` (`eval`, `evalCmp`: the operator methods of UnitValue / UnitArray and
Python's dispatch, line by line).  Spec: `evalSI`, `evalCmpSI` in the same file (SI values + dimension vectors).
The operator wiring of units.py is regenerated on every run (`Strengths.Gen.UnitsOps`) and compared, by kernel
evaluation, with the transcription the hand-written model was built from (`operator_wiring`).
-/
import Strengths.Proofs.UnitsArith
import Strengths.Gen.UnitsOps

namespace Strengths.C05
open Strengths
set_option linter.unusedSimpArgs false

/-! ## the wiring the model implements (transcribed from units.py; each entry names the model definition) -/

-- uvalWiring / uarrWiring ↦ `UVal.dunder`, `UVal.rdunder`, `Operand.neg`, `Operand.abs`, `UVal.invert` (resp. `UArr.*`)
-- uval_sum … uarr_rmodulo ↦ `UVal.sum` … `UArr.rmodulo` (branch order, dimension test, length test, element expression)
-- uvalPow/uvalRpow/uarrPow/uarrRpow ↦ `powOp`, `UVal.pow`;  units_raiseto ↦ `Units.raiseto`/`raiseDim`
-- uvalCmp_* , *CmpMethods ↦ `UVal.cmp`, `cmpOp` (note `return TypeError("")` in the last branch of the orderings)
-- fn_neg / fn_inv ↦ `Operand.neg` / `Operand.inv`;  units_invert / units_multiply ↦ `Units.invert` / `Units.multiply`
def exp_uvalWiring : List (String × String) :=
  [("__add__", "self._sum(v)"), ("__radd__", "self._sum(v)"), ("__sub__", "self._sum(_neg(v))"), ("__rsub__", "_neg(self._sum(_neg(v)))"), ("__mul__", "self._product(v)"), ("__rmul__", "self._product(v)"), ("__truediv__", "self._product(_inv(v))"), ("__rtruediv__", "self.invert()._product(v)"), ("__mod__", "self._modulo(v)"), ("__rmod__", "self._rmodulo(v)"), ("__neg__", "UnitValue(-self.value,self.units)"), ("__abs__", "UnitValue(abs(self.value),self.units)"), ("invert", "UnitValue(1/self.value,self.units.invert())")]
def exp_uval_sum : List (String × String) :=
  [("type(v)==UnitValue", "if self.units.dim==v.units.dim:{return UnitValue(self.value+v.convert(self.units.sys).value,self.units)}else:{raise ValueError}"), ("isnumber(v)", "return UnitValue(self.value+v,self.units)"), ("type(v)==UnitArray", "if self.units.dim!=v.units.dim:{raise ValueError};v=v.convert(self.units.sys);return UnitArray([self.value+v.value[i]foriinrange(len(v))],self.units)"), ("else", "raise ValueError")]
def exp_uval_product : List (String × String) :=
  [("type(v)==UnitValue", "v=v.convert(self.units.sys);return UnitValue(self.value*v.value,self.units.multiply(v.units))"), ("isnumber(v)", "return UnitValue(self.value*v,self.units)"), ("type(v)==UnitArray", "v=v.convert(self.units.sys);return UnitArray([self.value*v.value[i]foriinrange(len(v))],self.units.multiply(v.units))"), ("else", "raise ValueError")]
def exp_uval_modulo : List (String × String) :=
  [("type(mod)==UnitValue", "if self.units.dim==mod.units.dim:{return UnitValue(self.value%mod.convert(self.units.sys).value,self.units)}else:{raise ValueError}"), ("isnumber(mod)", "return UnitValue(self.value%mod,self.units)"), ("type(mod)==UnitArray", "if self.units.dim!=mod.units.dim:{raise ValueError};mod=mod.convert(self.units.sys);return UnitArray([self.value%mod.value[i]foriinrange(len(mod))],self.units)"), ("else", "raise ValueError")]
def exp_uval_rmodulo : List (String × String) :=
  [("type(v)==UnitValue", "if self.units.dim==v.units.dim:{return UnitValue(v.convert(self.units.sys).value%self.value,self.units)}else:{raise ValueError}"), ("isnumber(v)", "return UnitValue(v%self.value,self.units)"), ("type(v)==UnitArray", "if self.units.dim!=v.units.dim:{raise ValueError};v=v.convert(self.units.sys);return UnitArray([v.value[i]%self.valueforiinrange(len(v))],self.units)"), ("else", "raise ValueError")]
def exp_uvalPow : List (String × String) :=
  [("isnumber(v)", "return UnitValue(self.value**v,self.units.raiseto(v))"), ("else", "raise TypeError")]
def exp_uvalRpow : List (String × String) :=
  [("", "raise NotImplementedError")]
def exp_uvalCmpMethods : List String :=
  ["__eq__", "__neq__", "__gt__", "__ge__", "__lt__", "__le__"]
def exp_uarrWiring : List (String × String) :=
  [("__add__", "self._sum(v)"), ("__radd__", "self._sum(v)"), ("__sub__", "self._sum(_neg(v))"), ("__rsub__", "_neg(self._sum(_neg(v)))"), ("__mul__", "self._product(v)"), ("__rmul__", "self._product(v)"), ("__truediv__", "self._product(_inv(v))"), ("__rtruediv__", "self.invert()._product(v)"), ("__mod__", "self._modulo(v)"), ("__rmod__", "self._rmodulo(v)"), ("__neg__", "UnitArray(-self.value,self.units)"), ("__abs__", "UnitArray(abs(self.value),self.units)"), ("invert", "UnitArray(1/self.value,self.units.invert())")]
def exp_uarr_sum : List (String × String) :=
  [("type(v)==UnitValue", "if self.units.dim!=v.units.dim:{raise ValueError};v=v.convert(self.units.sys);return UnitArray([self.value[i]+v.valueforiinrange(len(self))],self.units)"), ("isnumber(v)", "return UnitArray([self.value[i]+vforiinrange(len(self))],self.units)"), ("type(v)==UnitArray", "if self.units.dim!=v.units.dim:{raise ValueError};if len(self)!=len(v):{raise ValueError};v=v.convert(self.units.sys);return UnitArray([self.value[i]+v.value[i]foriinrange(len(self))],self.units)"), ("else", "raise ValueError")]
def exp_uarr_product : List (String × String) :=
  [("type(v)==UnitValue", "v=v.convert(self.units.sys);return UnitArray([self.value[i]*v.valueforiinrange(len(self))],self.units.multiply(v.units))"), ("isnumber(v)", "return UnitArray([self.value[i]*vforiinrange(len(self))],self.units)"), ("type(v)==UnitArray", "if len(self)!=len(v):{raise ValueError};v=v.convert(self.units.sys);return UnitArray([self.value[i]*v.value[i]foriinrange(len(self))],self.units.multiply(v.units))"), ("else", "raise ValueError")]
def exp_uarr_modulo : List (String × String) :=
  [("type(mod)==UnitValue", "if self.units.dim!=mod.units.dim:{raise ValueError};mod=mod.convert(self.units.sys);return UnitArray([self.value[i]%mod.valueforiinrange(len(self))],self.units)"), ("isnumber(mod)", "return UnitArray([self.value[i]%modforiinrange(len(self))],self.units)"), ("type(mod)==UnitArray", "if self.units.dim!=mod.units.dim:{raise ValueError};if len(self)!=len(mod):{raise ValueError};mod=mod.convert(self.units.sys);return UnitArray([self.value[i]%mod.value[i]foriinrange(len(self))],self.units)"), ("else", "raise ValueError")]
def exp_uarr_rmodulo : List (String × String) :=
  [("type(v)==UnitValue", "if self.units.dim!=v.units.dim:{raise ValueError};v=v.convert(self.units.sys);return UnitArray([v.value%self.value[i]foriinrange(len(self))],self.units)"), ("isnumber(v)", "return UnitArray([v%self.value[i]foriinrange(len(self))],self.units)"), ("type(v)==UnitArray", "if self.units.dim!=v.units.dim:{raise ValueError};if len(self)!=len(v):{raise ValueError};v=v.convert(self.units.sys);return UnitArray([v.value[i]%self.value[i]foriinrange(len(self))],self.units)"), ("else", "raise ValueError")]
def exp_uarrPow : List (String × String) :=
  [("", "raise NotImplementedError")]
def exp_uarrRpow : List (String × String) :=
  [("", "raise ValueError")]
def exp_uarrCmpMethods : List String :=
  []
def exp_uvalCmp_eq : List (String × String) :=
  [("type(v)==UnitValue", "if self.units.dim==v.units.dim:{return self.value==v.convert(self.units.sys).value}else:{return False}"), ("isnumber(v)", "return self.value==v"), ("else", "return False")]
def exp_uvalCmp_gt : List (String × String) :=
  [("type(v)==UnitValue", "if self.units.dim==v.units.dim:{return self.value>v.convert(self.units.sys).value}else:{raise ValueError}"), ("isnumber(v)", "return self.value>v"), ("else", "return TypeError(\"\")")]
def exp_uvalCmp_ge : List (String × String) :=
  [("type(v)==UnitValue", "if self.units.dim==v.units.dim:{return self.value>=v.convert(self.units.sys).value}else:{raise ValueError}"), ("isnumber(v)", "return self.value>=v"), ("else", "return TypeError(\"\")")]
def exp_uvalCmp_lt : List (String × String) :=
  [("type(v)==UnitValue", "if self.units.dim==v.units.dim:{return self.value<v.convert(self.units.sys).value}else:{raise ValueError}"), ("isnumber(v)", "return self.value<v"), ("else", "return TypeError(\"\")")]
def exp_uvalCmp_le : List (String × String) :=
  [("type(v)==UnitValue", "if self.units.dim==v.units.dim:{return self.value<=v.convert(self.units.sys).value}else:{raise ValueError}"), ("isnumber(v)", "return self.value<=v"), ("else", "return TypeError(\"\")")]
def exp_units_invert : List (String × String) :=
  [("", "invdim=UnitsDimensions()"), ("", "for k in self.dim.keys():{invdim[k]=-self.dim[k]}"), ("", "return Units(self.sys,invdim)")]
def exp_units_multiply : List (String × String) :=
  [("type(u)!=Units", "raise ValueError"), ("self.sys!=u.sys", "raise ValueError"), ("", "sdim=UnitsDimensions()"), ("", "for k in self.dim.keys():{sdim[k]=self.dim[k]+u.dim[k]}"), ("", "return Units(self.sys,sdim)")]
def exp_units_raiseto : List (String × String) :=
  [("", "rdim=UnitsDimensions()"), ("", "for k in self.dim.keys():{rdim[k]=int(self.dim[k]*e);if self.dim[k]*e-rdim[k]!=0:{raise ValueError}}"), ("", "return Units(self.sys,rdim)")]
def exp_fn_neg : List (String × String) :=
  [("type(v)==list", "return [_neg(vi)forviinv]"), ("else", "return -v")]
def exp_fn_inv : List (String × String) :=
  [("type(v)==list", "return [_inv(vi)forviinv]"), ("type(v)==UnitValueortype(v)==UnitArray", "return v.invert()"), ("else", "return 1/v")]

/-- units.py still wires its operators the way the model was transcribed from -/
theorem operator_wiring :
    ([Gen.uvalWiring, Gen.uval_sum, Gen.uval_product, Gen.uval_modulo, Gen.uval_rmodulo, Gen.uvalPow, Gen.uvalRpow, Gen.uarrWiring, Gen.uarr_sum, Gen.uarr_product, Gen.uarr_modulo, Gen.uarr_rmodulo, Gen.uarrPow, Gen.uarrRpow, Gen.uvalCmp_eq, Gen.units_invert, Gen.units_multiply, Gen.units_raiseto, Gen.fn_neg, Gen.fn_inv] : List (List (String × String))) =
      [exp_uvalWiring, exp_uval_sum, exp_uval_product, exp_uval_modulo, exp_uval_rmodulo, exp_uvalPow, exp_uvalRpow, exp_uarrWiring, exp_uarr_sum, exp_uarr_product, exp_uarr_modulo, exp_uarr_rmodulo, exp_uarrPow, exp_uarrRpow, exp_uvalCmp_eq, exp_units_invert, exp_units_multiply, exp_units_raiseto, exp_fn_neg, exp_fn_inv] ∧
    ([Gen.uvalCmpMethods, Gen.uarrCmpMethods] : List (List String)) = [exp_uvalCmpMethods, exp_uarrCmpMethods] := by
  decide +kernel

/-- the ordering methods of `UnitValue`: the two first branches as transcribed; the last branch either returns the
`TypeError` (as found, known finding `cmp-array-returns-exception-object`) or raises it (the proposed fix) —
the model reads which (`cmpElseRaises`) -/
theorem comparison_wiring :
    ∀ p ∈ [(Gen.uvalCmp_gt, exp_uvalCmp_gt), (Gen.uvalCmp_ge, exp_uvalCmp_ge), (Gen.uvalCmp_lt, exp_uvalCmp_lt),
           (Gen.uvalCmp_le, exp_uvalCmp_le)],
      p.1 = p.2 ∨ p.1 = p.2.dropLast ++ [("else", "raise TypeError")] := by
  decide +kernel

/-! ## the homomorphism -/

/-- the trusted primitive `pyPow` (real power of a positive number) is multiplicative and agrees with integer
powers wherever the resulting exponent is an integer -/
structure PowContract (pyPow : Rat → Rat → Rat) : Prop where
  mul : ∀ x y e, 0 < x → 0 < y → pyPow (x * y) e = pyPow x e * pyPow y e
  zpow : ∀ x (k m : Int) e, 0 < x → (k : Rat) * e = m → pyPow (x ^ k) e = x ^ m

/-- **C05, main theorem.**  For every expression tree over numbers, quantities and quantity arrays whose
quantity leaves carry valid unit systems (the invariant of `UnitsSystem`): if the code's evaluation returns `r`,
exact arithmetic on the SI values and dimension vectors of the leaves returns the SI reading of `r`
(value(s) in SI base units, dimension vector, and the system `r` is expressed in — consulted only to read
a plain number standing next to a quantity in `+ - %`, which the property says takes that quantity's units);
and the code raises exactly when the SI-level evaluation is an error (different dimensions in `+ - %`,
lengths, non-integer exponent, zero divisor).
`hp : PowHom pyPow` is the same statement for the single operator `**`; see `powHom_*` below for what is
proved of it. -/
theorem eval_homomorphism (pyPow : Rat → Rat → Rat) (hp : PowHom pyPow) (e : Expr) (he : e.wf) :
    (∀ r, eval pyPow e = .ok r → evalSI pyPow e = .ok (siOf r)) ∧
    ((eval pyPow e).isError = true ↔ (evalSI pyPow e).isError = true) := by
  have h := eval_sim pyPow hp e he
  constructor
  · intro r hr
    rw [hr] at h
    exact h.1
  · cases hev : eval pyPow e with
    | ok r => rw [hev] at h; simp [Res.isError, h.1]
    | error er => rw [hev] at h; obtain ⟨e', h'⟩ := h; simp [Res.isError, h']

/-- `**`: every operand pairing other than `UnitValue ** number` agrees with the specification outright
(number ** number is the same function on both sides, everything else raises on both sides), so `PowHom` reduces
to the scalar case.
`eval_homomorphism` is therefore PARTIAL in one respect: the scalar case `hv` (the SI value of `x ** e` is
`(SI value of x) ** e`, which for non-integer `e` needs `PowContract pyPow`, and the equivalence of `raiseto` with
`dimPow`, for which see `pow_defined_iff`) is a hypothesis, not yet derived from `PowContract`; the correspondence
check compares `**` on every generated tree (integer exponents −3..3 exactly, 1/2, 1/3, 2/3, 3/2 to 1e-9). -/
theorem powHom_of_scalar (pyPow : Rat → Rat → Rat)
    (hv : ∀ (x : UVal) (e : Rat), x.u.sys.valid = true →
      Sim (powOp pyPow (.val x) (.num e)) (siPow pyPow (siOf (.val x)) (.num e))) : PowHom pyPow := by
  intro a b ha hb
  cases a with
  | num m =>
    cases b with
    | num e =>
      simp only [powOp, siPow, siOf]
      cases powVal pyPow m e <;> simp [Sim, siOf, Operand.wf]
    | val y => simp [powOp, siPow, siOf, Sim]
    | arr y => simp [powOp, siPow, siOf, Sim]
  | val x =>
    cases b with
    | num e => exact hv x e ha
    | val y => simp [powOp, siPow, siOf, Sim]
    | arr y => simp [powOp, siPow, siOf, Sim]
  | arr x => cases b <;> simp [powOp, siPow, siOf, Sim]

/-- one operator application, all nine operand-type pairings, forward and reflected methods -/
theorem binop_homomorphism (op : BinOp) (a b : Operand) (ha : a.wf) (hb : b.wf) :
    (∀ r, binop op a b = .ok r → siBin op (siOf a) (siOf b) = .ok (siOf r)) ∧
    ((binop op a b).isError = true ↔ (siBin op (siOf a) (siOf b)).isError = true) := by
  have h := binop_sim op a b ha hb
  constructor
  · intro r hr; rw [hr] at h; exact h.1
  · cases hev : binop op a b with
    | ok r => rw [hev] at h; simp [Res.isError, h.1]
    | error er => rw [hev] at h; obtain ⟨e', h'⟩ := h; simp [Res.isError, h']

/-- results keep the invariant (valid system), so trees compose -/
theorem binop_wf (op : BinOp) (a b : Operand) (ha : a.wf) (hb : b.wf) {r : Operand} (h : binop op a b = .ok r) :
    r.wf := by
  have hs := binop_sim op a b ha hb
  rw [h] at hs
  exact hs.2

/-! ## corollaries: independence of storage and of operand order (quantity operands) -/

/-- re-expressing a scalar quantity in another valid system does not change its SI reading -/
theorem toSys_si (x : UVal) (_hx : x.u.sys.valid = true) {U : Sys} (hU : U.valid = true) :
    (x.toSys U).si = x.si ∧ (x.toSys U).u.dim = x.u.dim := by
  refine ⟨?_, rfl⟩
  simp only [UVal.toSys, UVal.si]
  rw [mul_assoc, convFactor_mul_siFactor _ hU]

theorem toSys_si_array (x : UArr) (_hx : x.u.sys.valid = true) {U : Sys} (hU : U.valid = true) :
    (x.toSys U).si = x.si ∧ (x.toSys U).u.dim = x.u.dim := by
  refine ⟨?_, rfl⟩
  simp only [UArr.toSys, UArr.si, List.map_map]
  apply List.map_congr_left
  intro a _
  simp only [Function.comp]
  rw [mul_assoc, convFactor_mul_siFactor _ hU]

/-- SI value(s) and dimension of a result, forgetting the storage system -/
def core : SIVal → Option (Pay × Dim)
  | .num _ => none
  | .qty p d _ => some (p, d)

/-- the SI value and dimension of `a op b` for two quantities depend only on the SI values and dimensions of
`a` and `b`, not on the unit systems they are stored in: stated for the spec, which by `binop_homomorphism`
is what the code computes -/
theorem result_independent_of_storage (op : BinOp) (p p' : Pay) (d d' : Dim) (s s' t t' : Sys) :
    (siBin op (.qty p d s) (.qty p' d' s')).toOption.bind core =
    (siBin op (.qty p d t) (.qty p' d' t')).toOption.bind core := by
  simp only [siBin]
  split <;> split <;> (try split) <;> (try split) <;>
    simp [qtyOk, Except.toOption, core] <;> (cases Pay.zip (ratOp op) p p' <;> simp [Except.toOption, core])

/-- … in particular for the code: the same operands stored in other systems give the same SI result -/
theorem result_independent_of_storage_code (op : BinOp) (x y : UVal) (hx : x.u.sys.valid = true)
    (hy : y.u.sys.valid = true) {U V : Sys} (hU : U.valid = true) (hV : V.valid = true) {r r' : Operand}
    (h : binop op (.val x) (.val y) = .ok r) (h' : binop op (.val (x.toSys U)) (.val (y.toSys V)) = .ok r') :
    core (siOf r) = core (siOf r') := by
  have a := (binop_homomorphism op (.val x) (.val y) hx hy).1 r h
  have b := (binop_homomorphism op (.val (x.toSys U)) (.val (y.toSys V)) hU hV).1 r' h'
  have e := result_independent_of_storage op (.one x.si) (.one y.si) x.u.dim y.u.dim x.u.sys y.u.sys U V
  change siBin op (.qty (.one x.si) x.u.dim x.u.sys) (.qty (.one y.si) y.u.dim y.u.sys) = _ at a
  change siBin op (.qty (.one (x.toSys U).si) x.u.dim U) (.qty (.one (y.toSys V).si) y.u.dim V) = _ at b
  rw [(toSys_si x hx hU).1, (toSys_si y hy hV).1] at b
  rw [a, b] at e
  simpa [Except.toOption] using e

/-- `a + b` and `b + a` (scalar quantities, any two systems) have the same SI value and dimension -/
theorem add_comm_si (x y : UVal) (hx : x.u.sys.valid = true) (hy : y.u.sys.valid = true) {r r' : Operand}
    (h : binop .add (.val x) (.val y) = .ok r) (h' : binop .add (.val y) (.val x) = .ok r') :
    core (siOf r) = core (siOf r') := by
  have a := (binop_homomorphism .add (.val x) (.val y) hx hy).1 r h
  have b := (binop_homomorphism .add (.val y) (.val x) hy hx).1 r' h'
  change siBin .add (.qty (.one x.si) x.u.dim x.u.sys) (.qty (.one y.si) y.u.dim y.u.sys) = _ at a
  change siBin .add (.qty (.one y.si) y.u.dim y.u.sys) (.qty (.one x.si) x.u.dim x.u.sys) = _ at b
  by_cases hd : x.u.dim = y.u.dim
  · simp [siBin, BinOp.additive, BinOp.needsNonZero, qtyOk, Pay.zip, ratOp, hd] at a b
    rw [← a, ← b]; simp [core, add_comm, hd]
  · have hd' : ¬ y.u.dim = x.u.dim := fun e => hd e.symm
    simp [siBin, BinOp.additive, hd] at a

/-- `a * b` and `b * a` -/
theorem mul_comm_si (x y : UVal) (hx : x.u.sys.valid = true) (hy : y.u.sys.valid = true) {r r' : Operand}
    (h : binop .mul (.val x) (.val y) = .ok r) (h' : binop .mul (.val y) (.val x) = .ok r') :
    core (siOf r) = core (siOf r') := by
  have a := (binop_homomorphism .mul (.val x) (.val y) hx hy).1 r h
  have b := (binop_homomorphism .mul (.val y) (.val x) hy hx).1 r' h'
  change siBin .mul (.qty (.one x.si) x.u.dim x.u.sys) (.qty (.one y.si) y.u.dim y.u.sys) = _ at a
  change siBin .mul (.qty (.one y.si) y.u.dim y.u.sys) (.qty (.one x.si) x.u.dim x.u.sys) = _ at b
  simp [siBin, BinOp.additive, BinOp.needsNonZero, qtyOk, Pay.zip, ratOp] at a b
  rw [← a, ← b]
  simp [core, mul_comm, Dim.add, add_comm]

/-- `a - b = -(b - a)` in SI -/
theorem sub_antisymm (x y : UVal) (hx : x.u.sys.valid = true) (hy : y.u.sys.valid = true) {r r' : Operand}
    (h : binop .sub (.val x) (.val y) = .ok r) (h' : binop .sub (.val y) (.val x) = .ok r') :
    core (siOf r) = core (siNeg (siOf r')) := by
  have a := (binop_homomorphism .sub (.val x) (.val y) hx hy).1 r h
  have b := (binop_homomorphism .sub (.val y) (.val x) hy hx).1 r' h'
  change siBin .sub (.qty (.one x.si) x.u.dim x.u.sys) (.qty (.one y.si) y.u.dim y.u.sys) = _ at a
  change siBin .sub (.qty (.one y.si) y.u.dim y.u.sys) (.qty (.one x.si) x.u.dim x.u.sys) = _ at b
  by_cases hd : x.u.dim = y.u.dim
  · simp [siBin, BinOp.additive, BinOp.needsNonZero, qtyOk, Pay.zip, ratOp, hd] at a b
    rw [← a, ← b]; simp [core, siNeg, Pay.map, hd]
  · simp [siBin, BinOp.additive, hd] at a

/-- `%` : the SI value of `a % b` is `si a mod si b` (Python's sign-of-divisor modulo), whatever the two systems -/
theorem mod_si (x y : UVal) (hx : x.u.sys.valid = true) (hy : y.u.sys.valid = true) {r : Operand}
    (h : binop .mod (.val x) (.val y) = .ok r) :
    ∃ q : UVal, r = .val q ∧ q.si = pyMod x.si y.si ∧ q.u.dim = x.u.dim ∧ y.u.dim = x.u.dim ∧ y.si ≠ 0 := by
  simp only [binop, UVal.dunder, UVal.modulo] at h
  split at h
  · rename_i hd
    split at h
    · cases h
    · rename_i h0
      cases h
      refine ⟨_, rfl, ?_, rfl, hd.symm, ?_⟩
      · simp only [UVal.si, UVal.toSys]
        rw [hd, pyMod_conv hx]
      · simp only [UVal.toSys] at h0
        simp only [UVal.si]
        exact mul_ne_zero (fun e => h0 (by rw [e, zero_mul])) (siFactor_ne hy _)
  · cases h

/-! ## errors: dimensionally meaningless operations raise -/

/-- `+ - %` of two quantities (scalar or array, either order) with different dimensions raise -/
theorem additive_other_dim_raises (op : BinOp) (hop : op.additive = true) (a b : Operand)
    (ha : a.wf) (hb : b.wf) (da db : Dim) (sa sb : Sys) (pa pb : Pay)
    (hsa : siOf a = .qty pa da sa) (hsb : siOf b = .qty pb db sb) (hd : da ≠ db) :
    (binop op a b).isError = true := by
  rw [(binop_homomorphism op a b ha hb).2, hsa, hsb]
  simp [siBin, hop, hd, Res.isError]

/-- arrays of different length raise, for every operator -/
theorem array_length_mismatch_raises (op : BinOp) (x y : UArr) (hx : x.u.sys.valid = true)
    (hy : y.u.sys.valid = true) (hl : x.vs.length ≠ y.vs.length) :
    (binop op (.arr x) (.arr y)).isError = true := by
  rw [(binop_homomorphism op (.arr x) (.arr y) hx hy).2]
  have hl' : x.si.length ≠ y.si.length := by simpa [UArr.si] using hl
  simp only [siBin, siOf]
  split <;> (try split) <;> (try split) <;> simp_all [qtyOk, Pay.zip, Res.isError]

/-- `UnitArray ** n` raises, whatever `n` is; so does anything raised to a quantity -/
theorem array_pow_raises (pyPow : Rat → Rat → Rat) (x : UArr) (v : Operand) :
    powOp pyPow (.arr x) v = .error .notImplemented := by
  cases v <;> rfl

theorem pow_quantity_exponent_raises (pyPow : Rat → Rat → Rat) (a : Operand) (b : Operand)
    (hb : ∀ n, b ≠ .num n) : (powOp pyPow a b).isError = true := by
  cases a <;> cases b <;> simp_all [powOp, Res.isError]

/-- `raiseto`: a component is defined only when `dim · e` is an integer, and is then that integer -/
theorem raiseDim_ok_iff (d : Int) (e : Rat) (m : Int) :
    raiseDim d e = .ok m ↔ (d : Rat) * e = m := by
  unfold raiseDim
  constructor
  · intro h
    split at h
    · cases h
    · rename_i h0
      cases h
      have := not_not.mp h0
      exact sub_eq_zero.mp this
  · intro h
    have ht : ratTrunc ((d : Rat) * e) = m := by
      rw [h]; unfold ratTrunc
      split
      · exact Rat.floor_intCast m
      · have : (-(m : Rat)) = ((-m : Int) : Rat) := by push_cast; rfl
        rw [this, Rat.floor_intCast]; omega
    rw [ht, h]; simp

/-- `UnitValue ** e` is defined iff every `dim_k · e` is an integer (and the value is: no `0 ** negative`, no
negative base with a fractional exponent); the resulting dimension is `dim · e` -/
theorem pow_defined_iff (u : Units) (e : Rat) (u' : Units) :
    u.raiseto e = .ok u' ↔
      u'.sys = u.sys ∧ (u.dim.space : Rat) * e = u'.dim.space ∧ (u.dim.time : Rat) * e = u'.dim.time ∧
        (u.dim.qty : Rat) * e = u'.dim.qty := by
  unfold Units.raiseto
  constructor
  · intro h
    split at h
    · cases h
    · rename_i a ha
      split at h
      · cases h
      · rename_i b hb
        split at h
        · cases h
        · rename_i c hc
          cases h
          exact ⟨rfl, (raiseDim_ok_iff _ _ _).1 ha, (raiseDim_ok_iff _ _ _).1 hb, (raiseDim_ok_iff _ _ _).1 hc⟩
  · rintro ⟨hs, h1, h2, h3⟩
    rw [(raiseDim_ok_iff _ _ _).2 h1, (raiseDim_ok_iff _ _ _).2 h2, (raiseDim_ok_iff _ _ _).2 h3]
    cases u' with | mk s d => cases d; simp_all

/-- a non-integer resulting exponent raises -/
theorem pow_nonint_raises (pyPow : Rat → Rat → Rat) (x : UVal) (e : Rat)
    (h : ¬ ∃ m : Int, (x.u.dim.space : Rat) * e = m) : (powOp pyPow (.val x) (.num e)).isError = true := by
  simp only [powOp, UVal.pow]
  cases powVal pyPow x.v e with
  | error er => simp [Res.isError]
  | ok w =>
    cases hr : x.u.raiseto e with
    | error er => simp [Res.isError]
    | ok u' => exact absurd ⟨_, ((pow_defined_iff _ _ _).1 hr).2.1⟩ h

/-! ## comparisons -/

/-- value–value and value–number comparisons (either order) are the comparison of the SI values; across
dimensions `==` is `False`, `!=` is `True` and the orderings raise.
FULL STATEMENT (not provable, see the witness below): `∀ a b wf, evalCmp … = .ok (.bool v) ↔ evalCmpSI … = .ok v`, and
`evalCmp` raises iff `evalCmpSI` is an error — it fails for a `UnitArray` operand of an ordering operator, where the
code returns an exception object. This `_partial` theorem excludes array operands. -/
theorem cmp_si_partial (op : CmpOp) (a b : Operand) (ha : a.wf) (hb : b.wf)
    (na : ∀ x, a ≠ .arr x) (nb : ∀ x, b ≠ .arr x) :
    (∀ v, cmpOp op a b = .ok (.bool v) ↔ siCmp op (siOf a) (siOf b) = .ok v) ∧
    ((cmpOp op a b).isError = true ↔ (siCmp op (siOf a) (siOf b)).isError = true) ∧
    cmpOp op a b ≠ .ok .excObject := by
  cases a with
  | arr x => exact absurd rfl (na x)
  | num m =>
    cases b with
    | arr y => exact absurd rfl (nb y)
    | num n => simp [cmpOp, siCmp, siOf, Res.isError]
    | val y =>
      have hy : y.u.sys.valid = true := hb
      have hF := siFactor_pos hy y.u.dim
      cases op <;> simp [cmpOp, UVal.cmp, CmpOp.swap, cmpRat, siCmp, siOf, Res.isError, UVal.si, hF, ne_of_gt hF,
        mul_lt_mul_iff_of_pos_right, mul_le_mul_iff_of_pos_right, eq_comm]
  | val x =>
    have hx : x.u.sys.valid = true := ha
    have hF := siFactor_pos hx x.u.dim
    cases b with
    | arr y => exact absurd rfl (nb y)
    | num n =>
      cases op <;> simp [cmpOp, UVal.cmp, cmpRat, siCmp, siOf, Res.isError, UVal.si, hF, ne_of_gt hF,
        mul_lt_mul_iff_of_pos_right, mul_le_mul_iff_of_pos_right]
    | val y =>
      have hy : y.u.sys.valid = true := hb
      by_cases hd : x.u.dim = y.u.dim
      · have hF' := siFactor_pos hx y.u.dim
        have hc : ∀ a b : Rat, b * siFactor y.u.sys y.u.dim = b * convFactor y.u.sys x.u.sys y.u.dim * siFactor x.u.sys y.u.dim := by
          intro a b; rw [mul_assoc, convFactor_mul_siFactor _ hx]
        cases op <;> simp [cmpOp, UVal.cmp, cmpRat, siCmp, siOf, Res.isError, UVal.si, UVal.toSys, hd, hc 0, hF', ne_of_gt hF',
          mul_lt_mul_iff_of_pos_right, mul_le_mul_iff_of_pos_right]
        all_goals (first | rfl | (congr; done) | (constructor <;> (by_cases hh : x.v = y.v * convFactor y.u.sys x.u.sys y.u.dim <;> simp [hh])))
      · cases op <;> simp [cmpOp, UVal.cmp, siCmp, siOf, Res.isError, hd]

/-- different dimensions: the orderings raise, `==` is `False`, `!=` is `True` -/
theorem cmp_other_dim (x y : UVal) (hd : x.u.dim ≠ y.u.dim) :
    cmpOp .eq (.val x) (.val y) = .ok (.bool false) ∧ cmpOp .ne (.val x) (.val y) = .ok (.bool true) ∧
    (∀ op : CmpOp, op.isOrdering = true → cmpOp op (.val x) (.val y) = .error .dimMismatch) := by
  refine ⟨by simp [cmpOp, UVal.cmp, hd], by simp [cmpOp, UVal.cmp, hd], ?_⟩
  intro op ho
  cases op <;> simp_all [cmpOp, UVal.cmp, CmpOp.isOrdering]

/-- KNOWN FINDING `cmp-array-returns-exception-object` (negation witness of the full comparison statement):
as long as the last branch of the ordering methods `return`s its `TypeError` (`cmpElseRaises op = false`, read from
the regenerated source), `UnitValue < UnitArray` and `UnitArray < UnitValue` do not raise and are not booleans — the
model, like the code, returns the exception object; once the branch raises, both raise. -/
theorem cmp_array_returns_exception_object (op : CmpOp) (ho : op.isOrdering = true) (x : UVal) (y : UArr) :
    (cmpElseRaises op = false → cmpOp op (.val x) (.arr y) = .ok .excObject) ∧
    (cmpElseRaises op.swap = false → cmpOp op (.arr y) (.val x) = .ok .excObject) ∧
    (cmpElseRaises op = true → (cmpOp op (.val x) (.arr y)).isError = true) ∧
    (cmpElseRaises op.swap = true → (cmpOp op (.arr y) (.val x)).isError = true) := by
  refine ⟨?_, ?_, ?_, ?_⟩ <;> intro h <;> cases op <;>
    simp_all [cmpOp, UVal.cmp, CmpOp.swap, CmpOp.isOrdering, Res.isError]

/-- the witness on the tree under test: `3 m < [1000, 2000] mm` is the exception object exactly when the regenerated
`__lt__` returns (does not raise) its `TypeError` -/
example : (cmpOp .lt (.val ⟨3, ⟨⟨"m", "s", "mol"⟩, ⟨1, 0, 0⟩⟩⟩) (.arr ⟨[1000, 2000], ⟨⟨"mm", "s", "mol"⟩, ⟨1, 0, 0⟩⟩⟩)
    = .ok .excObject) ↔ cmpElseRaises .lt = false := by decide

/-! ## non-vacuity -/

example : (Operand.val ⟨3, ⟨⟨"m", "s", "mol"⟩, ⟨1, 0, 0⟩⟩⟩).wf ∧ (Operand.arr ⟨[1000, 2000], ⟨⟨"mm", "s", "mol"⟩, ⟨1, 0, 0⟩⟩⟩).wf := by
  constructor <;> (show Sys.valid _ = true; decide +kernel)

/-- 3 m + [1000, 2000] mm = [4, 5] m -/
example : binop .add (.val ⟨3, ⟨⟨"m", "s", "mol"⟩, ⟨1, 0, 0⟩⟩⟩) (.arr ⟨[1000, 2000], ⟨⟨"mm", "s", "mol"⟩, ⟨1, 0, 0⟩⟩⟩)
    = .ok (.arr ⟨[4, 5], ⟨⟨"m", "s", "mol"⟩, ⟨1, 0, 0⟩⟩⟩) := by decide +kernel

/-- 1 − 3 m = −2 m (reflected subtraction) ;  7.5 % 2 m = 1.5 m ; −7.5 % 2 m = 0.5 m (sign of the divisor) -/
example : binop .sub (.num 1) (.val ⟨3, ⟨⟨"m", "s", "mol"⟩, ⟨1, 0, 0⟩⟩⟩) = .ok (.val ⟨-2, ⟨⟨"m", "s", "mol"⟩, ⟨1, 0, 0⟩⟩⟩) := by
  decide +kernel
example : binop .mod (.num (-15/2)) (.val ⟨2, ⟨⟨"m", "s", "mol"⟩, ⟨1, 0, 0⟩⟩⟩) = .ok (.val ⟨1/2, ⟨⟨"m", "s", "mol"⟩, ⟨1, 0, 0⟩⟩⟩) := by
  decide +kernel

/-- (8 m³) ** (2/3) has dimension m²; (2 m) ** (1/2) raises -/
example : (⟨⟨"m", "s", "mol"⟩, ⟨3, 0, 0⟩⟩ : Units).raiseto (2/3) = .ok ⟨⟨"m", "s", "mol"⟩, ⟨2, 0, 0⟩⟩ := by decide +kernel
example : (⟨⟨"m", "s", "mol"⟩, ⟨1, 0, 0⟩⟩ : Units).raiseto (1/2) = .error .badValue := by decide +kernel

end Strengths.C05
