/-
C05 — Arithmetic on quantities is arithmetic on their SI values, or an error.

Model: `Strengths/Model/UnitsArith.lean` (`eval`, `evalCmp`: the operator methods of UnitValue / UnitArray and
Python's dispatch, line by line).  Spec: `evalSI`, `evalCmpSI` in the same file (SI values + dimension vectors).
The operator wiring of units.py is regenerated on every run (`Strengths.Gen.UnitsOps`) and compared, by kernel
evaluation, with the transcription the hand-written model was built from (`operator_wiring`).
-/
import Strengths.Proofs.UnitsArith
import Strengths.Gen.UnitsOps

namespace Strengths.C05
open Strengths
set_option linter.unusedSimpArgs false

/-! ## the wiring the model implements (transcribed from units.py; each entry names the model definition) -/

-- uvalWiring / uarrWiring ↦ `UVal.dunder`, `UVal.rdunder`, `Operand.neg`, `Operand.abs`, `UVal.invert` (resp. `UArr.*`)
-- uval_sum … uarr_rmodulo ↦ `UVal.sum` … `UArr.rmodulo` (branch order, dimension test, length test, element expression)
-- uvalPow/uvalRpow/uarrPow/uarrRpow ↦ `powOp`, `UVal.pow`;  units_raiseto ↦ `Units.raiseto`/`raiseDim`
-- uvalCmp_* , *CmpMethods ↦ `UVal.cmp`, `cmpOp` (note `return TypeError("")` in the last branch of the orderings)
-- fn_neg / fn_inv ↦ `Operand.neg` / `Operand.inv`;  units_invert / units_multiply ↦ `Units.invert` / `Units.multiply`
def exp_uvalWiring : List (String × String) :=
  [("__add__", "self._sum(v)"), ("__radd__", "self._sum(v)"), ("__sub__", "self._sum(_neg(v))"), ("__rsub__", "_neg(self._sum(_neg(v)))"), ("__mul__", "self._product(v)"), ("__rmul__", "self._product(v)"), ("__truediv__", "self._product(_inv(v))"), ("__rtruediv__", "self.invert()._product(v)"), ("__mod__", "self._modulo(v)"), ("__rmod__", "self._rmodulo(v)"), ("__neg__", "UnitValue(-self.value,self.units)"), ("__abs__", "UnitValue(abs(self.value),self.units)"), ("invert", "UnitValue(1/self.value,self.units.invert())")]
def exp_uval_sum : List (String × String) :=
  [("type(v)==UnitValue", "if self.units.dim==v.units.dim:{return UnitValue(self.value+v.convert(self.units.sys).value,self.units)}else:{raise ValueError}"), ("isnumber(v)", "return UnitValue(self.value+v,self.units)"), ("type(v)==UnitArray", "if self.units.dim!=v.units.dim:{raise ValueError};v=v.convert(self.units.sys);return UnitArray([self.value+v.value[i]foriinrange(len(v))],self.units)"), ("else", "raise ValueError")]
def exp_uval_product : List (String × String) :=
  [("type(v)==UnitValue", "v=v.convert(self.units.sys);return UnitValue(self.value*v.value,self.units.multiply(v.units))"), ("isnumber(v)", "return UnitValue(self.value*v,self.units)"), ("type(v)==UnitArray", "v=v.convert(self.units.sys);return UnitArray([self.value*v.value[i]foriinrange(len(v))],self.units.multiply(v.units))"), ("else", "raise ValueError")]
def exp_uval_modulo : List (String × String) :=
  [("type(mod)==UnitValue", "if self.units.dim==mod.units.dim:{return UnitValue(self.value%mod.convert(self.units.sys).value,self.units)}else:{raise ValueError}"), ("isnumber(mod)", "return UnitValue(self.value%mod,self.units)"), ("type(mod)==UnitArray", "if self.units.dim!=mod.units.dim:{raise ValueError};mod=mod.convert(self.units.sys);return UnitArray([self.value%mod.value[i]foriinrange(len(mod))],self.units)"), ("else", "raise ValueError")]
def exp_uval_rmodulo : List (String × String) :=
  [("type(v)==UnitValue", "if self.units.dim==v.units.dim:{return UnitValue(v.convert(self.units.sys).value%self.value,self.units)}else:{raise ValueError}"), ("isnumber(v)", "return UnitValue(v%self.value,self.units)"), ("type(v)==UnitArray", "if self.units.dim!=v.units.dim:{raise ValueError};v=v.convert(self.units.sys);return UnitArray([v.value[i]%self.valueforiinrange(len(v))],self.units)"), ("else", "raise ValueError")]
def exp_uvalPow : List (String × String) :=
  [("isnumber(v)", "return UnitValue(self.value**v,self.units.raiseto(v))"), ("else", "raise TypeError")]
def exp_uvalRpow : List (String × String) :=
  [("", "raise NotImplementedError")]
def exp_uvalCmpMethods : List String :=
  ["__eq__", "__neq__", "__gt__", "__ge__", "__lt__", "__le__"]
def exp_uarrWiring : List (String × String) :=
  [("__add__", "self._sum(v)"), ("__radd__", "self._sum(v)"), ("__sub__", "self._sum(_neg(v))"), ("__rsub__", "_neg(self._sum(_neg(v)))"), ("__mul__", "self._product(v)"), ("__rmul__", "self._product(v)"), ("__truediv__", "self._product(_inv(v))"), ("__rtruediv__", "self.invert()._product(v)"), ("__mod__", "self._modulo(v)"), ("__rmod__", "self._rmodulo(v)"), ("__neg__", "UnitArray(-self.value,self.units)"), ("__abs__", "UnitArray(abs(self.value),self.units)"), ("invert", "UnitArray(1/self.value,self.units.invert())")]
def exp_uarr_sum : List (String × String) :=
  [("type(v)==UnitValue", "if self.units.dim!=v.units.dim:{raise ValueError};v=v.convert(self.units.sys);return UnitArray([self.value[i]+v.valueforiinrange(len(self))],self.units)"), ("isnumber(v)", "return UnitArray([self.value[i]+vforiinrange(len(self))],self.units)"), ("type(v)==UnitArray", "if self.units.dim!=v.units.dim:{raise ValueError};if len(self)!=len(v):{raise ValueError};v=v.convert(self.units.sys);return UnitArray([self.value[i]+v.value[i]foriinrange(len(self))],self.units)"), ("else", "raise ValueError")]
def exp_uarr_product : List (String × String) :=
  [("type(v)==UnitValue", "v=v.convert(self.units.sys);return UnitArray([self.value[i]*v.valueforiinrange(len(self))],self.units.multiply(v.units))"), ("isnumber(v)", "return UnitArray([self.value[i]*vforiinrange(len(self))],self.units)"), ("type(v)==UnitArray", "if len(self)!=len(v):{raise ValueError};v=v.convert(self.units.sys);return UnitArray([self.value[i]*v.value[i]foriinrange(len(self))],self.units.multiply(v.units))"), ("else", "raise ValueError")]
def exp_uarr_modulo : List (String × String) :=
  [("type(mod)==UnitValue", "if self.units.dim!=mod.units.dim:{raise ValueError};mod=mod.convert(self.units.sys);return UnitArray([self.value[i]%mod.valueforiinrange(len(self))],self.units)"), ("isnumber(mod)", "return UnitArray([self.value[i]%modforiinrange(len(self))],self.units)"), ("type(mod)==UnitArray", "if self.units.dim!=mod.units.dim:{raise ValueError};if len(self)!=len(mod):{raise ValueError};mod=mod.convert(self.units.sys);return UnitArray([self.value[i]%mod.value[i]foriinrange(len(self))],self.units)"), ("else", "raise ValueError")]
def exp_uarr_rmodulo : List (String × String) :=
  [("type(v)==UnitValue", "if self.units.dim!=v.units.dim:{raise ValueError};v=v.convert(self.units.sys);return UnitArray([v.value%self.value[i]foriinrange(len(self))],self.units)"), ("isnumber(v)", "return UnitArray([v%self.value[i]foriinrange(len(self))],self.units)"), ("type(v)==UnitArray", "if self.units.dim!=v.units.dim:{raise ValueError};if len(self)!=len(v):{raise ValueError};v=v.convert(self.units.sys);return UnitArray([v.value[i]%self.value[i]foriinrange(len(self))],self.units)"), ("else", "raise ValueError")]
def exp_uarrPow : List (String × String) :=
  [("", "raise NotImplementedError")]
def exp_uarrRpow : List (String × String) :=
  [("", "raise ValueError")]
def exp_uarrCmpMethods : List String :=
  []
def exp_uvalCmp_eq : List (String × String) :=
  [("type(v)==UnitValue", "if self.units.dim==v.units.dim:{return self.value==v.convert(self.units.sys).value}else:{return False}"), ("isnumber(v)", "return self.value==v"), ("else", "return False")]
def exp_uvalCmp_gt : List (String × String) :=
  [("type(v)==UnitValue", "if self.units.dim==v.units.dim:{return self.value>v.convert(self.units.sys).value}else:{raise ValueError}"), ("isnumber(v)", "return self.value>v"), ("else", "return TypeError(\"\")")]
def exp_uvalCmp_ge : List (String × String) :=
  [("type(v)==UnitValue", "if self.units.dim==v.units.dim:{return self.value>=v.convert(self.units.sys).value}else:{raise ValueError}"), ("isnumber(v)", "return self.value>=v"), ("else", "return TypeError(\"\")")]
def exp_uvalCmp_lt : List (String × String) :=
  [("type(v)==UnitValue", "if self.units.dim==v.units.dim:{return self.value<v.convert(self.units.sys).value}else:{raise ValueError}"), ("isnumber(v)", "return self.value<v"), ("else", "return TypeError(\"\")")]
def exp_uvalCmp_le : List (String × String) :=
  [("type(v)==UnitValue", "if self.units.dim==v.units.dim:{return self.value<=v.convert(self.units.sys).value}else:{raise ValueError}"), ("isnumber(v)", "return self.value<=v"), ("else", "return TypeError(\"\")")]
def exp_units_invert : List (String × String) :=
  [("", "invdim=UnitsDimensions()"), ("", "for k in self.dim.keys():{invdim[k]=-self.dim[k]}"), ("", "return Units(self.sys,invdim)")]
def exp_units_multiply : List (String × String) :=
  [("type(u)!=Units", "raise ValueError"), ("self.sys!=u.sys", "raise ValueError"), ("", "sdim=UnitsDimensions()"), ("", "for k in self.dim.keys():{sdim[k]=self.dim[k]+u.dim[k]}"), ("", "return Units(self.sys,sdim)")]
def exp_units_raiseto : List (String × String) :=
  [("", "rdim=UnitsDimensions()"), ("", "for k in self.dim.keys():{rdim[k]=int(self.dim[k]*e);if self.dim[k]*e-rdim[k]!=0:{raise ValueError}}"), ("", "return Units(self.sys,rdim)")]
def exp_fn_neg : List (String × String) :=
  [("type(v)==list", "return [_neg(vi)forviinv]"), ("else", "return -v")]
def exp_fn_inv : List (String × String) :=
  [("type(v)==list", "return [_inv(vi)forviinv]"), ("type(v)==UnitValueortype(v)==UnitArray", "return v.invert()"), ("else", "return 1/v")]

/-- units.py still wires its operators the way the model was transcribed from -/
theorem operator_wiring :
    ([Gen.uvalWiring, Gen.uval_sum, Gen.uval_product, Gen.uval_modulo, Gen.uval_rmodulo, Gen.uvalPow, Gen.uvalRpow, Gen.uarrWiring, Gen.uarr_sum, Gen.uarr_product, Gen.uarr_modulo, Gen.uarr_rmodulo, Gen.uarrPow, Gen.uarrRpow, Gen.uvalCmp_eq, Gen.units_invert, Gen.units_multiply, Gen.units_raiseto, Gen.fn_neg, Gen.fn_inv] : List (List (String × String))) =
      [exp_uvalWiring, exp_uval_sum, exp_uval_product, exp_uval_modulo, exp_uval_rmodulo, exp_uvalPow, exp_uvalRpow, exp_uarrWiring, exp_uarr_sum, exp_uarr_product, exp_uarr_modulo, exp_uarr_rmodulo, exp_uarrPow, exp_uarrRpow, exp_uvalCmp_eq, exp_units_invert, exp_units_multiply, exp_units_raiseto, exp_fn_neg, exp_fn_inv] ∧
    ([Gen.uvalCmpMethods, Gen.uarrCmpMethods] : List (List String)) = [exp_uvalCmpMethods, exp_uarrCmpMethods] := by
  decide +kernel

/-- the ordering methods of `UnitValue`: the two first branches as transcribed; the last branch either returns the
`TypeError` (as found, known finding `cmp-array-returns-exception-object`) or raises it (the proposed fix) —
the model reads which (`cmpElseRaises`) -/
theorem comparison_wiring :
    ∀ p ∈ [(Gen.uvalCmp_gt, exp_uvalCmp_gt), (Gen.uvalCmp_ge, exp_uvalCmp_ge), (Gen.uvalCmp_lt, exp_uvalCmp_lt),
           (Gen.uvalCmp_le, exp_uvalCmp_le)],
      p.1 = p.2 ∨ p.1 = p.2.dropLast ++ [("else", "raise TypeError")] := by
  decide +kernel

/-! ## the homomorphism -/

/-- **Contract of the trusted primitive** `pyPow` (Python's `float ** e` for a non-integer `e = p/q`, `q > 1`, in
lowest terms, and a positive base), stated only where it can hold for a ℚ-valued function (a real power is
irrational in general):
* `root`: whenever the exact result is rational — a positive `r` with `r^q = x^p` exists — `pyPow` returns it;
* `scale`: perfect `q`-th powers come out of the root, `(x · y^q)^e = x^e · y^p`.
Both hold for the real power function; `powContract_satisfiable` exhibits a ℚ-valued function having both.
Integer exponents never reach `pyPow` (`powVal` uses the exact `v ^ n`). -/
structure PowContract (pyPow : Rat → Rat → Rat) : Prop where
  root : ∀ x e r : Rat, e.den ≠ 1 → 0 < x → 0 < r → r ^ e.den = x ^ e.num → pyPow x e = r
  scale : ∀ e : Rat, e.den ≠ 1 → PowScale pyPow e

/-- positive `q`-th roots are unique -/
theorem pos_root_unique {r r' : Rat} {q : Nat} (hq : q ≠ 0) (hr : 0 < r) (hr' : 0 < r') (h : r ^ q = r' ^ q) :
    r = r' := (pow_left_inj₀ (le_of_lt hr) (le_of_lt hr') hq).1 h

open Classical in
/-- the contract is satisfiable: return the exact positive rational root when there is one (and 0 otherwise) -/
theorem powContract_satisfiable : ∃ pyPow : Rat → Rat → Rat, PowContract pyPow := by
  let g : Rat → Rat → Rat := fun x e =>
    if h : ∃ r : Rat, 0 < r ∧ r ^ e.den = x ^ e.num then Classical.choose h else 0
  have hroot : ∀ x e r : Rat, 0 < r → r ^ e.den = x ^ e.num → g x e = r := by
    intro x e r hr hre
    have h : ∃ r : Rat, 0 < r ∧ r ^ e.den = x ^ e.num := ⟨r, hr, hre⟩
    have hc := Classical.choose_spec h
    simp only [g, dif_pos h]
    exact pos_root_unique e.den_nz hc.1 hr (hc.2.trans hre.symm)
  refine ⟨g, ⟨fun x e r _ _ hr hre => hroot x e r hr hre, ?_⟩⟩
  intro e _ x y hx hy
  have hyq : (y ^ e.den) ^ e.num = (y ^ e.num) ^ e.den := by
    rw [← zpow_natCast, ← zpow_mul, ← zpow_natCast (y ^ e.num), ← zpow_mul, mul_comm]
  by_cases h : ∃ r : Rat, 0 < r ∧ r ^ e.den = x ^ e.num
  · obtain ⟨r, hr, hre⟩ := h
    rw [hroot x e r hr hre]
    apply hroot
    · exact mul_pos hr (zpow_pos hy _)
    · rw [mul_pow, mul_zpow, hre, hyq]
  · have h' : ¬ ∃ r : Rat, 0 < r ∧ r ^ e.den = (x * y ^ e.den) ^ e.num := by
      rintro ⟨r, hr, hre⟩
      apply h
      refine ⟨r / y ^ e.num, div_pos hr (zpow_pos hy _), ?_⟩
      rw [div_pow, hre, mul_zpow, hyq]
      have : (y ^ e.num) ^ e.den ≠ 0 := ne_of_gt (pow_pos (zpow_pos hy _) _)
      field_simp
    simp only [g, dif_neg h, dif_neg h', zero_mul]

/-- a non-trivial value the contract pins down: `(8 m³)^(2/3)`: `pyPow 8 (2/3) = 4` -/
example (pyPow : Rat → Rat → Rat) (hc : PowContract pyPow) : pyPow 8 (2/3) = 4 := by
  apply hc.root 8 (2/3) 4 (by decide +kernel) (by norm_num) (by norm_num)
  have h1 : (2/3 : Rat).den = 3 := by decide +kernel
  have h2 : (2/3 : Rat).num = 2 := by decide +kernel
  rw [h1, h2]; norm_num

theorem expsOK_of_contract (pyPow : Rat → Rat → Rat) (hc : PowContract pyPow) (e : Expr) : e.expsOK pyPow := by
  induction e with
  | leaf o => trivial
  | bin op a b iha ihb => exact ⟨iha, ihb⟩
  | pow a b iha ihb => exact ⟨iha, ihb, fun n _ hn => hc.scale n hn⟩
  | neg a ih => exact ih
  | abs a ih => exact ih
  | inv a ih => exact ih

/-- every exponent of the tree is an integer literal -/
def _root_.Strengths.Expr.intExponents : Expr → Prop
  | .leaf _ => True
  | .bin _ a b => a.intExponents ∧ b.intExponents
  | .pow a b => a.intExponents ∧ ∃ n : Rat, b = .leaf (.num n) ∧ n.den = 1
  | .neg a => a.intExponents
  | .abs a => a.intExponents
  | .inv a => a.intExponents

theorem expsOK_of_intExponents (pyPow : Rat → Rat → Rat) (e : Expr) (hi : e.intExponents) : e.expsOK pyPow := by
  induction e with
  | leaf o => trivial
  | bin op a b iha ihb => exact ⟨iha hi.1, ihb hi.2⟩
  | pow a b iha ihb =>
    obtain ⟨ha, n, hb, hn⟩ := hi
    subst hb
    refine ⟨iha ha, trivial, ?_⟩
    intro m hm hden
    simp only [eval] at hm
    cases hm
    exact absurd hn hden
  | neg a ih => exact ih hi
  | abs a ih => exact ih hi
  | inv a ih => exact ih hi

theorem homomorphism_of_sim {e : Expr} {pyPow : Rat → Rat → Rat} (h : Sim (eval pyPow e) (evalSI pyPow e)) :
    (∀ r, eval pyPow e = .ok r → evalSI pyPow e = .ok (siOf r)) ∧
    ((eval pyPow e).isError = true ↔ (evalSI pyPow e).isError = true) := by
  constructor
  · intro r hr
    rw [hr] at h
    exact h.1
  · cases hev : eval pyPow e with
    | ok r => rw [hev] at h; simp [Res.isError, h.1]
    | error er => rw [hev] at h; obtain ⟨e', h'⟩ := h; simp [Res.isError, h']

/-- **C05, main theorem.**  For every expression tree over numbers, quantities and quantity arrays whose
quantity leaves carry valid unit systems (the invariant of `UnitsSystem`): if the code's evaluation returns `r`,
exact arithmetic on the SI values and dimension vectors of the leaves returns the SI reading of `r`
(value(s) in SI base units, dimension vector, and the system `r` is expressed in — consulted only to read
a plain number standing next to a quantity in `+ - %`, which the property says takes that quantity's units);
and the code raises exactly when the SI-level evaluation is an error (different dimensions in `+ - %`,
lengths, non-integer resulting exponent, zero divisor).
The only hypothesis besides validity is the contract of the trusted float power, used solely at `**` nodes with a
non-integer exponent (its `scale` clause). -/
theorem eval_homomorphism (pyPow : Rat → Rat → Rat) (hc : PowContract pyPow) (e : Expr) (he : e.wf) :
    (∀ r, eval pyPow e = .ok r → evalSI pyPow e = .ok (siOf r)) ∧
    ((eval pyPow e).isError = true ↔ (evalSI pyPow e).isError = true) :=
  homomorphism_of_sim (eval_sim pyPow e he (expsOK_of_contract pyPow hc e))

/-- … and with NO hypothesis on the float power at all for trees whose exponents are integer literals
(any `pyPow : ℚ → ℚ → ℚ` whatsoever): `(v·f)^n = v^n · f^n` and `f^n` is the SI size of the unit `dim·n`. -/
theorem eval_homomorphism_int (pyPow : Rat → Rat → Rat) (e : Expr) (he : e.wf) (hi : e.intExponents) :
    (∀ r, eval pyPow e = .ok r → evalSI pyPow e = .ok (siOf r)) ∧
    ((eval pyPow e).isError = true ↔ (evalSI pyPow e).isError = true) :=
  homomorphism_of_sim (eval_sim pyPow e he (expsOK_of_intExponents pyPow e hi))

/-- one application of `**`, all operand pairings: `UnitValue ** e` has SI value `(SI value)^e` and dimension
`dim·e` when that is an integer vector, and raises otherwise; `UnitArray ** _`, `_ ** quantity` raise.  The contract
is used only when `e` is not an integer. -/
theorem pow_homomorphism (pyPow : Rat → Rat → Rat) (a b : Operand) (ha : a.wf) (hb : b.wf)
    (hs : ∀ e, b = .num e → e.den ≠ 1 → PowScale pyPow e) :
    (∀ r, powOp pyPow a b = .ok r → siPow pyPow (siOf a) (siOf b) = .ok (siOf r)) ∧
    ((powOp pyPow a b).isError = true ↔ (siPow pyPow (siOf a) (siOf b)).isError = true) := by
  have h := powOp_sim pyPow a b ha hb hs
  constructor
  · intro r hr; rw [hr] at h; exact h.1
  · cases hev : powOp pyPow a b with
    | ok r => rw [hev] at h; simp [Res.isError, h.1]
    | error er => rw [hev] at h; obtain ⟨e', h'⟩ := h; simp [Res.isError, h']

/-- one operator application, all nine operand-type pairings, forward and reflected methods -/
theorem binop_homomorphism (op : BinOp) (a b : Operand) (ha : a.wf) (hb : b.wf) :
    (∀ r, binop op a b = .ok r → siBin op (siOf a) (siOf b) = .ok (siOf r)) ∧
    ((binop op a b).isError = true ↔ (siBin op (siOf a) (siOf b)).isError = true) := by
  have h := binop_sim op a b ha hb
  constructor
  · intro r hr; rw [hr] at h; exact h.1
  · cases hev : binop op a b with
    | ok r => rw [hev] at h; simp [Res.isError, h.1]
    | error er => rw [hev] at h; obtain ⟨e', h'⟩ := h; simp [Res.isError, h']

/-- results keep the invariant (valid system), so trees compose -/
theorem binop_wf (op : BinOp) (a b : Operand) (ha : a.wf) (hb : b.wf) {r : Operand} (h : binop op a b = .ok r) :
    r.wf := by
  have hs := binop_sim op a b ha hb
  rw [h] at hs
  exact hs.2

/-! ## corollaries: independence of storage and of operand order (quantity operands) -/

/-- re-expressing a scalar quantity in another valid system does not change its SI reading -/
theorem toSys_si (x : UVal) (_hx : x.u.sys.valid = true) {U : Sys} (hU : U.valid = true) :
    (x.toSys U).si = x.si ∧ (x.toSys U).u.dim = x.u.dim := by
  refine ⟨?_, rfl⟩
  simp only [UVal.toSys, UVal.si]
  rw [mul_assoc, convFactor_mul_siFactor _ hU]

theorem toSys_si_array (x : UArr) (_hx : x.u.sys.valid = true) {U : Sys} (hU : U.valid = true) :
    (x.toSys U).si = x.si ∧ (x.toSys U).u.dim = x.u.dim := by
  refine ⟨?_, rfl⟩
  simp only [UArr.toSys, UArr.si, List.map_map]
  apply List.map_congr_left
  intro a _
  simp only [Function.comp]
  rw [mul_assoc, convFactor_mul_siFactor _ hU]

/-- SI value(s) and dimension of a result, forgetting the storage system -/
def core : SIVal → Option (Pay × Dim)
  | .num _ => none
  | .qty p d _ => some (p, d)

/-- the SI value and dimension of `a op b` for two quantities depend only on the SI values and dimensions of
`a` and `b`, not on the unit systems they are stored in: stated for the spec, which by `binop_homomorphism`
is what the code computes -/
theorem result_independent_of_storage (op : BinOp) (p p' : Pay) (d d' : Dim) (s s' t t' : Sys) :
    (siBin op (.qty p d s) (.qty p' d' s')).toOption.bind core =
    (siBin op (.qty p d t) (.qty p' d' t')).toOption.bind core := by
  simp only [siBin]
  split <;> split <;> (try split) <;> (try split) <;>
    simp [qtyOk, Except.toOption, core] <;> (cases Pay.zip (ratOp op) p p' <;> simp [Except.toOption, core])

theorem Pay.zip_comm (f : Rat → Rat → Rat) (hf : ∀ a b, f a b = f b a) (p p' : Pay) :
    Pay.zip f p p' = Pay.zip f p' p := by
  cases p with
  | one a =>
    cases p' with
    | one b => simp only [Pay.zip]; rw [hf]
    | many bs => simp only [Pay.zip]; congr; funext b; exact hf a b
  | many as =>
    cases p' with
    | one b => simp only [Pay.zip]; congr; funext a; exact hf a b
    | many bs =>
      simp only [Pay.zip]
      by_cases hl : as.length = bs.length
      · have hl' : bs.length = as.length := hl.symm
        rw [if_neg (fun h => h hl), if_neg (fun h => h hl'), List.zipWith_comm]
        congr; funext a b; exact hf b a
      · have hl' : ¬ bs.length = as.length := fun h => hl h.symm
        rw [if_pos hl, if_pos hl']

theorem Pay.zip_sub_anticomm (p p' : Pay) :
    Pay.zip (fun a b => a - b) p p' =
      (match Pay.zip (fun a b => a - b) p' p with
       | .error e => .error e
       | .ok r => .ok (r.map (fun a => -a))) := by
  cases p with
  | one a =>
    cases p' with
    | one b => simp only [Pay.zip, Pay.map, neg_sub]
    | many bs => simp only [Pay.zip, Pay.map, List.map_map]; congr; funext b; simp
  | many as =>
    cases p' with
    | one b => simp only [Pay.zip, Pay.map, List.map_map]; congr; funext a; simp
    | many bs =>
      simp only [Pay.zip]
      by_cases hl : as.length = bs.length
      · have hl' : bs.length = as.length := hl.symm
        rw [if_neg (fun h => h hl), if_neg (fun h => h hl')]
        simp only [Pay.map, List.map_zipWith]
        rw [List.zipWith_comm]
        congr; funext a b; simp
      · have hl' : ¬ bs.length = as.length := fun h => hl h.symm
        rw [if_pos hl, if_pos hl']

/-- … in particular for the code, for ALL quantity pairings (value-value, value-array, array-value, array-array):
operands with the same SI values and dimensions, stored in other unit systems, give the same SI result -/
theorem result_independent_of_storage_code (op : BinOp) (a b a' b' : Operand)
    (ha : a.wf) (hb : b.wf) (ha' : a'.wf) (hb' : b'.wf) {p p' : Pay} {d d' : Dim} {s s' t t' : Sys}
    (ea : siOf a = .qty p d s) (eb : siOf b = .qty p' d' s') (ea' : siOf a' = .qty p d t) (eb' : siOf b' = .qty p' d' t')
    {r r' : Operand} (h : binop op a b = .ok r) (h' : binop op a' b' = .ok r') :
    core (siOf r) = core (siOf r') := by
  have x := (binop_homomorphism op a b ha hb).1 r h
  have y := (binop_homomorphism op a' b' ha' hb').1 r' h'
  have e := result_independent_of_storage op p p' d d' s s' t t'
  rw [ea, eb] at x
  rw [ea', eb'] at y
  rw [x, y] at e
  simpa [Except.toOption] using e

/-- instance: two arrays re-expressed in any two other valid systems -/
theorem result_independent_of_storage_arrays (op : BinOp) (x y : UArr) (hx : x.u.sys.valid = true)
    (hy : y.u.sys.valid = true) {U V : Sys} (hU : U.valid = true) (hV : V.valid = true) {r r' : Operand}
    (h : binop op (.arr x) (.arr y) = .ok r) (h' : binop op (.arr (x.toSys U)) (.arr (y.toSys V)) = .ok r') :
    core (siOf r) = core (siOf r') := by
  refine result_independent_of_storage_code (t := U) (t' := V) op (.arr x) (.arr y) (.arr (x.toSys U)) (.arr (y.toSys V)) hx hy hU hV rfl rfl ?_ ?_ h h'
  · simp only [siOf, (toSys_si_array x hx hU).1]; rfl
  · simp only [siOf, (toSys_si_array y hy hV).1]; rfl

/-- instance: a value and an array -/
theorem result_independent_of_storage_val_arr (op : BinOp) (x : UVal) (y : UArr) (hx : x.u.sys.valid = true)
    (hy : y.u.sys.valid = true) {U V : Sys} (hU : U.valid = true) (hV : V.valid = true) {r r' : Operand}
    (h : binop op (.val x) (.arr y) = .ok r) (h' : binop op (.val (x.toSys U)) (.arr (y.toSys V)) = .ok r') :
    core (siOf r) = core (siOf r') := by
  refine result_independent_of_storage_code (t := U) (t' := V) op (.val x) (.arr y) (.val (x.toSys U)) (.arr (y.toSys V)) hx hy hU hV rfl rfl ?_ ?_ h h'
  · simp only [siOf, (toSys_si x hx hU).1]; rfl
  · simp only [siOf, (toSys_si_array y hy hV).1]; rfl

theorem siBin_comm_core (op : BinOp) (hop : op = .add ∨ op = .mul) (p p' : Pay) (d d' : Dim) (s s' : Sys) :
    (siBin op (.qty p d s) (.qty p' d' s')).toOption.bind core =
    (siBin op (.qty p' d' s') (.qty p d s)).toOption.bind core := by
  rcases hop with rfl | rfl
  · by_cases hd : d = d'
    · subst hd
      simp only [siBin, BinOp.additive, BinOp.needsNonZero, ne_eq, not_true_eq_false, if_true, if_false, false_and]
      rw [Pay.zip_comm (ratOp .add) (fun a b => by simp [ratOp, add_comm]) p p']
      cases Pay.zip (ratOp .add) p' p <;> simp [qtyOk, Except.toOption, core]
    · have hd' : ¬ d' = d := fun h => hd h.symm
      simp [siBin, BinOp.additive, hd, hd', Except.toOption]
  · simp only [siBin, BinOp.additive, BinOp.needsNonZero, if_false, false_and]
    rw [Pay.zip_comm (ratOp .mul) (fun a b => by simp [ratOp, mul_comm]) p p']
    have hdd : d.add d' = d'.add d := by simp [Dim.add, add_comm]
    cases Pay.zip (ratOp .mul) p' p <;> simp [qtyOk, Except.toOption, core, hdd]

/-- `a + b` and `b + a`, `a * b` and `b * a` have the same SI value(s) and dimension, for every pairing of
quantity operands (value / array on either side) in any unit systems -/
theorem comm_si (op : BinOp) (hop : op = .add ∨ op = .mul) (a b : Operand) (ha : a.wf) (hb : b.wf)
    {p p' : Pay} {d d' : Dim} {s s' : Sys} (ea : siOf a = .qty p d s) (eb : siOf b = .qty p' d' s')
    {r r' : Operand} (h : binop op a b = .ok r) (h' : binop op b a = .ok r') :
    core (siOf r) = core (siOf r') := by
  have x := (binop_homomorphism op a b ha hb).1 r h
  have y := (binop_homomorphism op b a hb ha).1 r' h'
  have e := siBin_comm_core op hop p p' d d' s s'
  rw [ea, eb] at x y
  rw [x, y] at e
  simpa [Except.toOption] using e

theorem add_comm_si (a b : Operand) (ha : a.wf) (hb : b.wf)
    {p p' : Pay} {d d' : Dim} {s s' : Sys} (ea : siOf a = .qty p d s) (eb : siOf b = .qty p' d' s')
    {r r' : Operand} (h : binop .add a b = .ok r) (h' : binop .add b a = .ok r') :
    core (siOf r) = core (siOf r') := comm_si .add (Or.inl rfl) a b ha hb ea eb h h'

theorem mul_comm_si (a b : Operand) (ha : a.wf) (hb : b.wf)
    {p p' : Pay} {d d' : Dim} {s s' : Sys} (ea : siOf a = .qty p d s) (eb : siOf b = .qty p' d' s')
    {r r' : Operand} (h : binop .mul a b = .ok r) (h' : binop .mul b a = .ok r') :
    core (siOf r) = core (siOf r') := comm_si .mul (Or.inr rfl) a b ha hb ea eb h h'

/-- `a - b = -(b - a)` in SI, for every pairing of quantity operands -/
theorem sub_antisymm (a b : Operand) (ha : a.wf) (hb : b.wf)
    {p p' : Pay} {d d' : Dim} {s s' : Sys} (ea : siOf a = .qty p d s) (eb : siOf b = .qty p' d' s')
    {r r' : Operand} (h : binop .sub a b = .ok r) (h' : binop .sub b a = .ok r') :
    core (siOf r) = core (siNeg (siOf r')) := by
  have x := (binop_homomorphism .sub a b ha hb).1 r h
  have y := (binop_homomorphism .sub b a hb ha).1 r' h'
  rw [ea, eb] at x y
  by_cases hd : d = d'
  · subst hd
    simp only [siBin, BinOp.additive, BinOp.needsNonZero, ne_eq, not_true_eq_false, if_true, if_false, false_and] at x y
    have hz := Pay.zip_sub_anticomm p p'
    have hr : ratOp .sub = fun a b => a - b := by funext a b; rfl
    rw [hr] at x y
    cases hq : Pay.zip (fun a b => a - b) p' p with
    | error e => rw [hq] at y; simp [qtyOk] at y
    | ok q =>
      rw [hq] at y hz
      rw [hz] at x
      simp only [qtyOk] at x y
      have x' := Except.ok.inj x
      have y' := Except.ok.inj y
      rw [← x', ← y']
      simp [core, siNeg]
  · simp [siBin, BinOp.additive, hd] at x

/-- the scalar instances, for reference: `(x + y).si = (y + x).si` for two `UnitValue`s in any two systems -/
example (x y : UVal) (hx : x.u.sys.valid = true) (hy : y.u.sys.valid = true) {r r' : Operand}
    (h : binop .add (.val x) (.val y) = .ok r) (h' : binop .add (.val y) (.val x) = .ok r') :
    core (siOf r) = core (siOf r') := add_comm_si (.val x) (.val y) hx hy rfl rfl h h'
/-- … and an array with a value -/
example (x : UArr) (y : UVal) (hx : x.u.sys.valid = true) (hy : y.u.sys.valid = true) {r r' : Operand}
    (h : binop .mul (.arr x) (.val y) = .ok r) (h' : binop .mul (.val y) (.arr x) = .ok r') :
    core (siOf r) = core (siOf r') := mul_comm_si (.arr x) (.val y) hx hy rfl rfl h h'

/-- `%` : the SI value of `a % b` is `si a mod si b` (Python's sign-of-divisor modulo), whatever the two systems -/
theorem mod_si (x y : UVal) (hx : x.u.sys.valid = true) (hy : y.u.sys.valid = true) {r : Operand}
    (h : binop .mod (.val x) (.val y) = .ok r) :
    ∃ q : UVal, r = .val q ∧ q.si = pyMod x.si y.si ∧ q.u.dim = x.u.dim ∧ y.u.dim = x.u.dim ∧ y.si ≠ 0 := by
  simp only [binop, UVal.dunder, UVal.modulo] at h
  split at h
  · rename_i hd
    split at h
    · cases h
    · rename_i h0
      cases h
      refine ⟨_, rfl, ?_, rfl, hd.symm, ?_⟩
      · simp only [UVal.si, UVal.toSys]
        rw [hd, pyMod_conv hx]
      · simp only [UVal.toSys] at h0
        simp only [UVal.si]
        exact mul_ne_zero (fun e => h0 (by rw [e, zero_mul])) (siFactor_ne hy _)
  · cases h

/-! ## errors: dimensionally meaningless operations raise -/

/-- `+ - %` of two quantities (scalar or array, either order) with different dimensions raise -/
theorem additive_other_dim_raises (op : BinOp) (hop : op.additive = true) (a b : Operand)
    (ha : a.wf) (hb : b.wf) (da db : Dim) (sa sb : Sys) (pa pb : Pay)
    (hsa : siOf a = .qty pa da sa) (hsb : siOf b = .qty pb db sb) (hd : da ≠ db) :
    (binop op a b).isError = true := by
  rw [(binop_homomorphism op a b ha hb).2, hsa, hsb]
  simp [siBin, hop, hd, Res.isError]

/-- arrays of different length raise, for every operator -/
theorem array_length_mismatch_raises (op : BinOp) (x y : UArr) (hx : x.u.sys.valid = true)
    (hy : y.u.sys.valid = true) (hl : x.vs.length ≠ y.vs.length) :
    (binop op (.arr x) (.arr y)).isError = true := by
  rw [(binop_homomorphism op (.arr x) (.arr y) hx hy).2]
  have hl' : x.si.length ≠ y.si.length := by simpa [UArr.si] using hl
  simp only [siBin, siOf]
  split <;> (try split) <;> (try split) <;> simp_all [qtyOk, Pay.zip, Res.isError]

/-- `UnitArray ** n` raises, whatever `n` is; so does anything raised to a quantity -/
theorem array_pow_raises (pyPow : Rat → Rat → Rat) (x : UArr) (v : Operand) :
    powOp pyPow (.arr x) v = .error .notImplemented := by
  cases v <;> rfl

theorem pow_quantity_exponent_raises (pyPow : Rat → Rat → Rat) (a : Operand) (b : Operand)
    (hb : ∀ n, b ≠ .num n) : (powOp pyPow a b).isError = true := by
  cases a <;> cases b <;> simp_all [powOp, Res.isError]

/-- `raiseto`: a component is defined only when `dim · e` is an integer, and is then that integer -/
theorem raiseDim_ok_iff (d : Int) (e : Rat) (m : Int) :
    raiseDim d e = .ok m ↔ (d : Rat) * e = m := Strengths.raiseDim_ok_iff d e m

/-- `UnitValue ** e` is defined iff every `dim_k · e` is an integer (and the value is: no `0 ** negative`, no
negative base with a fractional exponent); the resulting dimension is `dim · e` -/
theorem pow_defined_iff (u : Units) (e : Rat) (u' : Units) :
    u.raiseto e = .ok u' ↔
      u'.sys = u.sys ∧ (u.dim.space : Rat) * e = u'.dim.space ∧ (u.dim.time : Rat) * e = u'.dim.time ∧
        (u.dim.qty : Rat) * e = u'.dim.qty := Strengths.raiseto_ok_iff u e u'

/-- the code's float test `int(dim*e)`, `dim*e - rdim != 0` and the specification's "`dim·e` is an integer
vector" define the same partial function -/
theorem raiseto_eq_dimPow (u : Units) (e : Rat) :
    (∀ u', u.raiseto e = .ok u' → dimPow u.dim e = some u'.dim) ∧
    (∀ er, u.raiseto e = .error er → dimPow u.dim e = none) := Strengths.raiseto_dimPow u e

/-- a non-integer resulting exponent raises -/
theorem pow_nonint_raises (pyPow : Rat → Rat → Rat) (x : UVal) (e : Rat)
    (h : ¬ ∃ m : Int, (x.u.dim.space : Rat) * e = m) : (powOp pyPow (.val x) (.num e)).isError = true := by
  simp only [powOp, UVal.pow]
  cases powVal pyPow x.v e with
  | error er => simp [Res.isError]
  | ok w =>
    cases hr : x.u.raiseto e with
    | error er => simp [Res.isError]
    | ok u' => exact absurd ⟨_, ((pow_defined_iff _ _ _).1 hr).2.1⟩ h

/-! ## comparisons -/

/-- value–value and value–number comparisons (either order) are the comparison of the SI values; across
dimensions `==` is `False`, `!=` is `True` and the orderings raise.
This lemma excludes array operands and does not depend on how the ordering methods treat them; the full statement,
including arrays, is `cmp_si` below. -/
theorem cmp_si_partial (op : CmpOp) (a b : Operand) (ha : a.wf) (hb : b.wf)
    (na : ∀ x, a ≠ .arr x) (nb : ∀ x, b ≠ .arr x) :
    (∀ v, cmpOp op a b = .ok (.bool v) ↔ siCmp op (siOf a) (siOf b) = .ok v) ∧
    ((cmpOp op a b).isError = true ↔ (siCmp op (siOf a) (siOf b)).isError = true) ∧
    cmpOp op a b ≠ .ok .excObject := by
  cases a with
  | arr x => exact absurd rfl (na x)
  | num m =>
    cases b with
    | arr y => exact absurd rfl (nb y)
    | num n => simp [cmpOp, siCmp, siOf, Res.isError]
    | val y =>
      have hy : y.u.sys.valid = true := hb
      have hF := siFactor_pos hy y.u.dim
      cases op <;> simp [cmpOp, UVal.cmp, CmpOp.swap, cmpRat, siCmp, siOf, Res.isError, UVal.si, hF, ne_of_gt hF,
        mul_lt_mul_iff_of_pos_right, mul_le_mul_iff_of_pos_right, eq_comm]
  | val x =>
    have hx : x.u.sys.valid = true := ha
    have hF := siFactor_pos hx x.u.dim
    cases b with
    | arr y => exact absurd rfl (nb y)
    | num n =>
      cases op <;> simp [cmpOp, UVal.cmp, cmpRat, siCmp, siOf, Res.isError, UVal.si, hF, ne_of_gt hF,
        mul_lt_mul_iff_of_pos_right, mul_le_mul_iff_of_pos_right]
    | val y =>
      have hy : y.u.sys.valid = true := hb
      by_cases hd : x.u.dim = y.u.dim
      · have hF' := siFactor_pos hx y.u.dim
        have hc : ∀ a b : Rat, b * siFactor y.u.sys y.u.dim = b * convFactor y.u.sys x.u.sys y.u.dim * siFactor x.u.sys y.u.dim := by
          intro a b; rw [mul_assoc, convFactor_mul_siFactor _ hx]
        cases op <;> simp [cmpOp, UVal.cmp, cmpRat, siCmp, siOf, Res.isError, UVal.si, UVal.toSys, hd, hc 0, hF', ne_of_gt hF',
          mul_lt_mul_iff_of_pos_right, mul_le_mul_iff_of_pos_right]
        all_goals (first | rfl | (congr; done) | (constructor <;> (by_cases hh : x.v = y.v * convFactor y.u.sys x.u.sys y.u.dim <;> simp [hh])))
      · cases op <;> simp [cmpOp, UVal.cmp, siCmp, siOf, Res.isError, hd]

/-- on the tree under test, the last branch of every ordering method of `UnitValue` raises its `TypeError`
(read from the regenerated source; false on a tree where it `return`s the exception, cf. finding
`cmp-array-returns-exception-object`, fixed by 8d48d0b) -/
theorem ordering_else_raises : ∀ op : CmpOp, op.isOrdering = true → cmpElseRaises op = true := by
  intro op h
  cases op <;> first | (exact absurd h (by decide)) | decide +kernel

/-- **comparisons, all pairings.**  The code's comparison returns the boolean `v` iff the SI-level comparison does,
raises iff the SI-level comparison is an error, and never returns an exception object:
* scalars (value–value of one dimension, value–number, number–value): comparison of the SI values, the number read
  in the quantity's units;
* different dimensions: `==` is `False`, `!=` is `True`, the orderings raise;
* a `UnitArray` on either side (array–value, value–array, array–array, array–number, number–array): the orderings
  raise (`UnitValue`'s method raises `TypeError`, or Python does since `UnitArray` defines no comparison);
  `==` is `False` and `!=` is `True` — `UnitArray` has no `__eq__`, Python compares object identity, and two
  operands of an expression are distinct objects.  (`x == x` for the same array object is `True` in Python; an
  expression tree cannot denote that.) -/
theorem cmp_si (op : CmpOp) (a b : Operand) (ha : a.wf) (hb : b.wf) :
    (∀ v, cmpOp op a b = .ok (.bool v) ↔ siCmp op (siOf a) (siOf b) = .ok v) ∧
    ((cmpOp op a b).isError = true ↔ (siCmp op (siOf a) (siOf b)).isError = true) ∧
    cmpOp op a b ≠ .ok .excObject := by
  have r1 := ordering_else_raises .lt rfl
  have r2 := ordering_else_raises .le rfl
  have r3 := ordering_else_raises .gt rfl
  have r4 := ordering_else_raises .ge rfl
  cases a with
  | num m =>
    cases b with
    | arr y => cases op <;> simp [cmpOp, siCmp, siOf, Res.isError]
    | num n => exact cmp_si_partial op _ _ ha hb (fun x h => by cases h) (fun x h => by cases h)
    | val y => exact cmp_si_partial op _ _ ha hb (fun x h => by cases h) (fun x h => by cases h)
  | val x =>
    cases b with
    | arr y => cases op <;> simp [cmpOp, UVal.cmp, siCmp, siOf, Res.isError, r1, r2, r3, r4]
    | num n => exact cmp_si_partial op _ _ ha hb (fun x h => by cases h) (fun x h => by cases h)
    | val y => exact cmp_si_partial op _ _ ha hb (fun x h => by cases h) (fun x h => by cases h)
  | arr x =>
    cases b with
    | arr y => cases op <;> simp [cmpOp, siCmp, siOf, Res.isError]
    | num n => cases op <;> simp [cmpOp, siCmp, siOf, Res.isError]
    | val y => cases op <;> simp [cmpOp, UVal.cmp, CmpOp.swap, siCmp, siOf, Res.isError, r1, r2, r3, r4]

/-- **a plain number is compared as the rational it denotes.**  For ANY rational `n` — in particular an integer above
`2^53` or a fraction that no double equals — `q op n` and `n op q` are the comparison of the stored magnitude with `n`
itself: the number is not rounded (to a double or otherwise) on the way, so a number one unit (or a third of an ulp) off
the magnitude compares as different, and the two operand orders agree. -/
theorem cmp_number_is_exact (op : CmpOp) (x : UVal) (n : Rat) :
    cmpOp op (.val x) (.num n) = .ok (.bool (cmpRat op x.v n)) ∧
    cmpOp op (.num n) (.val x) = .ok (.bool (cmpRat op n x.v)) ∧
    (cmpOp .lt (.val x) (.num n) = .ok (.bool true) ↔ x.v < n) ∧
    (cmpOp .eq (.val x) (.num n) = .ok (.bool true) ↔ x.v = n) := by
  refine ⟨by simp [cmpOp, UVal.cmp], ?_, by simp [cmpOp, UVal.cmp, cmpRat], by simp [cmpOp, UVal.cmp, cmpRat]⟩
  cases op <;> simp [cmpOp, UVal.cmp, CmpOp.swap, cmpRat, eq_comm]

/-- the class on the wire: `2^53 molecule` against `2^53 + 1` (an integer that is not a double), both orders, and against
`2^53 + 1/3` -/
example : cmpOp .lt (.val ⟨9007199254740992, ⟨⟨"m", "s", "molecule"⟩, ⟨0, 0, 1⟩⟩⟩) (.num 9007199254740993) = .ok (.bool true) ∧
    cmpOp .ge (.val ⟨9007199254740992, ⟨⟨"m", "s", "molecule"⟩, ⟨0, 0, 1⟩⟩⟩) (.num 9007199254740993) = .ok (.bool false) ∧
    cmpOp .gt (.num 9007199254740993) (.val ⟨9007199254740992, ⟨⟨"m", "s", "molecule"⟩, ⟨0, 0, 1⟩⟩⟩) = .ok (.bool true) ∧
    cmpOp .le (.num (9007199254740992 + 1/3)) (.val ⟨9007199254740992, ⟨⟨"m", "s", "molecule"⟩, ⟨0, 0, 1⟩⟩⟩) = .ok (.bool false) := by
  decide +kernel

/-- different dimensions: the orderings raise, `==` is `False`, `!=` is `True` -/
theorem cmp_other_dim (x y : UVal) (hd : x.u.dim ≠ y.u.dim) :
    cmpOp .eq (.val x) (.val y) = .ok (.bool false) ∧ cmpOp .ne (.val x) (.val y) = .ok (.bool true) ∧
    (∀ op : CmpOp, op.isOrdering = true → cmpOp op (.val x) (.val y) = .error .dimMismatch) := by
  refine ⟨by simp [cmpOp, UVal.cmp, hd], by simp [cmpOp, UVal.cmp, hd], ?_⟩
  intro op ho
  cases op <;> simp_all [cmpOp, UVal.cmp, CmpOp.isOrdering]

/-- KNOWN FINDING `cmp-array-returns-exception-object` (negation witness of the full comparison statement):
as long as the last branch of the ordering methods `return`s its `TypeError` (`cmpElseRaises op = false`, read from
the regenerated source), `UnitValue < UnitArray` and `UnitArray < UnitValue` do not raise and are not booleans — the
model, like the code, returns the exception object; once the branch raises, both raise. -/
theorem cmp_array_returns_exception_object (op : CmpOp) (ho : op.isOrdering = true) (x : UVal) (y : UArr) :
    (cmpElseRaises op = false → cmpOp op (.val x) (.arr y) = .ok .excObject) ∧
    (cmpElseRaises op.swap = false → cmpOp op (.arr y) (.val x) = .ok .excObject) ∧
    (cmpElseRaises op = true → (cmpOp op (.val x) (.arr y)).isError = true) ∧
    (cmpElseRaises op.swap = true → (cmpOp op (.arr y) (.val x)).isError = true) := by
  refine ⟨?_, ?_, ?_, ?_⟩ <;> intro h <;> cases op <;>
    simp_all [cmpOp, UVal.cmp, CmpOp.swap, CmpOp.isOrdering, Res.isError]

/-- the witness on the tree under test: `3 m < [1000, 2000] mm` is the exception object exactly when the regenerated
`__lt__` returns (does not raise) its `TypeError` -/
example : (cmpOp .lt (.val ⟨3, ⟨⟨"m", "s", "mol"⟩, ⟨1, 0, 0⟩⟩⟩) (.arr ⟨[1000, 2000], ⟨⟨"mm", "s", "mol"⟩, ⟨1, 0, 0⟩⟩⟩)
    = .ok .excObject) ↔ cmpElseRaises .lt = false := by decide

/-! ## non-vacuity -/

example : (Operand.val ⟨3, ⟨⟨"m", "s", "mol"⟩, ⟨1, 0, 0⟩⟩⟩).wf ∧ (Operand.arr ⟨[1000, 2000], ⟨⟨"mm", "s", "mol"⟩, ⟨1, 0, 0⟩⟩⟩).wf := by
  constructor <;> (show Sys.valid _ = true; decide +kernel)

/-- 3 m + [1000, 2000] mm = [4, 5] m -/
example : binop .add (.val ⟨3, ⟨⟨"m", "s", "mol"⟩, ⟨1, 0, 0⟩⟩⟩) (.arr ⟨[1000, 2000], ⟨⟨"mm", "s", "mol"⟩, ⟨1, 0, 0⟩⟩⟩)
    = .ok (.arr ⟨[4, 5], ⟨⟨"m", "s", "mol"⟩, ⟨1, 0, 0⟩⟩⟩) := by decide +kernel

/-- 1 − 3 m = −2 m (reflected subtraction) ;  7.5 % 2 m = 1.5 m ; −7.5 % 2 m = 0.5 m (sign of the divisor) -/
example : binop .sub (.num 1) (.val ⟨3, ⟨⟨"m", "s", "mol"⟩, ⟨1, 0, 0⟩⟩⟩) = .ok (.val ⟨-2, ⟨⟨"m", "s", "mol"⟩, ⟨1, 0, 0⟩⟩⟩) := by
  decide +kernel
example : binop .mod (.num (-15/2)) (.val ⟨2, ⟨⟨"m", "s", "mol"⟩, ⟨1, 0, 0⟩⟩⟩) = .ok (.val ⟨1/2, ⟨⟨"m", "s", "mol"⟩, ⟨1, 0, 0⟩⟩⟩) := by
  decide +kernel

/-- (8 m³) ** (2/3) has dimension m²; (2 m) ** (1/2) raises -/
example : (⟨⟨"m", "s", "mol"⟩, ⟨3, 0, 0⟩⟩ : Units).raiseto (2/3) = .ok ⟨⟨"m", "s", "mol"⟩, ⟨2, 0, 0⟩⟩ := by decide +kernel
example : (⟨⟨"m", "s", "mol"⟩, ⟨1, 0, 0⟩⟩ : Units).raiseto (1/2) = .error .badValue := by decide +kernel

end Strengths.C05
