/-
C05 — Arithmetic on quantities is arithmetic on their SI values, or an error.
-/
import Strengths.Proofs.UnitsArith

namespace Strengths.C05
open Strengths

/-- `UnitArray ** n` raises, whatever `n` is -/
theorem array_pow_raises (pyPow : Rat → Rat → Rat) (x : UArr) (v : Operand) :
    powOp pyPow (.arr x) v = .error .notImplemented := by
  cases v <;> rfl

end Strengths.C05
