/-
Idiom inventory of src/strengths/value_processing.py (generated: `Gen.PyIdioms.inv_value_processing`, regenerated from the source on every run).
-/
import Strengths.Model.PyIdioms

namespace Strengths.PyIdioms
open Strengths.Gen.PyIdioms

/-- `value_processing.py` keeps value semantics: no identity comparison except with `None`, no substring test on a literal, no
`assert`, no `and`/`or` selecting a value, no `*d.values()` (the model compares by value, handles absence through `Option`,
and reads dictionaries by key) -/
theorem value_processing_value_semantic : valueSemantic inv_value_processing = true := by decide +kernel

/-- `value_processing.py` never aliases an array on purpose: no `np.asarray`, `np.frombuffer`, `.view(…)`, `memoryview` — what a function
returns is a fresh object (the model's values are immutable; this is the source fact that lets mutation of a returned
object be ignored) -/
theorem value_processing_no_views : views_value_processing = [] := by decide +kernel

end Strengths.PyIdioms
