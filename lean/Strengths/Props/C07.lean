/-
C07 — Stochastic engines take only legal steps, at the rates of the master equation.

Model: `Model/Engine.lean` (`ReactionProp`, `DiffusionProp`, `ComputePropensities`, `DrawAndApplyEvent`,
`ApplyReaction/ApplyDiffusion`, `dt = log(1/u)/a0`; `Compute_nevt`, `Poisson`, `Apply_nevt`), one model for
the grid and the graph algorithms (they differ only in the slot structure `Topo`).  All theorems hold for
every network, topology, state and draw (no bounds).

The distributional claims are proved in the form "the deterministic map from the primitive draws is the
correct inverse CDF / mean": that `std::uniform_real_distribution`, `std::poisson_distribution` and
`std::mt19937` have their specified distributions is TRUSTED (not provable about C++ library code here).
-/
import Strengths.Proofs.TauLeap
import Strengths.Proofs.TauLeapClosed
import Strengths.Proofs.WaitExp
import Strengths.Model.CodeSnapshot
import Strengths.Gen.Stoch

namespace Strengths.C07
open Strengths Strengths.Gen Finset

/-! ## The code the model was written against (build-time tie to the source) -/

theorem code_as_modelled_propensities :
    reactionPropGrid = CodeSnapshot.reactionPropGrid ∧ reactionPropGraph = CodeSnapshot.reactionPropGraph ∧
    diffusionPropGrid = CodeSnapshot.diffusionPropGrid ∧ diffusionPropGraph = CodeSnapshot.diffusionPropGraph ∧
    buildMeshKrGrid = CodeSnapshot.buildMeshKrGrid ∧ buildMeshKrGraph = CodeSnapshot.buildMeshKrGraph ∧
    buildMeshKdGrid = CodeSnapshot.buildMeshKdGrid ∧ buildMeshKdGraph = CodeSnapshot.buildMeshKdGraph ∧
    setNeighborsGraph = CodeSnapshot.setNeighborsGraph := by decide +kernel

theorem code_as_modelled_gillespie :
    computePropensitiesGrid = CodeSnapshot.computePropensitiesGrid ∧
    computePropensitiesGraph = CodeSnapshot.computePropensitiesGraph ∧
    drawAndApplyEventGrid = CodeSnapshot.drawAndApplyEventGrid ∧
    drawAndApplyEventGraph = CodeSnapshot.drawAndApplyEventGraph ∧
    applyReactionGrid = CodeSnapshot.applyReactionGrid ∧ applyReactionGraph = CodeSnapshot.applyReactionGraph ∧
    applyDiffusionGrid = CodeSnapshot.applyDiffusionGrid ∧ applyDiffusionGraph = CodeSnapshot.applyDiffusionGraph ∧
    rngInitGrid = CodeSnapshot.rngInitGrid ∧ rngInitGraph = CodeSnapshot.rngInitGraph := by decide +kernel

theorem code_as_modelled_tauleap :
    computeNevtGrid = CodeSnapshot.computeNevtGrid ∧ computeNevtGraph = CodeSnapshot.computeNevtGraph ∧
    applyNevtGrid = CodeSnapshot.applyNevtGrid ∧ applyNevtGraph = CodeSnapshot.applyNevtGraph ∧
    poissonFnGrid = CodeSnapshot.poissonFnGrid ∧ poissonFnGraph = CodeSnapshot.poissonFnGraph := by decide +kernel

/-- the `Iterate` functions: propensities, then (unless `a0 == 0`) event, waiting time from a second uniform,
time advance; tau-leap: counts, apply, `t += dt` -/
theorem code_as_modelled_iterate :
    iterateGillespie3D = ["sampling_done_this_iteration=false", "if(complete)returnfalse", "ComputePropensities()",
      "if(a0==0)", "{", "FlagAsComplete()", "}", "else", "{", "DrawAndApplyEvent()", "dt=log(1/uiud(rng))/a0",
      "t+=dt", "SamplingStep()", "CheckTMax()", "}", "return!complete"] ∧
    iterateGillespieGraph = iterateGillespie3D ∧
    iterateTauLeap3D = ["sampling_done_this_iteration=false", "if(complete)returnfalse", "Compute_nevt()",
      "Apply_nevt()", "t+=dt", "SamplingStep()", "CheckTMax()", "return!complete"] ∧
    iterateTauLeapGraph = iterateTauLeap3D := by decide +kernel

/-! ## Propensities are those of the chemical master equation -/

/-- `prop_is_cme`: the reaction propensity is `k_env · V^{1−n} · Π_s x_s (x_s − 1) … (x_s − ν_s + 1)` when the
cell holds at least `ν_s` molecules of every reactant, else 0 (`n = Σ ν_s` the order) -/
theorem prop_is_cme (e : EngIn) (x : State) (i r : Nat) :
    reactionProp e x i r =
      if (∀ s, s < e.net.nSpecies → (e.net.sub s r : Rat) ≤ x i s) then
        e.net.k (e.env i) r * (e.vol i) ^ ((1 : Int) - (e.net.order r : Int)) *
          ∏ s ∈ range e.net.nSpecies, ∏ q ∈ range (e.net.sub s r), (x i s - (q : Rat))
      else 0 :=
  reactionProp_eq e x i r

/-- for integer amounts the factor of species `s` is `ν_s! · C(x_s, ν_s)`: combinatorial reactant counts
(the `ν_s!` is the convention of the rate constant: deterministic rate `k·c^ν`) -/
theorem prop_combinatorial (N m : Nat) (h : m ≤ N) :
    fallingProd (N : Rat) m = ((Nat.factorial m * Nat.choose N m : Nat) : Rat) ∧
    fallingProd (N : Rat) m = ∏ q ∈ range m, ((N : Rat) - (q : Rat)) :=
  ⟨fallingProd_nat N m h, fallingProd_eq _ _⟩

/-- `prop_pos_iff`: positive exactly when the environment's constant is non-zero and there are enough reactants -/
theorem prop_pos_iff {e : EngIn} {x : State} {i r : Nat} (hk : 0 ≤ e.net.k (e.env i) r) (hv : 0 < e.vol i) :
    0 < reactionProp e x i r ↔
      0 < e.net.k (e.env i) r ∧ ∀ s, s < e.net.nSpecies → (e.net.sub s r : Rat) ≤ x i s :=
  reactionProp_pos_iff hk hv

/-- diffusion is first order: amount × the rate-law constant of the slot; on a grid that constant is the
Bernstein interface diffusivity over `h²`, on a graph `D̄·S/(V_i·d)`; zero interface diffusivity ⇒ zero -/
theorem diffusion_prop (e : EngIn) (x : State) (i s n : Nat) :
    diffusionProp e x i s n = x i s * e.topo.kout i s n := rfl

theorem grid_kout (g : GridShape) (net : Net) (env : Nat → Nat) (h : Rat) (i s n j : Nat)
    (hj : engNbr? g i n = some j) :
    (gridTopo g net env h).kout i s n =
      (if net.dcoef s (env i) != 0 && net.dcoef s (env j) != 0
        then (2 * h) / (h / net.dcoef s (env i) + h / net.dcoef s (env j)) else 0) / (h * h) := by
  show gridKd g net env h i s n = _
  unfold gridKd; rw [hj]

theorem grid_kout_wall (g : GridShape) (net : Net) (env : Nat → Nat) (h : Rat) (i s n : Nat)
    (hj : engNbr? g i n = none) : (gridTopo g net env h).kout i s n = 0 := by
  show gridKd g net env h i s n = _
  unfold gridKd; rw [hj]

theorem graph_kout (nN : Nat) (edges : List GEdge) (net : Net) (env : Nat → Nat) (vol edge : Nat → Rat)
    (i s n j : Nat) (sfc dst : Rat) (hj : (graphSlots edges i)[n]? = some (j, sfc, dst)) :
    (graphTopo nN edges net env vol edge).kout i s n =
      interfaceD (edge i) (edge j) (net.dcoef s (env i)) (net.dcoef s (env j)) * sfc / (vol i * dst) ∧
    (graphTopo nN edges net env vol edge).nbr i n = some j := by
  simp [graphTopo, hj]

theorem interfaceD_zero (hi hj Di Dj : Rat) (h : Di = 0 ∨ Dj = 0) : interfaceD hi hj Di Dj = 0 := by
  rcases h with h | h <;> simp [interfaceD, h]

/-! ## Event selection follows the propensities -/

/-- `nested_eq_flat` -/
theorem nested_eq_flat (e : EngIn) (x : State) (hnn : PropsNonneg e x) (r : Rat) (hr : 0 ≤ r) :
    selectEvent e x r (List.range e.topo.nCells) 0 =
      pick (channels e (List.range e.topo.nCells)) ((channels e (List.range e.topo.nCells)).map (propOf e x)) r 0 :=
  selectEvent_eq_flat e x hnn r _ 0 hr

/-- `a0` is the sum of all channel propensities -/
theorem a0_is_total (e : EngIn) (x : State) :
    a0 e x = ((channels e (List.range e.topo.nCells)).map (propOf e x)).sum := a0_eq e x

/-- `select_spec`: with `r = u·a0`, `u ∈ [0,1)`: channel `k` is selected iff `r` lies in
`[Σ_{j<k} a_j, Σ_{j≤k} a_j)` — an interval of length exactly `a_k`, so under a uniform `u` channel `k` is
chosen with probability `a_k/a0`; a selected channel has `a_k > 0`; some channel is always selected. -/
theorem select_spec (e : EngIn) (x : State) (hnn : PropsNonneg e x) {r : Rat} (h0 : 0 ≤ r) (h1 : r < a0 e x) :
    (∃ k, ∃ hk : k < (channels e (List.range e.topo.nCells)).length,
      selectEvent e x r (List.range e.topo.nCells) 0 = some ((channels e (List.range e.topo.nCells))[k]) ∧
      prefixSum ((channels e (List.range e.topo.nCells)).map (propOf e x)) k ≤ r ∧
      r < prefixSum ((channels e (List.range e.topo.nCells)).map (propOf e x)) (k + 1) ∧
      0 < propOf e x ((channels e (List.range e.topo.nCells))[k])) ∧
    (∀ k (hk : k < (channels e (List.range e.topo.nCells)).length),
      prefixSum ((channels e (List.range e.topo.nCells)).map (propOf e x)) k ≤ r →
      r < prefixSum ((channels e (List.range e.topo.nCells)).map (propOf e x)) (k + 1) →
      selectEvent e x r (List.range e.topo.nCells) 0 = some ((channels e (List.range e.topo.nCells))[k])) :=
  ⟨selectEvent_spec e x hnn h0 h1, fun k hk hlo hhi => selectEvent_interval e x hnn h0 k hk hlo hhi⟩

/-- `gillespie_rates_sum`: the selection intervals `[Σ_{j<k} a_j, Σ_{j≤k} a_j)` are consecutive, start at 0, end at
`a0`, and their lengths (the channel propensities) add up to `a0`; every `r ∈ [0, a0)` lies in exactly one of them —
they partition `[0, a0)` -/
theorem gillespie_rates_sum (e : EngIn) (x : State) (hnn : PropsNonneg e x) :
    let ws := (channels e (List.range e.topo.nCells)).map (propOf e x)
    prefixSum ws 0 = 0 ∧ prefixSum ws ws.length = a0 e x ∧
    ∑ k ∈ range ws.length, (prefixSum ws (k + 1) - prefixSum ws k) = a0 e x ∧
    (∀ k, k < ws.length → prefixSum ws (k + 1) - prefixSum ws k = ws[k]!) ∧
    (∀ r, 0 ≤ r → r < a0 e x → ∃ k, (k < ws.length ∧ prefixSum ws k ≤ r ∧ r < prefixSum ws (k + 1)) ∧
      ∀ k', (k' < ws.length ∧ prefixSum ws k' ≤ r ∧ r < prefixSum ws (k' + 1)) → k' = k) := by
  intro ws
  have hw : ∀ w ∈ ws, 0 ≤ w := by
    intro w hw; simp only [ws, List.mem_map] at hw; obtain ⟨c, _, rfl⟩ := hw; exact hnn c
  have hsum : ws.sum = a0 e x := (a0_eq e x).symm
  refine ⟨prefixSum_zero ws, by rw [prefixSum_length, hsum], ?_, ?_, ?_⟩
  · rw [Finset.sum_range_sub (fun k => prefixSum ws k), prefixSum_length, prefixSum_zero, hsum, sub_zero]
  · intro k hk
    rw [prefixSum_succ_of_lt ws k hk, getElem!_pos ws k hk]; ring
  · intro r h0 h1
    have hsome := scanIdx_isSome (ws := ws) (r := r) (cum := 0) h0 (by rw [hsum]; simpa using h1)
    obtain ⟨k, hk⟩ := Option.isSome_iff_exists.1 hsome
    have hspec := (scanIdx_eq_some_iff hw h0 k).1 hk
    refine ⟨k, ⟨hspec.1, by simpa using hspec.2.1, by simpa using hspec.2.2⟩, ?_⟩
    intro k' ⟨h1', h2', h3'⟩
    have hk' := scanIdx_of_interval hw h1' (by simpa using h2') (by simpa using h3') (cum := 0)
    rw [hk] at hk'
    exact (Option.some.inj hk').symm

/-- length of the interval of channel `k` = its propensity -/
theorem select_interval_length (ws : List Rat) (k : Nat) (hk : k < ws.length) :
    prefixSum ws (k + 1) - prefixSum ws k = ws[k] := by
  rw [prefixSum_succ_of_lt ws k hk]; ring

/-! ## Every Gillespie step is one legal event; states stay non-negative integers; time increases -/

/-- `gillespie_step_legal` -/
theorem gillespie_step_legal {e : EngIn} {x : State} (hv : EngValid e) (hx : NonNegInt x)
    {u1 L : Rat} (hu0 : 0 ≤ u1) (hu1 : u1 < 1) (ha : 0 < a0 e x) :
    ∃ c, gillespieStep e x u1 L = some ⟨applyEvent e x c, L / a0 e x, some c⟩ ∧
      0 < propOf e x c ∧ Legal e x c ∧ NonNegInt (applyEvent e x c) := by
  obtain ⟨c, h1, _, h3, h4⟩ := gillespieStep_legal hv hx.nonneg (L := L) hu0 hu1 ha
  exact ⟨c, h1, h3, h4, nonNegInt_applyEvent hv hx h4⟩

/-- the effect of the event is masked by the chemostat flags — the propensity is not (`propOf` never reads `chem`) -/
theorem effect_masked_propensity_not (e : EngIn) (x : State) (chem' : Nat → Nat → Bool) (c : Event) :
    propOf { e with chem := chem' } x c = propOf e x c := by
  cases c with
  | reaction i r =>
    exact reactionProp_congr (e := e) (e' := { e with chem := chem' }) rfl rfl rfl x i r
  | diffusion i s n => rfl

theorem reaction_effect (e : EngIn) (x : State) (i r i' s : Nat) :
    (applyEvent e x (.reaction i r)) i' s =
      x i' s + (if i' = i ∧ e.chem i s = false then (e.net.sto s r : Rat) else 0) :=
  applyEvent_reaction e x i r i' s

theorem diffusion_effect (e : EngIn) (x : State) {i s n j : Nat} (hj : e.topo.nbr i n = some j) (i' s' : Nat) :
    (applyEvent e x (.diffusion i s n)) i' s' =
      x i' s' - (if i' = i ∧ s' = s ∧ e.chem i s = false then 1 else 0)
              + (if i' = j ∧ s' = s ∧ e.chem j s = false then 1 else 0) :=
  applyEvent_diffusion e x hj i' s'

/-- the engine stops exactly when no event is possible (`a0 = 0`), without drawing -/
theorem stops_iff_no_event (e : EngIn) (x : State) (u1 L : Rat) : gillespieStep e x u1 L = none ↔ a0 e x = 0 :=
  gillespieStep_none_iff e x u1 L

/-- a trajectory: the recorded (time, state) pairs after each `Iterate`, for a stream of draws `(u1, L)` with
`L = log(1/u2)` supplied by the caller -/
def gillespieTraj (e : EngIn) : List (Rat × Rat) → State → Rat → List (Rat × State)
  | [], _, _ => []
  | (u1, l) :: ds, x, t =>
    match gillespieStep e x u1 l with
    | none => []
    | some g => (t + g.dt, g.x) :: gillespieTraj e ds g.x (t + g.dt)

/-- by induction over any number of steps: all recorded states are non-negative integer states and the
recorded times increase strictly (for draws `u1 ∈ [0,1)` and `L = log(1/u2) > 0`, i.e. `u2 ∈ (0,1)`) -/
theorem trajectory_legal {e : EngIn} (hv : EngValid e) :
    ∀ (ds : List (Rat × Rat)) (x : State) (t : Rat), NonNegInt x →
      (∀ d ∈ ds, 0 ≤ d.1 ∧ d.1 < 1 ∧ 0 < d.2) →
      (∀ p ∈ gillespieTraj e ds x t, t < p.1 ∧ NonNegInt p.2) ∧
      ((gillespieTraj e ds x t).map (·.1)).Pairwise (· < ·) := by
  intro ds
  induction ds with
  | nil => intro x t _ _; simp [gillespieTraj]
  | cons d ds ih =>
    intro x t hx hd
    obtain ⟨u1, l⟩ := d
    have hd0 := hd (u1, l) (by simp)
    simp only [gillespieTraj]
    have hx' : ∀ i s, 0 ≤ x i s := hx.nonneg
    by_cases ha : a0 e x = 0
    · rw [(gillespieStep_none_iff e x u1 l).2 ha]; simp
    · have hapos : 0 < a0 e x := by
        rcases lt_or_gt_of_ne ha with h | h
        · have hnn := propsNonneg_of_valid hv hx'
          rw [a0_eq] at h
          have : 0 ≤ ((channels e (List.range e.topo.nCells)).map (propOf e x)).sum :=
            list_sum_nonneg (fun w hw => by
              simp only [List.mem_map] at hw; obtain ⟨c, _, rfl⟩ := hw; exact hnn c)
          linarith
        · exact h
      obtain ⟨c, hstep, _, hleg, hnni⟩ := gillespie_step_legal hv hx (L := l) hd0.1 hd0.2.1 hapos
      rw [hstep]
      have hdt : 0 < l / a0 e x := div_pos hd0.2.2 hapos
      obtain ⟨ih1, ih2⟩ := ih (applyEvent e x c) (t + l / a0 e x) hnni (fun d hm => hd d (by simp [hm]))
      constructor
      · intro p hp
        rcases List.mem_cons.1 hp with rfl | hp
        · exact ⟨by simpa using hdt, hnni⟩
        · obtain ⟨h1, h2⟩ := ih1 p hp
          exact ⟨by linarith, h2⟩
      · simp only [List.map_cons, List.pairwise_cons]
        refine ⟨?_, ih2⟩
        intro t' ht'
        simp only [List.mem_map] at ht'
        obtain ⟨p, hp, rfl⟩ := ht'
        exact (ih1 p hp).1

/-! ## Waiting times -/

/-- `time_strictly_increases` -/
theorem time_strictly_increases {e : EngIn} {x : State} {u1 L : Rat} {g : GStep} (ha : 0 < a0 e x) (hL : 0 < L)
    (h : gillespieStep e x u1 L = some g) : 0 < g.dt := by
  have hne : (a0 e x == 0) = false := by simpa using ne_of_gt ha
  simp only [gillespieStep, hne] at h
  cases h
  exact div_pos hL ha

/-- `wait_is_exponential`: `dt = log(1/u)/a0` is the inverse-CDF transform of a uniform `u ∈ (0,1)` for the
exponential distribution of rate `a0`: `P(dt > τ) = P(u < e^{−a0 τ}) = e^{−a0 τ}`; and `dt > 0` -/
theorem wait_is_exponential {u a τ : ℝ} (hu : 0 < u) (hu1 : u < 1) (ha : 0 < a) :
    (τ < Real.log (1 / u) / a ↔ u < Real.exp (-(a * τ))) ∧ 0 < Real.log (1 / u) / a :=
  ⟨wait_lt_iff hu ha, wait_pos hu hu1 ha⟩

/-! ## Tau-leap -/

/-- `tauleap_means`: the mean handed to the Poisson primitive for channel `c` is `propensity(c)·dt`, in the fixed
order `tauChannels`; all of them are channels of the exact engine with the same propensity function; a mean
`≤ 0` draws nothing and counts 0 -/
theorem tauleap_means (e : EngIn) (dt : Rat) (x : State) :
    tauLeapMeans e dt x = (tauChannels e).map (fun c => propOf e x c * dt) ∧
    (∀ c ∈ tauChannels e, c ∈ channels e (List.range e.topo.nCells)) ∧
    (∀ ds cs, poissonCounts (tauLeapMeans e dt x) ds = some cs →
      cs.length = (tauLeapMeans e dt x).length ∧
      (List.zip (tauLeapMeans e dt x) cs).filterMap (fun p => if p.1 ≤ 0 then none else some p.2) = ds ∧
      ∀ p ∈ List.zip (tauLeapMeans e dt x) cs, p.1 ≤ 0 → p.2 = 0) :=
  ⟨tauLeapMeans_eq e dt x, tauChannels_sub e, fun ds cs h => poissonCounts_spec _ ds cs h⟩

/-- the tau-leap engine and the exact engine have the SAME channels with the SAME propensities: the tau-leap call
list is the Gillespie scan list, in the same order, minus the slots without a neighbour — whose propensity is 0 in
the exact engine; hence both see the same total propensity `a0` -/
theorem tauleap_channels_are_gillespie_channels (e : EngIn) (x : State) (dt : Rat) :
    tauChannels e = (channels e (List.range e.topo.nCells)).filter (hasTarget e) ∧
    (∀ c ∈ channels e (List.range e.topo.nCells), hasTarget e c = false → propOf e x c = 0) ∧
    a0 e x = ((tauChannels e).map (propOf e x)).sum ∧
    tauLeapMeans e dt x = (tauChannels e).map (fun c => propOf e x c * dt) :=
  ⟨tauChannels_eq_filter e, fun c _ h => propOf_zero_of_not_hasTarget e x c h, a0_eq_sum_tauChannels e x,
   tauLeapMeans_eq e dt x⟩

/-- **tau-leap closed form**: `Apply_nevt` — cells in order, each updating the state in place, reactions then
slots — leaves in every entry `x + [not chemostated]·(Σ_r sto·nr − Σ_n nd(leaving) + Σ_{(j,m): nbr j m = i} nd(arriving))`:
the order-independent sum of count × chemostat-masked effect, for EVERY count vector (no sign or wall condition needed) -/
theorem tauleap_closed_form (e : EngIn) (c : Counts) (x : State) {i s : Nat}
    (hi : i < e.topo.nCells) (hs : s < e.net.nSpecies) :
    (tauLeapApply e c x) i s = x i s + (if e.chem i s = true then 0 else
      (∑ r ∈ range e.net.nReact, (e.net.sto s r : Rat) * (c.nr i r : Rat)
       - ∑ n ∈ range (e.topo.nSlots i), (c.nd i s n : Rat)
       + ∑ j ∈ range e.topo.nCells, ∑ m ∈ range (e.topo.nSlots j),
           (if e.topo.nbr j m = some i then (c.nd j s m : Rat) else 0))) :=
  tauLeapApply_closed_form e c x hi hs

/-- C03-style corollary: entries flagged as chemostated are fixed by a tau-leap step, whatever was drawn; so are
entries beyond the species range -/
theorem tauleap_flagged_entries_fixed (e : EngIn) (c : Counts) (x : State) (i s : Nat) :
    (i < e.topo.nCells → s < e.net.nSpecies → e.chem i s = true → (tauLeapApply e c x) i s = x i s) ∧
    (e.net.nSpecies ≤ s → (tauLeapApply e c x) i s = x i s) :=
  ⟨fun hi hs hc => tauLeapApply_chem_fixed e c x hi hs hc, fun hs => tauLeapApply_outside_species e c x i hs⟩

end Strengths.C07
