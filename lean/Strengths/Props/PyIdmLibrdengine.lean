/-
Idiom inventory of src/strengths/librdengine.py (generated: `Gen.PyIdioms.inv_librdengine`, regenerated from the source on every run).
-/
import Strengths.Model.PyIdioms

namespace Strengths.PyIdioms
open Strengths.Gen.PyIdioms

/-- `librdengine.py` keeps value semantics: no identity comparison except with `None`, no substring test on a literal, no
`assert`, no `and`/`or` selecting a value, no `*d.values()` (the model compares by value, handles absence through `Option`,
and reads dictionaries by key) -/
theorem librdengine_value_semantic : valueSemantic inv_librdengine = true := by decide +kernel

/-- `librdengine.py` never aliases an array on purpose: no `np.asarray`, `np.frombuffer`, `.view(…)`, `memoryview` — what a function
returns is a fresh object (the model's values are immutable; this is the source fact that lets mutation of a returned
object be ignored) -/
theorem librdengine_no_views : views_librdengine = [] := by decide +kernel

/-- `LibRDEngine.setup` works on its own copy of the script and of the script's units system -/
theorem librdengine_copies :
    copies_librdengine =
      [("LibRDEngine.setup", "script.copy()"), ("LibRDEngine.setup", "script.units_system.copy()")] := by
  decide +kernel

end Strengths.PyIdioms
