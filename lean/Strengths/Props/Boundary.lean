/-
Property theorems about the Python <-> C++ boundary (shared by every property whose observations pass through
`LibRDEngine`: C01–C04, C07–C09, C14, C15).  Statements about the *generated* tables of `Gen.Marshal` (regenerated from
librdengine.py and engine.cpp on every run) and about the marshalling semantics of `Model/Boundary.lean`.
-/
import Strengths.Model.Boundary
import Strengths.Proofs.Units

namespace Strengths.Boundary
open Strengths.Gen.Marshal

/-! ## 1. types -/

/-- every argument of both native initialisers is wrapped in the ctypes type the C++ parameter at the same position
declares (`int`↔`c_int`, `double`↔`c_double`, `const char*`↔`c_char_p(….encode())`, `int*`/`double*`↔
`make_ctypes_array(…, c_int / c_double)`), and the argument counts agree; the two read-back buffers are `double` arrays
as the native getters declare -/
theorem boundary_types :
    typesAgree pyGrid cppGrid = true ∧ typesAgree pyGraph cppGraph = true ∧
    cppData.map (·.ty) = [CTy.dblArr] ∧ cppTSample.map (·.ty) = [CTy.dblArr] := by
  decide +kernel

/-! ## 2. units -/

/-- every real-valued argument (state, volumes, rate constants, diffusion coefficients, edge surfaces and distances,
sample times, sampling interval, t_max, time step) crosses the boundary expressed in the engine's units system; integers
and texts cross unchanged -/
theorem quantities_cross_in_engine_units :
    realsInEngineUnits pyGrid = true ∧ realsInEngineUnits pyGraph = true ∧
    discreteUnconverted pyGrid = true ∧ discreteUnconverted pyGraph = true := by
  decide +kernel

/-- the engine's units system is the script's, with the quantity unit forced to `molecule` for engines that require
molecules, and it is the one remembered for the read-back -/
theorem engine_units_derivation :
    pyEngineUnits = ["units_system=script.units_system.copy()", "units_system.quantity=\"molecule\"",
                     "self._units_system=units_system"] := by
  decide +kernel

/-- a converted argument is the quantity's SI value divided by the SI value of the engine's unit: it does not depend
on the units the quantity happens to be stored in -/
theorem marshal_is_si_over_engine_unit (U : Sys) (c : Conv) (q : Stored) (hc : c ≠ .none) :
    marshalReal U c q = q.si / siFactor U q.dim := by
  have h : marshalReal U c q = q.v * convFactor q.sys U q.dim := by cases c <;> simp_all [marshalReal]
  rw [h, convFactor_eq_div, Stored.si, mul_div_assoc]

/-- **storage independence of the whole call**: two descriptions of the same physical model (every source expression
has the same SI value and dimension) hand identical real-valued arguments to the engine — for
ANY argument table whose real-valued arguments are all converted -/
theorem marshal_storage_independent (U : Sys) (py : List PyArg) (hpy : realsInEngineUnits py = true)
    (ρ₁ ρ₂ : String → Stored)
    (h : ∀ a ∈ py, (ρ₁ a.src).si = (ρ₂ a.src).si ∧ (ρ₁ a.src).dim = (ρ₂ a.src).dim) :
    marshalReals U py ρ₁ = marshalReals U py ρ₂ := by
  unfold marshalReals
  apply List.map_congr_left
  intro a ha
  have hmem := (List.mem_filter.1 ha)
  have hreal : isReal a.ty = true := by simpa using hmem.2
  have hconv : a.conv ≠ .none := by
    have := (List.all_eq_true.1 hpy) a hmem.1
    simp only [hreal, Bool.not_true, Bool.false_or] at this
    simpa using this
  obtain ⟨hsi, hdim⟩ := h a hmem.1
  rw [marshal_is_si_over_engine_unit U _ _ hconv, marshal_is_si_over_engine_unit U _ _ hconv, hsi, hdim]

/-- … in particular for the two calls the code actually makes -/
theorem grid_call_storage_independent (U : Sys) (ρ₁ ρ₂ : String → Stored)
    (h : ∀ a ∈ pyGrid, (ρ₁ a.src).si = (ρ₂ a.src).si ∧ (ρ₁ a.src).dim = (ρ₂ a.src).dim) :
    marshalReals U pyGrid ρ₁ = marshalReals U pyGrid ρ₂ :=
  marshal_storage_independent U pyGrid quantities_cross_in_engine_units.1 ρ₁ ρ₂ h

theorem graph_call_storage_independent (U : Sys) (ρ₁ ρ₂ : String → Stored)
    (h : ∀ a ∈ pyGraph, (ρ₁ a.src).si = (ρ₂ a.src).si ∧ (ρ₁ a.src).dim = (ρ₂ a.src).dim) :
    marshalReals U pyGraph ρ₁ = marshalReals U pyGraph ρ₂ :=
  marshal_storage_independent U pyGraph quantities_cross_in_engine_units.2.1 ρ₁ ρ₂ h

/-- non-vacuity, and why the hypothesis matters: 0.5 ms and 0.0005 s are the same time step; converted they reach an
engine working in seconds as the same number, unconverted they do not -/
example :
    let a : Stored := ⟨1/2, ⟨"µm", "ms", "molecule"⟩, Dim.time_⟩
    let b : Stored := ⟨1/2000, ⟨"µm", "s", "molecule"⟩, Dim.time_⟩
    a.si = b.si ∧ marshalReal Sys.default .toEngine a = marshalReal Sys.default .toEngine b ∧
    marshalReal Sys.default .none a ≠ marshalReal Sys.default .none b := by
  decide +kernel

/-! ## 3. which quantity goes where -/

/-- the source expression bound to each named C++ parameter of the grid initialiser -/
theorem grid_parameter_sources :
    (cppGrid.map (·.name)).zip (pyGrid.map (·.src)) =
      [("w", "script.system.space.w"), ("h", "script.system.space.h"), ("d", "script.system.space.d"),
       ("n_species", "len(species)"), ("n_reactions", "len(reactions)"), ("n_env", "len(environments)"),
       ("mesh_state", "script.system.state"), ("mesh_chstt", "script.system.chemostats"),
       ("mesh_env", "script.system.space.cell_env"), ("mesh_vol", "script.system.space.cell_vol"),
       ("k", "build_reaction_rate_constant_matrix(reactions,environments)"),
       ("sub", "build_substrate_stoechiometric_matrix(species,reactions)"),
       ("sto", "build_stoechiometric_difference_matrix(species,reactions)"),
       ("D", "build_diff_coef_environment_matrix(species,environments)"),
       ("boundary_conditions_x", "script.system.space.get_boundary_conditions()[\"x\"]"),
       ("boundary_conditions_y", "script.system.space.get_boundary_conditions()[\"y\"]"),
       ("boundary_conditions_z", "script.system.space.get_boundary_conditions()[\"z\"]"),
       ("sample_n", "len(script.t_sample)"), ("sample_t", "script.t_sample"),
       ("sampling_policy", "script.sampling_policy"), ("sampling_interval", "script.sampling_interval"),
       ("t_max", "script.t_max"), ("time_step", "script.time_step"), ("seed", "script.rng_seed"),
       ("init_state_processing", "script.init_state_processing"), ("option", "self.option")] := by
  decide +kernel

/-- the graph initialiser's own parameters: node/edge counts, edge ends, edge surfaces (dimension surface) and
distances (dimension length) labelled in the engine's units, per-node environments and volumes -/
theorem graph_parameter_sources :
    argOf pyGraph cppGraph "n_nodes" = some ⟨.int, "len(script.system.space.nodes)", .none, ""⟩ ∧
    argOf pyGraph cppGraph "n_edges" = some ⟨.int, "len(script.system.space.edges)", .none, ""⟩ ∧
    argOf pyGraph cppGraph "edge_i" = some ⟨.intArr, "[edge.iforedgeinscript.system.space.edges]", .none, ""⟩ ∧
    argOf pyGraph cppGraph "edge_j" = some ⟨.intArr, "[edge.jforedgeinscript.system.space.edges]", .none, ""⟩ ∧
    argOf pyGraph cppGraph "edge_sfc" =
      some ⟨.dblArr, "[edge.surfaceforedgeinscript.system.space.edges]", .labelledEngine, "surface"⟩ ∧
    argOf pyGraph cppGraph "edge_dst" =
      some ⟨.dblArr, "[edge.distanceforedgeinscript.system.space.edges]", .labelledEngine, "space"⟩ ∧
    argOf pyGraph cppGraph "mesh_env" = some ⟨.intArr, "script.system.space.get_cell_env_array()", .none, ""⟩ ∧
    argOf pyGraph cppGraph "mesh_vol" = some ⟨.dblArr, "script.system.space.get_cell_vol_array()", .toEngine, ""⟩ := by
  decide +kernel

/-- every parameter the two initialisers share (all but the per-cell environment and volume, which a grid holds as one
array / one value and a graph per node) is bound to the same source, converted the same way, in both -/
theorem grid_graph_agree :
    ∀ n ∈ commonNames cppGrid cppGraph, n ≠ "mesh_env" → n ≠ "mesh_vol" →
      argOf pyGrid cppGrid n = argOf pyGraph cppGraph n := by
  decide +kernel

example : commonNames cppGrid cppGraph =
    ["n_species", "n_reactions", "n_env", "mesh_state", "mesh_chstt", "mesh_env", "mesh_vol", "k", "sub", "sto", "D",
     "sample_n", "sample_t", "sampling_policy", "sampling_interval", "t_max", "time_step", "seed",
     "init_state_processing", "option"] := by decide +kernel

/-! ## 4. read-back -/

/-- `_get_data` / `_get_t_sample`: a `double` buffer of exactly the announced length (samples × state size, resp.
samples) is allocated, handed to the matching native getter, copied entry by entry, labelled with the ENGINE's units
(quantity, resp. time) and converted to the SCRIPT's -/
theorem read_back_shape :
    readBackShape pyData "engineexport_get_trajectory" "data_" "data" "quantity_units_dimensions()" = true ∧
    pyData.length = "n_sample*self._script.system.state_size()" ∧
    readBackShape pyTSample "engineexport_get_tsample" "t_sample_" "t_sample" "time_units_dimensions()" = true ∧
    pyTSample.length = "n_sample" := by
  decide +kernel

/-- what the trajectory reports has the SI value of what the engine computed -/
theorem read_back_si (U S : Sys) (hS : S.valid = true) (d : Dim) (x : Rat) :
    readBack U S d x * siFactor S d = x * siFactor U d := by
  unfold readBack
  rw [convFactor_eq_div]
  have := siFactor_ne hS d
  field_simp

/-- a quantity stored in the script's own units that the engine leaves untouched comes back as the same number
(the initial sample of a trajectory is the system's state) -/
theorem marshal_read_back_roundtrip (U S : Sys) (hU : U.valid = true) (hS : S.valid = true) (c : Conv) (hc : c ≠ .none)
    (d : Dim) (v : Rat) : readBack U S d (marshalReal U c ⟨v, S, d⟩) = v := by
  have h : marshalReal U c ⟨v, S, d⟩ = v * convFactor S U d := by cases c <;> simp_all [marshalReal]
  rw [h, readBack, mul_assoc, convFactor_comp S hU S d, convFactor_self hS, mul_one]

end Strengths.Boundary
