/-
State that outlives a simulation inside the native engine.  `Gen.CppNumeric.staticDecls` (regenerated from engine.cpp and
the eight algorithm headers on every run) lists every `static` / `thread_local` declaration, `preprocessorLines` every `#` line
and `fpEnvTokens` every access to the floating-point environment (thread-wide state that would outlive a simulation).
-/
import Strengths.Gen.CppNumeric

namespace Strengths.CppStatics
open Strengths.Gen.CppNumeric

/-- the engine sources declare no `static` (function-local, class-level or file-level) and no `thread_local` object:
besides the globals of engine.cpp inventoried for C08/C10 (`Gen.EngineLife.globals`), every datum of a simulation lives
in the algorithm object that the set-up creates, so nothing computed for one simulation can be read by the next
(`C08.init_ignores_past`, `C10.setup_after_finalize_clean` rest on this) -/
theorem no_function_static_state : staticDecls = [] := by decide +kernel

/-- **the engine never touches the floating-point environment or other process-wide numeric state**: no SSE control-register
intrinsic, no `<cfenv>` call, no `_controlfp`, no inline assembly, no `setlocale`.  The model (and C08's "a trajectory is a
function of script, engine kind and seed") reads every `double` operation as a function of its operands — IEEE default
rounding with gradual underflow; a simulation that switches the thread to flush-to-zero, or changes the rounding mode,
changes what every LATER simulation (and numpy) computes in the same process. -/
theorem no_fp_environment_access : fpEnvTokens = [] := by decide +kernel

/-- the complete list of preprocessor lines of the engine: the standard headers `<iostream>`, `<random>`, `<chrono>`, the
eight algorithm headers, and the optional CPython module stub; no `#define`, no `#pragma` (in particular nothing that
changes floating-point contraction or optimisation), no further system header (`<xmmintrin.h>`, `<cfenv>`, `<csignal>`, …) -/
theorem preprocessor_lines :
    preprocessorLines =
      [("engine.cpp", "#include <iostream>"), ("engine.cpp", "#include <random>"),
       ("engine.cpp", "#include \"SimulationAlgorithm3DBase.hpp\""), ("engine.cpp", "#include \"Euler3D.hpp\""),
       ("engine.cpp", "#include \"TauLeap3D.hpp\""), ("engine.cpp", "#include \"Gillespie3D.hpp\""),
       ("engine.cpp", "#include \"SimulationAlgorithmGraphBase.hpp\""), ("engine.cpp", "#include \"EulerGraph.hpp\""),
       ("engine.cpp", "#include \"TauLeapGraph.hpp\""), ("engine.cpp", "#include \"GillespieGraph.hpp\""),
       ("engine.cpp", "#include <chrono>"), ("engine.cpp", "#ifdef CPYEMVER"), ("engine.cpp", "#include <Python.h>"),
       ("engine.cpp", "#endif")] := by
  decide +kernel

end Strengths.CppStatics
