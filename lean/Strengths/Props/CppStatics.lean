/-
State that outlives a simulation inside the native engine.  `Gen.CppNumeric.staticDecls` (regenerated from engine.cpp and
the eight algorithm headers on every run) lists every `static` / `thread_local` declaration.
-/
import Strengths.Gen.CppNumeric

namespace Strengths.CppStatics
open Strengths.Gen.CppNumeric

/-- the engine sources declare no `static` (function-local, class-level or file-level) and no `thread_local` object:
besides the globals of engine.cpp inventoried for C08/C10 (`Gen.EngineLife.globals`), every datum of a simulation lives
in the algorithm object that the set-up creates, so nothing computed for one simulation can be read by the next
(`C08.init_ignores_past`, `C10.setup_after_finalize_clean` rest on this) -/
theorem no_function_static_state : staticDecls = [] := by decide +kernel

end Strengths.CppStatics
