/-
Numeric inventory of src/strengths/value_processing.py (generated: `Gen.PyNumeric.inv_value_processing`, regenerated from the source on every run).
-/
import Strengths.Model.PyNumeric

namespace Strengths.PyNumeric
open Strengths.Gen.PyNumeric

/-- `value_processing.py` never rounds, truncates, compares with a tolerance, stores numbers in less than 64 bits, or prints them with a
limited number of digits (the model computes its values exactly and its texts through `repr`) -/
theorem value_processing_full_precision : fullPrecision inv_value_processing = true := by decide +kernel

/-- `value_processing.py` takes no maximum / minimum / absolute value and swallows no exception: nothing it computes is clamped -/
theorem value_processing_no_clamping : clamp_value_processing = [] := by decide +kernel

end Strengths.PyNumeric
