/-
C02 — Every engine conserves every conservation law of the network.

Spec: `Cons net c` (c is in the left null space of the stoichiometric matrix), `Free e c` (no chemostated entry
in the support of c), `total e c x = Σ_i Σ_s c_s·x[i][s]` (Proofs/Conserve.lean).  `c` ranges over ALL rational
vectors (integer combinations are a special case).  All theorems: every network, every topology (grid or
graph: the algorithms are modelled once over the slot structure `Topo`), every state, every draw / count vector,
every time step, any number of steps.
-/
import Strengths.Proofs.GraphConserve
import Strengths.Proofs.TauLeapClosed
import Strengths.Proofs.Grid
import Strengths.Model.CodeSnapshot
import Strengths.Gen.Stoch

namespace Strengths.C02
open Strengths Strengths.Gen Finset

/-! ## The code the model was written against -/

theorem code_as_modelled_euler :
    computeDxdtGrid = CodeSnapshot.computeDxdtGrid ∧ computeDxdtGraph = CodeSnapshot.computeDxdtGraph ∧
    applyDxdtGrid = CodeSnapshot.applyDxdtGrid ∧ applyDxdtGraph = CodeSnapshot.applyDxdtGraph ∧
    reactionRateGrid = CodeSnapshot.reactionRateGrid ∧ reactionRateGraph = CodeSnapshot.reactionRateGraph ∧
    diffusionRateGrid = CodeSnapshot.diffusionRateGrid ∧ diffusionRateGraph = CodeSnapshot.diffusionRateGraph ∧
    diffusionRateDifferenceGrid = CodeSnapshot.diffusionRateDifferenceGrid ∧
    diffusionRateDifferenceGraph = CodeSnapshot.diffusionRateDifferenceGraph := by decide +kernel

theorem code_as_modelled_stochastic_apply :
    applyNevtGrid = CodeSnapshot.applyNevtGrid ∧ applyNevtGraph = CodeSnapshot.applyNevtGraph ∧
    computeNevtGrid = CodeSnapshot.computeNevtGrid ∧ computeNevtGraph = CodeSnapshot.computeNevtGraph ∧
    applyReactionGrid = CodeSnapshot.applyReactionGrid ∧ applyReactionGraph = CodeSnapshot.applyReactionGraph ∧
    applyDiffusionGrid = CodeSnapshot.applyDiffusionGrid ∧ applyDiffusionGraph = CodeSnapshot.applyDiffusionGraph ∧
    buildMeshKdGrid = CodeSnapshot.buildMeshKdGrid ∧ buildMeshKdGraph = CodeSnapshot.buildMeshKdGraph ∧
    setNeighborsGraph = CodeSnapshot.setNeighborsGraph := by decide +kernel

/-- the opposed-direction table and the engine's export of samples (cell-major → species-major) -/
theorem code_as_modelled_tables :
    oppDir = [1, 0, 3, 2, 5, 4] ∧ (∀ ns n k s i : Int, exportSrc ns n s i = i * ns + s ∧
      exportDst ns n k s i = k * n * ns + s * n + i) := by
  refine ⟨by decide +kernel, fun ns n k s i => ⟨by simp [exportSrc], by simp [exportDst]⟩⟩

/-! ## Trivial conservation laws -/

/-- a species that takes part in no reaction is conserved on its own (`c = e_s`) -/
theorem single_species_cons (net : Net) (s0 : Nat) (h : ∀ r, r < net.nReact → net.sto s0 r = 0) :
    Cons net (fun s => if s = s0 then 1 else 0) := by
  intro r hr
  apply Finset.sum_eq_zero
  intro s _
  by_cases hs : s = s0
  · subst hs; simp [h r hr]
  · simp [hs]

/-- without reactions (diffusion alone) every combination is a conservation law -/
theorem diffusion_only_cons (net : Net) (h : net.nReact = 0) (c : Nat → Rat) : Cons net c := by
  intro r hr; omega

/-! ## One step of each engine -/

/-- `reaction_total_zero` (exact engine): a reaction firing leaves the total unchanged, chemostats or not -/
theorem reaction_total_zero {e : EngIn} {c : Nat → Rat} (hc : Cons e.net c) (hf : Free e c) (x : State)
    {i r : Nat} (hi : i < e.topo.nCells) (hr : r < e.net.nReact) :
    total e c (applyEvent e x (.reaction i r)) = total e c x :=
  total_applyEvent_reaction hc hf x hi hr

/-- a diffusion jump moves one molecule: it never creates or destroys any, whatever the boundary conditions,
environments, volumes or graph topology (no `Cons` needed) -/
theorem diffusion_jump_total_zero {e : EngIn} {c : Nat → Rat} (hf : Free e c) (htopo : TopoOK e) (x : State)
    {i s n : Nat} (hi : i < e.topo.nCells) (hs : s < e.net.nSpecies) (hn : n < e.topo.nSlots i)
    (hsome : (e.topo.nbr i n).isSome) :
    total e c (applyEvent e x (.diffusion i s n)) = total e c x :=
  total_applyEvent_diffusion hf htopo x hi hs hn hsome

/-- `gillespie_conserves`, for every pair of draws -/
theorem gillespie_conserves {e : EngIn} {c : Nat → Rat} (hv : EngValid e) (hc : Cons e.net c) (hf : Free e c)
    {x : State} (hx : ∀ i s, 0 ≤ x i s) {u1 L : Rat} (hu0 : 0 ≤ u1) (hu1 : u1 < 1) {g : GStep}
    (h : gillespieStep e x u1 L = some g) : total e c g.x = total e c x :=
  Strengths.gillespie_conserves hv hc hf hx hu0 hu1 h

/-- `tauleap_conserves`, for EVERY vector of counts (the only structural fact used: a slot without a
neighbour has count 0, which `Compute_nevt` guarantees without drawing) -/
theorem tauleap_conserves {e : EngIn} {c : Nat → Rat} (hc : Cons e.net c) (hf : Free e c) (htopo : TopoOK e)
    (k : Counts) (hw : WallZero e k) (x : State) : total e c (tauLeapApply e k x) = total e c x :=
  -- corollary of the closed form of `Apply_nevt` (C07.tauleap_closed_form): reactions cancel by `Cons`, and summed
  -- over the space arrivals = departures (an independent, step-by-step proof is `Strengths.tauleap_conserves`)
  tauleap_conserves_of_closed_form hc hf htopo k hw x

/-- every molecule that leaves a cell arrives in a cell -/
theorem tauleap_arrivals_eq_departures (e : EngIn) (k : Counts) (htopo : TopoOK e) (hw : WallZero e k) (s : Nat) :
    ∑ i ∈ range e.topo.nCells, ∑ j ∈ range e.topo.nCells, ∑ m ∈ range (e.topo.nSlots j),
        (if e.topo.nbr j m = some i then (k.nd j s m : Rat) else 0) =
    ∑ j ∈ range e.topo.nCells, ∑ m ∈ range (e.topo.nSlots j), (k.nd j s m : Rat) :=
  arrivals_eq_departures e k htopo hw s

/-- `diffusion_total_zero` (deterministic engine): the sum over all half-edges of the flux vanishes -/
theorem diffusion_total_zero {e : EngIn} (P : Pairing e) (x : State) (s : Nat) :
    ∑ p ∈ halfEdges e, diffusionRateDifference e x p.1 s p.2 = 0 :=
  diffusion_flux_sum_zero P x s

/-
`euler_conserves` is proved UNCONDITIONALLY for both space types the engine has:
`euler_conserves_grid` (every valid grid: all sizes, all 8 boundary settings; the half-edges are paired by the
opposed direction — `nbr_involutive` of Proofs/Grid.lean from the generated tables and wrap lines, and
`oppOf (oppOf n) = n` from the generated table) and `euler_conserves_graph` (every edge list over the nodes,
self-loops and parallel edges included, every volume / surface / distance: induction over the edge list, each edge
contributing a flux and its opposite).  `euler_conserves_paired` is the general form for any topology with a
half-edge pairing.
-/
theorem euler_conserves_paired {e : EngIn} {c : Nat → Rat} (hc : Cons e.net c) (hf : Free e c) (P : Pairing e)
    (dt : Rat) (x : State) : total e c (eulerStep e dt x) = total e c x :=
  euler_conserves hc hf P dt x

theorem opp_involutive : ∀ n, n < 6 → oppOf (oppOf n) = n ∧ oppOf n < 6 := by decide +kernel

/-- the grid's half-edges are paired by the opposed direction, given the neighbour involution -/
def grid_pairing (g : GridShape) (net : Net) (env : Nat → Nat) (h : Rat) (chem : Nat → Nat → Bool)
    (hinv : ∀ i n j, i < g.size → n < 6 → engNbr? g i n = some j → j < g.size ∧ engNbr? g j (oppOf n) = some i) :
    Pairing { net := net, topo := gridTopo g net env h, env := env, chem := chem, vol := fun _ => h * h * h } where
  σ := fun _ n => oppOf n
  ok := by
    intro i n j hi hn hj
    have hn6 : n < 6 := hn
    have hj' : engNbr? g i n = some j := hj
    obtain ⟨hjlt, hback⟩ := hinv i n j hi hn6 hj'
    obtain ⟨hoo, ho6⟩ := opp_involutive n hn6
    refine ⟨hjlt, ho6, hback, hoo, fun s => ⟨?_, ?_⟩⟩
    · show gridKd g net env h j s (oppOf n) = (gridTopo g net env h).kin i s n
      simp only [gridTopo, hj']
    · show (gridTopo g net env h).kin j s (oppOf n) = gridKd g net env h i s n
      simp only [gridTopo, hback, hoo]

/-- `euler_conserves` on every valid grid, all boundary settings, every volume / environment map / chemostat map -/
theorem euler_conserves_grid (g : GridShape) (hv : g.valid = true) (net : Net) (env : Nat → Nat) (h : Rat)
    (chem : Nat → Nat → Bool) {c : Nat → Rat}
    (hc : Cons net c)
    (hf : Free { net := net, topo := gridTopo g net env h, env := env, chem := chem, vol := fun _ => h * h * h } c)
    (dt : Rat) (x : State) :
    total { net := net, topo := gridTopo g net env h, env := env, chem := chem, vol := fun _ => h * h * h } c
      (eulerStep { net := net, topo := gridTopo g net env h, env := env, chem := chem, vol := fun _ => h * h * h } dt x) =
    total { net := net, topo := gridTopo g net env h, env := env, chem := chem, vol := fun _ => h * h * h } c x :=
  euler_conserves hc hf
    (grid_pairing g net env h chem (fun i n j hi hn hj => by
      obtain ⟨h1, h2⟩ := nbr_involutive hv hi hn hj
      exact ⟨h2, h1⟩)) dt x

/-- `euler_conserves` on every graph space: every edge list over the nodes (parallel edges, self-loops), all volumes,
surfaces, distances, environments, chemostat maps -/
theorem euler_conserves_graph (nN : Nat) (edges : List GEdge) (hv : ∀ ed ∈ edges, ed.i < nN ∧ ed.j < nN)
    (net : Net) (env : Nat → Nat) (vol edge : Nat → Rat) (chem : Nat → Nat → Bool) {c : Nat → Rat}
    (hc : Cons net c)
    (hf : Free { net := net, topo := graphTopo nN edges net env vol edge, env := env, chem := chem, vol := vol } c)
    (dt : Rat) (x : State) :
    total { net := net, topo := graphTopo nN edges net env vol edge, env := env, chem := chem, vol := vol } c
      (eulerStep { net := net, topo := graphTopo nN edges net env vol edge, env := env, chem := chem, vol := vol } dt x) =
    total { net := net, topo := graphTopo nN edges net env vol edge, env := env, chem := chem, vol := vol } c x :=
  euler_conserves_of_balanced hc hf dt x (graph_diffusionBalanced nN edges hv net env vol edge chem vol x)

/-- both space types are diffusion balanced in every state, so Euler runs of any length conserve (see `euler_run_conserves`) -/
theorem spaces_balanced :
    (∀ (g : GridShape), g.valid = true → ∀ (net : Net) (env : Nat → Nat) (h : Rat) (chem : Nat → Nat → Bool) (x : State),
      DiffusionBalanced { net := net, topo := gridTopo g net env h, env := env, chem := chem, vol := fun _ => h * h * h } x) ∧
    (∀ (nN : Nat) (edges : List GEdge), (∀ ed ∈ edges, ed.i < nN ∧ ed.j < nN) → ∀ (net : Net) (env : Nat → Nat)
      (vol edge : Nat → Rat) (chem : Nat → Nat → Bool) (x : State),
      DiffusionBalanced { net := net, topo := graphTopo nN edges net env vol edge, env := env, chem := chem, vol := vol } x) := by
  constructor
  · intro g hv net env h chem x
    exact diffusionBalanced_of_pairing (grid_pairing g net env h chem (fun i n j hi hn hj => by
      obtain ⟨h1, h2⟩ := nbr_involutive hv hi hn hj
      exact ⟨h2, h1⟩)) x
  · intro nN edges hv net env vol edge chem x
    exact graph_diffusionBalanced nN edges hv net env vol edge chem vol x

/-- the graph satisfies the topology side condition of the stochastic conservation theorems -/
theorem graph_topo_ok_all (nN : Nat) (edges : List GEdge) (hv : ∀ ed ∈ edges, ed.i < nN ∧ ed.j < nN)
    (net : Net) (env : Nat → Nat) (vol edge : Nat → Rat) (chem : Nat → Nat → Bool) (vol' : Nat → Rat) :
    TopoOK { net := net, topo := graphTopo nN edges net env vol edge, env := env, chem := chem, vol := vol' } :=
  graph_topo_ok nN edges hv net env vol edge chem vol'

/-- the grid satisfies the topology side condition of the stochastic conservation theorems -/
theorem grid_topo_ok (g : GridShape) (hv : g.valid = true) (net : Net) (env : Nat → Nat) (h : Rat)
    (chem : Nat → Nat → Bool) (vol : Nat → Rat) :
    TopoOK { net := net, topo := gridTopo g net env h, env := env, chem := chem, vol := vol } := by
  intro i n j hi hn hj
  exact (nbr_involutive hv hi hn hj).2

/-- graph: the interface diffusivity is symmetric, so the two half-edges of one edge carry swapped constants:
`kout` of one side (`D̄·S/(V_i·d)`) is `kin` of the other -/
theorem graph_kd_symmetric (hi hj Di Dj sfc dst Vi Vj : Rat) :
    interfaceD hi hj Di Dj = interfaceD hj hi Dj Di ∧
    interfaceD hi hj Di Dj * sfc / (Vi * dst) = interfaceD hj hi Dj Di * sfc / (Vi * dst) ∧
    interfaceD hi hj Di Dj * sfc / (Vj * dst) = interfaceD hj hi Dj Di * sfc / (Vj * dst) := by
  have h : interfaceD hi hj Di Dj = interfaceD hj hi Dj Di := by
    unfold interfaceD
    by_cases h1 : Di = 0 <;> by_cases h2 : Dj = 0 <;> simp [h1, h2, add_comm]
  exact ⟨h, by rw [h], by rw [h]⟩

/-! ## Any number of steps -/

/-- iterate the tau-leap `Apply_nevt` over a list of count vectors -/
def tauRun (e : EngIn) : List Counts → State → State
  | [], x => x
  | k :: ks, x => tauRun e ks (tauLeapApply e k x)

theorem tauleap_run_conserves {e : EngIn} {c : Nat → Rat} (hc : Cons e.net c) (hf : Free e c) (htopo : TopoOK e) :
    ∀ (ks : List Counts) (x : State), (∀ k ∈ ks, WallZero e k) → total e c (tauRun e ks x) = total e c x := by
  intro ks
  induction ks with
  | nil => intro x _; rfl
  | cons k ks ih =>
    intro x hw
    simp only [tauRun]
    rw [ih _ (fun k' hk' => hw k' (by simp [hk'])), tauleap_conserves hc hf htopo k (hw k (by simp)) x]

/-- iterate Euler steps -/
def eulerRun (e : EngIn) (dt : Rat) : Nat → State → State
  | 0, x => x
  | m + 1, x => eulerRun e dt m (eulerStep e dt x)

theorem euler_run_conserves {e : EngIn} {c : Nat → Rat} (hc : Cons e.net c) (hf : Free e c)
    (hbal : ∀ x, DiffusionBalanced e x)
    (dt : Rat) : ∀ (m : Nat) (x : State), total e c (eulerRun e dt m x) = total e c x := by
  intro m
  induction m with
  | zero => intro x; rfl
  | succ m ih => intro x; simp only [eulerRun]; rw [ih, euler_conserves_of_balanced hc hf dt x (hbal x)]

/-- iterate Gillespie steps over a stream of draws, stopping when `a0 = 0` -/
def gillespieRun (e : EngIn) : List (Rat × Rat) → State → State
  | [], x => x
  | (u1, l) :: ds, x =>
    match gillespieStep e x u1 l with
    | none => x
    | some g => gillespieRun e ds g.x

theorem gillespie_run_conserves {e : EngIn} {c : Nat → Rat} (hv : EngValid e) (hc : Cons e.net c) (hf : Free e c) :
    ∀ (ds : List (Rat × Rat)) (x : State), NonNegInt x → (∀ d ∈ ds, 0 ≤ d.1 ∧ d.1 < 1) →
      total e c (gillespieRun e ds x) = total e c x := by
  intro ds
  induction ds with
  | nil => intro x _ _; rfl
  | cons d ds ih =>
    intro x hx hd
    obtain ⟨u1, l⟩ := d
    have hd0 := hd (u1, l) (by simp)
    simp only [gillespieRun]
    cases hstep : gillespieStep e x u1 l with
    | none => rfl
    | some g =>
      simp only
      have hcons := Strengths.gillespie_conserves hv hc hf hx.nonneg hd0.1 hd0.2 hstep
      have ha : a0 e x ≠ 0 := fun h0 => by rw [(gillespieStep_none_iff e x u1 l).2 h0] at hstep; cases hstep
      have hnn := propsNonneg_of_valid hv hx.nonneg
      have hapos : 0 < a0 e x := by
        rcases lt_or_gt_of_ne ha with h' | h'
        · rw [a0_eq] at h'
          have : 0 ≤ ((channels e (List.range e.topo.nCells)).map (propOf e x)).sum :=
            list_sum_nonneg (fun w hw => by
              simp only [List.mem_map] at hw; obtain ⟨c, _, rfl⟩ := hw; exact hnn c)
          linarith
        · exact h'
      obtain ⟨ev, hs2, _, _, hleg⟩ := gillespieStep_legal hv hx.nonneg (L := l) hd0.1 hd0.2 hapos
      rw [hs2] at hstep; cases hstep
      rw [ih _ (nonNegInt_applyEvent hv hx hleg) (fun d hm => hd d (by simp [hm])), ← hcons]

/-! ## Non-vacuity -/

/-- A + B → C has the conservation laws (1,0,1) and (0,1,1) -/
example : Cons { nSpecies := 3, nReact := 1, nEnv := 1, k := fun _ _ => 1, sub := fun s _ => if s < 2 then 1 else 0,
                 sto := fun s _ => if s < 2 then -1 else 1, dcoef := fun _ _ => 1 }
    (fun s => if s = 1 then 0 else 1) := by
  intro r hr
  simp [Finset.sum_range_succ]

/-- the hypotheses of `tauleap_conserves` are satisfiable with (stoichiometric change) × (firings of one leap) beyond the
range of a C `int`: A → 3 B fired 10^9 times in one cell in one step, B gains 3·10^9 ≥ 2^31 molecules, and the law
3 A + B keeps its total in every state (the counts of the theorem are unbounded integers; nothing may wrap) -/
example : ∃ (e : EngIn) (c : Nat → Rat) (k : Counts), Cons e.net c ∧ Free e c ∧ TopoOK e ∧ WallZero e k ∧
    (2 : Int) ^ 31 ≤ e.net.sto 1 0 * k.nr 0 0 ∧ (∀ x : State, total e c (tauLeapApply e k x) = total e c x) := by
  let e : EngIn :=
    { net := { nSpecies := 2, nReact := 1, nEnv := 1, k := fun _ _ => 1, sub := fun s _ => if s = 0 then 1 else 0,
               sto := fun s _ => if s = 0 then -1 else 3, dcoef := fun _ _ => 0 },
      topo := { nCells := 1, nSlots := fun _ => 0, nbr := fun _ _ => none, kout := fun _ _ _ => 0, kin := fun _ _ _ => 0 },
      env := fun _ => 0, chem := fun _ _ => false, vol := fun _ => 1 }
  let c : Nat → Rat := fun s => if s = 0 then 3 else 1
  let k : Counts := { nr := fun _ _ => 1000000000, nd := fun _ _ _ => 0 }
  have hc : Cons e.net c := by
    intro r hr
    simp [e, c, Finset.sum_range_succ]
  have hf : Free e c := by
    intro i s _ _ h
    simp [e] at h
  have ht : TopoOK e := by
    intro i n j _ _ hn
    simp [e] at hn
  have hw : WallZero e k := by
    intro i s n _
    rfl
  exact ⟨e, c, k, hc, hf, ht, hw, by simp [e, k], fun x => tauleap_conserves hc hf ht k hw x⟩

end Strengths.C02
