/-
C01 — the marshalled Euler engine in ANY engine units system computes the SI rate law.

`Props/C01Marshal.lean` proves, unconditionally in the engine's units system `U`, that `Compute_dxdt` on the decoded
marshalled arrays is the rate law of `physInU sys U …` (the system's numbers expressed in `U`), and left the reading of
that number as the SI rate as `marshal_euler_general_units_partial` with the hypothesis
`physInU sys U = scalePhys a b c (physOfPy sys)`.  This file discharges that hypothesis from an explicit
well-formedness predicate on the Python system (`DimWF`: every stored quantity carries the dimension its field
demands and every coefficient vector has one entry per species — what the setters of `Reaction`, `Species`,
`RDGridSpace`, `RDGraphSpace` establish), and states the full theorems for graphs and grids.
-/
import Strengths.Props.C01Marshal
import Strengths.Props.C01Dxdtf

namespace Strengths.C01
open Strengths Strengths.Gen Strengths.Spec

/-! ## well-formed systems -/

/-- every quantity the per-environment value `v` can yield has dimension `d` -/
def envValDim (v : EnvVal) (d : Dim) : Prop :=
  match v with
  | .single q => q.dim = d
  | .dict es => ∀ p ∈ es, p.2.dim = d

/-- the dimension invariants the setters establish (`Reaction.kf/kr` setters check `kf_units_dimensions()`,
`Species.D` checks diffusion, `cell_vol` / node volumes check volume) and `ssto` / `psto` have one entry per species -/
structure DimWF (sys : PySys) : Prop where
  reac : ∀ r ∈ sys.reactions, r.sub.length = sys.nSpecies ∧ r.prod.length = sys.nSpecies ∧
    envValDim r.kf (kfDim (natSum r.sub)) ∧ envValDim r.kr (kfDim (natSum r.prod))
  dcoef : ∀ v ∈ sys.dcoef, envValDim v Dim.diffusion
  vol : match sys.space with
    | .grid _ v _ _ => v.dim = Dim.volume
    | .graph ns _ => ∀ n ∈ ns, n.vol.dim = Dim.volume

/-- the edges of a graph space carry surface and length dimensions -/
def EdgesWF (edges : List PyEdge) : Prop := ∀ e ∈ edges, e.sfc.dim = Dim.surface ∧ e.dst.dim = Dim.length

theorem lookup_mem_pair {es : List (String × Q)} {k : String} {q : Q} (h : es.lookup k = some q) : ∃ p ∈ es, p.2 = q := by
  induction es with
  | nil => simp at h
  | cons p ps ih =>
    obtain ⟨k', q'⟩ := p
    rw [List.lookup_cons] at h
    split at h
    · exact ⟨(k', q'), List.mem_cons_self, by simpa using h⟩
    · obtain ⟨p, hp, hq⟩ := ih h
      exact ⟨p, List.mem_cons_of_mem _ hp, hq⟩

theorem getValueInEnv_has_dim (v : EnvVal) (env : String) (d : Dim) (h : envValDim v d) :
    (getValueInEnv v env ⟨0, d⟩).dim = d := by
  cases v with
  | single q => exact h
  | dict es =>
    unfold getValueInEnv
    simp only
    split
    · rename_i q hq
      obtain ⟨p, hp, rfl⟩ := lookup_mem_pair hq
      exact h p hp
    · split
      · rename_i q hq
        obtain ⟨p, hp, rfl⟩ := lookup_mem_pair hq
        exact h p hp
      · rfl

/-- the number stored in `U` is the SI value over the SI size of the unit of the field's dimension (also for the zero
quantity of any dimension, which is what out-of-range reads of the model yield) -/
theorem inU_of_dim (q : Q) (U : Sys) (d : Dim) (h : q.dim = d ∨ q.si = 0) : q.inU U = q.si / siFactor U d := by
  unfold Q.inU
  cases h with
  | inl h => rw [h]
  | inr h => rw [h, zero_div, zero_div]

theorem siFactor_volume (U : Sys) : siFactor U Dim.volume = U.sSpace ^ 3 := by
  unfold siFactor Dim.volume
  simp only [zpow_zero, mul_one]
  norm_num [zpow_ofNat]

theorem siFactor_diffusion (U : Sys) : siFactor U Dim.diffusion = U.sSpace ^ 2 / U.sTime := by
  unfold siFactor Dim.diffusion
  simp only [zpow_zero, mul_one, zpow_neg, zpow_one]
  norm_num [zpow_ofNat, div_eq_mul_inv]

theorem siFactor_surface (U : Sys) : siFactor U Dim.surface = U.sSpace ^ 2 := by
  unfold siFactor Dim.surface
  simp only [zpow_zero, mul_one]
  norm_num [zpow_ofNat]

theorem siFactor_length (U : Sys) : siFactor U Dim.length = U.sSpace := by
  unfold siFactor Dim.length
  simp only [zpow_zero, mul_one, zpow_one]

/-! ## the system expressed in `U` is the SI system with every entry divided by the SI size of its unit -/

/-- a rate constant: in range by `DimWF`, out of range both sides are zero -/
theorem k_inU (sys : PySys) (U : Sys) (hwf : DimWF sys) (r : Nat) (env : String) :
    (getValueInEnv (sys.reactions.getD r default).kf env ⟨0, kfDim (natSum (sys.reactions.getD r default).sub)⟩).inU U
      = (getValueInEnv (sys.reactions.getD r default).kf env ⟨0, kfDim (natSum (sys.reactions.getD r default).sub)⟩).si /
        (U.sSpace ^ ((3 : Int) * (((List.range sys.nSpecies).map fun s => (sys.reactions.getD r default).sub.getD s 0).sum : Nat) - 3)
          * U.sTime ^ (-1 : Int)
          * U.sQty ^ ((1 : Int) - (((List.range sys.nSpecies).map fun s => (sys.reactions.getD r default).sub.getD s 0).sum : Nat))) ∧
    (getValueInEnv (sys.reactions.getD r default).kr env ⟨0, kfDim (natSum (sys.reactions.getD r default).prod)⟩).inU U
      = (getValueInEnv (sys.reactions.getD r default).kr env ⟨0, kfDim (natSum (sys.reactions.getD r default).prod)⟩).si /
        (U.sSpace ^ ((3 : Int) * (((List.range sys.nSpecies).map fun s => (sys.reactions.getD r default).prod.getD s 0).sum : Nat) - 3)
          * U.sTime ^ (-1 : Int)
          * U.sQty ^ ((1 : Int) - (((List.range sys.nSpecies).map fun s => (sys.reactions.getD r default).prod.getD s 0).sum : Nat))) := by
  by_cases hr : r < sys.reactions.length
  · have hget : sys.reactions.getD r default = sys.reactions[r] := by
      rw [List.getD_eq_getElem?_getD, List.getElem?_eq_getElem hr]; rfl
    have hmem : sys.reactions[r] ∈ sys.reactions := List.getElem_mem hr
    obtain ⟨hsl, hpl, hkf, hkr⟩ := hwf.reac _ hmem
    rw [hget, natSum_range _ _ hsl, natSum_range _ _ hpl, ← siFactor_kdim, ← siFactor_kdim]
    exact ⟨inU_of_dim _ U _ (Or.inl (getValueInEnv_has_dim _ env _ hkf)), inU_of_dim _ U _ (Or.inl (getValueInEnv_has_dim _ env _ hkr))⟩
  · have hget : sys.reactions.getD r default = default := by
      rw [List.getD_eq_getElem?_getD, List.getElem?_eq_none (Nat.le_of_not_lt hr)]; rfl
    rw [hget]
    have h0 : ∀ d : Q, (getValueInEnv (default : PyReaction).kf env d).si = 0 := fun _ => rfl
    have h1 : ∀ d : Q, (getValueInEnv (default : PyReaction).kr env d).si = 0 := fun _ => rfl
    constructor
    · unfold Q.inU; rw [h0, zero_div, zero_div]
    · unfold Q.inU; rw [h1, zero_div, zero_div]

theorem dcoef_inU (sys : PySys) (U : Sys) (hwf : DimWF sys) (s : Nat) (env : String) :
    (getValueInEnv (sys.dcoef.getD s default) env ⟨0, Dim.diffusion⟩).inU U
      = (getValueInEnv (sys.dcoef.getD s default) env ⟨0, Dim.diffusion⟩).si / (U.sSpace ^ 2 / U.sTime) := by
  rw [← siFactor_diffusion]
  by_cases hs : s < sys.dcoef.length
  · have hget : sys.dcoef.getD s default = sys.dcoef[s] := by
      rw [List.getD_eq_getElem?_getD, List.getElem?_eq_getElem hs]; rfl
    rw [hget]
    exact inU_of_dim _ U _ (Or.inl (getValueInEnv_has_dim _ env _ (hwf.dcoef _ (List.getElem_mem hs))))
  · have hget : sys.dcoef.getD s default = default := by
      rw [List.getD_eq_getElem?_getD, List.getElem?_eq_none (Nat.le_of_not_lt hs)]; rfl
    rw [hget]
    exact inU_of_dim _ U _ (Or.inr rfl)

/-- a cell volume: a grid's `cell_vol` for every index; a node's volume in range; out of range on a graph both sides are zero -/
theorem vol_inU (sys : PySys) (U : Sys) (hwf : DimWF sys) (i : Nat) :
    (sys.space.volOf i).inU U = (sys.space.volOf i).si / U.sSpace ^ 3 := by
  rw [← siFactor_volume]
  have hv := hwf.vol
  cases hsp : sys.space with
  | grid g v h env =>
    rw [hsp] at hv
    exact inU_of_dim _ U _ (Or.inl hv)
  | graph ns es =>
    rw [hsp] at hv
    by_cases hi : i < ns.length
    · have hget : (PySpace.graph ns es).volOf i = (ns[i]).vol := by
        show (ns.getD i default).vol = _
        rw [List.getD_eq_getElem?_getD, List.getElem?_eq_getElem hi]; rfl
      rw [hget]
      exact inU_of_dim _ U _ (Or.inl (hv _ (List.getElem_mem hi)))
    · have hget : (PySpace.graph ns es).volOf i = default := by
        show (ns.getD i default).vol = default
        rw [List.getD_eq_getElem?_getD, List.getElem?_eq_none (Nat.le_of_not_lt hi)]; rfl
      rw [hget]
      exact inU_of_dim _ U _ (Or.inr rfl)

/-- the interfaces of a cell, every surface divided by `a²` and every distance by `a` -/
def scaleFaces (a : Rat) (fs : List Face) : List Face := fs.map fun f => ⟨f.nbr, f.sfc / a ^ 2, f.dst / a⟩

/-- **the missing step of `marshal_euler_general_units_partial`**: for a well-formed system the tables expressed in `U` are the
SI tables, each entry divided by the SI size of the unit of its dimension -/
theorem physInU_eq_scalePhys (sys : PySys) (U : Sys) (hwf : DimWF sys) (faces : Nat → List Face) :
    physInU sys U (fun i => sys.space.edgeOf i / U.sSpace) (fun k => scaleFaces U.sSpace (faces k))
      = C04.scalePhys U.sSpace U.sTime U.sQty (physOfPy sys faces) := by
  unfold physInU C04.scalePhys physOfPy kfSI krSI scaleFaces
  simp only [Phys.mk.injEq, true_and]
  refine ⟨?_, ?_, ?_, ?_⟩
  · funext r
    simp only [Reac.mk.injEq, true_and]
    constructor
    · funext e
      exact (k_inU sys U hwf r (sys.envs.getD e "")).1
    · funext e
      rw [← kfDim_eq_krDim]
      exact (k_inU sys U hwf r (sys.envs.getD e "")).2
  · funext i
    exact vol_inU sys U hwf i
  · funext s e
    exact dcoef_inU sys U hwf s (sys.envs.getD e "")
  · trivial

/-! ## homogeneity of the rate law, needing only the volumes the entry reads -/

/-- `C04.rate_homogeneous` with the volume hypothesis restricted to the cell and its neighbours (on a graph the model's
out-of-range volumes are zero, so the hypothesis "every index has a non-zero volume" would be unsatisfiable) -/
theorem rate_homogeneous_local (a b c : Rat) (ha : a ≠ 0) (hb : b ≠ 0) (hc : c ≠ 0) (P : Phys) (x : St) (s i : Nat)
    (hVi : P.vol i ≠ 0) (hVn : ∀ f ∈ P.faces i, P.vol f.nbr ≠ 0) :
    rate (C04.scalePhys a b c P) (fun i s => x i s / c) s i = rate P x s i * b / c := by
  unfold rate
  have hR : reactionPart (C04.scalePhys a b c P) (fun i s => x i s / c) s i = reactionPart P x s i * b / c := by
    unfold reactionPart
    have hmul : ∀ (l : List Nat) (f : Nat → Rat), sumL (l.map fun r => f r * b / c) = sumL (l.map f) * b / c := by
      intro l f
      induction l with
      | nil => simp [sumL]
      | cons r rs ih => simp only [sumL, List.map_cons, List.foldr_cons] at *; rw [ih]; ring
    rw [← hmul]
    apply sumL_congr
    intro r _
    have h1 := C04.massAction_homogeneous a b c ha hb hc P x i ((P.reac r).kf (P.env i)) (P.reac r).sub hVi
    have h2 := C04.massAction_homogeneous a b c ha hb hc P x i ((P.reac r).kr (P.env i)) (P.reac r).prod hVi
    have e1 : ((C04.scalePhys a b c P).reac r).kf ((C04.scalePhys a b c P).env i) = (P.reac r).kf (P.env i) /
        (a ^ ((3 : Int) * (((List.range P.nSpecies).map (P.reac r).sub).sum : Nat) - 3) * b ^ (-1 : Int)
          * c ^ ((1 : Int) - (((List.range P.nSpecies).map (P.reac r).sub).sum : Nat))) := rfl
    have e2 : ((C04.scalePhys a b c P).reac r).kr ((C04.scalePhys a b c P).env i) = (P.reac r).kr (P.env i) /
        (a ^ ((3 : Int) * (((List.range P.nSpecies).map (P.reac r).prod).sum : Nat) - 3) * b ^ (-1 : Int)
          * c ^ ((1 : Int) - (((List.range P.nSpecies).map (P.reac r).prod).sum : Nat))) := rfl
    have e3 : ((C04.scalePhys a b c P).reac r).prod = (P.reac r).prod := rfl
    have e4 : ((C04.scalePhys a b c P).reac r).sub = (P.reac r).sub := rfl
    rw [e1, e2, e3, e4, h1, h2]
    ring
  have hD : diffusionPart (C04.scalePhys a b c P) (fun i s => x i s / c) s i = diffusionPart P x s i * b / c := by
    unfold diffusionPart conc
    simp only [C04.scalePhys, List.map_map]
    have hmul : ∀ (l : List Face) (f : Face → Rat), sumL (l.map fun r => f r * b / c) = sumL (l.map f) * b / c := by
      intro l f
      induction l with
      | nil => simp [sumL]
      | cons r rs ih => simp only [sumL, List.map_cons, List.foldr_cons] at *; rw [ih]; ring
    rw [← hmul]
    apply sumL_congr
    intro f hf
    simp only [Function.comp]
    have hm : a ^ 2 / b ≠ 0 := div_ne_zero (pow_ne_zero 2 ha) hb
    rw [C04.dbar_homogeneous _ _ _ _ a (a ^ 2 / b) ha hm]
    have := hVi
    have := hVn f hf
    field_simp
  rw [hR, hD]
  ring

/-! ## faces of the two kinds of space, expressed in `U` -/

theorem edgesInU_scaled (U : Sys) (edges : List PyEdge) (hed : EdgesWF edges) :
    edgesInU U edges = C04.scaleEdges U.sSpace (edges.map fun e => ⟨e.i, e.j, e.sfc.si, e.dst.si⟩) := by
  unfold edgesInU C04.scaleEdges
  rw [List.map_map]
  apply List.map_congr_left
  intro e he
  obtain ⟨h1, h2⟩ := hed e he
  simp only [Function.comp]
  rw [inU_of_dim e.sfc U _ (Or.inl h1), inU_of_dim e.dst U _ (Or.inl h2), siFactor_surface, siFactor_length]

theorem graph_faces_inU (U : Sys) (edges : List PyEdge) (hed : EdgesWF edges) (k : Nat) :
    (graphSlots (edgesInU U edges) k).map faceOfSlot = scaleFaces U.sSpace (graphFaces (edgesSI edges) k) := by
  rw [edgesInU_scaled U edges hed, C04.scaled_graph_faces]
  unfold scaleFaces
  congr 1
  have := graph_faces_are_slots (edges.map fun e => (⟨e.i, e.j, e.sfc.si, e.dst.si⟩ : GEdge)) k
  rw [← this]
  unfold edgesSI
  rw [List.map_map]
  rfl

theorem grid_faces_inU (g : GridShape) (a e : Rat) (k : Nat) :
    gridFaces g.w g.h g.d g.px g.py g.pz (e / a) k = scaleFaces a (gridFaces g.w g.h g.d g.px g.py g.pz e k) := by
  unfold gridFaces scaleFaces
  rw [List.map_map]
  apply List.map_congr_left
  intro j _
  simp only [Function.comp, Face.mk.injEq, true_and, and_true]
  rw [div_mul_div_comm, sq]

/-! ## the full statements -/

/-- **graphs, any engine units system.**  For every well-formed system, every valid units system `U` handed to the engine, every
SI state `xSI` (the engine holds `xSI / sQty`) and every free entry: the derivative `Compute_dxdt` computes from the DECODED
marshalled arrays is the SI rate law, expressed in `U`'s amount/time (`× sTime / sQty`). -/
theorem marshal_euler_general_units_graph (sys : PySys) (U : Sys) (hU : U.valid = true) (hwf : DimWF sys)
    (nodes : List PyNode) (edges : List PyEdge) (hsp : sys.space = .graph nodes edges) (hed : EdgesWF edges)
    (chem : Nat → Nat → Bool) (xSI : St) (i s : Nat)
    (hE : ∀ e ∈ edges, e.i < nodes.length ∧ e.j < nodes.length)
    (henv : ∀ j, j < nodes.length → sys.space.envOf j < sys.envs.length)
    (hi : i < nodes.length) (hs : s < sys.nSpecies) (hc : chem i s = false)
    (hVi : (sys.space.volOf i).si ≠ 0) (hVn : ∀ f ∈ graphFaces (edgesSI edges) i, (sys.space.volOf f.nbr).si ≠ 0) :
    eulerDxdt (engOfArraysGraph (pyMarshal sys U) sys.space.envOf (edgesInU U edges) (fun j => sys.space.edgeOf j / U.sSpace) chem)
        ⟨fun i s => xSI i s / U.sQty⟩ i s
      = rate (physOfPy sys (fun k => graphFaces (edgesSI edges) k)) xSI s i * U.sTime / U.sQty := by
  have ha := Sys.sSpace_ne hU
  have hb := Sys.sTime_ne hU
  have hq := Sys.sQty_ne hU
  have hV' : (sys.space.volOf i).inU U ≠ 0 := by
    rw [vol_inU sys U hwf i]
    exact div_ne_zero hVi (pow_ne_zero 3 ha)
  rw [marshal_euler_eq_rate_graph sys U nodes edges hsp _ chem _ i s hE henv hi hs hc hV']
  have hf : (fun k => (graphSlots (edgesInU U edges) k).map faceOfSlot)
      = fun k => scaleFaces U.sSpace (graphFaces (edgesSI edges) k) := by
    funext k; exact graph_faces_inU U edges hed k
  rw [hf, physInU_eq_scalePhys sys U hwf]
  exact rate_homogeneous_local _ _ _ ha hb hq _ xSI s i hVi hVn

/-- **grids, any engine units system** (`edge³ = cell_vol` in SI; the engine's `pow(cell_vol, 1/3)` is then `edge / sSpace`). -/
theorem marshal_euler_general_units_grid (sys : PySys) (U : Sys) (hU : U.valid = true) (hwf : DimWF sys)
    (g : GridShape) (vol : Q) (edge : Rat) (env : List Nat) (hsp : sys.space = .grid g vol edge env)
    (chem : Nat → Nat → Bool) (xSI : St) (i s : Nat)
    (hv : g.valid = true) (he : edge ≠ 0) (hV : vol.si = edge ^ 3)
    (henv : ∀ j, j < g.size → sys.space.envOf j < sys.envs.length)
    (hi : i < g.size) (hs : s < sys.nSpecies) (hc : chem i s = false) :
    eulerDxdt (engOfArraysGrid (pyMarshal sys U) sys.space.envOf g (edge / U.sSpace) chem) ⟨fun i s => xSI i s / U.sQty⟩ i s
      = rate (physOfPy sys (fun k => gridFaces g.w g.h g.d g.px g.py g.pz edge k)) xSI s i * U.sTime / U.sQty := by
  have ha := Sys.sSpace_ne hU
  have hb := Sys.sTime_ne hU
  have hq := Sys.sQty_ne hU
  have hvolU : ∀ j, (sys.space.volOf j) = vol := fun j => by rw [hsp]; rfl
  have hV' : vol.inU U = (edge / U.sSpace) ^ 3 := by
    have := vol_inU sys U hwf 0
    rw [hvolU] at this
    rw [this, hV, div_pow]
  rw [marshal_euler_eq_rate_grid sys U g vol edge env hsp (edge / U.sSpace) chem _ i s hv (div_ne_zero he ha) hV' henv hi hs hc]
  have hedge : (fun _ : Nat => edge / U.sSpace) = fun j => sys.space.edgeOf j / U.sSpace := by
    funext j; rw [hsp]; rfl
  have hf : (fun k => gridFaces g.w g.h g.d g.px g.py g.pz (edge / U.sSpace) k)
      = fun k => scaleFaces U.sSpace (gridFaces g.w g.h g.d g.px g.py g.pz edge k) := by
    funext k; exact grid_faces_inU g U.sSpace edge k
  rw [hedge, hf, physInU_eq_scalePhys sys U hwf]
  have hvne : vol.si ≠ 0 := by rw [hV]; exact pow_ne_zero 3 he
  exact rate_homogeneous_local _ _ _ ha hb hq _ xSI s i (by show (sys.space.volOf i).si ≠ 0; rw [hvolU]; exact hvne)
    (fun f _ => by show (sys.space.volOf f.nbr).si ≠ 0; rw [hvolU]; exact hvne)

/-- a quantity of dimension amount/time expressed in `U` -/
theorem rate_inU (q : Q) (U : Sys) (hU : U.valid = true) (hd : q.dim = Dim.rate) : q.inU U = q.si * U.sTime / U.sQty := by
  have hb := Sys.sTime_ne hU
  have hq := Sys.sQty_ne hU
  unfold Q.inU siFactor
  rw [hd]
  simp only [Dim.rate, zpow_zero, one_mul, zpow_neg, zpow_one]
  field_simp

/-- **three-way agreement in any engine units system, grids**: the value `compute_dspeciesdt` returns, expressed in the engine's
units system `U`, is the derivative the Euler engine computes from the arrays `LibRDEngine` marshals in `U` -/
theorem kinetics_marshal_euler_agree_grid_units (sys : PySys) (U : Sys) (hU : U.valid = true) (hwf : DimWF sys)
    (g : GridShape) (vol : Q) (edge : Rat) (env : List Nat) (hsp : sys.space = .grid g vol edge env)
    (hv : g.valid = true) (hV : vol.si = edge ^ 3) (he : edge ≠ 0)
    (henv : ∀ j, j < g.size → sys.space.envOf j < sys.envs.length)
    (chem : Nat → Nat → Bool) (s i : Nat) (hi : i < g.size) (hs : s < sys.nSpecies) (hc : chem i s = false)
    (x : PyState) (q : Q) (h : pyDspeciesdt sys s i x false = .ok q) (hd : q.dim = Dim.rate) :
    eulerDxdt (engOfArraysGrid (pyMarshal sys U) sys.space.envOf g (edge / U.sSpace) chem)
        ⟨fun i s => stOf sys.space.size x i s / U.sQty⟩ i s = q.inU U := by
  rw [rate_inU q U hU hd, kinetics_eq_rate_grid sys g vol edge env hsp hv hV s i hi x q h]
  exact marshal_euler_general_units_grid sys U hU hwf g vol edge env hsp chem _ i s hv he hV henv hi hs hc

/-- the same on graphs (`hperm` as in `kinetics_eq_rate_graph`) -/
theorem kinetics_marshal_euler_agree_graph_units (sys : PySys) (U : Sys) (hU : U.valid = true) (hwf : DimWF sys)
    (nodes : List PyNode) (edges : List PyEdge) (hsp : sys.space = .graph nodes edges) (hed : EdgesWF edges)
    (hE : ∀ e ∈ edges, e.i < nodes.length ∧ e.j < nodes.length)
    (henv : ∀ j, j < nodes.length → sys.space.envOf j < sys.envs.length)
    (chem : Nat → Nat → Bool) (s i : Nat) (hi : i < nodes.length) (hs : s < sys.nSpecies) (hc : chem i s = false)
    (hVi : (sys.space.volOf i).si ≠ 0) (hVn : ∀ f ∈ graphFaces (edgesSI edges) i, (sys.space.volOf f.nbr).si ≠ 0)
    (x : PyState) (q : Q) (h : pyDspeciesdt sys s i x false = .ok q) (hd : q.dim = Dim.rate)
    (hperm : (pyFaces nodes.length edges i).Perm (graphFaces (edgesSI edges) i)) :
    eulerDxdt (engOfArraysGraph (pyMarshal sys U) sys.space.envOf (edgesInU U edges) (fun j => sys.space.edgeOf j / U.sSpace) chem)
        ⟨fun i s => stOf sys.space.size x i s / U.sQty⟩ i s = q.inU U := by
  rw [rate_inU q U hU hd, kinetics_eq_rate_graph sys nodes edges hsp s i x q h hperm]
  exact marshal_euler_general_units_graph sys U hU hwf nodes edges hsp hed chem _ i s hE henv hi hs hc hVi hVn

/-! ## the computable test implies the hypotheses -/

theorem envValDimB_sound (v : EnvVal) (d : Dim) (h : envValDimB v d = true) : envValDim v d := by
  cases v with
  | single q => simpa [envValDimB, envValDim] using h
  | dict es =>
    intro p hp
    simp only [envValDimB, List.all_eq_true] at h
    simpa using h p hp

/-- what the driver op `pysys_dimwf` evaluates on every real system is sufficient for `DimWF` (and `EdgesWF` on graphs) -/
theorem dimWFb_sound (sys : PySys) (h : dimWFb sys = true) :
    DimWF sys ∧ (∀ ns es, sys.space = .graph ns es → EdgesWF es) := by
  unfold dimWFb at h
  simp only [Bool.and_eq_true, List.all_eq_true] at h
  obtain ⟨⟨hr, hd⟩, hsp⟩ := h
  refine ⟨⟨?_, ?_, ?_⟩, ?_⟩
  · intro r hrm
    have := hr r hrm
    simp only [Bool.and_eq_true, beq_iff_eq] at this
    exact ⟨this.1.1.1, this.1.1.2, envValDimB_sound _ _ this.1.2, envValDimB_sound _ _ this.2⟩
  · intro v hv
    exact envValDimB_sound _ _ (hd v hv)
  · cases hs : sys.space with
    | grid g v e env =>
      rw [hs] at hsp
      simpa using hsp
    | graph ns es =>
      rw [hs] at hsp
      simp only [Bool.and_eq_true, List.all_eq_true, beq_iff_eq] at hsp
      exact hsp.1
  · intro ns es hs
    rw [hs] at hsp
    simp only [Bool.and_eq_true, List.all_eq_true, beq_iff_eq] at hsp
    exact hsp.2

/-- non-vacuity: a two-species, two-environment graph system with a second-order reversible reaction, a per-environment
constant, non-SI-looking values and an edge satisfies every hypothesis of `marshal_euler_general_units_graph` -/
def exampleSys : PySys where
  nSpecies := 2
  dcoef := [.single ⟨3, Dim.diffusion⟩, .dict [("a", ⟨1 / 2, Dim.diffusion⟩), ("default", ⟨0, Dim.diffusion⟩)]]
  reactions := [{ sub := [2, 0], prod := [0, 1], kf := .dict [("b", ⟨7, kfDim 2⟩)], kr := .single ⟨1 / 3, kfDim 1⟩ }]
  envs := ["a", "b"]
  space := .graph [⟨⟨8, Dim.volume⟩, 2, 0⟩, ⟨⟨27, Dim.volume⟩, 3, 1⟩] [⟨0, 1, ⟨5, Dim.surface⟩, ⟨2, Dim.length⟩⟩]
  chem := [0, 0, 0, 0]

example : dimWFb exampleSys = true := by decide +kernel

example : DimWF exampleSys ∧ EdgesWF [⟨0, 1, ⟨5, Dim.surface⟩, ⟨2, Dim.length⟩⟩] :=
  ⟨(dimWFb_sound exampleSys (by decide +kernel)).1, (dimWFb_sound exampleSys (by decide +kernel)).2 _ _ rfl⟩

end Strengths.C01
