/-
Idiom inventory of src/strengths/text_array_rw.py (generated: `Gen.PyIdioms.inv_text_array_rw`, regenerated from the source on every run).
-/
import Strengths.Model.PyIdioms

namespace Strengths.PyIdioms
open Strengths.Gen.PyIdioms

/-- `text_array_rw.py` keeps value semantics: no identity comparison except with `None`, no substring test on a literal, no
`assert`, no `and`/`or` selecting a value, no `*d.values()` (the model compares by value, handles absence through `Option`,
and reads dictionaries by key) -/
theorem text_array_rw_value_semantic : valueSemantic inv_text_array_rw = true := by decide +kernel

end Strengths.PyIdioms
