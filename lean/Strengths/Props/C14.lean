/-
C14 — Initial-state processing yields a valid molecular state with the right totals.

Model: `Model/InitState.lean` (`engine.cpp`: the `init_state_processing` dispatch of
`engineexport_initialize_grid/_graph`, `GenerateStochasticDistribution`, `SpeciesFirstToMeshFirstArray`;
`rdscript.py`: accepted modes and default; `librdengine.py`: the mode is passed on unchanged), as a function
of the stream of primitive draws.  Everything below holds for ALL states, cell counts, species counts and
draw streams (induction over the loops; no bounds).

Trusted / external: that `std::poisson_distribution<int>` yields a natural number (type of `Draw.pois`),
`uniform_real_distribution(0,1)` a value in `[0,1)`; the *distributions* of the primitives and of `mt19937`.
-/
import Strengths.Proofs.InitState
import Strengths.Proofs.RedistFair
import Strengths.Model.CodeSnapshot
import Strengths.Gen.IndexPy

namespace Strengths.C14
open Strengths Strengths.Gen

/-! ## The code the model was written against (build-time tie to the source) -/

/-- `GenerateStochasticDistribution` is, statement for statement, the function that was modelled -/
theorem code_as_modelled_redist :
    gsdBody = CodeSnapshot.gsdBody ∧ poissonNormalSwitch = 100 := by decide +kernel

/-- the mode dispatch of both `engineexport_initialize_*` functions is the modelled one, and the processed
array `mesh_x` is what `Init` receives -/
theorem code_as_modelled_dispatch :
    initBranchesGrid = CodeSnapshot.initBranchesGrid ∧ initBranchesGraph = CodeSnapshot.initBranchesGraph ∧
    isStochasticDefGrid = CodeSnapshot.isStochasticDefGrid ∧ isStochasticDefGraph = CodeSnapshot.isStochasticDefGraph ∧
    initPassesMeshXGrid = true ∧ initPassesMeshXGraph = true := by decide +kernel

/-- Python side: accepted modes (anything else raises), default `auto`, passed on unchanged by both set-up paths -/
theorem code_as_modelled_python :
    pyInitModes = ["auto", "none", "Poisson", "redist"] ∧ pyInitModesGuarded = true ∧
    pyInitModeDefault = "auto" ∧ pyInitModePassed = 2 := by decide +kernel

/-! ## Mode selection -/

/-- `auto` = redistribution for the stochastic engines, pass-through for the deterministic one -/
theorem auto_mode :
    selectInitMode "auto" (optionIsStochastic "gillespie") = some .redist ∧
    selectInitMode "auto" (optionIsStochastic "tauleap") = some .redist ∧
    selectInitMode "auto" (optionIsStochastic "euler") = some .none ∧
    selectInitMode pyInitModeDefault (optionIsStochastic "gillespie") = some .redist ∧
    selectInitMode pyInitModeDefault (optionIsStochastic "euler") = some .none := by decide +kernel

/-- the explicit modes do not depend on the engine kind -/
theorem explicit_modes (b : Bool) :
    selectInitMode "redist" b = some .redist ∧ selectInitMode "Poisson" b = some .poisson ∧
    selectInitMode "none" b = some .none ∧ selectInitMode "floor" b = some .floor := by
  cases b <;> decide +kernel

/-- every mode the script accepts is known to the engine (it never answers "invalid init state processing"),
and everything else is rejected by the script -/
theorem accepted_modes_are_processed :
    (∀ m ∈ pyInitModes, ∀ b : Bool, (selectInitMode m b).isSome = true) ∧
    (∀ m, m ∉ pyInitModes → ∀ o x n ns ds, scriptInitState m o x n ns ds = .error .badValue) := by
  constructor
  · decide +kernel
  · intro m hm o x n ns ds
    have hg : pyInitModesGuarded = true := by decide +kernel
    simp only [scriptInitState, hg, Bool.true_and]
    have : pyInitModes.contains m = false := by
      simpa [List.contains_iff_mem] using hm
    rw [this]; rfl

/-! ## Layout: species-major in = species-major out -/

/-- The cell-major position written by `SpeciesFirstToMeshFirstArray` for entry (species s, cell i) is the one
`GenerateStochasticDistribution` addresses and the one `engineexport_get_trajectory` / `_get_state` read back;
the species-major position it reads is `RDSystem.get_state_index(s, i)` and the one sample 0 is exported to. -/
theorem transpose_inverse (ns n s i : Int) :
    transposeDst ns n s i = gsdIndex ns s i ∧ transposeDst ns n s i = exportSrc ns n s i ∧
    transposeDst ns n s i = stateExportSrc ns n s i ∧
    transposeSrc ns n s i = stateIndex n s i ∧ transposeSrc ns n s i = exportDst ns n 0 s i ∧
    transposeSrc ns n s i = stateExportDst ns n s i := by
  simp [transposeDst, gsdIndex, exportSrc, stateExportSrc, transposeSrc, stateIndex, exportDst, stateExportDst]

/-- no two entries share a position, in either layout, and every position is inside the array -/
theorem layouts_injective {ns n s i s' i' : Nat} (hs : s < ns) (hi : i < n) (hs' : s' < ns) (hi' : i' < n) :
    (transposeDst ns n s i = transposeDst ns n s' i' → s = s' ∧ i = i') ∧
    (transposeSrc ns n s i = transposeSrc ns n s' i' → s = s' ∧ i = i') ∧
    0 ≤ transposeDst ns n s i ∧ transposeDst ns n s i < (n * ns : Nat) ∧
    0 ≤ transposeSrc ns n s i ∧ transposeSrc ns n s i < (n * ns : Nat) := by
  simp only [transposeDst, transposeSrc]
  refine ⟨fun h => ?_, fun h => ?_, by positivity, ?_, by positivity, ?_⟩
  · have h' : i * ns + s = i' * ns + s' := by exact_mod_cast h
    have h1 : (s + i * ns) % ns = (s' + i' * ns) % ns := by rw [Nat.add_comm, h', Nat.add_comm]
    rw [Nat.add_mul_mod_self_right, Nat.add_mul_mod_self_right, Nat.mod_eq_of_lt hs, Nat.mod_eq_of_lt hs'] at h1
    subst h1
    have : i * ns = i' * ns := by omega
    exact ⟨rfl, Nat.eq_of_mul_eq_mul_right (by omega) this⟩
  · have h' : s * n + i = s' * n + i' := by exact_mod_cast h
    have h1 : (i + s * n) % n = (i' + s' * n) % n := by rw [Nat.add_comm, h', Nat.add_comm]
    rw [Nat.add_mul_mod_self_right, Nat.add_mul_mod_self_right, Nat.mod_eq_of_lt hi, Nat.mod_eq_of_lt hi'] at h1
    subst h1
    have : s * n = s' * n := by omega
    exact ⟨Nat.eq_of_mul_eq_mul_right (by omega) this, rfl⟩
  · have : i * ns + s < n * ns := by
      calc i * ns + s < i * ns + ns := by omega
        _ = (i + 1) * ns := by ring
        _ ≤ n * ns := Nat.mul_le_mul_right _ hi
    exact_mod_cast this
  · have : s * n + i < n * ns := by
      calc s * n + i < s * n + n := by omega
        _ = (s + 1) * n := by ring
        _ ≤ ns * n := Nat.mul_le_mul_right _ hs
        _ = n * ns := Nat.mul_comm _ _
    exact_mod_cast this

/-! ## 'none' (and `auto` for the deterministic engine): the state is passed through unchanged -/

theorem none_is_identity (x : State) (n ns : Nat) (ds : List Draw) (option : String) :
    engineInitState "none" option x n ns ds = .ok (some (x, ds)) ∧
    engineInitState "auto" "euler" x n ns ds = .ok (some (x, ds)) ∧
    scriptInitState pyInitModeDefault "euler" x n ns ds = .ok (some (x, ds)) := by
  have h1 : ∀ b, selectInitMode "none" b = some .none := fun b => (explicit_modes b).2.2.1
  have h2 : selectInitMode "auto" (optionIsStochastic "euler") = some .none := auto_mode.2.2.1
  refine ⟨by simp [engineInitState, h1], by simp [engineInitState, h2], ?_⟩
  have hd : pyInitModeDefault = "auto" := by decide +kernel
  have hc : (pyInitModesGuarded && !pyInitModes.contains "auto") = false := by decide +kernel
  rw [hd]
  simp only [scriptInitState, hc]
  simp [engineInitState, h2]

/-! ## Redistribution (`redist`; `auto` for the stochastic engines) -/

/-- what the engine hands to `Init` in redistribution mode is `GenerateStochasticDistribution` of the state -/
theorem redist_mode_runs_redist (x : State) (n ns : Nat) (ds : List Draw) :
    engineInitState "redist" "euler" x n ns ds = .ok (redist x n ns ds) ∧
    engineInitState "auto" "gillespie" x n ns ds = .ok (redist x n ns ds) ∧
    engineInitState "auto" "tauleap" x n ns ds = .ok (redist x n ns ds) := by
  have h1 : ∀ b, selectInitMode "redist" b = some .redist := fun b => (explicit_modes b).1
  refine ⟨by simp [engineInitState, h1], ?_, ?_⟩
  · simp [engineInitState, auto_mode.1]
  · simp [engineInitState, auto_mode.2.1]

/-- every entry of the redistributed state is a non-negative integer -/
theorem redist_nonneg_int {x : State} {n ns : Nat} (hx : ∀ i s, 0 ≤ x i s) {ds ds' : List Draw} {out : State}
    (h : redist x n ns ds = some (out, ds')) (hu : ∀ u, Draw.unif u ∈ ds → 0 ≤ u) :
    ∀ i s, ∃ k : Nat, out i s = (k : Rat) :=
  (redist_spec x n ns hx h hu).1.1

/-- each species' system-wide total equals the floor of its real-valued total -/
theorem redist_total {x : State} {n ns : Nat} (hx : ∀ i s, 0 ≤ x i s) {ds ds' : List Draw} {out : State}
    (h : redist x n ns ds = some (out, ds')) (hu : ∀ u, Draw.unif u ∈ ds → 0 ≤ u) :
    ∀ s, s < ns → colSum out n s = ((⌊colSum x n s⌋ : Int) : Rat) :=
  (redist_spec x n ns hx h hu).2

/-- no molecule is placed in a cell whose real-valued amount is zero -/
theorem redist_support {x : State} {n ns : Nat} (hx : ∀ i s, 0 ≤ x i s) {ds ds' : List Draw} {out : State}
    (h : redist x n ns ds = some (out, ds')) (hu : ∀ u, Draw.unif u ∈ ds → 0 ≤ u) :
    ∀ i s, x i s = 0 → out i s = 0 :=
  (redist_spec x n ns hx h hu).1.2

/-- the primitive draws of step 2 are requested with the entry's own real-valued amount as mean
(Poisson below the switch, normal from it on), in cell-major order; entries with amount 0 draw nothing -/
theorem redist_means (x : State) (n ns : Nat) :
    redistMeans x n ns = (cellMajor n ns).filterMap (fun p =>
      if x p.1 p.2 < 100 then (if x p.1 p.2 > 0 then some (x p.1 p.2, false) else none) else some (x p.1 p.2, true)) := by
  have : poissonNormalSwitch = 100 := by decide +kernel
  simp only [redistMeans, this]

/-
FULL STATEMENT (termination): "the processing always terminates" — for the `for(;;)` of the correction loop
this is termination with probability 1 over the uniform draws.  PROVED: `redist_progress_partial` (from every loop
state there is an interval of uniform draws of positive length on which the pass makes progress) and, from it,
`redist_terminates_on_fair_stream` below (the loop halts on every stream that hits every sub-interval of [0,1)
infinitely often).  TRUSTED, not formalised: that an i.i.d. uniform stream is such a stream almost surely
(product measure on the draw stream + second Borel–Cantelli lemma).  A finite draw stream that ends too early
makes the model answer "needs more fuel" (`none`), never a wrong state.
-/
theorem redist_progress_partial (x : State) (n s : Nat) (rm : Bool) (hx : ∀ i, 0 ≤ x i s)
    (hT : 0 < colSum x n s) (sto : State)
    (hrm : rm = true → ∃ i, i < n ∧ 0 < sto i s ∧ 0 < x i s) :
    ∃ lo hi : Rat, 0 ≤ lo ∧ lo < hi ∧ hi ≤ 1 ∧ ∀ u, lo ≤ u → u < hi → ∀ (ds : List Draw) (k : Nat),
      ∃ sto', correctSpecies x n s (colSum x n s) rm (Draw.unif u :: ds) (k + 1) sto =
        correctSpecies x n s (colSum x n s) rm ds k sto' :=
  correctSpecies_progress x n s rm hx hT sto hrm

/-- `redist_terminates_on_fair_stream` — the deterministic replacement of "terminates with probability 1".
`Fair σ`: every non-empty sub-interval of `[0,1)` is hit by the stream of uniform draws at arbitrarily late times
(an explicit hypothesis on the stream; it contains in particular the progress interval of `redist_progress_partial`
of every loop state that can occur).  Then, whatever the Poisson / normal draws of step 2 were, the whole
`GenerateStochasticDistribution` returns after finitely many uniform draws.
TRUSTED (measure theory, not formalised): an i.i.d. uniform stream is fair almost surely (second Borel–Cantelli). -/
theorem redist_terminates_on_fair_stream (x : State) (n ns : Nat) (hx : ∀ i s, 0 ≤ x i s) (σ : Nat → Rat)
    (hfair : Fair σ) (hσ : ∀ t, 0 ≤ σ t) {ds0 : List Draw} {sto : State}
    (h2 : redistDraw x (cellMajor n ns) ds0 State.zero = some (sto, [])) :
    ∃ N out, redist x n ns (ds0 ++ streamSeg σ 0 N) = some (out, []) :=
  redist_halts_fair x n ns hx σ hfair hσ h2

/-- the fairness hypothesis is satisfiable: an explicit stream of draws in `[0,1)` that is fair -/
theorem fair_streams_exist : ∃ σ : Nat → Rat, Fair σ ∧ ∀ t, 0 ≤ σ t ∧ σ t < 1 :=
  ⟨fairExample, fairExample_fair⟩

/-- the `for(;;)` of one species halts on a fair stream from every loop state that satisfies the loop invariant
(non-negative integers, support, enough molecules left to remove), at every time -/
theorem correction_loop_terminates_on_fair_stream (x : State) (n s : Nat) (rm : Bool) (hx : ∀ i, 0 ≤ x i s)
    (hT : 0 < colSum x n s) (σ : Nat → Rat) (hfair : Fair σ) (hσ : ∀ t, 0 ≤ σ t)
    (k : Nat) (sto : State) (t0 : Nat) (hinv : LoopInv x n s rm k sto) :
    ∃ N out, correctSpecies x n s (colSum x n s) rm (streamSeg σ t0 N) k sto = some (out, []) :=
  correctSpecies_halts_fair x n s rm hx hT σ hfair hσ k sto t0 hinv

/-- a species whose processed total already equals the floor of its real total draws nothing in step 5; in
particular a species that is absent (total 0) never enters the `for(;;)` -/
theorem redist_no_correction_when_equal (x sto : State) (n : Nat) (s : Nat) (rest : List Nat) (ds : List Draw)
    (h : redistDelta x sto n s = 0) :
    redistCorrect x n (s :: rest) ds sto = redistCorrect x n rest ds sto := by
  simp [redistCorrect, h]

/-! ## Poisson mode -/

/-- In Poisson mode the entries with a positive amount, in species-major order, are exactly the Poisson draws
in the order drawn — the k-th draw is requested with the k-th positive amount as its mean
(`poissonModeMeans`) and is stored at that same entry (species-major in = species-major out); every other
entry is 0 ("zero stays zero"); nothing but Poisson draws is consumed; all entries are non-negative integers. -/
theorem poisson_mode_layout {x : State} {n ns : Nat} {ds ds' : List Draw} {out : State}
    (h : engineInitState "Poisson" "gillespie" x n ns ds = .ok (some (out, ds'))) :
    ∃ ks : List Nat, ds = ks.map Draw.pois ++ ds' ∧
      (positivePositions x (speciesMajor n ns)).map (fun p => out p.1 p.2) = ks.map (fun k => (k : Rat)) ∧
      (positivePositions x (speciesMajor n ns)).map (fun p => x p.1 p.2) = poissonModeMeans x n ns ∧
      (∀ i s, i < n → s < ns → x i s ≤ 0 → out i s = 0) := by
  have hsel : selectInitMode "Poisson" (optionIsStochastic "gillespie") = some .poisson := by decide +kernel
  simp only [engineInitState, hsel] at h
  have h' : poissonMode x (speciesMajor n ns) ds State.zero = some (out, ds') := by
    injection h
  obtain ⟨ks, h1, h2, h3⟩ := poissonMode_layout x _ ds State.zero out ds' (speciesMajor_nodup n ns) h'
  refine ⟨ks, h1, h2, ?_, fun i s hi hs hx => h3 (i, s) (mem_speciesMajor.2 ⟨hi, hs⟩) hx⟩
  simp only [positivePositions, poissonModeMeans]
  induction speciesMajor n ns with
  | nil => rfl
  | cons p rest ih =>
    by_cases hp : x p.1 p.2 > 0
    · simp [hp, ih]
    · simp [hp, ih]

/-- Poisson mode does not depend on the engine kind -/
theorem poisson_mode_any_engine (x : State) (n ns : Nat) (ds : List Draw) (o : String) :
    engineInitState "Poisson" o x n ns ds = .ok (poissonMode x (speciesMajor n ns) ds State.zero) := by
  have : selectInitMode "Poisson" (optionIsStochastic o) = some .poisson := (explicit_modes _).2.1
  simp [engineInitState, this]

/-! ## Non-vacuity: concrete runs of the model -/

/-- two cells, one species, amounts 1/4 and 1/2 (total 3/4 < 1): the Poisson draws put one molecule in cell 1;
the first uniform (0.1 → cell 0, empty) changes nothing, the second (0.9 → cell 1) removes it -/
example :
    (redist ⟨fun i _ => if i = 0 then 1/4 else 1/2⟩ 2 1 [.pois 0, .pois 1, .unif (1/10), .unif (9/10)]).map
      (fun r => ((List.range 2).map fun i => r.1 i 0, r.2)) = some ([0, 0], []) := by decide +kernel

/-- the same state when the draw stream ends too early: "needs more fuel", not a state -/
example :
    (redist ⟨fun i _ => if i = 0 then 1/4 else 1/2⟩ 2 1 [.pois 0, .pois 1, .unif (1/10)]).isNone = true := by
  decide +kernel

/-- normal branch: amount 150 → floor of the normal draw; total 150 is then restored by one addition -/
example :
    (redist ⟨fun _ _ => 150⟩ 1 1 [.norm (2987/20), .unif (1/2)]).map (fun r => (r.1 0 0, r.2)) = some (150, []) := by
  decide +kernel

end Strengths.C14
