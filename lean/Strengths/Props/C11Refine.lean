/-
C11 (refinement part) — the flat-vector program of `engine_never_faults` computes what the core model computes.

`Props/C11.lean` proves that the checked-access interpreter of the engine (`Model/Checked*.lean`: `Init`, the six
algorithms, sampler, exports — the same loops, flat vectors and generated index formulas as the C++) never faults.
The theorems of C01 / C02 / C03 / C07 are about the core model of `Model/Engine.lean` (functions on `State`, `Topo`,
`Net`).  This file links the two:

  abstraction.  `absState ns x` reads `mesh_x` through `i*n_species+s`; `Refines e T L` says that the tables `T`
  (`sub`, `sto`, `mesh_kr`, `mesh_chstt`) and the layout `L` (slot counts, neighbours, `kout` / `kin` reads through the
  generated `mesh_kd` / `mesh_kd_out` / `mesh_kd_in` index formulas) of a checked object hold the core input `e`.

  set-up.  The object that `engineexport_initialize_{grid,graph}` + `Init` build from valid arrays refines the core input
  decoded from the same arrays (`gridEngIn`: `gridTopo` of the generated neighbour tables, `meshKr`, `gridKd`;
  `graphEngIn`: `graphTopo` of the edge list) — `grid_setup_refines`, `graph_setup_refines`.

  per function.  `ReactionRate` = `reactionRate`, `ReactionProp` = `reactionProp`, `DiffusionProp` = `diffusionProp`,
  `DiffusionRateDifference` = `diffusionRateDifference`, `Compute_dxdt` = `eulerDxdt`, `Apply_dxdt` = `+ dxdt·dt`,
  `Compute_nevt` = `poissonCounts (tauLeapMeans …)` + `countsOfDraws`, `Apply_nevt` = `tauLeapApply`,
  `ComputePropensities` = `reactionProp` / `diffPropSlot` / `a0r` / `a0d` / `a0`, `ApplyReaction` / `ApplyDiffusion` =
  `applyEvent`, `DrawAndApplyEvent` = `selectEvent` + `applyEvent`.

  per step (both layouts: the theorems are over any `T`, `L` with `Refines e T L`, which both set-ups establish).
  One `Iterate()` from a valid object returns ok, the object stays valid and still refines `e`, and the new `mesh_x` is
  `eulerStep` / `tauLeapApply ∘ countsOfDraws ∘ poissonCounts` / `gillespieStep` of the abstraction of the old one —
  `euler_step_refines`, `tauleap_step_refines`, `gillespie_step_refines`.

  transfer.  Section 4 shows the use: the conservation theorems of C02, stated on the core model, hold for the flat
  `mesh_x` vector before and after `Iterate()`.

NOT covered: the sampler's recorded trajectory is not related to a core-model trajectory here (C08/C09 own the sampler);
the draws are the oracle streams `o.unif`, `o.logInv`, `o.pois` (no statement about the generator); the initial-state
processing is the opaque size-preserving `a.process` (C14); rationals for doubles as everywhere in the core model.
-/
import Strengths.Proofs.RefineTau
import Strengths.Proofs.EulerConserve
import Strengths.Proofs.Conserve

namespace Strengths.C11
open Strengths

/-! ## 1. set-up: the object refines the core input decoded from the same arrays -/

/-- grid: `engineexport_initialize_grid` + `Init` (`Build_mesh_neighbors`, `Build_mesh_kr`, `Build_mesh_kd`) -/
theorem grid_setup_refines (a : EngArgs) (g : GridShape) (vol h : Rat) (hv : ValidGridArgs a g) :
    Ok (setupGridC a g vol h) (fun S => SimOK S ∧ Refines (gridEngIn a g vol h) S.T S.L ∧ S.dt = a.dt ∧
      ∃ st0 : Vec Rat, (∀ j, j < g.size * a.ns → st0.get j = a.state.get j) ∧
        ∀ i s, i < g.size → s < a.ns → (absState S.T.ns S.x) i s = (a.process st0).get (s * g.size + i)) :=
  setupGridC_refines a g vol h hv

/-- graph: `engineexport_initialize_graph` + `Init` (`SetNeighbors`, `Build_mesh_kr`, `Build_mesh_kd`) -/
theorem graph_setup_refines (a : EngArgs) (ga : GraphArgs) (hv : ValidGraphArgs a ga) :
    Ok (setupGraphC a ga) (fun S => SimOK S ∧ Refines (graphEngIn a ga) S.T S.L ∧ S.dt = a.dt ∧
      ∃ st0 : Vec Rat, (∀ j, j < ga.n * a.ns → st0.get j = a.state.get j) ∧
        ∀ i s, i < ga.n → s < a.ns → (absState S.T.ns S.x) i s = (a.process st0).get (s * ga.n + i)) :=
  setupGraphC_refines a ga hv

/-- the core inputs are the core model's own topologies and rate tables -/
theorem setup_core_inputs (a : EngArgs) (g : GridShape) (vol h : Rat) (ga : GraphArgs) :
    (gridEngIn a g vol h).topo = gridTopo g (argNet a) (argEnv a) h ∧
    (graphEngIn a ga).topo = graphTopo ga.n (argEdges ga ga.nEdges) (argNet a) (argEnv a) (fun i => ga.vol.get i)
      (fun i => ga.cbrt (ga.vol.get i)) :=
  ⟨rfl, rfl⟩

/-- what `Refines` says of the built tables: `Build_mesh_kr` ↔ `meshKr`, `Build_mesh_kd` ↔ `topo.kout` / `topo.kin`
(`gridKd` on a grid, the half-edge formula of `graphTopo` on a graph), read through the layout's index formulas -/
theorem built_tables {e : EngIn} {T : Tabs} {L : Layout} (hR : Refines e T L) :
    (∀ i r, i < T.n → r < T.nr → T.kr.get (i * T.nr + r) = meshKr e i r) ∧
    (∀ i s k, i < T.n → s < T.ns → k < e.topo.nSlots i → L.kout i s k = .ok (e.topo.kout i s k)) ∧
    (∀ i s k j, i < T.n → s < T.ns → k < e.topo.nSlots i → e.topo.nbr i k = some j →
      L.kin i s k = .ok ((j : Int), e.topo.kin i s k)) :=
  ⟨hR.kr, hR.kout, hR.kin⟩

/-! ## 2. per function -/

section funcs
variable {e : EngIn} {T : Tabs} {L : Layout}

theorem reaction_rate_refines (hR : Refines e T L) (x : Vec Rat) (hx : x.size = T.n * T.ns) {i r : Nat} (hi : i < T.n) (hr : r < T.nr) :
    Ok (T.reactionRate x i r) (fun v => v = reactionRate e (absState T.ns x) i r) :=
  reactionRate_val hR x hx hi hr

theorem reaction_prop_refines (hR : Refines e T L) (x : Vec Rat) (hx : x.size = T.n * T.ns) {i r : Nat} (hi : i < T.n) (hr : r < T.nr) :
    Ok (T.reactionProp x i r) (fun v => v = reactionProp e (absState T.ns x) i r) :=
  reactionProp_val hR x hx hi hr

theorem diffusion_prop_refines (hR : Refines e T L) (x : Vec Rat) (hx : x.size = T.n * T.ns)
    {i s k : Nat} (hi : i < T.n) (hs : s < T.ns) (hk : k < e.topo.nSlots i) :
    Ok (diffusionPropC T L x i s k) (fun v => v = diffusionProp e (absState T.ns x) i s k) :=
  diffusionPropC_val hR x hx hi hs hk

/-- `Compute_dxdt` ↔ `eulerDxdt` -/
theorem compute_dxdt_refines (hR : Refines e T L) (x dxdt : Vec Rat) (hx : x.size = T.n * T.ns) (hd : dxdt.size = T.n * T.ns) :
    Ok (computeDxdt T L x dxdt) (fun d => d.size = T.n * T.ns ∧
      ∀ i s, i < T.n → s < T.ns → d.get (i * T.ns + s) = eulerDxdt e (absState T.ns x) i s) :=
  computeDxdt_val hR x dxdt hx hd

/-- `Compute_nevt` ↔ `poissonCounts (tauLeapMeans …)` + `countsOfDraws` -/
theorem compute_nevt_refines (hR : Refines e T L) (o : Oracles) (dt : Rat) (x : Vec Rat) (hx : x.size = T.n * T.ns)
    (st : TauSt) (h1 : st.mnr.size = T.n * T.nr) (h2 : SlotOK T L e.topo.nSlots st.mnd) :
    Ok (computeNevt T L o dt x st) (fun st' => st'.mnr.size = T.n * T.nr ∧ SlotOK T L e.topo.nSlots st'.mnd ∧
      ∃ k cs c, st'.cnt = st.cnt + k ∧
        poissonCounts (tauLeapMeans e dt (absState T.ns x)) (drawsFrom o st.cnt k) = some cs ∧
        countsOfDraws e cs = some c ∧ CountsOK e T L c st') :=
  computeNevt_val hR o dt x hx st h1 h2

/-- `Apply_nevt` ↔ `tauLeapApply` -/
theorem apply_nevt_refines (hR : Refines e T L) {c : Counts} {st : TauSt} (hC : CountsOK e T L c st)
    (x : Vec Rat) (hx : x.size = T.n * T.ns) :
    Ok (applyNevt T L st x) (fun x' => x'.size = T.n * T.ns ∧ Agree T x' (tauLeapApply e c (absState T.ns x))) :=
  applyNevt_val hR hC x hx

/-- `ComputePropensities` ↔ `reactionProp` / `diffPropSlot` / `a0r` / `a0d` / `a0` -/
theorem compute_propensities_refines (hR : Refines e T L) (x : Vec Rat) (hx : x.size = T.n * T.ns) (g : GilSt)
    (hg : GilOK T L e.topo.nSlots g) :
    Ok (computePropensities T L x g) (fun g' => PropsOK e T L (absState T.ns x) g') :=
  computePropensities_val hR x hx g hg

/-- `DrawAndApplyEvent` ↔ `selectEvent` + `applyEvent` -/
theorem draw_and_apply_event_refines (hR : Refines e T L) (x : Vec Rat) (hx : x.size = T.n * T.ns) (g : GilSt)
    (hP : PropsOK e T L (absState T.ns x) g) (r : Rat) :
    Ok (drawAndApplyEvent T L g r x) (fun x' => x'.size = T.n * T.ns ∧
      Agree T x' (evRes e (absState T.ns x) (selectEvent e (absState T.ns x) r (List.range e.topo.nCells) 0))) :=
  drawAndApplyEvent_val hR x hx g hP r

end funcs

/-! ## 3. per step (`Iterate()`), both layouts -/

/-- EULER: `Euler3D::Iterate` / `EulerGraph::Iterate` ↔ `eulerStep` -/
theorem euler_step_refines (o : Oracles) (S : CSim) (h : SimOK S) (e : EngIn) (hR : Refines e S.T S.L)
    (d : Vec Rat) (hsc : S.scratch = .euler d) (hnc : S.smp.complete = false) :
    Ok (S.iterate o) (fun r => SimOK r.1 ∧ Refines e r.1.T r.1.L ∧ r.1.dt = S.dt ∧
      ∀ i s, i < S.T.n → s < S.T.ns →
        (absState r.1.T.ns r.1.x) i s = (eulerStep e S.dt (absState S.T.ns S.x)) i s) :=
  euler_iterate_refines o S h e hR d hsc hnc

/-- TAU-LEAP: `TauLeap3D::Iterate` / `TauLeapGraph::Iterate` ↔ `tauLeapApply` on the counts
`countsOfDraws (poissonCounts (tauLeapMeans …) draws)`, `draws` = the next `k` values of the Poisson stream -/
theorem tauleap_step_refines (o : Oracles) (S : CSim) (h : SimOK S) (e : EngIn) (hR : Refines e S.T S.L)
    (st : TauSt) (hsc : S.scratch = .tau st) (hnc : S.smp.complete = false) :
    Ok (S.iterate o) (fun r => SimOK r.1 ∧ Refines e r.1.T r.1.L ∧ r.1.dt = S.dt ∧
      ∃ k cs c st', r.1.scratch = .tau st' ∧ st'.cnt = st.cnt + k ∧
        poissonCounts (tauLeapMeans e S.dt (absState S.T.ns S.x)) (drawsFrom o st.cnt k) = some cs ∧
        countsOfDraws e cs = some c ∧
        Agree r.1.T r.1.x (tauLeapApply e c (absState S.T.ns S.x))) :=
  tauleap_iterate_refines o S h e hR st hsc hnc

/-- GILLESPIE: `Gillespie3D::Iterate` / `GillespieGraph::Iterate` ↔ `gillespieStep` with `u1 = o.unif ucnt`,
`L = o.logInv (ucnt+1)` -/
theorem gillespie_step_refines (o : Oracles) (S : CSim) (h : SimOK S) (e : EngIn) (hR : Refines e S.T S.L)
    (g : GilSt) (hsc : S.scratch = .gil g) (hnc : S.smp.complete = false) :
    Ok (S.iterate o) (fun r => SimOK r.1 ∧ Refines e r.1.T r.1.L ∧
      (a0 e (absState S.T.ns S.x) = 0 →
        gillespieStep e (absState S.T.ns S.x) (o.unif S.ucnt) (o.logInv (S.ucnt + 1)) = none ∧
        r.2 = false ∧ r.1.x = S.x ∧ r.1.smp.complete = true) ∧
      (a0 e (absState S.T.ns S.x) ≠ 0 →
        ∃ gs, gillespieStep e (absState S.T.ns S.x) (o.unif S.ucnt) (o.logInv (S.ucnt + 1)) = some gs ∧
          r.1.dt = gs.dt ∧ Agree r.1.T r.1.x gs.x ∧ r.1.ucnt = S.ucnt + 2)) :=
  gillespie_iterate_refines o S h e hR g hsc hnc

/-! ## 4. transfer: theorems about the core model hold for the flat vectors -/

/-- the total only reads the entries of the space -/
theorem total_congr {e : EngIn} (c : Nat → Rat) {X Y : State}
    (h : ∀ i s, i < e.topo.nCells → s < e.net.nSpecies → X i s = Y i s) : total e c X = total e c Y := by
  unfold total
  refine Finset.sum_congr rfl (fun i hi => Finset.sum_congr rfl (fun s hs => ?_))
  rw [h i s (Finset.mem_range.mp hi) (Finset.mem_range.mp hs)]

/-- the counts `countsOfDraws` builds are 0 on slots without a neighbour (no key is listed for them) -/
theorem countsOfDraws_wallZero {e : EngIn} {cs : List Int} {c : Counts} (h : countsOfDraws e cs = some c) : WallZero e c := by
  by_cases hlen : (tauKeys e).length = cs.length
  · rw [countsOfDraws_keys e cs hlen] at h
    cases h
    intro i s n hnb
    exact tlookup_not_mem _ _ _ (not_mem_tauKeys_wall e i s n hnb)
  · exfalso
    have : countsOfDraws e cs = none := by
      show (if ((tauKeys e).length != cs.length) = true then none else some _) = none
      rw [if_pos (by simpa using hlen)]
    rw [this] at h; cases h

/-- C02 `euler_conserves` on the flat `mesh_x` (any space with a half-edge pairing: every grid and every graph, C02) -/
theorem euler_iterate_conserves (o : Oracles) (S : CSim) (h : SimOK S) (e : EngIn) (hR : Refines e S.T S.L)
    (d : Vec Rat) (hsc : S.scratch = .euler d) (hnc : S.smp.complete = false)
    {c : Nat → Rat} (hc : Cons e.net c) (hf : Free e c) (P : Pairing e) :
    Ok (S.iterate o) (fun r => total e c (absState r.1.T.ns r.1.x) = total e c (absState S.T.ns S.x)) := by
  refine Ok.mono (euler_iterate_refines o S h e hR d hsc hnc) (fun r hr => ?_)
  rw [← euler_conserves hc hf P S.dt (absState S.T.ns S.x)]
  exact total_congr c (fun i s hi hs => hr.2.2.2 i s (by rw [hR.n]; exact hi) (by rw [hR.ns]; exact hs))

/-- C02 `tauleap_conserves` on the flat `mesh_x`, for the counts the engine draws -/
theorem tauleap_iterate_conserves (o : Oracles) (S : CSim) (h : SimOK S) (e : EngIn) (hR : Refines e S.T S.L)
    (st : TauSt) (hsc : S.scratch = .tau st) (hnc : S.smp.complete = false)
    {c : Nat → Rat} (hc : Cons e.net c) (hf : Free e c) (htopo : TopoOK e) :
    Ok (S.iterate o) (fun r => total e c (absState r.1.T.ns r.1.x) = total e c (absState S.T.ns S.x)) := by
  refine Ok.mono (tauleap_iterate_refines o S h e hR st hsc hnc) (fun r hr => ?_)
  obtain ⟨_, hR', _, k, cs, cn, st', _, _, _, hcd, hA⟩ := hr
  rw [← tauleap_conserves hc hf htopo cn (countsOfDraws_wallZero hcd) (absState S.T.ns S.x)]
  exact total_congr c (fun i s hi hs => hA i s (by rw [hR'.n]; exact hi) (by rw [hR'.ns]; exact hs))

/-- C02 `gillespie_conserves` on the flat `mesh_x` (the step that fires an event; with total propensity 0 the state
is unchanged) -/
theorem gillespie_iterate_conserves (o : Oracles) (S : CSim) (h : SimOK S) (e : EngIn) (hR : Refines e S.T S.L)
    (g : GilSt) (hsc : S.scratch = .gil g) (hnc : S.smp.complete = false)
    {c : Nat → Rat} (hv : EngValid e) (hc : Cons e.net c) (hf : Free e c)
    (hx : ∀ i s, 0 ≤ (absState S.T.ns S.x) i s) (hu0 : 0 ≤ o.unif S.ucnt) (hu1 : o.unif S.ucnt < 1) :
    Ok (S.iterate o) (fun r => total e c (absState r.1.T.ns r.1.x) = total e c (absState S.T.ns S.x)) := by
  refine Ok.mono (gillespie_iterate_refines o S h e hR g hsc hnc) (fun r hr => ?_)
  obtain ⟨_, hR', h0, h1⟩ := hr
  by_cases ha : a0 e (absState S.T.ns S.x) = 0
  · obtain ⟨_, _, hxe, _⟩ := h0 ha
    rw [hxe, hR'.ns, hR.ns]
  · obtain ⟨gs, hgs, _, hA, _⟩ := h1 ha
    rw [← gillespie_conserves hv hc hf hx hu0 hu1 hgs]
    exact total_congr c (fun i s hi hs => hA i s (by rw [hR'.n]; exact hi) (by rw [hR'.ns]; exact hs))

end Strengths.C11
