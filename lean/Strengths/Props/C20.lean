/-
C20 — Invalid input is rejected, never silently accepted.

Spec predicates (`Invalid…`, `doc…` tables) are written here from the documentation
(documentation/json_and_dict_doc.rst, indexing.rst, the docstrings); the model of the code's checks is
`Strengths.Model.Validation` over tables regenerated from the sources (`Gen.Validation`, `Gen.IndexPy`,
`Gen.Network`, `Gen.Units`, `Gen.EngineCpp`).  One section per class of invalid input of the statement.
-/
import Strengths.Proofs.Validation
import Strengths.Proofs.Coarsegrain

namespace Strengths.C20
open Strengths Strengths.Gen

/-! ## 1. Dictionary keys: unknown, doubly aliased, missing -/

/-- Spec: a key that belongs to no synonym list -/
def UnknownKey (syn : List (List String)) (keys : List String) : Prop := ∃ k ∈ keys, ∀ s ∈ syn, k ∉ s
/-- Spec: two different keys of the dictionary are synonyms of each other -/
def DoublyAliased (syn : List (List String)) (keys : List String) : Prop :=
  ∃ s ∈ syn, ∃ a ∈ keys, ∃ b ∈ keys, a ≠ b ∧ a ∈ s ∧ b ∈ s

/-- `process_input_dict_keys` raises exactly on an unknown key or when ≥ 2 present keys share a synonym list -/
theorem keys_reject_iff (syn : List (List String)) (keys : List String) :
    (processKeys syn keys).isError = true ↔
      UnknownKey syn keys ∨ ∃ s ∈ syn, 2 ≤ (keys.filter fun k => s.contains k).length := by
  unfold processKeys UnknownKey
  rw [← unknownKey_iff, ← doublyAliased_iff]
  by_cases h1 : unknownKey syn keys = true
  · simp [h1, Res.isError]
  · by_cases h2 : doublyAliased syn keys = true
    · simp [h1, h2, Res.isError]
    · simp [h1, h2, Res.isError]

/-- unknown keys are rejected -/
theorem unknown_key_rejected {syn : List (List String)} {keys : List String} (h : UnknownKey syn keys) :
    (processKeys syn keys).isError = true := (keys_reject_iff syn keys).2 (Or.inl h)

/-- doubly aliased keys are rejected -/
theorem double_alias_rejected {syn : List (List String)} {keys : List String} (h : DoublyAliased syn keys) :
    (processKeys syn keys).isError = true := by
  obtain ⟨s, hs, a, ha, b, hb, hab, has, hbs⟩ := h
  refine (keys_reject_iff syn keys).2 (Or.inr ⟨s, hs, ?_⟩)
  exact two_le_filter_of_two _ keys a b ha hb hab (List.contains_iff_mem.mpr has) (List.contains_iff_mem.mpr hbs)

/-- the alias lists of the documentation (json_and_dict_doc.rst; graph spaces: the docstrings) -/
def docAliases : List (String × List (List String)) := [
  ("unitssystem_from_dict", [["space"], ["time"], ["quantity"]]),
  ("unitsdimensions_from_dict", [["space"], ["time"], ["quantity"]]),
  ("unitarray_from_dict", [["value"], ["units"]]),
  ("species_from_dict", [["label", "l"], ["D", "diff_coef", "diffusion_coefficient", "diff coef", "diffusion coefficient"],
    ["density", "concentration", "dens", "conc", "C"], ["chstt", "chemostat"], ["units", "units_system", "units system", "u"]]),
  ("reaction_from_dict", [["stoichiometry", "eq", "sto", "equation"], ["label", "l"], ["k+", "kf"], ["k-", "kr"],
    ["units", "units_system", "units system", "u"]]),
  ("rdnetwork_from_dict", [["species"], ["reactions"], ["environments", "env"], ["units", "units_system", "units system", "u"]]),
  ("rdgridspace_from_dict", [["type"], ["w", "width"], ["h", "height"], ["d", "depth"],
    ["cell_env", "cell_environments", "cell environments", "environments", "env"], ["cell_volume", "cell_vol"],
    ["boundary_conditions"], ["units", "units_system", "units system", "u"]]),
  ("rdgraphspacenode_from_dict", [["volume", "vol"], ["environment", "env"], ["units", "units_system", "units system", "u"]]),
  ("rdgraphspaceedge_from_dict", [["nodes"], ["surface"], ["distance"], ["units", "units_system", "units system", "u"]]),
  ("rdgraphspace_from_dict", [["type"], ["nodes"], ["edges"], ["units", "units_system", "units system", "u"]]),
  ("rdsystem_from_dict", [["network", "rdnetwork"], ["space", "rdspace"], ["state"], ["chemostats"],
    ["units", "units_system", "units system", "u"]]),
  ("rdscript_from_dict", [["system"], ["t_sample"], ["time_step", "time step", "dt"], ["t_max", "tmax"],
    ["sampling_policy", "sampling policy"], ["sampling_interval", "sampling interval"], ["rng_seed", "rng seed", "seed"],
    ["init_state_processing", "init state processing"], ["units", "units_system", "units system", "u"]])]

/-- keys without which the documentation gives no default -/
def docMandatory : List (String × List String) := [
  ("unitssystem_from_dict", []), ("unitsdimensions_from_dict", ["space", "time", "quantity"]),
  ("unitarray_from_dict", ["value", "units"]), ("species_from_dict", ["label"]), ("reaction_from_dict", ["stoichiometry"]),
  ("rdnetwork_from_dict", ["species"]), ("rdgridspace_from_dict", []), ("rdgraphspacenode_from_dict", []),
  ("rdgraphspaceedge_from_dict", ["nodes"]), ("rdgraphspace_from_dict", ["nodes", "edges"]),
  ("rdsystem_from_dict", ["network"]), ("rdscript_from_dict", ["system", "t_sample"])]

/-- every `process_input_dict_keys` call of the sources carries exactly the documented alias lists, raises by
default, and every `*_from_dict` needs exactly the documented mandatory keys -/
theorem key_tables_are_documented :
    aliasTable = docAliases ∧ mandatoryKeys = docMandatory ∧ keysDefaultPolicy = "error" ∧
    keysRaiseSites = [("notv4", "v2==\"error\""), ("len(v6)>1", "v2==\"error\"")] ∧
    unitsKeywords = ["default", "inherit"] := by
  decide +kernel

/-- no alias belongs to two synonym lists of the same function (else every use of it would be "doubly aliased") -/
theorem alias_lists_disjoint : ∀ t ∈ aliasTable, (t.2.flatten).Nodup := by decide +kernel

/-- a `*_from_dict` function raises iff a key is unknown, two keys are synonyms, or a mandatory key is absent
(under any of its spellings) -/
theorem from_dict_rejects_iff (fn : String) (syn : List (List String)) (mand keys : List String)
    (h1 : aliasTable.lookup fn = some syn) (h2 : mandatoryKeys.lookup fn = some mand) :
    (fromDictKeys fn keys).isError = true ↔
      UnknownKey syn keys ∨ (∃ s ∈ syn, 2 ≤ (keys.filter fun k => s.contains k).length) ∨
      ∃ m ∈ mand, m ∉ canonicalKeys syn keys := by
  unfold fromDictKeys
  rw [h1, h2]
  have hk := keys_reject_iff syn keys
  simp only []
  generalize hp : processKeys syn keys = pk at hk ⊢
  cases pk with
  | error e =>
    simp only [Res.isError, true_iff] at hk ⊢
    rcases hk with h | h
    · exact Or.inl h
    · exact Or.inr (Or.inl h)
  | ok canon =>
    have hno : ¬(UnknownKey syn keys ∨ ∃ s ∈ syn, 2 ≤ (keys.filter fun k => s.contains k).length) := by
      intro h; have := hk.2 h; simp [Res.isError] at this
    have hc : canon = canonicalKeys syn keys := by
      unfold processKeys at hp
      split at hp
      · cases hp
      · split at hp
        · cases hp
        · cases hp; rfl
    subst hc
    by_cases hall : mand.all (canonicalKeys syn keys).contains = true
    · simp only [hall, ↓reduceIte, Res.isError, Bool.false_eq_true, false_iff]
      rintro (h | h | ⟨m, hm, hmc⟩)
      · exact hno (Or.inl h)
      · exact hno (Or.inr h)
      · rw [List.all_eq_true] at hall
        exact hmc (List.contains_iff_mem.mp (hall m hm))
    · simp only [hall, Bool.false_eq_true, ↓reduceIte, Res.isError, true_iff]
      right; right
      rw [List.all_eq_true] at hall
      simp only [not_forall] at hall
      obtain ⟨m, hm, hmc⟩ := hall
      exact ⟨m, hm, fun h => hmc (List.contains_iff_mem.mpr h)⟩

/-- the conclusion of `from_dict_rejects_iff` for given alias lists and mandatory keys -/
def KeysRejected (syn : List (List String)) (mand keys : List String) : Prop :=
  UnknownKey syn keys ∨ (∃ s ∈ syn, 2 ≤ (keys.filter fun k => s.contains k).length) ∨ ∃ m ∈ mand, m ∉ canonicalKeys syn keys

/-- `unitssystem_from_dict` raises iff a key is unknown, two keys are synonyms, or a mandatory key is absent -/
theorem unitssystem_from_dict_rejects_iff (keys : List String) :
    (fromDictKeys "unitssystem_from_dict" keys).isError = true ↔
      KeysRejected [["space"], ["time"], ["quantity"]]
        [] keys :=
  from_dict_rejects_iff _ _ _ keys (by decide +kernel) (by decide +kernel)

/-- `unitsdimensions_from_dict` raises iff a key is unknown, two keys are synonyms, or a mandatory key is absent -/
theorem unitsdimensions_from_dict_rejects_iff (keys : List String) :
    (fromDictKeys "unitsdimensions_from_dict" keys).isError = true ↔
      KeysRejected [["space"], ["time"], ["quantity"]]
        ["space", "time", "quantity"] keys :=
  from_dict_rejects_iff _ _ _ keys (by decide +kernel) (by decide +kernel)

/-- `unitarray_from_dict` raises iff a key is unknown, two keys are synonyms, or a mandatory key is absent -/
theorem unitarray_from_dict_rejects_iff (keys : List String) :
    (fromDictKeys "unitarray_from_dict" keys).isError = true ↔
      KeysRejected [["value"], ["units"]]
        ["value", "units"] keys :=
  from_dict_rejects_iff _ _ _ keys (by decide +kernel) (by decide +kernel)

/-- `species_from_dict` raises iff a key is unknown, two keys are synonyms, or a mandatory key is absent -/
theorem species_from_dict_rejects_iff (keys : List String) :
    (fromDictKeys "species_from_dict" keys).isError = true ↔
      KeysRejected [["label", "l"], ["D", "diff_coef", "diffusion_coefficient", "diff coef", "diffusion coefficient"], ["density", "concentration", "dens", "conc", "C"], ["chstt", "chemostat"], ["units", "units_system", "units system", "u"]]
        ["label"] keys :=
  from_dict_rejects_iff _ _ _ keys (by decide +kernel) (by decide +kernel)

/-- `reaction_from_dict` raises iff a key is unknown, two keys are synonyms, or a mandatory key is absent -/
theorem reaction_from_dict_rejects_iff (keys : List String) :
    (fromDictKeys "reaction_from_dict" keys).isError = true ↔
      KeysRejected [["stoichiometry", "eq", "sto", "equation"], ["label", "l"], ["k+", "kf"], ["k-", "kr"], ["units", "units_system", "units system", "u"]]
        ["stoichiometry"] keys :=
  from_dict_rejects_iff _ _ _ keys (by decide +kernel) (by decide +kernel)

/-- `rdnetwork_from_dict` raises iff a key is unknown, two keys are synonyms, or a mandatory key is absent -/
theorem rdnetwork_from_dict_rejects_iff (keys : List String) :
    (fromDictKeys "rdnetwork_from_dict" keys).isError = true ↔
      KeysRejected [["species"], ["reactions"], ["environments", "env"], ["units", "units_system", "units system", "u"]]
        ["species"] keys :=
  from_dict_rejects_iff _ _ _ keys (by decide +kernel) (by decide +kernel)

/-- `rdgridspace_from_dict` raises iff a key is unknown, two keys are synonyms, or a mandatory key is absent -/
theorem rdgridspace_from_dict_rejects_iff (keys : List String) :
    (fromDictKeys "rdgridspace_from_dict" keys).isError = true ↔
      KeysRejected [["type"], ["w", "width"], ["h", "height"], ["d", "depth"], ["cell_env", "cell_environments", "cell environments", "environments", "env"], ["cell_volume", "cell_vol"], ["boundary_conditions"], ["units", "units_system", "units system", "u"]]
        [] keys :=
  from_dict_rejects_iff _ _ _ keys (by decide +kernel) (by decide +kernel)

/-- `rdgraphspacenode_from_dict` raises iff a key is unknown, two keys are synonyms, or a mandatory key is absent -/
theorem rdgraphspacenode_from_dict_rejects_iff (keys : List String) :
    (fromDictKeys "rdgraphspacenode_from_dict" keys).isError = true ↔
      KeysRejected [["volume", "vol"], ["environment", "env"], ["units", "units_system", "units system", "u"]]
        [] keys :=
  from_dict_rejects_iff _ _ _ keys (by decide +kernel) (by decide +kernel)

/-- `rdgraphspaceedge_from_dict` raises iff a key is unknown, two keys are synonyms, or a mandatory key is absent -/
theorem rdgraphspaceedge_from_dict_rejects_iff (keys : List String) :
    (fromDictKeys "rdgraphspaceedge_from_dict" keys).isError = true ↔
      KeysRejected [["nodes"], ["surface"], ["distance"], ["units", "units_system", "units system", "u"]]
        ["nodes"] keys :=
  from_dict_rejects_iff _ _ _ keys (by decide +kernel) (by decide +kernel)

/-- `rdgraphspace_from_dict` raises iff a key is unknown, two keys are synonyms, or a mandatory key is absent -/
theorem rdgraphspace_from_dict_rejects_iff (keys : List String) :
    (fromDictKeys "rdgraphspace_from_dict" keys).isError = true ↔
      KeysRejected [["type"], ["nodes"], ["edges"], ["units", "units_system", "units system", "u"]]
        ["nodes", "edges"] keys :=
  from_dict_rejects_iff _ _ _ keys (by decide +kernel) (by decide +kernel)

/-- `rdsystem_from_dict` raises iff a key is unknown, two keys are synonyms, or a mandatory key is absent -/
theorem rdsystem_from_dict_rejects_iff (keys : List String) :
    (fromDictKeys "rdsystem_from_dict" keys).isError = true ↔
      KeysRejected [["network", "rdnetwork"], ["space", "rdspace"], ["state"], ["chemostats"], ["units", "units_system", "units system", "u"]]
        ["network"] keys :=
  from_dict_rejects_iff _ _ _ keys (by decide +kernel) (by decide +kernel)

/-- `rdscript_from_dict` raises iff a key is unknown, two keys are synonyms, or a mandatory key is absent -/
theorem rdscript_from_dict_rejects_iff (keys : List String) :
    (fromDictKeys "rdscript_from_dict" keys).isError = true ↔
      KeysRejected [["system"], ["t_sample"], ["time_step", "time step", "dt"], ["t_max", "tmax"], ["sampling_policy", "sampling policy"], ["sampling_interval", "sampling interval"], ["rng_seed", "rng seed", "seed"], ["init_state_processing", "init state processing"], ["units", "units_system", "units system", "u"]]
        ["system", "t_sample"] keys :=
  from_dict_rejects_iff _ _ _ keys (by decide +kernel) (by decide +kernel)

example : (fromDictKeys "species_from_dict" ["label", "bogus"]).isError = true := by decide +kernel
example : (fromDictKeys "species_from_dict" ["label", "l"]).isError = true := by decide +kernel
example : (fromDictKeys "species_from_dict" ["D"]).isError = true := by decide +kernel
example : fromDictKeys "species_from_dict" ["l", "diff_coef", "u"] = .ok () := by decide +kernel

/-! ## 2. Enumerations: boundary conditions, axes, sampling policies, processing modes -/

def docAxes : List String := ["x", "y", "z"]
def docBoundary : List String := ["reflecting", "periodical"]
def docPolicies : List String := ["on_t_sample", "on_iteration", "on_interval", "no_sampling"]
/-- the docstring of `init_state_processing` also lists "floor", which the Python setter refuses (it rejects a
documented value; it never accepts an undocumented one) -/
def docModes : List String := ["none", "floor", "Poisson", "redist", "auto"]

theorem enumerations_are_documented :
    pyAxes = docAxes ∧ pyBoundary = docBoundary ∧ pyPolicies = docPolicies ∧ (∀ m ∈ pyModes, m ∈ docModes) ∧
    pyBoundaryDefaults = [("x", "reflecting"), ("y", "reflecting"), ("z", "reflecting")] := by decide +kernel

/-- nothing the Python setters accept falls through the engine's `CompareStr` chains (grid and graph entry points) -/
theorem python_accepts_only_what_the_engine_knows :
    (∀ p ∈ pyPolicies, p ∈ cppPoliciesGrid.map (·.1) ∧ p ∈ cppPoliciesGraph.map (·.1)) ∧
    (∀ m ∈ pyModes, m ∈ cppModesGrid ∧ m ∈ cppModesGraph) ∧
    (∀ b ∈ pyBoundary, b ∈ cppBoundary.map (·.1)) := by decide +kernel

/-- the engine compares keywords exactly, and `LibRDEngine.setup` turns both native error codes into exceptions -/
theorem engine_keywords_compared_exactly :
    compareStrBody = "return(std::string(str1)==std::string(str2));" ∧ engineErrorCodes = ["res==1", "res==2"] := by
  decide +kernel

/-- an engine option is refused by `setup` iff it is not one of the three documented ones -/
theorem engine_option_rejects_iff (graph : Bool) (option : String) :
    (engineSetupOption graph option).isError = true ↔ option ∉ ["gillespie", "tauleap", "euler"] := by
  have h1 : cppOptionsGrid.map (·.1) = ["gillespie", "tauleap", "euler"] := by decide +kernel
  have h2 : cppOptionsGraph.map (·.1) = ["gillespie", "tauleap", "euler"] := by decide +kernel
  have hc := engine_keywords_compared_exactly.1
  unfold engineSetupOption
  simp only [hc, bne_self_eq_false, Bool.and_false, Bool.false_eq_true, ↓reduceIte, BEq.rfl, Bool.true_and]
  cases graph
  · simp only [Bool.false_eq_true, ↓reduceIte, h1]
    by_cases h : ["gillespie", "tauleap", "euler"].contains option = true
    · simp [h, Res.isError, List.contains_iff_mem.mp h]
    · have hn : option ∉ ["gillespie", "tauleap", "euler"] := fun hm => h (List.contains_iff_mem.mpr hm)
      have hn' := hn
      simp only [List.mem_cons, List.not_mem_nil, or_false, not_or] at hn'
      simp [hn', Res.isError]
  · simp only [↓reduceIte, h2]
    by_cases h : ["gillespie", "tauleap", "euler"].contains option = true
    · simp [h, Res.isError, List.contains_iff_mem.mp h]
    · have hn : option ∉ ["gillespie", "tauleap", "euler"] := fun hm => h (List.contains_iff_mem.mpr hm)
      have hn' := hn
      simp only [List.mem_cons, List.not_mem_nil, or_false, not_or] at hn'
      simp [hn', Res.isError]

theorem mem_of_contains_false {l : List String} {p : String} (h : ¬ l.contains p = true) : p ∉ l :=
  fun hm => h (List.contains_iff_mem.mpr hm)

theorem policy_rejects_iff (p : String) : (setSamplingPolicy p).isError = true ↔ p ∉ docPolicies := by
  have h : pyPolicies = docPolicies := enumerations_are_documented.2.2.1
  simp only [setSamplingPolicy, h]
  by_cases hp : docPolicies.contains p = true
  · simp [hp, Res.isError, List.contains_iff_mem.mp hp]
  · simp [hp, Res.isError, mem_of_contains_false hp]

theorem mode_rejects_iff (m : String) : (setInitStateProcessing m).isError = true ↔ m ∉ pyModes := by
  simp only [setInitStateProcessing]
  by_cases hp : pyModes.contains m = true
  · simp [hp, Res.isError, List.contains_iff_mem.mp hp]
  · simp [hp, Res.isError, mem_of_contains_false hp]

/-- an undocumented processing mode is rejected -/
theorem undocumented_mode_rejected (m : String) (h : m ∉ docModes) : (setInitStateProcessing m).isError = true :=
  (mode_rejects_iff m).2 fun hm => h (enumerations_are_documented.2.2.2.1 m hm)

/-- `set_boundary_conditions` raises iff some entry names an unknown axis or an unknown condition -/
theorem boundary_rejects_iff (cur bc : List (String × String)) :
    (setBoundaryConditions cur bc).1.isError = true ↔ ∃ p ∈ bc, p.1 ∉ docAxes ∨ p.2 ∉ docBoundary := by
  have h1 : pyAxes = docAxes := enumerations_are_documented.1
  have h2 : pyBoundary = docBoundary := enumerations_are_documented.2.1
  rw [← h1, ← h2, ← setBoundaryLoop_error_iff bc pyBoundaryDefaults]
  unfold setBoundaryConditions
  cases hl : setBoundaryLoop bc pyBoundaryDefaults with
  | mk r st =>
    cases r with
    | ok u => cases u; simp [Res.isError]
    | error e => by_cases hb : bcStoresBeforeValidation = true <;> simp [hb, Res.isError]

/-- FULL STATEMENT (a rejected call leaves the stored conditions untouched):
    `(setBoundaryConditions cur bc).1.isError → (setBoundaryConditions cur bc).2 = cur`.
Lemma for a source that validates before it stores (the tree before repository fix 8924ce6 assigned the
defaults first: `bcStoresBeforeValidation = true`, witness below); the full theorem follows it. -/
theorem rejected_boundary_call_changes_nothing_of_source (cur bc : List (String × String))
    (hsrc : bcStoresBeforeValidation = false) (h : (setBoundaryConditions cur bc).1.isError = true) :
    (setBoundaryConditions cur bc).2 = cur := by
  unfold setBoundaryConditions at h ⊢
  cases hl : setBoundaryLoop bc pyBoundaryDefaults with
  | mk r st =>
    rw [hl] at h
    cases r with
    | ok u => cases u; simp [Res.isError] at h
    | error e => simp [hsrc]

/-- the source validates the whole input before it stores anything (repository fix 8924ce6) … -/
theorem boundary_source_validates_first : bcStoresBeforeValidation = false := by decide +kernel

/-- … hence a rejected `set_boundary_conditions` call leaves the stored conditions untouched -/
theorem rejected_boundary_call_changes_nothing (cur bc : List (String × String))
    (h : (setBoundaryConditions cur bc).1.isError = true) : (setBoundaryConditions cur bc).2 = cur :=
  rejected_boundary_call_changes_nothing_of_source cur bc boundary_source_validates_first h

/-- witness of the finding on a source that stores first: y is reset by a rejected call about x -/
example : bcStoresBeforeValidation = true →
    (setBoundaryConditions [("x", "reflecting"), ("y", "periodical"), ("z", "reflecting")] [("x", "bogus")]) =
      (.error .badValue, [("x", "reflecting"), ("y", "reflecting"), ("z", "reflecting")]) := by
  intro h; simp [setBoundaryConditions, h]; decide +kernel

/-! ## 3. Grid sizes, environment maps, environment lists -/

theorem grid_size_test : ∀ w h d : Int, gridSizeBad w h d = true ↔ w ≤ 0 ∨ h ≤ 0 ∨ d ≤ 0 := by
  intro w h d; simp [gridSizeBad, or_assoc]

/-- the grid constructor raises iff a size is non-positive or the environment array has the wrong length -/
theorem grid_ctor_rejects_iff (w h d : Int) (ce : CellEnvIn) :
    (mkGridEnv w h d ce).isError = true ↔
      w ≤ 0 ∨ h ≤ 0 ∨ d ≤ 0 ∨ ∃ l, ce = .arr l ∧ (l.length : Int) ≠ w * h * d := by
  unfold mkGridEnv
  by_cases hb : gridSizeBad w h d = true
  · have := (grid_size_test w h d).1 hb
    simp only [hb, ↓reduceIte, Res.isError, true_iff]
    rcases this with q | q | q
    · exact Or.inl q
    · exact Or.inr (Or.inl q)
    · exact Or.inr (Or.inr (Or.inl q))
  · have hs : ¬(w ≤ 0 ∨ h ≤ 0 ∨ d ≤ 0) := fun q => hb ((grid_size_test w h d).2 q)
    simp only [hb, Bool.false_eq_true, ↓reduceIte]
    cases ce with
    | num e =>
      simp only [Res.isError, Bool.false_eq_true, false_iff]
      rintro (q | q | q | ⟨l, hl, _⟩)
      · exact hs (Or.inl q)
      · exact hs (Or.inr (Or.inl q))
      · exact hs (Or.inr (Or.inr q))
      · cases hl
    | arr l =>
      by_cases hl : cellEnvLenBad l.length (gridSize w h d) = true
      · simp only [hl, ↓reduceIte, Res.isError, true_iff]
        right; right; right
        refine ⟨l, rfl, ?_⟩
        simpa [cellEnvLenBad, gridSize] using hl
      · simp only [hl, Bool.false_eq_true, ↓reduceIte, Res.isError, false_iff]
        rintro (q | q | q | ⟨l', hl', hne⟩)
        · exact hs (Or.inl q)
        · exact hs (Or.inr (Or.inl q))
        · exact hs (Or.inr (Or.inr q))
        · cases hl'
          apply hl
          simpa [cellEnvLenBad, gridSize] using hne

/-- an environment index at or beyond the number of environments makes default state generation raise -/
theorem env_beyond_list_rejected (nspecies nenv : Nat) (cellEnv : List Int) (hs : 0 < nspecies)
    (h : ∃ e ∈ cellEnv, (nenv : Int) ≤ e) : defaultStateEnvCheck nspecies nenv cellEnv = .error .outOfRange := by
  obtain ⟨e, he, hge⟩ := h
  unfold defaultStateEnvCheck
  have h0 : (nspecies == 0) = false := by simp; omega
  have hall : cellEnv.all (tupleIndexOk nenv) = false := by
    rw [List.all_eq_false]
    exact ⟨e, he, by simp [tupleIndexOk]; omega⟩
  simp [h0, hall]

/-- FULL STATEMENT (building a system whose space names an environment beyond the list raises):
    `(∃ e ∈ cellEnv, nenv ≤ e) → systemEnvCheck stateGiven chemGiven nspecies nenv cellEnv = error`.
Lemma: holds when a default state or chemostat map is generated, or when the `space` setter compares the indices
with the number of environments (before repository fix 445be23 a system given explicit `state` and `chemostats`
never looked at the environment map, witness below); the full theorem follows it. -/
theorem env_beyond_list_system_rejected_of_source (stateGiven chemGiven : Bool) (nspecies nenv : Nat) (cellEnv : List Int)
    (hs : 0 < nspecies) (h : ∃ e ∈ cellEnv, (nenv : Int) ≤ e)
    (hsrc : systemSpaceChecksEnv = true ∨ ¬(stateGiven = true ∧ chemGiven = true)) :
    systemEnvCheck stateGiven chemGiven nspecies nenv cellEnv = .error .outOfRange := by
  unfold systemEnvCheck
  by_cases hflag : systemSpaceChecksEnv = true
  · obtain ⟨e, he, hge⟩ := h
    have : cellEnv.any (fun e => decide (e ≥ (nenv : Int))) = true := by
      rw [List.any_eq_true]; exact ⟨e, he, by simpa using hge⟩
    simp [hflag, this]
  · have hg : ¬(stateGiven = true ∧ chemGiven = true) := by
      rcases hsrc with h' | h'
      · exact absurd h' hflag
      · exact h'
    have : (stateGiven && chemGiven) = false := by
      cases stateGiven <;> cases chemGiven <;> simp_all
    simp [hflag, this, env_beyond_list_rejected nspecies nenv cellEnv hs h]

/-- the `RDSystem.space` setter compares every cell's environment index with the number of environments
(repository fix 445be23) … -/
theorem system_source_checks_env :
    systemSpaceChecksEnv = true ∧ systemSpaceEnvTests = ["int(v1)>=self.network.nenvironments()"] := by decide +kernel

/-- … hence a system whose space names an environment beyond the list is refused, with or without explicit
state and chemostat map -/
theorem env_beyond_list_system_rejected (stateGiven chemGiven : Bool) (nspecies nenv : Nat) (cellEnv : List Int)
    (hs : 0 < nspecies) (h : ∃ e ∈ cellEnv, (nenv : Int) ≤ e) :
    systemEnvCheck stateGiven chemGiven nspecies nenv cellEnv = .error .outOfRange :=
  env_beyond_list_system_rejected_of_source stateGiven chemGiven nspecies nenv cellEnv hs h (Or.inl system_source_checks_env.1)

/-- witness of the finding on a source that does not check: explicit state and chemostats, environment 2 of 2 -/
example : systemSpaceChecksEnv = false → systemEnvCheck true true 1 2 [0, 2] = .ok () := by
  intro h; simp [systemEnvCheck, h]

/-- the environment list is refused iff it is empty or contains the reserved name -/
theorem environments_rejects_iff (envs : List String) :
    (checkEnvironments envs).isError = true ↔ envs = [] ∨ "default" ∈ envs := by
  have hr : envReserved = "default" := by decide +kernel
  unfold checkEnvironments
  rw [hr]
  cases envs with
  | nil => simp [Res.isError]
  | cons a r =>
    by_cases h : (a :: r).contains "default" = true
    · simp [h, Res.isError, List.contains_iff_mem.mp h]
    · have := mem_of_contains_false h
      simp only [List.isEmpty_cons, Bool.false_eq_true, ↓reduceIte, h, Res.isError, false_iff]
      simp [this]

/-! ## 4. Unit symbols and the dimension of every quantity field -/

/-- each `UnitsSystem._check_*` consults the label list of its own kind -/
theorem symbol_checks_source :
    sysCheckLists = [("_check_space", "space"), ("_check_time", "time"), ("_check_quantity", "quantity")] := by
  decide +kernel

/-- a units system is refused iff one of its three symbols is not in the supported list of its kind -/
theorem unit_symbol_rejects_iff (a b c : String) :
    (mkSys a b c).isError = true ↔ a ∉ spaceSyms ∨ b ∉ timeSyms ∨ c ∉ qtySyms := by
  unfold mkSys
  by_cases h : Sys.valid ⟨a, b, c⟩ = true
  · have := (Sys.valid_iff ⟨a, b, c⟩).1 h
    simp only [h, ↓reduceIte, Res.isError, Bool.false_eq_true, false_iff]
    rintro (h' | h' | h')
    · exact h' this.1
    · exact h' this.2.1
    · exact h' this.2.2
  · simp only [h, Bool.false_eq_true, ↓reduceIte, Res.isError, true_iff]
    by_contra hc
    simp only [not_or, not_not] at hc
    exact h ((Sys.valid_iff ⟨a, b, c⟩).2 ⟨hc.1, hc.2.1, hc.2.2⟩)

/-- Spec: physical dimension (length, time, amount) of every quantity field -/
def docFieldDims : List (String × Int × Int × Int) := [
  ("Species.D", 2, -1, 0),                   -- diffusion coefficient: length² / time
  ("Species.density", -3, 0, 1),             -- density: amount / length³
  ("RDGridSpace.cell_vol", 3, 0, 0),         -- volume
  ("RDGraphSpaceNode.volume", 3, 0, 0),      -- volume
  ("RDGraphSpaceEdge.surface", 2, 0, 0),     -- surface
  ("RDGraphSpaceEdge.distance", 1, 0, 0),    -- distance
  ("RDScript.t_sample", 0, 1, 0), ("RDScript.time_step", 0, 1, 0), ("RDScript.t_max", 0, 1, 0),
  ("RDScript.sampling_interval", 0, 1, 0),   -- times
  ("RDSystem.state", 0, 0, 1)]               -- amounts

theorem field_dims_are_physical : fieldDims = docFieldDims := by decide +kernel

/-- a quantity of another dimension is refused by the field's setter; one of the field's dimension is kept -/
theorem field_rejects_other_dim (field : String) (d : Dim) (sys : Sys) (x : UVal) (hf : fieldDimOf field = some d) :
    (x.u.dim ≠ d → setField field sys (.uval x) = .error .dimMismatch) ∧
    (x.u.dim = d → setField field sys (.uval x) = .ok x) := by
  unfold setField
  rw [hf]
  constructor
  · intro h; simp [processScalar, h]
  · intro h; simp [processScalar, h]

/-- text whose unit part is unreadable (unsupported symbol, bad syntax) or of another dimension is refused -/
theorem field_rejects_bad_text (field : String) (d : Dim) (sys : Sys) (v : Rat) (us : String)
    (hf : fieldDimOf field = some d) (h : ∀ u, parseUnits us = .ok u → u.dim ≠ d) :
    (setField field sys (.text v us)).isError = true := by
  unfold setField
  rw [hf]
  simp only [processScalar]
  cases hp : parseUnits us with
  | error e => rfl
  | ok u => simp [h u hp, Res.isError]

/-- text items of a list handed to `UnitArray.set_value` keep their type and are parsed as quantities
(repository fix 8eb7708; before it `np.array(list)` turned them into `np.str_`, which the `type(..) == str` test missed) … -/
theorem array_text_items_parsed : arrayTextItemsParsed = true := by decide +kernel

/-- … hence a text item without units, of another dimension, or with an unreadable unit is refused wherever a
quantity list is demanded (`t_sample`, `state`) -/
theorem array_text_item_rejected (field : String) (d : Dim) (sys : Sys) (v : Rat) (us : String)
    (hf : fieldDimOf field = some d) (h : ∀ u, parseUnits us = .ok u → u.dim ≠ d) :
    (arrayTextElement field sys v us).isError = true := by
  have := field_rejects_bad_text field d sys v us hf h
  unfold arrayTextElement
  rw [array_text_items_parsed]
  cases hs : setField field sys (.text v us) with
  | ok x => rw [hs] at this; simp [Res.isError] at this
  | error e => rfl

/-- rate constants: the demanded dimension is the order's (C19.k_dim); any other is refused -/
theorem rate_constant_of_wrong_order_rejected (sys : Sys) (n : Int) (x : UVal) (h : x.u.dim ≠ kDim n) :
    processScalar sys (kDim n) (.uval x) = .error .dimMismatch := by
  simp [processScalar, h]

example : fieldDimOf "Species.density" = some ⟨-3, 0, 1⟩ := by decide +kernel

/-! ## 5. Positions outside the space, unknown species -/

theorem within_bounds_num_iff (size p : Int) : withinBoundsNum size p = true ↔ 0 ≤ p ∧ p < size := by
  simp [withinBoundsNum]

theorem within_bounds_arr_iff (w h d x y z : Int) :
    withinBoundsArr w h d x y z = true ↔ (0 ≤ x ∧ x < w) ∧ (0 ≤ y ∧ y < h) ∧ (0 ≤ z ∧ z < d) := by
  simp [withinBoundsArr, and_assoc]

theorem within_bounds_obj_iff (w h d x y z : Int) :
    withinBoundsObj w h d x y z = true ↔ (0 ≤ x ∧ x < w) ∧ (0 ≤ y ∧ y < h) ∧ (0 ≤ z ∧ z < d) := by
  simp [withinBoundsObj, and_assoc]

theorem accessors_are_guarded : cellIndexGuarded = true ∧ cellCoordsGuarded = true := by decide

/-- linear index on a grid: refused iff outside `[0, size)`; otherwise returned unchanged -/
theorem grid_linear_rejects_iff (g : GridShape) (p : Int) :
    ((VSpace.grid g).cellIndex (.num p)).isError = true ↔ p < 0 ∨ (g.size : Int) ≤ p := by
  simp only [VSpace.cellIndex, pyCellIndexOfNum]
  have hsz : gridSize g.w g.h g.d = (g.size : Int) := by simp [gridSize, GridShape.size]
  rw [hsz]
  by_cases h : withinBoundsNum (g.size : Int) p = true
  · have := (within_bounds_num_iff _ _).1 h
    simp [h, Res.isError]; omega
  · have h' : ¬(0 ≤ p ∧ p < (g.size : Int)) := fun hh => h ((within_bounds_num_iff _ _).2 hh)
    simp [h, Res.isError]; omega

theorem grid_linear_ok (g : GridShape) (p : Int) (h : 0 ≤ p ∧ p < (g.size : Int)) :
    (VSpace.grid g).cellIndex (.num p) = .ok p := by
  simp only [VSpace.cellIndex, pyCellIndexOfNum]
  have hsz : gridSize g.w g.h g.d = (g.size : Int) := by simp [gridSize, GridShape.size]
  rw [hsz, (within_bounds_num_iff _ _).2 h]
  simp [cellIndexNum]

/-- coordinate triple on a grid: refused iff some coordinate is outside its axis -/
theorem grid_coords_rejects_iff (g : GridShape) (x y z : Int) :
    ((VSpace.grid g).cellIndex (.xyz x y z)).isError = true ↔
      ¬((0 ≤ x ∧ x < g.w) ∧ (0 ≤ y ∧ y < g.h) ∧ (0 ≤ z ∧ z < g.d)) := by
  simp only [VSpace.cellIndex, pyCellIndexOfCoords]
  rw [← within_bounds_arr_iff]
  by_cases h : withinBoundsArr g.w g.h g.d x y z = true <;> simp [h, Res.isError]

/-- a position object with `x`, `y`, `z` attributes on a grid: refused iff some coordinate is outside its axis;
otherwise it denotes the same cell as the tuple of its coordinates -/
theorem grid_object_rejects_iff (g : GridShape) (x y z : Int) :
    ((VSpace.grid g).cellIndex (.obj x y z)).isError = true ↔
      ¬((0 ≤ x ∧ x < g.w) ∧ (0 ≤ y ∧ y < g.h) ∧ (0 ≤ z ∧ z < g.d)) := by
  simp only [VSpace.cellIndex]
  rw [← within_bounds_obj_iff]
  by_cases h : withinBoundsObj g.w g.h g.d x y z = true <;> simp [h, Res.isError]

theorem grid_object_same_as_tuple (g : GridShape) (x y z : Int) :
    (VSpace.grid g).cellIndex (.obj x y z) = (VSpace.grid g).cellIndex (.xyz x y z) := by
  simp only [VSpace.cellIndex, pyCellIndexOfCoords]
  have h : withinBoundsObj g.w g.h g.d x y z = withinBoundsArr g.w g.h g.d x y z := by
    rw [Bool.eq_iff_iff, within_bounds_obj_iff, within_bounds_arr_iff]
  rw [h]; rfl

/-- node index of a graph: refused iff outside `[0, n)` -/
theorem graph_rejects_iff (n : Nat) (p : Int) :
    ((VSpace.graph n).cellIndex (.num p)).isError = true ↔ p < 0 ∨ (n : Int) ≤ p := by
  simp only [VSpace.cellIndex]
  by_cases h : graphNodeIndexBad n p = true
  · have h' := h
    simp only [graphNodeIndexBad, Bool.or_eq_true, decide_eq_true_eq] at h'
    simp [h, Res.isError]; omega
  · have h' := h
    simp only [graphNodeIndexBad, Bool.or_eq_true, decide_eq_true_eq] at h'
    simp [h, Res.isError]; omega

/-- a coordinate triple is never a node of a graph space -/
theorem graph_coords_rejected (n : Nat) (x y z : Int) :
    ((VSpace.graph n).cellIndex (.xyz x y z)).isError = true ∧ ((VSpace.graph n).cellIndex (.obj x y z)).isError = true := ⟨rfl, rfl⟩

/-- FULL STATEMENT (every positional accessor refuses a position outside the space):
    `(sp.cellIndex p).isError → (sp.accessorCheck a p).isError` for every accessor `a`.
Lemma for the accessors whose source calls `get_cell_index` / `is_within_bounds` on the position (before repository
fix 052c0f5 `RDGridSpace.get_cell_vol` did not); the full theorem `accessor_rejects_outside` follows it. -/
theorem accessor_rejects_outside_of_source (sp : VSpace) (a : String) (p : VPos)
    (hg : (match sp with | .grid _ => gridAccessorGuards | .graph _ => graphAccessorGuards).lookup a = some true)
    (h : (sp.cellIndex p).isError = true) : (sp.accessorCheck a p).isError = true := by
  unfold VSpace.accessorCheck
  cases hc : sp.cellIndex p with
  | ok i => rw [hc] at h; simp [Res.isError] at h
  | error e => cases sp <;> simp only [] at hg <;> simp [hg, Res.isError]

/-- every positional accessor of both space classes checks its position (the grid's `get_cell_vol` since
repository fix 052c0f5) -/
theorem guarded_accessors :
    (∀ a ∈ ["get_cell_env", "get_cell_vol", "get_neighbors", "are_neighbors", "get_cell_coordinates", "get_cell_index"],
      gridAccessorGuards.lookup a = some true) ∧
    (∀ a ∈ ["get_cell_env", "get_cell_vol", "get_neighbors", "are_neighbors"], graphAccessorGuards.lookup a = some true) := by
  decide +kernel

/-- every positional accessor refuses a position outside the space -/
theorem accessor_rejects_outside (sp : VSpace) (a : String) (p : VPos)
    (ha : a ∈ ["get_cell_env", "get_cell_vol", "get_neighbors", "are_neighbors"])
    (h : (sp.cellIndex p).isError = true) : (sp.accessorCheck a p).isError = true := by
  apply accessor_rejects_outside_of_source sp a p _ h
  cases sp with
  | grid g => exact guarded_accessors.1 a (by simp only [List.mem_cons] at ha ⊢; tauto)
  | graph n => exact guarded_accessors.2 a ha

theorem species_index_test (n i : Int) : speciesIndexOk n i = true ↔ 0 ≤ i ∧ i < n := by simp [speciesIndexOk]

theorem index_tests_agree (n i : Int) :
    reactionIndexOk n i = speciesIndexOk n i ∧ environmentIndexOk n i = speciesIndexOk n i ∧
    (edgeIndexBad n i = graphNodeIndexBad n i) := by
  simp [reactionIndexOk, speciesIndexOk, environmentIndexOk, edgeIndexBad, graphNodeIndexBad]

/-- `get_species_index` resolves a label against the network's CURRENT species list: it reads no other state of the
object (no cached table that a later `net.species = […]` would leave stale) -/
theorem species_lookup_is_stateless : speciesLookupState = ["nspecies", "species"] := by decide +kernel

/-- an unknown species (label not declared, index outside `[0, ns)`) has no index … -/
theorem species_unknown_iff (labels : List (Option Label)) (s : SpeciesRef) :
    vSpeciesIndex labels s = none ↔
      match s with
      | .idx i => i < 0 ∨ (labels.length : Int) ≤ i
      | .label l => some l ∉ labels := by
  cases s with
  | idx i =>
    simp only [vSpeciesIndex]
    by_cases h : speciesIndexOk labels.length i = true
    · have := (species_index_test _ _).1 h
      simp [h]; omega
    · have h' : ¬(0 ≤ i ∧ i < (labels.length : Int)) := fun hh => h ((species_index_test _ _).2 hh)
      simp [h]; omega
  | label l =>
    simp only [vSpeciesIndex, firstIndex, Option.map_eq_none_iff]
    by_cases h : List.findIdx (fun x => x == some l) labels < labels.length
    · have := List.findIdx_lt_length.mp h
      simp only [h, ↓reduceIte, reduceCtorEq, false_iff, not_not]
      obtain ⟨x, hx, hxe⟩ := this
      have : x = some l := by simpa using hxe
      exact this ▸ hx
    · simp only [h, ↓reduceIte, true_iff]
      intro hm
      apply h
      exact List.findIdx_lt_length.mpr ⟨some l, hm, by simp⟩

/-- … and every state / chemostat access naming it raises -/
theorem unknown_species_rejected (labels : List (Option Label)) (sp : VSpace) (s : SpeciesRef) (p : VPos)
    (h : vSpeciesIndex labels s = none) : stateIndexOf labels sp s p = .error .typeError := by
  simp [stateIndexOf, h]

/-- a state access with a position outside the space raises, whatever the species -/
theorem state_access_outside_rejected (labels : List (Option Label)) (sp : VSpace) (s : SpeciesRef) (p : VPos)
    (h : (sp.cellIndex p).isError = true) : (stateIndexOf labels sp s p).isError = true := by
  unfold stateIndexOf
  cases hs : vSpeciesIndex labels s with
  | none => rfl
  | some si =>
    cases hc : sp.cellIndex p with
    | ok i => rw [hc] at h; simp [Res.isError] at h
    | error e => rfl

/-! ## 6. No value is read from or written to a different entry -/

theorem state_layout (n s c : Int) : stateIndex n s c = s * n + c := rfl
theorem cell_layout (w h x y z : Int) : cellIndexArr w h x y z = x + y * w + z * w * h ∧
    cellIndexObj w h x y z = x + y * w + z * w * h := ⟨rfl, rfl⟩

/-- an accepted cell position denotes a cell of the space -/
theorem cell_index_in_range (sp : VSpace) (p : VPos) (i : Int) (h : sp.cellIndex p = .ok i) (hv : ∀ g, sp = .grid g → g.valid = true) :
    0 ≤ i ∧ i < (sp.size : Int) := by
  cases sp with
  | graph n =>
    cases p with
    | num q =>
      simp only [VSpace.cellIndex] at h
      by_cases hb : graphNodeIndexBad n q = true
      · simp [hb] at h
      · simp only [hb, Bool.false_eq_true, ↓reduceIte, Except.ok.injEq] at h
        subst h
        simp only [graphNodeIndexBad, Bool.or_eq_true, decide_eq_true_eq] at hb
        simp [VSpace.size]; omega
    | xyz x y z => simp [VSpace.cellIndex] at h
    | obj x y z => simp [VSpace.cellIndex] at h
  | grid g =>
    have hsz : gridSize g.w g.h g.d = (g.size : Int) := by simp [gridSize, GridShape.size]
    have key : ∀ (x y z i : Int), (VSpace.grid g).cellIndex (.xyz x y z) = .ok i → 0 ≤ i ∧ i < ((VSpace.grid g).size : Int) := by
      intro x y z i h
      simp only [VSpace.cellIndex, pyCellIndexOfCoords] at h
      by_cases hb : withinBoundsArr g.w g.h g.d x y z = true
      · simp only [hb, ↓reduceIte, Except.ok.injEq] at h
        subst h
        obtain ⟨hx, hy, hz⟩ := (within_bounds_arr_iff _ _ _ _ _ _).1 hb
        simp only [VSpace.size, GridShape.size, cellIndexArr, Nat.cast_mul]
        -- x + y*w + z*w*h < w*h*d
        have r1 : x + y * g.w + z * g.w * g.h = stateIndex g.w (stateIndex g.h z y) x := by
          simp only [stateIndex]; rw [Int.add_mul, Int.mul_right_comm z g.h g.w]; omega
        rw [r1]
        have hzy := stateIndex_range (n := (g.h : Int)) (ns := (g.d : Int)) hz hy
        have := stateIndex_range (n := (g.w : Int)) (ns := stateSize g.h g.d) hzy hx
        simp only [stateSize] at this
        have e : (g.w : Int) * ((g.h : Int) * (g.d : Int)) = (g.w : Int) * g.h * g.d := by rw [Int.mul_assoc]
        omega
      · simp [hb] at h
    cases p with
    | num q =>
      simp only [VSpace.cellIndex, pyCellIndexOfNum, hsz] at h
      by_cases hb : withinBoundsNum (g.size : Int) q = true
      · simp only [hb, ↓reduceIte, cellIndexNum, Except.ok.injEq] at h
        subst h
        simpa [VSpace.size] using (within_bounds_num_iff _ _).1 hb
      · simp [hb] at h
    | xyz x y z => exact key x y z i h
    | obj x y z => exact key x y z i (grid_object_same_as_tuple g x y z ▸ h)

/-- the flat index of an accepted (species, position) pair determines both: two accepted accesses with the
same flat index name the same species index and the same cell -/
theorem no_cross_entry (labels : List (Option Label)) (sp : VSpace) (hv : ∀ g, sp = .grid g → g.valid = true)
    (s s' : SpeciesRef) (p p' : VPos) (i : Int)
    (h : stateIndexOf labels sp s p = .ok i) (h' : stateIndexOf labels sp s' p' = .ok i) :
    vSpeciesIndex labels s = vSpeciesIndex labels s' ∧ sp.cellIndex p = sp.cellIndex p' := by
  unfold stateIndexOf at h h'
  cases hs : vSpeciesIndex labels s with
  | none => simp [hs] at h
  | some si =>
    cases hs' : vSpeciesIndex labels s' with
    | none => simp [hs'] at h'
    | some si' =>
      cases hc : sp.cellIndex p with
      | error e => simp [hs, hc] at h
      | ok ci =>
        cases hc' : sp.cellIndex p' with
        | error e => simp [hs', hc'] at h'
        | ok ci' =>
          simp only [hs, hc, Except.ok.injEq] at h
          simp only [hs', hc', Except.ok.injEq] at h'
          have r := cell_index_in_range sp p ci hc hv
          have r' := cell_index_in_range sp p' ci' hc' hv
          obtain ⟨e1, e2⟩ := stateIndex_injective r r' (h.trans h'.symm)
          simp [e1, e2]

/-- the flat index is inside the state array: `0 ≤ i < size · ns` -/
theorem state_index_in_range (labels : List (Option Label)) (sp : VSpace) (hv : ∀ g, sp = .grid g → g.valid = true)
    (s : SpeciesRef) (p : VPos) (i : Int) (h : stateIndexOf labels sp s p = .ok i) :
    0 ≤ i ∧ i < stateSize sp.size labels.length := by
  unfold stateIndexOf at h
  cases hs : vSpeciesIndex labels s with
  | none => simp [hs] at h
  | some si =>
    cases hc : sp.cellIndex p with
    | error e => simp [hs, hc] at h
    | ok ci =>
      simp only [hs, hc, Except.ok.injEq] at h
      subst h
      have r := cell_index_in_range sp p ci hc hv
      have rs : 0 ≤ si ∧ si < (labels.length : Int) := by
        cases s with
        | idx j =>
          simp only [vSpeciesIndex] at hs
          by_cases hb : speciesIndexOk labels.length j = true
          · simp only [hb, ↓reduceIte, Option.some.injEq] at hs
            subst hs; exact (species_index_test _ _).1 hb
          · simp [hb] at hs
        | label l =>
          simp only [vSpeciesIndex, firstIndex] at hs
          by_cases hb : List.findIdx (fun x => x == some l) labels < labels.length
          · simp only [hb, ↓reduceIte, Option.map_some, Option.some.injEq] at hs
            subst hs
            refine ⟨Int.natCast_nonneg _, ?_⟩
            show ((List.findIdx (fun x => x == some l) labels : Nat) : Int) < (labels.length : Int)
            exact_mod_cast hb
          · simp [hb] at hs
      exact stateIndex_range rs r

/-- a write through `set_state` / `set_chemostat` changes the named entry and no other -/
theorem set_entry_touches_only {α} (arr arr' : List α) (labels : List (Option Label)) (sp : VSpace)
    (s : SpeciesRef) (p : VPos) (v : α) (h : setEntry arr labels sp s p v = .ok arr') :
    ∃ i : Nat, stateIndexOf labels sp s p = .ok (i : Int) ∧ arr'.length = arr.length ∧ arr'[i]? = some v ∧
      ∀ j, j ≠ i → arr'[j]? = arr[j]? := by
  unfold setEntry at h
  cases hi : stateIndexOf labels sp s p with
  | error e => simp [hi] at h
  | ok i =>
    simp only [hi] at h
    by_cases hb : 0 ≤ i ∧ i.toNat < arr.length
    · simp only [hb, and_self, ↓reduceIte, Except.ok.injEq] at h
      subst h
      refine ⟨i.toNat, ?_, by simp, ?_, ?_⟩
      · congr 1; omega
      · simp [hb.2]
      · intro j hj
        exact List.getElem?_set_ne (Ne.symm hj)
    · simp [hb] at h

/-- a read returns the named entry -/
theorem get_entry_reads_named {α} (arr : List α) (labels : List (Option Label)) (sp : VSpace)
    (s : SpeciesRef) (p : VPos) (v : α) (h : getEntry arr labels sp s p = .ok v) :
    ∃ i : Nat, stateIndexOf labels sp s p = .ok (i : Int) ∧ arr[i]? = some v := by
  unfold getEntry at h
  cases hi : stateIndexOf labels sp s p with
  | error e => simp [hi] at h
  | ok i =>
    simp only [hi] at h
    by_cases hb : 0 ≤ i
    · simp only [hb, ↓reduceIte] at h
      cases hg : arr[i.toNat]? with
      | none => simp [hg] at h
      | some w =>
        simp only [hg, Except.ok.injEq] at h
        subst h
        exact ⟨i.toNat, by congr 1; omega, hg⟩
    · simp [hb] at h

/-- coordinates: different in-bounds triples are different cells (no aliasing through the index formula) -/
theorem coords_injective (g : GridShape) (x y z x' y' z' i : Int)
    (h : (VSpace.grid g).cellIndex (.xyz x y z) = .ok i) (h' : (VSpace.grid g).cellIndex (.xyz x' y' z') = .ok i) :
    x = x' ∧ y = y' ∧ z = z' := by
  simp only [VSpace.cellIndex, pyCellIndexOfCoords] at h h'
  by_cases hb : withinBoundsArr g.w g.h g.d x y z = true
  · by_cases hb' : withinBoundsArr g.w g.h g.d x' y' z' = true
    · simp only [hb, hb', ↓reduceIte, Except.ok.injEq] at h h'
      obtain ⟨hx, hy, _⟩ := (within_bounds_arr_iff _ _ _ _ _ _).1 hb
      obtain ⟨hx', hy', _⟩ := (within_bounds_arr_iff _ _ _ _ _ _).1 hb'
      exact cellIndexArr_injective hx hy hx' hy' (h.trans h'.symm)
    · simp [hb'] at h'
  · simp [hb] at h

/-- non-vacuity: a 2×2×1 grid with species A, B: ("B", (1,1,0)) is entry 7; linear index 7 is refused -/
example : stateIndexOf [some ['A'], some ['B']] (.grid ⟨2, 2, 1, false, false, false⟩) (.label ['B']) (.xyz 1 1 0) = .ok 7 := by
  decide +kernel
example : (stateIndexOf [some ['A'], some ['B']] (.grid ⟨2, 2, 1, false, false, false⟩) (.label ['A']) (.num 7)).isError = true := by
  decide +kernel

/-! ## 7. Coarse-graining index maps -/

theorem index_map_source :
    indexMapRaiseConds = ["len(v0)!=v1.size()", "type(v2)!=int", "v4<-1", "v3<0", "v2notinv0"] := by decide +kernel

theorem isError_unit_iff (r : Res Unit) : r.isError = true ↔ r ≠ .ok () := by
  cases r with
  | ok u => cases u; simp [Res.isError]
  | error e => simp [Res.isError]

/-- `check_index_map_validity` raises exactly when the map breaks one of the documented rules (`ValidMap`, written by
the coarse-graining builder from the docstring: right length, every entry a Python `int ≥ -1`, not all dropped, every
integer of `0..max` present, no two retained cells of one output node in different environments).
Hypothesis: no cell environment equals `-2`, the code's internal "unset" marker. -/
theorem index_map_rejects_iff (im : List (Option Int)) (env : List Int) (henv : ∀ e ∈ env, e ≠ -2) :
    (vCheckIndexMap im env).isError = true ↔ ¬ ValidMap im env := by
  rw [isError_unit_iff, vCheckIndexMap, ne_eq, valid_iff_aux im env henv]

/-- rule 1: wrong length -/
theorem index_map_wrong_length_rejected (im : List (Option Int)) (env : List Int) (h : im.length ≠ env.length) :
    (vCheckIndexMap im env).isError = true := by
  rw [isError_unit_iff, vCheckIndexMap, ne_eq, checkIndexMap_ok_iff]
  exact fun hv => h hv.1

/-- rule 2: an entry that is not a Python `int` -/
theorem index_map_non_int_rejected (im : List (Option Int)) (env : List Int) (h : none ∈ im) :
    (vCheckIndexMap im env).isError = true := by
  rw [isError_unit_iff, vCheckIndexMap, ne_eq, checkIndexMap_ok_iff]
  intro hv
  have := hv.2.1 none h
  simp at this

/-- rule 3: a negative entry other than `-1` -/
theorem index_map_negative_rejected (im : List (Option Int)) (env : List Int) (x : Int) (hx : some x ∈ im) (hneg : x < -1) :
    (vCheckIndexMap im env).isError = true := by
  rw [isError_unit_iff, vCheckIndexMap, ne_eq, checkIndexMap_ok_iff]
  rintro ⟨_, _, mx, mn, _, hmn, hge, _, _, _⟩
  have hmem : x ∈ im.filterMap id := by simpa using hx
  have := listMin_le hmn x hmem
  omega

/-- rule 4: every cell dropped (or no cell at all): the output graph would be empty -/
theorem index_map_all_dropped_rejected (im : List (Option Int)) (env : List Int) (h : ∀ x, some x ∈ im → x < 0) :
    (vCheckIndexMap im env).isError = true := by
  rw [isError_unit_iff, vCheckIndexMap, ne_eq, checkIndexMap_ok_iff]
  rintro ⟨_, _, mx, mn, hmx, _, _, hge, _, _⟩
  have hmem := listMax_mem hmx
  have : some mx ∈ im := by simpa using hmem
  have := h mx this
  omega

/-- rule 5: an output index below the maximum that no cell maps to -/
theorem index_map_gap_rejected (im : List (Option Int)) (env : List Int) (k : Nat) (x : Int) (hx : some x ∈ im)
    (hk : (k : Int) < x) (hmiss : some (k : Int) ∉ im) : (vCheckIndexMap im env).isError = true := by
  rw [isError_unit_iff, vCheckIndexMap, ne_eq, checkIndexMap_ok_iff]
  rintro ⟨_, _, mx, mn, hmx, _, _, _, hpres, _⟩
  have hmem : x ∈ im.filterMap id := by simpa using hx
  have hle := listMax_ge hmx x hmem
  have := hpres k (by omega)
  exact hmiss (by simpa using this)

/-- rule 6: two retained cells of one output node in different environments -/
theorem index_map_mixed_env_rejected (im : List (Option Int)) (env : List Int) (henv : ∀ e ∈ env, e ≠ -2)
    (h : ¬ NoMix ((im.filterMap id).zip env)) : (vCheckIndexMap im env).isError = true :=
  (index_map_rejects_iff im env henv).2 fun hv => h hv.nomix

example : vCheckIndexMap [some 0, some 0, some 1, some (-1)] [0, 0, 1, 1] = .ok () := by decide +kernel
example : (vCheckIndexMap [some 0, some 0, some 2, some (-1)] [0, 0, 1, 1]).isError = true := by decide +kernel   -- index 1 missing
example : (vCheckIndexMap [some 0, some 0, some 1, some (-2)] [0, 0, 1, 1]).isError = true := by decide +kernel   -- below -1
example : (vCheckIndexMap [some (-1), some (-1)] [0, 0]).isError = true := by decide +kernel                      -- empty graph
example : (vCheckIndexMap [some 0, some 0, some 1, some 1] [0, 1, 1, 1]).isError = true := by decide +kernel      -- mixed environments
example : (vCheckIndexMap [some 0, none] [0, 0]).isError = true := by decide +kernel                              -- a float entry

end Strengths.C20
