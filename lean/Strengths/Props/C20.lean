/-
C20 — Invalid input is rejected, never silently accepted.

Spec predicates (`Invalid…`) are written here from the documentation; the model of the code's checks is
`Strengths.Model.Validation` over tables regenerated from the sources (`Gen.Validation`, `Gen.IndexPy`).
-/
import Strengths.Proofs.Validation

namespace Strengths.C20
open Strengths Strengths.Gen

/-! ## Enumerations -/

/-- documented boundary conditions, axes, sampling policies -/
def docAxes : List String := ["x", "y", "z"]
def docBoundary : List String := ["reflecting", "periodical"]
def docPolicies : List String := ["on_t_sample", "on_iteration", "on_interval", "no_sampling"]

theorem enumerations_are_documented :
    pyAxes = docAxes ∧ pyBoundary = docBoundary ∧ pyPolicies = docPolicies := by decide +kernel

theorem policy_rejects_iff (p : String) : (setSamplingPolicy p).isError = true ↔ p ∉ docPolicies := by
  have h : pyPolicies = docPolicies := enumerations_are_documented.2.2
  simp only [setSamplingPolicy, h]
  by_cases hp : docPolicies.contains p = true
  · simp [hp, Res.isError, List.contains_iff_mem.mp hp]
  · have : p ∉ docPolicies := fun hm => hp (List.contains_iff_mem.mpr hm)
    simp [hp, Res.isError, this]

end Strengths.C20
