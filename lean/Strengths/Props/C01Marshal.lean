/-
C01 — the marshalled arrays, decoded by the engine's index formulas, realise the rate law (closes the partial left in
Props/C01.lean: "the step from tables agree pointwise to `eulerDxdt` on the decoded arrays").

`pyMarshal sys U` (Model/Kinetics.lean) is the list-level model of what `LibRDEngine._setup_grid/_setup_graph` hand to the
native initialiser: flat tables `k`, `sub`, `sto`, `D`, `vol`, numbers in the engine's units system `U`.
`netOfArrays A` is what the engine reads out of such tables: `k[e*nr+r]`, `sub[s*nr+r]`, `sto[s*nr+r]`, `D[s*ne+e]`, through
the GENERATED index formulas (`Gen.kIndex`, …) and nothing else.

* `eulerDxdt_congr` : `Compute_dxdt` at entry (i, s) depends on its input only through table reads inside the index ranges
  (`r < n_reactions`, `s' < n_species`, slots `< nSlots i`);
* `marshal_net_*` : inside the ranges the decoded tables are the tables of `netOfPhys (physInU sys U …)` — the physical
  system `sys` denotes, expressed in `U` (`marshal_read_k/sub/sto/D`, `split_layout`);
* `marshal_euler_eq_rate_graph`, `marshal_euler_eq_rate_grid` : for EVERY system, units system, state, valid graph / grid and
  free entry:   eulerDxdt (decoded marshal) x i s = rate (physInU sys U …) x s i ;
* `marshal_euler_step_graph`, `marshal_euler_step_grid` : one Euler step of the engine on the decoded arrays is x + dt·rate x;
* `physInU_si` + `marshal_euler_eq_rate_graph_si` / `_grid_si`: when `U` is the SI system (all factors 1) this is the rate law of
  `physOfPy sys`, the same `Phys` the Python kinetics theorems (`kinetics_eq_rate_*`) speak about.
For a general `U` the link `physInU sys U = scalePhys a b c (physOfPy sys)` (hence, with `C04.rate_homogeneous`, the SI rate
divided by the factor of amount/time) needs every stored constant to carry the dimension `kfDim` / diffusion / volume — which
`buildSystem` establishes but `PySys` alone does not state; it is written down as `marshal_general_units_partial` (the
per-table identities, proved) with the missing assembly step named there.
-/
import Strengths.Props.C01
import Strengths.Props.C04

namespace Strengths.C01
open Strengths Strengths.Gen Strengths.Spec

/-! ## what the engine reads out of the marshalled arrays -/

-- `netOfArrays`, `engOfArraysGraph`, `engOfArraysGrid`, `edgesInU` are defined in Model/Kinetics.lean (driver op `marshal_dxdt`)

/-- the physical system a Python system denotes, every number expressed in the units system `U` -/
def physInU (sys : PySys) (U : Sys) (edge : Nat → Rat) (faces : Nat → List Face) : Phys where
  nSpecies := sys.nSpecies
  nCells := sys.space.size
  nReacs := sys.reactions.length
  reac := fun r =>
    { sub := fun s => (sys.reactions.getD r default).sub.getD s 0
      prod := fun s => (sys.reactions.getD r default).prod.getD s 0
      kf := fun e => (getValueInEnv (sys.reactions.getD r default).kf (sys.envs.getD e "")
        ⟨0, kfDim (natSum (sys.reactions.getD r default).sub)⟩).inU U
      kr := fun e => (getValueInEnv (sys.reactions.getD r default).kr (sys.envs.getD e "")
        ⟨0, kfDim (natSum (sys.reactions.getD r default).prod)⟩).inU U }
  env := sys.space.envOf
  vol := fun i => (sys.space.volOf i).inU U
  edge := edge
  dcoef := fun s e => (getValueInEnv (sys.dcoef.getD s default) (sys.envs.getD e "") ⟨0, Dim.diffusion⟩).inU U
  faces := faces

/-! ## `Compute_dxdt` reads its input only inside the index ranges -/

/-- **congruence**: two engine inputs that agree on the table entries `Compute_dxdt` reads for entry (i, s) — reaction
tables for `r < n_reactions`, `s' < n_species`, the cell's own constants, its slots — give the same derivative -/
theorem eulerDxdt_congr (e e' : EngIn) (x : State) (i s : Nat)
    (hchem : e.chem i s = e'.chem i s)
    (hnr : e.net.nReact = e'.net.nReact) (hns : e.net.nSpecies = e'.net.nSpecies)
    (hsto : ∀ r, r < e.net.nReact → e.net.sto s r = e'.net.sto s r)
    (hsub : ∀ r, r < e.net.nReact → ∀ s', s' < e.net.nSpecies → e.net.sub s' r = e'.net.sub s' r)
    (hk : ∀ r, r < e.net.nReact → e.net.k (e.env i) r = e'.net.k (e'.env i) r)
    (hvol : e.vol i = e'.vol i)
    (hslots : e.topo.nSlots i = e'.topo.nSlots i)
    (hnbr : ∀ n, n < e.topo.nSlots i → e.topo.nbr i n = e'.topo.nbr i n)
    (hkout : ∀ n, n < e.topo.nSlots i → e.topo.kout i s n = e'.topo.kout i s n)
    (hkin : ∀ n, n < e.topo.nSlots i → e.topo.kin i s n = e'.topo.kin i s n) :
    eulerDxdt e x i s = eulerDxdt e' x i s := by
  have hrate : ∀ r, r < e.net.nReact → reactionRate e x i r = reactionRate e' x i r := by
    intro r hr
    unfold reactionRate
    have hord : e.net.order r = e'.net.order r := by
      unfold Net.order
      rw [← hns]
      congr 1
      apply List.map_congr_left
      intro s' hs'
      exact hsub r hr s' (List.mem_range.mp hs')
    have hm : meshKr e i r = meshKr e' i r := by
      unfold meshKr
      rw [hk r hr, hvol, hord]
    rw [hm, ← hns]
    apply List.foldl_ext
    intro acc s' hs'
    rw [hsub r hr s' (List.mem_range.mp hs')]
  unfold eulerDxdt
  rw [hchem]
  by_cases hc : e'.chem i s = true
  · rw [if_pos hc, if_pos hc]
  · rw [if_neg hc, if_neg hc]
    have hreac : (List.range e.net.nReact).foldl (fun acc r => acc + (e.net.sto s r : Rat) * reactionRate e x i r) 0
        = (List.range e'.net.nReact).foldl (fun acc r => acc + (e'.net.sto s r : Rat) * reactionRate e' x i r) 0 := by
      rw [← hnr]
      apply List.foldl_ext
      intro acc r hr
      rw [hsto r (List.mem_range.mp hr), hrate r (List.mem_range.mp hr)]
    show (List.range (e.topo.nSlots i)).foldl _ ((List.range e.net.nReact).foldl _ 0) = (List.range (e'.topo.nSlots i)).foldl _ ((List.range e'.net.nReact).foldl _ 0)
    rw [hreac, ← hslots]
    apply List.foldl_ext
    intro acc n hn
    have hn' := List.mem_range.mp hn
    have hd : diffusionRateDifference e x i s n = diffusionRateDifference e' x i s n := by
      unfold diffusionRateDifference
      rw [hnbr n hn', hkout n hn', hkin n hn']
    rw [hnbr n hn', hd]

/-! ## inside the ranges, the decoded tables are those of the physical system in `U` -/

theorem getD_of_getElem? {α : Type} {l : List α} {n : Nat} {v d : α} (h : l[n]? = some v) : l.getD n d = v := by
  rw [List.getD_eq_getElem?_getD, h]
  rfl

theorem pySplit_length (rs : List PyReaction) : (pySplitReactions rs).length = 2 * rs.length := by
  unfold pySplitReactions
  induction rs with
  | nil => rfl
  | cons a as ih =>
    simp only [List.flatMap_cons, List.length_append, List.length_cons, List.length_nil, ih]
    omega

theorem split_getD (rs : List PyReaction) (q : Nat) (hq : q < rs.length) :
    (pySplitReactions rs).getD (2 * q) default = (rs.getD q default).split.1 ∧
    (pySplitReactions rs).getD (2 * q + 1) default = (rs.getD q default).split.2 := by
  obtain ⟨h1, h2, _⟩ := split_layout rs q hq
  exact ⟨getD_of_getElem? h1, getD_of_getElem? h2⟩

theorem marshal_counts (sys : PySys) (U : Sys) :
    (pyMarshal sys U).ns = sys.nSpecies ∧ (pyMarshal sys U).nr = 2 * sys.reactions.length ∧
    (pyMarshal sys U).nenv = sys.envs.length ∧ (pyMarshal sys U).vol.length = sys.space.size := by
  refine ⟨rfl, pySplit_length sys.reactions, rfl, ?_⟩
  show ((List.range sys.space.size).map _).length = _
  rw [List.length_map, List.length_range]

/-- `mesh_vol[i]` -/
theorem marshal_read_vol (sys : PySys) (U : Sys) (i : Nat) (hi : i < sys.space.size) :
    (pyMarshal sys U).vol.getD i 0 = (sys.space.volOf i).inU U := by
  apply getD_of_getElem?
  show ((List.range sys.space.size).map _)[i]? = _
  rw [List.getElem?_map, List.getElem?_range hi]
  rfl

section Tables
variable (sys : PySys) (U : Sys) (edge : Nat → Rat) (faces : Nat → List Face)

theorem marshal_net_k (e r : Nat) (he : e < sys.envs.length) (hr : r < 2 * sys.reactions.length) :
    (netOfArrays (pyMarshal sys U)).k e r = (netOfPhys (physInU sys U edge faces) sys.envs.length).k e r := by
  have hr' : r < (pySplitReactions sys.reactions).length := by rw [pySplit_length]; exact hr
  have hL : (netOfArrays (pyMarshal sys U)).k e r
      = (getValueInEnv ((pySplitReactions sys.reactions).getD r default).kf (sys.envs.getD e "")
        ⟨0, kfDim (natSum ((pySplitReactions sys.reactions).getD r default).sub)⟩).inU U :=
    getD_of_getElem? (marshal_read_k sys U e r he hr')
  rw [hL]
  rcases Nat.even_or_odd' r with ⟨q, rfl | rfl⟩
  · have hq : q < sys.reactions.length := by omega
    have hev : (2 * q) % 2 = 0 := by omega
    have hd : (2 * q) / 2 = q := by omega
    rw [(split_getD sys.reactions q hq).1]
    simp only [netOfPhys, physInU, hev, hd, if_true]
    rfl
  · have hq : q < sys.reactions.length := by omega
    have hod : ¬ ((2 * q + 1) % 2 = 0) := by omega
    have hd : (2 * q + 1) / 2 = q := by omega
    rw [(split_getD sys.reactions q hq).2]
    simp only [netOfPhys, physInU, hod, hd, if_false]
    rfl

theorem marshal_net_sub (s r : Nat) (hs : s < sys.nSpecies) (hr : r < 2 * sys.reactions.length) :
    (netOfArrays (pyMarshal sys U)).sub s r = (netOfPhys (physInU sys U edge faces) sys.envs.length).sub s r := by
  have hr' : r < (pySplitReactions sys.reactions).length := by rw [pySplit_length]; exact hr
  have hL : (netOfArrays (pyMarshal sys U)).sub s r = ((pySplitReactions sys.reactions).getD r default).sub.getD s 0 :=
    getD_of_getElem? (marshal_read_sub sys U s r hs hr')
  rw [hL]
  rcases Nat.even_or_odd' r with ⟨q, rfl | rfl⟩
  · have hq : q < sys.reactions.length := by omega
    have hev : (2 * q) % 2 = 0 := by omega
    have hd : (2 * q) / 2 = q := by omega
    rw [(split_getD sys.reactions q hq).1]
    simp only [netOfPhys, physInU, hev, hd, if_true]
    rfl
  · have hq : q < sys.reactions.length := by omega
    have hod : ¬ ((2 * q + 1) % 2 = 0) := by omega
    have hd : (2 * q + 1) / 2 = q := by omega
    rw [(split_getD sys.reactions q hq).2]
    simp only [netOfPhys, physInU, hod, hd, if_false]
    rfl

theorem marshal_net_sto (s r : Nat) (hs : s < sys.nSpecies) (hr : r < 2 * sys.reactions.length) :
    (netOfArrays (pyMarshal sys U)).sto s r = (netOfPhys (physInU sys U edge faces) sys.envs.length).sto s r := by
  have hr' : r < (pySplitReactions sys.reactions).length := by rw [pySplit_length]; exact hr
  have hL : (netOfArrays (pyMarshal sys U)).sto s r
      = ((((pySplitReactions sys.reactions).getD r default).prod.getD s 0 : Nat) : Int)
        - ((((pySplitReactions sys.reactions).getD r default).sub.getD s 0 : Nat) : Int) :=
    getD_of_getElem? (marshal_read_sto sys U s r hs hr')
  rw [hL]
  rcases Nat.even_or_odd' r with ⟨q, rfl | rfl⟩
  · have hq : q < sys.reactions.length := by omega
    have hev : (2 * q) % 2 = 0 := by omega
    have hd : (2 * q) / 2 = q := by omega
    rw [(split_getD sys.reactions q hq).1]
    simp only [netOfPhys, physInU, hev, hd, if_true]
    rfl
  · have hq : q < sys.reactions.length := by omega
    have hod : ¬ ((2 * q + 1) % 2 = 0) := by omega
    have hd : (2 * q + 1) / 2 = q := by omega
    rw [(split_getD sys.reactions q hq).2]
    simp only [netOfPhys, physInU, hod, hd, if_false]
    rfl

theorem marshal_net_D (s e : Nat) (hs : s < sys.nSpecies) (he : e < sys.envs.length) :
    (netOfArrays (pyMarshal sys U)).dcoef s e = (netOfPhys (physInU sys U edge faces) sys.envs.length).dcoef s e :=
  getD_of_getElem? (marshal_read_D sys U s e hs he)

end Tables

/-! ## graphs -/

/-- the neighbour listed in a half-edge slot is an endpoint of an edge -/
theorem graphSlots_endpoint (edges : List GEdge) (i n j : Nat) (sfc dst : Rat)
    (h : (graphSlots edges i)[n]? = some (j, sfc, dst)) : ∃ e ∈ edges, j = e.i ∨ j = e.j := by
  have hm : (j, sfc, dst) ∈ graphSlots edges i := List.mem_of_getElem? h
  unfold graphSlots at hm
  rw [List.mem_flatMap] at hm
  obtain ⟨e, he, hmem⟩ := hm
  refine ⟨e, he, ?_⟩
  rw [List.mem_append] at hmem
  rcases hmem with h1 | h1
  · by_cases hc : e.i = i
    · rw [if_pos hc] at h1
      simp only [List.mem_singleton, Prod.mk.injEq] at h1
      exact Or.inr h1.1
    · rw [if_neg hc] at h1
      simp at h1
  · by_cases hc : e.j = i
    · rw [if_pos hc] at h1
      simp only [List.mem_singleton, Prod.mk.injEq] at h1
      exact Or.inl h1.1
    · rw [if_neg hc] at h1
      simp at h1

/-- `Build_mesh_kd` (graph) reads the diffusion table at the environments of the two cells of the slot, and their volumes -/
theorem graphTopo_congr (n n' : Nat) (edges : List GEdge) (net net' : Net) (env : Nat → Nat) (vol vol' edge : Nat → Rat)
    (i s k : Nat) (hDi : net.dcoef s (env i) = net'.dcoef s (env i)) (hVi : vol i = vol' i)
    (hj : ∀ j sfc dst, (graphSlots edges i)[k]? = some (j, sfc, dst) → net.dcoef s (env j) = net'.dcoef s (env j) ∧ vol j = vol' j) :
    (graphTopo n edges net env vol edge).kout i s k = (graphTopo n' edges net' env vol' edge).kout i s k ∧
    (graphTopo n edges net env vol edge).kin i s k = (graphTopo n' edges net' env vol' edge).kin i s k := by
  unfold graphTopo
  simp only
  cases hk : (graphSlots edges i)[k]? with
  | none => exact ⟨rfl, rfl⟩
  | some t =>
    obtain ⟨j, sfc, dst⟩ := t
    obtain ⟨h1, h2⟩ := hj j sfc dst hk
    simp only [hDi, hVi, h1, h2]
    trivial

/-- **graphs**: for every system, every units system `U` of the engine, every state and every free entry of a graph whose
edges join existing nodes and whose nodes carry declared environments, the derivative `Compute_dxdt` computes from the
DECODED marshalled arrays is the rate law of the physical system expressed in `U` -/
theorem marshal_euler_eq_rate_graph (sys : PySys) (U : Sys) (nodes : List PyNode) (edges : List PyEdge)
    (hsp : sys.space = .graph nodes edges) (edge : Nat → Rat) (chem : Nat → Nat → Bool) (x : State) (i s : Nat)
    (hE : ∀ e ∈ edges, e.i < nodes.length ∧ e.j < nodes.length)
    (henv : ∀ j, j < nodes.length → sys.space.envOf j < sys.envs.length)
    (hi : i < nodes.length) (hs : s < sys.nSpecies) (hc : chem i s = false) (hV : (sys.space.volOf i).inU U ≠ 0) :
    eulerDxdt (engOfArraysGraph (pyMarshal sys U) sys.space.envOf (edgesInU U edges) edge chem) x i s
      = rate (physInU sys U edge (fun k => (graphSlots (edgesInU U edges) k).map faceOfSlot)) x.get s i := by
  have hsize : sys.space.size = nodes.length := by rw [hsp]; rfl
  obtain ⟨_, hnr, _, _⟩ := marshal_counts sys U
  rw [← euler_dxdt_eq_rate_graph (physInU sys U edge (fun k => (graphSlots (edgesInU U edges) k).map faceOfSlot)) sys.envs.length
    (edgesInU U edges) chem x i s hV rfl hc]
  have hslotj : ∀ (k j : Nat) (sfc dst : Rat), (graphSlots (edgesInU U edges) i)[k]? = some (j, sfc, dst) → j < nodes.length := by
    intro k j sfc dst hk
    obtain ⟨e', he', hor⟩ := graphSlots_endpoint _ i k j sfc dst hk
    unfold edgesInU at he'
    rw [List.mem_map] at he'
    obtain ⟨e0, he0, rfl⟩ := he'
    rcases hor with h | h
    · rw [h]; exact (hE e0 he0).1
    · rw [h]; exact (hE e0 he0).2
  have hD : ∀ j, j < nodes.length → (netOfArrays (pyMarshal sys U)).dcoef s (sys.space.envOf j)
      = (netOfPhys (physInU sys U edge (fun k => (graphSlots (edgesInU U edges) k).map faceOfSlot)) sys.envs.length).dcoef s (sys.space.envOf j) :=
    fun j hj => marshal_net_D sys U edge _ s _ hs (henv j hj)
  have hvolj : ∀ j, j < nodes.length → (pyMarshal sys U).vol.getD j 0 = (sys.space.volOf j).inU U :=
    fun j hj => marshal_read_vol sys U j (by rw [hsize]; exact hj)
  have htopo : ∀ k, (engOfArraysGraph (pyMarshal sys U) sys.space.envOf (edgesInU U edges) edge chem).topo.kout i s k
        = (engOfPhysGraph (physInU sys U edge (fun k => (graphSlots (edgesInU U edges) k).map faceOfSlot)) sys.envs.length (edgesInU U edges) chem).topo.kout i s k ∧
      (engOfArraysGraph (pyMarshal sys U) sys.space.envOf (edgesInU U edges) edge chem).topo.kin i s k
        = (engOfPhysGraph (physInU sys U edge (fun k => (graphSlots (edgesInU U edges) k).map faceOfSlot)) sys.envs.length (edgesInU U edges) chem).topo.kin i s k := by
    intro k
    exact graphTopo_congr _ _ (edgesInU U edges) _ _ sys.space.envOf _ _ edge i s k (hD i hi) (hvolj i hi)
      (fun j sfc dst hk => ⟨hD j (hslotj k j sfc dst hk), hvolj j (hslotj k j sfc dst hk)⟩)
  apply eulerDxdt_congr
  · rfl
  · exact hnr
  · rfl
  · intro r hr
    exact marshal_net_sto sys U edge _ s r hs (by rw [← hnr]; exact hr)
  · intro r hr s' hs'
    exact marshal_net_sub sys U edge _ s' r hs' (by rw [← hnr]; exact hr)
  · intro r hr
    exact marshal_net_k sys U edge _ _ r (henv i hi) (by rw [← hnr]; exact hr)
  · exact hvolj i hi
  · rfl
  · intro n _; rfl
  · intro n _; exact (htopo n).1
  · intro n _; exact (htopo n).2

/-- one Euler step of the engine on the decoded arrays (graph): `x₁ = x₀ + dt·rate x₀` on free entries -/
theorem marshal_euler_step_graph (sys : PySys) (U : Sys) (nodes : List PyNode) (edges : List PyEdge)
    (hsp : sys.space = .graph nodes edges) (edge : Nat → Rat) (chem : Nat → Nat → Bool) (x : State) (dt : Rat) (i s : Nat)
    (hE : ∀ e ∈ edges, e.i < nodes.length ∧ e.j < nodes.length)
    (henv : ∀ j, j < nodes.length → sys.space.envOf j < sys.envs.length)
    (hi : i < nodes.length) (hs : s < sys.nSpecies) (hc : chem i s = false) (hV : (sys.space.volOf i).inU U ≠ 0) :
    (eulerStep (engOfArraysGraph (pyMarshal sys U) sys.space.envOf (edgesInU U edges) edge chem) dt x) i s
      = x i s + dt * rate (physInU sys U edge (fun k => (graphSlots (edgesInU U edges) k).map faceOfSlot)) x.get s i := by
  show x.get i s + eulerDxdt _ x i s * dt = _
  rw [marshal_euler_eq_rate_graph sys U nodes edges hsp edge chem x i s hE henv hi hs hc hV]
  ring

/-! ## grids -/

section GridMarshal
attribute [local irreducible] engNbr?

/-- `Build_mesh_kd` (grid) reads the diffusion table at the environments of the cell and of the neighbour of the slot -/
theorem gridTopo_congr (g : GridShape) (net net' : Net) (env : Nat → Nat) (h : Rat) (i s n : Nat)
    (hv : g.valid = true) (hi : i < g.size) (hn : n < 6)
    (hD : ∀ j, j < g.size → net.dcoef s (env j) = net'.dcoef s (env j)) :
    (gridTopo g net env h).kout i s n = (gridTopo g net' env h).kout i s n ∧
    (gridTopo g net env h).kin i s n = (gridTopo g net' env h).kin i s n := by
  cases hk : engNbr? g i n with
  | none =>
    constructor
    · show gridKd g net env h i s n = gridKd g net' env h i s n
      unfold gridKd
      rw [hk]
    · show (match engNbr? g i n with | none => 0 | some j => gridKd g net env h j s (oppOf n))
        = (match engNbr? g i n with | none => 0 | some j => gridKd g net' env h j s (oppOf n))
      rw [hk]
  | some j =>
    obtain ⟨hback, hj⟩ := nbr_involutive hv hi hn hk
    constructor
    · rw [gridTopo_kout, gridTopo_kout, gridKd_some g net env h i s n j hk, gridKd_some g net' env h i s n j hk, hD i hi, hD j hj]
    · rw [gridTopo_kin_some g net env h i s n j hk, gridTopo_kin_some g net' env h i s n j hk,
        gridKd_some g net env h j s (oppOf n) i hback, gridKd_some g net' env h j s (oppOf n) i hback, hD i hi, hD j hj]

/-- **grids**: for every system, every units system `U` of the engine, every state and every free entry of a valid grid whose
cells carry declared environments, the derivative `Compute_dxdt` computes from the DECODED marshalled arrays is the rate law of
the physical system expressed in `U` (`h` is the engine's `pow(cell_vol, 1/3)`: `h³ = cell_vol` in `U`) -/
theorem marshal_euler_eq_rate_grid (sys : PySys) (U : Sys) (g : GridShape) (vol : Q) (edgeSI : Rat) (env : List Nat)
    (hsp : sys.space = .grid g vol edgeSI env) (h : Rat) (chem : Nat → Nat → Bool) (x : State) (i s : Nat)
    (hv : g.valid = true) (hh : h ≠ 0) (hV : vol.inU U = h ^ 3)
    (henv : ∀ j, j < g.size → sys.space.envOf j < sys.envs.length)
    (hi : i < g.size) (hs : s < sys.nSpecies) (hc : chem i s = false) :
    eulerDxdt (engOfArraysGrid (pyMarshal sys U) sys.space.envOf g h chem) x i s
      = rate (physInU sys U (fun _ => h) (fun k => gridFaces g.w g.h g.d g.px g.py g.pz h k)) x.get s i := by
  have hsize : sys.space.size = g.size := by rw [hsp]; rfl
  obtain ⟨_, hnr, _, _⟩ := marshal_counts sys U
  have hvol : ∀ j, (physInU sys U (fun _ => h) (fun k => gridFaces g.w g.h g.d g.px g.py g.pz h k)).vol j = h ^ 3 := fun j => by
    show (sys.space.volOf j).inU U = _
    rw [hsp]; exact hV
  rw [← euler_dxdt_eq_rate_grid_all (physInU sys U (fun _ => h) (fun k => gridFaces g.w g.h g.d g.px g.py g.pz h k)) sys.envs.length
    g h chem x i s hv hi hh hvol (fun _ => rfl) rfl hc]
  have hD : ∀ j, j < g.size → (netOfArrays (pyMarshal sys U)).dcoef s (sys.space.envOf j)
      = (netOfPhys (physInU sys U (fun _ => h) (fun k => gridFaces g.w g.h g.d g.px g.py g.pz h k)) sys.envs.length).dcoef s (sys.space.envOf j) :=
    fun j hj => marshal_net_D sys U _ _ s _ hs (henv j hj)
  apply eulerDxdt_congr
  · rfl
  · exact hnr
  · rfl
  · intro r hr
    exact marshal_net_sto sys U _ _ s r hs (by rw [← hnr]; exact hr)
  · intro r hr s' hs'
    exact marshal_net_sub sys U _ _ s' r hs' (by rw [← hnr]; exact hr)
  · intro r hr
    exact marshal_net_k sys U _ _ _ r (henv i hi) (by rw [← hnr]; exact hr)
  · exact marshal_read_vol sys U i (by rw [hsize]; exact hi)
  · rfl
  · intro n _; rfl
  · intro n hn; exact (gridTopo_congr g _ _ sys.space.envOf h i s n hv hi hn hD).1
  · intro n hn; exact (gridTopo_congr g _ _ sys.space.envOf h i s n hv hi hn hD).2

/-- one Euler step of the engine on the decoded arrays (grid): `x₁ = x₀ + dt·rate x₀` on free entries -/
theorem marshal_euler_step_grid (sys : PySys) (U : Sys) (g : GridShape) (vol : Q) (edgeSI : Rat) (env : List Nat)
    (hsp : sys.space = .grid g vol edgeSI env) (h : Rat) (chem : Nat → Nat → Bool) (x : State) (dt : Rat) (i s : Nat)
    (hv : g.valid = true) (hh : h ≠ 0) (hV : vol.inU U = h ^ 3)
    (henv : ∀ j, j < g.size → sys.space.envOf j < sys.envs.length)
    (hi : i < g.size) (hs : s < sys.nSpecies) (hc : chem i s = false) :
    (eulerStep (engOfArraysGrid (pyMarshal sys U) sys.space.envOf g h chem) dt x) i s
      = x i s + dt * rate (physInU sys U (fun _ => h) (fun k => gridFaces g.w g.h g.d g.px g.py g.pz h k)) x.get s i := by
  show x.get i s + eulerDxdt _ x i s * dt = _
  rw [marshal_euler_eq_rate_grid sys U g vol edgeSI env hsp h chem x i s hv hh hV henv hi hs hc]
  ring

end GridMarshal

/-! ## the engine's units system is SI: the same `Phys` as the Python kinetics theorems -/

theorem siFactor_one (U : Sys) (h1 : U.sSpace = 1) (h2 : U.sTime = 1) (h3 : U.sQty = 1) (d : Dim) : siFactor U d = 1 := by
  unfold siFactor
  rw [h1, h2, h3]
  simp

/-- metres, seconds, molecules: every conversion factor is 1 -/
theorem si_sys_factors (d : Dim) : siFactor ⟨"m", "s", "molecule"⟩ d = 1 :=
  siFactor_one _ (by decide +kernel) (by decide +kernel) (by decide +kernel) d

theorem kfDim_eq_krDim (n : Nat) : kfDim n = krDim n := by
  rw [(k_dimension n).1, (k_dimension n).2]

/-- in a units system whose factors are all 1 the numbers ARE the SI values -/
theorem physInU_si (sys : PySys) (U : Sys) (hU : ∀ d, siFactor U d = 1) (faces : Nat → List Face) :
    physInU sys U sys.space.edgeOf faces = physOfPy sys faces := by
  unfold physInU physOfPy kfSI krSI
  simp only [Q.inU, hU, div_one, kfDim_eq_krDim]

theorem edgesInU_si (U : Sys) (hU : ∀ d, siFactor U d = 1) (edges : List PyEdge) (k : Nat) :
    (graphSlots (edgesInU U edges) k).map faceOfSlot = graphFaces (edgesSI edges) k := by
  have := graph_faces_are_slots (edgesInU U edges) k
  rw [← this]
  unfold edgesInU edgesSI
  simp only [List.map_map, Q.inU, hU, div_one]
  rfl

/-- graphs, SI engine units: decoded marshal → `Compute_dxdt` = the rate law of `physOfPy sys` -/
theorem marshal_euler_eq_rate_graph_si (sys : PySys) (U : Sys) (hU : ∀ d, siFactor U d = 1) (nodes : List PyNode) (edges : List PyEdge)
    (hsp : sys.space = .graph nodes edges) (chem : Nat → Nat → Bool) (x : State) (i s : Nat)
    (hE : ∀ e ∈ edges, e.i < nodes.length ∧ e.j < nodes.length)
    (henv : ∀ j, j < nodes.length → sys.space.envOf j < sys.envs.length)
    (hi : i < nodes.length) (hs : s < sys.nSpecies) (hc : chem i s = false) (hV : (sys.space.volOf i).si ≠ 0) :
    eulerDxdt (engOfArraysGraph (pyMarshal sys U) sys.space.envOf (edgesInU U edges) sys.space.edgeOf chem) x i s
      = rate (physOfPy sys (fun k => graphFaces (edgesSI edges) k)) x.get s i := by
  have hV' : (sys.space.volOf i).inU U ≠ 0 := by simpa only [Q.inU, hU, div_one] using hV
  rw [marshal_euler_eq_rate_graph sys U nodes edges hsp sys.space.edgeOf chem x i s hE henv hi hs hc hV', physInU_si sys U hU]
  congr 2
  funext k
  exact edgesInU_si U hU edges k

/-- grids, SI engine units -/
theorem marshal_euler_eq_rate_grid_si (sys : PySys) (U : Sys) (hU : ∀ d, siFactor U d = 1) (g : GridShape) (vol : Q) (edge : Rat)
    (env : List Nat) (hsp : sys.space = .grid g vol edge env) (chem : Nat → Nat → Bool) (x : State) (i s : Nat)
    (hv : g.valid = true) (he : edge ≠ 0) (hV : vol.si = edge ^ 3)
    (henv : ∀ j, j < g.size → sys.space.envOf j < sys.envs.length)
    (hi : i < g.size) (hs : s < sys.nSpecies) (hc : chem i s = false) :
    eulerDxdt (engOfArraysGrid (pyMarshal sys U) sys.space.envOf g edge chem) x i s
      = rate (physOfPy sys (fun k => gridFaces g.w g.h g.d g.px g.py g.pz edge k)) x.get s i := by
  have hV' : vol.inU U = edge ^ 3 := by simpa only [Q.inU, hU, div_one] using hV
  rw [marshal_euler_eq_rate_grid sys U g vol edge env hsp edge chem x i s hv he hV' henv hi hs hc]
  have hedge : (fun _ : Nat => edge) = sys.space.edgeOf := by
    funext j
    rw [hsp]
    rfl
  rw [hedge, physInU_si sys U hU]

/-- **three-way agreement through the marshalled arrays, grids**: the value `compute_dspeciesdt` returns (SI), the rate law, and
the derivative the Euler engine computes from the arrays `LibRDEngine` marshals (decoded by the generated index formulas) -/
theorem kinetics_marshal_euler_agree_grid (sys : PySys) (U : Sys) (hU : ∀ d, siFactor U d = 1) (g : GridShape) (vol : Q) (edge : Rat)
    (env : List Nat) (hsp : sys.space = .grid g vol edge env) (hv : g.valid = true) (hV : vol.si = edge ^ 3) (he : edge ≠ 0)
    (henv : ∀ j, j < g.size → sys.space.envOf j < sys.envs.length)
    (chem : Nat → Nat → Bool) (s i : Nat) (hi : i < g.size) (hs : s < sys.nSpecies) (hc : chem i s = false)
    (x : PyState) (q : Q) (h : pyDspeciesdt sys s i x false = .ok q) :
    eulerDxdt (engOfArraysGrid (pyMarshal sys U) sys.space.envOf g edge chem) (stateOf sys.space.size x) i s = q.si := by
  rw [kinetics_eq_rate_grid sys g vol edge env hsp hv hV s i hi x q h]
  exact marshal_euler_eq_rate_grid_si sys U hU g vol edge env hsp chem (stateOf sys.space.size x) i s hv he hV henv hi hs hc

/-- the same on graphs (the Python loop visits the Spec's interfaces up to order: `hperm`, discharged by `simple_graph_faces`) -/
theorem kinetics_marshal_euler_agree_graph (sys : PySys) (U : Sys) (hU : ∀ d, siFactor U d = 1) (nodes : List PyNode) (edges : List PyEdge)
    (hsp : sys.space = .graph nodes edges)
    (hE : ∀ e ∈ edges, e.i < nodes.length ∧ e.j < nodes.length)
    (henv : ∀ j, j < nodes.length → sys.space.envOf j < sys.envs.length)
    (chem : Nat → Nat → Bool) (s i : Nat) (hi : i < nodes.length) (hs : s < sys.nSpecies) (hc : chem i s = false)
    (hV : (sys.space.volOf i).si ≠ 0) (x : PyState) (q : Q) (h : pyDspeciesdt sys s i x false = .ok q)
    (hperm : (pyFaces nodes.length edges i).Perm (graphFaces (edgesSI edges) i)) :
    eulerDxdt (engOfArraysGraph (pyMarshal sys U) sys.space.envOf (edgesInU U edges) sys.space.edgeOf chem)
      (stateOf sys.space.size x) i s = q.si := by
  rw [kinetics_eq_rate_graph sys nodes edges hsp s i x q h hperm]
  exact marshal_euler_eq_rate_graph_si sys U hU nodes edges hsp chem (stateOf sys.space.size x) i s hE henv hi hs hc hV

/-! ## any engine units system: what is left -/

/-- LEMMA for the any-units theorems (general `U`, SI reading).  `marshal_euler_eq_rate_graph/_grid` above are unconditional
in `U`: the decoded engine computes the rate law of `physInU sys U` — the system's numbers in `U`.  To read that as the SI rate one
needs `hP : physInU sys U … = scalePhys a b c (physOfPy sys …)` with `(a, b, c)` the SI sizes of the three base units of `U`; then
`C04.rate_homogeneous` gives the statement below.  `hP` is DISCHARGED in `Props/C01Units.lean` (`physInU_eq_scalePhys`, from the
explicit dimension invariants `DimWF`), which states the full theorems `marshal_euler_general_units_graph/_grid` and
`kinetics_marshal_euler_agree_*_units`; the name `_partial` is kept because this statement still carries `hP` as a hypothesis. -/
theorem marshal_euler_general_units_partial (e : EngIn) (PU : Phys) (P : Phys) (a b c : Rat) (ha : a ≠ 0) (hb : b ≠ 0) (hc : c ≠ 0)
    (x : State) (xSI : St) (i s : Nat)
    (hdecoded : eulerDxdt e x i s = rate PU x.get s i)
    (hP : PU = C04.scalePhys a b c P) (hx : x.get = fun i s => xSI i s / c) (hV : ∀ j, P.vol j ≠ 0) :
    eulerDxdt e x i s = rate P xSI s i * b / c := by
  rw [hdecoded, hP, hx]
  exact C04.rate_homogeneous a b c ha hb hc P xSI s i hV

end Strengths.C01
