/-
C12 — Dictionary, JSON and file round-trips preserve the model.

Part 1 (this section): obligations on the *generated* key tables (`Strengths.Gen.DictKeys`, regenerated
from every `*_from_dict` / `*_to_dict` / `__init__` of the repository on every run).  A key dropped from a
writer or a reader, a mistyped alias, a changed constructor default … makes one of these fail at build time.
-/
import Strengths.Gen.DictKeys
import Strengths.Proofs.Dict

namespace Strengths.C12
open Strengths.Gen.DictKeys

/-! ## Key tables (G3) -/

/-- every key a reader accepts (all synonyms) -/
def accepted (t : Table) : List String := t.aliases.flatten
/-- the canonical key of every synonym group (the one the reader looks up after `process_input_dict_keys`) -/
def canonical (t : Table) : List String := t.aliases.filterMap List.head?
/-- every key a writer can emit -/
def written (t : Table) : List String := t.emitted ++ t.emittedCond
def ctorParams (t : Table) : List String := t.ctor.map (·.1)

/-- every key a writer emits is accepted by the matching reader — and is the *canonical* key of its
synonym group, so `process_input_dict_keys` leaves a written dictionary unchanged -/
theorem emitted_keys_accepted : ∀ t ∈ all, ∀ k ∈ written t, k ∈ canonical t ∧ k ∈ accepted t := by
  decide +kernel

/-- every constructor parameter is written by the writer and wired back by the reader -/
theorem emitted_keys_cover_ctor :
    ∀ t ∈ all, ∀ p ∈ ctorParams t, ∃ w ∈ t.wiring, w.2 = p ∧ w.1 ∈ written t := by
  decide +kernel

/-- no key belongs to two synonym groups, no group lists a key twice -/
theorem aliases_disjoint : ∀ t ∈ all, (accepted t).Nodup := by decide +kernel

/-- every synonym group is non-empty (so it has a canonical key) -/
theorem alias_groups_nonempty : ∀ t ∈ all, ∀ g ∈ t.aliases, g ≠ [] := by decide +kernel

/-- the reader wires canonical keys onto existing constructor parameters only -/
theorem wiring_sound : ∀ t ∈ all, ∀ w ∈ t.wiring, w.1 ∈ canonical t ∧ w.2 ∈ ctorParams t := by
  decide +kernel

/-- a key the reader insists on is always emitted by the writer -/
theorem mandatory_keys_emitted : ∀ t ∈ all, ∀ k ∈ t.mandatory, k ∈ t.emitted ∧ k ∈ canonical t := by
  decide +kernel

/-- a constructor parameter without default is fed from a key the reader insists on, or from a
`d.get(key, default)` -/
theorem no_default_is_mandatory :
    ∀ t ∈ all, ∀ p ∈ t.ctor, p.2 = none → ∀ w ∈ t.wiring, w.2 = p.1 → w.1 ∈ t.mandatory ∨ w.1 ∈ t.optionalGet := by
  decide +kernel

/-- an optional key (not insisted on, not read with `d.get`) feeds only parameters that have a default -/
theorem optional_keys_have_ctor_default :
    ∀ t ∈ all, ∀ w ∈ t.wiring, w.1 ∉ t.mandatory → w.1 ∉ t.optionalGet →
      ∃ p ∈ t.ctor, p.1 = w.2 ∧ p.2 ≠ none := by
  decide +kernel

/-- the only key a dictionary writer emits conditionally is `units` (graph nodes and edges, omitted when
equal to the graph's), and its reader then inherits the parent's units system -/
theorem conditional_key_is_inherited_units :
    ∀ t ∈ all, t.name ≠ "trajectory" → ∀ k ∈ t.emittedCond, k = "units" ∧ t.unitsDefault = some "inherit" := by
  decide +kernel

/-- every class with a units system reads it from the `units` group with the four documented spellings -/
theorem units_aliases : ∀ t ∈ all, t.unitsDefault ≠ none →
    ["units", "units_system", "units system", "u"] ∈ t.aliases ∧ ("units", "units_system") ∈ t.wiring := by
  decide +kernel

/-! ### Spec: defaults and aliases promised by documentation/json_and_dict_doc.rst and the class docstrings
(written here by hand from the documentation, independently of the code) -/

/-- (table, canonical key, constructor default as written in the documentation, in Python syntax) -/
def documentedDefaults : List (String × String × String) :=
  [("species", "D", "0"), ("species", "density", "0"), ("species", "chstt", "False"),
   ("reaction", "label", "None"), ("reaction", "k+", "0"), ("reaction", "k-", "0"),
   ("grid", "w", "1"), ("grid", "h", "1"), ("grid", "d", "1"), ("grid", "cell_env", "0"), ("grid", "cell_volume", "1"),
   ("system", "state", "None"), ("system", "chemostats", "None"),
   ("script", "time_step", "1e-3"), ("script", "t_max", "\"default\""), ("script", "sampling_policy", "\"on_t_sample\""),
   ("script", "sampling_interval", "1"), ("script", "rng_seed", "None"), ("script", "init_state_processing", "\"auto\"")]

/-- default of the `units` key per class, from the documentation -/
def documentedUnitsDefault : List (String × String) :=
  [("species", "inherit"), ("reaction", "inherit"), ("network", "inherit"), ("grid", "inherit"), ("system", "inherit"),
   ("script", "default")]

/-- aliases promised by the documentation -/
def documentedAliases : List (String × String × List String) :=
  [("species", "label", ["l"]), ("species", "density", ["concentration", "dens", "conc", "C"]),
   ("species", "D", ["diff_coef", "diff coef", "diffusion_coefficient", "diffusion coefficient"]),
   ("species", "chstt", ["chemostat"]), ("species", "units", ["units_system", "units system", "u"]),
   ("reaction", "label", ["l"]), ("reaction", "stoichiometry", ["sto", "equation", "eq"]), ("reaction", "k+", ["kf"]),
   ("reaction", "k-", ["kr"]), ("reaction", "units", ["units_system", "units system", "u"]),
   ("network", "environments", ["env"]), ("network", "units", ["units_system", "units system", "u"]),
   ("grid", "w", ["width"]), ("grid", "h", ["height"]), ("grid", "d", ["depth"]), ("grid", "cell_env", ["cell_environments"]),
   ("grid", "cell_volume", ["cell_vol"]), ("grid", "units", ["units_system", "units system", "u"]),
   ("system", "network", ["rdnetwork"]), ("system", "space", ["rdspace"]), ("system", "units", ["units_system", "units system", "u"]),
   ("script", "units", ["units_system", "units system", "u"])]

def tableNamed (n : String) : Option Table := all.find? (·.name == n)

/-- the constructor default behind every optional documented key is the documented one -/
theorem documented_defaults :
    ∀ e ∈ documentedDefaults, ∃ t, tableNamed e.1 = some t ∧
      ∃ w ∈ t.wiring, w.1 = e.2.1 ∧ (w.2, some e.2.2) ∈ t.ctor ∧ e.2.1 ∉ t.mandatory := by
  decide +kernel

theorem documented_units_default :
    ∀ e ∈ documentedUnitsDefault, ∃ t, tableNamed e.1 = some t ∧ t.unitsDefault = some e.2 := by
  decide +kernel

/-- every documented alias is accepted, in the group of its canonical key -/
theorem documented_aliases_accepted :
    ∀ e ∈ documentedAliases, ∃ t, tableNamed e.1 = some t ∧
      ∃ g ∈ t.aliases, g.head? = some e.2.1 ∧ ∀ a ∈ e.2.2, a ∈ g := by
  decide +kernel

/-- "reactions" may be omitted (documented default `[]`): it is read with `d.get`, not insisted on -/
theorem reactions_optional : "reactions" ∈ network.optionalGet ∧ "reactions" ∉ network.mandatory := by
  decide +kernel

/-- the script dictionary carries all nine constructor parameters, `init_state_processing` included
(seeded fix09 drops it from writer and reader) -/
theorem script_keys_complete :
    script.emitted.length = 9 ∧ "init_state_processing" ∈ script.emitted ∧
    ("init_state_processing", "init_state_processing") ∈ script.wiring := by
  decide +kernel

/-- documented default of `"space"`: `None`, meaning "a default grid whose units system is inherited from the
system".  The reader treats `None` as omitted and fills the constructor argument itself with exactly that grid
(the reverse of repository fix 56b9e03 falls back to the constructor default `RDGridSpace()` in default units). -/
theorem system_space_default_documented :
    "space" ∈ system.noneAsOmitted ∧ ("space", "RDGridSpace(units_system=da[\"units_system\"])") ∈ system.readerDefault ∧
    "space" ∉ system.mandatory := by decide +kernel

/-- a trajectory file may lack a script (`RDTrajectory(..., script=None)` is the constructor default) -/
theorem trajectory_script_optional :
    "script" ∈ trajectory.optionalGet ∧ "script" ∉ trajectory.mandatory ∧ ("script", some "None") ∈ trajectory.ctor := by
  decide +kernel

/-! ## Part 2: the dictionary model (`Model/Dict.lean`: one generic reader / writer over a field schema) -/

open Strengths.Dict
open Strengths Strengths.Gen

/-- the schema of every class is exactly the generated wiring (no parameter lost, none invented), and every
optional key has a constructor default the model understands (`system.space` is the object `RDGridSpace()`,
handled by `systemFromDict`) -/
theorem schema_matches_gen :
    speciesFields.map (fun f => (f.key, f.param)) = [("label", "label"), ("D", "D"), ("density", "density"), ("chstt", "chstt")] ∧
    reactionFields.map (fun f => (f.key, f.param)) = [("label", "label"), ("stoichiometry", "stoichiometry"), ("k+", "kf"), ("k-", "kr")] ∧
    networkFields.map (fun f => (f.key, f.param)) = [("species", "species"), ("reactions", "reactions"), ("environments", "environments")] ∧
    gridFields.map (fun f => (f.key, f.param)) = [("w", "w"), ("h", "h"), ("d", "d"), ("cell_env", "cell_env"), ("cell_volume", "cell_vol"), ("boundary_conditions", "boundary_conditions")] ∧
    nodeFields.map (fun f => (f.key, f.param)) = [("volume", "volume"), ("environment", "environment")] ∧
    edgeFields.map (fun f => (f.key, f.param)) = [("nodes", "i"), ("surface", "surface"), ("distance", "distance")] ∧
    graphFields.map (fun f => (f.key, f.param)) = [("nodes", "nodes"), ("edges", "edges")] ∧
    systemFields.map (fun f => (f.key, f.param)) = [("network", "network"), ("space", "space"), ("state", "state"), ("chemostats", "chemostats")] ∧
    scriptFields.map (fun f => (f.key, f.param)) = [("system", "system"), ("t_sample", "t_sample"), ("time_step", "time_step"), ("t_max", "t_max"),
      ("sampling_policy", "sampling_policy"), ("sampling_interval", "sampling_interval"), ("rng_seed", "rng_seed"),
      ("init_state_processing", "init_state_processing")] := by
  decide +kernel

/-- which keys the model treats as mandatory (no default) — exactly the generated `mandatory` lists, plus
`system.space` whose default is not a literal -/
theorem schema_defaults_resolved :
    (speciesFields ++ reactionFields ++ networkFields ++ gridFields ++ nodeFields ++ edgeFields ++ graphFields ++ systemFields ++ scriptFields).filterMap
      (fun f => if f.dflt.isNone then some f.key else none) =
    ["label", "stoichiometry", "species", "nodes", "nodes", "edges", "network", "space", "system", "t_sample"] := by
  decide +kernel

/-- what every real writer emits (generated key lists) passes `process_input_dict_keys` of the matching
reader unchanged, whatever the values -/
theorem written_dict_passes_keys :
    ∀ t ∈ all, ∀ d : KV, d.map (·.1) = written t → processKeys t.aliases d = .ok d := by
  have h : ∀ t ∈ all, keysRejected t.aliases (written t) = false ∧ keysCanonical t.aliases (written t) = true ∧
      (written t).Nodup := by decide +kernel
  intro t ht d hd
  obtain ⟨h1, h2, h3⟩ := h t ht
  exact processKeys_canonical' t.aliases d (written t) hd h1 h2 h3

/-- `units`: what `unitssystem_to_dict` writes is read back as the same units system -/
theorem units_roundtrip (parent : Sys) (dflt : String) (us : Sys) (h : us.valid = true) :
    readUnits parent dflt (some (sysToJson us)) = .ok us := readUnits_write parent dflt us h

/-- omitted `units`: the parent's system for "inherit", the default system for "default" -/
theorem units_omitted (parent : Sys) :
    readUnits parent "inherit" none = .ok parent ∧ readUnits parent "default" none = .ok Sys.default := ⟨rfl, rfl⟩

/-- a quantity written by `str(UnitValue)` / `format_unitvar_for_save` and read back (number ↦ same number;
units ↦ re-read from the printed text) has the same value, dimension, SI value and prints the same text -/
theorem quantity_roundtrip (us : Sys) (x : UVal) (hp : Printable x.u) :
    readQty us x.u.dim (writeQty x) = .ok (reparse x) ∧
    (reparse x).v = x.v ∧ (reparse x).u.dim = x.u.dim ∧ (reparse x).si = x.si ∧ writeQty (reparse x) = writeQty x :=
  ⟨readQty_write us x.u.dim x hp rfl, reparse_physical hp⟩

/-- per-environment dictionaries: same keys in the same order, every entry as `quantity_roundtrip` -/
theorem env_roundtrip (us : Sys) (dim : Dim) (m : List (String × UVal)) (hk : EnvKeysOK (m.map (·.1)))
    (hq : ∀ p ∈ m, Printable p.2.u ∧ p.2.u.dim = dim) :
    readEnvQty us dim (m.map fun p => (p.1, writeQty p.2)) [] = .ok (m.map fun p => (p.1, reparse p.2)) := by
  have := readEnvQty_write us dim m [] hk (by intro p hp; cases hp) hq
  simpa using this

theorem unit_array_physical (x : UArr) (hp : Printable x.u) :
    (reparseArr x).vs = x.vs ∧ (reparseArr x).u.dim = x.u.dim ∧ (reparseArr x).si = x.si ∧
      writeUArr (reparseArr x) = writeUArr x := reparseArr_physical hp

/-! ### species: the full round trip through the generic reader / writer -/

/-- a constructed species (scalar or per-environment `D` / `density`; Boolean `chstt`) -/
def speciesObj (us : Sys) (l : String) (vD vρ : Val Empty) (b : Bool) : L0 :=
  [("units_system", .sys us), ("label", .str l), ("D", vD), ("density", vρ), ("chstt", .bool b)]

theorem speciesFields_eq : speciesFields =
    [⟨"label", "label", .label, none⟩, ⟨"D", "D", .qtyEnv (.fixed Dim.diffusion), some (.num 0)⟩,
     ⟨"density", "density", .qtyEnv (.fixed Dim.density), some (.num 0)⟩, ⟨"chstt", "chstt", .boolEnv, some (.bool false)⟩] := by
  rfl

/-- `species_from_dict(species_to_dict(s), parent)` is `s` with every quantity re-read from its text — for every
parent units system (the written dictionary carries its own) -/
theorem species_roundtrip (parent us : Sys) (l : String) (vD vρ : Val Empty) (b : Bool)
    (hus : us.valid = true) (hl : validLabel l = true) (hD : QtyEnvOK Dim.diffusion vD) (hρ : QtyEnvOK Dim.density vρ) :
    speciesFromDict parent (speciesToDict (speciesObj us l vD vρ b)) =
      .ok (speciesObj us l (reparseVal vD) (reparseVal vρ) b) := by
  unfold speciesFromDict speciesToDict toDictG
  rw [speciesFields_eq]
  have hsys : objSys (speciesObj us l vD vρ b) = us := rfl
  rw [hsys]
  let kv : KV := [("units", sysToJson us), ("label", .str l), ("D", writeVal noWrite vD),
    ("density", writeVal noWrite vρ), ("chstt", .bool b)]
  show fromDictG DictKeys.species _ parent none _ noChild (.obj kv) = _
  have hpk : processKeys DictKeys.species.aliases kv = .ok kv :=
    processKeys_canonical' _ kv ["units", "label", "D", "density", "chstt"] rfl (by decide +kernel) (by decide +kernel)
      (by decide +kernel)
  have hu : readUnits parent (DictKeys.species.unitsDefault.getD "inherit") (kv.lookup "units") = .ok us :=
    readUnits_write parent _ us hus
  let g : Field → Val Empty := fun f =>
    if f.param == "label" then .str l else if f.param == "D" then reparseVal vD
    else if f.param == "density" then reparseVal vρ else .bool b
  have := fromDictG_written DictKeys.species
    [⟨"label", "label", .label, none⟩, ⟨"D", "D", .qtyEnv (.fixed Dim.diffusion), some (.num 0)⟩,
     ⟨"density", "density", .qtyEnv (.fixed Dim.density), some (.num 0)⟩, ⟨"chstt", "chstt", .boolEnv, some (.bool false)⟩]
    parent none (fun _ => none) noChild kv us g hpk hu (by
    intro f hf
    simp only [List.mem_cons, List.not_mem_nil, or_false] at hf
    rcases hf with rfl | rfl | rfl | rfl
    · show (readKind _ kv .label (.str l)).map _ = _
      have : readKind (⟨us, none, fun _ => none, noChild⟩ : Ctx Empty) kv .label (.str l) =
          if validLabel l then .ok (.str l) else .error .badValue := rfl
      rw [this, hl]; rfl
    · show (readKind _ kv (.qtyEnv (.fixed Dim.diffusion)) (writeVal noWrite vD)).map _ = _
      rw [readKind_qtyEnv_write _ kv Dim.diffusion noWrite vD hD]; rfl
    · show (readKind _ kv (.qtyEnv (.fixed Dim.density)) (writeVal noWrite vρ)).map _ = _
      rw [readKind_qtyEnv_write _ kv Dim.density noWrite vρ hρ]; rfl
    · rfl)
  rw [this]
  rfl

/-- serialising the reloaded species gives the same dictionary -/
theorem species_reserialise (us : Sys) (l : String) (x y : UVal) (b : Bool) (hx : Printable x.u) (hy : Printable y.u) :
    speciesToDict (speciesObj us l (reparseVal (.qty x)) (reparseVal (.qty y)) b) =
      speciesToDict (speciesObj us l (.qty x) (.qty y) b) := by
  have h1 := (reparse_physical hx).2.2.2
  have h2 := (reparse_physical hy).2.2.2
  simp only [speciesToDict, toDictG, speciesFields_eq, speciesObj, reparseVal]
  simp only [List.map, List.lookup, objSys]
  simp [writeVal, h1, h2]

/-! ### omitted keys and aliases at the level of one field -/

/-- an omitted optional key is read exactly as if its constructor default had been written (`defaults`) -/
theorem omitted_key_reads_default {χ} (c : Ctx χ) (d : KV) (f : Field) (j : Json)
    (hom : d.lookup f.key = none) (hd : f.dflt = some j) :
    readField c d f = (readKind c d f.kind j).map fun v => (f.param, v) := by
  simp [readField, hom, hd]

theorem present_key_read {χ} (c : Ctx χ) (d : KV) (f : Field) (j : Json) (h : d.lookup f.key = some j) :
    readField c d f = (readKind c d f.kind j).map fun v => (f.param, v) := by
  simp [readField, h]

/-- an omitted mandatory key is an error -/
theorem omitted_mandatory_key_raises {χ} (c : Ctx χ) (d : KV) (f : Field) (hom : d.lookup f.key = none) (hd : f.dflt = none) :
    readField c d f = .error .badKey := by
  simp [readField, hom, hd]

/-! ### paths -/

/-- absolute paths are kept, relative ones are joined to the base directory of the enclosing file; no base, no change -/
theorem paths (p b : String) :
    pathWithBase p none = p ∧ (isAbsolute p = true → pathWithBase p (some b) = p) ∧
    (isAbsolute p = false → pathWithBase p (some b) = joinPath b p) := by
  refine ⟨rfl, ?_, ?_⟩ <;> intro h <;> simp [pathWithBase, h]

/-- a child given as the path of a JSON file is read exactly as the same dictionary given inline, with the
directory of that file as the base of its own relative paths (`multi_file_equals_inline`) -/
theorem multi_file_equals_inline {χ} (c : Ctx χ) (d : KV) (tag p : String) (kv : KV)
    (hfile : c.fs (pathWithBase p c.base) = some (.obj kv)) :
    readKind c d (.childOrPath tag) (.str p) =
      readKind { c with base := some (basePath (pathWithBase p c.base)) } d (.childOrPath tag) (.obj kv) := by
  show (match c.fs (pathWithBase p c.base) with
    | some j => (c.readChild tag c.us (some (basePath (pathWithBase p c.base))) j).map Val.child
    | none => .error .badValue) = _
  rw [hfile]
  rfl

/-! ### non-vacuity -/

/-- the print/parse hypothesis holds for the units that occur (evaluated; any concrete units can be checked so) -/
theorem printable_examples :
    Printable ⟨⟨"km", "h", "mol"⟩, Dim.diffusion⟩ ∧ Printable ⟨⟨"mm", "min", "nmol"⟩, Dim.density⟩ ∧
    Printable ⟨⟨"cm", "ms", "molecule"⟩, Dim.volume⟩ ∧ Printable ⟨⟨"µm", "s", "molecule"⟩, Dim.time_⟩ ∧
    Printable ⟨⟨"dm", "s", "mmol"⟩, kDim 2⟩ ∧ Printable ⟨⟨"m", "µs", "pmol"⟩, kDim 0⟩ := by
  refine ⟨⟨⟨⟨"km", "h", "molecule"⟩, Dim.diffusion⟩, by decide +kernel, rfl, ?_, by decide +kernel⟩,
    ⟨⟨⟨"mm", "s", "nmol"⟩, Dim.density⟩, by decide +kernel, rfl, ?_, by decide +kernel⟩,
    ⟨⟨⟨"cm", "s", "molecule"⟩, Dim.volume⟩, by decide +kernel, rfl, ?_, by decide +kernel⟩,
    ⟨⟨⟨"µm", "s", "molecule"⟩, Dim.time_⟩, by decide +kernel, rfl, ?_, by decide +kernel⟩,
    ⟨⟨⟨"dm", "s", "mmol"⟩, kDim 2⟩, by decide +kernel, rfl, ?_, by decide +kernel⟩,
    ⟨⟨⟨"m", "µs", "pmol"⟩, kDim 0⟩, by decide +kernel, rfl, ?_, by decide +kernel⟩⟩ <;>
  decide +kernel

example : EnvKeysOK ["cyt", "mem", "default", ""] := ⟨by decide +kernel, by decide +kernel⟩

end Strengths.C12
