/-
C12 — Dictionary, JSON and file round-trips preserve the model.

Part 1 (this section): obligations on the *generated* key tables (`Strengths.Gen.DictKeys`, regenerated
from every `*_from_dict` / `*_to_dict` / `__init__` of the repository on every run).  A key dropped from a
writer or a reader, a mistyped alias, a changed constructor default … makes one of these fail at build time.
-/
import Strengths.Gen.DictKeys

namespace Strengths.C12
open Strengths.Gen.DictKeys

/-! ## Key tables (G3) -/

/-- every key a reader accepts (all synonyms) -/
def accepted (t : Table) : List String := t.aliases.flatten
/-- the canonical key of every synonym group (the one the reader looks up after `process_input_dict_keys`) -/
def canonical (t : Table) : List String := t.aliases.filterMap List.head?
/-- every key a writer can emit -/
def written (t : Table) : List String := t.emitted ++ t.emittedCond
def ctorParams (t : Table) : List String := t.ctor.map (·.1)

/-- every key a writer emits is accepted by the matching reader — and is the *canonical* key of its
synonym group, so `process_input_dict_keys` leaves a written dictionary unchanged -/
theorem emitted_keys_accepted : ∀ t ∈ all, ∀ k ∈ written t, k ∈ canonical t ∧ k ∈ accepted t := by
  decide +kernel

/-- every constructor parameter is written by the writer and wired back by the reader -/
theorem emitted_keys_cover_ctor :
    ∀ t ∈ all, ∀ p ∈ ctorParams t, ∃ w ∈ t.wiring, w.2 = p ∧ w.1 ∈ written t := by
  decide +kernel

/-- no key belongs to two synonym groups, no group lists a key twice -/
theorem aliases_disjoint : ∀ t ∈ all, (accepted t).Nodup := by decide +kernel

/-- every synonym group is non-empty (so it has a canonical key) -/
theorem alias_groups_nonempty : ∀ t ∈ all, ∀ g ∈ t.aliases, g ≠ [] := by decide +kernel

/-- the reader wires canonical keys onto existing constructor parameters only -/
theorem wiring_sound : ∀ t ∈ all, ∀ w ∈ t.wiring, w.1 ∈ canonical t ∧ w.2 ∈ ctorParams t := by
  decide +kernel

/-- a key the reader insists on is always emitted by the writer -/
theorem mandatory_keys_emitted : ∀ t ∈ all, ∀ k ∈ t.mandatory, k ∈ t.emitted ∧ k ∈ canonical t := by
  decide +kernel

/-- a constructor parameter without default is fed from a key the reader insists on, or from a
`d.get(key, default)` -/
theorem no_default_is_mandatory :
    ∀ t ∈ all, ∀ p ∈ t.ctor, p.2 = none → ∀ w ∈ t.wiring, w.2 = p.1 → w.1 ∈ t.mandatory ∨ w.1 ∈ t.optionalGet := by
  decide +kernel

/-- an optional key (not insisted on, not read with `d.get`) feeds only parameters that have a default -/
theorem optional_keys_have_ctor_default :
    ∀ t ∈ all, ∀ w ∈ t.wiring, w.1 ∉ t.mandatory → w.1 ∉ t.optionalGet →
      ∃ p ∈ t.ctor, p.1 = w.2 ∧ p.2 ≠ none := by
  decide +kernel

/-- the only key a dictionary writer emits conditionally is `units` (graph nodes and edges, omitted when
equal to the graph's), and its reader then inherits the parent's units system -/
theorem conditional_key_is_inherited_units :
    ∀ t ∈ all, t.name ≠ "trajectory" → ∀ k ∈ t.emittedCond, k = "units" ∧ t.unitsDefault = some "inherit" := by
  decide +kernel

/-- every class with a units system reads it from the `units` group with the four documented spellings -/
theorem units_aliases : ∀ t ∈ all, t.unitsDefault ≠ none →
    ["units", "units_system", "units system", "u"] ∈ t.aliases ∧ ("units", "units_system") ∈ t.wiring := by
  decide +kernel

/-! ### Spec: defaults and aliases promised by documentation/json_and_dict_doc.rst and the class docstrings
(written here by hand from the documentation, independently of the code) -/

/-- (table, canonical key, constructor default as written in the documentation, in Python syntax) -/
def documentedDefaults : List (String × String × String) :=
  [("species", "D", "0"), ("species", "density", "0"), ("species", "chstt", "False"),
   ("reaction", "label", "None"), ("reaction", "k+", "0"), ("reaction", "k-", "0"),
   ("grid", "w", "1"), ("grid", "h", "1"), ("grid", "d", "1"), ("grid", "cell_env", "0"), ("grid", "cell_volume", "1"),
   ("system", "state", "None"), ("system", "chemostats", "None"),
   ("script", "time_step", "1e-3"), ("script", "t_max", "\"default\""), ("script", "sampling_policy", "\"on_t_sample\""),
   ("script", "sampling_interval", "1"), ("script", "rng_seed", "None"), ("script", "init_state_processing", "\"auto\"")]

/-- default of the `units` key per class, from the documentation -/
def documentedUnitsDefault : List (String × String) :=
  [("species", "inherit"), ("reaction", "inherit"), ("network", "inherit"), ("grid", "inherit"), ("system", "inherit"),
   ("script", "default")]

/-- aliases promised by the documentation -/
def documentedAliases : List (String × String × List String) :=
  [("species", "label", ["l"]), ("species", "density", ["concentration", "dens", "conc", "C"]),
   ("species", "D", ["diff_coef", "diff coef", "diffusion_coefficient", "diffusion coefficient"]),
   ("species", "chstt", ["chemostat"]), ("species", "units", ["units_system", "units system", "u"]),
   ("reaction", "label", ["l"]), ("reaction", "stoichiometry", ["sto", "equation", "eq"]), ("reaction", "k+", ["kf"]),
   ("reaction", "k-", ["kr"]), ("reaction", "units", ["units_system", "units system", "u"]),
   ("network", "environments", ["env"]), ("network", "units", ["units_system", "units system", "u"]),
   ("grid", "w", ["width"]), ("grid", "h", ["height"]), ("grid", "d", ["depth"]), ("grid", "cell_env", ["cell_environments"]),
   ("grid", "cell_volume", ["cell_vol"]), ("grid", "units", ["units_system", "units system", "u"]),
   ("system", "network", ["rdnetwork"]), ("system", "space", ["rdspace"]), ("system", "units", ["units_system", "units system", "u"]),
   ("script", "units", ["units_system", "units system", "u"])]

def tableNamed (n : String) : Option Table := all.find? (·.name == n)

/-- the constructor default behind every optional documented key is the documented one -/
theorem documented_defaults :
    ∀ e ∈ documentedDefaults, ∃ t, tableNamed e.1 = some t ∧
      ∃ w ∈ t.wiring, w.1 = e.2.1 ∧ (w.2, some e.2.2) ∈ t.ctor ∧ e.2.1 ∉ t.mandatory := by
  decide +kernel

theorem documented_units_default :
    ∀ e ∈ documentedUnitsDefault, ∃ t, tableNamed e.1 = some t ∧ t.unitsDefault = some e.2 := by
  decide +kernel

/-- every documented alias is accepted, in the group of its canonical key -/
theorem documented_aliases_accepted :
    ∀ e ∈ documentedAliases, ∃ t, tableNamed e.1 = some t ∧
      ∃ g ∈ t.aliases, g.head? = some e.2.1 ∧ ∀ a ∈ e.2.2, a ∈ g := by
  decide +kernel

/-- "reactions" may be omitted (documented default `[]`): it is read with `d.get`, not insisted on -/
theorem reactions_optional : "reactions" ∈ network.optionalGet ∧ "reactions" ∉ network.mandatory := by
  decide +kernel

/-- the script dictionary carries all nine constructor parameters, `init_state_processing` included
(seeded fix09 drops it from writer and reader) -/
theorem script_keys_complete :
    script.emitted.length = 9 ∧ "init_state_processing" ∈ script.emitted ∧
    ("init_state_processing", "init_state_processing") ∈ script.wiring := by
  decide +kernel

/-- documented default of `"space"` is `None` = "a default grid whose units system is inherited from the
system"; the constructor default in the source is the *object* `RDGridSpace()` (default units).  The
difference is a finding of the harness oracle (key `default:system.space`), recorded here as what the source says. -/
theorem system_space_default_in_source : ("space", some "RDGridSpace()") ∈ system.ctor := by decide +kernel

end Strengths.C12
