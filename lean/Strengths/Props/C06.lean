/-
C06 — Unit conversion is exact SI scaling and composes.

Spec (written here, independently of the code's tables): the SI meaning of every supported symbol.
Theorems about the *generated* tables (`Strengths.Gen.Units`, regenerated from units.py on every
run) are proved by kernel evaluation over the whole finite table; the algebraic laws are proved
for all valid unit systems and all integer dimension vectors.
-/
import Strengths.Proofs.Units

namespace Strengths.C06
open Strengths Strengths.Gen

/-! ## Spec: SI meaning of the symbols -/

/-- metric prefixes, incl. the package's `dm…`/`cm…` (deci-milli, centi-milli) spellings -/
def prefixValue : List Char → Option Rat
  | ['k'] => some 1000
  | [] => some 1
  | ['d'] => some (1/10)
  | ['c'] => some (1/100)
  | ['m'] => some (1/1000)
  | ['d', 'm'] => some (1/10000)
  | ['c', 'm'] => some (1/100000)
  | ['µ'] => some (1/1000000)
  | ['n'] => some (1/1000000000)
  | ['p'] => some (1/1000000000000)
  | ['f'] => some (1/1000000000000000)
  | _ => none

def stripSuffix (suf s : List Char) : Option (List Char) :=
  if suf.isSuffixOf s then some (s.take (s.length - suf.length)) else none

/-- Avogadro's number (2019 SI, exact) -/
def avogadroSI : Rat := 602214076 * 10 ^ 15

/-- metres -/
def siSpace (s : List Char) : Option Rat := (stripSuffix ['m'] s).bind prefixValue
/-- seconds -/
def siTime (s : List Char) : Option Rat :=
  if s = ['h'] then some 3600 else if s = ['m', 'i', 'n'] then some 60
  else (stripSuffix ['s'] s).bind prefixValue
/-- molecules -/
def siQty (s : List Char) : Option Rat :=
  if s = "molecule".toList then some 1
  else ((stripSuffix ['m', 'o', 'l'] s).bind prefixValue).map (· * avogadroSI)
/-- cubic metres: litre family = prefix × (1 dm)³ -/
def siVolume (s : List Char) : Option Rat :=
  ((stripSuffix ['L'] s).bind prefixValue).map (· * (1/1000))
/-- molar family = prefix × mol per litre: (molecules, per cubic metre factor) -/
def siMolarQty (s : List Char) : Option Rat :=
  ((stripSuffix ['M'] s).bind prefixValue).map (· * avogadroSI)

/-! ## Obligations on the generated tables (whole-table kernel evaluation) -/

theorem scale_tables_cover_labels :
    spaceScale.map (·.1) = spaceSyms ∧ timeScale.map (·.1) = timeSyms ∧ qtyScale.map (·.1) = qtySyms := by
  decide +kernel

theorem label_lists_nodup : spaceSyms.Nodup ∧ timeSyms.Nodup ∧ qtySyms.Nodup := by decide +kernel

theorem scale_is_SI_space : ∀ p ∈ spaceScale, siSpace p.1.toList = some p.2 := by decide +kernel
theorem scale_is_SI_time : ∀ p ∈ timeScale, siTime p.1.toList = some p.2 := by decide +kernel
theorem scale_is_SI_qty : ∀ p ∈ qtyScale, siQty p.1.toList = some p.2 := by decide +kernel

theorem avogadro_is_SI : avogadro = avogadroSI := by decide +kernel

/-- the supported base symbols are exactly the documented ones -/
theorem supported_symbols :
    spaceSyms = ["km", "m", "dm", "cm", "mm", "dmm", "cmm", "µm", "nm", "pm", "fm"] ∧
    timeSyms = ["h", "min", "s", "ds", "cs", "ms", "µs", "ns", "ps", "fs"] ∧
    qtySyms = ["kmol", "mol", "dmol", "cmol", "mmol", "µmol", "nmol", "pmol", "fmol", "molecule"] ∧
    volumeSyms = ["kL", "L", "mL", "µL", "nL", "pL", "fL"] ∧
    densitySyms.eraseDups = ["kM", "M", "dM", "cM", "mM", "µM", "nM", "pM", "fM"] := by
  decide +kernel

/-- litre family: the cube of the base length the code substitutes is prefix × 10⁻³ m³ -/
theorem litre_family : ∀ s ∈ volumeSyms, ∃ b, volBase.lookup s = some b ∧ b ∈ spaceSyms ∧
    some ((scaleIn spaceScale b) ^ 3) = siVolume s.toList := by decide +kernel

/-- molar family: prefix-mol per cubic decimetre -/
def molarOk (s : String) : Bool :=
  match concBase.lookup s with
  | some (q, sp) => qtySyms.contains q && sp == "dm" && (some (scaleIn qtyScale q) == siMolarQty s.toList)
  | none => false
theorem molar_family : ∀ s ∈ densitySyms, molarOk s = true := by decide +kernel

/-- derived units enter with exponent ×3 (volume) and (×−3 space, ×1 amount) (concentration) -/
theorem derived_unit_exponents :
    addUnit_space = [("space", 1)] ∧ addUnit_time = [("time", 1)] ∧ addUnit_quantity = [("quantity", 1)] ∧
    addUnit_volume = [("space", 3)] ∧ addUnit_density = [("space", -3), ("quantity", 1)] := by
  decide +kernel

theorem default_system_valid : Sys.default.valid = true := by decide +kernel
theorem default_system_is_um_s_molecule : Sys.default = ⟨"µm", "s", "molecule"⟩ := by decide +kernel

/-! ## Conversion laws, for all valid systems and all integer dimension vectors -/

/-- the factor is `∏_k (src_k/dst_k)^dim_k` (this is the definition the code realises; G1 anchors
the formula) and equals the ratio of SI values -/
theorem conv_factor_def (U V : Sys) (d : Dim) :
    convFactor U V d = (U.sSpace / V.sSpace) ^ d.space * (U.sTime / V.sTime) ^ d.time * (U.sQty / V.sQty) ^ d.qty ∧
    convFactor U V d = siFactor U d / siFactor V d :=
  ⟨rfl, convFactor_eq_div U V d⟩

theorem conv_id {U : Sys} (hU : U.valid = true) (d : Dim) : convFactor U U d = 1 := convFactor_self hU d

theorem conv_comp (U : Sys) {V : Sys} (hV : V.valid = true) (W : Sys) (d : Dim) :
    convFactor U V d * convFactor V W d = convFactor U W d := convFactor_comp U hV W d

theorem conv_inv {U V : Sys} (hU : U.valid = true) (hV : V.valid = true) (d : Dim) :
    convFactor U V d * convFactor V U d = 1 := convFactor_inv hU hV d

theorem conv_pos {U V : Sys} (hU : U.valid = true) (hV : V.valid = true) (d : Dim) :
    0 < convFactor U V d := convFactor_pos hU hV d

/-! ### Exponents far outside the everyday range (mol¹³, fm⁻²¹, nm³⁶)

The property quantifies over *all* integer dimension vectors.  The factor of a large exponent is determined by the
factors of small ones (`conv_factor_dim_add`, `conv_factor_dim_smul`): it is a power of the per-unit ratio
`src/dst`, never a quotient of two separately raised scales (which leave every bounded number range long before the
ratio does).  A base on which source and destination agree contributes nothing, whatever its exponent. -/

/-- the factor of a sum of dimension vectors is the product of the factors -/
theorem conv_factor_dim_add {U V : Sys} (hU : U.valid = true) (hV : V.valid = true) (d e : Dim) :
    convFactor U V (d.add e) = convFactor U V d * convFactor U V e := by
  have h1 : U.sSpace / V.sSpace ≠ 0 := div_ne_zero (Sys.sSpace_ne hU) (Sys.sSpace_ne hV)
  have h2 : U.sTime / V.sTime ≠ 0 := div_ne_zero (Sys.sTime_ne hU) (Sys.sTime_ne hV)
  have h3 : U.sQty / V.sQty ≠ 0 := div_ne_zero (Sys.sQty_ne hU) (Sys.sQty_ne hV)
  simp only [convFactor, Dim.add, zpow_add₀ h1, zpow_add₀ h2, zpow_add₀ h3]
  ac_rfl

/-- the factor of `n·d` is the `n`-th power of the factor of `d` (any integer `n`, also negative) -/
theorem conv_factor_dim_smul (U V : Sys) (n : Int) (d : Dim) :
    convFactor U V (Dim.smul n d) = (convFactor U V d) ^ n := by
  simp only [convFactor, Dim.smul, mul_zpow, ← zpow_mul, mul_comm n]

/-- a base on which source and destination carry the same unit contributes nothing, whatever its exponent:
the factor of (n, b, c) is the factor of (0, b, c) -/
theorem conv_factor_same_base {U V : Sys} (hU : U.valid = true) (d : Dim) (n : Int) :
    (U.space = V.space → convFactor U V ⟨n, d.time, d.qty⟩ = convFactor U V ⟨0, d.time, d.qty⟩) ∧
    (U.time = V.time → convFactor U V ⟨d.space, n, d.qty⟩ = convFactor U V ⟨d.space, 0, d.qty⟩) ∧
    (U.qty = V.qty → convFactor U V ⟨d.space, d.time, n⟩ = convFactor U V ⟨d.space, d.time, 0⟩) := by
  refine ⟨fun h => ?_, fun h => ?_, fun h => ?_⟩
  · have : U.sSpace / V.sSpace = 1 := by
      rw [show V.sSpace = U.sSpace by simp [Sys.sSpace, h]]; exact div_self (Sys.sSpace_ne hU)
    simp [convFactor, this]
  · have : U.sTime / V.sTime = 1 := by
      rw [show V.sTime = U.sTime by simp [Sys.sTime, h]]; exact div_self (Sys.sTime_ne hU)
    simp [convFactor, this]
  · have : U.sQty / V.sQty = 1 := by
      rw [show V.sQty = U.sQty by simp [Sys.sQty, h]]; exact div_self (Sys.sQty_ne hU)
    simp [convFactor, this]

/-- validity hypothesis on a conversion target: the object forms carry a valid system (an invariant
of `UnitsSystem`, whose setters check the symbol); text and dict forms are validated by the code. -/
def _root_.Strengths.Target.wf : Target → Prop
  | .units u => u.sys.valid = true
  | .uval x => x.u.sys.valid = true
  | .sys s => s.valid = true
  | _ => True

theorem parseUnits_valid {s : String} {u : Units} (h : parseUnits s = .ok u) : u.sys.valid = true := by
  simp only [parseUnits, parseUnitsChars, parseUnitsCore] at h
  split at h
  · cases h; exact default_system_valid
  · split at h
    · cases h
    · split at h
      · cases h
      · split at h
        · cases h
        · split at h
          · cases h; assumption
          · cases h

/-- every accepted target form yields a *valid* destination system (or raises) -/
theorem targetSys_valid {d : Dim} {t : Target} {s : Sys} (ht : t.wf)
    (h : targetSys d t = .ok s) : s.valid = true := by
  cases t with
  | str str =>
    simp only [targetSys] at h
    split at h
    · cases h
    · rename_i u hu
      split at h
      · cases h
      · cases h; exact parseUnits_valid hu
  | units u =>
    simp only [targetSys] at h
    split at h
    · cases h
    · cases h; exact ht
  | uval x =>
    simp only [targetSys] at h
    split at h
    · cases h
    · cases h; exact ht
  | sys s' => simp only [targetSys] at h; cases h; exact ht
  | dict dd =>
    simp only [targetSys, sysFromDict] at h
    split at h
    · cases h
    · exact mkSys_valid h

/-- conversion (any target form) keeps the dimension and the SI value -/
theorem convert_preserves {x y : UVal} {t : Target} (ht : t.wf)
    (h : x.convert t = .ok y) : y.u.dim = x.u.dim ∧ y.si = x.si ∧ y.u.sys.valid = true := by
  simp only [UVal.convert] at h
  split at h
  · cases h
  · rename_i s hs
    cases h
    have hv := targetSys_valid ht hs
    refine ⟨rfl, ?_, hv⟩
    simp only [UVal.si, convFactor_eq_div]
    have := siFactor_ne hv x.u.dim
    field_simp

/-- arrays: element-wise the same -/
theorem convert_array_preserves {x y : UArr} {t : Target} (ht : t.wf)
    (h : x.convert t = .ok y) : y.u.dim = x.u.dim ∧ y.si = x.si ∧ y.vs.length = x.vs.length := by
  simp only [UArr.convert] at h
  split at h
  · cases h
  · rename_i s hs
    cases h
    have hv := targetSys_valid ht hs
    refine ⟨rfl, ?_, by simp⟩
    simp only [UArr.si, List.map_map, convFactor_eq_div]
    apply List.map_congr_left
    intro a _
    have := siFactor_ne hv x.u.dim
    simp only [Function.comp]
    field_simp

/-- the value returned is the SI value re-expressed in the destination unit: `v · ∏ (src/dst)^dim` -/
theorem convert_value {x y : UVal} {t : Target} (h : x.convert t = .ok y) :
    y.v = x.v * convFactor x.u.sys y.u.sys x.u.dim := by
  simp only [UVal.convert] at h
  split at h
  · cases h
  · cases h; rfl

/-- converting there and back is the identity (exactly, over ℚ) -/
theorem convert_roundtrip {U : Sys} (x : UVal) (hx : x.u.sys.valid = true) (hU : U.valid = true) :
    (x.toSys U).toSys x.u.sys = x := by
  cases x with | mk v u =>
  simp only [UVal.toSys]
  congr 1
  rw [mul_assoc, convFactor_inv hx hU, mul_one]

/-- converting through an intermediate system equals converting directly -/
theorem convert_through {V W : Sys} (x : UVal) (hV : V.valid = true) :
    (x.toSys V).toSys W = x.toSys W := by
  simp only [UVal.toSys]
  congr 1
  rw [mul_assoc, convFactor_comp _ hV]

/-- converting to the same system is the identity -/
theorem convert_same (x : UVal) (hx : x.u.sys.valid = true) : x.toSys x.u.sys = x := by
  cases x with | mk v u =>
  simp only [UVal.toSys, convFactor_self hx, mul_one]

/-- conversion to a different dimension raises (string, Units and UnitValue targets) -/
theorem convert_other_dim_raises (x : UVal) (u : Units) (h : u.dim ≠ x.u.dim) :
    x.convert (.units u) = .error .dimMismatch ∧
    x.convert (.uval ⟨1, u⟩) = .error .dimMismatch ∧
    (∀ s, parseUnits s = .ok u → x.convert (.str s) = .error .dimMismatch) := by
  refine ⟨?_, ?_, ?_⟩
  · simp [UVal.convert, targetSys, h]
  · simp [UVal.convert, targetSys, h]
  · intro s hs
    simp [UVal.convert, targetSys, hs, h]

/-! ## Non-vacuity: concrete instances of the hypotheses and of a non-trivial conversion -/

example : (⟨"km", "h", "mol"⟩ : Sys).valid = true ∧ (⟨"µm", "s", "molecule"⟩ : Sys).valid = true := by
  decide +kernel

/-- 1 mol/L = 602214076 molecule/µm³ -/
example : convFactor ⟨"dm", "s", "mol"⟩ ⟨"µm", "s", "molecule"⟩ ⟨-3, 0, 1⟩ = 602214076 := by
  have h1 : (⟨"dm", "s", "mol"⟩ : Sys).sSpace = 1/10 := by decide +kernel
  have h2 : (⟨"µm", "s", "molecule"⟩ : Sys).sSpace = 1/1000000 := by decide +kernel
  have h3 : (⟨"dm", "s", "mol"⟩ : Sys).sTime = 1 := by decide +kernel
  have h4 : (⟨"µm", "s", "molecule"⟩ : Sys).sTime = 1 := by decide +kernel
  have h5 : (⟨"dm", "s", "mol"⟩ : Sys).sQty = 602214076000000000000000 := by decide +kernel
  have h6 : (⟨"µm", "s", "molecule"⟩ : Sys).sQty = 1 := by decide +kernel
  simp only [convFactor, h1, h2, h3, h4, h5, h6]
  norm_num [zpow_ofNat]

/-- a large exponent: mol¹³ → mmol¹³ is 10³⁹ exactly (Avogadro's number cancels; (6.02…·10²³)¹³ is never formed),
and mol¹³ → mol¹³ is 1 -/
example : convFactor ⟨"µm", "s", "mol"⟩ ⟨"µm", "s", "mmol"⟩ ⟨0, 0, 13⟩ = 10 ^ 39 ∧
    convFactor ⟨"µm", "s", "mol"⟩ ⟨"µm", "s", "mol"⟩ ⟨0, 0, 13⟩ = 1 := by
  have h3 : (⟨"µm", "s", "mol"⟩ : Sys).sTime = 1 := by decide +kernel
  have h4 : (⟨"µm", "s", "mmol"⟩ : Sys).sTime = 1 := by decide +kernel
  have h1 : (⟨"µm", "s", "mol"⟩ : Sys).sSpace = 1/1000000 := by decide +kernel
  have h2 : (⟨"µm", "s", "mmol"⟩ : Sys).sSpace = 1/1000000 := by decide +kernel
  have h5 : (⟨"µm", "s", "mol"⟩ : Sys).sQty = 602214076000000000000000 := by decide +kernel
  have h6 : (⟨"µm", "s", "mmol"⟩ : Sys).sQty = 602214076000000000000 := by decide +kernel
  constructor
  · simp only [convFactor, h1, h2, h3, h4, h5, h6]
    norm_num [zpow_ofNat]
  · exact conv_id (by decide +kernel) _

example : parseUnits "km/h" =.ok ⟨⟨"km", "h", "molecule"⟩, ⟨1, -1, 0⟩⟩ := by decide +kernel

end Strengths.C06
