/-
C15 — Grid geometry is consistent everywhere, and a grid equals its graph.

All statements are for ALL grid shapes `w, h, d ≥ 1` and all 8 boundary settings.  The formulas
(`cellIndexArr`, `cellCoordX`, `withinBounds*`, `areNbr*`, `getNbrRules`, `kin*`, `g2g*`,
`dirDelta`, `wrapAxis*`, `oppDir`, …) are regenerated from the sources on every run, so a change to
any of them breaks the theorem that talks about it.

Spec (written here, independently of the code): `cellOf`, `namesCell`, `axisAdj`, `faceAdj`.
-/
import Strengths.Proofs.Grid

namespace Strengths.C15
open Strengths Strengths.Gen

/-! ## Spec -/

/-- the property's index formula -/
def cellOf (g : GridShape) (x y z : Int) : Int := z * g.w * g.h + y * g.w + x

def inGrid (g : GridShape) (x y z : Int) : Prop := (0 ≤ x ∧ x < g.w) ∧ (0 ≤ y ∧ y < g.h) ∧ (0 ≤ z ∧ z < g.d)

/-- a position names a cell -/
def namesCell (g : GridShape) : Pos → Prop
  | .num p => 0 ≤ p ∧ p < (g.w : Int) * g.h * g.d
  | .arr x y z => inGrid g x y z
  | .obj x y z => inGrid g x y z

/-- two coordinates of one axis of length `n` are adjacent: they differ by one, or (periodic axis)
they are the two ends -/
def axisAdj (per : Bool) (n a b : Int) : Prop :=
  b = a + 1 ∨ a = b + 1 ∨ (per = true ∧ ((a = 0 ∧ b = n - 1) ∨ (b = 0 ∧ a = n - 1)))

/-- face adjacency: exactly one axis differs, by an adjacent step -/
def faceAdj (g : GridShape) (c1 c2 : Int × Int × Int) : Prop :=
  (axisAdj g.px g.w c1.1 c2.1 ∧ c1.2.1 = c2.2.1 ∧ c1.2.2 = c2.2.2) ∨
  (c1.1 = c2.1 ∧ axisAdj g.py g.h c1.2.1 c2.2.1 ∧ c1.2.2 = c2.2.2) ∨
  (c1.1 = c2.1 ∧ c1.2.1 = c2.2.1 ∧ axisAdj g.pz g.d c1.2.2 c2.2.2)

/-! ## positions outside the grid are rejected (three position forms) -/

theorem bounds_num_iff (size p : Int) : withinBoundsNum size p = true ↔ 0 ≤ p ∧ p < size := by
  simp [withinBoundsNum]

theorem bounds_arr_iff (w h d x y z : Int) :
    withinBoundsArr w h d x y z = true ↔ (0 ≤ x ∧ x < w) ∧ (0 ≤ y ∧ y < h) ∧ (0 ≤ z ∧ z < d) := by
  simp [withinBoundsArr, and_assoc]

theorem bounds_obj_iff (w h d x y z : Int) :
    withinBoundsObj w h d x y z = true ↔ (0 ≤ x ∧ x < w) ∧ (0 ≤ y ∧ y < h) ∧ (0 ≤ z ∧ z < d) := by
  simp [withinBoundsObj, and_assoc]

/-- `is_within_bounds(position)` ↔ the position names a cell -/
theorem within_bounds_iff (g : GridShape) (pos : Pos) : pyWithinBounds g pos = true ↔ namesCell g pos := by
  cases pos with
  | num p => simp only [pyWithinBounds, namesCell, bounds_num_iff, gridSize]
  | arr x y z => simp only [pyWithinBounds, namesCell, inGrid, bounds_arr_iff]
  | obj x y z => simp only [pyWithinBounds, namesCell, inGrid, bounds_obj_iff]

/-- both accessors are guarded by `is_within_bounds` -/
theorem accessors_guarded : cellIndexGuarded = true ∧ cellCoordsGuarded = true ∧ areNbrGuards = 2 := by decide

/-- `get_cell_index(position)` raises iff the position does not name a cell -/
theorem bounds_reject (g : GridShape) (pos : Pos) :
    (pyCellIndex g pos).isError = true ↔ ¬ namesCell g pos := by
  rw [← within_bounds_iff]
  unfold pyCellIndex
  simp only [accessors_guarded.1, Bool.not_true, Bool.false_or]
  cases h : pyWithinBounds g pos <;> cases pos <;> simp [Res.isError]

/-- `get_cell_coordinates(i)` raises iff `i` is not a cell index -/
theorem bounds_reject_coords (g : GridShape) (i : Int) :
    (pyCoords g i).isError = true ↔ ¬ (0 ≤ i ∧ i < (g.w : Int) * g.h * g.d) := by
  unfold pyCoords
  simp only [accessors_guarded.2.1, Bool.not_true, Bool.false_or]
  rw [← bounds_num_iff, gridSize]
  cases withinBoundsNum (g.w * g.h * g.d) i <;> simp [Res.isError]

/-! ## index = z·w·h + y·w + x, in bijection with the coordinates -/

/-- the three accepted position forms give the property's index -/
theorem index_formula (g : GridShape) {x y z : Int} (h : inGrid g x y z) :
    pyCellIndex g (.arr x y z) = .ok (cellOf g x y z) ∧ pyCellIndex g (.obj x y z) = .ok (cellOf g x y z) ∧
    pyCellIndex g (.num (cellOf g x y z)) = .ok (cellOf g x y z) := by
  have hr := encode_range h.1.1 h.1.2 h.2.1.1 h.2.1.2 h.2.2.1 h.2.2.2
  have e : cellOf g x y z = x + y * g.w + z * (g.w * g.h) := by unfold cellOf; ring
  refine ⟨?_, ?_, ?_⟩
  · have : pyWithinBounds g (.arr x y z) = true := (within_bounds_iff g _).2 h
    simp only [pyCellIndex, this, Bool.or_true, if_true, cellIndexArr, cellOf]; congr 1; ring
  · have : pyWithinBounds g (.obj x y z) = true := (within_bounds_iff g _).2 h
    simp only [pyCellIndex, this, Bool.or_true, if_true, cellIndexObj, cellOf]; congr 1; ring
  · have : pyWithinBounds g (.num (cellOf g x y z)) = true := (within_bounds_iff g _).2 (by rw [namesCell, e]; exact hr)
    simp only [pyCellIndex, this, Bool.or_true, if_true, cellIndexNum]

/-- coordinates → index → coordinates -/
theorem coords_index (g : GridShape) {x y z : Int} (h : inGrid g x y z) :
    pyCoords g (cellOf g x y z) = .ok (x, y, z) := by
  have hw : (0 : Int) < g.w := by have := h.1; omega
  have hh : (0 : Int) < g.h := by have := h.2.1; omega
  have hr := encode_range h.1.1 h.1.2 h.2.1.1 h.2.1.2 h.2.2.1 h.2.2.2
  have e : cellOf g x y z = x + y * g.w + z * (g.w * g.h) := by unfold cellOf; ring
  obtain ⟨d1, d2, d3⟩ := decode_encode (z := z) hw h.1.1 h.1.2 h.2.1.1 h.2.1.2
  have hwb : withinBoundsNum (gridSize g.w g.h g.d) (cellOf g x y z) = true := by
    rw [bounds_num_iff, gridSize, e]; exact hr
  have hwh : (0 : Int) ≤ g.w * g.h := by have := Int.mul_pos hw hh; omega
  rw [e] at hwb ⊢
  simp only [pyCoords, hwb, Bool.or_true, if_true, cellCoordX, cellCoordY, cellCoordZ]
  rw [Int.fmod_eq_emod_of_nonneg _ (by omega), Int.fmod_eq_emod_of_nonneg _ hwh,
    Int.tdiv_eq_ediv_of_nonneg (Int.emod_nonneg _ (by have := Int.mul_pos hw hh; omega)),
    Int.tdiv_eq_ediv_of_nonneg hr.1, d1, d2, d3]

/-- index → coordinates → index: every cell index has in-grid coordinates whose index it is -/
theorem index_coords (g : GridShape) (hv : g.valid = true) {i : Int} (h0 : 0 ≤ i) (h1 : i < (g.w : Int) * g.h * g.d) :
    ∃ x y z, pyCoords g i = .ok (x, y, z) ∧ inGrid g x y z ∧ cellOf g x y z = i := by
  obtain ⟨hw, hh, hd⟩ := GridShape.valid_pos hv
  obtain ⟨hx, hy, hz, hsum⟩ := encode_decode hw hh h0 h1
  have hwb : withinBoundsNum (gridSize g.w g.h g.d) i = true := by rw [bounds_num_iff, gridSize]; exact ⟨h0, h1⟩
  have hwh : (0 : Int) < g.w * g.h := Int.mul_pos hw hh
  refine ⟨i % g.w, i % (g.w * g.h) / g.w, i / (g.w * g.h), ?_, ⟨hx, hy, hz⟩, ?_⟩
  · simp only [pyCoords, hwb, Bool.or_true, if_true, cellCoordX, cellCoordY, cellCoordZ]
    rw [Int.fmod_eq_emod_of_nonneg _ (by omega), Int.fmod_eq_emod_of_nonneg _ (by omega),
      Int.tdiv_eq_ediv_of_nonneg (Int.emod_nonneg _ (by omega)), Int.tdiv_eq_ediv_of_nonneg h0]
  · have e : ∀ X Y Z : Int, Z * ↑g.w * ↑g.h + Y * ↑g.w + X = X + Y * ↑g.w + Z * (↑g.w * ↑g.h) := fun _ _ _ => by ring
    unfold cellOf; rw [e]; exact hsum

/-- distinct in-grid coordinates have distinct indices -/
theorem index_injective (g : GridShape) {x y z x' y' z' : Int} (h : inGrid g x y z) (h' : inGrid g x' y' z')
    (e : cellOf g x y z = cellOf g x' y' z') : x = x' ∧ y = y' ∧ z = z' := by
  have hw : (0 : Int) < g.w := by have := h.1; omega
  refine encode_inj (w := g.w) (h := g.h) hw h.1.1 h.1.2 h.2.1.1 h.2.1.2 h'.1.1 h'.1.2 h'.2.1.1 h'.2.1.2 ?_
  unfold cellOf at e; linarith

/-! ## the neighbour relation of `are_neighbors` -/

/-- symmetric -/
theorem are_neighbors_symm (g : GridShape) (c1 c2 : Int × Int × Int) :
    areNbrCoords g c1 c2 = areNbrCoords g c2 c1 := by
  have s : ∀ p q : Int, Int.natAbs (p - q) = Int.natAbs (q - p) := fun p q => by omega
  simp only [areNbrCoords, areNbrDist0, areNbrDist1, areNbrDist2, s c1.1 c2.1, s c1.2.1 c2.2.1, s c1.2.2 c2.2.2]

/-- `are_neighbors` on positions is symmetric, including which calls raise -/
theorem are_neighbors_symm_pos (g : GridShape) (p1 p2 : Pos) (b : Bool)
    (h : pyAreNeighbors g p1 p2 = .ok b) : pyAreNeighbors g p2 p1 = .ok b := by
  unfold pyAreNeighbors at h ⊢
  simp only [accessors_guarded.2.2] at h ⊢
  cases h1 : pyWithinBounds g p1 <;> cases h2 : pyWithinBounds g p2 <;> simp [h1, h2] at h ⊢
  cases e1 : pyCellIndex g p1 <;> simp [e1] at h ⊢
  rename_i i1
  cases f1 : pyCoords g i1 <;> simp [f1] at h ⊢
  cases e2 : pyCellIndex g p2 <;> simp [e2] at h ⊢
  rename_i c1 i2
  cases f2 : pyCoords g i2 <;> simp [f2] at h ⊢
  rw [are_neighbors_symm]; exact h

private theorem axis_dist_iff {per : Bool} {n a b : Int} (ha : 0 ≤ a ∧ a < n) (hb : 0 ≤ b ∧ b < n) :
    let dd : Int := Int.ofNat (Int.natAbs (a - b))
    let w : Int := if per = true then min dd (Int.ofNat (Int.natAbs (n - dd))) else dd
    (w = 0 ↔ a = b) ∧ (w = 1 ↔ (axisAdj per n a b ∧ a ≠ b)) ∧ 0 ≤ w := by
  cases per <;> simp only [axisAdj, Int.ofNat_eq_natCast, Bool.false_eq_true, if_false, if_true, false_and, or_false, true_and] <;> omega

/-- `are_neighbors` is face adjacency of distinct cells, following the periodic / reflecting setting of each axis -/
theorem are_neighbors_iff (g : GridShape) {c1 c2 : Int × Int × Int}
    (h1 : inGrid g c1.1 c1.2.1 c1.2.2) (h2 : inGrid g c2.1 c2.2.1 c2.2.2) :
    areNbrCoords g c1 c2 = true ↔ faceAdj g c1 c2 ∧ c1 ≠ c2 := by
  obtain ⟨x1, y1, z1⟩ := c1
  obtain ⟨x2, y2, z2⟩ := c2
  obtain ⟨ax0, ax1, ax2⟩ := axis_dist_iff (per := g.px) h1.1 h2.1
  obtain ⟨ay0, ay1, ay2⟩ := axis_dist_iff (per := g.py) h1.2.1 h2.2.1
  obtain ⟨az0, az1, az2⟩ := axis_dist_iff (per := g.pz) h1.2.2 h2.2.2
  simp only [areNbrCoords, areNbrDist0, areNbrDist1, areNbrDist2, areNbrWrap0, areNbrWrap1, areNbrWrap2, areNbrTest,
    faceAdj, beq_iff_eq, ne_eq, Prod.mk.injEq] at *
  generalize (if g.px = true then _ else _ : Int) = X at *
  generalize (if g.py = true then _ else _ : Int) = Y at *
  generalize (if g.pz = true then _ else _ : Int) = Z at *
  constructor
  · intro hs
    have : (X = 1 ∧ Y = 0 ∧ Z = 0) ∨ (X = 0 ∧ Y = 1 ∧ Z = 0) ∨ (X = 0 ∧ Y = 0 ∧ Z = 1) := by omega
    rcases this with ⟨a, b, c⟩ | ⟨a, b, c⟩ | ⟨a, b, c⟩
    · exact ⟨Or.inl ⟨(ax1.1 a).1, ay0.1 b, az0.1 c⟩, fun e => (ax1.1 a).2 e.1⟩
    · exact ⟨Or.inr (Or.inl ⟨ax0.1 a, (ay1.1 b).1, az0.1 c⟩), fun e => (ay1.1 b).2 e.2.1⟩
    · exact ⟨Or.inr (Or.inr ⟨ax0.1 a, ay0.1 b, (az1.1 c).1⟩), fun e => (az1.1 c).2 e.2.2⟩
  · rintro ⟨hf, hne⟩
    rcases hf with ⟨a, b, c⟩ | ⟨a, b, c⟩ | ⟨a, b, c⟩
    · have hx : x1 ≠ x2 := fun e => hne ⟨e, b, c⟩
      have := ax1.2 ⟨a, hx⟩; have := ay0.2 b; have := az0.2 c; omega
    · have hy : y1 ≠ y2 := fun e => hne ⟨a, e, c⟩
      have := ax0.2 a; have := ay1.2 ⟨b, hy⟩; have := az0.2 c; omega
    · have hz : z1 ≠ z2 := fun e => hne ⟨a, b, e⟩
      have := ax0.2 a; have := ay0.2 b; have := az1.2 ⟨c, hz⟩; omega

/-! ## the native engine's neighbour table (`BuildMeshNeighbors` / `GetNeighborIndex` / `opposed_direction`) -/

/-- coordinates of a cell index (Spec) -/
def coordsOf (g : GridShape) (i : Int) : Int × Int × Int := (i % g.w, i % (g.w * g.h) / g.w, i / (g.w * g.h))

/-- the table is an involution through `opposed_direction` (what conservation of matter by diffusion needs) -/
theorem engine_nbr_involutive {g : GridShape} (hv : g.valid = true) {i j n : Nat} (hi : i < g.size) (hn : n < 6)
    (h : engNbr? g i n = some j) : engNbr? g j (oppOf n) = some i ∧ j < g.size :=
  nbr_involutive hv hi hn h

private theorem axisStep_adj {per : Bool} {n c δ c' : Int} (h0 : 0 ≤ c) (h1 : c < n) (hδ : δ = 1 ∨ δ = -1)
    (h : axisStep per n c δ = some c') : axisAdj per n c c' := by
  unfold axisStep at h
  unfold axisAdj
  cases per
  · simp only [Bool.false_eq_true, if_false] at h
    split at h
    · cases h; omega
    · cases h
  · simp only [if_true] at h
    cases h
    rcases hδ with rfl | rfl
    · rw [wrap_succ h0 h1]; simp only [true_and]; split <;> omega
    · rw [show c + -1 = c - 1 by ring, wrap_pred h0 h1]; simp only [true_and]; split <;> omega

private theorem axisStep_stay {per : Bool} {n c c' : Int} (h0 : 0 ≤ c) (h1 : c < n)
    (h : axisStep per n c 0 = some c') : c = c' := by
  rw [axisStep_zero h0 h1] at h; cases h; rfl

/-- every entry of the engine's table is a face neighbour (for a periodic axis of length 1 the cell itself:
`faceAdj` of a cell with itself holds exactly in that case) -/
theorem engine_nbr_adjacent {g : GridShape} (hv : g.valid = true) {i j n : Nat} (hi : i < g.size) (hn : n < 6)
    (h : engNbr? g i n = some j) : faceAdj g (coordsOf g i) (coordsOf g j) := by
  obtain ⟨hw, hh, hd⟩ := GridShape.valid_pos hv
  have hi0 : (0 : Int) ≤ i := Int.natCast_nonneg i
  have hi1 : (i : Int) < (g.w : Int) * g.h * g.d := by rw [← size_cast]; exact_mod_cast hi
  obtain ⟨hx, hy, hz, _⟩ := encode_decode hw hh hi0 hi1
  obtain ⟨a, b, c, sa, sb, sc, ra, rb, rc, hj⟩ := engNbr_some hv hi hn h
  obtain ⟨d1, d2, d3⟩ := decode_encode (z := c) hw ra.1 ra.2 rb.1 rb.2
  have hcj : coordsOf g j = (a, b, c) := by simp only [coordsOf, hj, d1, d2, d3]
  rw [hcj]
  simp only [coordsOf, faceAdj]
  have cs := fun k => dirDeltaOn_cases n hn k
  rcases dirDeltaOn_single n hn with ⟨e0, e1, e2⟩ | ⟨e0, e1, e2⟩ | ⟨e0, e1, e2⟩
  · rw [e1] at sb; rw [e2] at sc
    exact Or.inl ⟨axisStep_adj hx.1 hx.2 (by have := cs 0; omega) sa, axisStep_stay hy.1 hy.2 sb, axisStep_stay hz.1 hz.2 sc⟩
  · rw [e0] at sa; rw [e2] at sc
    exact Or.inr (Or.inl ⟨axisStep_stay hx.1 hx.2 sa, axisStep_adj hy.1 hy.2 (by have := cs 1; omega) sb, axisStep_stay hz.1 hz.2 sc⟩)
  · rw [e0] at sa; rw [e1] at sb
    exact Or.inr (Or.inr ⟨axisStep_stay hx.1 hx.2 sa, axisStep_stay hy.1 hy.2 sb, axisStep_adj hz.1 hz.2 (by have := cs 2; omega) sc⟩)

/-- the generated tables of the engine: six directions = ±1 along each axis, opposite pairs, wrap = `(n + c) % n`
applied when the axis code is "periodical" -/
theorem engine_tables :
    dirDelta = [(0, 0, 1), (1, 0, -1), (2, 1, 1), (3, 1, -1), (4, 2, 1), (5, 2, -1)] ∧ oppDir = [1, 0, 3, 2, 5, 4] ∧
    cppBoundary = [("reflecting", 0), ("periodical", 1)] ∧ wrapFlag = [1, 1, 1] ∧ nbrNone = -1 ∧
    (∀ n c, wrapAxis0 n c = Int.tmod (n + c) n ∧ wrapAxis1 n c = Int.tmod (n + c) n ∧ wrapAxis2 n c = Int.tmod (n + c) n) :=
  ⟨by decide +kernel, by decide +kernel, by decide +kernel, by decide +kernel, by decide +kernel, fun n c => wrapAxis_eq n c⟩

/-! ## `get_neighbors` and the kinetics enumeration: the generated rules are the face rules -/

/-- the twelve `if` lines of `get_neighbors`: the two inner neighbours per axis, and the opposite end of a periodic axis -/
theorem get_neighbors_rules (w h d : Int) (px py pz : Bool) (x y z : Int) :
    getNbrRules w h d px py pz x y z =
      [(decide (x > 0), (x - 1, y, z)), (decide (y > 0), (x, y - 1, z)), (decide (z > 0), (x, y, z - 1)),
       (decide (x < w - 1), (x + 1, y, z)), (decide (y < h - 1), (x, y + 1, z)), (decide (z < d - 1), (x, y, z + 1)),
       (px && x == 0, (w - 1, y, z)), (py && y == 0, (x, h - 1, z)), (pz && z == 0, (x, y, d - 1)),
       (px && x == w - 1, (0, y, z)), (py && y == h - 1, (x, 0, z)), (pz && z == d - 1, (x, y, 0))] := rfl

/-- every cell `get_neighbors` names (for an in-grid cell) is a face neighbour -/
theorem get_neighbors_sound (g : GridShape) {x y z : Int} (hc : inGrid g x y z) :
    ∀ r ∈ getNbrRules g.w g.h g.d g.px g.py g.pz x y z, r.1 = true →
      inGrid g r.2.1 r.2.2.1 r.2.2.2 ∧ faceAdj g (x, y, z) r.2 := by
  intro r hr hcond
  rw [get_neighbors_rules] at hr
  simp only [List.mem_cons, List.not_mem_nil, or_false] at hr
  obtain ⟨⟨hx0, hx1⟩, ⟨hy0, hy1⟩, ⟨hz0, hz1⟩⟩ := hc
  rcases hr with rfl | rfl | rfl | rfl | rfl | rfl | rfl | rfl | rfl | rfl | rfl | rfl <;>
    simp only [decide_eq_true_eq, Bool.and_eq_true, beq_iff_eq] at hcond <;>
    dsimp only [inGrid, faceAdj, axisAdj] <;>
    first
      | omega
      | (obtain ⟨hp, hq⟩ := hcond; simp only [hp, true_and, and_true]; omega)

/-- the kinetics loop: six unit shifts, wrapped like the engine does (Python `%` = C++ `%` on the values that
occur) but only on a periodic axis longer than one cell -/
theorem kinetics_rules (x y z : Int) :
    kinDeltas x y z = [(x + 1, y, z), (x - 1, y, z), (x, y + 1, z), (x, y - 1, z), (x, y, z + 1), (x, y, z - 1)] ∧
    (∀ p n, kinWrapCond0 p n = (p && decide (n > 1)) ∧ kinWrapCond1 p n = (p && decide (n > 1)) ∧
      kinWrapCond2 p n = (p && decide (n > 1))) ∧ kinBoundsGuard = true ∧
    (∀ n c : Int, 0 < n → 0 ≤ n + c →
      kinWrap0 n c = wrapAxis0 n c ∧ kinWrap1 n c = wrapAxis1 n c ∧ kinWrap2 n c = wrapAxis2 n c) := by
  refine ⟨rfl, fun _ _ => ⟨rfl, rfl, rfl⟩, rfl, fun n c hn hc => ?_⟩
  simp only [kinWrap0, kinWrap1, kinWrap2, wrapAxis0, wrapAxis1, wrapAxis2,
    Int.fmod_eq_emod_of_nonneg _ (Int.le_of_lt hn), Int.tmod_eq_emod_of_nonneg hc, and_self]

/-- `compute_diffusion_rates` refuses non-neighbours through `are_neighbors` (grid) / `get_edge` (graph) -/
theorem diffusion_rates_neighbour_tests :
    diffRateNbrTests = ["type(system.space)==RDGridSpaceandnotsystem.space.are_neighbors(src_position_index,dst_position_index)",
      "type(system.space)==RDGraphSpaceandsystem.space.get_edge(src_position_index,dst_position_index)isNone"] := by
  decide +kernel

/-! ## `grid_to_graph` -/

/-- source of the geometry: `edge_dst = cell_vol**(1/3)`, `edge_sfc = edge_dst**2`; node volume / environment and the
units system are copied; the loops enumerate every cell once and every periodic axis once -/
theorem grid_to_graph_source :
    g2gEdgeDst = "(grid.cell_vol)**(1/3)" ∧ g2gEdgeSfc = "edge_dst**2" ∧
    g2gNodeArgs = [("volume", "grid.cell_vol.copy()"), ("environment", "grid.cell_env[i]"), ("units_system", "grid.units_system")] ∧
    g2gEdgeArgs = [("distance", "edge_dst"), ("surface", "edge_sfc"), ("units_system", "grid.units_system")] ∧
    g2gGraphCtor = "RDGraphSpace(nodes=nodes,edges=edges,units_system=grid.units_system)" ∧
    g2gInnerLoops = [("z", "grid.d"), ("y", "grid.h"), ("x", "grid.w")] ∧ g2gPerOrder = ["x", "y", "z"] ∧
    g2gPerLoops0 = [("z", "grid.d"), ("y", "grid.h")] ∧ g2gPerLoops1 = [("z", "grid.d"), ("x", "grid.w")] ∧
    g2gPerLoops2 = [("y", "grid.h"), ("x", "grid.w")] := by decide +kernel

/-- the edge rules: one edge per inner face (towards +x, +y, +z) and one per face pair of a periodic axis -/
theorem grid_to_graph_rules (w h d x y z : Int) :
    g2gInnerRules w h d x y z = [(decide (x < w - 1), (x, y, z), (x + 1, y, z)), (decide (y < h - 1), (x, y, z), (x, y + 1, z)),
      (decide (z < d - 1), (x, y, z), (x, y, z + 1))] ∧
    g2gPerI0 w h d x y z = (w - 1, y, z) ∧ g2gPerJ0 w h d x y z = (0, y, z) ∧
    g2gPerI1 w h d x y z = (x, h - 1, z) ∧ g2gPerJ1 w h d x y z = (x, 0, z) ∧
    g2gPerI2 w h d x y z = (x, y, d - 1) ∧ g2gPerJ2 w h d x y z = (x, y, 0) := ⟨rfl, rfl, rfl, rfl, rfl, rfl, rfl⟩

/-- geometry: every node keeps the cell volume `a³` and its environment, every edge has the cell face `a²` as
contact surface and the cell edge `a` as distance -/
theorem grid_to_graph_geometry {g : GridShape} {a : Rat} {envs : List Int} {gr : Graph}
    (h : gridToGraph g a envs = .ok gr) :
    gr.nodes = envs.map (fun e => ⟨a * a * a, e⟩) ∧ (∀ e ∈ gr.edges, e.surface = a * a ∧ e.distance = a) ∧
    gr.nodes.length = envs.length := by
  unfold gridToGraph at h
  split at h
  · cases h
  · cases h
    refine ⟨rfl, ?_, by simp⟩
    intro e he
    simp only [List.mem_map] at he
    obtain ⟨p, _, rfl⟩ := he
    exact ⟨rfl, rfl⟩

/-- `get_edge(i, j)` finds an edge iff one joins `i` and `j` in either orientation -/
theorem get_edge_iff (edges : List PyGEdge) (i j : Int) :
    (getEdge edges i j).isSome = true ↔ ∃ e ∈ edges, (e.i = i ∧ e.j = j) ∨ (e.i = j ∧ e.j = i) := by
  simp [getEdge, edgeMatches]

theorem get_edge_symm (edges : List PyGEdge) (i j : Int) : (getEdge edges i j).isSome = (getEdge edges j i).isSome := by
  rw [Bool.eq_iff_iff, get_edge_iff, get_edge_iff]
  constructor <;> (rintro ⟨e, he, h⟩; exact ⟨e, he, h.symm⟩)

/-! ## non-vacuity -/

example : (⟨2, 2, 1, true, false, false⟩ : GridShape).valid = true ∧
    engNbr? ⟨2, 2, 1, true, false, false⟩ 0 1 = some 1 ∧ engNbr? ⟨2, 2, 1, true, false, false⟩ 1 0 = some 0 := by decide +kernel
example : pyAreNeighbors ⟨3, 1, 1, true, false, false⟩ (.num 0) (.arr 2 0 0) = .ok true ∧
    pyAreNeighbors ⟨3, 1, 1, false, false, false⟩ (.num 0) (.arr 2 0 0) = .ok false := by decide +kernel
example : (gridToGraph ⟨2, 1, 1, true, false, false⟩ (1/2) [0, 1]).map (·.edges) =
    .ok [⟨0, 1, 1/4, 1/2⟩, ⟨1, 0, 1/4, 1/2⟩] := by decide +kernel

end Strengths.C15
