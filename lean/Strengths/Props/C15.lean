/-
C15 — Grid geometry is consistent everywhere, and a grid equals its graph.

All statements are for ALL grid shapes `w, h, d ≥ 1` and all 8 boundary settings.  The formulas
(`cellIndexArr`, `cellCoordX`, `withinBounds*`, `areNbr*`, `getNbrRules`, `kin*`, `g2g*`,
`dirDelta`, `wrapAxis*`, `oppDir`, …) are regenerated from the sources on every run, so a change to
any of them breaks the theorem that talks about it.

Spec (written here, independently of the code): `cellOf`, `namesCell`, `axisAdj`, `faceAdj`.
-/
import Strengths.Proofs.GridGraph

namespace Strengths.C15
open Strengths Strengths.Gen

/-! ## Spec -/

/-- the property's index formula -/
def cellOf (g : GridShape) (x y z : Int) : Int := z * g.w * g.h + y * g.w + x

def inGrid (g : GridShape) (x y z : Int) : Prop := (0 ≤ x ∧ x < g.w) ∧ (0 ≤ y ∧ y < g.h) ∧ (0 ≤ z ∧ z < g.d)

/-- a position names a cell -/
def namesCell (g : GridShape) : Pos → Prop
  | .num p => 0 ≤ p ∧ p < (g.w : Int) * g.h * g.d
  | .arr x y z => inGrid g x y z
  | .obj x y z => inGrid g x y z

/-- two coordinates of one axis of length `n` are adjacent: they differ by one, or (periodic axis)
they are the two ends -/
def axisAdj (per : Bool) (n a b : Int) : Prop :=
  b = a + 1 ∨ a = b + 1 ∨ (per = true ∧ ((a = 0 ∧ b = n - 1) ∨ (b = 0 ∧ a = n - 1)))

/-- face adjacency: exactly one axis differs, by an adjacent step -/
def faceAdj (g : GridShape) (c1 c2 : Int × Int × Int) : Prop :=
  (axisAdj g.px g.w c1.1 c2.1 ∧ c1.2.1 = c2.2.1 ∧ c1.2.2 = c2.2.2) ∨
  (c1.1 = c2.1 ∧ axisAdj g.py g.h c1.2.1 c2.2.1 ∧ c1.2.2 = c2.2.2) ∨
  (c1.1 = c2.1 ∧ c1.2.1 = c2.2.1 ∧ axisAdj g.pz g.d c1.2.2 c2.2.2)

/-! ## positions outside the grid are rejected (three position forms) -/

theorem bounds_num_iff (size p : Int) : withinBoundsNum size p = true ↔ 0 ≤ p ∧ p < size := by
  simp [withinBoundsNum]

theorem bounds_arr_iff (w h d x y z : Int) :
    withinBoundsArr w h d x y z = true ↔ (0 ≤ x ∧ x < w) ∧ (0 ≤ y ∧ y < h) ∧ (0 ≤ z ∧ z < d) := by
  simp [withinBoundsArr, and_assoc]

theorem bounds_obj_iff (w h d x y z : Int) :
    withinBoundsObj w h d x y z = true ↔ (0 ≤ x ∧ x < w) ∧ (0 ≤ y ∧ y < h) ∧ (0 ≤ z ∧ z < d) := by
  simp [withinBoundsObj, and_assoc]

/-- `is_within_bounds(position)` ↔ the position names a cell -/
theorem within_bounds_iff (g : GridShape) (pos : Pos) : pyWithinBounds g pos = true ↔ namesCell g pos := by
  cases pos with
  | num p => simp only [pyWithinBounds, namesCell, bounds_num_iff, gridSize]
  | arr x y z => simp only [pyWithinBounds, namesCell, inGrid, bounds_arr_iff]
  | obj x y z => simp only [pyWithinBounds, namesCell, inGrid, bounds_obj_iff]

/-- both accessors are guarded by `is_within_bounds` -/
theorem accessors_guarded : cellIndexGuarded = true ∧ cellCoordsGuarded = true ∧ areNbrGuards = 2 := by decide

/-- `get_cell_index(position)` raises iff the position does not name a cell -/
theorem bounds_reject (g : GridShape) (pos : Pos) :
    (pyCellIndex g pos).isError = true ↔ ¬ namesCell g pos := by
  rw [← within_bounds_iff]
  unfold pyCellIndex
  simp only [accessors_guarded.1, Bool.not_true, Bool.false_or]
  cases h : pyWithinBounds g pos <;> cases pos <;> simp [Res.isError]

/-- `get_cell_coordinates(i)` raises iff `i` is not a cell index -/
theorem bounds_reject_coords (g : GridShape) (i : Int) :
    (pyCoords g i).isError = true ↔ ¬ (0 ≤ i ∧ i < (g.w : Int) * g.h * g.d) := by
  unfold pyCoords
  simp only [accessors_guarded.2.1, Bool.not_true, Bool.false_or]
  rw [← bounds_num_iff, gridSize]
  cases withinBoundsNum (g.w * g.h * g.d) i <;> simp [Res.isError]

/-! ## index = z·w·h + y·w + x, in bijection with the coordinates -/

/-- the three accepted position forms give the property's index -/
theorem index_formula (g : GridShape) {x y z : Int} (h : inGrid g x y z) :
    pyCellIndex g (.arr x y z) = .ok (cellOf g x y z) ∧ pyCellIndex g (.obj x y z) = .ok (cellOf g x y z) ∧
    pyCellIndex g (.num (cellOf g x y z)) = .ok (cellOf g x y z) := by
  have hr := encode_range h.1.1 h.1.2 h.2.1.1 h.2.1.2 h.2.2.1 h.2.2.2
  have e : cellOf g x y z = x + y * g.w + z * (g.w * g.h) := by unfold cellOf; ring
  refine ⟨?_, ?_, ?_⟩
  · have : pyWithinBounds g (.arr x y z) = true := (within_bounds_iff g _).2 h
    simp only [pyCellIndex, this, Bool.or_true, if_true, cellIndexArr, cellOf]; congr 1; ring
  · have : pyWithinBounds g (.obj x y z) = true := (within_bounds_iff g _).2 h
    simp only [pyCellIndex, this, Bool.or_true, if_true, cellIndexObj, cellOf]; congr 1; ring
  · have : pyWithinBounds g (.num (cellOf g x y z)) = true := (within_bounds_iff g _).2 (by rw [namesCell, e]; exact hr)
    simp only [pyCellIndex, this, Bool.or_true, if_true, cellIndexNum]

/-- coordinates → index → coordinates -/
theorem coords_index (g : GridShape) {x y z : Int} (h : inGrid g x y z) :
    pyCoords g (cellOf g x y z) = .ok (x, y, z) := by
  have hw : (0 : Int) < g.w := by have := h.1; omega
  have hh : (0 : Int) < g.h := by have := h.2.1; omega
  have hr := encode_range h.1.1 h.1.2 h.2.1.1 h.2.1.2 h.2.2.1 h.2.2.2
  have e : cellOf g x y z = x + y * g.w + z * (g.w * g.h) := by unfold cellOf; ring
  obtain ⟨d1, d2, d3⟩ := decode_encode (z := z) hw h.1.1 h.1.2 h.2.1.1 h.2.1.2
  have hwb : withinBoundsNum (gridSize g.w g.h g.d) (cellOf g x y z) = true := by
    rw [bounds_num_iff, gridSize, e]; exact hr
  have hwh : (0 : Int) ≤ g.w * g.h := by have := Int.mul_pos hw hh; omega
  rw [e] at hwb ⊢
  simp only [pyCoords, hwb, Bool.or_true, if_true, cellCoordX, cellCoordY, cellCoordZ]
  rw [Int.fmod_eq_emod_of_nonneg _ (by omega), Int.fmod_eq_emod_of_nonneg _ hwh,
    Int.tdiv_eq_ediv_of_nonneg (Int.emod_nonneg _ (by have := Int.mul_pos hw hh; omega)),
    Int.tdiv_eq_ediv_of_nonneg hr.1, d1, d2, d3]

/-- index → coordinates → index: every cell index has in-grid coordinates whose index it is -/
theorem index_coords (g : GridShape) (hv : g.valid = true) {i : Int} (h0 : 0 ≤ i) (h1 : i < (g.w : Int) * g.h * g.d) :
    ∃ x y z, pyCoords g i = .ok (x, y, z) ∧ inGrid g x y z ∧ cellOf g x y z = i := by
  obtain ⟨hw, hh, hd⟩ := GridShape.valid_pos hv
  obtain ⟨hx, hy, hz, hsum⟩ := encode_decode hw hh h0 h1
  have hwb : withinBoundsNum (gridSize g.w g.h g.d) i = true := by rw [bounds_num_iff, gridSize]; exact ⟨h0, h1⟩
  have hwh : (0 : Int) < g.w * g.h := Int.mul_pos hw hh
  refine ⟨i % g.w, i % (g.w * g.h) / g.w, i / (g.w * g.h), ?_, ⟨hx, hy, hz⟩, ?_⟩
  · simp only [pyCoords, hwb, Bool.or_true, if_true, cellCoordX, cellCoordY, cellCoordZ]
    rw [Int.fmod_eq_emod_of_nonneg _ (by omega), Int.fmod_eq_emod_of_nonneg _ (by omega),
      Int.tdiv_eq_ediv_of_nonneg (Int.emod_nonneg _ (by omega)), Int.tdiv_eq_ediv_of_nonneg h0]
  · have e : ∀ X Y Z : Int, Z * ↑g.w * ↑g.h + Y * ↑g.w + X = X + Y * ↑g.w + Z * (↑g.w * ↑g.h) := fun _ _ _ => by ring
    unfold cellOf; rw [e]; exact hsum

/-- distinct in-grid coordinates have distinct indices -/
theorem index_injective (g : GridShape) {x y z x' y' z' : Int} (h : inGrid g x y z) (h' : inGrid g x' y' z')
    (e : cellOf g x y z = cellOf g x' y' z') : x = x' ∧ y = y' ∧ z = z' := by
  have hw : (0 : Int) < g.w := by have := h.1; omega
  refine encode_inj (w := g.w) (h := g.h) hw h.1.1 h.1.2 h.2.1.1 h.2.1.2 h'.1.1 h'.1.2 h'.2.1.1 h'.2.1.2 ?_
  unfold cellOf at e; linarith

/-! ## the neighbour relation of `are_neighbors` -/

/-- symmetric -/
theorem are_neighbors_symm (g : GridShape) (c1 c2 : Int × Int × Int) :
    areNbrCoords g c1 c2 = areNbrCoords g c2 c1 := by
  have s : ∀ p q : Int, Int.natAbs (p - q) = Int.natAbs (q - p) := fun p q => by omega
  simp only [areNbrCoords, areNbrDist0, areNbrDist1, areNbrDist2, s c1.1 c2.1, s c1.2.1 c2.2.1, s c1.2.2 c2.2.2]

/-- `are_neighbors` on positions is symmetric, including which calls raise -/
theorem are_neighbors_symm_pos (g : GridShape) (p1 p2 : Pos) (b : Bool)
    (h : pyAreNeighbors g p1 p2 = .ok b) : pyAreNeighbors g p2 p1 = .ok b := by
  unfold pyAreNeighbors at h ⊢
  simp only [accessors_guarded.2.2] at h ⊢
  cases h1 : pyWithinBounds g p1 <;> cases h2 : pyWithinBounds g p2 <;> simp [h1, h2] at h ⊢
  cases e1 : pyCellIndex g p1 <;> simp [e1] at h ⊢
  rename_i i1
  cases f1 : pyCoords g i1 <;> simp [f1] at h ⊢
  cases e2 : pyCellIndex g p2 <;> simp [e2] at h ⊢
  rename_i c1 i2
  cases f2 : pyCoords g i2 <;> simp [f2] at h ⊢
  rw [are_neighbors_symm]; exact h

private theorem axis_dist_iff {per : Bool} {n a b : Int} (ha : 0 ≤ a ∧ a < n) (hb : 0 ≤ b ∧ b < n) :
    let dd : Int := Int.ofNat (Int.natAbs (a - b))
    let w : Int := if per = true then min dd (Int.ofNat (Int.natAbs (n - dd))) else dd
    (w = 0 ↔ a = b) ∧ (w = 1 ↔ (axisAdj per n a b ∧ a ≠ b)) ∧ 0 ≤ w := by
  cases per <;> simp only [axisAdj, Int.ofNat_eq_natCast, Bool.false_eq_true, if_false, if_true, false_and, or_false, true_and] <;> omega

/-- `are_neighbors` is face adjacency of distinct cells, following the periodic / reflecting setting of each axis -/
theorem are_neighbors_iff (g : GridShape) {c1 c2 : Int × Int × Int}
    (h1 : inGrid g c1.1 c1.2.1 c1.2.2) (h2 : inGrid g c2.1 c2.2.1 c2.2.2) :
    areNbrCoords g c1 c2 = true ↔ faceAdj g c1 c2 ∧ c1 ≠ c2 := by
  obtain ⟨x1, y1, z1⟩ := c1
  obtain ⟨x2, y2, z2⟩ := c2
  obtain ⟨ax0, ax1, ax2⟩ := axis_dist_iff (per := g.px) h1.1 h2.1
  obtain ⟨ay0, ay1, ay2⟩ := axis_dist_iff (per := g.py) h1.2.1 h2.2.1
  obtain ⟨az0, az1, az2⟩ := axis_dist_iff (per := g.pz) h1.2.2 h2.2.2
  simp only [areNbrCoords, areNbrDist0, areNbrDist1, areNbrDist2, areNbrWrap0, areNbrWrap1, areNbrWrap2, areNbrTest,
    faceAdj, beq_iff_eq, ne_eq, Prod.mk.injEq] at *
  generalize (if g.px = true then _ else _ : Int) = X at *
  generalize (if g.py = true then _ else _ : Int) = Y at *
  generalize (if g.pz = true then _ else _ : Int) = Z at *
  constructor
  · intro hs
    have : (X = 1 ∧ Y = 0 ∧ Z = 0) ∨ (X = 0 ∧ Y = 1 ∧ Z = 0) ∨ (X = 0 ∧ Y = 0 ∧ Z = 1) := by omega
    rcases this with ⟨a, b, c⟩ | ⟨a, b, c⟩ | ⟨a, b, c⟩
    · exact ⟨Or.inl ⟨(ax1.1 a).1, ay0.1 b, az0.1 c⟩, fun e => (ax1.1 a).2 e.1⟩
    · exact ⟨Or.inr (Or.inl ⟨ax0.1 a, (ay1.1 b).1, az0.1 c⟩), fun e => (ay1.1 b).2 e.2.1⟩
    · exact ⟨Or.inr (Or.inr ⟨ax0.1 a, ay0.1 b, (az1.1 c).1⟩), fun e => (az1.1 c).2 e.2.2⟩
  · rintro ⟨hf, hne⟩
    rcases hf with ⟨a, b, c⟩ | ⟨a, b, c⟩ | ⟨a, b, c⟩
    · have hx : x1 ≠ x2 := fun e => hne ⟨e, b, c⟩
      have := ax1.2 ⟨a, hx⟩; have := ay0.2 b; have := az0.2 c; omega
    · have hy : y1 ≠ y2 := fun e => hne ⟨a, e, c⟩
      have := ax0.2 a; have := ay1.2 ⟨b, hy⟩; have := az0.2 c; omega
    · have hz : z1 ≠ z2 := fun e => hne ⟨a, b, e⟩
      have := ax0.2 a; have := ay0.2 b; have := az1.2 ⟨c, hz⟩; omega

/-! ## the native engine's neighbour table (`BuildMeshNeighbors` / `GetNeighborIndex` / `opposed_direction`) -/

/-- coordinates of a cell index (Spec) -/
def coordsOf (g : GridShape) (i : Int) : Int × Int × Int := (i % g.w, i % (g.w * g.h) / g.w, i / (g.w * g.h))

/-- the table is an involution through `opposed_direction` (what conservation of matter by diffusion needs) -/
theorem engine_nbr_involutive {g : GridShape} (hv : g.valid = true) {i j n : Nat} (hi : i < g.size) (hn : n < 6)
    (h : engNbr? g i n = some j) : engNbr? g j (oppOf n) = some i ∧ j < g.size :=
  nbr_involutive hv hi hn h

private theorem axisStep_adj {per : Bool} {n c δ c' : Int} (h0 : 0 ≤ c) (h1 : c < n) (hδ : δ = 1 ∨ δ = -1)
    (h : axisStep per n c δ = some c') : axisAdj per n c c' := by
  unfold axisStep at h
  unfold axisAdj
  cases per
  · simp only [Bool.false_eq_true, if_false] at h
    split at h
    · cases h; omega
    · cases h
  · simp only [if_true] at h
    cases h
    rcases hδ with rfl | rfl
    · rw [wrap_succ h0 h1]; simp only [true_and]; split <;> omega
    · rw [show c + -1 = c - 1 by ring, wrap_pred h0 h1]; simp only [true_and]; split <;> omega

private theorem axisStep_stay {per : Bool} {n c c' : Int} (h0 : 0 ≤ c) (h1 : c < n)
    (h : axisStep per n c 0 = some c') : c = c' := by
  rw [axisStep_zero h0 h1] at h; cases h; rfl

/-- every entry of the engine's table is a face neighbour (for a periodic axis of length 1 the cell itself:
`faceAdj` of a cell with itself holds exactly in that case) -/
theorem engine_nbr_adjacent {g : GridShape} (hv : g.valid = true) {i j n : Nat} (hi : i < g.size) (hn : n < 6)
    (h : engNbr? g i n = some j) : faceAdj g (coordsOf g i) (coordsOf g j) := by
  obtain ⟨hw, hh, hd⟩ := GridShape.valid_pos hv
  have hi0 : (0 : Int) ≤ i := Int.natCast_nonneg i
  have hi1 : (i : Int) < (g.w : Int) * g.h * g.d := by rw [← size_cast]; exact_mod_cast hi
  obtain ⟨hx, hy, hz, _⟩ := encode_decode hw hh hi0 hi1
  obtain ⟨a, b, c, sa, sb, sc, ra, rb, rc, hj⟩ := engNbr_some hv hi hn h
  obtain ⟨d1, d2, d3⟩ := decode_encode (z := c) hw ra.1 ra.2 rb.1 rb.2
  have hcj : coordsOf g j = (a, b, c) := by simp only [coordsOf, hj, d1, d2, d3]
  rw [hcj]
  simp only [coordsOf, faceAdj]
  have cs := fun k => dirDeltaOn_cases n hn k
  rcases dirDeltaOn_single n hn with ⟨e0, e1, e2⟩ | ⟨e0, e1, e2⟩ | ⟨e0, e1, e2⟩
  · rw [e1] at sb; rw [e2] at sc
    exact Or.inl ⟨axisStep_adj hx.1 hx.2 (by have := cs 0; omega) sa, axisStep_stay hy.1 hy.2 sb, axisStep_stay hz.1 hz.2 sc⟩
  · rw [e0] at sa; rw [e2] at sc
    exact Or.inr (Or.inl ⟨axisStep_stay hx.1 hx.2 sa, axisStep_adj hy.1 hy.2 (by have := cs 1; omega) sb, axisStep_stay hz.1 hz.2 sc⟩)
  · rw [e0] at sa; rw [e1] at sb
    exact Or.inr (Or.inr ⟨axisStep_stay hx.1 hx.2 sa, axisStep_stay hy.1 hy.2 sb, axisStep_adj hz.1 hz.2 (by have := cs 2; omega) sc⟩)

/-- the generated tables of the engine: six directions = ±1 along each axis, opposite pairs, wrap = `(n + c) % n`
applied when the axis code is "periodical" -/
theorem engine_tables :
    dirDelta = [(0, 0, 1), (1, 0, -1), (2, 1, 1), (3, 1, -1), (4, 2, 1), (5, 2, -1)] ∧ oppDir = [1, 0, 3, 2, 5, 4] ∧
    cppBoundary = [("reflecting", 0), ("periodical", 1)] ∧ wrapFlag = [1, 1, 1] ∧ nbrNone = -1 ∧
    (∀ n c, wrapAxis0 n c = Int.tmod (n + c) n ∧ wrapAxis1 n c = Int.tmod (n + c) n ∧ wrapAxis2 n c = Int.tmod (n + c) n) :=
  ⟨by decide +kernel, by decide +kernel, by decide +kernel, by decide +kernel, by decide +kernel, fun n c => wrapAxis_eq n c⟩

/-! ### completeness and multiplicities of the engine's table -/

theorem coordsOf_eq (g : GridShape) (i : Int) : coordsOf g i = cellCoords g i := rfl

private theorem axisAdj_iff_steps {per : Bool} {n a b : Int} (ha : 0 ≤ a ∧ a < n) (hb : 0 ≤ b ∧ b < n) :
    axisAdj per n a b ↔ ((b = a + 1 ∧ b < n) ∨ (per = true ∧ a = n - 1 ∧ b = 0)) ∨
      ((a = b + 1 ∧ 0 ≤ b) ∨ (per = true ∧ a = 0 ∧ b = n - 1)) := by
  unfold axisAdj
  cases per <;> simp <;> omega

private theorem six_split (A0 A1 B0 B1 C0 C1 ex ey ez : Prop) :
    (((A0 ∨ A1) ∧ ey ∧ ez) ∨ (ex ∧ (B0 ∨ B1) ∧ ez) ∨ (ex ∧ ey ∧ (C0 ∨ C1))) ↔
    ((A0 ∧ ey ∧ ez) ∨ (A1 ∧ ey ∧ ez) ∨ (ex ∧ B0 ∧ ez) ∨ (ex ∧ B1 ∧ ez) ∨ (ex ∧ ey ∧ C0) ∨ (ex ∧ ey ∧ C1)) := by tauto

/-- face adjacency = being behind one of the six faces -/
theorem faceAdj_iff_reach (g : GridShape) {c1 c2 : Int × Int × Int}
    (h1 : inGrid g c1.1 c1.2.1 c1.2.2) (h2 : inGrid g c2.1 c2.2.1 c2.2.2) :
    faceAdj g c1 c2 ↔ ∃ n < 6, reach g n c1 c2 := by
  rw [exists_lt_six]
  simp only [faceAdj, axisAdj_iff_steps h1.1 h2.1, axisAdj_iff_steps h1.2.1 h2.2.1, axisAdj_iff_steps h1.2.2 h2.2.2]
  show _ ↔ (((_ ∨ _) ∧ _ ∧ _) ∨ ((_ ∨ _) ∧ _ ∧ _) ∨ (_ ∧ (_ ∨ _) ∧ _) ∨ (_ ∧ (_ ∨ _) ∧ _) ∨ (_ ∧ _ ∧ (_ ∨ _)) ∨ (_ ∧ _ ∧ (_ ∨ _)))
  exact six_split _ _ _ _ _ _ _ _ _

/-- number of the six faces of `c1` behind which `c2` lies (Spec of the coupling multiplicity) -/
def faceCount (g : GridShape) (c1 c2 : Int × Int × Int) : Nat :=
  ((List.range 6).filter fun n => decide (reach g n c1 c2)).length

theorem faceCount_eq_sum (g : GridShape) (c1 c2 : Int × Int × Int) :
    faceCount g c1 c2 = (if reach g 0 c1 c2 then 1 else 0) + (if reach g 1 c1 c2 then 1 else 0) +
      (if reach g 2 c1 c2 then 1 else 0) + (if reach g 3 c1 c2 then 1 else 0) +
      (if reach g 4 c1 c2 then 1 else 0) + (if reach g 5 c1 c2 then 1 else 0) := by
  have : List.range 6 = [0, 1, 2, 3, 4, 5] := by decide
  simp only [faceCount, this, List.filter_cons, List.filter_nil, decide_eq_true_eq]
  split_ifs <;> rfl

/-- a cell lies behind its own face exactly on a periodic axis of length 1: then behind both faces of that axis -/
theorem faceCount_self (g : GridShape) {x y z : Int} (hc : inGrid g x y z) :
    faceCount g (x, y, z) (x, y, z) =
      2 * ((if g.px = true ∧ g.w = 1 then 1 else 0) + (if g.py = true ∧ g.h = 1 then 1 else 0) +
           (if g.pz = true ∧ g.d = 1 then 1 else 0)) := by
  obtain ⟨⟨hx0, hx1⟩, ⟨hy0, hy1⟩, ⟨hz0, hz1⟩⟩ := hc
  have r0 : reach g 0 (x, y, z) (x, y, z) ↔ (g.px = true ∧ g.w = 1) := by simp only [reach]; cases g.px <;> simp <;> omega
  have r1 : reach g 1 (x, y, z) (x, y, z) ↔ (g.px = true ∧ g.w = 1) := by simp only [reach]; cases g.px <;> simp <;> omega
  have r2 : reach g 2 (x, y, z) (x, y, z) ↔ (g.py = true ∧ g.h = 1) := by simp only [reach]; cases g.py <;> simp <;> omega
  have r3 : reach g 3 (x, y, z) (x, y, z) ↔ (g.py = true ∧ g.h = 1) := by simp only [reach]; cases g.py <;> simp <;> omega
  have r4 : reach g 4 (x, y, z) (x, y, z) ↔ (g.pz = true ∧ g.d = 1) := by simp only [reach]; cases g.pz <;> simp <;> omega
  have r5 : reach g 5 (x, y, z) (x, y, z) ↔ (g.pz = true ∧ g.d = 1) := by simp only [reach]; cases g.pz <;> simp <;> omega
  rw [faceCount_eq_sum]
  simp only [r0, r1, r2, r3, r4, r5]
  split_ifs <;> rfl

instance (per : Bool) (n a b : Int) : Decidable (axisAdj per n a b) := by unfold axisAdj; infer_instance

private theorem axis_count {per : Bool} {n a b : Int} (ha : 0 ≤ a ∧ a < n) (hb : 0 ≤ b ∧ b < n) (hne : a ≠ b) :
    ((if (b = a + 1 ∧ b < n) ∨ (per = true ∧ a = n - 1 ∧ b = 0) then 1 else 0) +
     (if (a = b + 1 ∧ 0 ≤ b) ∨ (per = true ∧ a = 0 ∧ b = n - 1) then 1 else 0) : Nat) =
    if axisAdj per n a b then (if per = true ∧ n = 2 then 2 else 1) else 0 := by
  unfold axisAdj
  cases per <;> simp <;> split_ifs <;> omega

/-- the two cells of a face pair on a periodic axis of length 2 touch through both faces of that axis -/
def doubleAxis (g : GridShape) (c1 c2 : Int × Int × Int) : Prop :=
  (g.px = true ∧ (g.w : Int) = 2 ∧ c1.1 ≠ c2.1) ∨ (g.py = true ∧ (g.h : Int) = 2 ∧ c1.2.1 ≠ c2.2.1) ∨ (g.pz = true ∧ (g.d : Int) = 2 ∧ c1.2.2 ≠ c2.2.2)

instance (g : GridShape) (c1 c2 : Int × Int × Int) : Decidable (doubleAxis g c1 c2) := by unfold doubleAxis; infer_instance
instance (g : GridShape) (c1 c2 : Int × Int × Int) : Decidable (faceAdj g c1 c2) := by unfold faceAdj; infer_instance

theorem faceCount_distinct (g : GridShape) {c1 c2 : Int × Int × Int}
    (h1 : inGrid g c1.1 c1.2.1 c1.2.2) (h2 : inGrid g c2.1 c2.2.1 c2.2.2) (hne : c1 ≠ c2) :
    faceCount g c1 c2 = if faceAdj g c1 c2 then (if doubleAxis g c1 c2 then 2 else 1) else 0 := by
  obtain ⟨x1, y1, z1⟩ := c1
  obtain ⟨x2, y2, z2⟩ := c2
  rw [faceCount_eq_sum]
  simp only [reach, faceAdj, doubleAxis]
  by_cases ex : x1 = x2 <;> by_cases ey : y1 = y2 <;> by_cases ez : z1 = z2
  · exact absurd (by rw [ex, ey, ez]) hne
  · -- z differs
    have := axis_count (per := g.pz) h1.2.2 h2.2.2 ez
    simp only [ex, ey, ez, true_and, and_true, ne_eq, not_true_eq_false, and_false, false_or, or_false] at this ⊢
    simp only [↓reduceIte, Nat.zero_add, not_false_eq_true, and_true]
    exact this
  · have := axis_count (per := g.py) h1.2.1 h2.2.1 ey
    simp only [ex, ey, ez, true_and, and_true, ne_eq, not_true_eq_false, and_false, false_and, false_or, or_false] at this ⊢
    simp only [↓reduceIte, Nat.zero_add, Nat.add_zero, not_false_eq_true, and_true]
    exact this
  · simp [ey, ez]
  · have := axis_count (per := g.px) h1.1 h2.1 ex
    simp only [ex, ey, ez, true_and, and_true, ne_eq, not_true_eq_false, and_false, false_and, false_or, or_false] at this ⊢
    simp only [↓reduceIte, Nat.zero_add, Nat.add_zero, not_false_eq_true, and_true]
    exact this
  · simp [ex, ez]
  · simp [ex, ey]
  · simp [ex, ey]

/-- **engine_nbr_iff** — the engine's table lists exactly the face neighbours: some slot of cell `i` holds `j` iff `j` is
face-adjacent to `i` (all cells `i`, `j`; for `i = j` both sides hold exactly on a periodic axis of length 1) -/
theorem engine_nbr_iff {g : GridShape} (hv : g.valid = true) {i j : Nat} (hi : i < g.size) (hj : j < g.size) :
    (∃ n < 6, engNbr? g i n = some j) ↔ faceAdj g (coordsOf g i) (coordsOf g j) := by
  obtain ⟨ix, iy, iz, _⟩ := cellCoords_range hv hi
  obtain ⟨jx, jy, jz, _⟩ := cellCoords_range hv hj
  rw [coordsOf_eq, coordsOf_eq, faceAdj_iff_reach g ⟨ix, iy, iz⟩ ⟨jx, jy, jz⟩]
  constructor
  · rintro ⟨n, hn, h⟩; exact ⟨n, hn, (engNbr_iff_reach hv hi hj hn).1 h⟩
  · rintro ⟨n, hn, h⟩; exact ⟨n, hn, (engNbr_iff_reach hv hi hj hn).2 h⟩

/-- **multiplicity** — the number of slots of cell `i` that hold `j` is the number of faces of `i` behind which `j` lies;
by `faceCount_self` that is 2 per periodic axis of length 1 for `j = i` (self entries), and by `faceCount_distinct` it is
2 on a periodic axis of length 2 (both directions reach the same cell), 1 for any other face neighbour, 0 otherwise -/
theorem engine_nbr_count {g : GridShape} (hv : g.valid = true) {i j : Nat} (hi : i < g.size) (hj : j < g.size) :
    ((List.range 6).filter fun n => engNbr? g i n == some j).length = faceCount g (coordsOf g i) (coordsOf g j) := by
  unfold faceCount
  congr 1
  apply List.filter_congr
  intro n hn
  have hn6 : n < 6 := List.mem_range.1 hn
  rw [coordsOf_eq, coordsOf_eq]
  have := engNbr_iff_reach hv hi hj hn6
  by_cases h : engNbr? g i n = some j
  · simp [h, this.1 h]
  · have h' : ¬ reach g n (cellCoords g i) (cellCoords g j) := fun r => h (this.2 r)
    simp [h, h']

/-! ## `get_neighbors` and the kinetics enumeration: the generated rules are the face rules -/

/-- the twelve `if` lines of `get_neighbors`: the two inner neighbours per axis, and the opposite end of a periodic axis -/
theorem get_neighbors_rules (w h d : Int) (px py pz : Bool) (x y z : Int) :
    getNbrRules w h d px py pz x y z =
      [(decide (x > 0), (x - 1, y, z)), (decide (y > 0), (x, y - 1, z)), (decide (z > 0), (x, y, z - 1)),
       (decide (x < w - 1), (x + 1, y, z)), (decide (y < h - 1), (x, y + 1, z)), (decide (z < d - 1), (x, y, z + 1)),
       (px && x == 0, (w - 1, y, z)), (py && y == 0, (x, h - 1, z)), (pz && z == 0, (x, y, d - 1)),
       (px && x == w - 1, (0, y, z)), (py && y == h - 1, (x, 0, z)), (pz && z == d - 1, (x, y, 0))] := rfl

/-- every cell `get_neighbors` names (for an in-grid cell) is a face neighbour -/
theorem get_neighbors_sound (g : GridShape) {x y z : Int} (hc : inGrid g x y z) :
    ∀ r ∈ getNbrRules g.w g.h g.d g.px g.py g.pz x y z, r.1 = true →
      inGrid g r.2.1 r.2.2.1 r.2.2.2 ∧ faceAdj g (x, y, z) r.2 := by
  intro r hr hcond
  rw [get_neighbors_rules] at hr
  simp only [List.mem_cons, List.not_mem_nil, or_false] at hr
  obtain ⟨⟨hx0, hx1⟩, ⟨hy0, hy1⟩, ⟨hz0, hz1⟩⟩ := hc
  rcases hr with rfl | rfl | rfl | rfl | rfl | rfl | rfl | rfl | rfl | rfl | rfl | rfl <;>
    simp only [decide_eq_true_eq, Bool.and_eq_true, beq_iff_eq] at hcond <;>
    dsimp only [inGrid, faceAdj, axisAdj] <;>
    first
      | omega
      | (obtain ⟨hp, hq⟩ := hcond; simp only [hp, true_and, and_true]; omega)

/-! ### completeness of `get_neighbors` -/

private theorem twelve_split (D1 D2 D3 D4 D5 D6 D7 D8 D9 D10 D11 D12 R0 R1 R2 R3 R4 R5 : Prop)
    (h0 : D4 ∨ D10 ↔ R0) (h1 : D1 ∨ D7 ↔ R1) (h2 : D5 ∨ D11 ↔ R2) (h3 : D2 ∨ D8 ↔ R3) (h4 : D6 ∨ D12 ↔ R4) (h5 : D3 ∨ D9 ↔ R5) :
    (D1 ∨ D2 ∨ D3 ∨ D4 ∨ D5 ∨ D6 ∨ D7 ∨ D8 ∨ D9 ∨ D10 ∨ D11 ∨ D12) ↔ (R0 ∨ R1 ∨ R2 ∨ R3 ∨ R4 ∨ R5) := by
  rw [← h0, ← h1, ← h2, ← h3, ← h4, ← h5]; exact Iff.of_eq (by ac_rfl)

/-- coordinate level: the rules of `get_neighbors` that fire name exactly the face neighbours -/
theorem get_neighbors_coords_iff (g : GridShape) {x y z xj yj zj : Int} (hc : inGrid g x y z) (hj : inGrid g xj yj zj) :
    (∃ r ∈ getNbrRules g.w g.h g.d g.px g.py g.pz x y z, r.1 = true ∧ r.2 = (xj, yj, zj)) ↔
      faceAdj g (x, y, z) (xj, yj, zj) := by
  rw [faceAdj_iff_reach g hc hj, exists_lt_six, get_neighbors_rules]
  simp only [List.mem_cons, List.not_mem_nil, or_false, or_and_right, exists_or, exists_eq_left]
  obtain ⟨⟨hx0, hx1⟩, ⟨hy0, hy1⟩, ⟨hz0, hz1⟩⟩ := hc
  obtain ⟨⟨jx0, jx1⟩, ⟨jy0, jy1⟩, ⟨jz0, jz1⟩⟩ := hj
  apply twelve_split <;>
    simp only [reach, Prod.mk.injEq, decide_eq_true_eq, Bool.and_eq_true, beq_iff_eq]
  · cases g.px <;> simp <;> omega
  · cases g.px <;> simp <;> omega
  · cases g.py <;> simp <;> omega
  · cases g.py <;> simp <;> omega
  · cases g.pz <;> simp <;> omega
  · cases g.pz <;> simp <;> omega

theorem coordsOf_inGrid {g : GridShape} (hv : g.valid = true) {i : Int} (hi : 0 ≤ i ∧ i < (g.w : Int) * g.h * g.d) :
    inGrid g (coordsOf g i).1 (coordsOf g i).2.1 (coordsOf g i).2.2 ∧
    cellOf g (coordsOf g i).1 (coordsOf g i).2.1 (coordsOf g i).2.2 = i := by
  obtain ⟨hw, hh, _⟩ := GridShape.valid_pos hv
  obtain ⟨hx, hy, hz, hsum⟩ := encode_decode hw hh hi.1 hi.2
  refine ⟨⟨hx, hy, hz⟩, ?_⟩
  have e : ∀ X Y Z : Int, Z * ↑g.w * ↑g.h + Y * ↑g.w + X = X + Y * ↑g.w + Z * (↑g.w * ↑g.h) := fun _ _ _ => by ring
  simp only [cellOf, coordsOf, e]; exact hsum

/-- `get_cell_coordinates(i)` returns the coordinates of the Spec -/
theorem pyCoords_eq {g : GridShape} (hv : g.valid = true) {i : Int} (hi : 0 ≤ i ∧ i < (g.w : Int) * g.h * g.d) :
    pyCoords g i = .ok (coordsOf g i) := by
  obtain ⟨hin, hcell⟩ := coordsOf_inGrid hv hi
  have := coords_index g hin
  rw [hcell] at this
  exact this

theorem pyCellIndex_num {g : GridShape} {i : Int} (hi : 0 ≤ i ∧ i < (g.w : Int) * g.h * g.d) :
    pyCellIndex g (.num i) = .ok i := by
  have : pyWithinBounds g (.num i) = true := (within_bounds_iff g _).2 hi
  simp only [pyCellIndex, this, Bool.or_true, if_true, cellIndexNum]

/-- **get_neighbors_iff** — `get_neighbors(i)` succeeds and names exactly the face neighbours of cell `i` -/
theorem get_neighbors_iff {g : GridShape} (hv : g.valid = true) {i j : Int}
    (hi : 0 ≤ i ∧ i < (g.w : Int) * g.h * g.d) (hj : 0 ≤ j ∧ j < (g.w : Int) * g.h * g.d) :
    ∃ l, pyGetNeighbors g (.num i) = .ok l ∧ (j ∈ l ↔ faceAdj g (coordsOf g i) (coordsOf g j)) := by
  obtain ⟨ci, hci⟩ := coordsOf_inGrid hv hi
  obtain ⟨cj, hcj⟩ := coordsOf_inGrid hv hj
  generalize coordsOf g j = c2 at cj hcj ⊢
  obtain ⟨xj, yj, zj⟩ := c2
  have hc := pyCoords_eq hv hi
  generalize coordsOf g i = c1 at ci hci hc ⊢
  obtain ⟨x, y, z⟩ := c1
  let rules := (getNbrRules g.w g.h g.d g.px g.py g.pz x y z).filter (·.1)
  have hr : ∀ r ∈ rules, pyCellIndex g (.arr r.2.1 r.2.2.1 r.2.2.2) = .ok (cellOf g r.2.1 r.2.2.1 r.2.2.2) := by
    intro r hr
    obtain ⟨hm, hcnd⟩ := List.mem_filter.1 hr
    exact (index_formula g (get_neighbors_sound g ci r hm hcnd).1).1
  refine ⟨rules.map fun r => cellOf g r.2.1 r.2.2.1 r.2.2.2, ?_, ?_⟩
  · simp only [pyGetNeighbors, pyCellIndex_num hi, hc]
    exact seqRes_map_ok _ _ rules hr
  · rw [← get_neighbors_coords_iff g ci cj]
    simp only [List.mem_map, rules, List.mem_filter]
    constructor
    · rintro ⟨r, ⟨hm, hcnd⟩, he⟩
      refine ⟨r, hm, hcnd, ?_⟩
      have hin := (get_neighbors_sound g ci r hm hcnd).1
      rw [← hcj] at he
      obtain ⟨e1, e2, e3⟩ := index_injective g hin cj he
      exact Prod.ext e1 (Prod.ext e2 e3)
    · rintro ⟨r, hm, hcnd, he⟩
      exact ⟨r, ⟨hm, hcnd⟩, by rw [he]; exact hcj⟩

/-- the kinetics loop: six unit shifts, wrapped like the engine does (Python `%` = C++ `%` on the values that
occur) but only on a periodic axis longer than one cell -/
theorem kinetics_rules (x y z : Int) :
    kinDeltas x y z = [(x + 1, y, z), (x - 1, y, z), (x, y + 1, z), (x, y - 1, z), (x, y, z + 1), (x, y, z - 1)] ∧
    (∀ p n, kinWrapCond0 p n = (p && decide (n > 1)) ∧ kinWrapCond1 p n = (p && decide (n > 1)) ∧
      kinWrapCond2 p n = (p && decide (n > 1))) ∧ kinBoundsGuard = true ∧
    (∀ n c : Int, 0 < n → 0 ≤ n + c →
      kinWrap0 n c = wrapAxis0 n c ∧ kinWrap1 n c = wrapAxis1 n c ∧ kinWrap2 n c = wrapAxis2 n c) := by
  refine ⟨rfl, fun _ _ => ⟨rfl, rfl, rfl⟩, rfl, fun n c hn hc => ?_⟩
  simp only [kinWrap0, kinWrap1, kinWrap2, wrapAxis0, wrapAxis1, wrapAxis2,
    Int.fmod_eq_emod_of_nonneg _ (Int.le_of_lt hn), Int.tmod_eq_emod_of_nonneg hc, and_self]

/-! ### completeness of the kinetics enumeration -/

/-- one coordinate of a candidate of the kinetics loop: shifted, wrapped only on a periodic axis longer than one cell -/
def kstep (per : Bool) (n c δ : Int) : Int := if (per && decide (n > 1)) = true then (n + (c + δ)) % n else c + δ

theorem kstep_zero {per : Bool} {n c : Int} (hc : 0 ≤ c ∧ c < n) : kstep per n c 0 = c := by
  unfold kstep; split
  · rw [Int.add_zero, wrap_same hc.1 hc.2]
  · omega

theorem kstep_plus_iff {per : Bool} {n c b : Int} (hc : 0 ≤ c ∧ c < n) (hb : 0 ≤ b ∧ b < n) :
    b = kstep per n c 1 ↔ ((b = c + 1 ∧ b < n) ∨ (per = true ∧ c = n - 1 ∧ b = 0)) ∧ c ≠ b := by
  unfold kstep
  cases per
  · simp; omega
  · by_cases hn : n > 1
    · simp only [Bool.true_and, hn, decide_true, if_true, true_and, wrap_succ hc.1 hc.2]; split <;> omega
    · simp [hn]; omega

theorem kstep_minus_iff {per : Bool} {n c b : Int} (hc : 0 ≤ c ∧ c < n) (hb : 0 ≤ b ∧ b < n) :
    b = kstep per n c (-1) ↔ ((c = b + 1 ∧ 0 ≤ b) ∨ (per = true ∧ c = 0 ∧ b = n - 1)) ∧ c ≠ b := by
  unfold kstep
  cases per
  · simp; omega
  · by_cases hn : n > 1
    · simp only [Bool.true_and, hn, decide_true, if_true, true_and, show c + -1 = c - 1 by ring, wrap_pred hc.1 hc.2]; split <;> omega
    · simp [hn]; omega

/-- the six candidates of the kinetics loop for an in-grid cell -/
theorem kinCandidates_eq (g : GridShape) {x y z : Int} (hc : inGrid g x y z) :
    kinCandidates g x y z = [(kstep g.px g.w x 1, y, z), (kstep g.px g.w x (-1), y, z), (x, kstep g.py g.h y 1, z),
      (x, kstep g.py g.h y (-1), z), (x, y, kstep g.pz g.d z 1), (x, y, kstep g.pz g.d z (-1))] := by
  obtain ⟨hx, hy, hz⟩ := hc
  have ex := kstep_zero (per := g.px) hx
  have ey := kstep_zero (per := g.py) hy
  have ez := kstep_zero (per := g.pz) hz
  have fw : ∀ c : Int, Int.fmod ((g.w : Int) + c) g.w = ((g.w : Int) + c) % g.w := fun c => Int.fmod_eq_emod_of_nonneg _ (by omega)
  have fh : ∀ c : Int, Int.fmod ((g.h : Int) + c) g.h = ((g.h : Int) + c) % g.h := fun c => Int.fmod_eq_emod_of_nonneg _ (by omega)
  have fd : ∀ c : Int, Int.fmod ((g.d : Int) + c) g.d = ((g.d : Int) + c) % g.d := fun c => Int.fmod_eq_emod_of_nonneg _ (by omega)
  simp only [kstep, Int.add_zero] at ex ey ez
  simp only [kinCandidates, kinDeltas, List.map_cons, List.map_nil, kinWrapCond0, kinWrapCond1, kinWrapCond2, kinWrap0, kinWrap1,
    kinWrap2, fw, fh, fd, kstep, ex, ey, ez, Int.sub_eq_add_neg]

private theorem six_and (K0 K1 K2 K3 K4 K5 R0 R1 R2 R3 R4 R5 N : Prop)
    (h0 : K0 ↔ R0 ∧ N) (h1 : K1 ↔ R1 ∧ N) (h2 : K2 ↔ R2 ∧ N) (h3 : K3 ↔ R3 ∧ N) (h4 : K4 ↔ R4 ∧ N) (h5 : K5 ↔ R5 ∧ N) :
    (K0 ∨ K1 ∨ K2 ∨ K3 ∨ K4 ∨ K5) ↔ (R0 ∨ R1 ∨ R2 ∨ R3 ∨ R4 ∨ R5) ∧ N := by
  rw [h0, h1, h2, h3, h4, h5]; simp only [or_and_right]

/-- coordinate level: the candidates of the kinetics loop that lie in the grid are exactly the face neighbours
other than the cell itself -/
theorem kinetics_coords_iff (g : GridShape) {x y z xj yj zj : Int} (hc : inGrid g x y z) (hj : inGrid g xj yj zj) :
    (xj, yj, zj) ∈ kinCandidates g x y z ↔ faceAdj g (x, y, z) (xj, yj, zj) ∧ (x, y, z) ≠ (xj, yj, zj) := by
  rw [faceAdj_iff_reach g hc hj, exists_lt_six, kinCandidates_eq g hc]
  simp only [List.mem_cons, Prod.mk.injEq, List.not_mem_nil, or_false]
  obtain ⟨hx, hy, hz⟩ := hc
  obtain ⟨jx, jy, jz⟩ := hj
  apply six_and <;> simp only [kstep_plus_iff hx jx, kstep_minus_iff hx jx, kstep_plus_iff hy jy, kstep_minus_iff hy jy,
    kstep_plus_iff hz jz, kstep_minus_iff hz jz, reach, ne_eq, Prod.mk.injEq]
  · cases g.px <;> simp <;> omega
  · cases g.px <;> simp <;> omega
  · cases g.py <;> simp <;> omega
  · cases g.py <;> simp <;> omega
  · cases g.pz <;> simp <;> omega
  · cases g.pz <;> simp <;> omega

theorem coordsOf_cellOf {g : GridShape} {x y z : Int} (hc : inGrid g x y z) : coordsOf g (cellOf g x y z) = (x, y, z) := by
  have hw : (0 : Int) < g.w := by have := hc.1; omega
  have e : cellOf g x y z = x + y * g.w + z * (g.w * g.h) := by unfold cellOf; ring
  obtain ⟨d1, d2, d3⟩ := decode_encode (z := z) hw hc.1.1 hc.1.2 hc.2.1.1 hc.2.1.2
  simp only [coordsOf, e, d1, d2, d3]

theorem cellOf_range {g : GridShape} {x y z : Int} (hc : inGrid g x y z) :
    0 ≤ cellOf g x y z ∧ cellOf g x y z < (g.w : Int) * g.h * g.d := by
  have e : cellOf g x y z = x + y * g.w + z * (g.w * g.h) := by unfold cellOf; ring
  rw [e]; exact encode_range hc.1.1 hc.1.2 hc.2.1.1 hc.2.1.2 hc.2.2.1 hc.2.2.2

/-- `are_neighbors(i, j)` on two cell indices = the distance test on their coordinates -/
theorem pyAreNeighbors_num {g : GridShape} (hv : g.valid = true) {i j : Int}
    (hi : 0 ≤ i ∧ i < (g.w : Int) * g.h * g.d) (hj : 0 ≤ j ∧ j < (g.w : Int) * g.h * g.d) :
    pyAreNeighbors g (.num i) (.num j) = .ok (areNbrCoords g (coordsOf g i) (coordsOf g j)) := by
  have b1 : pyWithinBounds g (.num i) = true := (within_bounds_iff g _).2 hi
  have b2 : pyWithinBounds g (.num j) = true := (within_bounds_iff g _).2 hj
  simp only [pyAreNeighbors, b1, b2, Bool.not_true, Bool.and_false, Bool.false_eq_true, if_false, pyCellIndex_num hi, pyCellIndex_num hj,
    pyCoords_eq hv hi, pyCoords_eq hv hj]

/-- **kinetics_enum_iff** — the neighbour loop of `_compute_dspeciesdt_grid` raises for no cell and adds the diffusion
terms of exactly the cells `are_neighbors` accepts (= the face neighbours other than the cell itself) -/
theorem kinetics_enum_iff {g : GridShape} (hv : g.valid = true) {i j : Int}
    (hi : 0 ≤ i ∧ i < (g.w : Int) * g.h * g.d) (hj : 0 ≤ j ∧ j < (g.w : Int) * g.h * g.d) :
    ∃ l, kinNeighbors g (.num i) = .ok l ∧
      (j ∈ l ↔ areNbrCoords g (coordsOf g i) (coordsOf g j) = true) ∧
      (j ∈ l ↔ faceAdj g (coordsOf g i) (coordsOf g j) ∧ i ≠ j) := by
  obtain ⟨ci, hci⟩ := coordsOf_inGrid hv hi
  obtain ⟨cj, hcj⟩ := coordsOf_inGrid hv hj
  have hc := pyCoords_eq hv hi
  have hguard : kinBoundsGuard = true := rfl
  generalize hcoi : coordsOf g i = c1 at ci hci hc ⊢
  obtain ⟨x, y, z⟩ := c1
  let L := (kinCandidates g x y z).filter fun c => (!kinBoundsGuard) || withinBoundsArr g.w g.h g.d c.1 c.2.1 c.2.2
  have hL : ∀ c ∈ L, inGrid g c.1 c.2.1 c.2.2 ∧ c ∈ kinCandidates g x y z := by
    intro c hcL
    obtain ⟨hm, hb⟩ := List.mem_filter.1 hcL
    simp only [hguard, Bool.not_true, Bool.false_or] at hb
    exact ⟨(bounds_arr_iff _ _ _ _ _ _).1 hb, hm⟩
  have hadj : ∀ c ∈ L, areNbrCoords g (x, y, z) c = true := by
    intro c hcL
    obtain ⟨hin, hm⟩ := hL c hcL
    exact (are_neighbors_iff g ci hin).2 ((kinetics_coords_iff g ci hin).1 hm)
  have hf : ∀ c ∈ L, (match pyCellIndex g (.arr c.1 c.2.1 c.2.2) with
      | .error e => .error e
      | .ok j' => match pyCellIndex g (.arr x y z) with
        | .error e => .error e
        | .ok i' => match pyAreNeighbors g (.num i') (.num j') with
          | .error e => .error e
          | .ok true => .ok j'
          | .ok false => .error .badValue : Res Int) = .ok (cellOf g c.1 c.2.1 c.2.2) := by
    intro c hcL
    obtain ⟨hin, _⟩ := hL c hcL
    have e1 := (index_formula g hin).1
    have e2 := (index_formula g ci).1
    rw [hci] at e2
    have e3 := pyAreNeighbors_num hv hi (cellOf_range hin)
    rw [hcoi, coordsOf_cellOf hin, hadj c hcL] at e3
    simp only [e1, e2, e3]
  refine ⟨L.map fun c => cellOf g c.1 c.2.1 c.2.2, ?_, ?_⟩
  · simp only [kinNeighbors, pyCellIndex_num hi, hc]
    exact seqRes_map_ok _ _ L hf
  · have hmem : j ∈ L.map (fun c => cellOf g c.1 c.2.1 c.2.2) ↔ coordsOf g j ∈ kinCandidates g x y z := by
      simp only [List.mem_map]
      constructor
      · rintro ⟨c, hcL, he⟩
        obtain ⟨hin, hm⟩ := hL c hcL
        rw [← hcj] at he
        obtain ⟨e1, e2, e3⟩ := index_injective g hin cj he
        have : c = coordsOf g j := Prod.ext e1 (Prod.ext e2 e3)
        rw [← this]; exact hm
      · intro hm
        refine ⟨coordsOf g j, List.mem_filter.2 ⟨hm, ?_⟩, hcj⟩
        simp only [hguard, Bool.not_true, Bool.false_or]
        exact (bounds_arr_iff _ _ _ _ _ _).2 cj
    have hk := kinetics_coords_iff g ci cj
    have hne : (x, y, z) ≠ coordsOf g j ↔ i ≠ j := by
      constructor
      · intro h e; subst e; exact h hcoi.symm
      · intro h e; apply h; rw [← hci, ← hcj, ← e]
    constructor
    · rw [hmem, hk, are_neighbors_iff g ci cj]
    · rw [hmem, hk, hne]

/-- `get_neighbors(i)` and `are_neighbors(i, ·)` agree on every other cell -/
theorem get_neighbors_iff_are_neighbors {g : GridShape} (hv : g.valid = true) {i j : Int}
    (hi : 0 ≤ i ∧ i < (g.w : Int) * g.h * g.d) (hj : 0 ≤ j ∧ j < (g.w : Int) * g.h * g.d) (hne : i ≠ j) :
    ∃ l, pyGetNeighbors g (.num i) = .ok l ∧ (j ∈ l ↔ pyAreNeighbors g (.num i) (.num j) = .ok true) := by
  obtain ⟨l, hl, hm⟩ := get_neighbors_iff hv hi hj
  obtain ⟨ci, hci⟩ := coordsOf_inGrid hv hi
  obtain ⟨cj, hcj⟩ := coordsOf_inGrid hv hj
  refine ⟨l, hl, ?_⟩
  rw [hm, pyAreNeighbors_num hv hi hj]
  have hne' : coordsOf g i ≠ coordsOf g j := fun e => hne (by rw [← hci, ← hcj, e])
  have := are_neighbors_iff g ci cj
  constructor
  · intro h; rw [this.2 ⟨h, hne'⟩]
  · intro h; injection h with h; exact (this.1 h).1

/-- `compute_diffusion_rates` refuses non-neighbours through `are_neighbors` (grid) / `get_edge` (graph) -/
theorem diffusion_rates_neighbour_tests :
    diffRateNbrTests = ["type(system.space)==RDGridSpaceandnotsystem.space.are_neighbors(src_position_index,dst_position_index)",
      "type(system.space)==RDGraphSpaceandsystem.space.get_edge(src_position_index,dst_position_index)isNone"] := by
  decide +kernel

/-! ## `grid_to_graph` -/

/-- source of the geometry: `edge_dst = cell_vol**(1/3)`, `edge_sfc = edge_dst**2`; node volume / environment and the
units system are copied; the loops enumerate every cell once and every periodic axis once -/
theorem grid_to_graph_source :
    g2gEdgeDst = "(grid.cell_vol)**(1/3)" ∧ g2gEdgeSfc = "edge_dst**2" ∧
    g2gNodeArgs = [("volume", "grid.cell_vol.copy()"), ("environment", "grid.cell_env[i]"), ("units_system", "grid.units_system")] ∧
    g2gEdgeArgs = [("distance", "edge_dst"), ("surface", "edge_sfc"), ("units_system", "grid.units_system")] ∧
    g2gGraphCtor = "RDGraphSpace(nodes=nodes,edges=edges,units_system=grid.units_system)" ∧
    g2gInnerLoops = [("z", "grid.d"), ("y", "grid.h"), ("x", "grid.w")] ∧ g2gPerOrder = ["x", "y", "z"] ∧
    g2gPerLoops0 = [("z", "grid.d"), ("y", "grid.h")] ∧ g2gPerLoops1 = [("z", "grid.d"), ("x", "grid.w")] ∧
    g2gPerLoops2 = [("y", "grid.h"), ("x", "grid.w")] := by decide +kernel

/-- the edge rules: one edge per inner face (towards +x, +y, +z) and one per face pair of a periodic axis -/
theorem grid_to_graph_rules (w h d x y z : Int) :
    g2gInnerRules w h d x y z = [(decide (x < w - 1), (x, y, z), (x + 1, y, z)), (decide (y < h - 1), (x, y, z), (x, y + 1, z)),
      (decide (z < d - 1), (x, y, z), (x, y, z + 1))] ∧
    g2gPerI0 w h d x y z = (w - 1, y, z) ∧ g2gPerJ0 w h d x y z = (0, y, z) ∧
    g2gPerI1 w h d x y z = (x, h - 1, z) ∧ g2gPerJ1 w h d x y z = (x, 0, z) ∧
    g2gPerI2 w h d x y z = (x, y, d - 1) ∧ g2gPerJ2 w h d x y z = (x, y, 0) := ⟨rfl, rfl, rfl, rfl, rfl, rfl, rfl⟩

/-- geometry: every node keeps the cell volume `a³` and its environment, every edge has the cell face `a²` as
contact surface and the cell edge `a` as distance -/
theorem grid_to_graph_geometry {g : GridShape} {a : Rat} {envs : List Int} {gr : Graph}
    (h : gridToGraph g a envs = .ok gr) :
    gr.nodes = envs.map (fun e => ⟨a * a * a, e⟩) ∧ (∀ e ∈ gr.edges, e.surface = a * a ∧ e.distance = a) ∧
    gr.nodes.length = envs.length := by
  unfold gridToGraph at h
  split at h
  · cases h
  · cases h
    refine ⟨rfl, ?_, by simp⟩
    intro e he
    simp only [List.mem_map] at he
    obtain ⟨p, _, rfl⟩ := he
    exact ⟨rfl, rfl⟩

/-! ### adjacency of `grid_to_graph`: edges = face pairs, with multiplicity -/

theorem idxC_eq (g : GridShape) (c : Coord) : idxC g c = cellOf g c.1 c.2.1 c.2.2 := by
  simp only [idxC, cellIndexArr, cellOf]; ring

/-- the negative faces of `c1` are the positive faces seen from the other cell -/
theorem reach_neg_iff (g : GridShape) {c1 c2 : Coord} (h1 : inGrid g c1.1 c1.2.1 c1.2.2) (h2 : inGrid g c2.1 c2.2.1 c2.2.2) :
    (reach g 1 c1 c2 ↔ reach g 0 c2 c1) ∧ (reach g 3 c1 c2 ↔ reach g 2 c2 c1) ∧ (reach g 5 c1 c2 ↔ reach g 4 c2 c1) := by
  obtain ⟨x1, y1, z1⟩ := c1
  obtain ⟨x2, y2, z2⟩ := c2
  dsimp only at h1 h2
  obtain ⟨⟨a0, a1⟩, ⟨b0, b1⟩, ⟨c0, c1'⟩⟩ := h1
  obtain ⟨⟨d0, d1⟩, ⟨e0, e1⟩, ⟨f0, f1⟩⟩ := h2
  simp only [reach]
  refine ⟨?_, ?_, ?_⟩
  · cases g.px <;> simp <;> omega
  · cases g.py <;> simp <;> omega
  · cases g.pz <;> simp <;> omega

/-- the faces between two cells = the directed edges one way + the directed edges the other way -/
theorem faceCount_eq_edge_count (g : GridShape) {c1 c2 : Coord} (h1 : inGrid g c1.1 c1.2.1 c1.2.2) (h2 : inGrid g c2.1 c2.2.1 c2.2.2) :
    faceCount g c1 c2 = (coordEdges g).count (c1, c2) + (coordEdges g).count (c2, c1) := by
  obtain ⟨r1, r3, r5⟩ := reach_neg_iff g h1 h2
  rw [faceCount_eq_sum, count_coordEdges g h1, count_coordEdges g h2]
  simp only [r1, r3, r5]
  omega

/-- `get_edge(i, j)` finds an edge iff one joins `i` and `j` in either orientation -/
theorem get_edge_iff (edges : List PyGEdge) (i j : Int) :
    (getEdge edges i j).isSome = true ↔ ∃ e ∈ edges, (e.i = i ∧ e.j = j) ∨ (e.i = j ∧ e.j = i) := by
  simp [getEdge, edgeMatches]

theorem get_edge_symm (edges : List PyGEdge) (i j : Int) : (getEdge edges i j).isSome = (getEdge edges j i).isSome := by
  rw [Bool.eq_iff_iff, get_edge_iff, get_edge_iff]
  constructor <;> (rintro ⟨e, he, h⟩; exact ⟨e, he, h.symm⟩)

/-- number of edges of `grid_to_graph` oriented from cell `c1` to cell `c2` -/
theorem edge_filter_count {g : GridShape} (hv : g.valid = true) {a : Rat} {envs : List Int} {gr : Graph}
    (h : gridToGraph g a envs = .ok gr) {c1 c2 : Coord} (h1 : inGrid g c1.1 c1.2.1 c1.2.2) (h2 : inGrid g c2.1 c2.2.1 c2.2.2) :
    (gr.edges.filter fun e => e.i == cellOf g c1.1 c1.2.1 c1.2.2 && e.j == cellOf g c2.1 c2.2.1 c2.2.2).length =
      (coordEdges g).count (c1, c2) := by
  rw [gridToGraph_ok g hv a envs] at h
  cases h
  simp only [← List.countP_eq_length_filter, List.countP_map, List.count_eq_countP]
  apply List.countP_congr
  intro p hp
  obtain ⟨p1, p2⟩ := coordEdges_inGrid g hv p hp
  simp only [Function.comp, idxC_eq, Bool.and_eq_true, beq_iff_eq]
  constructor
  · rintro ⟨e1, e2⟩
    obtain ⟨a1, a2, a3⟩ := index_injective g p1 h1 e1
    obtain ⟨b1, b2, b3⟩ := index_injective g p2 h2 e2
    exact Prod.ext (Prod.ext a1 (Prod.ext a2 a3)) (Prod.ext b1 (Prod.ext b2 b3))
  · rintro rfl; exact ⟨rfl, rfl⟩

/-- **grid_to_graph_adjacency** — for every valid grid (all sizes, all 8 boundary settings) the edges of
`grid_to_graph(grid)` are exactly the face pairs of the grid, periodic ones included:
(1) every edge joins two face-adjacent cells; (2) every face pair is joined by an edge (`get_edge` finds it, in both
argument orders); (3) multiplicity: the number of edges between two cells, counted in both orientations, is the number
of faces through which they touch (`faceCount`: 1 in general, 2 across a periodic axis of length 2; for a cell with itself
each self-loop counts twice = 2 per periodic axis of length 1) — the same multiplicities as the engine's table
(`engine_nbr_count`) -/
theorem grid_to_graph_adjacency {g : GridShape} (hv : g.valid = true) {a : Rat} {envs : List Int} {gr : Graph}
    (h : gridToGraph g a envs = .ok gr) :
    (∀ e ∈ gr.edges, ∃ c1 c2 : Coord, inGrid g c1.1 c1.2.1 c1.2.2 ∧ inGrid g c2.1 c2.2.1 c2.2.2 ∧
      e.i = cellOf g c1.1 c1.2.1 c1.2.2 ∧ e.j = cellOf g c2.1 c2.2.1 c2.2.2 ∧ faceAdj g c1 c2) ∧
    (∀ c1 c2 : Coord, inGrid g c1.1 c1.2.1 c1.2.2 → inGrid g c2.1 c2.2.1 c2.2.2 → faceAdj g c1 c2 →
      (getEdge gr.edges (cellOf g c1.1 c1.2.1 c1.2.2) (cellOf g c2.1 c2.2.1 c2.2.2)).isSome = true ∧
      (getEdge gr.edges (cellOf g c2.1 c2.2.1 c2.2.2) (cellOf g c1.1 c1.2.1 c1.2.2)).isSome = true) ∧
    (∀ c1 c2 : Coord, inGrid g c1.1 c1.2.1 c1.2.2 → inGrid g c2.1 c2.2.1 c2.2.2 →
      (gr.edges.filter fun e => e.i == cellOf g c1.1 c1.2.1 c1.2.2 && e.j == cellOf g c2.1 c2.2.1 c2.2.2).length +
      (gr.edges.filter fun e => e.i == cellOf g c2.1 c2.2.1 c2.2.2 && e.j == cellOf g c1.1 c1.2.1 c1.2.2).length =
        faceCount g c1 c2) := by
  have h3 : ∀ c1 c2 : Coord, inGrid g c1.1 c1.2.1 c1.2.2 → inGrid g c2.1 c2.2.1 c2.2.2 →
      (gr.edges.filter fun e => e.i == cellOf g c1.1 c1.2.1 c1.2.2 && e.j == cellOf g c2.1 c2.2.1 c2.2.2).length +
      (gr.edges.filter fun e => e.i == cellOf g c2.1 c2.2.1 c2.2.2 && e.j == cellOf g c1.1 c1.2.1 c1.2.2).length =
        faceCount g c1 c2 := by
    intro c1 c2 h1 h2
    rw [edge_filter_count hv h h1 h2, edge_filter_count hv h h2 h1, faceCount_eq_edge_count g h1 h2]
  refine ⟨?_, ?_, h3⟩
  · intro e he
    have hg := h
    rw [gridToGraph_ok g hv a envs] at hg
    cases hg
    simp only [List.mem_map] at he
    obtain ⟨p, hp, rfl⟩ := he
    obtain ⟨p1, p2⟩ := coordEdges_inGrid g hv p hp
    refine ⟨p.1, p.2, p1, p2, idxC_eq g p.1, idxC_eq g p.2, ?_⟩
    have hpos : 0 < (coordEdges g).count (p.1, p.2) := List.count_pos_iff.2 hp
    rw [count_coordEdges g p1] at hpos
    rw [faceAdj_iff_reach g p1 p2]
    by_cases r0 : reach g 0 p.1 p.2
    · exact ⟨0, by omega, r0⟩
    by_cases r2 : reach g 2 p.1 p.2
    · exact ⟨2, by omega, r2⟩
    by_cases r4 : reach g 4 p.1 p.2
    · exact ⟨4, by omega, r4⟩
    simp [r0, r2, r4] at hpos
  · intro c1 c2 h1 h2 hadj
    have hc := h3 c1 c2 h1 h2
    have hpos : 0 < faceCount g c1 c2 := by
      obtain ⟨n, hn, hr⟩ := (faceAdj_iff_reach g h1 h2).1 hadj
      unfold faceCount
      exact List.length_pos_of_mem (List.mem_filter.2 ⟨List.mem_range.2 hn, by simpa using hr⟩)
    have hex : ∃ e ∈ gr.edges, (e.i = cellOf g c1.1 c1.2.1 c1.2.2 ∧ e.j = cellOf g c2.1 c2.2.1 c2.2.2) ∨
        (e.i = cellOf g c2.1 c2.2.1 c2.2.2 ∧ e.j = cellOf g c1.1 c1.2.1 c1.2.2) := by
      rw [← hc] at hpos
      rcases Nat.add_pos_iff_pos_or_pos.1 hpos with hp | hp
      · obtain ⟨e, he⟩ := List.exists_mem_of_length_pos hp
        obtain ⟨hm, hcond⟩ := List.mem_filter.1 he
        simp only [Bool.and_eq_true, beq_iff_eq] at hcond
        exact ⟨e, hm, Or.inl hcond⟩
      · obtain ⟨e, he⟩ := List.exists_mem_of_length_pos hp
        obtain ⟨hm, hcond⟩ := List.mem_filter.1 he
        simp only [Bool.and_eq_true, beq_iff_eq] at hcond
        exact ⟨e, hm, Or.inr hcond⟩
    have := (get_edge_iff gr.edges _ _).2 hex
    exact ⟨this, by rw [← get_edge_symm]; exact this⟩

/-- index level: `get_edge(i, j)` on `grid_to_graph(grid)` finds an edge iff cells `i` and `j` are face-adjacent -/
theorem grid_to_graph_get_edge_iff {g : GridShape} (hv : g.valid = true) {a : Rat} {envs : List Int} {gr : Graph}
    (h : gridToGraph g a envs = .ok gr) {i j : Int}
    (hi : 0 ≤ i ∧ i < (g.w : Int) * g.h * g.d) (hj : 0 ≤ j ∧ j < (g.w : Int) * g.h * g.d) :
    (getEdge gr.edges i j).isSome = true ↔ faceAdj g (coordsOf g i) (coordsOf g j) := by
  obtain ⟨ci, hci⟩ := coordsOf_inGrid hv hi
  obtain ⟨cj, hcj⟩ := coordsOf_inGrid hv hj
  obtain ⟨hsound, hcomplete, _⟩ := grid_to_graph_adjacency hv h
  constructor
  · intro hs
    obtain ⟨e, he, hor⟩ := (get_edge_iff gr.edges i j).1 hs
    obtain ⟨c1, c2, h1, h2, e1, e2, hadj⟩ := hsound e he
    have sym : faceAdj g c2 c1 := by
      rw [faceAdj_iff_reach g h2 h1]
      obtain ⟨n, hn, hr⟩ := (faceAdj_iff_reach g h1 h2).1 hadj
      obtain ⟨r1, r3, r5⟩ := reach_neg_iff g h2 h1
      obtain ⟨q1, q3, q5⟩ := reach_neg_iff g h1 h2
      have h6 : n = 0 ∨ n = 1 ∨ n = 2 ∨ n = 3 ∨ n = 4 ∨ n = 5 := by omega
      rcases h6 with rfl | rfl | rfl | rfl | rfl | rfl
      · exact ⟨1, by omega, r1.2 hr⟩
      · exact ⟨0, by omega, q1.1 hr⟩
      · exact ⟨3, by omega, r3.2 hr⟩
      · exact ⟨2, by omega, q3.1 hr⟩
      · exact ⟨5, by omega, r5.2 hr⟩
      · exact ⟨4, by omega, q5.1 hr⟩
    rcases hor with ⟨a1, a2⟩ | ⟨a1, a2⟩
    · have x1 : c1 = coordsOf g i := by
        obtain ⟨u, v, w⟩ := index_injective g h1 ci (by rw [← e1, a1, hci]); exact Prod.ext u (Prod.ext v w)
      have x2 : c2 = coordsOf g j := by
        obtain ⟨u, v, w⟩ := index_injective g h2 cj (by rw [← e2, a2, hcj]); exact Prod.ext u (Prod.ext v w)
      rw [← x1, ← x2]; exact hadj
    · have x1 : c1 = coordsOf g j := by
        obtain ⟨u, v, w⟩ := index_injective g h1 cj (by rw [← e1, a1, hcj]); exact Prod.ext u (Prod.ext v w)
      have x2 : c2 = coordsOf g i := by
        obtain ⟨u, v, w⟩ := index_injective g h2 ci (by rw [← e2, a2, hci]); exact Prod.ext u (Prod.ext v w)
      rw [← x1, ← x2]; exact sym
  · intro hadj
    have := (hcomplete _ _ ci cj hadj).1
    rw [hci, hcj] at this
    exact this

/-! ## non-vacuity -/

example : (⟨2, 2, 1, true, false, false⟩ : GridShape).valid = true ∧
    engNbr? ⟨2, 2, 1, true, false, false⟩ 0 1 = some 1 ∧ engNbr? ⟨2, 2, 1, true, false, false⟩ 1 0 = some 0 := by decide +kernel
example : pyAreNeighbors ⟨3, 1, 1, true, false, false⟩ (.num 0) (.arr 2 0 0) = .ok true ∧
    pyAreNeighbors ⟨3, 1, 1, false, false, false⟩ (.num 0) (.arr 2 0 0) = .ok false := by decide +kernel
example : (gridToGraph ⟨2, 1, 1, true, false, false⟩ (1/2) [0, 1]).map (·.edges) =
    .ok [⟨0, 1, 1/4, 1/2⟩, ⟨1, 0, 1/4, 1/2⟩] := by decide +kernel

end Strengths.C15
