/-
C15 — Grid geometry is consistent everywhere, and a grid equals its graph.
(first instalment: bounds predicates; the rest follows)
-/
import Strengths.Model.GridGraph

namespace Strengths.C15
open Strengths Strengths.Gen

/-- linear form: accepted iff `0 ≤ p < size` -/
theorem bounds_num_iff (size p : Int) : withinBoundsNum size p = true ↔ 0 ≤ p ∧ p < size := by
  simp [withinBoundsNum]

theorem bounds_arr_iff (w h d x y z : Int) :
    withinBoundsArr w h d x y z = true ↔ (0 ≤ x ∧ x < w) ∧ (0 ≤ y ∧ y < h) ∧ (0 ≤ z ∧ z < d) := by
  simp [withinBoundsArr, and_assoc]

theorem bounds_obj_iff (w h d x y z : Int) :
    withinBoundsObj w h d x y z = true ↔ (0 ≤ x ∧ x < w) ∧ (0 ≤ y ∧ y < h) ∧ (0 ≤ z ∧ z < d) := by
  simp [withinBoundsObj, and_assoc]

end Strengths.C15
