/-
C01 — Deterministic rate law (work in progress: tie theorems first).
-/
import Strengths.Model.Kinetics
import Strengths.Spec.Rate

namespace Strengths.C01
open Strengths Strengths.Gen

/-- the marshalling subscripts written by `build_*_matrix` are the ones the engine reads -/
theorem marshal_index_agree (nr ne s r e : Int) :
    pySubIndex nr s r = subIndex nr s r ∧ pyStoIndex nr s r = stoIndex nr s r ∧ pyDIndex ne s e = dIndex ne s e := by
  simp [pySubIndex, subIndex, pyStoIndex, stoIndex, pyDIndex, dIndex]

end Strengths.C01
