/-
C01 — Deterministic rate law: mass-action reactions plus Bernstein diffusion.

Spec: `Strengths.Spec.rate` (Spec/Rate.lean), the closed formula of the statement, written once.
Models: `Model/Kinetics.lean` (Python: compute_reaction_rates, compute_diffusion_rates, _compute_dspeciesdt_grid/_graph,
compute_dstatedt, make_dxdtf, librdengine marshalling) and `Model/Engine.lean` (C++ Euler: Build_mesh_kr, Build_mesh_kd,
ReactionRate, DiffusionRateDifference, Compute_dxdt, Apply_dxdt).

What is proved here, for ALL networks / spaces / states (no bounds):
* `euler_dxdt_eq_rate_graph`, `euler_step_graph` : on every graph (parallel edges and self-loops included) the Euler
  derivative of a non-chemostated entry IS `rate`, and one step is `x + dt·rate x`;
* `euler_dxdt_eq_rate_grid_all`, `euler_step_grid_all` : the same on EVERY valid grid, unconditionally (round 2: the slot list
  of `GetNeighborIndex` is proved equal to `Spec.gridNbrs` in Proofs/GridRate.lean, the involution in Proofs/Grid.lean);
* `euler_dxdt_eq_rate_grid`, `euler_step_grid` : the conditional forms, kept: the same on every grid, under the named geometry hypothesis
  `EngGridOKAt g i` (the engine's neighbour table lists the Spec's six-neighbourhood and is involutive); the involution
  is discharged for every valid grid by `nbr_involutive` (Proofs/Grid.lean) in `euler_dxdt_eq_rate_grid_valid`, which
  leaves ONE hypothesis: the six slots of `GetNeighborIndex` list `Spec.gridNbrs` (same order).  It is decided by kernel
  evaluation on concrete grids (see the examples) and exercised by the correspondence on every run.  PARTIAL in that sense.
* `marshal_*` : the tables written by `build_*_matrix` are read back by the engine's generated index formulas
  (`k[e*nr+r]`, `sub/sto[s*nr+r]`, `D[s*ne+e]`), reversible reactions are split as (2r, 2r+1), and what they contain is the
  physical system expressed in the engine's units;
* `pyRateLoop_dim`, `rate_dim_amount_per_time`, `k_dimension` : the loop of `compute_reaction_rates` returns a quantity of
  dimension `dim k + dim V + n·(dim x − dim V)`, which is amount/time for a rate constant of EVERY order `n`
  (`dim k = (3n−3, −1, 1−n)`, generated from `kf_units_dimensions`);
* source ties (`by decide` on regenerated text): rate-constant dimensions `(3n−3, −1, 1−n)`, the formulas of
  compute_reaction_rates / compute_diffusion_rates / the accumulation statements, get_value_in_env order, loop orders.

Round 2 — the Python side:
* `kinetics_eq_rate_grid` (every valid grid), `kinetics_eq_rate_graph_simple` (graphs without parallel edges / self-loops),
  `kinetics_eq_rate_graph` (any graph, over the interfaces the Python loop visits): whenever `compute_dspeciesdt` returns,
  the SI value it returns IS the rate law (partial correctness: the functions' error branches — dimension mismatch of a
  hand-made state array, zero volume, zero distance — are modelled and simply excluded by "returns");
* `kinetics_euler_agree_grid` / `_graph`: Python kinetics value = rate = Euler derivative of the marshalled system
  (with `dxdtf_eq_rate` of Props/C01Dxdtf.lean, for size-1 systems, this is `three_agree`);
Round 3 (Props/C01Total.lean): totality and dimension — on valid systems the kinetics functions return, with dimension
amount/time, for every entry (`kinetics_total_graph`, `kinetics_total_grid`, `kinetics_eq_rate_*_total`).
Round 7 (Props/C01Marshal.lean): the step from "tables agree pointwise" (`marshal_read_*`, `split_layout`) to `eulerDxdt` on the
DECODED marshalled arrays: `eulerDxdt_congr`, `marshal_euler_eq_rate_graph/_grid` (every units system of the engine),
`kinetics_marshal_euler_agree_*` (SI).  Left there as `marshal_euler_general_units_partial`: reading the rate in `U` as the SI
rate needs `physInU = scalePhys (physOfPy)`, i.e. the dimension invariants `buildSystem` establishes.
NOT proved: float rounding.
-/
import Strengths.Proofs.Kinetics
import Strengths.Proofs.Units
import Strengths.Proofs.Grid
import Strengths.Proofs.GridRate
import Strengths.Proofs.KineticsPy
import Strengths.Proofs.KineticsGrid
import Strengths.Proofs.KineticsGraph

namespace Strengths.C01
open Strengths Strengths.Gen Strengths.Spec

/-! ## The Euler engine realises the rate law -/

/-- graphs: for every edge list (parallel edges, self-loops, isolated nodes), every network and every state -/
theorem euler_dxdt_eq_rate_graph (P : Phys) (nEnv : Nat) (edges : List GEdge) (chem : Nat → Nat → Bool) (x : State)
    (i s : Nat) (hV : P.vol i ≠ 0) (hfaces : P.faces i = (graphSlots edges i).map faceOfSlot) (hc : chem i s = false) :
    eulerDxdt (engOfPhysGraph P nEnv edges chem) x i s = rate P x.get s i := by
  unfold eulerDxdt
  have hc' : (engOfPhysGraph P nEnv edges chem).chem i s = false := hc
  rw [hc']
  simp only [Bool.false_eq_true, if_false]
  have hr : (List.range (engOfPhysGraph P nEnv edges chem).net.nReact).foldl
      (fun acc r => acc + ((engOfPhysGraph P nEnv edges chem).net.sto s r : Rat) * reactionRate (engOfPhysGraph P nEnv edges chem) x i r) 0
        = reactionPart P x.get s i :=
    reaction_sum_eq P nEnv (graphTopo P.nCells edges (netOfPhys P nEnv) P.env P.vol P.edge) chem x i s hV
  rw [hr]
  exact diffusion_graph_eq P nEnv edges chem x i s (reactionPart P x.get s i) hfaces

/-- the interfaces of a graph in the Spec are the engine's half-edge slots -/
theorem graph_faces_are_slots (edges : List GEdge) (i : Nat) :
    graphFaces (edges.map fun e => (e.i, e.j, e.sfc, e.dst)) i = (graphSlots edges i).map faceOfSlot := by
  unfold graphFaces graphSlots
  induction edges with
  | nil => rfl
  | cons e es ih =>
    simp only [List.map_cons, List.flatMap_cons, List.map_append, ih]
    congr 1
    by_cases h1 : e.i = i <;> by_cases h2 : e.j = i <;> simp [h1, h2, faceOfSlot]

/-- one Euler step on a graph: `x₁ = x₀ + dt · rate x₀` on non-chemostated entries -/
theorem euler_step_graph (P : Phys) (nEnv : Nat) (edges : List GEdge) (chem : Nat → Nat → Bool) (x : State) (dt : Rat)
    (i s : Nat) (hV : P.vol i ≠ 0) (hfaces : P.faces i = (graphSlots edges i).map faceOfSlot) (hc : chem i s = false) :
    (eulerStep (engOfPhysGraph P nEnv edges chem) dt x) i s = x i s + dt * rate P x.get s i := by
  show x.get i s + eulerDxdt (engOfPhysGraph P nEnv edges chem) x i s * dt = _
  rw [euler_dxdt_eq_rate_graph P nEnv edges chem x i s hV hfaces hc]
  ring

/-- grids: every shape and boundary setting for which the neighbour table is the Spec's six-neighbourhood at `i`
(`EngGridOKAt`, see the header); cubic cells of edge `h`, `V = h³` -/
theorem euler_dxdt_eq_rate_grid (P : Phys) (nEnv : Nat) (g : GridShape) (h : Rat) (chem : Nat → Nat → Bool) (x : State)
    (i s : Nat) (hh : h ≠ 0) (hvol : ∀ j, P.vol j = h ^ 3) (hedge : ∀ j, P.edge j = h)
    (hfaces : P.faces i = gridFaces g.w g.h g.d g.px g.py g.pz h i) (hok : EngGridOKAt g i) (hc : chem i s = false) :
    eulerDxdt (engOfPhysGrid P nEnv g h chem) x i s = rate P x.get s i := by
  unfold eulerDxdt
  have hc' : (engOfPhysGrid P nEnv g h chem).chem i s = false := hc
  rw [hc']
  simp only [Bool.false_eq_true, if_false]
  have hV : P.vol i ≠ 0 := by rw [hvol]; exact pow_ne_zero 3 hh
  have hr : (List.range (engOfPhysGrid P nEnv g h chem).net.nReact).foldl
      (fun acc r => acc + ((engOfPhysGrid P nEnv g h chem).net.sto s r : Rat) * reactionRate (engOfPhysGrid P nEnv g h chem) x i r) 0
        = reactionPart P x.get s i :=
    reaction_sum_eq P nEnv (gridTopo g (netOfPhys P nEnv) P.env h) chem x i s hV
  rw [hr]
  exact diffusion_grid_eq P nEnv g h chem x i s (reactionPart P x.get s i) hh hvol hedge hfaces hok

theorem euler_step_grid (P : Phys) (nEnv : Nat) (g : GridShape) (h : Rat) (chem : Nat → Nat → Bool) (x : State) (dt : Rat)
    (i s : Nat) (hh : h ≠ 0) (hvol : ∀ j, P.vol j = h ^ 3) (hedge : ∀ j, P.edge j = h)
    (hfaces : P.faces i = gridFaces g.w g.h g.d g.px g.py g.pz h i) (hok : EngGridOKAt g i) (hc : chem i s = false) :
    (eulerStep (engOfPhysGrid P nEnv g h chem) dt x) i s = x i s + dt * rate P x.get s i := by
  show x.get i s + eulerDxdt (engOfPhysGrid P nEnv g h chem) x i s * dt = _
  rw [euler_dxdt_eq_rate_grid P nEnv g h chem x i s hh hvol hedge hfaces hok hc]
  ring

/-- with the neighbour involution proved for every valid grid (`nbr_involutive`, Proofs/Grid.lean, C15) the only remaining
geometry hypothesis is that the six slots of cell `i` list the Spec's six-neighbourhood in the same order -/
theorem euler_dxdt_eq_rate_grid_valid (P : Phys) (nEnv : Nat) (g : GridShape) (h : Rat) (chem : Nat → Nat → Bool) (x : State)
    (i s : Nat) (hv : g.valid = true) (hi : i < g.size) (hh : h ≠ 0) (hvol : ∀ j, P.vol j = h ^ 3) (hedge : ∀ j, P.edge j = h)
    (hfaces : P.faces i = gridFaces g.w g.h g.d g.px g.py g.pz h i)
    (hnb : (List.range 6).filterMap (engNbr? g i) = gridNbrs g.w g.h g.d g.px g.py g.pz i) (hc : chem i s = false) :
    eulerDxdt (engOfPhysGrid P nEnv g h chem) x i s = rate P x.get s i :=
  euler_dxdt_eq_rate_grid P nEnv g h chem x i s hh hvol hedge hfaces
    ⟨hnb, fun _ _ hn hget => (nbr_involutive hv hi hn hget).1⟩ hc

/-- **grids, unconditionally**: for every valid grid (all `w, h, d ≥ 1`, all 8 boundary settings, periodic axes of length 1
and 2 included), every cell, every network and state, `Compute_dxdt` of a free entry IS the rate law.  The geometry
hypotheses are discharged by `engine_slots_are_spec_nbrs` (Proofs/GridRate.lean) and `nbr_involutive` (Proofs/Grid.lean). -/
theorem euler_dxdt_eq_rate_grid_all (P : Phys) (nEnv : Nat) (g : GridShape) (h : Rat) (chem : Nat → Nat → Bool) (x : State)
    (i s : Nat) (hv : g.valid = true) (hi : i < g.size) (hh : h ≠ 0) (hvol : ∀ j, P.vol j = h ^ 3) (hedge : ∀ j, P.edge j = h)
    (hfaces : P.faces i = gridFaces g.w g.h g.d g.px g.py g.pz h i) (hc : chem i s = false) :
    eulerDxdt (engOfPhysGrid P nEnv g h chem) x i s = rate P x.get s i :=
  euler_dxdt_eq_rate_grid_valid P nEnv g h chem x i s hv hi hh hvol hedge hfaces (engine_slots_are_spec_nbrs hv hi) hc

/-- one Euler step on any valid grid: `x₁ = x₀ + dt · rate x₀` on non-chemostated entries -/
theorem euler_step_grid_all (P : Phys) (nEnv : Nat) (g : GridShape) (h : Rat) (chem : Nat → Nat → Bool) (x : State) (dt : Rat)
    (i s : Nat) (hv : g.valid = true) (hi : i < g.size) (hh : h ≠ 0) (hvol : ∀ j, P.vol j = h ^ 3) (hedge : ∀ j, P.edge j = h)
    (hfaces : P.faces i = gridFaces g.w g.h g.d g.px g.py g.pz h i) (hc : chem i s = false) :
    (eulerStep (engOfPhysGrid P nEnv g h chem) dt x) i s = x i s + dt * rate P x.get s i :=
  euler_step_grid P nEnv g h chem x dt i s hh hvol hedge hfaces
    ⟨engine_slots_are_spec_nbrs hv hi, fun _ _ hn hget => (nbr_involutive hv hi hn hget).1⟩ hc

/-- the geometry hypothesis is decidable on a concrete grid; instances by kernel evaluation (periodic axes of length 1, 2
and 3, mixed boundary settings) — non-vacuity of the grid theorems -/
def engGridOKCheck (g : GridShape) : Bool :=
  (List.range g.size).all fun i =>
    ((List.range 6).filterMap (engNbr? g i) == gridNbrs g.w g.h g.d g.px g.py g.pz i) &&
    (List.range 6).all fun n => match engNbr? g i n with
      | none => true
      | some j => engNbr? g j (oppOf n) == some i

example : engGridOKCheck ⟨3, 2, 1, true, false, true⟩ = true := by decide +kernel
example : engGridOKCheck ⟨2, 2, 2, true, true, false⟩ = true := by decide +kernel
example : engGridOKCheck ⟨1, 1, 1, true, true, true⟩ = true := by decide +kernel
example : engGridOKCheck ⟨4, 3, 2, false, true, false⟩ = true := by decide +kernel

/-! ## The Python kinetics functions realise the rate law -/

/-- **kinetics_eq_rate, grids** — for every valid grid (all sizes and boundary settings), every network, every state, every
entry: whenever `compute_dspeciesdt(apply_chemostats=False)` returns, the SI value it returns IS the rate law
(`V = h³`: the cell edge is the cube root of the cell volume).  The Python neighbour enumeration (`w > 1` guards, Python
`%`, `is_within_bounds`, `get_cell_index`) is proved to list the Spec's six-neighbourhood minus the cell itself
(`pyGridNeighbors_eq`), the coordinate round trip to be the identity (`pyGridSrc_eq`). -/
theorem kinetics_eq_rate_grid (sys : PySys) (g : GridShape) (vol : Q) (edge : Rat) (env : List Nat)
    (hsp : sys.space = .grid g vol edge env) (hv : g.valid = true) (hV : vol.si = edge ^ 3)
    (s i : Nat) (hi : i < g.size) (x : PyState) (q : Q) (h : pyDspeciesdt sys s i x false = .ok q) :
    q.si = rate (physOfPy sys (fun k => gridFaces g.w g.h g.d g.px g.py g.pz edge k)) (stOf sys.space.size x) s i :=
  kinetics_value_grid sys g vol edge env hsp hV s i x q h (pyGridSrc_eq hv i) (pyGridNeighbors_eq hv hi)

/-- **kinetics_eq_rate, graphs** — whenever `compute_dspeciesdt(apply_chemostats=False)` returns, its SI value is the rate law
over the interfaces the Python loop visits (`pyFaces`: one per distinct neighbour, through the first edge `get_edge` finds);
on a graph without parallel edges and self-loops these are the Spec's interfaces up to order (`hperm`; the statement's own
restriction — with parallel edges the Python functions use one of them only) -/
theorem kinetics_eq_rate_graph (sys : PySys) (nodes : List PyNode) (edges : List PyEdge) (hsp : sys.space = .graph nodes edges)
    (s i : Nat) (x : PyState) (q : Q) (h : pyDspeciesdt sys s i x false = .ok q)
    (hperm : (pyFaces nodes.length edges i).Perm (graphFaces (edgesSI edges) i)) :
    q.si = rate (physOfPy sys (fun k => graphFaces (edgesSI edges) k)) (stOf sys.space.size x) s i :=
  kinetics_value_graph sys nodes edges hsp s i x q h hperm

/-- **kinetics_eq_rate, graphs without parallel edges and self-loops** (`SimpleEdges`: the statement's own restriction for the
Python graph functions): whenever `compute_dspeciesdt(apply_chemostats=False)` returns, its SI value IS the rate law over the
Spec's interfaces -/
theorem kinetics_eq_rate_graph_simple (sys : PySys) (nodes : List PyNode) (edges : List PyEdge) (hsp : sys.space = .graph nodes edges)
    (hs : SimpleEdges nodes.length edges) (s i : Nat) (hi : i < nodes.length) (x : PyState) (q : Q)
    (h : pyDspeciesdt sys s i x false = .ok q) :
    q.si = rate (physOfPy sys (fun k => graphFaces (edgesSI edges) k)) (stOf sys.space.size x) s i :=
  kinetics_value_graph sys nodes edges hsp s i x q h (simple_graph_faces nodes.length edges hs i hi)

/-- the state of the engine model that corresponds to the species-major array of the Python side -/
def stateOf (n : Nat) (x : PyState) : State := ⟨stOf n x⟩

/-- **agreement on grids**: for a free entry of any valid grid, the value returned by the Python kinetics function, the rate
law, and the derivative computed by the Euler engine on the marshalled system coincide (exact arithmetic) -/
theorem kinetics_euler_agree_grid (sys : PySys) (g : GridShape) (vol : Q) (edge : Rat) (env : List Nat)
    (hsp : sys.space = .grid g vol edge env) (hv : g.valid = true) (hV : vol.si = edge ^ 3) (he : edge ≠ 0)
    (nEnv : Nat) (chem : Nat → Nat → Bool) (s i : Nat) (hi : i < g.size) (hc : chem i s = false)
    (x : PyState) (q : Q) (h : pyDspeciesdt sys s i x false = .ok q) :
    q.si = rate (physOfPy sys (fun k => gridFaces g.w g.h g.d g.px g.py g.pz edge k)) (stOf sys.space.size x) s i ∧
    eulerDxdt (engOfPhysGrid (physOfPy sys (fun k => gridFaces g.w g.h g.d g.px g.py g.pz edge k)) nEnv g edge chem)
        (stateOf sys.space.size x) i s = q.si := by
  have h1 := kinetics_eq_rate_grid sys g vol edge env hsp hv hV s i hi x q h
  refine ⟨h1, ?_⟩
  rw [h1]
  have hvol : ∀ j, (physOfPy sys (fun k => gridFaces g.w g.h g.d g.px g.py g.pz edge k)).vol j = edge ^ 3 := fun j => by
    show (sys.space.volOf j).si = _
    rw [hsp]; exact hV
  have hedge : ∀ j, (physOfPy sys (fun k => gridFaces g.w g.h g.d g.px g.py g.pz edge k)).edge j = edge := fun j => by
    show sys.space.edgeOf j = _
    rw [hsp]; rfl
  exact euler_dxdt_eq_rate_grid_all _ nEnv g edge chem (stateOf sys.space.size x) i s hv hi he hvol hedge rfl hc

/-- **agreement on graphs** (no parallel edges / self-loops for the Python side: `hperm`) -/
theorem kinetics_euler_agree_graph (sys : PySys) (nodes : List PyNode) (edges : List PyEdge) (hsp : sys.space = .graph nodes edges)
    (nEnv : Nat) (chem : Nat → Nat → Bool) (s i : Nat) (hc : chem i s = false) (hVi : (sys.space.volOf i).si ≠ 0)
    (x : PyState) (q : Q) (h : pyDspeciesdt sys s i x false = .ok q)
    (hperm : (pyFaces nodes.length edges i).Perm (graphFaces (edgesSI edges) i)) :
    q.si = rate (physOfPy sys (fun k => graphFaces (edgesSI edges) k)) (stOf sys.space.size x) s i ∧
    eulerDxdt (engOfPhysGraph (physOfPy sys (fun k => graphFaces (edgesSI edges) k)) nEnv
        (edges.map fun e => ⟨e.i, e.j, e.sfc.si, e.dst.si⟩) chem) (stateOf sys.space.size x) i s = q.si := by
  have h1 := kinetics_eq_rate_graph sys nodes edges hsp s i x q h hperm
  refine ⟨h1, ?_⟩
  rw [h1]
  have hf : (physOfPy sys (fun k => graphFaces (edgesSI edges) k)).faces i
      = (graphSlots (edges.map fun e => (⟨e.i, e.j, e.sfc.si, e.dst.si⟩ : GEdge)) i).map faceOfSlot := by
    have := graph_faces_are_slots (edges.map fun e => (⟨e.i, e.j, e.sfc.si, e.dst.si⟩ : GEdge)) i
    simp only [List.map_map] at this
    show graphFaces (edgesSI edges) i = _
    rw [← this]
    rfl
  exact euler_dxdt_eq_rate_graph _ nEnv _ chem (stateOf sys.space.size x) i s hVi hf hc

/-! ## Marshalling -/

/-- the subscripts written by `build_*_matrix` are the ones the engine reads -/
theorem marshal_index_agree (nr ne s r e : Int) :
    pySubIndex nr s r = subIndex nr s r ∧ pyStoIndex nr s r = stoIndex nr s r ∧ pyDIndex ne s e = dIndex ne s e := by
  simp [pySubIndex, subIndex, pyStoIndex, stoIndex, pyDIndex, dIndex]

/-- loop orders and stored values of the four builders, the splitting of reversible reactions into (forward, reverse)
and the engine units system (quantity forced to molecule when the engine requires molecules) — regenerated source text -/
theorem marshal_source :
    pyKLoops = [("env", "environments"), ("r", "reactions")] ∧
    pyKStmts = ["km=[]", "km.append(valproc.get_value_in_env(r.kf,env,UnitValue(0,Units(units_system,r.kf_units_dimensions()))).convert(units_system).value)", "returnkm"] ∧
    pySubLoops = [("s", "range(n_species)"), ("r", "range(n_reactions)")] ∧ pySubValue = "reactions[r].ssto(species_labels)[s]" ∧
    pyStoLoops = [("s", "range(n_species)"), ("r", "range(n_reactions)")] ∧ pyStoValue = "reactions[r].dsto(species_labels)[s]" ∧
    pyDLoops = [("s", "range(n_species)"), ("e", "range(n_env)")] ∧
    pyDValue = "valproc.get_value_in_env(value=species[s].D,environment=environments[e],default=UnitValue(0,\"µm2/s\")).convert(units_system).value" ∧
    pySetupStmts = ["units_system=script.units_system.copy()", "units_system.quantity=\"molecule\"", "self._units_system=units_system",
      "reactions=[]", "rf,rr=r.split()", "reactions.append(rf)", "reactions.append(rr)"] ∧
    pySplit = [("fwd", "[self._substrates,self._products]", "self.kf", "0"), ("rev", "[self._products,self._substrates]", "self.kr", "0")] ∧
    pySplitReturn = ["returnfwd,rev"] ∧
    py_ssto = "return[int(self._substrates.get(s,0))forsinspecies_labels]" ∧
    py_psto = "return[int(self._products.get(s,0))forsinspecies_labels]" ∧
    py_dsto = "return[int(self._products.get(s,0))-int(self._substrates.get(s,0))forsinspecies_labels]" := by
  decide +kernel

/-- a table written by two nested loops is read back at `outer*width + inner` -/
theorem flat2_get {α : Type} (a b : Nat) (f : Nat → Nat → α) (i j : Nat) (hi : i < a) (hj : j < b) :
    (flat2 a b f)[i * b + j]? = some (f i j) := by
  unfold flat2
  induction a with
  | zero => omega
  | succ a ih =>
    rw [List.range_succ, List.flatMap_append]
    have hlen : ((List.range a).flatMap fun i => (List.range b).map (f i)).length = a * b := by
      clear ih hi
      induction a with
      | zero => simp
      | succ a iha => rw [List.range_succ, List.flatMap_append]; simp [iha]; ring
    by_cases h : i < a
    · have hlt : i * b + j < a * b :=
        Nat.lt_of_lt_of_le (Nat.add_lt_add_left hj _) (by rw [← Nat.succ_mul]; exact Nat.mul_le_mul_right b h)
      rw [List.getElem?_append_left (by rw [hlen]; exact hlt)]
      exact ih h
    · have hia : i = a := by omega
      subst hia
      rw [List.getElem?_append_right (by rw [hlen]; omega), hlen]
      simp [hj]

/-- `build_reaction_rate_constant_matrix`, read by the engine as `k[env*n_reactions + r]` -/
theorem marshal_read_k (sys : PySys) (U : Sys) (e r : Nat) (he : e < sys.envs.length) (hr : r < (pySplitReactions sys.reactions).length) :
    (pyMarshal sys U).k[(kIndex (pySplitReactions sys.reactions).length e r).toNat]? =
      some ((getValueInEnv ((pySplitReactions sys.reactions).getD r default).kf (sys.envs.getD e "")
        ⟨0, kfDim (natSum ((pySplitReactions sys.reactions).getD r default).sub)⟩).inU U) := by
  have hidx : (kIndex (pySplitReactions sys.reactions).length e r).toNat = e * (pySplitReactions sys.reactions).length + r := by
    simp only [kIndex]; norm_cast
  rw [hidx]
  exact flat2_get _ _ _ e r he hr

/-- `build_substrate_stoechiometric_matrix`, read as `sub[s*n_reactions + r]` -/
theorem marshal_read_sub (sys : PySys) (U : Sys) (s r : Nat) (hs : s < sys.nSpecies) (hr : r < (pySplitReactions sys.reactions).length) :
    (pyMarshal sys U).sub[(subIndex (pySplitReactions sys.reactions).length s r).toNat]? =
      some (((pySplitReactions sys.reactions).getD r default).sub.getD s 0) := by
  have hidx : (subIndex (pySplitReactions sys.reactions).length s r).toNat = s * (pySplitReactions sys.reactions).length + r := by
    simp only [subIndex]; norm_cast
  rw [hidx]
  exact flat2_get _ _ _ s r hs hr

/-- `build_stoechiometric_difference_matrix`, read as `sto[s*n_reactions + r]` -/
theorem marshal_read_sto (sys : PySys) (U : Sys) (s r : Nat) (hs : s < sys.nSpecies) (hr : r < (pySplitReactions sys.reactions).length) :
    (pyMarshal sys U).sto[(stoIndex (pySplitReactions sys.reactions).length s r).toNat]? =
      some ((((pySplitReactions sys.reactions).getD r default).prod.getD s 0 : Nat) - (((pySplitReactions sys.reactions).getD r default).sub.getD s 0 : Nat) : Int) := by
  have hidx : (stoIndex (pySplitReactions sys.reactions).length s r).toNat = s * (pySplitReactions sys.reactions).length + r := by
    simp only [stoIndex]; norm_cast
  rw [hidx]
  exact flat2_get _ _ _ s r hs hr

/-- `build_diff_coef_environment_matrix`, read as `D[s*n_env + env]` -/
theorem marshal_read_D (sys : PySys) (U : Sys) (s e : Nat) (hs : s < sys.nSpecies) (he : e < sys.envs.length) :
    (pyMarshal sys U).D[(dIndex sys.envs.length s e).toNat]? =
      some ((getValueInEnv (sys.dcoef.getD s default) (sys.envs.getD e "") ⟨0, Dim.diffusion⟩).inU U) := by
  have hidx : (dIndex sys.envs.length s e).toNat = s * sys.envs.length + e := by
    simp only [dIndex]; norm_cast
  rw [hidx]
  exact flat2_get _ _ _ s e hs he

/-- reaction `r` is marshalled as the irreversible reactions `2r` (forward: kf, substrates) and `2r+1`
(reverse: kr, products as substrates) -/
theorem split_layout (rs : List PyReaction) (r : Nat) (hr : r < rs.length) :
    (pySplitReactions rs)[2 * r]? = some (rs.getD r default).split.1 ∧
    (pySplitReactions rs)[2 * r + 1]? = some (rs.getD r default).split.2 ∧
    (pySplitReactions rs).length = 2 * rs.length := by
  unfold pySplitReactions
  induction rs generalizing r with
  | nil => simp at hr
  | cons a as ih =>
    cases r with
    | zero => simp [List.flatMap_cons]; omega
    | succ r =>
      have hr' : r < as.length := by simpa using hr
      obtain ⟨h1, h2, h3⟩ := ih r hr'
      simp only [List.flatMap_cons, List.length_append, List.length_cons, List.length_nil]
      refine ⟨?_, ?_, by omega⟩
      · have : 2 * (r + 1) = 2 * r + 2 := by ring
        rw [this]
        simpa using h1
      · have : 2 * (r + 1) + 1 = 2 * r + 1 + 2 := by ring
        rw [this]
        simpa using h2

/-! ## Dimensions -/

/-- `Reaction.kf_units_dimensions` / `kr_units_dimensions`: order `n` ↦ `(3n−3, −1, 1−n)`, counting the substrates for
`kf` and the products for `kr` (generated formulas and source text) -/
theorem k_dimension (n : Nat) : kfDim n = ⟨3 * n - 3, -1, 1 - n⟩ ∧ krDim n = ⟨3 * n - 3, -1, 1 - n⟩ := by
  simp only [kfDim, krDim, dimKfSpace, dimKfTime, dimKfQty, dimKrSpace, dimKrTime, dimKrQty, Dim.mk.injEq]
  refine ⟨⟨by ring, trivial, trivial⟩, ⟨by ring, trivial, trivial⟩⟩

theorem k_dimension_counts :
    dimKfCounted = ["list(self._substrates)", "count=0", "count+=self._substrates[k]"] ∧
    dimKrCounted = ["list(self._products)", "count=0", "count+=self._products[k]"] := by decide +kernel

theorem rate_fold_dim (l : List Nat) (q0 : Q) (conc : Nat → Q) (sto : List Nat) (d : Dim) (hc : ∀ s, (conc s).dim = d) :
    (l.foldl (fun acc s => acc.mul ((conc s).npow (sto.getD s 0))) q0).dim
      = q0.dim.add (Dim.smul (((l.map fun s => sto.getD s 0).sum : Nat) : Int) d) := by
  induction l generalizing q0 with
  | nil => simp [Dim.add, Dim.smul]
  | cons a as ih =>
    simp only [List.foldl_cons, List.map_cons, List.sum_cons]
    rw [ih]
    simp only [Q.mul, Q.npow, hc, Dim.add, Dim.smul, Dim.mk.injEq]
    push_cast
    refine ⟨by ring, by ring, by ring⟩

/-- dimension of the loop `rf = k·V; rf *= (x_s/V)^ν_s`: `dim k + dim V + (Σν)·(dim x − dim V)` -/
theorem pyRateLoop_dim (ns : Nat) (k V : Q) (conc : Nat → Q) (sto : List Nat) (d : Dim) (hc : ∀ s, (conc s).dim = d) :
    (pyRateLoop ns k V conc sto).dim
      = (k.dim.add V.dim).add (Dim.smul ((((List.range ns).map fun s => sto.getD s 0).sum : Nat) : Int) d) := by
  unfold pyRateLoop
  rw [rate_fold_dim _ _ conc sto d hc]
  rfl

/-- for a rate constant of order `n` (`Σ sto = n`), a volume and amounts: the result is amount/time -/
theorem rate_dim_amount_per_time (n : Nat) :
    ((kfDim n).add Dim.volume).add (Dim.smul (n : Nat) ((Dim.quantity).add (Dim.volume).neg)) = Dim.rate := by
  simp only [kfDim, dimKfSpace, dimKfTime, dimKfQty, Dim.add, Dim.smul, Dim.neg, Dim.volume, Dim.quantity, Dim.rate, Dim.mk.injEq]
  refine ⟨by ring, by ring, by ring⟩

/-! ## Source ties of the Python kinetics (regenerated text) -/

theorem kinetics_source :
    pyNbrOffsets = [(1, 0, 0), (-1, 0, 0), (0, 1, 0), (0, -1, 0), (0, 0, 1), (0, 0, -1)] ∧
    pyWrapMode = ["periodical", "periodical", "periodical"] ∧
    pyGridNbrBody = ["d_rates=compute_diffusion_rates(system,species,p,c,state,units_system)", "d+=(d_rates[1]-d_rates[0])"] ∧
    pyAccumGrid = ["d=UnitValue(0,\"molecule/s\")", "d+=(rates[0]-rates[1])*(reaction.get_product_stoichiometry(species_label)-reaction.get_substrate_stoichiometry(species_label))",
      "d+=(d_rates[1]-d_rates[0])", "returnd.convert(units_system)"] ∧
    pyAccumGraph = pyAccumGrid ∧
    pyGraphNbrConds = ["j!=position", "system.space.get_edge(position,j)isnotNone"] ∧
    pyDiffTests = ["type(system.space)==RDGridSpaceandnotsystem.space.are_neighbors(src_position_index,dst_position_index)",
      "type(system.space)==RDGraphSpaceandsystem.space.get_edge(src_position_index,dst_position_index)isNone",
      "Di.value!=0andDj.value!=0", "Di!=0andDj!=0"] ∧
    pyGetValueInEnv = ["if:isdict(value)", "if:environmentinlist(value)", "returnvalue[environment]", "if:\"default\"inlist(value)",
      "returnvalue[\"default\"]", "returndefault", "returnvalue"] ∧
    pyDstateLoops = [("s", "range(system.network.nspecies())"), ("i", "range(system.space.size())")] := by
  decide +kernel

/-- the wrap lines of the Python neighbour enumeration: `(n + c) % n`, only on axes longer than 1 -/
theorem py_wrap_lines (n c : Int) :
    pyWrap0 n c = Int.fmod (n + c) n ∧ pyWrap1 n c = Int.fmod (n + c) n ∧ pyWrap2 n c = Int.fmod (n + c) n ∧
    pyWrapGuard0 n = decide (n > 1) ∧ pyWrapGuard1 n = decide (n > 1) ∧ pyWrapGuard2 n = decide (n > 1) :=
  ⟨rfl, rfl, rfl, rfl, rfl, rfl⟩

theorem rate_formulas_source :
    "rf=valproc.get_value_in_env(reaction.kf,environment_label,UnitValue(0,Units(units_system,reaction.kf_units_dimensions())))*volume" ∈ pyRateStmts ∧
    "rr=valproc.get_value_in_env(reaction.kr,environment_label,UnitValue(0,Units(units_system,reaction.kr_units_dimensions())))*volume" ∈ pyRateStmts ∧
    "rf*=(state.get_at(state_index)/volume)**ssto[i]" ∈ pyRateStmts ∧ "rr*=(state.get_at(state_index)/volume)**psto[i]" ∈ pyRateStmts ∧
    "returnrf.convert(units_system),rr.convert(units_system)" ∈ pyRateStmts ∧
    "Dij=(hi+hj)/(hi/Di+hj/Dj)" ∈ pyDiffStmts ∧ "kf=Dij*surface/(Vi*distance)" ∈ pyDiffStmts ∧ "kr=Dij*surface/(Vj*distance)" ∈ pyDiffStmts ∧
    "hi=Vi**(1/3)" ∈ pyDiffStmts ∧ "hj=Vj**(1/3)" ∈ pyDiffStmts ∧ "h=system.space.cell_vol**(1/3)" ∈ pyDiffStmts ∧
    "k=2/(h**2*(1/Di+1/Dj))" ∈ pyDiffStmts ∧
    "return(kf*state.get_at(src_state_index)).convert(units_system),(kr*state.get_at(dst_state_index)).convert(units_system)" ∈ pyDiffStmts ∧
    "return(k*state.get_at(src_state_index)).convert(units_system),(k*state.get_at(dst_state_index)).convert(units_system)" ∈ pyDiffStmts := by
  decide +kernel

end Strengths.C01
