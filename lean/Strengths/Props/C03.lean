/-
C03 — Chemostated entries never change; everything else ignores the flag.

Engine side (`Model/Engine.lean`): one Euler step, one tau-leap step for EVERY vector of Poisson counts and one
Gillespie step for EVERY selected event leave a flagged entry exactly where it was; by induction so does any
number of steps, hence every recorded sample equals sample 0 at flagged entries.  The flag consulted for
(species s, cell i) is `chem[s*n+i]` on the Python side (`get_chemostat` → `get_state_index`, generated
`Gen.stateIndex`) and — after `SpeciesFirstToMeshFirstArray` (generated `Gen.transposeSrc/Dst`) — on the C++
side (`mesh_chstt[i*n_species+s]`, checked on the generated inventory of every `mesh_chstt[...]` subscript).
Python side (`Model/Kinetics.lean`): a flagged entry has derivative exactly 0 (dimension amount/time) in
`compute_dspeciesdt(apply_chemostats=True)` and in `make_dxdtf`, and is skipped by `apply_reaction`;
rates / propensities of all other entries are computed from the flagged amounts unchanged.

Assumption recorded in the harness: flags are 0/1 (`make_dxdtf` multiplies by `1 - flag`).
-/
import Strengths.Proofs.Chemostat
import Strengths.Proofs.Units
import Strengths.Props.C01

namespace Strengths.C03
open Strengths Strengths.Gen

/-! ## One step of each engine -/

/-- `Compute_dxdt` skips a flagged entry (`continue`), `Apply_dxdt` adds `0·dt` -/
theorem euler_step_fixes_flagged (e : EngIn) (dt : Rat) (x : State) (i s : Nat) (h : e.chem i s = true) :
    (eulerStep e dt x) i s = x i s := by
  simp [eulerStep, eulerDxdt, h, Rat.add_zero, Rat.zero_mul]

/-- `Apply_nevt`, for every vector of event counts (whatever the Poisson draws were) -/
theorem tauleap_step_fixes_flagged (e : EngIn) (c : Counts) (x : State) (i s : Nat) (h : e.chem i s = true) :
    (tauLeapApply e c x) i s = x i s := tauLeapApply_keeps e c x i s h

/-- `ApplyReaction` / `ApplyDiffusion`, for every event -/
theorem gillespie_event_fixes_flagged (e : EngIn) (x : State) (ev : Event) (i s : Nat) (h : e.chem i s = true) :
    (applyEvent e x ev) i s = x i s := applyEvent_keeps e x ev i s h

/-- one Gillespie `Iterate`, for every pair of draws -/
theorem gillespie_step_fixes_flagged (e : EngIn) (x : State) (u1 L : Rat) (g : GStep) (i s : Nat)
    (h : e.chem i s = true) (hg : gillespieStep e x u1 L = some g) : g.x i s = x i s := by
  unfold gillespieStep at hg
  simp only at hg
  split at hg
  · cases hg
  · cases hg
    simp only
    split
    · exact applyEvent_keeps e x _ i s h
    · rfl

/-! ## Any number of steps -/

/-- `n` Euler iterations -/
def eulerIter (e : EngIn) (dt : Rat) : Nat → State → State
  | 0, x => x
  | n + 1, x => eulerIter e dt n (eulerStep e dt x)

/-- tau-leap iterations, one vector of counts per iteration -/
def tauLeapRun (e : EngIn) (cs : List Counts) (x : State) : State := cs.foldl (fun y c => tauLeapApply e c y) x

/-- Gillespie iterations, one pair of draws (`u1`, `log(1/u2)`) per iteration; stops when `a0 = 0` -/
def gillespieRun (e : EngIn) : List (Rat × Rat) → State → State
  | [], x => x
  | (u1, l) :: rest, x =>
    match gillespieStep e x u1 l with
    | none => x
    | some g => gillespieRun e rest g.x

theorem euler_fixes_flagged (e : EngIn) (dt : Rat) (n : Nat) (x : State) (i s : Nat) (h : e.chem i s = true) :
    (eulerIter e dt n x) i s = x i s := by
  induction n generalizing x with
  | zero => rfl
  | succ n ih =>
    simp only [eulerIter]
    rw [ih, euler_step_fixes_flagged e dt x i s h]

theorem tauleap_fixes_flagged (e : EngIn) (cs : List Counts) (x : State) (i s : Nat) (h : e.chem i s = true) :
    (tauLeapRun e cs x) i s = x i s := by
  unfold tauLeapRun
  apply foldl_inv (fun y : State => y.get i s = x.get i s)
  · rfl
  · intro y c hy
    show (tauLeapApply e c y).get i s = x.get i s
    rw [tauLeapApply_keeps e c y i s h]
    exact hy

theorem gillespie_fixes_flagged (e : EngIn) (ds : List (Rat × Rat)) (x : State) (i s : Nat) (h : e.chem i s = true) :
    (gillespieRun e ds x) i s = x i s := by
  induction ds generalizing x with
  | nil => rfl
  | cons d rest ih =>
    obtain ⟨u1, l⟩ := d
    simp only [gillespieRun]
    cases hg : gillespieStep e x u1 l with
    | none => rfl
    | some g =>
      simp only
      rw [ih, gillespie_step_fixes_flagged e x u1 l g i s h hg]

/-- hence every recorded sample (each is the state after some number of iterations) equals sample 0 at a flagged entry -/
theorem euler_samples_equal_sample0 (e : EngIn) (dt : Rat) (x : State) (i s : Nat) (h : e.chem i s = true) (m n : Nat) :
    (eulerIter e dt m x) i s = (eulerIter e dt n x) i s := by
  rw [euler_fixes_flagged e dt m x i s h, euler_fixes_flagged e dt n x i s h]

/-! ## Which flag is consulted -/

/-- Python: `get_chemostat(s, i)` reads `chemostats[s*n + i]` -/
theorem py_flag_index (sys : PySys) (s i : Nat) :
    pyGetChemostat sys s i = sys.chem.getD (s * sys.space.size + i) 0 := by
  simp only [pyGetChemostat, stIdx, stateIndex]
  congr 1

/-- the kinetics functions consult exactly `system.get_chemostat(species_index, position)`, and that accessor is
`self._chemostats[self.get_state_index(species, position)]` (source text, regenerated on every run) -/
theorem py_flag_source :
    pyChemTestGrid = "system.get_chemostat(species_index,position)" ∧
    pyChemTestGraph = "system.get_chemostat(species_index,position)" ∧
    pyChemBodyGrid = ["returnUnitValue(0,\"molecule/s\").convert(units_system)"] ∧
    pyChemBodyGraph = ["returnUnitValue(0,\"molecule/s\").convert(units_system)"] ∧
    Gen.pyGetChemostat = ["state_index=self.get_state_index(species,position)", "returnself._chemostats[state_index]"] ∧
    Gen.pySetChemostat = ["state_index=self.get_state_index(species,position)", "self._chemostats[state_index]=int(value)"] := by
  decide +kernel

/-- C++: the species-major flag array is transposed by `SpeciesFirstToMeshFirstArray`:
`mesh_chstt[i*ns + s] = chem[s*n + i]`, and `s*n+i` is the Python state index -/
theorem cpp_flag_index (ns n s i : Int) :
    transposeDst ns n s i = i * ns + s ∧ transposeSrc ns n s i = stateIndex n s i := by
  simp [transposeDst, transposeSrc, stateIndex]

/-- the transposition writes every slot of the cell-major array exactly once (no flag is overwritten by another) -/
theorem transpose_injective (ns n s i s' i' : Nat) (hs : s < ns) (hs' : s' < ns)
    (h : transposeDst ns n s i = transposeDst ns n s' i') : s = s' ∧ i = i' := by
  simp only [transposeDst] at h
  have h2 : i * ns + s = i' * ns + s' := by exact_mod_cast h
  have hi : i = i' := by
    have := congrArg (· / ns) h2
    rw [Nat.mul_comm i ns, Nat.mul_comm i' ns, Nat.mul_add_div (by omega), Nat.mul_add_div (by omega),
      Nat.div_eq_of_lt hs, Nat.div_eq_of_lt hs'] at this
    omega
  subst hi
  omega

/-- every read of `mesh_chstt` in the six algorithms uses the cell-major subscript `cell*n_species + species` -/
theorem cpp_flag_reads :
    ∀ t ∈ subscripts, t.2.1 = "mesh_chstt" →
      t.2.2 ∈ ["i*n_species+s", "i*n_species+j", "j*n_species+s", "j*n_species+species_index",
               "mesh_index*n_species+s", "mesh_index*n_species+species_index"] := by
  decide +kernel

/-- the engine arguments: the flag array handed to the native initialiser is `script.system.chemostats` itself -/
theorem marshalled_flag_array :
    "make_ctypes_array(script.system.chemostats,ctypes.c_int)" ∈ pyArgs_setup_grid ∧
    "make_ctypes_array(script.system.chemostats,ctypes.c_int)" ∈ pyArgs_setup_graph := by
  decide +kernel

/-! ## Python kinetics, make_dxdtf, apply_reaction -/

/-- `compute_dspeciesdt(apply_chemostats=True)` of a flagged entry is `0` of dimension amount/time -/
theorem kinetics_flagged_zero (sys : PySys) (s i : Nat) (x : PyState) (q : Q)
    (h : pyDspeciesdt sys s i x true = .ok q) (hf : pyGetChemostat sys s i ≠ 0) : q = ⟨0, Dim.rate⟩ := by
  unfold pyDspeciesdt at h
  split at h
  · cases h
  · split at h
    · cases h
    · split at h
      · cases h
      · have hb : (true && pyGetChemostat sys s i != 0) = true := by simp [hf]
        rw [if_pos hb] at h
        cases h
        rfl

/-- with `apply_chemostats=False` the flag map is not consulted at all -/
theorem kinetics_ignores_flags (sys : PySys) (chem' : List Int) (s i : Nat) (x : PyState) :
    pyDspeciesdt { sys with chem := chem' } s i x false = pyDspeciesdt sys s i x false := rfl

/-- the derivative of an entry does not depend on the flags of the other entries -/
theorem kinetics_other_flags (sys : PySys) (chem' : List Int) (s i : Nat) (x : PyState) (b : Bool)
    (h : chem'.getD (stIdx sys.space.size s i) 0 = sys.chem.getD (stIdx sys.space.size s i) 0) :
    pyDspeciesdt { sys with chem := chem' } s i x b = pyDspeciesdt sys s i x b := by
  unfold pyDspeciesdt pyGetChemostat
  simp only [h]
  rfl

/-- `make_dxdtf`: entry `s` of a flagged species (flag 1) is exactly 0 -/
theorem dxdtf_flagged_zero (sys : PySys) (U : Sys) (x y : List Rat) (s : Nat)
    (h : pyDxdtf sys U x = .ok y) (hs : s < sys.nSpecies) (hf : sys.chem.getD s 0 = 1) : y[s]? = some 0 := by
  unfold pyDxdtf at h
  split at h
  · cases h
  · cases h
    have hf' : sys.chem[s]?.getD 0 = 1 := by rw [← List.getD_eq_getElem?_getD]; exact hf
    simp [hs, hf']

/-- `apply_reaction`: an entry whose flag is set is returned unchanged (the flag consulted is the one at the very
index that would be written) -/
theorem apply_reaction_skips (sys : PySys) (r : PyReaction) (i : Nat) (n m : Rat) (x y : List Rat) (k : Nat)
    (h : pyApplyReaction sys r i n m x = .ok y) (hk : sys.chem.getD k 0 ≠ 0) : y.getD k 0 = x.getD k 0 := by
  unfold pyApplyReaction at h
  split at h
  · cases h
  · cases h
    apply foldl_inv (fun st : List Rat => st.getD k 0 = x.getD k 0)
    · rfl
    · intro st s hst
      simp only
      split
      · rename_i hz
        by_cases hik : stIdx sys.space.size s i = k
        · rw [hik] at hz
          simp at hz
          exact absurd hz hk
        · rw [List.getD_eq_getElem?_getD, List.getElem?_set_ne hik, ← List.getD_eq_getElem?_getD]
          exact hst
      · exact hst

/-! ## Flagged amounts still drive their surroundings -/

theorem reactionPropAux_chem (e : EngIn) (chem' : Nat → Nat → Bool) (x : State) (i r : Nat) (l : List Nat) (a : Rat) :
    reactionPropAux { e with chem := chem' } x i r l a = reactionPropAux e x i r l a := by
  induction l generalizing a with
  | nil => rfl
  | cons s rest ih =>
    simp only [reactionPropAux]
    split
    · exact ih _
    · rfl
theorem reactionProp_chem (e : EngIn) (chem' : Nat → Nat → Bool) (x : State) (i r : Nat) :
    reactionProp { e with chem := chem' } x i r = reactionProp e x i r := by
  unfold reactionProp
  exact reactionPropAux_chem e chem' x i r _ _
theorem diffusionProp_chem (e : EngIn) (chem' : Nat → Nat → Bool) (x : State) (i s n : Nat) :
    diffusionProp { e with chem := chem' } x i s n = diffusionProp e x i s n := rfl

/-- reaction rates, propensities and diffusion rates are functions of the amounts only: they do not read the flags,
so a flagged amount acts as a reactant and as a diffusion source / sink exactly like a free one -/
theorem flagged_still_reacts_and_diffuses (e : EngIn) (chem' : Nat → Nat → Bool) (x : State) (i r s n : Nat) :
    reactionRate { e with chem := chem' } x i r = reactionRate e x i r ∧
    reactionProp { e with chem := chem' } x i r = reactionProp e x i r ∧
    diffusionProp { e with chem := chem' } x i s n = diffusionProp e x i s n ∧
    diffusionRateDifference { e with chem := chem' } x i s n = diffusionRateDifference e x i s n ∧
    a0 { e with chem := chem' } x = a0 e x ∧
    (∀ dt, tauLeapMeans { e with chem := chem' } dt x = tauLeapMeans e dt x) := by
  refine ⟨rfl, reactionProp_chem e chem' x i r, rfl, rfl, ?_, fun dt => ?_⟩
  · simp only [a0, a0r, a0d, diffPropSlot, reactionProp_chem, diffusionProp_chem]
  · simp only [tauLeapMeans, reactionProp_chem, diffusionProp_chem]

/-- the Euler derivative of an entry depends on the flag of that very entry only -/
theorem euler_other_flags (e : EngIn) (chem' : Nat → Nat → Bool) (x : State) (i s : Nat) (h : chem' i s = e.chem i s) :
    eulerDxdt { e with chem := chem' } x i s = eulerDxdt e x i s := by
  unfold eulerDxdt
  simp only [h]
  rfl

/-! ## Entries that are not flagged evolve exactly as the rate law prescribes -/

/-- graphs: one Euler step of a free entry is `x + dt·rate x` (the rate being computed from all amounts, flagged ones
included) — C01's theorem restricted to `chem i s = false` -/
theorem unflagged_follows_rate_graph (P : Spec.Phys) (nEnv : Nat) (edges : List GEdge) (chem : Nat → Nat → Bool) (x : State) (dt : Rat)
    (i s : Nat) (hV : P.vol i ≠ 0) (hfaces : P.faces i = (graphSlots edges i).map faceOfSlot) (hc : chem i s = false) :
    (eulerStep (engOfPhysGraph P nEnv edges chem) dt x) i s = x i s + dt * Spec.rate P x.get s i :=
  C01.euler_step_graph P nEnv edges chem x dt i s hV hfaces hc

/-- every valid grid -/
theorem unflagged_follows_rate_grid (P : Spec.Phys) (nEnv : Nat) (g : GridShape) (h : Rat) (chem : Nat → Nat → Bool) (x : State) (dt : Rat)
    (i s : Nat) (hv : g.valid = true) (hi : i < g.size) (hh : h ≠ 0) (hvol : ∀ j, P.vol j = h ^ 3) (hedge : ∀ j, P.edge j = h)
    (hfaces : P.faces i = Spec.gridFaces g.w g.h g.d g.px g.py g.pz h i) (hc : chem i s = false) :
    (eulerStep (engOfPhysGrid P nEnv g h chem) dt x) i s = x i s + dt * Spec.rate P x.get s i :=
  C01.euler_step_grid_all P nEnv g h chem x dt i s hv hi hh hvol hedge hfaces hc

/-! ## The map of THIS set-up is the one obeyed (one engine, one script, map edited between two runs)

Every `setup` marshals the script afresh (`Gen/Marshal`: `cell_chstt` is `make_ctypes_array(script.system.chemostats, …)`), so a
later run of the same system after `set_chemostat` / an item assignment / a new map is the run of the engine input with the
edited map; whatever map an earlier run used is irrelevant. -/

/-- the engine input of a later set-up of the same system, its chemostat map edited in between -/
def withMap (e : EngIn) (chem' : Nat → Nat → Bool) : EngIn := { e with chem := chem' }

theorem euler_obeys_edited_map (e : EngIn) (chem' : Nat → Nat → Bool) (dt : Rat) (n : Nat) (x : State) (i s : Nat)
    (h : chem' i s = true) : (eulerIter (withMap e chem') dt n x) i s = x i s :=
  euler_fixes_flagged (withMap e chem') dt n x i s h

theorem tauleap_obeys_edited_map (e : EngIn) (chem' : Nat → Nat → Bool) (cs : List Counts) (x : State) (i s : Nat)
    (h : chem' i s = true) : (tauLeapRun (withMap e chem') cs x) i s = x i s :=
  tauleap_fixes_flagged (withMap e chem') cs x i s h

theorem gillespie_obeys_edited_map (e : EngIn) (chem' : Nat → Nat → Bool) (ds : List (Rat × Rat)) (x : State) (i s : Nat)
    (h : chem' i s = true) : (gillespieRun (withMap e chem') ds x) i s = x i s :=
  gillespie_fixes_flagged (withMap e chem') ds x i s h

/-- an entry the edit releases moves again exactly as without any flag at all: the Euler derivative of a free entry does not depend
on the map (so not on the map of an earlier run either) -/
theorem euler_released_entry_moves (e : EngIn) (chem' : Nat → Nat → Bool) (x : State) (i s : Nat) (h : chem' i s = false) :
    eulerDxdt (withMap e chem') x i s = eulerDxdt (withMap e (fun _ _ => false)) x i s :=
  (euler_other_flags (withMap e chem') (fun _ _ => false) x i s (by simp [withMap, h])).symm

/-! ## Non-vacuity -/

def exNet : Net :=
  { nSpecies := 2, nReact := 1, nEnv := 1, k := fun _ _ => 1, sub := fun s _ => if s = 0 then 1 else 0,
    sto := fun s _ => if s = 0 then -1 else 1, dcoef := fun _ _ => 1 }

/-- a concrete engine input with one flagged entry out of four: species 1 of cell 0 -/
def exEng : EngIn :=
  { net := exNet, topo := graphTopo 2 [⟨0, 1, 1, 1⟩] exNet (fun _ => 0) (fun _ => 1) (fun _ => 1),
    env := fun _ => 0, chem := fun i s => i == 0 && s == 1, vol := fun _ => 1 }

example : exEng.chem 0 1 = true ∧ exEng.chem 0 0 = false := by decide +kernel
/-- the free entry (cell 0, species 0) does move in one Euler step while the flagged one stays -/
example : (eulerStep exEng (1/2) ⟨fun _ _ => 4⟩) 0 0 ≠ 4 ∧ (eulerStep exEng (1/2) ⟨fun _ _ => 4⟩) 0 1 = 4 := by decide +kernel

/-- the flag moved from (cell 0, species 1) to (cell 0, species 0) between two runs: the second run keeps species 0 and moves
species 1 — the opposite of what the map of the first run would give -/
example : (eulerStep (withMap exEng (fun i s => i == 0 && s == 0)) (1/2) ⟨fun _ _ => 4⟩) 0 0 = 4
    ∧ (eulerStep (withMap exEng (fun i s => i == 0 && s == 0)) (1/2) ⟨fun _ _ => 4⟩) 0 1 ≠ 4
    ∧ (eulerStep exEng (1/2) ⟨fun _ _ => 4⟩) 0 1 = 4 := by decide +kernel

end Strengths.C03
