/-
C03 — Chemostated entries never change; everything else ignores the flag (work in progress).
-/
import Strengths.Model.Kinetics

namespace Strengths.C03
open Strengths Strengths.Gen

/-- one Euler step leaves a flagged entry exactly where it was -/
theorem euler_step_fixes_flagged (e : EngIn) (dt : Rat) (x : State) (i s : Nat) (h : e.chem i s = true) :
    (eulerStep e dt x) i s = x i s := by
  simp [eulerStep, eulerDxdt, h, Rat.add_zero, Rat.zero_mul]

end Strengths.C03
