/-
Numeric inventory of src/strengths/rdoutput.py (generated: `Gen.PyNumeric.inv_rdoutput`, regenerated from the source on every run).
-/
import Strengths.Model.PyNumeric

namespace Strengths.PyNumeric
open Strengths.Gen.PyNumeric

/-- `rdoutput.py` never rounds, truncates, compares with a tolerance, stores numbers in less than 64 bits, or prints them with a
limited number of digits (the model computes its values exactly and its texts through `repr`) -/
theorem rdoutput_full_precision : fullPrecision inv_rdoutput = true := by decide +kernel

/-- `rdoutput.py` takes no maximum / minimum / absolute value and swallows no exception: nothing it computes is clamped -/
theorem rdoutput_no_clamping : clamp_rdoutput = [] := by decide +kernel

end Strengths.PyNumeric
