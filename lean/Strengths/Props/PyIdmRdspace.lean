/-
Idiom inventory of src/strengths/rdspace.py (generated: `Gen.PyIdioms.inv_rdspace`, regenerated from the source on every run).
-/
import Strengths.Model.PyIdioms

namespace Strengths.PyIdioms
open Strengths.Gen.PyIdioms

/-- `rdspace.py` keeps value semantics: no identity comparison except with `None`, no substring test on a literal, no
`assert`, no `and`/`or` selecting a value, no `*d.values()` (the model compares by value, handles absence through `Option`,
and reads dictionaries by key) -/
theorem rdspace_value_semantic : valueSemantic inv_rdspace = true := by decide +kernel

end Strengths.PyIdioms
