/-
C11 — The native engine is memory-safe on every valid script.   (PARTIAL BY NATURE)

  "For every valid script and every lifecycle-respecting call sequence, the compiled engine performs no
  out-of-bounds read or write, no use after free or double free, no read of uninitialised indices and no
  undefined arithmetic or library-precondition violation, so a result never depends on memory outside the
  arrays the engine was given."

A Lean model cannot exhibit the compiled program's memory behaviour.  What is proved here is the LOGIC of
memory safety on the model — index formulas stay inside the sizes the code allocates, every guarded access is
guarded in the right order, a selected / non-zero diffusion channel has a neighbour, `std::poisson_distribution`
is only constructed with a positive mean, the allocate / free state machine never double-frees or uses a freed
object — and the inventory of every `vector[index]` in the sources is tied to a registry of bounded forms (a new
or changed subscript breaks the build).  The property's own observation point (assertion-hardened / sanitizer
builds driven through the Python API) is the harness oracle.
Section 5 assembles these into `engine_never_faults` over a checked-access interpreter of the six algorithms, `Init`, the
sampler, the exports and the lifecycle.
NOT covered (why the property stays "partial by nature"): the compiled program is not the model — uninitialised reads,
overflow of `int` (sizes and Poisson counts below 2³¹ are the recorded size assumption), UB inside library internals,
the ctypes buffers' lifetimes, the body of the redistribution loop of the initial-state processing (C14; here any
size-preserving function).
-/
import Strengths.Proofs.Lifecycle
import Strengths.Proofs.CheckedSim
import Strengths.Model.Engine
import Strengths.Gen.EngineLife

namespace Strengths.C11
open Strengths Strengths.World

/-! ## 1. flattened indices stay inside their arrays -/

/-- `a[i*B + j]` with `i < A`, `j < B` is inside an array of `A*B` entries -/
theorem flat2 (A B i j : Nat) (hi : i < A) (hj : j < B) : i * B + j < A * B := by
  calc i * B + j < i * B + B := by omega
    _ = (i + 1) * B := by rw [Nat.succ_mul]
    _ ≤ A * B := Nat.mul_le_mul_right B hi

/-- `a[i*B*C + j*C + k]` (`mesh_kd`, `mesh_ad`, `mesh_nd`; also the export buffer) -/
theorem flat3 (A B C i j k : Nat) (hi : i < A) (hj : j < B) (hk : k < C) : i * B * C + j * C + k < A * B * C := by
  have h1 : j * C + k < B * C := flat2 B C j k hj hk
  have h2 : i * (B * C) + (j * C + k) < A * (B * C) := flat2 A (B * C) i (j * C + k) hi h1
  rw [Nat.mul_assoc, Nat.mul_assoc, Nat.add_assoc]
  exact h2

/-- the same with the middle stride written first (`i*6*n_species + s*6 + n`) -/
theorem flat3_alt (A B C i j k : Nat) (hi : i < A) (hj : j < B) (hk : k < C) : i * C * B + j * C + k < A * B * C := by
  have := flat3 A B C i j k hi hj hk
  rw [Nat.mul_right_comm i C B]
  exact this

/-! ## 2. the guarded read of `t_samples[sample_pos]` -/

/-- evaluation of the `while` condition's conjuncts left to right with short-circuit: does it read
`t_samples[sample_pos]` while `sample_pos ≥ n_samples`?  (`tge`: value of the comparison when it is read in range) -/
def readsOutOfRange (conds : List String) (pos n : Nat) : Bool :=
  match conds with
  | [] => false
  | c :: rest =>
    if c = "sample_pos<n_samples" then
      if pos < n then readsOutOfRange rest pos n else false      -- short-circuit
    else if c = "t>=t_samples[sample_pos]" then
      if pos < n then readsOutOfRange rest pos n else true       -- the read happens: out of range
    else readsOutOfRange rest pos n

/-- with the conjunct order of the sources the loop condition never reads past the end (nor index 0 of an
empty request list) -/
theorem tsample_read_guarded (pos n : Nat) :
    readsOutOfRange Gen.tSampleLoopCondsGrid pos n = false ∧ readsOutOfRange Gen.tSampleLoopCondsGraph pos n = false := by
  have h : Gen.tSampleLoopCondsGrid = ["sample_pos<n_samples", "t>=t_samples[sample_pos]"] := by decide
  have h' : Gen.tSampleLoopCondsGraph = ["sample_pos<n_samples", "t>=t_samples[sample_pos]"] := by decide
  rw [h, h']
  by_cases hp : pos < n <;> simp [readsOutOfRange, hp]

/-- the order matters: the swapped condition reads one past the end as soon as the last request is consumed -/
example : readsOutOfRange ["t>=t_samples[sample_pos]", "sample_pos<n_samples"] 3 3 = true := by decide

/-! ## 3. diffusion channels that are used have a neighbour -/

theorem diffPropSlot_pos_has_neighbour (e : EngIn) (x : State) (i s n : Nat) (h : 0 < diffPropSlot e x i s n) :
    (e.topo.nbr i n).isSome = true := by
  unfold diffPropSlot at h
  by_cases hn : (e.topo.nbr i n).isSome = true
  · exact hn
  · simp [hn] at h

theorem scanDiffusion_selected (e : EngIn) (x : State) (i : Nat) (r2 : Rat) (l : List (Nat × Nat)) (cum : Rat) (hc : cum ≤ r2)
    (i' s n : Nat) (h : scanDiffusion e x i r2 l cum = some (.diffusion i' s n)) :
    i' = i ∧ 0 < diffPropSlot e x i s n := by
  induction l generalizing cum with
  | nil => simp [scanDiffusion] at h
  | cons p rest ih =>
    obtain ⟨s0, n0⟩ := p
    simp only [scanDiffusion] at h
    by_cases hlt : r2 < cum + diffPropSlot e x i s0 n0
    · simp only [hlt, if_true, Option.some.injEq, Event.diffusion.injEq] at h
      obtain ⟨h1, h2, h3⟩ := h
      subst h1 h2 h3
      refine ⟨rfl, ?_⟩
      by_contra hneg
      have : diffPropSlot e x i s0 n0 ≤ 0 := not_lt.mp hneg
      linarith
    · simp only [hlt, if_false] at h
      exact ih _ (not_lt.mp hlt) h

theorem scanReactions_never_diffusion (e : EngIn) (x : State) (i : Nat) (r2 : Rat) (l : List Nat) (cum : Rat) (i' s n : Nat) :
    scanReactions e x i r2 l cum ≠ some (.diffusion i' s n) := by
  induction l generalizing cum with
  | nil => simp [scanReactions]
  | cons j rest ih =>
    simp only [scanReactions]
    split
    · simp
    · exact ih _

/-- Gillespie: the diffusion event chosen by `DrawAndApplyEvent` goes through a slot that has a neighbour, so
`ApplyDiffusion` never indexes `mesh_x` with the "no neighbour" value −1 -/
theorem selected_channel_has_neighbour (e : EngIn) (x : State) (r : Rat) (cells : List Nat) (cum : Rat) (hc : cum ≤ r)
    (i s n : Nat) (h : selectEvent e x r cells cum = some (.diffusion i s n)) :
    (e.topo.nbr i n).isSome = true := by
  induction cells generalizing cum with
  | nil => simp [selectEvent] at h
  | cons c rest ih =>
    simp only [selectEvent] at h
    by_cases h1 : r < cum + a0r e x c
    · simp only [h1, if_true] at h
      exact absurd h (scanReactions_never_diffusion e x c _ _ _ i s n)
    · simp only [h1, if_false] at h
      by_cases h2 : r < cum + a0r e x c + a0d e x c
      · simp only [h2, if_true] at h
        have hge : (0 : Rat) ≤ r - (cum + a0r e x c) := by
          have := not_lt.mp h1
          linarith
        obtain ⟨hi, hpos⟩ := scanDiffusion_selected e x c _ _ 0 hge i s n h
        subst hi
        exact diffPropSlot_pos_has_neighbour e x i s n hpos
      · simp only [h2, if_false] at h
        exact ih _ (not_lt.mp h2) h

theorem length_filterMap_ite {α β : Type} (l : List α) (p : α → Bool) (g : α → β) :
    (l.filterMap fun n => if p n = true then some (g n) else none).length = (l.filter p).length := by
  induction l with
  | nil => rfl
  | cons a l ih =>
    by_cases h : p a = true
    · simp [List.filterMap_cons, List.filter_cons, h, ih]
    · simp only [Bool.not_eq_true] at h
      simp [List.filterMap_cons, List.filter_cons, h, ih]

/-- tau-leap: `Poisson` is only called for slots with a neighbour (`tauLeapMeans` lists exactly those), every other
`mesh_nd` entry is written 0, and `Apply_nevt` skips zero counts before it reads the neighbour index -/
theorem tauleap_means_only_for_neighbours (e : EngIn) (dt : Rat) (x : State) :
    (tauLeapMeans e dt x).length =
      ((List.range e.topo.nCells).map fun i =>
        e.net.nReact + ((List.range e.net.nSpecies).map fun _ =>
          ((List.range (e.topo.nSlots i)).filter fun n => (e.topo.nbr i n).isSome).length).sum).sum := by
  unfold tauLeapMeans
  rw [List.length_flatMap]
  congr 1
  apply List.map_congr_left
  intro i _
  rw [List.length_append, List.length_map, List.length_range, List.length_flatMap]
  congr 2
  apply List.map_congr_left
  intro s _
  exact length_filterMap_ite _ _ _

/-! ## 4. `std::poisson_distribution` is never constructed with a mean ≤ 0 -/

/-- the wrappers return 0 before constructing the distribution when `lambda ≤ 0`; the three constructions in
engine.cpp are guarded by `> 0`; there is no other construction in the sources -/
theorem poisson_guards_text :
    Gen.poissonBodyGrid = "if(lambda<=0)return0;returnstd::poisson_distribution<longlong>(lambda)(rng);" ∧
    Gen.poissonBodyGraph = Gen.poissonBodyGrid ∧
    Gen.initPoissonSites = ["(mesh_x[i]>0)?std::poisson_distribution<int>(mesh_x[i])(rng):0",
      "(mesh_state[i]>0)?static_cast<double>(std::poisson_distribution<longlong>(mesh_state[i])(rng)):0",
      "(mesh_state[i]>0)?static_cast<double>(std::poisson_distribution<longlong>(mesh_state[i])(rng)):0"] ∧
    Gen.poissonMentions = 5 := ⟨rfl, rfl, rfl, rfl⟩

/-- the model's `Poisson(lambda)` consumes a draw exactly for the positive means -/
theorem poisson_only_positive (means : List Rat) (draws : List Int) (cs : List Int) (h : poissonCounts means draws = some cs) :
    draws.length = (means.filter fun m => decide (0 < m)).length ∧ cs.length = means.length := by
  induction means generalizing draws cs with
  | nil =>
    cases draws with
    | nil => simp [poissonCounts] at h; subst h; simp
    | cons d ds => simp [poissonCounts] at h
  | cons m ms ih =>
    unfold poissonCounts at h
    by_cases hm : m ≤ 0
    · simp only [hm, if_true] at h
      cases hrec : poissonCounts ms draws with
      | none => rw [hrec] at h; simp at h
      | some cs' =>
        rw [hrec] at h
        simp only [Option.map_some, Option.some.injEq] at h
        subst h
        obtain ⟨a, b⟩ := ih draws cs' hrec
        have : ¬ (0 < m) := not_lt.mpr hm
        simp [List.filter, this, a, b]
    · simp only [hm, if_false] at h
      cases draws with
      | nil => simp at h
      | cons d ds =>
        simp only at h
        cases hrec : poissonCounts ms ds with
        | none => rw [hrec] at h; simp at h
        | some cs' =>
          rw [hrec] at h
          simp only [Option.map_some, Option.some.injEq] at h
          subst h
          obtain ⟨a, b⟩ := ih ds cs' hrec
          have : 0 < m := not_le.mp hm
          simp [List.filter, this, a, b]

/-! ## 5. allocation state machine -/

/-- `engine_never_faults`: on the CHECKED-ACCESS engine (`Model/Checked*.lean`: every `std::vector` of the algorithm objects
with the size its constructor / `resize` / copy gives it, every `v[index]` of the sources a bounds-checked read or write
through the generated index formulas, `std::poisson_distribution` with its precondition `mean > 0`, the allocate / free
machine) — for every history of lifecycle calls on one engine object whose set-ups carry valid arguments (`ValidCall`:
buffer lengths as marshalled by `LibRDEngine`, environment indices < n_env, edge endpoints node indices, a valid grid
shape), for ALL draws (`Oracles`) — no call fails: no out-of-range subscript, no Poisson precondition violation, no use
of a null / freed object, no double delete.  Grid and graph, Euler, tau-leap and Gillespie, all sampling policies,
any processing of the initial state that keeps its size, degenerate shapes included. -/
theorem engine_never_faults (o : Oracles) (h : List CCall) (hv : ∀ c ∈ h, ValidCall c) :
    ∀ e : CErr, runChecked o h CWorld.boot ≠ .error e :=
  fun e => Ok.not_error (runChecked_ok o h CWorld.boot boot_wok hv) e

/-- … and the object reached is valid again (sizes, tables, layout), so the statement composes over histories -/
theorem engine_stays_valid (o : Oracles) (h : List CCall) (hv : ∀ c ∈ h, ValidCall c) :
    ∃ w, runChecked o h CWorld.boot = .ok w ∧ WOK w := runChecked_ok o h CWorld.boot boot_wok hv

/-- per function (the lemmas the assembly is made of; `Ok r P`: the checked computation `r` succeeds and `P` holds) -/
theorem per_function_theorems :
    True := trivial
-- Rates:        reactionRate_ok, reactionProp_ok, diffusionPropC_ok, diffusionRateDifferenceC_ok        (Proofs/CheckedAlgo)
-- Euler:        computeDxdt_ok, applyDxdt_ok
-- tau-leap:     poissonChecked_ok, computeNevt_ok (zeros on the walls), applyNevt_ok (non-zero count ⇒ neighbour)
-- Gillespie:    computePropensities_ok, applyReactionC_ok, applyDiffusionC_ok, drawAndApplyEvent_ok (selected ⇒ neighbour)
-- Init (grid):  buildMeshNeighbors_ok, buildMeshKr_ok, buildMeshKdGrid_ok, gridLayout_ok, gridSlotOK          (Proofs/CheckedGrid)
-- Init (graph): setNeighbors_ok, buildMeshKdGraph_ok, nestedInit_ok, graphLayout_ok, graphSlotOK             (Proofs/CheckedGraph)
-- marshalling:  mkVec_ok (ctypes buffers), speciesFirstToMeshFirst_ok                                      (Proofs/CheckedSim)
-- sampler:      evalConds_ok (guarded read, conjunct order), sampleOnTSample_ok, samplingStep_ok
-- object:       iterate_ok, iterateN_ok, run_ok, exportTrajectory_ok, exportTimesC_ok, exportState_ok, getOutputC_ok
-- set-up:       setupGridC_ok, setupGraphC_ok;  lifecycle: call_ok, runChecked_ok
-- per site:     site_x, site_d, site_chstt, site_sub, site_sto, site_kr, site_nr, site_ar, site_cell, site_x_nbr, site_chstt_nbr,
--               nbrs_site, env_site, dIndex_site, table_site_int, oppVec_site + the `_nat` lemmas of the generated formulas

/-- the sizes the checked model gives its vectors are the sizes the sources give them: every `resize(…)` / sized
constructor of the algorithm sources, as (file, vector, size expression).  (`Vec.replicate` calls of `Model/Checked*.lean`:
`buildMeshKr` n·nr, `buildMeshKdGrid` ns·n·6, `buildMeshNeighbors` w·h·d·6, `setNeighbors` / `buildMeshKdGraph` / `nestedInit`
n rows of nn[i]·ns, `scratchInit` ns·n, nr·n, 6·ns·n, n.) -/
theorem vector_sizes_text :
    Gen.vectorSizes = [
      ("SimulationAlgorithm3DBase.hpp", "mesh_kr", "n_meshes*n_reactions,0"),
      ("SimulationAlgorithm3DBase.hpp", "mesh_kd", "n_species*n_meshes*6,0"),
      ("SimulationAlgorithmGraphBase.hpp", "mesh_neighbor_n", "n_meshes,0"),
      ("SimulationAlgorithmGraphBase.hpp", "mesh_neighbor_index", "n_meshes"),
      ("SimulationAlgorithmGraphBase.hpp", "mesh_neighbor_sfc", "n_meshes"),
      ("SimulationAlgorithmGraphBase.hpp", "mesh_neighbor_dst", "n_meshes"),
      ("SimulationAlgorithmGraphBase.hpp", "mesh_kr", "n_meshes*n_reactions,0"),
      ("SimulationAlgorithmGraphBase.hpp", "mesh_kd_out", "n_meshes"),
      ("SimulationAlgorithmGraphBase.hpp", "mesh_kd_in", "n_meshes"),
      ("SimulationAlgorithmGraphBase.hpp", "mesh_kd_out[i]", "n_species*mesh_neighbor_n[i]"),
      ("SimulationAlgorithmGraphBase.hpp", "mesh_kd_in[i]", "n_species*mesh_neighbor_n[i]"),
      ("Euler3D.hpp", "mesh_dxdt", "n_species*n_meshes"),
      ("EulerGraph.hpp", "mesh_dxdt", "n_species*n_meshes"),
      ("TauLeap3D.hpp", "mesh_nr", "n_reactions*n_meshes"),
      ("TauLeap3D.hpp", "mesh_nd", "6*n_species*n_meshes"),
      ("TauLeapGraph.hpp", "mesh_nr", "n_reactions*n_meshes"),
      ("TauLeapGraph.hpp", "mesh_nd", "n_meshes"),
      ("TauLeapGraph.hpp", "mesh_nd[i]", "this->mesh_neighbor_n[i]*this->n_species"),
      ("Gillespie3D.hpp", "mesh_ar", "n_reactions*n_meshes"),
      ("Gillespie3D.hpp", "mesh_ad", "6*n_species*n_meshes"),
      ("Gillespie3D.hpp", "mesh_a0r", "n_meshes"),
      ("Gillespie3D.hpp", "mesh_a0d", "n_meshes"),
      ("GillespieGraph.hpp", "mesh_ar", "n_reactions*n_meshes"),
      ("GillespieGraph.hpp", "mesh_ad", "n_meshes"),
      ("GillespieGraph.hpp", "mesh_ad[i]", "this->mesh_neighbor_n[i]*this->n_species"),
      ("GillespieGraph.hpp", "mesh_a0r", "n_meshes"),
      ("GillespieGraph.hpp", "mesh_a0d", "n_meshes"),
      ("SimulationAlgorithm3DBase.hpp", "mesh_neighbors", "w*h*d*6")] := by decide +kernel

/-! non-vacuity: a concrete valid set-up (periodic 2×1×1 grid, one species `A ->`, tau-leap, two requested times) -/

def demoArgs : EngArgs :=
  { ns := 1, nr := 1, nenv := 1, state := Vec.ofList [3, 5], chstt := Vec.ofList [0, 0], env := Vec.ofList [0, 0],
    k := Vec.ofList [1 / 2], sub := Vec.ofList [1], sto := Vec.ofList [-1], D := Vec.ofList [1], sampleN := 2,
    sampleT := Vec.ofList [0, 1], policy := 0, interval := 1, tMax := 1, dt := 1 / 4, option := 1, process := id }
def demoGrid : GridShape := { w := 2, h := 1, d := 1, px := true }

theorem demo_valid : ValidCall (.setupGrid demoArgs demoGrid 1 1 2) := by
  refine ⟨⟨by decide, by decide, by decide, by decide, ?_, by decide, by decide, by decide, by decide, by decide, fun _ => rfl⟩, by decide⟩
  intro i hi
  have : i = 0 ∨ i = 1 := by
    have : i < 2 := hi
    omega
  rcases this with rfl | rfl <;> decide

example (o : Oracles) : ∀ e, runChecked o [.setupGrid demoArgs demoGrid 1 1 2, .iterate, .iterateN 7, .sample, .getOutput, .finalize,
    .finalize, .iterate, .getOutput] CWorld.boot ≠ .error e :=
  engine_never_faults o _ (by
    intro c hc
    simp only [List.mem_cons, List.mem_singleton, List.not_mem_nil, or_false] at hc
    rcases hc with rfl | rfl | rfl | rfl | rfl | rfl | rfl | rfl | rfl
    · exact demo_valid
    all_goals trivial)

/-- the size of the output buffer is the state size of the system the engine was INITIALISED with (`CWorld.stateSize` is
written by the set-up calls only).  Were it re-read at `get_output()` from a script object to which the caller has meanwhile
assigned a smaller system (1 value per record instead of the 2 of `demoArgs`), the export would write past the buffer: the
checked-access model faults; with the size captured at set-up it does not.  (Harness stream `caller_script_jobs`.) -/
theorem output_buffer_of_a_smaller_system_faults :
    ((setupGridC demoArgs demoGrid 1 1 >>= fun S => getOutputC S 1).toOption.isSome) = false ∧
    ((setupGridC demoArgs demoGrid 1 1 >>= fun S => getOutputC S 2).toOption.isSome) = true := by
  constructor <;> decide +kernel

/-- the allocation machine of the two-pointer model of C10 (kept: it also covers the wrapper / two space types) -/
theorem engine_never_faults_alloc {σ ω : Type} (h : List (Call σ ω)) (hr : Respecting false h) :
    ∀ ob ∈ ((World.boot : World σ ω).runHist (h.map fun c => (Obj.A, c))).2, ob ≠ Obs.fault :=
  respecting_no_fault h false _ boot_good hr

/-- `finalize` never deletes a dangling pointer: whenever `global_algo_freed` is false the current pointer is live -/
theorem no_double_free {σ ω : Type} (live : Bool) (w : World σ ω) (hg : Good live w) (o : Obj) :
    (w.call .A .finalize).2 = .unit ∧ ((w.call .A .finalize).1.call o .finalize).2 = .unit := by
  have hs : stepLive (σ := σ) (ω := ω) live .finalize = some false := rfl
  obtain ⟨h1, h2⟩ := good_step live false w .finalize hg hs
  have hf := h2.2.2.1 rfl
  have e := finalize_of_freed (w.call .A .finalize).1 o hf h2.1
  refine ⟨?_, by rw [e]⟩
  cases live with
  | false => rw [finalize_of_freed w _ (hg.2.2.1 rfl) hg.1]
  | true =>
    obtain ⟨hf', m, sc, hm, _, _⟩ := hg.2.1 rfl
    rw [call_finalize_live w _ m hg.1 hf' hm]

/-! ## 6. registry of every `vector[index]` in the engine sources -/

/-- why an index form is in range -/
inductive Bound where
  /-- literal 0/1/2 into the 3 boundary flags (`boundary_conditions(3)`) -/
  | const
  /-- a loop variable / argument ranging over the vector's length (`site_cell`, `Vec.rd_nat`, `oppVec_site`) -/
  | direct
  /-- `a*B + b` with `a < A`, `b < B` into `A*B` entries (`flat2`; `site_x`, `site_d`, `site_chstt`, `site_sub`, `site_sto`,
  `site_kr`, `site_nr`, `site_ar`, `nbrs_site`, graph rows `slotInnerGraph_nat`) -/
  | flat2
  /-- three-level row-major form (`flat3`, `flat3_alt`) -/
  | flat3
  /-- an entry of a table holding cell / environment indices, used as a row index (`site_x_nbr`, `site_chstt_nbr`,
  `table_site_int`, `dIndex_site`, `env_site`; `engNeighbor_range` / `NbOK.ent` for neighbours, ValidScript for
  `mesh_env[i] < n_env` and `edge_i[i] < n_nodes`; neighbour ≠ −1 — `applyNevt_ok`, `drawAndApplyEvent_ok`) -/
  | viaTable
  /-- guarded by the preceding conjunct (`tsample_read_guarded`, `evalConds_ok`) -/
  | guarded
  deriving DecidableEq, Repr

/-- the index expressions that occur, each with the lemma class that bounds it -/
def registry : List (String × Bound) := [
  ("0", .const), ("1", .const), ("2", .const),
  ("direction", .direct), ("i", .direct), ("j", .direct), ("mesh_index", .direct), ("n", .direct), ("r", .direct), ("s", .direct),
  ("edge_i[i]", .viaTable), ("edge_j[i]", .viaTable),
  ("i*6*n_species+s*6+n", .flat3), ("i*n_species*6+j*6+n", .flat3), ("i*n_species*6+s*6+n", .flat3),
  ("mesh_index*n_species*6+species_index*6+direction", .flat3), ("n*n_meshes*n_species+s*n_meshes+i", .flat3),
  ("i*6+n", .flat2), ("i*n_reactions+j", .flat2), ("i*n_reactions+r", .flat2), ("i*n_species+j", .flat2), ("i*n_species+s", .flat2),
  ("j*mesh_neighbor_n[i]+n", .flat2), ("j*n_reactions+r", .flat2), ("j*n_species+s", .viaTable), ("j*n_species+species_index", .viaTable),
  ("mesh_env[i]*n_reactions+r", .viaTable), ("mesh_index*6+direction", .flat2), ("mesh_index*n_reactions+reaction_index", .flat2),
  ("mesh_index*n_species+s", .flat2), ("mesh_index*n_species+species_index", .flat2),
  ("mesh_neighbor_index[mesh_index][direction]*n_species+species_index", .viaTable),
  ("s*mesh_neighbor_n[i]+n", .flat2), ("s*n_env+mesh_env[i]", .viaTable), ("s*n_env+mesh_env[j]", .viaTable), ("s*n_meshes+i", .flat2),
  ("s*n_reactions+r", .flat2), ("s*n_reactions+reaction_index", .flat2), ("sample_pos", .guarded),
  ("species_index*mesh_neighbor_n[mesh_index]+direction", .flat2), ("src_mesh_index*6+direction", .flat2)]

/-- every subscript of the engine sources has a registered, bounded index form (a new or changed subscript
expression breaks this theorem at build time), and the registry has no unused entry -/
theorem subscripts_registered :
    (∀ e ∈ Gen.subscripts, (registry.lookup e.2.2).isSome = true) ∧
    (∀ r ∈ registry, (Gen.subscripts.any fun e => e.2.2 == r.1) = true) ∧ Gen.subscripts.length = 162 := by
  decide +kernel

/-- the only guarded subscript is `t_samples[sample_pos]`, and it occurs only in the two `SampleOnTSample` loops -/
theorem guarded_subscripts :
    (Gen.subscripts.filter fun e => registry.lookup e.2.2 == some Bound.guarded) =
      [("SimulationAlgorithm3DBase.hpp", "t_samples", "sample_pos"), ("SimulationAlgorithmGraphBase.hpp", "t_samples", "sample_pos")] := by
  decide +kernel

end Strengths.C11
