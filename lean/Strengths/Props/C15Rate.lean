/-
C15 (rate corollary) — the rate law on `grid_to_graph(grid)` is the rate law on the grid.

For every valid grid (all sizes, all 8 boundary settings; periodic axes of length 1 → self-loops, of length 2 → parallel
edges), every network, state, species and cell: `Spec.rate` evaluated with the interfaces of the graph returned by
`grid_to_graph` (incident edges with multiplicity) equals `Spec.rate` with the grid's six-neighbourhood, and hence the
Euler engine on the graph computes the same derivative and the same step as the Euler engine on the grid.
Proof: the neighbour list of a cell in the graph is a permutation of the engine's slot list of the grid — both hold cell
`j` exactly `faceCount` times (`grid_to_graph_adjacency` (3) / `engine_nbr_count`) — and every edge carries the face `a²`
and the distance `a` (`grid_to_graph_geometry`).
-/
import Mathlib.Algebra.BigOperators.Group.List.Basic
import Strengths.Props.C15
import Strengths.Props.C01
import Strengths.Proofs.GridRate

namespace Strengths.C15
open Strengths Strengths.Gen Strengths.Spec

/-- the edges of a Python graph as the Spec / the engine receive them (node indices as naturals) -/
def natEdges (gr : Graph) : List (Nat × Nat × Rat × Rat) :=
  gr.edges.map fun e => (e.i.toNat, e.j.toNat, e.surface, e.distance)

def engEdges (gr : Graph) : List GEdge := gr.edges.map fun e => ⟨e.i.toNat, e.j.toNat, e.surface, e.distance⟩

theorem len_filter_cons {α : Type} (p : α → Bool) (e : α) (es : List α) :
    ((e :: es).filter p).length = (if p e = true then 1 else 0) + (es.filter p).length := by
  rw [List.filter_cons]
  split <;> simp <;> omega

theorem count_graphFaces (edges : List (Nat × Nat × Rat × Rat)) (i j : Nat) :
    ((graphFaces edges i).map (·.nbr)).count j =
      (edges.filter fun e => e.1 == i && e.2.1 == j).length + (edges.filter fun e => e.2.1 == i && e.1 == j).length := by
  induction edges with
  | nil => rfl
  | cons e es ih =>
    obtain ⟨a, b, sfc, dst⟩ := e
    have h1 : (((if a = i then [(⟨b, sfc, dst⟩ : Face)] else []).map (·.nbr)).count j) = if (a == i && b == j) = true then 1 else 0 := by
      by_cases x1 : a = i <;> by_cases x2 : b = j <;> simp [x1, x2]
    have h2 : (((if b = i then [(⟨a, sfc, dst⟩ : Face)] else []).map (·.nbr)).count j) = if (b == i && a == j) = true then 1 else 0 := by
      by_cases x1 : b = i <;> by_cases x2 : a = j <;> simp [x1, x2]
    have hgf : graphFaces ((a, b, sfc, dst) :: es) i =
        ((if a = i then [(⟨b, sfc, dst⟩ : Face)] else []) ++ (if b = i then [(⟨a, sfc, dst⟩ : Face)] else [])) ++ graphFaces es i := by
      simp [graphFaces, List.flatMap_cons]
    rw [hgf, List.map_append, List.map_append, List.count_append, List.count_append, h1, h2, ih, len_filter_cons, len_filter_cons]
    simp only
    omega

theorem count_filterMap_some {α : Type} (f : α → Option Nat) (l : List α) (j : Nat) :
    (l.filterMap f).count j = (l.filter fun n => f n == some j).length := by
  induction l with
  | nil => rfl
  | cons a as ih =>
    simp only [List.filterMap_cons, List.filter_cons]
    cases h : f a with
    | none => simp [ih]
    | some v =>
      by_cases hv : v = j
      · simp [hv, ih]
      · simp [hv, ih, List.count_cons]

theorem graphFaces_geometry (edges : List (Nat × Nat × Rat × Rat)) (i : Nat) (S d : Rat)
    (h : ∀ e ∈ edges, e.2.2.1 = S ∧ e.2.2.2 = d) : ∀ f ∈ graphFaces edges i, f.sfc = S ∧ f.dst = d := by
  intro f hf
  simp only [graphFaces, List.mem_flatMap] at hf
  obtain ⟨e, he, hfe⟩ := hf
  obtain ⟨a, b, sfc, dst⟩ := e
  have := h _ he
  simp only at this
  simp only [List.mem_append] at hfe
  rcases hfe with hfe | hfe
  · split at hfe
    · simp only [List.mem_singleton] at hfe; subst hfe; exact this
    · cases hfe
  · split at hfe
    · simp only [List.mem_singleton] at hfe; subst hfe; exact this
    · cases hfe

/-- the neighbour list of cell `i` in `grid_to_graph(grid)` is a permutation of the Spec's six-neighbourhood of the grid -/
theorem graph_nbrs_perm_grid {g : GridShape} (hv : g.valid = true) {a : Rat} {envs : List Int} {gr : Graph}
    (hgr : gridToGraph g a envs = .ok gr) {i : Nat} (hi : i < g.size) :
    ((graphFaces (natEdges gr) i).map (·.nbr)).Perm (gridNbrs g.w g.h g.d g.px g.py g.pz i) := by
  obtain ⟨hsound, _, hcount⟩ := grid_to_graph_adjacency hv hgr
  have hsz : ((g.size : Nat) : Int) = (g.w : Int) * g.h * g.d := size_cast g
  have hiR : (0 : Int) ≤ (i : Int) ∧ (i : Int) < (g.w : Int) * g.h * g.d := ⟨Int.natCast_nonneg _, by rw [← hsz]; exact_mod_cast hi⟩
  -- every edge joins two cells of the grid
  have hrange : ∀ e ∈ gr.edges, (0 ≤ e.i ∧ e.i < (g.w : Int) * g.h * g.d) ∧ (0 ≤ e.j ∧ e.j < (g.w : Int) * g.h * g.d) := by
    intro e he
    obtain ⟨c1, c2, h1, h2, e1, e2, _⟩ := hsound e he
    rw [e1, e2]
    exact ⟨cellOf_range h1, cellOf_range h2⟩
  rw [List.perm_iff_count]
  intro j
  rw [← engine_slots_are_spec_nbrs hv hi, count_filterMap_some, count_graphFaces]
  -- the filters over the naturalised edges are the filters over the Python edges
  have hconv : ∀ (p q : Nat),
      ((natEdges gr).filter fun e => e.1 == p && e.2.1 == q).length =
        (gr.edges.filter fun e => e.i == (p : Int) && e.j == (q : Int)).length := by
    intro p q
    unfold natEdges
    rw [List.filter_map, List.length_map]
    congr 1
    apply List.filter_congr
    intro e he
    obtain ⟨⟨hi0, _⟩, ⟨hj0, _⟩⟩ := hrange e he
    simp only [Function.comp]
    have e1 : (e.i.toNat == p) = (e.i == (p : Int)) := by
      rw [Bool.eq_iff_iff]; simp only [beq_iff_eq]; omega
    have e2 : (e.j.toNat == q) = (e.j == (q : Int)) := by
      rw [Bool.eq_iff_iff]; simp only [beq_iff_eq]; omega
    rw [e1, e2]
  have hconv' : ∀ (p q : Nat),
      ((natEdges gr).filter fun e => e.2.1 == p && e.1 == q).length =
        (gr.edges.filter fun e => e.i == (q : Int) && e.j == (p : Int)).length := by
    intro p q
    rw [← hconv q p]
    congr 1
    apply List.filter_congr
    intro e _
    exact Bool.and_comm _ _
  rw [hconv, hconv']
  by_cases hj : j < g.size
  · have hjR : (0 : Int) ≤ (j : Int) ∧ (j : Int) < (g.w : Int) * g.h * g.d := ⟨Int.natCast_nonneg _, by rw [← hsz]; exact_mod_cast hj⟩
    obtain ⟨gi, ci⟩ := coordsOf_inGrid hv hiR
    obtain ⟨gj, cj⟩ := coordsOf_inGrid hv hjR
    have := hcount (coordsOf g i) (coordsOf g j) gi gj
    rw [ci, cj] at this
    rw [this, engine_nbr_count hv hi hj]
  · -- no edge and no slot reaches an index outside the grid
    have hz1 : (gr.edges.filter fun e => e.i == (i : Int) && e.j == (j : Int)).length = 0 := by
      rw [List.length_eq_zero_iff, List.filter_eq_nil_iff]
      intro e he
      have := (hrange e he).2.2
      have hjj : ¬ ((j : Int) < (g.w : Int) * g.h * g.d) := by rw [← hsz]; exact_mod_cast hj
      simp only [Bool.and_eq_true, beq_iff_eq, not_and]
      intro _ h2; omega
    have hz2 : (gr.edges.filter fun e => e.i == (j : Int) && e.j == (i : Int)).length = 0 := by
      rw [List.length_eq_zero_iff, List.filter_eq_nil_iff]
      intro e he
      have := (hrange e he).1.2
      have hjj : ¬ ((j : Int) < (g.w : Int) * g.h * g.d) := by rw [← hsz]; exact_mod_cast hj
      simp only [Bool.and_eq_true, beq_iff_eq, not_and]
      intro h1 _; omega
    have hz3 : ((List.range 6).filter fun n => engNbr? g i n == some j).length = 0 := by
      rw [List.length_eq_zero_iff, List.filter_eq_nil_iff]
      intro n hn
      have hn6 : n < 6 := List.mem_range.1 hn
      simp only [beq_iff_eq]
      intro h
      exact hj (nbr_involutive hv hi hn6 h).2
    rw [hz1, hz2, hz3]

theorem sumL_perm {l1 l2 : List Rat} (h : l1.Perm l2) : sumL l1 = sumL l2 := by
  have e : ∀ l : List Rat, sumL l = l.sum := fun l => by
    induction l with
    | nil => rfl
    | cons a as ih => simp only [sumL, List.foldr_cons, List.sum_cons] at *; rw [ih]
  rw [e, e]
  exact h.sum_eq

/-- **graph_rate_eq_grid_rate** — the Spec's rate with the interfaces of `grid_to_graph(grid)` equals the Spec's rate with
the grid's own interfaces, for every valid grid, network, state, species and cell -/
theorem graph_rate_eq_grid_rate {g : GridShape} (hv : g.valid = true) {a : Rat} {envs : List Int} {gr : Graph}
    (hgr : gridToGraph g a envs = .ok gr) (P : Phys) (x : St) (s i : Nat) (hi : i < g.size)
    (hfaces : P.faces i = gridFaces g.w g.h g.d g.px g.py g.pz a i) :
    rate { P with faces := fun k => graphFaces (natEdges gr) k } x s i = rate P x s i := by
  unfold rate
  congr 1
  unfold diffusionPart
  simp only [conc]
  rw [hfaces]
  unfold gridFaces
  rw [List.map_map]
  -- every edge of the graph carries the face a·a and the distance a
  have hgeo : ∀ e ∈ natEdges gr, e.2.2.1 = a * a ∧ e.2.2.2 = a := by
    intro e he
    simp only [natEdges, List.mem_map] at he
    obtain ⟨pe, hpe, rfl⟩ := he
    exact (grid_to_graph_geometry hgr).2.1 pe hpe
  have hF := graphFaces_geometry (natEdges gr) i (a * a) a hgeo
  let T : Nat → Rat := fun j =>
    dbar (P.edge i) (P.edge j) (P.dcoef s (P.env i)) (P.dcoef s (P.env j)) * (a * a) / a * (x j s / P.vol j - x i s / P.vol i)
  have h1 : (graphFaces (natEdges gr) i).map (fun f =>
      dbar (P.edge i) (P.edge f.nbr) (P.dcoef s (P.env i)) (P.dcoef s (P.env f.nbr)) * f.sfc / f.dst * (x f.nbr s / P.vol f.nbr - x i s / P.vol i))
      = ((graphFaces (natEdges gr) i).map (·.nbr)).map T := by
    rw [List.map_map]
    apply List.map_congr_left
    intro f hf
    obtain ⟨e1, e2⟩ := hF f hf
    simp only [Function.comp, T, e1, e2]
  rw [h1]
  exact sumL_perm ((graph_nbrs_perm_grid hv hgr hi).map T)

/-- engine level: the Euler derivative on `grid_to_graph(grid)` (graph engine) equals the Euler derivative on the grid
(grid engine), for every free entry -/
theorem euler_graph_eq_euler_grid {g : GridShape} (hv : g.valid = true) {a : Rat} {envs : List Int} {gr : Graph}
    (hgr : gridToGraph g a envs = .ok gr) (P : Phys) (nEnv : Nat) (chem : Nat → Nat → Bool) (x : State) (s i : Nat)
    (hi : i < g.size) (ha : a ≠ 0) (hvol : ∀ j, P.vol j = a ^ 3) (hedge : ∀ j, P.edge j = a)
    (hfaces : P.faces i = gridFaces g.w g.h g.d g.px g.py g.pz a i) (hc : chem i s = false) :
    eulerDxdt (engOfPhysGraph { P with faces := fun k => graphFaces (natEdges gr) k } nEnv (engEdges gr) chem) x i s
      = eulerDxdt (engOfPhysGrid P nEnv g a chem) x i s := by
  have hV : P.vol i ≠ 0 := by rw [hvol]; exact pow_ne_zero 3 ha
  have hfg : (fun k => graphFaces (natEdges gr) k) i = (graphSlots (engEdges gr) i).map faceOfSlot := by
    have := C01.graph_faces_are_slots (engEdges gr) i
    simp only [engEdges, List.map_map] at this
    simp only [natEdges, engEdges]
    exact this
  rw [C01.euler_dxdt_eq_rate_graph { P with faces := fun k => graphFaces (natEdges gr) k } nEnv (engEdges gr) chem x i s hV hfg hc,
    C01.euler_dxdt_eq_rate_grid_all P nEnv g a chem x i s hv hi ha hvol hedge hfaces hc]
  exact graph_rate_eq_grid_rate hv hgr P x.get s i hi hfaces

end Strengths.C15
