/-
C12, part 4: trajectories — `save_rdtrajectory` then `load_rdtrajectory` over the virtual file system, both storage
modes of the sample data (inline in the JSON file, or in a separate array file named relative to the JSON file).
-/
import Strengths.Props.C12Classes

namespace Strengths.C12
open Strengths Strengths.Gen Strengths.Dict

/-- a constructible trajectory: any data / sample-time arrays over valid units systems, a well-formed system, no script
(the constructor default) or a well-formed one, optional engine strings, optional coarse-graining map -/
def TrajWF (tr : Traj) : Prop :=
  tr.data.u.sys.valid = true ∧ tr.t.u.sys.valid = true ∧ SystemWF tr.system ∧ (∀ s, tr.script = some s → ScriptWF s)

/-- the reloaded trajectory: arrays re-read from their unit text, system and script as in their own round trips -/
def rpTraj (tr : Traj) : Traj :=
  ⟨reparseArr tr.data, reparseArr tr.t, rp2 tr.system, tr.script.map fun s => rp3 (resolveTmax s),
   tr.engineDescription, tr.engineOption, tr.cgmap⟩

theorem optStrOf_write (x : Option String) : optStrOf (optStrJson x) = .ok x := by cases x <;> rfl

theorem joinPath_inj (dir a b : String) (h : joinPath dir a = joinPath dir b) : a = b := by
  unfold joinPath at h
  split at h
  · exact (String.append_right_inj dir).1 h
  · exact (String.append_right_inj (dir ++ "/")).1 h

theorem json_ne_data (dir stem : String) : joinPath dir (jsonName stem) ≠ joinPath dir (dataName stem) := by
  intro h
  have := (String.append_right_inj stem).1 (joinPath_inj dir _ _ h)
  exact absurd this (by decide)

/-- reading the script entry of a saved trajectory -/
theorem script_entry (dir : String) (fs : FS) (sc : Option L3) (h : ∀ s, sc = some s → ScriptWF s) :
    scriptEntry dir fs (some (scriptJson sc)) = .ok (sc.map fun s => rp3 (resolveTmax s)) := by
  cases sc with
  | none => rfl
  | some s =>
    obtain ⟨kv, hkv⟩ : ∃ kv, scriptToDict s = .obj kv := ⟨_, toDictG_eq _ _ _ _ _⟩
    simp only [scriptEntry, scriptJson, Option.getD_some, hkv]
    rw [← hkv, script_roundtrip (some dir) fs s (h s rfl)]
    rfl

theorem cgmap_entry (m : Option (List Int)) (rest : KV) (hrest : rest.lookup "cgmap" = none) :
    cgmapEntry ((rest ++ cgEntries m).lookup "cgmap") = .ok m := by
  rw [lookup_append', hrest]
  cases m with
  | none => rfl
  | some l =>
    simp only [cgEntries, Option.none_or, List.lookup_cons, beq_self_eq_true, cgmapEntry]
    rw [readInts_write]; rfl

/-- the generic part of `load_rdtrajectory`: given what the entries read as -/
theorem loadTrajectory_of_entries (fs : FS) (dir file : String) (d : KV) (sj : Json)
    (sc : Option L3) (sy : L2) (da ts : UArr) (ed' eo' : Option String) (cg : Option (List Int))
    (hfile : fs (joinPath dir file) = some (.obj d))
    (hsc : scriptEntry dir fs (d.lookup "script") = .ok sc)
    (h1 : d.lookup "system" = some sj) (hsy : systemFromDict Sys.default (some dir) fs sj = .ok sy)
    (hda : uarrEntry (some dir) fs (d.lookup "data") = .ok da) (hts : uarrEntry none fs (d.lookup "t_sample") = .ok ts)
    (hed : strEntry (d.lookup "engine_description") = .ok ed') (heo : strEntry (d.lookup "engine_option") = .ok eo')
    (hcg : cgmapEntry (d.lookup "cgmap") = .ok cg) :
    loadTrajectory fs dir file = .ok ⟨da, ts, sy, sc, ed', eo', cg⟩ := by
  unfold loadTrajectory
  simp only [hfile, hsc, h1, hsy, hda, hts, hed, heo, hcg]

theorem uarrEntry_obj (base : Option String) (fs : FS) (kv : KV) :
    uarrEntry base fs (some (.obj kv)) = readUArrDict base fs kv := rfl

theorem uarrEntry_write (base : Option String) (fs : FS) (x : UArr) (u' : Units) (h : parseUnits (showUnits x.u) = .ok u') :
    uarrEntry base fs (some (writeUArr x)) = .ok ⟨x.vs, u'⟩ := by
  have hw : writeUArr x = .obj [("value", .arr (x.vs.map .num)), ("units", .str (showUnits x.u))] := rfl
  rw [hw, uarrEntry_obj]
  exact readUArrDict_write base fs x u' h

theorem fsWith_head (fs : FS) (p : String) (j : Json) (rest : List (String × Json)) : fsWith fs ((p, j) :: rest) p = some j := by
  simp [fsWith, List.lookup_cons]

theorem fsWith_second (fs : FS) (p q : String) (j k : Json) (rest : List (String × Json)) (h : (q == p) = false) :
    fsWith fs ((p, j) :: (q, k) :: rest) q = some k := by
  simp [fsWith, List.lookup_cons, h]

theorem lookup_trajEntries (tr : Traj) (dj : Json) (k : String) (hk : k ≠ "cgmap") :
    (trajEntries tr dj ++ cgEntries tr.cgmap).lookup k = (trajEntries tr dj).lookup k := by
  rw [lookup_append']
  cases h : (trajEntries tr dj).lookup k with
  | some _ => rfl
  | none =>
    cases tr.cgmap with
    | none => rfl
    | some l => simp [cgEntries, List.lookup_cons, beq_eq_false_iff_ne.2 hk]

/-- loading a dictionary with these entries, once the "data" entry is known to read as `da` -/
theorem load_entries (fs : FS) (dir file : String) (tr : Traj) (dj : Json) (da : UArr) (ut : Units)
    (hsys : SystemWF tr.system) (hscr : ∀ s, tr.script = some s → ScriptWF s) (hut : parseUnits (showUnits tr.t.u) = .ok ut)
    (hfile : fs (joinPath dir file) = some (.obj (trajEntries tr dj ++ cgEntries tr.cgmap)))
    (hda : uarrEntry (some dir) fs (some dj) = .ok da) :
    loadTrajectory fs dir file =
      .ok ⟨da, ⟨tr.t.vs, ut⟩, rp2 tr.system, tr.script.map fun s => rp3 (resolveTmax s), tr.engineDescription,
        tr.engineOption, tr.cgmap⟩ := by
  have l1 : (trajEntries tr dj ++ cgEntries tr.cgmap).lookup "script" =
      some (scriptJson tr.script) := by
    rw [lookup_trajEntries tr dj _ (by decide)]; rfl
  have l2 : (trajEntries tr dj ++ cgEntries tr.cgmap).lookup "system" = some (systemToDict tr.system) := by
    rw [lookup_trajEntries tr dj _ (by decide)]; rfl
  have l3 : (trajEntries tr dj ++ cgEntries tr.cgmap).lookup "data" = some dj := by
    rw [lookup_trajEntries tr dj _ (by decide)]; rfl
  have l4 : (trajEntries tr dj ++ cgEntries tr.cgmap).lookup "t_sample" = some (writeUArr tr.t) := by
    rw [lookup_trajEntries tr dj _ (by decide)]; rfl
  have l5 : (trajEntries tr dj ++ cgEntries tr.cgmap).lookup "engine_description" = some (optStrJson tr.engineDescription) := by
    rw [lookup_trajEntries tr dj _ (by decide)]; rfl
  have l6 : (trajEntries tr dj ++ cgEntries tr.cgmap).lookup "engine_option" = some (optStrJson tr.engineOption) := by
    rw [lookup_trajEntries tr dj _ (by decide)]; rfl
  have hts : uarrEntry none fs (some (writeUArr tr.t)) = .ok ⟨tr.t.vs, ut⟩ := uarrEntry_write none fs tr.t ut hut
  refine loadTrajectory_of_entries fs dir file _ (systemToDict tr.system) _ _ _ _ _ _ _ hfile ?_ l2
    (system_roundtrip Sys.default (some dir) fs tr.system hsys) ?_ ?_ ?_ ?_ ?_
  · rw [l1]; exact script_entry dir fs tr.script hscr
  · rw [l3]; exact hda
  · rw [l4]; exact hts
  · rw [l5]; exact optStrOf_write _
  · rw [l6]; exact optStrOf_write _
  · exact cgmap_entry tr.cgmap _ rfl

/-- **trajectory, data stored in the JSON file** -/
theorem trajectory_roundtrip_inline (fs : FS) (dir stem : String) (tr : Traj) (h : TrajWF tr) :
    loadTrajectory (fsWith fs (saveTrajectory tr dir stem false)) dir (jsonName stem) = .ok (rpTraj tr) := by
  obtain ⟨hdv, htv, hsys, hscr⟩ := h
  obtain ⟨ud, hud, _⟩ := printable_of_valid _ hdv
  obtain ⟨ut, hut, _⟩ := printable_of_valid _ htv
  have hsave : saveTrajectory tr dir stem false =
      [(joinPath dir (jsonName stem), .obj (trajEntries tr (writeUArr tr.data) ++ cgEntries tr.cgmap))] := rfl
  rw [hsave]
  have hfile := fsWith_head fs (joinPath dir (jsonName stem))
    (.obj (trajEntries tr (writeUArr tr.data) ++ cgEntries tr.cgmap)) []
  have hda : uarrEntry (some dir) (fsWith fs [(joinPath dir (jsonName stem), .obj (trajEntries tr (writeUArr tr.data) ++ cgEntries tr.cgmap))])
      (some (writeUArr tr.data)) = .ok ⟨tr.data.vs, ud⟩ := uarrEntry_write (some dir) _ tr.data ud hud
  rw [load_entries _ dir _ tr _ ⟨tr.data.vs, ud⟩ ut hsys hscr hut hfile hda]
  simp only [rpTraj, reparseArr, hud, hut]

/-- **trajectory, data in a separate array file** referred to by its bare name, hence relative to the directory of
the JSON file (absolute or relative `dir` alike: the loader joins the name to the JSON file's own directory) -/
theorem trajectory_roundtrip_separate (fs : FS) (dir stem : String) (tr : Traj) (h : TrajWF tr)
    (hrel : isAbsolute (dataName stem) = false) :
    loadTrajectory (fsWith fs (saveTrajectory tr dir stem true)) dir (jsonName stem) = .ok (rpTraj tr) := by
  obtain ⟨hdv, htv, hsys, hscr⟩ := h
  obtain ⟨ud, hud, _⟩ := printable_of_valid _ hdv
  obtain ⟨ut, hut, _⟩ := printable_of_valid _ htv
  have hne : (joinPath dir (jsonName stem) == joinPath dir (dataName stem)) = false :=
    beq_eq_false_iff_ne.2 (json_ne_data dir stem)
  have hsave : saveTrajectory tr dir stem true =
      [(joinPath dir (dataName stem), .arr (tr.data.vs.map .num)),
       (joinPath dir (jsonName stem), .obj (trajEntries tr (.obj [("value", .str (dataName stem)), ("units", .str (showUnits tr.data.u))])
          ++ cgEntries tr.cgmap))] := rfl
  rw [hsave]
  generalize hF : ([(joinPath dir (dataName stem), Json.arr (tr.data.vs.map .num)),
       (joinPath dir (jsonName stem), .obj (trajEntries tr (.obj [("value", .str (dataName stem)), ("units", .str (showUnits tr.data.u))])
          ++ cgEntries tr.cgmap))] : List (String × Json)) = files
  have hfile : fsWith fs files (joinPath dir (jsonName stem)) =
      some (.obj (trajEntries tr (.obj [("value", .str (dataName stem)), ("units", .str (showUnits tr.data.u))]) ++ cgEntries tr.cgmap)) := by
    rw [← hF]; exact fsWith_second fs _ _ _ _ _ hne
  have hdfile : fsWith fs files (joinPath dir (dataName stem)) = some (.arr (tr.data.vs.map .num)) := by
    rw [← hF]; exact fsWith_head fs _ _ _
  have hda : uarrEntry (some dir) (fsWith fs files)
      (some (.obj [("value", .str (dataName stem)), ("units", .str (showUnits tr.data.u))])) = .ok ⟨tr.data.vs, ud⟩ := by
    rw [uarrEntry_obj]
    unfold readUArrDict
    rw [processKeys_canonical' _ _ ["value", "units"] rfl (by decide +kernel) (by decide +kernel) (by decide +kernel)]
    simp only [List.lookup, show ("value" == "value") = true from rfl, show ("units" == "value") = false by decide,
      show ("units" == "units") = true from rfl, hud, pathWithBase, hrel, Bool.false_eq_true, if_false, hdfile]
    rw [mapRes_map _ Json.num tr.data.vs (fun q _ => rfl)]
    rfl
  rw [load_entries _ dir _ tr _ ⟨tr.data.vs, ud⟩ ut hsys hscr hut hfile hda]
  simp only [rpTraj, reparseArr, hud, hut]

/-- what the round trip preserves, field by field (SI values of data and sample times, system, script, engine strings,
coarse-graining map) follows from `array_physical`, `system_roundtrip`, `script_roundtrip`; saving the reloaded
trajectory writes the same dictionary: -/
theorem trajectory_reserialise (tr : Traj) (h : TrajWF tr) (ref : Option String) :
    trajToDict (rpTraj tr) ref = trajToDict tr ref := by
  obtain ⟨hdv, htv, hsys, hscr⟩ := h
  have e1 : writeUArr (reparseArr tr.data) = writeUArr tr.data := (array_physical tr.data hdv).2.2.2
  have e2 : writeUArr (reparseArr tr.t) = writeUArr tr.t := (array_physical tr.t htv).2.2.2
  have e3 := system_reserialise tr.system hsys
  have e4 : scriptJson (tr.script.map fun s => rp3 (resolveTmax s)) = scriptJson tr.script := by
    cases hs : tr.script with
    | none => rfl
    | some s => exact script_reserialise s (hscr s hs)
  have e5 : showUnits (reparseArr tr.data).u = showUnits tr.data.u := by
    obtain ⟨u', h1, _, _, h4⟩ := printable_of_valid _ hdv
    simp only [reparseArr, h1, h4]
  have e6 : dataJson (reparseArr tr.data) ref = dataJson tr.data ref := by
    cases ref with
    | none => exact e1
    | some name => simp only [dataJson, e5]
  simp only [trajToDict, trajEntries, rpTraj, e2, e3, e4, e6]

end Strengths.C12
