/-
C17 — Trajectory accessors all read the same array consistently.

Model: `Strengths.Model.Trajectory` (hand-written from rdoutput.py; the flat index, the guards / loop
tests / returned indices of the three lookup methods, the policy list and the accessor slices are
regenerated from the source on every run: `Gen.IndexPy`, `Gen.TrajPy`).
numpy's `reshape` (C order) and negative-index wrapping are *stated* models (`reshape3`, `npNorm`).
-/
import Strengths.Proofs.Trajectory

namespace Strengths.C17
open Strengths Strengths.Gen

/-! ## what the accessors are made of (generated from the source; whole-text kernel comparison) -/

/-- the point accessor indexes the flat data at `sample·nspecies·ncells + species·ncells + cell` -/
theorem point_index (ns nc k s c : Int) : trajPointIndex ns nc k s c = k * ns * nc + s * nc + c := by
  simp [trajPointIndex]

/-- the slices taken by `get_trajectory` / `get_state`, the reshape tuples, where the three indices come
from, the units attached to every result and the meaning of the three shape numbers -/
theorem accessor_sources :
    trajectorySlices = [("self.data.value", ":,species_index,cell_index"), ("self.data.value", ":,species_index,:")] ∧
    stateSlices = [("self.data.value", "sample_index,:"), ("self.data.value", "sample_index,species_index,:")] ∧
    reshapeTrajectory = [["self.nsamples()", "self.nspecies()", "self.ncells()"], ["self.nsamples()", "self.nspecies()", "self.ncells()"]] ∧
    reshapeState = [["self.nsamples()", "self.nspecies()*self.ncells()"], ["self.nsamples()", "self.nspecies()", "self.ncells()"]] ∧
    mergeComprehension = ("sum(state)", "state") ∧
    indexSourcesTrajectory = [("cell_index", "self.system.space.get_cell_index(position)"), ("species_index", "self.system.network.get_species_index(species)")] ∧
    indexSourcesState = [("sample_index", "sample"), ("species_index", "self.system.network.get_species_index(species)")] ∧
    indexSourcesPoint = [("cell_index", "self.system.space.get_cell_index(position)"), ("sample_index", "sample"), ("species_index", "self.system.network.get_species_index(species)")] ∧
    accessorUnits = ["self.data.units", "self.data.units", "self.data.units", "self.data.units"] ∧
    pointAccessor = "self.data.get_at" ∧
    shape_ncells = "self.system.space.size()" ∧ shape_nspecies = "self.system.network.nspecies()" ∧
    shape_nsamples = "len(self.t)" := by
  decide +kernel

/-- the walk-back loop of `_first_sample_with_same_time` tests `i > 0 and t[i-1] == t[i]` -/
theorem first_same_test (i : Int) (a b : Rat) : firstSameCond i a b = true ↔ 0 < i ∧ a = b := by
  simp [firstSameCond]

/-- the three documented policies are accepted and dispatched to their own lookup; the query is first
converted to the units of the sample times -/
theorem policy_dispatch :
    sampleQueryConverted = true ∧
    (∀ p ∈ ["closest", "infeq", "supeq"], samplePolicies.contains p = true) ∧
    sampleDispatch = [("closest", "self._get_sample_index_closest(t)"), ("infeq", "self._get_sample_index_infeq(t)"),
      ("supeq", "self._get_sample_index_supeq(t)")] := by
  decide +kernel

theorem sampleIndex_policies (tr : Traj) (t : Rat) :
    tr.sampleIndex (.num t) "closest" = .ok (sampleClosest tr.ts t) ∧
    tr.sampleIndex (.num t) "infeq" = .ok (sampleInfeq tr.ts t) ∧
    tr.sampleIndex (.num t) "supeq" = .ok (sampleSupeq tr.ts t) := by
  have h1 : sampleQueryConverted = true := by decide +kernel
  have h2 : samplePolicies.contains "closest" = true ∧ samplePolicies.contains "infeq" = true ∧
      samplePolicies.contains "supeq" = true := by decide +kernel
  have h3 : sampleDispatch.lookup "closest" = some "self._get_sample_index_closest(t)" ∧
      sampleDispatch.lookup "infeq" = some "self._get_sample_index_infeq(t)" ∧
      sampleDispatch.lookup "supeq" = some "self._get_sample_index_supeq(t)" := by decide +kernel
  refine ⟨?_, ?_, ?_⟩ <;> simp only [Traj.sampleIndex, h1, queryTime, h2.1, h2.2.1, h2.2.2, h3.1, h3.2.1, h3.2.2] <;> rfl

/-- an unknown policy raises (for every query that could be read) -/
theorem unknown_policy_raises (tr : Traj) (t : Rat) (p : String) (h : p ∉ samplePolicies) :
    (tr.sampleIndex (.num t) p).isError = true := by
  have h1 : sampleQueryConverted = true := by decide +kernel
  simp [Traj.sampleIndex, h1, queryTime, h, Res.isError]

/-! ## the accessors read the same array -/

/-- numpy C-order reshape as modelled: `reshape((N,S,C))[k][s][c] = flat[k·S·C + s·C + c]` -/
theorem reshape_index (l : List Rat) (N S C : Nat) (hl : l.length = N * S * C) :
    ∃ a, reshape3 l N S C = .ok a ∧ a.length = N ∧
      ∀ k, k < N → ∃ blk, a[k]? = some blk ∧ blk.length = S ∧
        ∀ s, s < S → ∃ row, blk[s]? = some row ∧ row.length = C ∧
          ∀ c, c < C → row[c]? = l[k * (S * C) + s * C + c]? ∧ k * (S * C) + s * C + c < l.length :=
  reshape3_index l N S C hl

/-- a shape mismatch makes every reshaping accessor raise -/
theorem reshape_mismatch_raises (tr : Traj) (h : ¬ tr.wf) (s c : Nat) (k : Int) :
    (tr.state s k).isError = true ∧ (tr.cellTrajectory s c).isError = true ∧ (tr.merged s).isError = true := by
  have : tr.data.length ≠ tr.nsamples * tr.ns * tr.nc := h
  simp [Traj.state, Traj.cellTrajectory, Traj.merged, reshape3, this, Res.isError]

/-- point accessor = direct indexing -/
theorem point_accessor (tr : Traj) (hw : tr.wf) (k s c : Nat) (hk : k < tr.nsamples) (hs : s < tr.ns) (hc : c < tr.nc) :
    ∃ h : k * (tr.ns * tr.nc) + s * tr.nc + c < tr.data.length,
      tr.point s k c = .ok tr.data[k * (tr.ns * tr.nc) + s * tr.nc + c] := point_eq tr hw k s c hk hs hc

/-- per-sample state accessor: row of `ncells` values, entry `c` = direct indexing -/
theorem state_accessor (tr : Traj) (hw : tr.wf) (k s : Nat) (hk : k < tr.nsamples) (hs : s < tr.ns) :
    ∃ row, tr.state s k = .ok row ∧ row.length = tr.nc ∧
      ∀ c, c < tr.nc → row[c]? = tr.data[k * (tr.ns * tr.nc) + s * tr.nc + c]? := state_eq tr hw k s hk hs

/-- per-cell trajectory accessor: column of `nsamples` values, entry `k` = direct indexing -/
theorem cell_trajectory (tr : Traj) (hw : tr.wf) (s c : Nat) (hs : s < tr.ns) (hc : c < tr.nc) :
    ∃ col, tr.cellTrajectory s c = .ok col ∧ col.length = tr.nsamples ∧
      ∀ k, k < tr.nsamples → col[k]? = tr.data[k * (tr.ns * tr.nc) + s * tr.nc + c]? :=
  cellTrajectory_eq tr hw s c hs hc

/-- the four ways of reading (species, sample, cell) give the same number -/
theorem accessors_agree (tr : Traj) (hw : tr.wf) (k s c : Nat) (hk : k < tr.nsamples) (hs : s < tr.ns) (hc : c < tr.nc) :
    ∃ v row col, tr.data[k * (tr.ns * tr.nc) + s * tr.nc + c]? = some v ∧ tr.point s k c = .ok v ∧
      tr.state s k = .ok row ∧ row[c]? = some v ∧ tr.cellTrajectory s c = .ok col ∧ col[k]? = some v := by
  obtain ⟨hidx, hp⟩ := point_eq tr hw k s c hk hs hc
  obtain ⟨row, hr, _, hrow⟩ := state_eq tr hw k s hk hs
  obtain ⟨col, hcl, _, hcol⟩ := cellTrajectory_eq tr hw s c hs hc
  refine ⟨_, row, col, List.getElem?_eq_getElem hidx, hp, hr, ?_, hcl, ?_⟩
  · rw [hrow c hc, List.getElem?_eq_getElem hidx]
  · rw [hcol k hk, List.getElem?_eq_getElem hidx]

/-- edit-then-reread: after the data array has been replaced (whatever was read before), the four ways of reading
(species, sample, cell) give the entry of the NEW array; nothing of the old content is remembered -/
theorem edited_data_is_read (tr : Traj) (d : List Rat) (hw : (tr.setData d).wf) (k s c : Nat)
    (hk : k < tr.nsamples) (hs : s < tr.ns) (hc : c < tr.nc) :
    ∃ v row col, d[k * (tr.ns * tr.nc) + s * tr.nc + c]? = some v ∧ (tr.setData d).point s k c = .ok v ∧
      (tr.setData d).state s k = .ok row ∧ row[c]? = some v ∧ (tr.setData d).cellTrajectory s c = .ok col ∧ col[k]? = some v :=
  accessors_agree (tr.setData d) hw k s c hk hs hc

/-- a history of edits is the trajectory with the last content of each array: shape and time units never change, and the
accessors are functions of the current `Traj` value only (so of nothing that was read earlier) -/
theorem edits_keep_shape (tr : Traj) (es : List TrajEdit) :
    (tr.edits es).ns = tr.ns ∧ (tr.edits es).nc = tr.nc ∧ (tr.edits es).tu = tr.tu := by
  induction es generalizing tr with
  | nil => exact ⟨rfl, rfl, rfl⟩
  | cons e es ih =>
    have h := ih (tr.edit e)
    cases e <;> simpa [Traj.edits, Traj.edit, Traj.setData, Traj.setTimes, Traj.setDataUnits] using h

/-- the last data edit of a history wins -/
theorem edits_last_data (tr : Traj) (es : List TrajEdit) (d : List Rat) :
    (tr.edits (es ++ [.data d])).data = d := by
  simp [Traj.edits, Traj.edit, Traj.setData]

example : ({ ns := 2, nc := 2, ts := [0, 1], tu := default, data := [1, 2, 3, 4, 5, 6, 7, 8], du := default : Traj}.setData
    [11, 12, 13, 14, 15, 16, 17, 18]).point 1 1 0 = .ok 17 := by decide +kernel

/-- the whole-state accessor returns the sample's contiguous block -/
theorem whole_state_block (tr : Traj) (hw : tr.wf) (k : Nat) (hk : k < tr.nsamples) :
    tr.wholeState k = .ok ((tr.data.drop (k * (tr.ns * tr.nc))).take (tr.ns * tr.nc)) := wholeState_eq tr hw k hk

/-- the merged trajectory is, sample by sample, the sum over cells of the state accessor's row -/
theorem merged_is_sum (tr : Traj) (hw : tr.wf) (s : Nat) (hs : s < tr.ns) :
    ∃ m, tr.merged s = .ok m ∧ m.length = tr.nsamples ∧
      ∀ k, k < tr.nsamples → ∃ row, tr.state s k = .ok row ∧ m[k]? = some (sumRat row) := merged_eq tr hw s hs

/-- every accessor returns its values with the data's units -/
theorem results_carry_data_units (cx : TrajCtx) :
    (∀ sp k p v u, cx.getPoint sp k p = .ok (v, u) → u = cx.tr.du) ∧
    (∀ sp k v u, cx.getState sp k = .ok (v, u) → u = cx.tr.du) ∧
    (∀ sp p m v u, cx.getTrajectory sp p m = .ok (v, u) → u = cx.tr.du) := by
  refine ⟨?_, ?_, ?_⟩
  · intro sp k p v u h
    simp only [TrajCtx.getPoint] at h
    split at h
    · cases h
    · split at h
      · cases h
      · exact map_pair_snd h
  · intro sp k v u h
    simp only [TrajCtx.getState] at h
    split at h
    · exact map_pair_snd h
    · split at h
      · cases h
      · exact map_pair_snd h
  · intro sp p m v u h
    simp only [TrajCtx.getTrajectory] at h
    split at h
    · cases h
    · split at h
      · cases h
      · exact map_pair_snd h

/-! ## species by label, index or object; cells by index or coordinates -/

/-- index form: accepted exactly in `[0, nspecies)`; label form: the first species with that label, `None`
(⇒ the accessor raises) exactly when there is none; the object form reads the label only -/
theorem species_resolution (labels : List String) :
    (∀ i, i < labels.length → trajSpeciesIndex labels (.idx i) = some i) ∧
    (∀ i : Int, i < 0 ∨ (labels.length : Int) ≤ i → trajSpeciesIndex labels (.idx i) = none) ∧
    (∀ s k, trajSpeciesIndex labels (.label s) = some k →
        ∃ h : k < labels.length, labels[k] = s ∧ ∀ j, ∀ hj : j < k, labels[j] ≠ s) ∧
    (∀ s, trajSpeciesIndex labels (.label s) = none ↔ s ∉ labels) ∧
    (∀ s, trajSpeciesIndex labels (.obj s) = trajSpeciesIndex labels (.label s)) :=
  ⟨speciesIndex_idx labels, speciesIndex_idx_none labels, fun s => (speciesIndex_label labels s).1,
   fun s => (speciesIndex_label labels s).2.1, fun s => (speciesIndex_label labels s).2.2⟩

/-- grid: coordinates inside the grid name the same cell as their linear index `x + y·w + z·w·h` -/
theorem cell_resolution_grid (g : GridShape) (x y z : Int) (hb : withinBoundsArr g.w g.h g.d x y z = true) :
    cellIndexOf (.grid g) (.coords x y z) = .ok (x + y * g.w + z * g.w * g.h).toNat ∧
    cellIndexOf (.grid g) (.idx (x + y * g.w + z * g.w * g.h)) = .ok (x + y * g.w + z * g.w * g.h).toNat ∧
    (x + y * g.w + z * g.w * g.h).toNat < g.size := cell_coords_eq_idx g x y z hb

/-- graph: a node index in `[0, size)` is itself; anything else raises -/
theorem cell_resolution_graph (n : Nat) (i : Int) :
    (0 ≤ i ∧ i < n → cellIndexOf (.graph n) (.idx i) = .ok i.toNat) ∧
    (i < 0 ∨ (n : Int) ≤ i → (cellIndexOf (.graph n) (.idx i)).isError = true) := by
  constructor
  · intro h
    simp only [cellIndexOf]
    rw [if_neg (by omega)]
  · intro h
    simp only [cellIndexOf]
    rw [if_pos (by omega)]
    rfl

/-! ## sample-index lookup (times non-decreasing) -/

/-- `infeq`: the last sample not after `t`; `None` exactly when every sample is after `t` -/
theorem infeq_spec (ts : List Rat) (t : Rat) (hs : ts.Pairwise (· ≤ ·)) :
    (sampleInfeq ts t = none ↔ ∀ i, ∀ h : i < ts.length, t < ts[i]) ∧
    (∀ r, sampleInfeq ts t = some r → ∃ h : r < ts.length, ts[r] ≤ t ∧
        ∀ j, ∀ hj : j < ts.length, r < j → t < ts[j]) := Strengths.infeq_spec ts t hs

/-- `supeq`: the first sample not before `t` (no earlier sample is `≥ t`); `None` exactly when every sample is before `t`.
Full statement, every non-decreasing time list (repeated times included). -/
theorem supeq_spec (ts : List Rat) (t : Rat) (hs : ts.Pairwise (· ≤ ·)) :
    (sampleSupeq ts t = none ↔ ∀ i, ∀ h : i < ts.length, ts[i] < t) ∧
    (∀ r, sampleSupeq ts t = some r → ∃ h : r < ts.length, t ≤ ts[r] ∧
        ∀ j, ∀ hj : j < ts.length, j < r → ts[j] < t) := Strengths.supeq_spec ts t hs

/-- `closest`: a sample at minimal distance, and among equidistant samples (including samples sharing one time) the one
with the smallest index — ties to the earlier; `None` exactly when there is no sample.
Full statement, every non-decreasing time list. -/
theorem closest_spec (ts : List Rat) (t : Rat) (hs : ts.Pairwise (· ≤ ·)) :
    (sampleClosest ts t = none ↔ ts = []) ∧
    (∀ r, sampleClosest ts t = some r → ∃ h : r < ts.length,
        (∀ j, ∀ hj : j < ts.length, |t - ts[r]| ≤ |t - ts[j]|) ∧
        (∀ j, ∀ hj : j < ts.length, |t - ts[j]| = |t - ts[r]| → r ≤ j)) := Strengths.closest_spec ts t hs

/-- `_first_sample_with_same_time(k)` walks back to the first index of the run of equal times ending at `k` -/
theorem first_sample_with_same_time (ts : List Rat) (k : Nat) (hk : k < ts.length) :
    ∀ r, firstSame ts k = r → ∃ hr : r ≤ k, ts[r]'(by omega) = ts[k] ∧
      (∀ j, ∀ hj : j < ts.length, r ≤ j → j ≤ k → ts[j] = ts[k]) ∧
      (∀ hpos : 0 < r, ts[r - 1]'(by omega) ≠ ts[k]) := firstSame_spec ts k hk

/-- repeated sample times (the former counter-instance `[0,1,1]`, query `1`): earliest index for `closest` and `supeq`,
latest for `infeq` -/
example : sampleClosest [0, 1, 1] 1 = some 1 ∧ sampleSupeq [0, 1, 1] 1 = some 1 ∧ sampleInfeq [0, 1, 1] 1 = some 2 ∧
    sampleClosest [0, 1, 1, 2] (3/2) = some 1 ∧ sampleClosest [0, 1, 1] 5 = some 1 := by decide +kernel

/-! ## any time unit -/

/-- a query given as a quantity in any time unit is compared through its SI value: the converted number
times the SI size of the trajectory's time unit is the SI value of the query; order of converted numbers =
order of SI values; two spellings of the same time give the same converted number (hence the same
lookup result for every policy) -/
theorem any_time_unit {tu : Units} (hv : tu.sys.valid = true) :
    (∀ x t, queryTime tu (.uval x) = .ok t → x.u.dim = tu.dim ∧ t * siFactor tu.sys tu.dim = x.si) ∧
    (∀ t a : Rat, (t ≤ a ↔ t * siFactor tu.sys tu.dim ≤ a * siFactor tu.sys tu.dim) ∧
                  (t < a ↔ t * siFactor tu.sys tu.dim < a * siFactor tu.sys tu.dim)) ∧
    (∀ x y a b, queryTime tu (.uval x) = .ok a → queryTime tu (.uval y) = .ok b → x.si = y.si → a = b) :=
  ⟨fun _ _ h => queryTime_si hv h, fun t a => query_order_is_SI_order hv t a,
   fun _ _ _ _ hx hy hsi => queryTime_unit_independent hv hx hy hsi⟩

/-- a query whose dimension is not a time raises -/
theorem query_other_dim_raises (tu : Units) (x : UVal) (h : x.u.dim ≠ tu.dim) :
    (queryTime tu (.uval x)).isError = true := by
  have h' : tu.dim ≠ x.u.dim := fun e => h e.symm
  simp [queryTime, UVal.convert, targetSys, h', Except.map, Res.isError]

/-! ## non-vacuity -/

/-- a 2-sample × 2-species × 3-cell trajectory: the accessors on (species 1, sample 1, cell 2) -/
example :
    let tr : Traj := ⟨2, 3, [0, 1], ⟨Sys.default, Dim.time_⟩, [0,1,2,3,4,5,6,7,8,9,10,11], ⟨Sys.default, Dim.quantity⟩⟩
    tr.wf ∧ tr.point 1 1 2 = .ok 11 ∧ tr.state 1 1 = .ok [9, 10, 11] ∧ tr.cellTrajectory 1 2 = .ok [5, 11] ∧
    tr.merged 1 = .ok [12, 30] ∧ tr.wholeState 1 = .ok [6, 7, 8, 9, 10, 11] := by
  refine ⟨by decide +kernel, by decide +kernel, by decide +kernel, by decide +kernel, by decide +kernel, by decide +kernel⟩

example : ([0, 1/2, 2] : List Rat).Pairwise (· < ·) ∧ sampleClosest [0, 1/2, 2] (5/4) = some 1 ∧
    sampleInfeq [0, 1/2, 2] (-1) = none ∧ sampleSupeq [0, 1/2, 2] 3 = none ∧ sampleSupeq [0, 1/2, 2] 1 = some 2 := by
  decide +kernel

end Strengths.C17
