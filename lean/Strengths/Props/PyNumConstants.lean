/-
Numeric inventory of src/strengths/constants.py (generated: `Gen.PyNumeric.inv_constants`, regenerated from the source on every run).
-/
import Strengths.Model.PyNumeric

namespace Strengths.PyNumeric
open Strengths.Gen.PyNumeric

/-- `constants.py` never rounds, truncates, compares with a tolerance, stores numbers in less than 64 bits, or prints them with a
limited number of digits (the model computes its values exactly and its texts through `repr`) -/
theorem constants_full_precision : fullPrecision inv_constants = true := by decide +kernel

/-- `constants.py` takes no maximum / minimum / absolute value and swallows no exception: nothing it computes is clamped -/
theorem constants_no_clamping : clamp_constants = [] := by decide +kernel

end Strengths.PyNumeric
