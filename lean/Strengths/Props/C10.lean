/-
C10 — Simulations terminate, and the engine lifecycle is crash-free and isolated.

  "For every valid script, engine set-up returns and every loop call returns (no hang), a fixed-step
  simulation completes after ceil(t_max/dt) steps (give or take one), a completed simulation stays completed
  and further iterations change nothing, the completion status reported by an engine always refers to its
  current set-up, and the output can be fetched repeatedly with the same result. Releasing an engine is safe
  at any point and any number of times, and a new set-up afterwards starts from a clean slate. Engine objects
  are independent: operating one never changes what another one returns."

Model: `Model/Lifecycle.lean` (native globals with null / live / dangling pointers, wrapper attributes,
two engine objects on one library) over `Model/Sampler.lean`.  In the model a call "does not return" when it
faults (use of a non-live object, double delete, output buffer overflow).

What holds and what does not (both shown here):
* every clause holds for histories of ONE engine object with valid scripts, in any order of calls, under the two
  external assumptions named in `every_call_returns` (every native
  entry point first tests `global_algo_freed`, so calls on a released engine return "finished" / nothing);
* `independent` is FALSE (two objects share the native simulation): negation witness below — recorded known finding.
(Two defects found with this check were fixed in the repository: calls on a released engine crashed — 3624ce1;
`iterate_n(k ≤ 0)` reset the completion status — 4bbc3f0.  The theorems `use_after_finalize_safe` and
`iterate_n_nonpositive_keeps_status` state the repaired behaviour.)
-/
import Strengths.Proofs.Lifecycle
import Strengths.Gen.ScriptPy
import Strengths.Gen.EngineLife

namespace Strengths.C10
open Strengths Strengths.SimSt Strengths.World

variable {σ ω : Type}

/-! ## 1. the model's entry points are the code's (generated text) -/

theorem native_globals_text :
    Gen.engineGlobals = [("global_grid_algo", ""), ("global_graph_algo", ""), ("global_space_type", ""), ("global_algo_freed", "true")] ∧
    Gen.engineSpaceTypeAssigns = ["global_space_type=0;", "global_space_type=1;"] ∧
    Gen.engineNewSites = ["global_grid_algo=newGillespie3D();global_algo_freed=false;", "global_grid_algo=newTauLeap3D();global_algo_freed=false;",
      "global_grid_algo=newEuler3D();global_algo_freed=false;", "global_graph_algo=newGillespieGraph();global_algo_freed=false;",
      "global_graph_algo=newTauLeapGraph();global_algo_freed=false;", "global_graph_algo=newEulerGraph();global_algo_freed=false;"] :=
  ⟨rfl, rfl, rfl⟩

theorem entry_points_text :
    Gen.body_engineexport_finalize = "if(global_algo_freed)return0;if(global_space_type==0)deleteglobal_grid_algo;elsedeleteglobal_graph_algo;global_algo_freed=true;return0;" ∧
    Gen.body_engineexport_iterate = "if(global_algo_freed)return0;boolunfinished=true;if(global_space_type==0)unfinished=global_grid_algo->Iterate();elseif(global_space_type==1)unfinished=global_graph_algo->Iterate();returnunfinished;" ∧
    Gen.body_engineexport_iterate_n = "if(global_algo_freed)return0;boolunfinished=true;for(inti=0;i<n_iterations;i++){if(global_space_type==0)unfinished=global_grid_algo->Iterate();elseif(global_space_type==1)unfinished=global_graph_algo->Iterate();if(!unfinished)break;}returnunfinished;" ∧
    Gen.body_engineexport_run = "if(global_algo_freed)return0;boolunfinished=true;autot0=std::chrono::system_clock::now();for(;;){if(global_space_type==0)unfinished=global_grid_algo->Iterate();elseif(global_space_type==1)unfinished=global_graph_algo->Iterate();intdt=static_cast<int>(std::chrono::duration_cast<std::chrono::milliseconds>(std::chrono::system_clock::now()-t0).count());if(!unfinished||dt>=breathe_dt)break;}returnunfinished;" ∧
    Gen.body_engineexport_sample = "if(global_algo_freed)return0;if(global_space_type==0)global_grid_algo->Sample();elseglobal_graph_algo->Sample();return0;" ∧
    Gen.body_engineexport_get_progress = "if(global_algo_freed)return0;doubleprogress=0;if(global_space_type==0)progress=global_grid_algo->GetProgress();elseif(global_space_type==1)progress=global_graph_algo->GetProgress();returnprogress;" ∧
    Gen.body_engineexport_get_nsamples = "if(global_algo_freed)return0;if(global_space_type==0)returnglobal_grid_algo->NSamples();elsereturnglobal_graph_algo->NSamples();" :=
  ⟨rfl, rfl, rfl, rfl, rfl, rfl, rfl⟩

theorem wrapper_text :
    Gen.wrapperInitAttrs = ["_lib", "_requires_molecules", "_simulation_unfinished"] ∧
    Gen.wrapperSetupAttrs = ["_script", "_simulation_unfinished", "_units_system"] ∧
    Gen.wrapperSetupHead = ["self._script=script.copy()", "self._simulation_unfinished=1"] ∧
    Gen.wrapper_run = ["self._simulation_unfinished=self._lib.engineexport_run(breathe_dt)", "returnbool(self._simulation_unfinished)"] ∧
    Gen.wrapper_iterate = ["self._simulation_unfinished=self._lib.engineexport_iterate()", "returnbool(self._simulation_unfinished)"] ∧
    Gen.wrapper_iterate_n = ["ifn_iterations<=0:returnbool(self._simulation_unfinished)",
      "self._simulation_unfinished=self._lib.engineexport_iterate_n(n_iterations)", "returnbool(self._simulation_unfinished)"] ∧
    Gen.wrapper_get_progress = ["progress=self._lib.engineexport_get_progress()", "returnfloat(progress)"] ∧
    Gen.wrapper_sample = ["self._lib.engineexport_sample()"] ∧
    Gen.wrapper_is_complete = ["returnnotbool(self._simulation_unfinished)"] ∧
    Gen.wrapper_finalize = ["self._lib.engineexport_finalize()"] ∧
    Gen.wrapperGetDataHead = ["n_sample=self._count_samples()", "data_len=n_sample*self._script.system.state_size()",
      "data_=(data_len*ctypes.c_double)()", "self._lib.engineexport_get_trajectory(data_)"] :=
  ⟨rfl, rfl, rfl, rfl, rfl, rfl, rfl, rfl, rfl, rfl, rfl⟩

/-! ## 2. every call returns -/

/-- For every valid script every lifecycle call returns (with a value: no fault, no hang) — for ALL histories of one
engine object, any order of calls including calls on a released engine — given the two external assumptions, which
are explicit in `Respecting` (through `stepLive`), per script that is set up:
* `initReturns`  — the initial-state redistribution loop of `GenerateStochasticDistribution` terminates
                   (C14's hypothesis `redist_progress`);
* `stepReturns`  — every Poisson draw of the run returns.  With `std::poisson_distribution<int>` (pinned tree) this was a
                   size assumption (Poisson means below 2³¹); running the real code at the excluded point showed that it is
                   needed — a mean ≥ 2³¹ never returned — and the engine now draws with `<long long>` (fix30, f4d954c), which
                   moves the bound to 2⁶³; the harness generates means beyond 2³¹ and observes the calls with time-outs.
Everything else the calls do is total in the model: `Iterate` is a total function, `iterate_n` / `run` are finite
compositions of it (`loops_are_finite`), the export loops are bounded by the sizes. -/
theorem every_call_returns (h : List (Call σ ω)) (hr : Respecting false h) :
    ∀ ob ∈ ((World.boot : World σ ω).runHist (h.map fun c => (Obj.A, c))).2, ob.returned :=
  respecting_returns h false _ boot_good hr

/-- the assumptions are needed: a script whose redistribution loop does not terminate hangs `setup`, one whose Poisson
calls do not return hangs the first drive call (the model's rendering of the two assumptions) -/
def hangInit : Setup Nat Nat :=
  { spaceType := 0, cfg := { policy := 1, tSamples := [], interval := 1, tMax := 1 }, algo := { step := fun n => some (n + 1, 1), obs := id },
    x0 := 0, stateSize := 1, raises := false, initReturns := false }
def hangStep : Setup Nat Nat :=
  { spaceType := 0, cfg := { policy := 1, tSamples := [], interval := 1, tMax := 1 }, algo := { step := fun n => some (n + 1, 1), obs := id },
    x0 := 0, stateSize := 1, raises := false, stepReturns := false }

theorem external_assumptions_needed :
    ((World.boot : World Nat Nat).runHist [(.A, .setup hangInit)]).2 = [.hang] ∧
    ((World.boot : World Nat Nat).runHist [(.A, .setup hangStep), (.A, .isComplete), (.A, .iterate)]).2 = [.unit, .bool false, .hang] := by
  constructor <;> decide +kernel

/-- `iterate_n` is `n` times `Iterate()` and `run` is `iterate_n` for the number of iterations the wall clock
allows: both are finite compositions of the (total) `Iterate` -/
theorem loops_are_finite (A : Algo σ ω) (cfg : SamplerCfg) (s : SimSt σ ω) (n k : Nat) :
    Same (iterateN A cfg n s).1 (iter A cfg n s) ∧ Same (run A cfg k s).1 (iter A cfg (k + 1) s) :=
  ⟨iterateN_state A cfg n s, by
    obtain ⟨h1, _⟩ := run_eq_iterateN A cfg k s
    obtain h2 := iterateN_state A cfg (k + 1) s
    exact ⟨h1.1.trans h2.1, h1.2.1.trans h2.2.1, h1.2.2.1.trans h2.2.2.1, h1.2.2.2.1.trans h2.2.2.2.1,
      h1.2.2.2.2.1.trans h2.2.2.2.2.1, h1.2.2.2.2.2.trans h2.2.2.2.2.2⟩⟩

/-! ## 3. fixed-step runs complete after ⌈t_max/dt⌉ steps, give or take one -/

theorem fixed_step_completes (A : Algo σ ω) (cfg : SamplerCfg) {dt : Rat} (hfs : FixedStep A dt) (hdt : 0 < dt)
    (htm : 0 ≤ cfg.tMax) (x0 : σ) :
    (∀ n, (iter A cfg n (init A cfg x0)).complete = true ↔ stepCount cfg.tMax dt ≤ n) ∧
    ((stepCount cfg.tMax dt : Int) = ⌈cfg.tMax / dt⌉ ∨ (stepCount cfg.tMax dt : Int) = ⌈cfg.tMax / dt⌉ + 1) := by
  refine ⟨fun n => (fixed_run A cfg hfs hdt htm x0 n).2, ?_⟩
  have h0 : 0 ≤ (cfg.tMax / dt).floor := by
    rw [le_floor_iff' cfg.tMax dt hdt]; simpa using htm
  have h1 : ⌈cfg.tMax / dt⌉ ≤ ⌊cfg.tMax / dt⌋ + 1 := Int.ceil_le_floor_add_one _
  have h2 : ⌊cfg.tMax / dt⌋ ≤ ⌈cfg.tMax / dt⌉ := Int.floor_le_ceil _
  have h3 : ⌊cfg.tMax / dt⌋ = (cfg.tMax / dt).floor := rfl
  unfold stepCount
  omega

/-! ## 4. a completed simulation stays completed; further iterations change nothing -/

theorem complete_sticky (A : Algo σ ω) (cfg : SamplerCfg) (s : SimSt σ ω) (h : s.complete = true) :
    iterate A cfg s = ({ s with done := false }, false) ∧
    (∀ n, iterateN A cfg (n + 1) s = ({ s with done := false }, false)) ∧
    (∀ k, run A cfg k s = ({ s with done := false }, false)) ∧
    (∀ n, (iter A cfg n s).complete = true ∧ (iter A cfg n s).t = s.t ∧ (iter A cfg n s).x = s.x ∧ (iter A cfg n s).recs = s.recs) := by
  obtain ⟨h1, h2, h3⟩ := drive_of_complete A cfg s h
  refine ⟨h1, h2, h3, fun n => ?_⟩
  obtain ⟨a, b, c, d, _⟩ := iter_of_complete A cfg s h n
  exact ⟨a, b, c, d⟩

/-! ## 5. the status refers to the current set-up -/

/-- right after a set-up of a valid script `is_complete()` is `false`, whatever happened before -/
theorem status_reset_by_setup (w : World σ ω) (o : Obj) (sc : Setup σ ω) (hc : w.crashed = false) (hi : sc.initReturns = true) :
    ((w.call o (.setup sc)).1.call o .isComplete).2 = .bool false := by
  by_cases hr : sc.raises = true
  · rw [call_setup_raises w o sc hc hr, call_isComplete _ _ (by rw [setObj_crashed]; exact hc), obj_setObj]; rfl
  · simp only [Bool.not_eq_true] at hr
    rw [call_setup_ok w o sc hc hr hi]
    rw [call_isComplete _ _ (by show (w.setObj o _).crashed = false; rw [setObj_crashed]; exact hc)]
    cases o <;> rfl

/-- along a history with valid scripts, whenever `is_complete()` would answer `true` while a simulation is set
up, the CURRENT native simulation is complete -/
theorem status_refers_to_current_setup (h : List (Call σ ω)) (hr : Respecting false h) :
    let w := ((World.boot : World σ ω).runHist (h.map fun c => (Obj.A, c))).1
    w.a.unfinished = false → w.native.freed = false → ∀ m, cur w.native = .live m → m.sim.complete = true := by
  have key : ∀ (h : List (Call σ ω)) (live : Bool) (w : World σ ω), Good live w → Respecting live h →
      ∃ live', Good live' (w.runHist (h.map fun c => (Obj.A, c))).1 := by
    intro h
    induction h with
    | nil => intro live w hg _; exact ⟨live, hg⟩
    | cons c rest ih =>
      intro live w hg hr
      obtain ⟨live', hs, hrest⟩ := hr
      exact ih live' _ (good_step live live' w c hg hs).2 hrest
  obtain ⟨live', hg⟩ := key h false _ boot_good hr
  exact hg.2.2.2

/-! ## 6. the output can be fetched repeatedly with the same result -/

theorem output_idempotent (w : World σ ω) (o : Obj) (h : (w.call o .getOutput).2 ≠ .fault) :
    (w.call o .getOutput).1 = w ∧ ((w.call o .getOutput).1.call o .getOutput).2 = (w.call o .getOutput).2 := by
  have := getOutput_pure w o h
  exact ⟨this, by rw [this]⟩

/-! ## 7. releasing is safe at any point and any number of times; a new set-up starts from a clean slate -/

theorem finalize_idempotent (live : Bool) (w : World σ ω) (hg : Good live w) (o : Obj) :
    (w.call .A .finalize).2 = .unit ∧ (w.call .A .finalize).1.crashed = false ∧
    (w.call .A .finalize).1.call o .finalize = ((w.call .A .finalize).1, .unit) := by
  have hs : stepLive (σ := σ) (ω := ω) live .finalize = some false := rfl
  obtain ⟨h1, h2⟩ := good_step live false w .finalize hg hs
  have hc := h2.1
  have hf := h2.2.2.1 rfl
  refine ⟨?_, hc, finalize_of_freed _ o hf hc⟩
  cases live with
  | false => rw [finalize_of_freed w _ (hg.2.2.1 rfl) hg.1]
  | true =>
    obtain ⟨hf', m, sc, hm, _, _⟩ := hg.2.1 rfl
    rw [call_finalize_live w _ m hg.1 hf' hm]

/-- clean slate: whatever the process did before (any two non-crashed worlds — other simulations of any kind,
finalized or not, on this or another engine object), a history that starts with `setup` of a valid script
observes exactly the same values -/
theorem setup_after_finalize_clean (w1 w2 : World σ ω) (h1 : w1.crashed = false) (h2 : w2.crashed = false)
    (sc : Setup σ ω) (hr : sc.raises = false) (hi : sc.initReturns = true) (rest : List (Call σ ω)) :
    (w1.runHist ((Call.setup sc :: rest).map fun c => (Obj.A, c))).2 =
    (w2.runHist ((Call.setup sc :: rest).map fun c => (Obj.A, c))).2 := by
  simp only [List.map_cons, runHist]
  have hrel := setup_rel w1 w2 sc h1 h2 hr hi
  have h0 : (w1.call .A (.setup sc)).2 = (w2.call .A (.setup sc)).2 := by
    rw [call_setup_ok w1 _ _ h1 hr hi, call_setup_ok w2 _ _ h2 hr hi]
  rw [h0, runHist_rel rest _ _ hrel]

/-! ## 8. independence -/

/-- calls on B never touch A's wrapper -/
theorem other_object_keeps_wrapper (w : World σ ω) (c : Call σ ω) : (w.call .B c).1.a = w.a := by
  by_cases hc : w.crashed = true
  · rw [call_crashed w _ _ hc]
  · simp only [Bool.not_eq_true] at hc
    have hon : ∀ (d : World σ ω × Obs ω) (f : NSim σ ω → World σ ω × Obs ω), d.1.a = w.a → (∀ m, (f m).1.a = w.a) →
        (w.onSim d f).1.a = w.a := by
      intro d f hd hf
      by_cases hfr : w.native.freed = true
      · rw [onSim_freed w d f hfr]; exact hd
      · simp only [Bool.not_eq_true] at hfr
        cases hp : cur w.native with
        | live m => rw [onSim_live w d f m hfr hp]; exact hf m
        | null => rw [onSim_null w d f hfr hp]; rfl
        | dangling => rw [onSim_dangling w d f hfr hp]; rfl
    have hdr : ∀ (m : NSim σ ω) (r : SimSt σ ω × Bool), (w.driveIf .B m r).1.a = w.a := by
      intro m r; unfold driveIf; split <;> rfl
    have hout : ∀ m, (w.outputOf .B m).1.a = w.a := by
      intro m
      unfold outputOf
      cases (w.obj .B).script with
      | none => rfl
      | some sc => dsimp only; split <;> [rfl; (split <;> rfl)]
    have houtd : (w.outputDead .B).1.a = w.a := by
      unfold outputDead
      cases (w.obj .B).script with
      | none => rfl
      | some sc => rfl
    cases c with
    | setup sc =>
      by_cases hr : sc.raises = true
      · rw [call_setup_raises w _ _ hc hr]; rfl
      · simp only [Bool.not_eq_true] at hr
        by_cases hi : sc.initReturns = true
        · rw [call_setup_ok w _ _ hc hr hi]; rfl
        · simp only [Bool.not_eq_true] at hi; rw [call_setup_hangs w _ _ hc hr hi]; rfl
    | iterate => rw [call_iterate w _ hc]; exact hon _ _ rfl (fun m => hdr m _)
    | iterateN n =>
      by_cases hn : n ≤ 0
      · rw [call_iterateN_nonpos w _ _ hc hn]
      · rw [call_iterateN_pos w _ _ hc hn]; exact hon _ _ rfl (fun m => hdr m _)
    | run k => rw [call_run w _ _ hc]; exact hon _ _ rfl (fun m => hdr m _)
    | sample => rw [call_sample w _ hc]; exact hon _ _ rfl (fun m => rfl)
    | getProgress => rw [call_getProgress w _ hc]; exact hon _ _ rfl (fun m => rfl)
    | isComplete => rw [call_isComplete w _ hc]
    | getOutput => rw [call_getOutput w _ hc]; exact hon _ _ houtd hout
    | finalize =>
      by_cases hf : w.native.freed = true
      · rw [finalize_of_freed w _ hf hc]
      · simp only [Bool.not_eq_true] at hf
        cases hp : cur w.native with
        | live m => rw [call_finalize_live w _ m hc hf hp]
        | null => rw [call_finalize_null w _ hc hf hp]
        | dangling => rw [call_finalize_dangling w _ hc hf hp]; rfl

/-- Full statement (`Independent` below): operating one engine never changes what another one returns.
PARTIAL: it holds when the live intervals do not overlap — operations on B (any, as long as the process
survives them) leave A's wrapper status untouched and change nothing that a later `setup`-started history
on A observes.  The full statement is false: `not_independent`. -/
theorem independent_partial (w : World σ ω) (hB : List (Call σ ω)) (sc : Setup σ ω) (hr : sc.raises = false) (hi : sc.initReturns = true) (rest : List (Call σ ω))
    (hw : w.crashed = false) (hsurv : (w.runHist (hB.map fun c => (Obj.B, c))).1.crashed = false) :
    (w.runHist (hB.map fun c => (Obj.B, c))).1.a = w.a ∧
    ((w.runHist (hB.map fun c => (Obj.B, c))).1.runHist ((Call.setup sc :: rest).map fun c => (Obj.A, c))).2 =
      (w.runHist ((Call.setup sc :: rest).map fun c => (Obj.A, c))).2 := by
  refine ⟨?_, setup_after_finalize_clean _ _ hsurv hw sc hr hi rest⟩
  clear hsurv hw
  induction hB generalizing w with
  | nil => rfl
  | cons c tl ih =>
    simp only [List.map_cons, runHist]
    rw [ih, other_object_keeps_wrapper]

/-! ## non-vacuity and the negation witnesses (concrete histories, evaluated by the kernel) -/

def demoAlgo (dt : Rat) : Algo Nat Nat := { step := fun n => some (n + 1, dt), obs := id }
def scA : Setup Nat Nat :=
  { spaceType := 0, cfg := { policy := 1, tSamples := [], interval := 1, tMax := 1 / 2 }, algo := demoAlgo (1 / 4), x0 := 0,
    stateSize := 1, raises := false }
def scB : Setup Nat Nat :=
  { spaceType := 1, cfg := { policy := 1, tSamples := [], interval := 1, tMax := 5 }, algo := demoAlgo 1, x0 := 0,
    stateSize := 1, raises := false }

def obsOf (h : List (Obj × Call Nat Nat)) : List (Obs Nat) := ((World.boot : World Nat Nat).runHist h).2

/-- a respecting history: set-up, run to completion, output twice, release twice, new set-up -/
example : obsOf [(.A, .setup scA), (.A, .iterate), (.A, .iterateN 5), (.A, .isComplete), (.A, .getOutput), (.A, .getOutput),
      (.A, .finalize), (.A, .finalize), (.A, .setup scA), (.A, .isComplete), (.A, .getOutput)] =
    [.unit, .bool true, .bool false, .bool true, .output [0, 1/4, 1/2, 3/4] [0, 1, 2, 3], .output [0, 1/4, 1/2, 3/4] [0, 1, 2, 3],
      .unit, .unit, .unit, .bool false, .output [0] [0]] := by decide +kernel

/-- what A observes alone -/
example : obsOf [(.A, .setup scA), (.A, .iterate), (.A, .getOutput)] = [.unit, .bool true, .output [0, 1/4] [0, 1]] := by decide +kernel

/-- KNOWN FINDING (two live engine objects share one native simulation): with B set up in between, A's output is
B's data -/
theorem not_independent :
    obsOf [(.A, .setup scA), (.A, .iterate), (.B, .setup scB), (.A, .getOutput)] = [.unit, .bool true, .unit, .output [0] [0]] ∧
    obsOf [(.A, .setup scA), (.A, .iterate), (.A, .getOutput)] = [.unit, .bool true, .output [0, 1/4] [0, 1]] := by
  constructor <;> decide +kernel

/-- the full independence statement: removing B's calls from any history does not change what A's calls return -/
def Independent : Prop :=
  ∀ h : List (Obj × Call Nat Nat),
    ((List.zip h (obsOf h)).filter (fun p => p.1.1 == Obj.A)).map (·.2) = obsOf (h.filter (fun p => p.1 == Obj.A))

theorem independent_is_false : ¬ Independent := by
  intro h
  have := h [(.A, .setup scA), (.A, .iterate), (.B, .setup scB), (.A, .getOutput)]
  revert this
  decide +kernel

/-- (fixed in 3624ce1) calls on a released engine return at once: "finished", nothing sampled, progress 0, an empty trajectory -/
theorem use_after_finalize_safe :
    obsOf [(.A, .setup scA), (.A, .finalize), (.A, .iterate), (.A, .run 3), (.A, .sample), (.A, .getProgress), (.A, .getOutput),
      (.A, .finalize)] = [.unit, .unit, .bool false, .bool false, .unit, .num 0, .output [] [], .unit] := by decide +kernel

/-- (fixed in 4bbc3f0) `iterate_n(k ≤ 0)` leaves the completion status as it is -/
theorem iterate_n_nonpositive_keeps_status :
    obsOf [(.A, .setup scA), (.A, .iterateN 0), (.A, .isComplete), (.A, .iterateN 9), (.A, .isComplete), (.A, .iterateN 0),
      (.A, .iterateN (-1)), (.A, .isComplete)] =
      [.unit, .bool true, .bool false, .bool false, .bool true, .bool false, .bool false, .bool true] := by decide +kernel

end Strengths.C10
