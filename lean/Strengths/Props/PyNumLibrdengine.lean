/-
Numeric inventory of src/strengths/librdengine.py (generated: `Gen.PyNumeric.inv_librdengine`, regenerated from the source on every run).
-/
import Strengths.Model.PyNumeric

namespace Strengths.PyNumeric
open Strengths.Gen.PyNumeric

/-- `librdengine.py` never rounds, truncates, compares with a tolerance, stores numbers in less than 64 bits, or prints them with a
limited number of digits (the model computes its values exactly and its texts through `repr`) -/
theorem librdengine_full_precision : fullPrecision inv_librdengine = true := by decide +kernel

/-- `librdengine.py` takes no maximum / minimum / absolute value and swallows no exception: nothing it computes is clamped -/
theorem librdengine_no_clamping : clamp_librdengine = [] := by decide +kernel

end Strengths.PyNumeric
