/-
Idiom inventory of src/strengths/filepath.py (generated: `Gen.PyIdioms.inv_filepath`, regenerated from the source on every run).
-/
import Strengths.Model.PyIdioms

namespace Strengths.PyIdioms
open Strengths.Gen.PyIdioms

/-- `filepath.py` keeps value semantics: no identity comparison except with `None`, no substring test on a literal, no
`assert`, no `and`/`or` selecting a value, no `*d.values()` (the model compares by value, handles absence through `Option`,
and reads dictionaries by key) -/
theorem filepath_value_semantic : valueSemantic inv_filepath = true := by decide +kernel

/-- `filepath.py` never aliases an array on purpose: no `np.asarray`, `np.frombuffer`, `.view(…)`, `memoryview` — what a function
returns is a fresh object (the model's values are immutable; this is the source fact that lets mutation of a returned
object be ignored) -/
theorem filepath_no_views : views_filepath = [] := by decide +kernel

end Strengths.PyIdioms
