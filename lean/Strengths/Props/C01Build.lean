/-
C01 — every system the builders accept is dimension-well-formed.

`Props/C01Units.lean` states the any-units theorems under `DimWF sys` (every stored quantity carries the dimension of its
field) and `EdgesWF`.  Here: whatever `buildSystem` (Model/Build.lean: `rdsystem_from_dict` + the constructors, with
`process_unitvar_input` and unit inheritance) returns satisfies both, provided the stoichiometric vectors of the
description have one entry per declared species (they are computed by `RDNetwork` over its own species list).
Hence the chain  description → `buildSystem` → marshalling in any engine units → `Compute_dxdt`  = SI rate law
is closed inside Lean (`built_marshal_euler_general_units_grid`).
-/
import Strengths.Props.C01Units
import Strengths.Model.Network

namespace Strengths.C01
open Strengths Strengths.Gen Strengths.Spec

theorem processUnitVar_dim {x : Num} {owner : Sys} {dim : Dim} {q : Q} (h : processUnitVar x owner dim = .ok q) : q.dim = dim := by
  cases x with
  | bare v =>
    simp only [processUnitVar, Except.ok.injEq] at h
    rw [← h]; rfl
  | expl v u =>
    simp only [processUnitVar] at h
    split at h
    · rename_i hd
      simp only [Except.ok.injEq] at h
      rw [← h]; exact hd
    · cases h

theorem mapRes_mem {α β : Type} (f : α → Res β) : ∀ (l : List α) (bs : List β), mapRes f l = .ok bs →
    ∀ b ∈ bs, ∃ a ∈ l, f a = .ok b
  | [], bs, h, b, hb => by
    simp only [mapRes, Except.ok.injEq] at h
    rw [← h] at hb; cases hb
  | a :: as, bs, h, b, hb => by
    simp only [mapRes] at h
    cases hfa : f a with
    | error e => rw [hfa] at h; cases h
    | ok b0 =>
      rw [hfa] at h
      cases hrest : mapRes f as with
      | error e => rw [hrest] at h; cases h
      | ok bs0 =>
        rw [hrest] at h
        simp only [Except.ok.injEq] at h
        rw [← h] at hb
        cases hb with
        | head => exact ⟨a, List.mem_cons_self, hfa⟩
        | tail _ hb' =>
          obtain ⟨a', ha', hf'⟩ := mapRes_mem f as bs0 hrest b hb'
          exact ⟨a', List.mem_cons_of_mem _ ha', hf'⟩

theorem mapRes_length {α β : Type} (f : α → Res β) : ∀ (l : List α) (bs : List β), mapRes f l = .ok bs → bs.length = l.length
  | [], bs, h => by
    simp only [mapRes, Except.ok.injEq] at h
    rw [← h]; rfl
  | a :: as, bs, h => by
    simp only [mapRes] at h
    cases hfa : f a with
    | error e => rw [hfa] at h; cases h
    | ok b0 =>
      rw [hfa] at h
      cases hrest : mapRes f as with
      | error e => rw [hrest] at h; cases h
      | ok bs0 =>
        rw [hrest] at h
        simp only [Except.ok.injEq] at h
        rw [← h, List.length_cons, List.length_cons, mapRes_length f as bs0 hrest]

/-- assigning a value of dimension `d` to labels of a dict whose entries all have dimension `d` keeps that -/
theorem dictSet_all (l : List (String × Q)) (k : String) (q : Q) (d : Dim) (hl : ∀ p ∈ l, p.2.dim = d) (hq : q.dim = d) :
    ∀ p ∈ dictSet l k q, p.2.dim = d := by
  intro p hp
  simp only [dictSet, List.mem_append, List.mem_filter, List.mem_singleton] at hp
  cases hp with
  | inl h => exact hl p h.1
  | inr h => rw [h]; exact hq

theorem dictSet_fold_all (ks : List String) (q : Q) (d : Dim) (hq : q.dim = d) :
    ∀ (l : List (String × Q)), (∀ p ∈ l, p.2.dim = d) → ∀ p ∈ ks.foldl (fun a k => dictSet a k q) l, p.2.dim = d := by
  induction ks with
  | nil => intro l hl; exact hl
  | cons k ks ih =>
    intro l hl
    exact ih _ (dictSet_all l k q d hl hq)

theorem processEnvDict_all (owner : Sys) (d : Dim) : ∀ (es : List (String × Num)) (acc out : List (String × Q)),
    (∀ p ∈ acc, p.2.dim = d) → foldRes (envDictStep owner d) acc es = .ok out → ∀ p ∈ out, p.2.dim = d
  | [], acc, out, hacc, h => by
    simp only [foldRes, Except.ok.injEq] at h
    rw [← h]; exact hacc
  | e :: es, acc, out, hacc, h => by
    simp only [foldRes] at h
    cases hs : envDictStep owner d acc e with
    | error er => rw [hs] at h; cases h
    | ok acc' =>
      rw [hs] at h
      refine processEnvDict_all owner d es acc' out ?_ h
      unfold envDictStep at hs
      cases hp : processUnitVar e.2 owner d with
      | error er => rw [hp] at hs; cases hs
      | ok q =>
        rw [hp] at hs
        simp only [Except.ok.injEq] at hs
        rw [← hs]
        exact dictSet_fold_all _ q d (processUnitVar_dim hp) acc hacc

theorem processEnvNum_dim {x : EnvNum} {owner : Sys} {d : Dim} {v : EnvVal} (h : processEnvNum x owner d = .ok v) : envValDim v d := by
  cases x with
  | single n =>
    simp only [processEnvNum] at h
    cases hp : processUnitVar n owner d with
    | error e => rw [hp] at h; cases h
    | ok q =>
      rw [hp] at h
      simp only [Except.ok.injEq] at h
      rw [← h]
      exact processUnitVar_dim hp
  | dict es =>
    simp only [processEnvNum] at h
    cases hp : processEnvDict es owner d with
    | error e => rw [hp] at h; cases h
    | ok l =>
      rw [hp] at h
      simp only [Except.ok.injEq] at h
      rw [← h]
      exact processEnvDict_all owner d es [] l (fun _ hp => by cases hp) hp

theorem buildReaction_wf {parent : Sys} {d : ReactionD} {r : PyReaction} (h : buildReaction parent d = .ok r) :
    r.sub = d.sub ∧ r.prod = d.prod ∧ envValDim r.kf (kfDim (natSum r.sub)) ∧ envValDim r.kr (kfDim (natSum r.prod)) := by
  unfold buildReaction at h
  cases hu : resolveUnits d.units false parent with
  | error e => rw [hu] at h; cases h
  | ok u =>
    rw [hu] at h
    simp only at h
    cases hf : processEnvNum (optEnv d.kf) u (kfDim (natSum d.sub)) with
    | error e => rw [hf] at h; cases h
    | ok f =>
      cases hr : processEnvNum (optEnv d.kr) u (krDim (natSum d.prod)) with
      | error e => rw [hf, hr] at h; cases h
      | ok rv =>
        rw [hf, hr] at h
        simp only [Except.ok.injEq] at h
        rw [← h]
        refine ⟨rfl, rfl, processEnvNum_dim hf, ?_⟩
        rw [kfDim_eq_krDim]
        exact processEnvNum_dim hr

theorem buildSpecies_wf {parent : Sys} {d : SpeciesD} {b : BuiltSpecies} (h : buildSpecies parent d = .ok b) :
    envValDim b.D Dim.diffusion := by
  unfold buildSpecies at h
  cases hu : resolveUnits d.units false parent with
  | error e => rw [hu] at h; cases h
  | ok u =>
    rw [hu] at h
    simp only at h
    cases hf : processEnvNum (optEnv d.D) u Dim.diffusion with
    | error e => rw [hf] at h; cases h
    | ok f =>
      cases hr : processEnvNum (optEnv d.density) u Dim.density with
      | error e => rw [hf, hr] at h; cases h
      | ok rv =>
        rw [hf, hr] at h
        simp only [Except.ok.injEq] at h
        rw [← h]
        exact processEnvNum_dim hf

theorem buildNode_wf {u : Sys} {edges : List Rat} {p : NodeD × Nat} {n : PyNode} (h : buildNode u edges p = .ok n) :
    n.vol.dim = Dim.volume := by
  unfold buildNode at h
  cases hu : resolveUnits p.1.units false u with
  | error e => rw [hu] at h; cases h
  | ok un =>
    rw [hu] at h
    simp only at h
    cases hv : processUnitVar (optNum p.1.vol) un Dim.volume with
    | error e => rw [hv] at h; cases h
    | ok v =>
      rw [hv] at h
      simp only [Except.ok.injEq] at h
      rw [← h]
      exact processUnitVar_dim hv

theorem buildEdge_wf {u : Sys} {ed : EdgeD} {e : PyEdge} (h : buildEdge u ed = .ok e) :
    e.sfc.dim = Dim.surface ∧ e.dst.dim = Dim.length := by
  unfold buildEdge at h
  cases hu : resolveUnits ed.units false u with
  | error er => rw [hu] at h; cases h
  | ok ue =>
    rw [hu] at h
    simp only at h
    cases hs : processUnitVar (optNum ed.sfc) ue Dim.surface with
    | error er => rw [hs] at h; cases h
    | ok s =>
      cases hl : processUnitVar (optNum ed.dst) ue Dim.length with
      | error er => rw [hs, hl] at h; cases h
      | ok l =>
        rw [hs, hl] at h
        simp only [Except.ok.injEq] at h
        rw [← h]
        exact ⟨processUnitVar_dim hs, processUnitVar_dim hl⟩

/-- `cell_vol` / node volumes are volumes, edge surfaces and distances are what they say -/
def SpaceWF : PySpace → Prop
  | .grid _ v _ _ => v.dim = Dim.volume
  | .graph ns es => (∀ n ∈ ns, n.vol.dim = Dim.volume) ∧ EdgesWF es

/-- the space a description builds is well-formed -/
theorem buildSpace_wf {parent : Sys} {edges : List Rat} {d : SpaceD} {sp : PySpace} (h : buildSpace parent edges d = .ok sp) :
    SpaceWF sp := by
  cases d with
  | grid units g env vol =>
    simp only [buildSpace] at h
    cases hu : resolveUnits units false parent with
    | error e => rw [hu] at h; cases h
    | ok u =>
      rw [hu] at h
      simp only at h
      split at h
      · cases h
      · cases he : buildCellEnv g env with
        | error e => rw [he] at h; cases h
        | ok envl =>
          rw [he] at h
          simp only at h
          cases hv : processUnitVar (optNum vol) u Dim.volume with
          | error e => rw [hv] at h; cases h
          | ok v =>
            rw [hv] at h
            simp only [Except.ok.injEq] at h
            rw [← h]
            exact processUnitVar_dim hv
  | graph units nodes es =>
    simp only [buildSpace] at h
    cases hu : resolveUnits units false parent with
    | error e => rw [hu] at h; cases h
    | ok u =>
      rw [hu] at h
      simp only at h
      cases hn : mapRes (buildNode u edges) (nodes.zip (List.range nodes.length)) with
      | error e => rw [hn] at h; cases h
      | ok ns =>
        rw [hn] at h
        simp only at h
        cases hes : mapRes (buildEdge u) es with
        | error e => rw [hes] at h; cases h
        | ok el =>
          rw [hes] at h
          simp only [Except.ok.injEq] at h
          rw [← h]
          constructor
          · intro n hnm
            obtain ⟨p, _, hp⟩ := mapRes_mem _ _ _ hn n hnm
            exact buildNode_wf hp
          · intro e hem
            obtain ⟨ed, _, hp⟩ := mapRes_mem _ _ _ hes e hem
            exact buildEdge_wf hp

/-- where `hsto` below comes from: `Reaction.ssto` / `psto` (Model/Network.lean, entry formulas generated from rdnetwork.py) map over
the network's species labels, so they have exactly one entry per declared species -/
theorem sto_vectors_one_entry_per_species (sub prod : Side) (labels : List Label) :
    (sstoVec sub prod labels).length = labels.length ∧ (pstoVec sub prod labels).length = labels.length := by
  simp [sstoVec, pstoVec]

/-- **every system the builders accept is well-formed** (stoichiometric vectors over the declared species: `hsto`) -/
theorem buildSystem_wf (parent : Sys) (edges : List Rat) (d : SystemD) (b : Built)
    (hsto : ∀ r ∈ d.net.reactions, r.sub.length = d.net.species.length ∧ r.prod.length = d.net.species.length)
    (h : buildSystem parent edges d = .ok b) :
    DimWF b.sys ∧ (∀ ns es, b.sys.space = .graph ns es → EdgesWF es) := by
  unfold buildSystem at h
  cases hu : resolveUnits d.units false parent with
  | error e => rw [hu] at h; cases h
  | ok us =>
    rw [hu] at h
    simp only at h
    cases hnet : buildNet us d.net with
    | error e => rw [hnet] at h; cases h
    | ok pr =>
      obtain ⟨sp, rs⟩ := pr
      rw [hnet] at h
      simp only at h
      split at h
      · cases h
      · cases hsp : buildSpace us edges d.space with
        | error e => rw [hsp] at h; cases h
        | ok space =>
          rw [hsp] at h
          simp only at h
          unfold assemble at h
          simp only at h
          split at h
          · cases h
          · simp only [Except.ok.injEq] at h
            -- the network
            unfold buildNet at hnet
            cases hun : resolveUnits d.net.units false us with
            | error e => rw [hun] at hnet; cases hnet
            | ok un =>
              rw [hun] at hnet
              simp only at hnet
              cases hS : mapRes (buildSpecies un) d.net.species with
              | error e => rw [hS] at hnet; cases hnet
              | ok sp' =>
                cases hR : mapRes (buildReaction un) d.net.reactions with
                | error e => rw [hS, hR] at hnet; cases hnet
                | ok rs' =>
                  rw [hS, hR] at hnet
                  simp only [Except.ok.injEq, Prod.mk.injEq] at hnet
                  obtain ⟨hsp', hrs'⟩ := hnet
                  subst hsp' hrs'
                  have hlen : sp'.length = d.net.species.length := mapRes_length _ _ _ hS
                  have hspace := buildSpace_wf hsp
                  rw [← h]
                  refine ⟨⟨?_, ?_, ?_⟩, ?_⟩
                  · intro r hr
                    obtain ⟨rd, hrd, hb⟩ := mapRes_mem _ _ _ hR r hr
                    obtain ⟨h1, h2, h3, h4⟩ := buildReaction_wf hb
                    obtain ⟨l1, l2⟩ := hsto rd hrd
                    exact ⟨by show r.sub.length = sp'.length; rw [h1, l1, hlen], by show r.prod.length = sp'.length; rw [h2, l2, hlen], h3, h4⟩
                  · intro v hv
                    show envValDim v Dim.diffusion
                    simp only [List.mem_map] at hv
                    obtain ⟨bsp, hbm, hbv⟩ := hv
                    obtain ⟨sd, _, hb⟩ := mapRes_mem _ _ _ hS bsp hbm
                    rw [← hbv]
                    exact buildSpecies_wf hb
                  · cases space with
                    | grid g v e env => exact hspace
                    | graph ns es => exact hspace.1
                  · intro ns es hs
                    have hs' : space = .graph ns es := hs
                    rw [hs'] at hspace
                    exact hspace.2

/-- the `RDSystem.space` setter's check: every cell of a built system lies in a declared environment -/
theorem buildSystem_env (parent : Sys) (edges : List Rat) (d : SystemD) (b : Built) (h : buildSystem parent edges d = .ok b) :
    ∀ i, i < b.sys.space.size → b.sys.space.envOf i < b.sys.envs.length := by
  unfold buildSystem at h
  cases hu : resolveUnits d.units false parent with
  | error e => rw [hu] at h; cases h
  | ok us =>
    rw [hu] at h
    simp only at h
    cases hnet : buildNet us d.net with
    | error e => rw [hnet] at h; cases h
    | ok pr =>
      obtain ⟨sp, rs⟩ := pr
      rw [hnet] at h
      simp only at h
      split at h
      · cases h
      · cases hsp : buildSpace us edges d.space with
        | error e => rw [hsp] at h; cases h
        | ok space =>
          rw [hsp] at h
          simp only at h
          unfold assemble at h
          simp only at h
          split at h
          · cases h
          · rename_i hany
            simp only [Except.ok.injEq] at h
            rw [← h]
            intro i hi
            show space.envOf i < (d.net.envs.getD [""]).length
            simp only [List.any_eq_true, List.mem_range, decide_eq_true_eq, not_exists, not_and, not_le] at hany
            exact hany i hi

/-- **description → engine, any engine units, grids**: for every description the builders accept (with stoichiometric vectors
over the declared species), every valid units system `U` handed to the engine, every SI state and every free entry of the
grid, the derivative `Compute_dxdt` computes from the decoded marshalled arrays is the SI rate law expressed in `U` -/
theorem built_marshal_euler_general_units_grid (parent : Sys) (edges : List Rat) (d : SystemD) (b : Built)
    (hsto : ∀ r ∈ d.net.reactions, r.sub.length = d.net.species.length ∧ r.prod.length = d.net.species.length)
    (h : buildSystem parent edges d = .ok b) (U : Sys) (hU : U.valid = true)
    (g : GridShape) (vol : Q) (edge : Rat) (env : List Nat) (hsp : b.sys.space = .grid g vol edge env)
    (chem : Nat → Nat → Bool) (xSI : St) (i s : Nat)
    (hv : g.valid = true) (he : edge ≠ 0) (hV : vol.si = edge ^ 3)
    (hi : i < g.size) (hs : s < b.sys.nSpecies) (hc : chem i s = false) :
    eulerDxdt (engOfArraysGrid (pyMarshal b.sys U) b.sys.space.envOf g (edge / U.sSpace) chem) ⟨fun i s => xSI i s / U.sQty⟩ i s
      = rate (physOfPy b.sys (fun k => gridFaces g.w g.h g.d g.px g.py g.pz edge k)) xSI s i * U.sTime / U.sQty := by
  have henv := buildSystem_env parent edges d b h
  have hsize : b.sys.space.size = g.size := by rw [hsp]; rfl
  exact marshal_euler_general_units_grid b.sys U hU (buildSystem_wf parent edges d b hsto h).1 g vol edge env hsp chem xSI i s hv he hV
    (fun j hj => henv j (by rw [hsize]; exact hj)) hi hs hc

/-- the same on graphs -/
theorem built_marshal_euler_general_units_graph (parent : Sys) (edgesSI' : List Rat) (d : SystemD) (b : Built)
    (hsto : ∀ r ∈ d.net.reactions, r.sub.length = d.net.species.length ∧ r.prod.length = d.net.species.length)
    (h : buildSystem parent edgesSI' d = .ok b) (U : Sys) (hU : U.valid = true)
    (nodes : List PyNode) (edges : List PyEdge) (hsp : b.sys.space = .graph nodes edges)
    (chem : Nat → Nat → Bool) (xSI : St) (i s : Nat)
    (hE : ∀ e ∈ edges, e.i < nodes.length ∧ e.j < nodes.length)
    (hi : i < nodes.length) (hs : s < b.sys.nSpecies) (hc : chem i s = false)
    (hVi : (b.sys.space.volOf i).si ≠ 0) (hVn : ∀ f ∈ graphFaces (edgesSI edges) i, (b.sys.space.volOf f.nbr).si ≠ 0) :
    eulerDxdt (engOfArraysGraph (pyMarshal b.sys U) b.sys.space.envOf (edgesInU U edges) (fun j => b.sys.space.edgeOf j / U.sSpace) chem)
        ⟨fun i s => xSI i s / U.sQty⟩ i s
      = rate (physOfPy b.sys (fun k => graphFaces (edgesSI edges) k)) xSI s i * U.sTime / U.sQty := by
  have henv := buildSystem_env parent edgesSI' d b h
  have hsize : b.sys.space.size = nodes.length := by rw [hsp]; rfl
  obtain ⟨hwf, hed⟩ := buildSystem_wf parent edgesSI' d b hsto h
  exact marshal_euler_general_units_graph b.sys U hU hwf nodes edges hsp (hed nodes edges hsp) chem xSI i s hE
    (fun j hj => henv j (by rw [hsize]; exact hj)) hi hs hc hVi hVn

/-! ## non-vacuity: a description the builders accept, with the hypotheses of the composite theorem -/

/-- `2 A <-> B` (explicit units on `kr`) on a 2×1×1 grid with two environments, units declared at the
network level (mm, min, µmol) and inherited below -/
def exampleD : SystemD where
  units := .absent
  net := { units := .dict [("space", "mm"), ("time", "min"), ("quantity", "µmol")], envs := some ["a", "b"],
           species := [⟨.absent, some (.single (.bare 3)), none, .none⟩,
                       ⟨.absent, some (.single (.bare (1 / 2))), some (.single (.bare 4)), .flag true⟩],
           reactions := [⟨.absent, [2, 0], [0, 1], some (.single (.bare 7)),
                          some (.single (.expl (1 / 3) ⟨⟨"µm", "s", "molecule"⟩, kfDim 1⟩))⟩] }
  space := .grid .dflt ⟨2, 1, 1, true, false, false⟩ (.map [0, 1]) (some (.bare 8))
  state := none
  chem := none

example : (match buildSystem Sys.default [2] exampleD with
    | .ok b => dimWFb b.sys && decide (b.sys.nSpecies = 2) && decide (b.sys.reactions.length = 1)
    | .error _ => false) = true := by decide +kernel

example : ∀ r ∈ exampleD.net.reactions, r.sub.length = exampleD.net.species.length ∧ r.prod.length = exampleD.net.species.length := by
  decide

end Strengths.C01
