/-
C04 — the engine units system only rescales what the MARSHALLED engine reports: whole trajectories.

`Props/C04.lean` proves that an Euler trajectory commutes with a change of units for engines built from a `Phys`
(`engOfPhysGraph/Grid`).  `Props/C01Units.lean` proves that in ANY valid engine units system `U` the derivative the Euler
engine computes from the DECODED marshalled arrays (`engOfArraysGraph/Grid (pyMarshal sys U) …`, i.e. what
`LibRDEngine._setup_*` hands to the native initialiser, read back through the generated index formulas) is the SI rate law
× `sTime / sQty`.  This file puts the two together, at the level of the marshalled engine:

* `siEulerStep P chem dt x` : the explicit Euler scheme on the SI rate law, chemostated entries held (closed form);
* `marshal_euler_step_units_grid/_graph` : ONE step of the engine set up in `U` (time step `dt / sTime`, state `xSI / sQty`) is
  the closed-form SI step divided by `sQty`, on every free OR chemostated entry in range;
* `marshal_euler_step_vs_si_grid/_graph` : … hence equals the step of the engine set up in SI (metres, seconds, molecules) `/ sQty`;
* `marshal_euler_traj_closed_form_grid/_graph` : `n` steps (induction; a step of an in-range entry reads in-range entries only:
  `rate_local`, `gridFaces_nbr_lt`, `graphFaces_nbr_lt`) from any engine state that agrees with `xSI / sQty` in range;
* `marshal_euler_traj_units_invariant_grid/_graph` : the `n`-step state of the engine set up in `U` is the `n`-step state of the
  engine set up in SI, divided by `sQty`;
* `marshal_euler_traj_engine_units_grid/_graph` : for two arbitrary valid engine units systems `U`, `U'` the two trajectories
  agree after converting amounts (`× sQty`): the engine's units system does not matter.
Graph volumes are required non-zero for the nodes of the graph only (the model's out-of-range volumes are 0).
-/
import Strengths.Props.C01Units

namespace Strengths.C04
open Strengths Strengths.Gen Strengths.Spec

/-! ## the closed form: explicit Euler on the SI rate law -/

/-- one explicit Euler step of the rate law of `P`; entries flagged by `chem` are held -/
def siEulerStep (P : Phys) (chem : Nat → Nat → Bool) (dt : Rat) (x : St) : St :=
  fun i s => if chem i s = true then x i s else x i s + dt * rate P x s i

/-- `n` such steps -/
def siEulerIter (P : Phys) (chem : Nat → Nat → Bool) (dt : Rat) : Nat → St → St
  | 0, x => x
  | n + 1, x => siEulerIter P chem dt n (siEulerStep P chem dt x)

/-- metres, seconds, molecules -/
abbrev siSys : Sys := ⟨"m", "s", "molecule"⟩

theorem siSys_valid : siSys.valid = true := by decide +kernel
theorem siSys_sSpace : siSys.sSpace = 1 := by decide +kernel
theorem siSys_sTime : siSys.sTime = 1 := by decide +kernel
theorem siSys_sQty : siSys.sQty = 1 := by decide +kernel

/-! ## the rate of an entry reads the entry's cell (species of the network) and the neighbouring cells (same species) -/

theorem rate_local (P : Phys) (x y : St) (s i : Nat)
    (hself : ∀ s', s' < P.nSpecies → x i s' = y i s') (hs : x i s = y i s)
    (hnb : ∀ f ∈ P.faces i, x f.nbr s = y f.nbr s) : rate P x s i = rate P y s i := by
  have hm : ∀ (k : Rat) (ν : Nat → Nat), massAction P x i k ν = massAction P y i k ν := by
    intro k ν
    unfold massAction
    congr 2
    apply List.map_congr_left
    intro s' hs'
    unfold conc
    rw [hself s' (List.mem_range.mp hs')]
  unfold rate
  congr 1
  · unfold reactionPart
    apply sumL_congr
    intro r _
    rw [hm, hm]
  · unfold diffusionPart
    apply sumL_congr
    intro f hf
    unfold conc
    rw [hnb f hf, hs]

theorem siEulerStep_local (P : Phys) (chem : Nat → Nat → Bool) (dt : Rat) (x y : St) (s i : Nat)
    (hself : ∀ s', s' < P.nSpecies → x i s' = y i s') (hs : x i s = y i s)
    (hnb : ∀ f ∈ P.faces i, x f.nbr s = y f.nbr s) : siEulerStep P chem dt x i s = siEulerStep P chem dt y i s := by
  unfold siEulerStep
  rw [rate_local P x y s i hself hs hnb, hs]

/-- the cells across the interfaces of a cell of a valid grid are cells of the grid -/
theorem gridFaces_nbr_lt (g : GridShape) (hv : g.valid = true) (e : Rat) (i : Nat) (hi : i < g.size) :
    ∀ f ∈ gridFaces g.w g.h g.d g.px g.py g.pz e i, f.nbr < g.size := by
  intro f hf
  simp only [gridFaces, List.mem_map] at hf
  obtain ⟨j, hj, rfl⟩ := hf
  rw [← engine_slots_are_spec_nbrs hv hi] at hj
  simp only [List.mem_filterMap, List.mem_range] at hj
  obtain ⟨nn, hnn, hget⟩ := hj
  exact (nbr_involutive hv hi hnn hget).2

/-- the nodes across the interfaces of a node are endpoints of edges, hence nodes of the graph -/
theorem graphFaces_nbr_lt (n : Nat) (edges : List PyEdge) (hE : ∀ e ∈ edges, e.i < n ∧ e.j < n) (i : Nat) :
    ∀ f ∈ graphFaces (edgesSI edges) i, f.nbr < n := by
  intro f hf
  unfold graphFaces edgesSI at hf
  rw [List.mem_flatMap] at hf
  obtain ⟨t, ht, hmem⟩ := hf
  rw [List.mem_map] at ht
  obtain ⟨e, he, rfl⟩ := ht
  simp only [List.mem_append] at hmem
  rcases hmem with h | h
  · by_cases hc : e.i = i
    · rw [if_pos hc] at h
      simp only [List.mem_singleton] at h
      rw [h]; exact (hE e he).2
    · rw [if_neg hc] at h
      simp at h
  · by_cases hc : e.j = i
    · rw [if_pos hc] at h
      simp only [List.mem_singleton] at h
      rw [h]; exact (hE e he).1
    · rw [if_neg hc] at h
      simp at h

theorem state_eq_scaled (y : State) (q : Rat) (hq : q ≠ 0) : y = ⟨fun i s => y i s * q / q⟩ := by
  cases y
  congr
  funext i s
  field_simp

/-! ## grids -/

/-- **one step, grids, any engine units system**: for a well-formed system, a valid units system `U`, an SI state `xSI` and an SI
time step `dtSI`, one Euler step of the engine set up in `U` from the DECODED marshalled arrays (the engine holds `xSI / sQty` and is
given `dtSI / sTime`) is the closed-form SI Euler step expressed in `U`'s amount unit — on every entry of the grid, free (rate law)
or chemostated (held) -/
theorem marshal_euler_step_units_grid (sys : PySys) (U : Sys) (hU : U.valid = true) (hwf : C01.DimWF sys)
    (g : GridShape) (vol : Q) (edge : Rat) (env : List Nat) (hsp : sys.space = .grid g vol edge env)
    (chem : Nat → Nat → Bool) (xSI : St) (dtSI : Rat) (i s : Nat)
    (hv : g.valid = true) (he : edge ≠ 0) (hV : vol.si = edge ^ 3)
    (henv : ∀ j, j < g.size → sys.space.envOf j < sys.envs.length)
    (hi : i < g.size) (hs : s < sys.nSpecies) :
    (eulerStep (engOfArraysGrid (pyMarshal sys U) sys.space.envOf g (edge / U.sSpace) chem) (dtSI / U.sTime)
        ⟨fun i s => xSI i s / U.sQty⟩) i s
      = siEulerStep (physOfPy sys (fun k => gridFaces g.w g.h g.d g.px g.py g.pz edge k)) chem dtSI xSI i s / U.sQty := by
  have hb := Sys.sTime_ne hU
  have hq := Sys.sQty_ne hU
  unfold siEulerStep
  by_cases hch : chem i s = true
  · rw [C03.euler_step_fixes_flagged _ _ _ i s hch, if_pos hch]
  · have hcf : chem i s = false := by simpa using hch
    rw [if_neg hch]
    show xSI i s / U.sQty + eulerDxdt _ _ i s * (dtSI / U.sTime) = _
    rw [C01.marshal_euler_general_units_grid sys U hU hwf g vol edge env hsp chem xSI i s hv he hV henv hi hs hcf]
    field_simp

/-- the same from ANY engine state `y` (read as the SI state `y × sQty`) -/
theorem marshal_euler_step_units_grid_any (sys : PySys) (U : Sys) (hU : U.valid = true) (hwf : C01.DimWF sys)
    (g : GridShape) (vol : Q) (edge : Rat) (env : List Nat) (hsp : sys.space = .grid g vol edge env)
    (chem : Nat → Nat → Bool) (y : State) (dtSI : Rat) (i s : Nat)
    (hv : g.valid = true) (he : edge ≠ 0) (hV : vol.si = edge ^ 3)
    (henv : ∀ j, j < g.size → sys.space.envOf j < sys.envs.length)
    (hi : i < g.size) (hs : s < sys.nSpecies) :
    (eulerStep (engOfArraysGrid (pyMarshal sys U) sys.space.envOf g (edge / U.sSpace) chem) (dtSI / U.sTime) y) i s
      = siEulerStep (physOfPy sys (fun k => gridFaces g.w g.h g.d g.px g.py g.pz edge k)) chem dtSI
          (fun i s => y i s * U.sQty) i s / U.sQty := by
  have h := marshal_euler_step_units_grid sys U hU hwf g vol edge env hsp chem (fun i s => y i s * U.sQty) dtSI i s hv he hV henv hi hs
  exact (congrArg (fun z : State => (eulerStep (engOfArraysGrid (pyMarshal sys U) sys.space.envOf g (edge / U.sSpace) chem)
    (dtSI / U.sTime) z).get i s) (state_eq_scaled y U.sQty (Sys.sQty_ne hU))).trans h

/-- **one step, engine in `U` against engine in SI** (grids): the engine set up in `U` reports the SI engine's step divided by the
SI size of `U`'s amount unit -/
theorem marshal_euler_step_vs_si_grid (sys : PySys) (U : Sys) (hU : U.valid = true) (hwf : C01.DimWF sys)
    (g : GridShape) (vol : Q) (edge : Rat) (env : List Nat) (hsp : sys.space = .grid g vol edge env)
    (chem : Nat → Nat → Bool) (xSI : St) (dtSI : Rat) (i s : Nat)
    (hv : g.valid = true) (he : edge ≠ 0) (hV : vol.si = edge ^ 3)
    (henv : ∀ j, j < g.size → sys.space.envOf j < sys.envs.length)
    (hi : i < g.size) (hs : s < sys.nSpecies) :
    (eulerStep (engOfArraysGrid (pyMarshal sys U) sys.space.envOf g (edge / U.sSpace) chem) (dtSI / U.sTime)
        ⟨fun i s => xSI i s / U.sQty⟩) i s
      = (eulerStep (engOfArraysGrid (pyMarshal sys siSys) sys.space.envOf g edge chem) dtSI ⟨xSI⟩) i s / U.sQty := by
  have h1 := marshal_euler_step_units_grid sys U hU hwf g vol edge env hsp chem xSI dtSI i s hv he hV henv hi hs
  have h2 := marshal_euler_step_units_grid sys siSys siSys_valid hwf g vol edge env hsp chem xSI dtSI i s hv he hV henv hi hs
  simp only [siSys_sSpace, siSys_sTime, siSys_sQty, div_one] at h2
  rw [h1]
  congr 1
  exact h2.symm

/-- **trajectories, grids, closed form**: after any number `n` of steps, from any engine state that agrees with `xSI / sQty` on the
entries of the grid, the engine set up in `U` holds the `n`-step SI Euler trajectory divided by `sQty` (on the entries of the grid) -/
theorem marshal_euler_traj_closed_form_grid (sys : PySys) (U : Sys) (hU : U.valid = true) (hwf : C01.DimWF sys)
    (g : GridShape) (vol : Q) (edge : Rat) (env : List Nat) (hsp : sys.space = .grid g vol edge env)
    (chem : Nat → Nat → Bool) (dtSI : Rat)
    (hv : g.valid = true) (he : edge ≠ 0) (hV : vol.si = edge ^ 3)
    (henv : ∀ j, j < g.size → sys.space.envOf j < sys.envs.length) (n : Nat) (xSI : St) (y : State)
    (hxy : ∀ i s, i < g.size → s < sys.nSpecies → y i s = xSI i s / U.sQty) :
    ∀ i s, i < g.size → s < sys.nSpecies →
      (C03.eulerIter (engOfArraysGrid (pyMarshal sys U) sys.space.envOf g (edge / U.sSpace) chem) (dtSI / U.sTime) n y) i s
        = siEulerIter (physOfPy sys (fun k => gridFaces g.w g.h g.d g.px g.py g.pz edge k)) chem dtSI n xSI i s / U.sQty := by
  have hq := Sys.sQty_ne hU
  induction n generalizing xSI y with
  | zero => exact hxy
  | succ n ih =>
    intro i s hi hs
    simp only [C03.eulerIter, siEulerIter]
    apply ih _ _ _ i s hi hs
    intro i' s' hi' hs'
    rw [marshal_euler_step_units_grid_any sys U hU hwf g vol edge env hsp chem y dtSI i' s' hv he hV henv hi' hs']
    congr 1
    have hback : ∀ j t, j < g.size → t < sys.nSpecies → y j t * U.sQty = xSI j t := by
      intro j t hj ht
      rw [hxy j t hj ht]
      field_simp
    apply siEulerStep_local
    · intro t ht
      exact hback i' t hi' ht
    · exact hback i' s' hi' hs'
    · intro f hf
      exact hback f.nbr s' (gridFaces_nbr_lt g hv edge i' hi' f hf) hs'

/-- **trajectories, grids, two arbitrary engine units systems**: the engine's units system does not matter — the trajectories
computed by the engine set up in `U` and by the engine set up in `U'` agree once amounts are converted (`× sQty`) -/
theorem marshal_euler_traj_engine_units_grid (sys : PySys) (U U' : Sys) (hU : U.valid = true) (hU' : U'.valid = true)
    (hwf : C01.DimWF sys) (g : GridShape) (vol : Q) (edge : Rat) (env : List Nat) (hsp : sys.space = .grid g vol edge env)
    (chem : Nat → Nat → Bool) (dtSI : Rat)
    (hv : g.valid = true) (he : edge ≠ 0) (hV : vol.si = edge ^ 3)
    (henv : ∀ j, j < g.size → sys.space.envOf j < sys.envs.length) (n : Nat) (xSI : St)
    (i s : Nat) (hi : i < g.size) (hs : s < sys.nSpecies) :
    (C03.eulerIter (engOfArraysGrid (pyMarshal sys U) sys.space.envOf g (edge / U.sSpace) chem) (dtSI / U.sTime) n
        ⟨fun i s => xSI i s / U.sQty⟩) i s * U.sQty
      = (C03.eulerIter (engOfArraysGrid (pyMarshal sys U') sys.space.envOf g (edge / U'.sSpace) chem) (dtSI / U'.sTime) n
        ⟨fun i s => xSI i s / U'.sQty⟩) i s * U'.sQty := by
  rw [marshal_euler_traj_closed_form_grid sys U hU hwf g vol edge env hsp chem dtSI hv he hV henv n xSI _ (fun _ _ _ _ => rfl) i s hi hs,
    marshal_euler_traj_closed_form_grid sys U' hU' hwf g vol edge env hsp chem dtSI hv he hV henv n xSI _ (fun _ _ _ _ => rfl) i s hi hs,
    div_mul_cancel₀ _ (Sys.sQty_ne hU), div_mul_cancel₀ _ (Sys.sQty_ne hU')]

/-- **trajectories, grids, engine in `U` against engine in SI**: the `n`-step state of the engine set up in `U` (from `xSI / sQty`,
time step `dtSI / sTime`) is the `n`-step state of the engine set up in SI (from `xSI`, time step `dtSI`), divided by `sQty` -/
theorem marshal_euler_traj_units_invariant_grid (sys : PySys) (U : Sys) (hU : U.valid = true) (hwf : C01.DimWF sys)
    (g : GridShape) (vol : Q) (edge : Rat) (env : List Nat) (hsp : sys.space = .grid g vol edge env)
    (chem : Nat → Nat → Bool) (dtSI : Rat)
    (hv : g.valid = true) (he : edge ≠ 0) (hV : vol.si = edge ^ 3)
    (henv : ∀ j, j < g.size → sys.space.envOf j < sys.envs.length) (n : Nat) (xSI : St)
    (i s : Nat) (hi : i < g.size) (hs : s < sys.nSpecies) :
    (C03.eulerIter (engOfArraysGrid (pyMarshal sys U) sys.space.envOf g (edge / U.sSpace) chem) (dtSI / U.sTime) n
        ⟨fun i s => xSI i s / U.sQty⟩) i s
      = (C03.eulerIter (engOfArraysGrid (pyMarshal sys siSys) sys.space.envOf g edge chem) dtSI n ⟨xSI⟩) i s / U.sQty := by
  have h := marshal_euler_traj_engine_units_grid sys U siSys hU siSys_valid hwf g vol edge env hsp chem dtSI hv he hV henv n xSI i s hi hs
  simp only [siSys_sSpace, siSys_sTime, siSys_sQty, div_one, mul_one] at h
  rw [← h, mul_div_cancel_right₀ _ (Sys.sQty_ne hU)]

/-! ## graphs -/

/-- **one step, graphs, any engine units system** (volumes non-zero for the nodes of the graph only) -/
theorem marshal_euler_step_units_graph (sys : PySys) (U : Sys) (hU : U.valid = true) (hwf : C01.DimWF sys)
    (nodes : List PyNode) (edges : List PyEdge) (hsp : sys.space = .graph nodes edges) (hed : C01.EdgesWF edges)
    (chem : Nat → Nat → Bool) (xSI : St) (dtSI : Rat) (i s : Nat)
    (hE : ∀ e ∈ edges, e.i < nodes.length ∧ e.j < nodes.length)
    (henv : ∀ j, j < nodes.length → sys.space.envOf j < sys.envs.length)
    (hVol : ∀ j, j < nodes.length → (sys.space.volOf j).si ≠ 0)
    (hi : i < nodes.length) (hs : s < sys.nSpecies) :
    (eulerStep (engOfArraysGraph (pyMarshal sys U) sys.space.envOf (edgesInU U edges) (fun j => sys.space.edgeOf j / U.sSpace) chem)
        (dtSI / U.sTime) ⟨fun i s => xSI i s / U.sQty⟩) i s
      = siEulerStep (physOfPy sys (fun k => graphFaces (edgesSI edges) k)) chem dtSI xSI i s / U.sQty := by
  have hb := Sys.sTime_ne hU
  have hq := Sys.sQty_ne hU
  unfold siEulerStep
  by_cases hch : chem i s = true
  · rw [C03.euler_step_fixes_flagged _ _ _ i s hch, if_pos hch]
  · have hcf : chem i s = false := by simpa using hch
    rw [if_neg hch]
    show xSI i s / U.sQty + eulerDxdt _ _ i s * (dtSI / U.sTime) = _
    rw [C01.marshal_euler_general_units_graph sys U hU hwf nodes edges hsp hed chem xSI i s hE henv hi hs hcf (hVol i hi)
      (fun f hf => hVol f.nbr (graphFaces_nbr_lt nodes.length edges hE i f hf))]
    field_simp

/-- the same from ANY engine state `y` (read as the SI state `y × sQty`) -/
theorem marshal_euler_step_units_graph_any (sys : PySys) (U : Sys) (hU : U.valid = true) (hwf : C01.DimWF sys)
    (nodes : List PyNode) (edges : List PyEdge) (hsp : sys.space = .graph nodes edges) (hed : C01.EdgesWF edges)
    (chem : Nat → Nat → Bool) (y : State) (dtSI : Rat) (i s : Nat)
    (hE : ∀ e ∈ edges, e.i < nodes.length ∧ e.j < nodes.length)
    (henv : ∀ j, j < nodes.length → sys.space.envOf j < sys.envs.length)
    (hVol : ∀ j, j < nodes.length → (sys.space.volOf j).si ≠ 0)
    (hi : i < nodes.length) (hs : s < sys.nSpecies) :
    (eulerStep (engOfArraysGraph (pyMarshal sys U) sys.space.envOf (edgesInU U edges) (fun j => sys.space.edgeOf j / U.sSpace) chem)
        (dtSI / U.sTime) y) i s
      = siEulerStep (physOfPy sys (fun k => graphFaces (edgesSI edges) k)) chem dtSI (fun i s => y i s * U.sQty) i s / U.sQty := by
  have h := marshal_euler_step_units_graph sys U hU hwf nodes edges hsp hed chem (fun i s => y i s * U.sQty) dtSI i s hE henv hVol hi hs
  exact (congrArg (fun z : State => (eulerStep (engOfArraysGraph (pyMarshal sys U) sys.space.envOf (edgesInU U edges)
    (fun j => sys.space.edgeOf j / U.sSpace) chem) (dtSI / U.sTime) z).get i s) (state_eq_scaled y U.sQty (Sys.sQty_ne hU))).trans h

/-- **one step, engine in `U` against engine in SI** (graphs) -/
theorem marshal_euler_step_vs_si_graph (sys : PySys) (U : Sys) (hU : U.valid = true) (hwf : C01.DimWF sys)
    (nodes : List PyNode) (edges : List PyEdge) (hsp : sys.space = .graph nodes edges) (hed : C01.EdgesWF edges)
    (chem : Nat → Nat → Bool) (xSI : St) (dtSI : Rat) (i s : Nat)
    (hE : ∀ e ∈ edges, e.i < nodes.length ∧ e.j < nodes.length)
    (henv : ∀ j, j < nodes.length → sys.space.envOf j < sys.envs.length)
    (hVol : ∀ j, j < nodes.length → (sys.space.volOf j).si ≠ 0)
    (hi : i < nodes.length) (hs : s < sys.nSpecies) :
    (eulerStep (engOfArraysGraph (pyMarshal sys U) sys.space.envOf (edgesInU U edges) (fun j => sys.space.edgeOf j / U.sSpace) chem)
        (dtSI / U.sTime) ⟨fun i s => xSI i s / U.sQty⟩) i s
      = (eulerStep (engOfArraysGraph (pyMarshal sys siSys) sys.space.envOf (edgesInU siSys edges) sys.space.edgeOf chem)
        dtSI ⟨xSI⟩) i s / U.sQty := by
  have h1 := marshal_euler_step_units_graph sys U hU hwf nodes edges hsp hed chem xSI dtSI i s hE henv hVol hi hs
  have h2 := marshal_euler_step_units_graph sys siSys siSys_valid hwf nodes edges hsp hed chem xSI dtSI i s hE henv hVol hi hs
  simp only [siSys_sSpace, siSys_sTime, siSys_sQty, div_one] at h2
  rw [h1]
  congr 1
  exact h2.symm

/-- **trajectories, graphs, closed form**: after any number `n` of steps, from any engine state that agrees with `xSI / sQty` on the
entries of the graph's nodes, the engine set up in `U` holds the `n`-step SI Euler trajectory divided by `sQty` -/
theorem marshal_euler_traj_closed_form_graph (sys : PySys) (U : Sys) (hU : U.valid = true) (hwf : C01.DimWF sys)
    (nodes : List PyNode) (edges : List PyEdge) (hsp : sys.space = .graph nodes edges) (hed : C01.EdgesWF edges)
    (chem : Nat → Nat → Bool) (dtSI : Rat)
    (hE : ∀ e ∈ edges, e.i < nodes.length ∧ e.j < nodes.length)
    (henv : ∀ j, j < nodes.length → sys.space.envOf j < sys.envs.length)
    (hVol : ∀ j, j < nodes.length → (sys.space.volOf j).si ≠ 0) (n : Nat) (xSI : St) (y : State)
    (hxy : ∀ i s, i < nodes.length → s < sys.nSpecies → y i s = xSI i s / U.sQty) :
    ∀ i s, i < nodes.length → s < sys.nSpecies →
      (C03.eulerIter (engOfArraysGraph (pyMarshal sys U) sys.space.envOf (edgesInU U edges) (fun j => sys.space.edgeOf j / U.sSpace) chem)
          (dtSI / U.sTime) n y) i s
        = siEulerIter (physOfPy sys (fun k => graphFaces (edgesSI edges) k)) chem dtSI n xSI i s / U.sQty := by
  have hq := Sys.sQty_ne hU
  induction n generalizing xSI y with
  | zero => exact hxy
  | succ n ih =>
    intro i s hi hs
    simp only [C03.eulerIter, siEulerIter]
    apply ih _ _ _ i s hi hs
    intro i' s' hi' hs'
    rw [marshal_euler_step_units_graph_any sys U hU hwf nodes edges hsp hed chem y dtSI i' s' hE henv hVol hi' hs']
    congr 1
    have hback : ∀ j t, j < nodes.length → t < sys.nSpecies → y j t * U.sQty = xSI j t := by
      intro j t hj ht
      rw [hxy j t hj ht]
      field_simp
    apply siEulerStep_local
    · intro t ht
      exact hback i' t hi' ht
    · exact hback i' s' hi' hs'
    · intro f hf
      exact hback f.nbr s' (graphFaces_nbr_lt nodes.length edges hE i' f hf) hs'

/-- **trajectories, graphs, two arbitrary engine units systems**: the engine's units system does not matter -/
theorem marshal_euler_traj_engine_units_graph (sys : PySys) (U U' : Sys) (hU : U.valid = true) (hU' : U'.valid = true)
    (hwf : C01.DimWF sys) (nodes : List PyNode) (edges : List PyEdge) (hsp : sys.space = .graph nodes edges) (hed : C01.EdgesWF edges)
    (chem : Nat → Nat → Bool) (dtSI : Rat)
    (hE : ∀ e ∈ edges, e.i < nodes.length ∧ e.j < nodes.length)
    (henv : ∀ j, j < nodes.length → sys.space.envOf j < sys.envs.length)
    (hVol : ∀ j, j < nodes.length → (sys.space.volOf j).si ≠ 0) (n : Nat) (xSI : St)
    (i s : Nat) (hi : i < nodes.length) (hs : s < sys.nSpecies) :
    (C03.eulerIter (engOfArraysGraph (pyMarshal sys U) sys.space.envOf (edgesInU U edges) (fun j => sys.space.edgeOf j / U.sSpace) chem)
        (dtSI / U.sTime) n ⟨fun i s => xSI i s / U.sQty⟩) i s * U.sQty
      = (C03.eulerIter (engOfArraysGraph (pyMarshal sys U') sys.space.envOf (edgesInU U' edges) (fun j => sys.space.edgeOf j / U'.sSpace) chem)
        (dtSI / U'.sTime) n ⟨fun i s => xSI i s / U'.sQty⟩) i s * U'.sQty := by
  rw [marshal_euler_traj_closed_form_graph sys U hU hwf nodes edges hsp hed chem dtSI hE henv hVol n xSI _ (fun _ _ _ _ => rfl) i s hi hs,
    marshal_euler_traj_closed_form_graph sys U' hU' hwf nodes edges hsp hed chem dtSI hE henv hVol n xSI _ (fun _ _ _ _ => rfl) i s hi hs,
    div_mul_cancel₀ _ (Sys.sQty_ne hU), div_mul_cancel₀ _ (Sys.sQty_ne hU')]

/-- **trajectories, graphs, engine in `U` against engine in SI** -/
theorem marshal_euler_traj_units_invariant_graph (sys : PySys) (U : Sys) (hU : U.valid = true) (hwf : C01.DimWF sys)
    (nodes : List PyNode) (edges : List PyEdge) (hsp : sys.space = .graph nodes edges) (hed : C01.EdgesWF edges)
    (chem : Nat → Nat → Bool) (dtSI : Rat)
    (hE : ∀ e ∈ edges, e.i < nodes.length ∧ e.j < nodes.length)
    (henv : ∀ j, j < nodes.length → sys.space.envOf j < sys.envs.length)
    (hVol : ∀ j, j < nodes.length → (sys.space.volOf j).si ≠ 0) (n : Nat) (xSI : St)
    (i s : Nat) (hi : i < nodes.length) (hs : s < sys.nSpecies) :
    (C03.eulerIter (engOfArraysGraph (pyMarshal sys U) sys.space.envOf (edgesInU U edges) (fun j => sys.space.edgeOf j / U.sSpace) chem)
        (dtSI / U.sTime) n ⟨fun i s => xSI i s / U.sQty⟩) i s
      = (C03.eulerIter (engOfArraysGraph (pyMarshal sys siSys) sys.space.envOf (edgesInU siSys edges) sys.space.edgeOf chem)
        dtSI n ⟨xSI⟩) i s / U.sQty := by
  have h := marshal_euler_traj_engine_units_graph sys U siSys hU siSys_valid hwf nodes edges hsp hed chem dtSI hE henv hVol n xSI i s hi hs
  simp only [siSys_sSpace, siSys_sTime, siSys_sQty, div_one, mul_one] at h
  rw [← h, mul_div_cancel_right₀ _ (Sys.sQty_ne hU)]

/-! ## non-vacuity: the hypotheses are satisfiable, with a non-SI engine units system and a chemostated entry -/

/-- `C01.exampleSys` (two species, two environments, a second-order reversible reaction with a per-environment constant, two nodes
of volumes 8 and 27 joined by an edge) run by the engine in micrometres / milliseconds / moles with (node 1, species 0) chemostated:
every hypothesis of the graph theorems holds, for every number of steps, SI state and time step -/
example (n : Nat) (xSI : St) (dtSI : Rat) (i s : Nat) (hi : i < 2) (hs : s < 2) :
    (C03.eulerIter (engOfArraysGraph (pyMarshal C01.exampleSys ⟨"µm", "ms", "mol"⟩) C01.exampleSys.space.envOf
        (edgesInU ⟨"µm", "ms", "mol"⟩ [⟨0, 1, ⟨5, Dim.surface⟩, ⟨2, Dim.length⟩⟩])
        (fun j => C01.exampleSys.space.edgeOf j / (⟨"µm", "ms", "mol"⟩ : Sys).sSpace) (fun i s => i == 1 && s == 0))
        (dtSI / (⟨"µm", "ms", "mol"⟩ : Sys).sTime) n ⟨fun i s => xSI i s / (⟨"µm", "ms", "mol"⟩ : Sys).sQty⟩) i s
      = (C03.eulerIter (engOfArraysGraph (pyMarshal C01.exampleSys siSys) C01.exampleSys.space.envOf
        (edgesInU siSys [⟨0, 1, ⟨5, Dim.surface⟩, ⟨2, Dim.length⟩⟩]) C01.exampleSys.space.edgeOf (fun i s => i == 1 && s == 0))
        dtSI n ⟨xSI⟩) i s / (⟨"µm", "ms", "mol"⟩ : Sys).sQty :=
  marshal_euler_traj_units_invariant_graph C01.exampleSys ⟨"µm", "ms", "mol"⟩ (by decide +kernel)
    (C01.dimWFb_sound C01.exampleSys (by decide +kernel)).1 _ _ rfl
    ((C01.dimWFb_sound C01.exampleSys (by decide +kernel)).2 _ _ rfl) _ dtSI
    (by decide +kernel) (by decide +kernel) (by decide +kernel) n xSI i s hi hs

/-- a 2×2×1 grid, periodic along x, cells of volume 8 (edge 2) in two environments, same network as `C01.exampleSys` -/
def exampleGridSys : PySys where
  nSpecies := 2
  dcoef := [.single ⟨3, Dim.diffusion⟩, .dict [("a", ⟨1 / 2, Dim.diffusion⟩), ("default", ⟨0, Dim.diffusion⟩)]]
  reactions := [{ sub := [2, 0], prod := [0, 1], kf := .dict [("b", ⟨7, kfDim 2⟩)], kr := .single ⟨1 / 3, kfDim 1⟩ }]
  envs := ["a", "b"]
  space := .grid ⟨2, 2, 1, true, false, false⟩ ⟨8, Dim.volume⟩ 2 [0, 1, 1, 0]
  chem := [0, 0, 0, 0, 0, 0, 0, 0]

example : dimWFb exampleGridSys = true := by decide +kernel

/-- every hypothesis of the grid theorems holds for `exampleGridSys`, two non-SI engine units systems (kilometres / hours / kmol
and nanometres / microseconds / molecules), cell 3's species 1 chemostated -/
example (n : Nat) (xSI : St) (dtSI : Rat) (i s : Nat) (hi : i < 4) (hs : s < 2) :
    (C03.eulerIter (engOfArraysGrid (pyMarshal exampleGridSys ⟨"km", "h", "kmol"⟩) exampleGridSys.space.envOf
        ⟨2, 2, 1, true, false, false⟩ (2 / (⟨"km", "h", "kmol"⟩ : Sys).sSpace) (fun i s => i == 3 && s == 1))
        (dtSI / (⟨"km", "h", "kmol"⟩ : Sys).sTime) n ⟨fun i s => xSI i s / (⟨"km", "h", "kmol"⟩ : Sys).sQty⟩) i s
        * (⟨"km", "h", "kmol"⟩ : Sys).sQty
      = (C03.eulerIter (engOfArraysGrid (pyMarshal exampleGridSys ⟨"nm", "µs", "molecule"⟩) exampleGridSys.space.envOf
        ⟨2, 2, 1, true, false, false⟩ (2 / (⟨"nm", "µs", "molecule"⟩ : Sys).sSpace) (fun i s => i == 3 && s == 1))
        (dtSI / (⟨"nm", "µs", "molecule"⟩ : Sys).sTime) n ⟨fun i s => xSI i s / (⟨"nm", "µs", "molecule"⟩ : Sys).sQty⟩) i s
        * (⟨"nm", "µs", "molecule"⟩ : Sys).sQty :=
  marshal_euler_traj_engine_units_grid exampleGridSys ⟨"km", "h", "kmol"⟩ ⟨"nm", "µs", "molecule"⟩ (by decide +kernel) (by decide +kernel)
    (C01.dimWFb_sound exampleGridSys (by decide +kernel)).1 _ _ _ _ rfl _ dtSI
    (by decide +kernel) (by decide +kernel) (by decide +kernel) (by decide +kernel) n xSI i s hi hs

/-- the statements are not trivially true: with the SI state "one molecule everywhere" the closed-form step moves the free entry
(node 0, species 0) of `C01.exampleSys` and holds the chemostated one -/
example : siEulerStep (physOfPy C01.exampleSys (fun k => graphFaces (edgesSI [⟨0, 1, ⟨5, Dim.surface⟩, ⟨2, Dim.length⟩⟩]) k))
      (fun i s => i == 1 && s == 0) 1 (fun _ _ => 1) 0 0 ≠ 1 ∧
    siEulerStep (physOfPy C01.exampleSys (fun k => graphFaces (edgesSI [⟨0, 1, ⟨5, Dim.surface⟩, ⟨2, Dim.length⟩⟩]) k))
      (fun i s => i == 1 && s == 0) 1 (fun _ _ => 1) 1 0 = 1 := by decide +kernel

end Strengths.C04
