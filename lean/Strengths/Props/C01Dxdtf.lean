/-
C01 (continued) — `RDSystem.make_dxdtf` realises the rate law, in any units system.

`dxdtf_eq_rate`: for a system of size 1 whose rate constants and cell volume carry the dimensions their setters give them,
the closure returned by `make_dxdtf(units_system = U)`, applied to amounts expressed in `U`, returns for every species the
reaction part of the rate law expressed in `U` (amount/time), times `1 - flag`.  (In a system of size 1 every interface of
the cell leads back to the cell itself, so the diffusion part of the rate law vanishes: `rate_size1`.)
Uses the homogeneity of mass action (`C04.massAction_homogeneous`) with the scales of `U`.
-/
import Strengths.Props.C04

namespace Strengths.C01
open Strengths Strengths.Gen Strengths.Spec

theorem natSum_eq_sum (l : List Nat) : natSum l = l.sum := by
  unfold natSum
  have : ∀ (l : List Nat) (c : Nat), l.foldl (· + ·) c = c + l.sum := by
    intro l
    induction l with
    | nil => intro c; simp
    | cons a as ih => intro c; simp only [List.foldl_cons, List.sum_cons, ih]; omega
  rw [this]; omega

theorem natSum_range (l : List Nat) (n : Nat) (hl : l.length = n) :
    ((List.range n).map fun s => l.getD s 0).sum = natSum l := by
  rw [natSum_eq_sum, ← hl]
  congr 1
  apply List.ext_getElem?
  intro k
  simp only [List.getElem?_map, List.getElem?_range]
  by_cases hk : k < l.length
  · simp [hk, List.getD_eq_getElem?_getD, List.getElem?_eq_getElem hk]
  · simp [hk, List.getElem?_eq_none (Nat.le_of_not_lt hk)]

theorem foldl_zip_map {α : Type} (f : α → Rat) (w : α → Rat) (l : List α) (c : Rat) :
    (l.zip (l.map f)).foldl (fun acc (p : α × Rat) => acc + p.2 * w p.1) c = c + sumL (l.map fun a => f a * w a) := by
  induction l generalizing c with
  | nil => simp [sumL]
  | cons a as ih =>
    simp only [List.map_cons, List.zip_cons_cons, List.foldl_cons, ih, sumL, List.foldr_cons]
    ring

theorem sumL_flatMap_pair {α β : Type} (f g : α → β) (T : β → Rat) (l : List α) :
    sumL ((l.flatMap fun r => [f r, g r]).map T) = sumL (l.map fun r => T (f r) + T (g r)) := by
  induction l with
  | nil => rfl
  | cons a as ih =>
    simp only [List.flatMap_cons, List.map_append, List.map_cons, List.map_nil, sumL_append, ih]
    simp only [sumL, List.foldr_cons, List.foldr_nil]
    ring

theorem kf_kr_dim (n : Nat) : kfDim n = krDim n := by rw [(k_dimension n).1, (k_dimension n).2]

theorem siFactor_kdim (U : Sys) (n : Nat) :
    siFactor U (kfDim n) = U.sSpace ^ ((3 : Int) * (n : Nat) - 3) * U.sTime ^ (-1 : Int) * U.sQty ^ ((1 : Int) - (n : Nat)) := by
  rw [(k_dimension n).1]
  rfl

/-- the rate of one irreversible reaction inside the closure of `make_dxdtf`, in units `U`: `k_U·V_U^(1−n)·Π x_U^ν` equals the
SI mass-action term converted to `U` (amount/time) -/
theorem dxdtf_rate_term (sys : PySys) (U : Sys) (hU : U.valid = true) (k : Q) (ν : List Nat) (xU : List Rat)
    (hν : ν.length = sys.nSpecies) (hk : k.dim = kfDim (natSum ν))
    (hVd : (sys.space.volOf 0).dim = Dim.volume) (hV : (sys.space.volOf 0).si ≠ 0) (faces : Nat → List Face) :
    (List.range sys.nSpecies).foldl (fun acc s => acc * (xU.getD s 0) ^ (ν.getD s 0))
        (k.inU U * ((sys.space.volOf 0).inU U) ^ ((1 : Int) - ((natSum ν : Nat) : Int)))
      = massAction (physOfPy sys faces) (fun _ s => xU.getD s 0 * U.sQty) 0 k.si (fun s => ν.getD s 0) * U.sTime / U.sQty := by
  have ha := Sys.sSpace_ne hU
  have hb := Sys.sTime_ne hU
  have hc := Sys.sQty_ne hU
  have hsum : ((List.range sys.nSpecies).map fun s => ν.getD s 0).sum = natSum ν := natSum_range ν _ hν
  have hVU : (sys.space.volOf 0).inU U = (sys.space.volOf 0).si / U.sSpace ^ 3 := by
    unfold Q.inU siFactor
    rw [hVd]
    simp only [Dim.volume, zpow_zero, mul_one]
    norm_num [zpow_ofNat]
  have hVUne : (sys.space.volOf 0).inU U ≠ 0 := by rw [hVU]; exact div_ne_zero hV (pow_ne_zero 3 ha)
  have hkU : k.inU U = k.si / (U.sSpace ^ ((3 : Int) * ((((List.range sys.nSpecies).map fun s => ν.getD s 0).sum : Nat)) - 3)
      * U.sTime ^ (-1 : Int) * U.sQty ^ ((1 : Int) - ((((List.range sys.nSpecies).map fun s => ν.getD s 0).sum : Nat)))) := by
    unfold Q.inU
    rw [hk, siFactor_kdim, hsum]
  rw [← hsum, massAction_forms sys.nSpecies (fun s => xU.getD s 0) (fun s => ν.getD s 0) (k.inU U) _ hVUne, hkU, hVU]
  have hm := C04.massAction_homogeneous U.sSpace U.sTime U.sQty ha hb hc (physOfPy sys faces)
    (fun _ s => xU.getD s 0 * U.sQty) 0 k.si (fun s => ν.getD s 0) hV
  rw [← hm]
  unfold massAction conc
  simp only [C04.scalePhys, physOfPy]
  congr 1
  apply congrArg
  apply List.map_congr_left
  intro s _
  congr 1
  field_simp

/-- **dxdtf_eq_rate** — size-1 systems, any valid units system `U`: entry `s` of `make_dxdtf(U)(t, x_U)` is the reaction part
of the rate law at the physical amounts `x_U·(amount unit of U)`, expressed in `U` (divide by amount/time of `U`), times
`1 - flag_s` -/
theorem dxdtf_eq_rate (sys : PySys) (U : Sys) (hU : U.valid = true) (xU y : List Rat) (h : pyDxdtf sys U xU = .ok y)
    (hVd : (sys.space.volOf 0).dim = Dim.volume) (hV : (sys.space.volOf 0).si ≠ 0)
    (hlen : ∀ r ∈ sys.reactions, r.sub.length = sys.nSpecies ∧ r.prod.length = sys.nSpecies)
    (hkd : ∀ r ∈ sys.reactions,
      (getValueInEnv r.kf (sys.envLabel 0) ⟨0, kfDim (natSum r.sub)⟩).dim = kfDim (natSum r.sub) ∧
      (getValueInEnv r.kr (sys.envLabel 0) ⟨0, kfDim (natSum r.prod)⟩).dim = kfDim (natSum r.prod))
    (faces : Nat → List Face) (s : Nat) (hs : s < sys.nSpecies) :
    y[s]? = some (reactionPart (physOfPy sys faces) (fun _ s' => xU.getD s' 0 * U.sQty) s 0 * U.sTime / U.sQty
      * (((1 : Int) - sys.chem.getD s 0 : Int) : Rat)) := by
  unfold pyDxdtf at h
  split at h
  · cases h
  · cases h
    simp only [List.getElem?_map, List.getElem?_range hs, Option.map_some, Option.some.injEq]
    congr 1
    rw [foldl_zip_map
      (fun r : PyReaction => (List.range sys.nSpecies).foldl (fun acc s => acc * xU.getD s 0 ^ r.sub.getD s 0) (pyDxdtfK sys U r))
      (fun r : PyReaction => (((r.prod.getD s 0 : Nat) : Rat) - ((r.sub.getD s 0 : Nat) : Rat))) (pySplitReactions sys.reactions) 0, zero_add]
    unfold pySplitReactions
    rw [sumL_flatMap_pair]
    have hRP : reactionPart (physOfPy sys faces) (fun _ s' => xU.getD s' 0 * U.sQty) s 0 = sumL (sys.reactions.map fun r : PyReaction =>
        (((r.prod.getD s 0 : Nat) : Rat) - ((r.sub.getD s 0 : Nat) : Rat)) *
          massAction (physOfPy sys faces) (fun _ s' => xU.getD s' 0 * U.sQty) 0 (kfSI sys r (sys.space.envOf 0)) (fun s' => r.sub.getD s' 0) +
        (((r.sub.getD s 0 : Nat) : Rat) - ((r.prod.getD s 0 : Nat) : Rat)) *
          massAction (physOfPy sys faces) (fun _ s' => xU.getD s' 0 * U.sQty) 0 (krSI sys r (sys.space.envOf 0)) (fun s' => r.prod.getD s' 0)) := by
      unfold reactionPart
      rw [map_eq_range_getD _ sys.reactions default]
      rfl
    rw [hRP]
    have hmul : ∀ (l : List PyReaction) (f : PyReaction → Rat), sumL (l.map fun r => f r * U.sTime / U.sQty) = sumL (l.map f) * U.sTime / U.sQty := by
      intro l f
      induction l with
      | nil => simp [sumL]
      | cons r rs ih => simp only [sumL, List.map_cons, List.foldr_cons] at *; rw [ih]; ring
    rw [← hmul]
    apply sumL_congr
    intro r hr
    obtain ⟨hl1, hl2⟩ := hlen r hr
    obtain ⟨hk1, hk2⟩ := hkd r hr
    have t1 := dxdtf_rate_term sys U hU (getValueInEnv r.kf (sys.envLabel 0) ⟨0, kfDim (natSum r.sub)⟩) r.sub xU hl1 hk1 hVd hV faces
    have t2 := dxdtf_rate_term sys U hU (getValueInEnv r.kr (sys.envLabel 0) ⟨0, kfDim (natSum r.prod)⟩) r.prod xU hl2 hk2 hVd hV faces
    simp only [PyReaction.split, pyDxdtfK, PyReaction.order]
    rw [t1, t2]
    simp only [kfSI, krSI, PySys.envLabel, ← kf_kr_dim]
    ring

/-- in a system of size 1 every interface of the Spec leads back to the cell, and the diffusion part vanishes -/
theorem rate_size1 (P : Phys) (x : St) (s : Nat) (hf : ∀ f ∈ P.faces 0, f.nbr = 0) : rate P x s 0 = reactionPart P x s 0 := by
  unfold rate diffusionPart
  have : sumL ((P.faces 0).map fun f =>
      dbar (P.edge 0) (P.edge f.nbr) (P.dcoef s (P.env 0)) (P.dcoef s (P.env f.nbr)) * f.sfc / f.dst * (conc P x f.nbr s - conc P x 0 s)) = 0 := by
    have hz : ∀ f ∈ P.faces 0, dbar (P.edge 0) (P.edge f.nbr) (P.dcoef s (P.env 0)) (P.dcoef s (P.env f.nbr)) * f.sfc / f.dst *
        (conc P x f.nbr s - conc P x 0 s) = (fun _ => (0 : Rat)) f := by
      intro f hfm
      rw [hf f hfm]
      simp
    rw [sumL_congr _ _ _ hz]
    induction P.faces 0 with
    | nil => rfl
    | cons a as ih => simp only [List.map_cons, sumL, List.foldr_cons] at *; rw [ih]; ring
  rw [this, add_zero]

end Strengths.C01
