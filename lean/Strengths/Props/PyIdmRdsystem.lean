/-
Idiom inventory of src/strengths/rdsystem.py (generated: `Gen.PyIdioms.inv_rdsystem`, regenerated from the source on every run).
-/
import Strengths.Model.PyIdioms

namespace Strengths.PyIdioms
open Strengths.Gen.PyIdioms

/-- `rdsystem.py` keeps value semantics: no identity comparison except with `None`, no substring test on a literal, no
`assert`, no `and`/`or` selecting a value, no `*d.values()` (the model compares by value, handles absence through `Option`,
and reads dictionaries by key) -/
theorem rdsystem_value_semantic : valueSemantic inv_rdsystem = true := by decide +kernel

/-- `rdsystem.py` never aliases an array on purpose: no `np.asarray`, `np.frombuffer`, `.view(…)`, `memoryview` — what a function
returns is a fresh object (the model's values are immutable; this is the source fact that lets mutation of a returned
object be ignored) -/
theorem rdsystem_no_views : views_rdsystem = [] := by decide +kernel

end Strengths.PyIdioms
