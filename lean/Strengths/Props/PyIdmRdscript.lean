/-
Idiom inventory of src/strengths/rdscript.py (generated: `Gen.PyIdioms.inv_rdscript`, regenerated from the source on every run).
-/
import Strengths.Model.PyIdioms

namespace Strengths.PyIdioms
open Strengths.Gen.PyIdioms

/-- `rdscript.py` keeps value semantics: no identity comparison except with `None`, no substring test on a literal, no
`assert`, no `and`/`or` selecting a value, no `*d.values()` (the model compares by value, handles absence through `Option`,
and reads dictionaries by key) -/
theorem rdscript_value_semantic : valueSemantic inv_rdscript = true := by decide +kernel

/-- `rdscript.py` never aliases an array on purpose: no `np.asarray`, `np.frombuffer`, `.view(…)`, `memoryview` — what a function
returns is a fresh object (the model's values are immutable; this is the source fact that lets mutation of a returned
object be ignored) -/
theorem rdscript_no_views : views_rdscript = [] := by decide +kernel

/-- a script owns its system and its units system (`copy()` on assignment); `RDScript.copy` is a deep copy -/
theorem rdscript_copies :
    copies_rdscript =
      [("RDScript.system", "system.copy()"), ("RDScript.t_max", "self._t_max.copy()"), ("RDScript.units_system", "units_system.copy()"), ("RDScript.copy", "copy.deepcopy(self)")] := by
  decide +kernel

end Strengths.PyIdioms
