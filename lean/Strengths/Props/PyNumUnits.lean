/-
Numeric inventory of src/strengths/units.py (generated: `Gen.PyNumeric.inv_units`, regenerated from the source on every run).
-/
import Strengths.Model.PyNumeric

namespace Strengths.PyNumeric
open Strengths.Gen.PyNumeric

/-- `units.py` never rounds, truncates, compares with a tolerance, stores numbers in less than 64 bits, or prints them with a
limited number of digits (the model computes its values exactly and its texts through `repr`) -/
theorem units_full_precision : fullPrecision inv_units = true := by decide +kernel

/-- the only maxima / minima / absolute values taken in `units.py` are `UnitValue.__abs__` / `UnitArray.__abs__` (the operator itself); no amount, rate, time or
coefficient is clamped, and no exception is swallowed -/
theorem units_no_clamping :
    clamp_units =
      [("clamp", "abs(self.value)"), ("clamp", "abs(self.value)")] := by
  decide +kernel

end Strengths.PyNumeric
