/-
C16 — Coarse-graining conserves matter and geometry; un-coarse-graining inverts it.

Model: `Strengths.Model.Coarsegrain` (hand-written from coarsegrain.py).  The tests of
`check_index_map_validity`, the aggregation subscripts of `coarsegrain_system`, the spreading
subscripts of `uncoarsegrain_trajectory_data` and the statement inventory of `coarsegrain_grid` /
`grid_to_graph` / the `simulate_script` glue are regenerated from the source (`Gen.CoarsePy`).
-/
import Strengths.Proofs.Coarsegrain

namespace Strengths.C16
open Strengths Strengths.Gen

/-! ## what the code is made of (generated; whole-text kernel comparison) -/

/-- aggregation: species-major on both sides, `cg[s·ncg + g] += fine[s·n + i]`, dropped cells skipped,
flags clamped with `min(·, 1)` -/
theorem aggregation_subscripts (ncg n s g i : Int) :
    cgStateDst ncg s g = s * ncg + g ∧ cgStateSrc n s i = s * n + i ∧
    cgChemDst ncg s g = s * ncg + g ∧ cgChemSrc n s i = s * n + i ∧
    (cgKeep g = true ↔ g ≠ -1) ∧ cgChemClamp = "int(min(cgchstt[i],1))" := by
  refine ⟨rfl, rfl, rfl, rfl, ?_, by decide +kernel⟩
  simp [cgKeep]

/-- spreading: `data[k·(ns·nf) + s·nf + j] = in[k, s, node] / len(members node)` -/
theorem spreading_subscripts (ns nf k s j : Int) :
    uncgDst (uncgStateSize ns nf) nf k s j = k * (ns * nf) + s * nf + j ∧
    uncgValue = "in_state[n,s,node_index]/len(cg_nodes[node_index])" ∧
    uncgDataInit = "np.zeros(state_size*trajectory.nsamples())" ∧
    uncgMembers = [("index_map[i]!=-1", "cg_nodes[index_map[i]].append(i)")] ∧
    uncgLoops = [("i", "range(ncg_space.size())"), ("n", "range(trajectory.nsamples())"),
      ("s", "range(trajectory.system.network.nspecies())"), ("node_index", "range(len(cg_nodes))"), ("j", "cg_nodes[node_index]")] := by
  refine ⟨rfl, by decide +kernel, by decide +kernel, by decide +kernel, by decide +kernel⟩

/-- the statements of `coarsegrain_grid` the hand-written model follows -/
theorem coarsegrain_grid_statements :
    cgGridAccumulate = [("node_pos[i][0]", "node_ncg[i]"), ("node_pos[i][1]", "node_ncg[i]"), ("node_pos[i][2]", "node_ncg[i]"),
      ("nodes[index_map[i]].volume", "space.nodes[i].volume"), ("node_pos[index_map[i]][0]", "in_node_pos[i][0]"),
      ("node_pos[index_map[i]][1]", "in_node_pos[i][1]"), ("node_pos[index_map[i]][2]", "in_node_pos[i][2]"),
      ("node_ncg[index_map[i]]", "1"), ("out_edge.surface", "edge.surface")] ∧
    cgGridTests = ["grid.get_boundary_conditions()!={\"x\":\"reflecting\",\"y\":\"reflecting\",\"z\":\"reflecting\"}",
      "index_map[i]!=-1", "i==j", "i==-1orj==-1", "cinout_edge_coords", "out_edge.i==c[0]andout_edge.j==c[1]"] ∧
    cgGridAssign = [("grid_cell_edge", "grid.cell_vol**(1/3)"), ("n_cell_out", "max(index_map)+1"), ("i", "index_map[edge.i]"),
      ("j", "index_map[edge.j]"), ("c", "(min(i,j),max(i,j))"),
      ("distance", "((node_pos[edge.i][0]-node_pos[edge.j][0])**2+(node_pos[edge.i][1]-node_pos[edge.j][1])**2+(node_pos[edge.i][2]-node_pos[edge.j][2])**2)**(1/2)"),
      ("edge.distance", "distance"), ("nodes[index_map[i]].environment", "space.nodes[i].environment")] ∧
    cgGridAppends = ["edges.append(RDGraphSpaceEdge(i=c[0],j=c[1],surface=edge.surface,distance=0,units_system=space.units_system))",
      "out_edge_coords.append(c)", "in_node_pos.append([x*grid_cell_edge,y*grid_cell_edge,z*grid_cell_edge])"] := by
  decide +kernel

/-- `grid_to_graph`: one edge per inner face in +x, +y, +z, surface = edge², distance = edge = volume^(1/3) -/
theorem grid_to_graph_statements :
    g2gFaces = [("x<grid.w-1", "grid.get_cell_index((x,y,z))", "grid.get_cell_index((x+1,y,z))", "edge_sfc", "edge_dst"),
      ("y<grid.h-1", "grid.get_cell_index((x,y,z))", "grid.get_cell_index((x,y+1,z))", "edge_sfc", "edge_dst"),
      ("z<grid.d-1", "grid.get_cell_index((x,y,z))", "grid.get_cell_index((x,y,z+1))", "edge_sfc", "edge_dst")] ∧
    g2gGeometry = [("edge_dst", "(grid.cell_vol)**(1/3)"), ("edge_sfc", "edge_dst**2")] := by
  decide +kernel

/-- `simulate_script(cgmap=…)`: coarse-grain the system, simulate, un-coarse-grain with the same map on the original system -/
theorem simulate_glue :
    simulateCgGlue = ["cgscript=script.copy()", "cgscript.system=coarsegrain_system(cgscript.system,cgmap)",
      "cgoutput=simulate_script(cgscript,engine,print_progress,None)",
      "output=uncoarsegrain_trajectory(cgoutput,script.system,cgmap)", "returnoutput"] := by
  decide +kernel

/-- the tests of `check_index_map_validity`, in the order the code makes them -/
theorem validity_tests (len size mn mx cur e g : Int) :
    imTestOrder = ["length", "type", "min", "max", "presence", "envloop"] ∧
    (imLenBad len size = true ↔ len ≠ size) ∧ imTypeTest = "type(i)!=int" ∧
    (imMinBad mn = true ↔ mn < -1) ∧ (imMaxBad mx = true ↔ mx < 0) ∧
    imPresenceLo mx = 0 ∧ imPresenceHi mx = mx ∧ imPresenceTest = "inotinim" ∧
    envSentinel = -2 ∧ (envSkip g = true ↔ g = -1) ∧ (envUnset cur e = true ↔ cur = -2) ∧ (envSame cur e = true ↔ cur = e) := by
  refine ⟨by decide +kernel, ?_, by decide +kernel, ?_, ?_, rfl, rfl, by decide +kernel, rfl, ?_, ?_, ?_⟩ <;>
    simp [imLenBad, imMinBad, imMaxBad, envSkip, envUnset, envSame]

end Strengths.C16
