/-
C16 — Coarse-graining conserves matter and geometry; un-coarse-graining inverts it.

Model: `Strengths.Model.Coarsegrain` (hand-written from coarsegrain.py).  The tests of
`check_index_map_validity`, the aggregation subscripts of `coarsegrain_system`, the spreading
subscripts of `uncoarsegrain_trajectory_data` and the statement inventory of `coarsegrain_grid` /
`grid_to_graph` / the `simulate_script` glue are regenerated from the source (`Gen.CoarsePy`).
-/
import Strengths.Proofs.Coarsegrain

namespace Strengths.C16
open Strengths Strengths.Gen

/-! ## what the code is made of (generated; whole-text kernel comparison) -/

/-- aggregation: species-major on both sides, `cg[s·ncg + g] += fine[s·n + i]`, dropped cells skipped,
flags clamped with `min(·, 1)` -/
theorem aggregation_subscripts (ncg n s g i : Int) :
    cgStateDst ncg s g = s * ncg + g ∧ cgStateSrc n s i = s * n + i ∧
    cgChemDst ncg s g = s * ncg + g ∧ cgChemSrc n s i = s * n + i ∧
    (cgKeep g = true ↔ g ≠ -1) ∧ cgChemClamp = "int(min(cgchstt[i],1))" := by
  refine ⟨rfl, rfl, rfl, rfl, ?_, by decide +kernel⟩
  simp [cgKeep]

/-- spreading: `data[k·(ns·nf) + s·nf + j] = in[k, s, node] / len(members node)` -/
theorem spreading_subscripts (ns nf k s j : Int) :
    uncgDst (uncgStateSize ns nf) nf k s j = k * (ns * nf) + s * nf + j ∧
    uncgValue = "in_state[n,s,node_index]/len(cg_nodes[node_index])" ∧
    uncgDataInit = "np.zeros(state_size*trajectory.nsamples())" ∧
    uncgMembers = [("index_map[i]!=-1", "cg_nodes[index_map[i]].append(i)")] ∧
    uncgLoops = [("i", "range(ncg_space.size())"), ("n", "range(trajectory.nsamples())"),
      ("s", "range(trajectory.system.network.nspecies())"), ("node_index", "range(len(cg_nodes))"), ("j", "cg_nodes[node_index]")] := by
  refine ⟨rfl, by decide +kernel, by decide +kernel, by decide +kernel, by decide +kernel⟩

/-- the statements of `coarsegrain_grid` the hand-written model follows -/
theorem coarsegrain_grid_statements :
    cgGridAccumulate = [("node_pos[i][0]", "node_ncg[i]"), ("node_pos[i][1]", "node_ncg[i]"), ("node_pos[i][2]", "node_ncg[i]"),
      ("nodes[index_map[i]].volume", "space.nodes[i].volume"), ("node_pos[index_map[i]][0]", "in_node_pos[i][0]"),
      ("node_pos[index_map[i]][1]", "in_node_pos[i][1]"), ("node_pos[index_map[i]][2]", "in_node_pos[i][2]"),
      ("node_ncg[index_map[i]]", "1"), ("out_edge.surface", "edge.surface")] ∧
    cgGridTests = ["grid.get_boundary_conditions()!={\"x\":\"reflecting\",\"y\":\"reflecting\",\"z\":\"reflecting\"}",
      "index_map[i]!=-1", "i==j", "i==-1orj==-1", "cinout_edge_coords", "out_edge.i==c[0]andout_edge.j==c[1]"] ∧
    cgGridAssign = [("grid_cell_edge", "grid.cell_vol**(1/3)"), ("n_cell_out", "max(index_map)+1"), ("i", "index_map[edge.i]"),
      ("j", "index_map[edge.j]"), ("c", "(min(i,j),max(i,j))"),
      ("distance", "((node_pos[edge.i][0]-node_pos[edge.j][0])**2+(node_pos[edge.i][1]-node_pos[edge.j][1])**2+(node_pos[edge.i][2]-node_pos[edge.j][2])**2)**(1/2)"),
      ("edge.distance", "distance"), ("nodes[index_map[i]].environment", "space.nodes[i].environment")] ∧
    cgGridAppends = ["edges.append(RDGraphSpaceEdge(i=c[0],j=c[1],surface=edge.surface,distance=0,units_system=space.units_system))",
      "out_edge_coords.append(c)", "in_node_pos.append([x*grid_cell_edge,y*grid_cell_edge,z*grid_cell_edge])"] := by
  decide +kernel

/-- `grid_to_graph`: one edge per inner face in +x, +y, +z, surface = edge², distance = edge = volume^(1/3) -/
theorem grid_to_graph_statements :
    g2gFaces = [("x<grid.w-1", "grid.get_cell_index((x,y,z))", "grid.get_cell_index((x+1,y,z))", "edge_sfc", "edge_dst"),
      ("y<grid.h-1", "grid.get_cell_index((x,y,z))", "grid.get_cell_index((x,y+1,z))", "edge_sfc", "edge_dst"),
      ("z<grid.d-1", "grid.get_cell_index((x,y,z))", "grid.get_cell_index((x,y,z+1))", "edge_sfc", "edge_dst")] ∧
    g2gGeometry = [("edge_dst", "(grid.cell_vol)**(1/3)"), ("edge_sfc", "edge_dst**2")] := by
  decide +kernel

/-- `simulate_script(cgmap=…)`: coarse-grain the system, simulate, un-coarse-grain with the same map on the original system -/
theorem simulate_glue :
    simulateCgGlue = ["cgscript=script.copy()", "cgscript.system=coarsegrain_system(cgscript.system,cgmap)",
      "cgoutput=simulate_script(cgscript,engine,print_progress,None)",
      "output=uncoarsegrain_trajectory(cgoutput,script.system,cgmap)", "returnoutput"] := by
  decide +kernel

/-- the tests of `check_index_map_validity`, in the order the code makes them -/
theorem validity_tests (len size mn mx cur e g : Int) :
    imTestOrder = ["length", "type", "min", "max", "presence", "envloop"] ∧
    (imLenBad len size = true ↔ len ≠ size) ∧ imTypeTest = "type(i)!=int" ∧
    (imMinBad mn = true ↔ mn < -1) ∧ (imMaxBad mx = true ↔ mx < 0) ∧
    imPresenceLo mx = 0 ∧ imPresenceHi mx = mx ∧ imPresenceTest = "inotinim" ∧
    envSentinel = -2 ∧ (envSkip g = true ↔ g = -1) ∧ (envUnset cur e = true ↔ cur = -2) ∧ (envSame cur e = true ↔ cur = e) := by
  refine ⟨by decide +kernel, ?_, by decide +kernel, ?_, ?_, rfl, rfl, by decide +kernel, rfl, ?_, ?_, ?_⟩ <;>
    simp [imLenBad, imMinBad, imMaxBad, envSkip, envUnset, envSame]


/-! ## validity of an index map -/

/-- `valid_iff`: an index map is accepted exactly when it is valid by the documented rules (`ValidMap`: right length, every
entry a Python `int ≥ -1`, not all dropped, every integer of `0..max` present, no two retained cells of one group in different
environments).  Hypothesis: no environment index equals `-2`, the code's internal "unset" marker (environment indices are
list positions, hence `≥ 0`). -/
theorem valid_iff (im : List (Option Int)) (envs : List Int) (henv : ∀ e ∈ envs, e ≠ -2) :
    checkIndexMap im envs = .ok () ↔ ValidMap im envs := valid_iff_aux im envs henv

/-- the first five rules in the form the code tests them (no hypothesis on the environments) -/
theorem valid_iff_partial (im : List (Option Int)) (envs : List Int) :
    checkIndexMap im envs = .ok () ↔
      im.length = envs.length ∧ (∀ x ∈ im, x.isSome = true) ∧
      ∃ mx mn, listMax (im.filterMap id) = some mx ∧ listMin (im.filterMap id) = some mn ∧ -1 ≤ mn ∧ 0 ≤ mx ∧
        (∀ k : Nat, (k : Int) < mx → (k : Int) ∈ im.filterMap id) ∧
        envLoop ((im.filterMap id).zip envs) (List.replicate (mx + 1 - mn).toNat envSentinel) = .ok () :=
  checkIndexMap_ok_iff im envs

/-- a periodic grid is refused -/
theorem periodic_grid_raises (g : GridShape) (h : Rat) (uv ug : Sys) (envs : List Int) (im : List (Option Int))
    (hp : (g.px || g.py || g.pz) = true) : (coarsegrainGrid g h uv ug envs im).isError = true := by
  simp [coarsegrainGrid, hp, Res.isError]

/-! ## conservation of volume -/

/-- total volume of the coarse graph = (number of retained cells) · h³, expressed in the grid's units system -/
theorem cg_volume {g : GridShape} {h : Rat} {uv ug : Sys} {envs : List Int} {im : List (Option Int)} {sp : CgSpace}
    (henv : envs.length = g.size) (hok : coarsegrainGrid g h uv ug envs im = .ok sp) :
    sp.vols.sum = (keptCount (im.filterMap id) : Rat) * (h * h * h * convFactor uv ug Dim.volume) :=
  cg_volume_aux henv hok

/-- the same in SI: Σ_g vol g · SI(ug³) = (#retained cells) · h³ · SI(uv³) -/
theorem cg_volume_SI {g : GridShape} {h : Rat} {uv ug : Sys} {envs : List Int} {im : List (Option Int)} {sp : CgSpace}
    (hug : ug.valid = true) (henv : envs.length = g.size) (hok : coarsegrainGrid g h uv ug envs im = .ok sp) :
    sp.vols.sum * siFactor ug Dim.volume = (keptCount (im.filterMap id) : Rat) * (h * h * h * siFactor uv Dim.volume) := by
  rw [cg_volume henv hok, convFactor_eq_div]
  have := siFactor_ne hug Dim.volume
  field_simp

/-! ## conservation of matter, environments, chemostat flags -/

/-- amount of species `s` in group `k` = sum over the member cells (`nGroups` = max + 1 coarse nodes, species-major) -/
theorem cg_group_amount {g : GridShape} {h : Rat} {uv ug : Sys} {envs : List Int} {ns : Nat} {state : List Rat} {chem : List Int}
    {im : List (Option Int)} {c : CgSystem} (hok : coarsegrainSystem g h uv ug envs ns state chem im = .ok c)
    (s k : Nat) (hs : s < ns) (hk : k < nGroups im) :
    c.state[s * nGroups im + k]? =
      some (((im.filterMap id).zipIdx.map fun p => if p.1 = (k : Int) then state.getD (s * g.size + p.2) 0 else 0).sum) :=
  cg_group_amount_aux hok s k hs hk

/-- each species' total over the coarse nodes = its total over the retained cells -/
theorem cg_species_total {g : GridShape} {h : Rat} {uv ug : Sys} {envs : List Int} {ns : Nat} {state : List Rat} {chem : List Int}
    {im : List (Option Int)} {c : CgSystem} (hok : coarsegrainSystem g h uv ug envs ns state chem im = .ok c)
    (s : Nat) (hs : s < ns) :
    ((List.range (nGroups im)).map fun k => c.state.getD (s * nGroups im + k) 0).sum =
      ((im.filterMap id).zipIdx.map fun p => if cgKeep p.1 then state.getD (s * g.size + p.2) 0 else 0).sum :=
  cg_species_total_aux hok s hs

/-- the environment of a group is the environment of each of its members -/
theorem cg_env {g : GridShape} {h : Rat} {uv ug : Sys} {envs : List Int} {im : List (Option Int)} {sp : CgSpace}
    (henv : ∀ e ∈ envs, e ≠ -2) (hok : coarsegrainGrid g h uv ug envs im = .ok sp) :
    ∀ p ∈ (im.filterMap id).zip envs, p.1 ≠ -1 → sp.envs[p.1.toNat]? = some p.2 := cg_env_aux henv hok

/-- a group is chemostated for a species exactly when some member is (flags non-negative) -/
theorem cg_chem_any {g : GridShape} {h : Rat} {uv ug : Sys} {envs : List Int} {ns : Nat} {state : List Rat} {chem : List Int}
    {im : List (Option Int)} {c : CgSystem} (hok : coarsegrainSystem g h uv ug envs ns state chem im = .ok c)
    (hflags : ∀ x ∈ chem, 0 ≤ x) (s k : Nat) (hs : s < ns) (hk : k < nGroups im) :
    c.chem[s * nGroups im + k]? =
      some (if ∃ p ∈ (im.filterMap id).zipIdx, p.1 = (k : Int) ∧ 1 ≤ chem.getD (s * g.size + p.2) 0 then 1 else 0) :=
  cg_chem_any_aux hok hflags s k hs hk

/-! ## un-coarse-graining -/

/-- `uncg_even` + `uncg_dropped_zero`: for an index map of the fine grid's length with entries `-1` or below the number of
coarse nodes, and coarse data of the announced shape, un-coarse-graining succeeds and cell `j` of sample `k`, species `s`
receives the value of its group divided by the number of cells of that group — and exactly `0` when the cell was dropped -/
theorem uncg_even (N ns ncg nf : Nat) (ims : List Int) (cg : List Rat)
    (hlen : ims.length = nf) (hr : InRange ncg ims) (hcg : cg.length = N * ns * ncg) :
    ∃ data, uncoarsegrain N ns ncg nf ims cg = .ok data ∧ data.length = N * (ns * nf) ∧
      ∀ k s j, k < N → s < ns → ∀ hj : j < ims.length,
        data[k * (ns * nf) + s * nf + j]? =
          some (if ims[j] = -1 then 0
                else cg.getD (k * (ns * ncg) + s * ncg + ims[j].toNat) 0 / (groupCount ims[j].toNat ims : Rat)) :=
  uncg_spec N ns ncg nf ims cg hlen hr hcg

theorem uncg_dropped_zero (N ns ncg nf : Nat) (ims : List Int) (cg data : List Rat)
    (hlen : ims.length = nf) (hr : InRange ncg ims) (hcg : cg.length = N * ns * ncg)
    (hok : uncoarsegrain N ns ncg nf ims cg = .ok data) (k s j : Nat) (hk : k < N) (hs : s < ns) (hj : j < ims.length)
    (hdrop : ims[j] = -1) : data[k * (ns * nf) + s * nf + j]? = some 0 := by
  obtain ⟨data', hd, _, hspec⟩ := uncg_spec N ns ncg nf ims cg hlen hr hcg
  rw [hd] at hok; cases hok
  rw [hspec k s j hk hs hj, if_pos hdrop]

/-- the members of a (non-empty) group together receive exactly the group's value -/
theorem uncg_group_total (N ns ncg nf : Nat) (ims : List Int) (cg data : List Rat)
    (hlen : ims.length = nf) (hr : InRange ncg ims) (hcg : cg.length = N * ns * ncg)
    (hok : uncoarsegrain N ns ncg nf ims cg = .ok data) (k s g : Nat) (hk : k < N) (hs : s < ns)
    (hcount : groupCount g ims ≠ 0) :
    ((membersOf g ims.zipIdx).map fun j => data.getD (k * (ns * nf) + s * nf + j) 0).sum =
      cg.getD (k * (ns * ncg) + s * ncg + g) 0 :=
  uncg_group_total_aux N ns ncg nf ims cg data hlen hr hcg hok k s g hk hs hcount

/-- the members of a group are the cells mapped to it -/
theorem members_are_the_mapped_cells (g : Nat) (ims : List Int) (j : Nat) :
    j ∈ membersOf g ims.zipIdx ↔ ∃ h : j < ims.length, ims[j] = (g : Int) := mem_membersOf g ims j

/-! ## edges -/

/-- no self-loops (`i < j` on every edge) and no pair of groups twice -/
theorem cg_no_loops_no_dups {g : GridShape} {h : Rat} {uv ug : Sys} {envs : List Int} {im : List (Option Int)} {sp : CgSpace}
    (hok : coarsegrainGrid g h uv ug envs im = .ok sp) :
    (∀ e ∈ sp.edges, e.i < e.j) ∧ (sp.edges.map edgeKey).Nodup := cg_edges_ok hok

/-- `cg_edge_iff`: the ordered pair `c = (a, b)` is an edge of the coarse graph exactly when some fine edge (= pair of cells
sharing a face, see `fine_edges_are_shared_faces`) joins a cell of group `a` and a cell of group `b`, the two groups being
different and retained (`Contributes`) -/
theorem cg_edge_iff {g : GridShape} {h : Rat} {uv ug : Sys} {envs : List Int} {im : List (Option Int)} {sp : CgSpace}
    (hok : coarsegrainGrid g h uv ug envs im = .ok sp) (c : Int × Int) :
    c ∈ sp.edges.map edgeKey ↔ ∃ e ∈ (cgGridToGraph g h envs).edges, Contributes (im.filterMap id) e c :=
  cg_edge_iff_aux hok c

/-- `cg_surface`: contact surface = (number of shared faces between the two groups) × face area `h²` -/
theorem cg_surface {g : GridShape} {h : Rat} {uv ug : Sys} {envs : List Int} {im : List (Option Int)} {sp : CgSpace}
    (hok : coarsegrainGrid g h uv ug envs im = .ok sp) (o : CgEdge) (ho : o ∈ sp.edges) :
    o.surface = ((cgGridToGraph g h envs).edges.countP (fun e => decide (Contributes (im.filterMap id) e (edgeKey o))) : Rat) * (h * h) :=
  cg_surface_aux hok o ho

/-- `cg_distance²`: squared distance of an edge = squared Euclidean distance of the two centroids … -/
theorem cg_distance {g : GridShape} {h : Rat} {uv ug : Sys} {envs : List Int} {im : List (Option Int)} {sp : CgSpace}
    (hok : coarsegrainGrid g h uv ug envs im = .ok sp) (o : CgEdge) (ho : o ∈ sp.edges) :
    o.dist = sq (sp.cx.getD o.i.toNat 0 - sp.cx.getD o.j.toNat 0) + sq (sp.cy.getD o.i.toNat 0 - sp.cy.getD o.j.toNat 0)
      + sq (sp.cz.getD o.i.toNat 0 - sp.cz.getD o.j.toNat 0) := cg_distance_aux hok o ho

/-- … where the centroid of group `k` is the mean of its members' positions `(x·h, y·h, z·h)`:
(sum over the member cells) / (number of member cells) (`slotSum k pairs` = sum of the values paired with group `k`) -/
theorem cg_centroid {g : GridShape} {h : Rat} {uv ug : Sys} {envs : List Int} {im : List (Option Int)} {sp : CgSpace}
    (hok : coarsegrainGrid g h uv ug envs im = .ok sp) (k : Nat) (hk : k < nGroups im) :
    sp.cx[k]? = some (slotSum k ((im.filterMap id).zip ((gridCoords g).map fun c => (c.1 : Rat) * h)) /
                      slotSum k ((im.filterMap id).map fun gI => (gI, (1 : Rat)))) ∧
    sp.cy[k]? = some (slotSum k ((im.filterMap id).zip ((gridCoords g).map fun c => (c.2.1 : Rat) * h)) /
                      slotSum k ((im.filterMap id).map fun gI => (gI, (1 : Rat)))) ∧
    sp.cz[k]? = some (slotSum k ((im.filterMap id).zip ((gridCoords g).map fun c => (c.2.2 : Rat) * h)) /
                      slotSum k ((im.filterMap id).map fun gI => (gI, (1 : Rat)))) := cg_centroid_aux hok k hk

/-- the fine edges of a reflecting grid are exactly the pairs of cells that share a face (neighbours along +x, +y or +z),
each once, with surface `h²` and length `h`; `gci` is the grid's own index formula (`x + y·w + z·w·h`, generated) -/
theorem fine_edges_are_shared_faces (g : GridShape) (h : Rat) (envs : List Int) (hrefl : (g.px || g.py || g.pz) = false) (e : CgEdge) :
    e ∈ (cgGridToGraph g h envs).edges ↔ ∃ x y z, x < g.w ∧ y < g.h ∧ z < g.d ∧
      ((x + 1 < g.w ∧ e = ⟨gci g x y z, gci g (x + 1) y z, h * h, h⟩) ∨
       (y + 1 < g.h ∧ e = ⟨gci g x y z, gci g x (y + 1) z, h * h, h⟩) ∨
       (z + 1 < g.d ∧ e = ⟨gci g x y z, gci g x y (z + 1), h * h, h⟩)) := mem_fine_edges g h envs hrefl e

theorem cell_index_formula (g : GridShape) (x y z : Nat) (hx : x < g.w) (hy : y < g.h) (hz : z < g.d) :
    gci g x y z = ((x + y * g.w + z * g.w * g.h : Nat) : Int) := gci_inside g x y z hx hy hz

/-- `identity_map`: on a reflecting grid the identity index map is accepted and gives the graph of the grid itself — the same
nodes (volume `h³`, here expressed in the grid's units system, same environments) and the same edge list, in the same order,
with surface `h²` and squared distance `h²` (`cgGridToGraph` records the distance `h`).  Together with C15 (a grid equals its
graph) this gives identical deterministic trajectories and identical stochastic trajectories for equal draws. -/
theorem identity_map (g : GridShape) (h : Rat) (uv ug : Sys) (envs : List Int)
    (hrefl : (g.px || g.py || g.pz) = false) (hpos : 0 < g.size) (hlen : envs.length = g.size) (henv : ∀ e ∈ envs, e ≠ -2) :
    ∃ sp, coarsegrainGrid g h uv ug envs (idMap g.size) = .ok sp ∧
      sp.vols = (cgGridToGraph g h envs).vols.map (· * convFactor uv ug Dim.volume) ∧
      sp.envs = (cgGridToGraph g h envs).envs ∧
      sp.edges.map (fun e => (e.i, e.j, e.surface, e.dist)) =
        (cgGridToGraph g h envs).edges.map (fun e => (e.i, e.j, e.surface, e.dist * e.dist)) :=
  identity_map_aux g h uv ug envs hrefl hpos hlen henv

/-- with the identity map the state and the chemostat flags are unchanged entry by entry (`cg_group_amount`, `cg_chem_any`
with singleton groups); stated here for the state -/
theorem identity_state {g : GridShape} {h : Rat} {uv ug : Sys} {envs : List Int} {ns : Nat} {state : List Rat} {chem : List Int}
    {c : CgSystem} (hpos : 0 < g.size) (hok : coarsegrainSystem g h uv ug envs ns state chem (idMap g.size) = .ok c)
    (s k : Nat) (hs : s < ns) (hk : k < g.size) :
    c.state[s * g.size + k]? = some (state.getD (s * g.size + k) 0) := identity_state_aux hpos hok s k hs hk

/-! ## concrete instances (kernel evaluation of the model): every clause of the property on a 4×1×1 and a 2×2×1 grid -/

/-- 4 cells, environments 0,1,0,1, map [-1,0,1,0] (drop one cell, non-contiguous group {1,3}), h = 2 -/
example :
    coarsegrainSystem ⟨4, 1, 1, false, false, false⟩ 2 Sys.default Sys.default [0, 1, 0, 1] 1 [1, 2, 3, 4] [0, 1, 0, 0]
        [some (-1), some 0, some 1, some 0]
      = .ok { space := { vols := [16, 8], envs := [1, 0], edges := [⟨0, 1, 8, 0⟩], cx := [4, 4], cy := [0, 0], cz := [0, 0], counts := [2, 1] },
              state := [6, 3], chem := [1, 0] } := by
  decide +kernel

/-- dropping cells of two different environments is accepted; mixing environments in a group is refused -/
example : checkIndexMap [some (-1), some (-1), some 0, some 1] [0, 1, 0, 1] = .ok () ∧
    (checkIndexMap [some 0, some 0, some 1, some 1] [0, 1, 0, 1]).isError = true ∧
    (checkIndexMap [some 0, some 2, some (-1), some (-1)] [0, 1, 0, 1]).isError = true := by
  decide +kernel

/-- 2×2×1, groups {0,1} and {2,3}: two shared faces, surface 2h², centroids one edge apart -/
example :
    (coarsegrainGrid ⟨2, 2, 1, false, false, false⟩ (1/2) Sys.default Sys.default [0, 0, 0, 0] [some 0, some 0, some 1, some 1]).map
        (fun sp => (sp.vols, sp.edges)) = .ok ([1/4, 1/4], [⟨0, 1, 1/2, 1/4⟩]) := by
  decide +kernel

/-- un-coarse-graining spreads evenly, keeps group totals, leaves dropped cells at zero -/
example : uncoarsegrain 2 1 2 4 [-1, 0, 1, 0] [4, 6, 8, 10] = .ok [0, 2, 6, 2, 0, 4, 10, 4] := by decide +kernel

/-- identity map = grid_to_graph (2×2×1, h = 1/2): same nodes, same edges with surface h² and distance² h² -/
example :
    (match coarsegrainGrid ⟨2, 2, 1, false, false, false⟩ (1/2) Sys.default Sys.default [0, 1, 0, 1] [some 0, some 1, some 2, some 3] with
     | .ok sp =>
       let gr := cgGridToGraph ⟨2, 2, 1, false, false, false⟩ (1/2) [0, 1, 0, 1]
       sp.vols == gr.vols && sp.envs == gr.envs &&
         (sp.edges.map fun e => (e.i, e.j, e.surface, e.dist)) == (gr.edges.map fun e => (e.i, e.j, e.surface, e.dist * e.dist))
     | .error _ => false) = true := by
  decide +kernel

end Strengths.C16
