/-
C09 — Sampling contract: which states are recorded, when, and in what shape.

  "A trajectory's data always holds exactly nsamples x nspecies x ncells values ordered by sample, then
  species, then cell, with one time per sample (strictly increasing for records made by the sampling
  policy, never decreasing when explicit sample calls are mixed in), and a record taken at t = 0 holds the
  (processed) initial state. With time-point sampling each requested time not beyond t_max is covered by
  the record taken at the first step (or event) time at or after it - one record per step even if several
  requested times fall inside it; interval sampling records the first step at or after each multiple of
  the interval, per-iteration sampling records every step, and with sampling disabled only explicit sample
  calls record. A fixed-step run performs exactly the steps n*dt up to the first one beyond t_max
  (default: the last requested time) and then reports completion."

The model is `Model/Sampler.lean` (abstract algorithm step, exact clock).  Section 1 ties its hand-written
skeleton to the text regenerated from the C++ sources on every run: a reordered call, a changed
condition or stride breaks these theorems at build time.
-/
import Strengths.Proofs.SamplerClock
import Strengths.Gen.IndexPy
import Strengths.Gen.ScriptPy
import Strengths.Gen.EngineLife

namespace Strengths.C09
open Strengths Strengths.SimSt

variable {σ ω : Type} (A : Algo σ ω) (cfg : SamplerCfg)

/-! ## 1. the model's skeleton is the code's (generated text) -/

/-- `Iterate()` of the fixed-step algorithms: reset flag; complete → false; step; `t += dt`;
`SamplingStep()`; `CheckTMax()`; `!complete`  (`SimSt.iterate`) -/
theorem iterate_fixed_step_text :
    Gen.iterateEuler3D = ["sampling_done_this_iteration=false", "if(complete)returnfalse", "Compute_dxdt()", "Apply_dxdt()",
      "t+=dt", "SamplingStep()", "CheckTMax()", "return!complete"] ∧
    Gen.iterateEulerGraph = Gen.iterateEuler3D ∧
    Gen.iterateTauLeap3D = ["sampling_done_this_iteration=false", "if(complete)returnfalse", "Compute_nevt()", "Apply_nevt()",
      "t+=dt", "SamplingStep()", "CheckTMax()", "return!complete"] ∧
    Gen.iterateTauLeapGraph = Gen.iterateTauLeap3D := by decide

/-- Gillespie: `a0 == 0` → `FlagAsComplete()` without advancing (`Algo.step = none`) -/
theorem iterate_gillespie_text :
    Gen.iterateGillespie3D = ["sampling_done_this_iteration=false", "if(complete)returnfalse", "ComputePropensities()",
      "if(a0==0)", "{", "FlagAsComplete()", "}", "else", "{", "DrawAndApplyEvent()", "dt=log(1/uiud(rng))/a0", "t+=dt",
      "SamplingStep()", "CheckTMax()", "}", "return!complete"] ∧
    Gen.iterateGillespieGraph = Gen.iterateGillespie3D := by decide

/-- `SampleOnTSample`, `SampleOnInterval`, `SamplingStep`, `Sample`, `CheckTMax`, `GetProgress`: grid and graph base
classes agree and read as the model does -/
theorem sampler_text :
    Gen.tSampleLoopCondsGrid = ["sample_pos<n_samples", "t>=t_samples[sample_pos]"] ∧
    Gen.tSampleLoopBodyGrid = ["Sample()", "sample_pos++"] ∧
    Gen.intervalRatioGrid = "floor(t/sampling_interval)" ∧
    Gen.intervalCondGrid = "tsi_ratio>last_tsi_ratio" ∧
    Gen.intervalBodyGrid = ["Sample()", "last_tsi_ratio=tsi_ratio"] ∧
    Gen.samplingDispatchGrid = [(0, "SampleOnTSample();"), (1, "Sample();"), (2, "SampleOnInterval();"), (3, "")] ∧
    Gen.sampleCondGrid = "!sampling_done_this_iteration" ∧
    Gen.sampleBodyGrid = ["sampled_mesh_x.push_back(mesh_x)", "sampled_t.push_back(t)", "sampling_done_this_iteration=true"] ∧
    Gen.tMaxCondGrid = "t_max>=0&&t>t_max" ∧
    Gen.progressBodyGrid = "if(t_max>0)return100.0*t/t_max;elsereturn0;" := by decide

theorem sampler_text_graph :
    Gen.tSampleLoopCondsGraph = Gen.tSampleLoopCondsGrid ∧ Gen.tSampleLoopBodyGraph = Gen.tSampleLoopBodyGrid ∧
    Gen.intervalRatioGraph = Gen.intervalRatioGrid ∧ Gen.intervalCondGraph = Gen.intervalCondGrid ∧
    Gen.intervalBodyGraph = Gen.intervalBodyGrid ∧ Gen.samplingDispatchGraph = Gen.samplingDispatchGrid ∧
    Gen.sampleCondGraph = Gen.sampleCondGrid ∧ Gen.sampleBodyGraph = Gen.sampleBodyGrid ∧
    Gen.tMaxCondGraph = Gen.tMaxCondGrid ∧ Gen.progressBodyGraph = Gen.progressBodyGrid := by decide

/-- the policy strings and their codes, C++ (both entry points) and Python (`RDScript.sampling_policy` setter) -/
theorem policy_codes :
    Gen.cppPoliciesGrid = [("on_t_sample", 0), ("on_iteration", 1), ("on_interval", 2), ("no_sampling", 3)] ∧
    Gen.cppPoliciesGraph = Gen.cppPoliciesGrid ∧
    Gen.scriptPolicies = Gen.cppPoliciesGrid.map (·.1) := by decide

/-- what `Init` assigns before its final `SamplingStep()` (`SimSt.fresh`) -/
theorem init_text :
    Gen.initSamplerAssignsGrid = [("sample_pos", "0"), ("sampling_done_this_iteration", "false"), ("last_tsi_ratio", "-1"),
      ("t", "0.0"), ("complete", "false")] ∧
    Gen.initSamplerAssignsGraph = Gen.initSamplerAssignsGrid ∧
    Gen.initLastCallGrid = "SamplingStep()" ∧ Gen.initLastCallGraph = "SamplingStep()" := by decide

/-- the `t_max` getter: `"default"` → `t_sample.get_at(len(t_sample)-1)` -/
theorem tmax_default_text :
    Gen.pyTMaxDefault = "self.t_sample.get_at(len(self.t_sample)-1)" ∧ Gen.pyTMaxCtorDefault = "default" := by decide

/-- `engineexport_get_trajectory` writes sample-major, then species, then cell, reading the cell-major
internal layout; `RDTrajectory.get_trajectory_point` reads the same index -/
theorem export_rowmajor (ns n k s i : Int) :
    Gen.exportDst ns n k s i = k * (ns * n) + (s * n + i) ∧ Gen.exportSrc ns n s i = i * ns + s ∧
    Gen.trajPointIndex ns n k s i = Gen.exportDst ns n k s i := by
  unfold Gen.exportDst Gen.exportSrc Gen.trajPointIndex
  refine ⟨by ring, rfl, by ring⟩

/-! ## 2. shape and order -/

/-- exactly nsamples × nspecies × ncells values, one time per sample -/
theorem shape {α : Type} (ns n : Nat) (recs : List (Rat × (Nat → Nat → α))) :
    (exportData ns n (recs.map (·.2))).length = recs.length * (ns * n) ∧ (exportTimes recs).length = recs.length := by
  rw [length_exportData]; simp [exportTimes]

/-- ordered by sample, then species, then cell: entry `k·(S·C) + s·C + c` is sample k's amount of species s in cell c -/
theorem order {α : Type} (ns n : Nat) (recs : List (Nat → Nat → α)) (k s c : Nat)
    (hk : k < recs.length) (hs : s < ns) (hc : c < n) :
    (exportData ns n recs)[k * (ns * n) + (s * n + c)]? = some (recs[k] c s) :=
  getElem?_exportData ns n recs k s c hk hs hc

/-! ## 3. times -/

/-- records made by the sampling policy (any number of `Iterate()` calls after `Init`, by `iterate`,
`iterate_n` or `run`): strictly increasing times, provided every step advances the clock -/
theorem policy_times_strict (hA : PosDt A) (x0 : σ) (n : Nat) :
    (exportTimes (iter A cfg n (init A cfg x0)).recs).Pairwise (· < ·) :=
  (iter_strictInv A cfg hA x0 n).1

/-- with explicit `sample()` calls mixed in anywhere: never decreasing -/
theorem manual_times_mono (hA : NonnegDt A) (x0 : σ) (s : SimSt σ ω) (h : Reach A cfg x0 s) :
    (exportTimes s.recs).Pairwise (· ≤ ·) :=
  (reach_monoInv A cfg hA x0 s h).1

/-- a record taken at t = 0 holds the (processed) initial state, whoever made it -/
theorem t0_record_is_initial (hA : PosDt A) (x0 : σ) (s : SimSt σ ω) (h : Reach A cfg x0 s) :
    ∀ r ∈ s.recs, r.1 = 0 → r.2 = A.obs x0 :=
  (reach_zeroInv A cfg hA x0 s h).2.2

/-- every iteration makes at most one record, whatever the policy and however many requests it covers -/
theorem one_record_per_step (s : SimSt σ ω) : (next A cfg s).recs.length ≤ s.recs.length + 1 := by
  rcases next_recs A cfg s with h | ⟨_, _, _, _, _, h, _, _⟩ <;> rw [h] <;> simp

/-! ## 4. which steps are recorded -/

/-- time-point sampling at t = 0 -/
theorem tsample_t0 (hpol : cfg.policy = 0) (hsorted : cfg.tSamples.Pairwise (· ≤ ·)) (x0 : σ) :
    ((∃ τ ∈ cfg.tSamples, τ ≤ 0) → (init A cfg x0).recs = [((0 : Rat), A.obs x0)]) ∧
    ((¬ ∃ τ ∈ cfg.tSamples, τ ≤ 0) → (init A cfg x0).recs = []) :=
  ⟨(init_tsample A cfg hpol hsorted x0).1, (init_tsample A cfg hpol hsorted x0).2.1⟩

/-- time-point sampling: along any run from `Init`, the step from clock `t` to `t + dt` appends exactly the
record (t + dt, new state) if some requested time lies in (t, t + dt] — i.e. this is the first step at or
after it — and nothing otherwise.  (Sorted requests; steps before completion; requests ≤ t_max are before
the completing step, which still samples.) -/
theorem tsample_cover (hpol : cfg.policy = 0) (hsorted : cfg.tSamples.Pairwise (· ≤ ·)) (hA : NonnegDt A) (x0 : σ) (n : Nat)
    (hc : (iter A cfg n (init A cfg x0)).complete = false)
    {x' : σ} {dt : Rat} (hs : A.step (iter A cfg n (init A cfg x0)).x = some (x', dt)) :
    let s := iter A cfg n (init A cfg x0)
    let s' := iter A cfg (n + 1) (init A cfg x0)
    ((∃ τ ∈ cfg.tSamples, s.t < τ ∧ τ ≤ s.t + dt) → s'.recs = s.recs ++ [(s.t + dt, A.obs x')]) ∧
    ((¬ ∃ τ ∈ cfg.tSamples, s.t < τ ∧ τ ≤ s.t + dt) → s'.recs = s.recs) := by
  intro s s'
  have h := next_tsample A cfg hpol hsorted s (iter_split A cfg hpol hsorted hA x0 n) hc hs (hA _ _ _ hs)
  have hs' : s' = next A cfg s := iter_succ A cfg n _
  rw [hs']
  exact ⟨h.1, h.2.1⟩

/-- interval sampling: a record at t = 0, then the step (t, t + dt] is recorded iff a multiple of the
interval lies in it (the first step at or after that multiple) -/
theorem interval_cover (hpol : cfg.policy = 2) (hiv : 0 < cfg.interval) (hA : NonnegDt A) (x0 : σ) :
    (init A cfg x0).recs = [((0 : Rat), A.obs x0)] ∧
    ∀ n, IvInv cfg (iter A cfg n (init A cfg x0)) ∧
      ∀ x' dt, (iter A cfg n (init A cfg x0)).complete = false → A.step (iter A cfg n (init A cfg x0)).x = some (x', dt) →
        let s := iter A cfg n (init A cfg x0)
        let s' := iter A cfg (n + 1) (init A cfg x0)
        ((∃ j : Int, s.t < j * cfg.interval ∧ j * cfg.interval ≤ s.t + dt) → s'.recs = s.recs ++ [(s.t + dt, A.obs x')]) ∧
        ((¬ ∃ j : Int, s.t < j * cfg.interval ∧ j * cfg.interval ≤ s.t + dt) → s'.recs = s.recs) := by
  refine ⟨(init_interval A cfg hpol hiv x0).1, ?_⟩
  have hinv : ∀ n, IvInv cfg (iter A cfg n (init A cfg x0)) := by
    intro n
    induction n with
    | zero => exact (init_interval A cfg hpol hiv x0).2
    | succ n ih =>
      rw [iter_succ]
      generalize iter A cfg n (init A cfg x0) = s at ih ⊢
      by_cases hc : s.complete = true
      · unfold next; rw [iterate_of_complete A cfg s hc]; exact ih
      · simp only [Bool.not_eq_true] at hc
        cases hs : A.step s.x with
        | none => unfold next; rw [iterate_of_stuck A cfg s hc hs]; exact ih
        | some p => exact (next_interval A cfg hpol hiv s ih hc hs (hA _ _ _ hs)).2.2
  intro n
  refine ⟨hinv n, ?_⟩
  intro x' dt hc hs s s'
  have h := next_interval A cfg hpol hiv s (hinv n) hc hs (hA _ _ _ hs)
  have hs' : s' = next A cfg s := iter_succ A cfg n _
  rw [hs']
  exact ⟨h.1, h.2.1⟩

/-- per-iteration sampling records t = 0 and every step -/
theorem iteration_all (hpol : cfg.policy = 1) (x0 : σ) :
    (init A cfg x0).recs = [((0 : Rat), A.obs x0)] ∧
    ∀ (s : SimSt σ ω) x' dt, s.complete = false → A.step s.x = some (x', dt) →
      (next A cfg s).recs = s.recs ++ [(s.t + dt, A.obs x')] := by
  have hf : ∀ s : SimSt σ ω, fires cfg s = true := by intro s; unfold fires; rw [hpol]; rfl
  refine ⟨by rw [fresh_samplingStep_recs, if_pos (hf _)], ?_⟩
  intro s x' dt hc hs
  rw [next_recs_of_step A cfg s hc hs, if_pos (hf _)]

/-- with sampling disabled the policy records nothing: only explicit `sample()` calls do -/
theorem none_only_manual (hpol : cfg.policy = 3) (x0 : σ) :
    (init A cfg x0).recs = [] ∧ ∀ s : SimSt σ ω, (next A cfg s).recs = s.recs := by
  have hf : ∀ s : SimSt σ ω, fires cfg s = false := by intro s; unfold fires; rw [hpol]; rfl
  refine ⟨by rw [fresh_samplingStep_recs, hf]; rfl, ?_⟩
  intro s
  rcases next_recs A cfg s with h | ⟨x', dt, _, _, hfire, _⟩
  · exact h
  · rw [hf] at hfire; cases hfire

/-- an explicit `sample()` records the current (time, state) unless this iteration already recorded -/
theorem manual_sample (s : SimSt σ ω) :
    (s.sample A).recs = if s.done then s.recs else s.recs ++ [(s.t, A.obs s.x)] := sample_recs A s

/-! ## 5. fixed-step runs -/

/-- a fixed-step run (dt > 0, t_max ≥ 0) performs exactly the steps n·dt for n up to
N = ⌊t_max/dt⌋ + 1 — the first one beyond t_max — reports completion exactly from then on, and `iterate()`
returns `true` until that step -/
theorem fixed_step_count {dt : Rat} (hfs : FixedStep A dt) (hdt : 0 < dt) (htm : 0 ≤ cfg.tMax) (x0 : σ) (n : Nat) :
    (iter A cfg n (init A cfg x0)).t = (min n (stepCount cfg.tMax dt) : Nat) * dt ∧
    ((iter A cfg n (init A cfg x0)).complete = true ↔ stepCount cfg.tMax dt ≤ n) ∧
    ((iterate A cfg (iter A cfg n (init A cfg x0))).2 = true ↔ n + 1 < stepCount cfg.tMax dt) ∧
    cfg.tMax < (stepCount cfg.tMax dt : Nat) * dt ∧ ((stepCount cfg.tMax dt - 1 : Nat) : Rat) * dt ≤ cfg.tMax := by
  obtain ⟨h1, h2⟩ := fixed_run A cfg hfs hdt htm x0 n
  refine ⟨h1, h2, fixed_iterate_returns A cfg hfs hdt htm x0 n, (beyond_iff cfg.tMax dt hdt htm _).mpr (le_refl _), ?_⟩
  by_contra h
  have := (beyond_iff cfg.tMax dt hdt htm (stepCount cfg.tMax dt - 1)).mp (lt_of_not_ge h)
  unfold stepCount at this
  omega

/-- the default `t_max` is the last requested time (an empty request list has none: the getter raises) -/
theorem default_tmax_is_last (ts : List Rat) :
    (∀ v, scriptTMax none ts = .ok v ↔ ts.getLast? = some v) ∧ (scriptTMax none [] = .error .outOfRange) ∧
    (∀ v, scriptTMax (some v) ts = .ok v) := by
  refine ⟨?_, rfl, fun _ => rfl⟩
  intro v
  unfold scriptTMax
  cases h : ts.getLast? with
  | none => simp
  | some w => simp

/-! ## non-vacuity: a concrete run (dt = 1/4, t_max = 1/2, requests 0, 0.3, 0.35, 2) -/

def demoAlgo : Algo Nat Nat := { step := fun n => some (n + 1, 1 / 4), obs := id }
def demoCfg : SamplerCfg := { policy := 0, tSamples := [0, 3 / 10, 7 / 20, 2], interval := 1, tMax := 1 / 2 }

example : ((iter demoAlgo demoCfg 5 (init demoAlgo demoCfg 0)).recs) = [(0, 0), (1 / 2, 2)] := by decide +kernel
example : (iter demoAlgo demoCfg 3 (init demoAlgo demoCfg 0)).complete = true ∧
    (iter demoAlgo demoCfg 2 (init demoAlgo demoCfg 0)).complete = false := by decide +kernel
example : stepCount (1 / 2) (1 / 4) = 3 := by decide +kernel
example : FixedStep demoAlgo (1 / 4) := fun x => ⟨x + 1, rfl⟩

end Strengths.C09
