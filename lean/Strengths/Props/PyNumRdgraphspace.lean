/-
Numeric inventory of src/strengths/rdgraphspace.py (generated: `Gen.PyNumeric.inv_rdgraphspace`, regenerated from the source on every run).
-/
import Strengths.Model.PyNumeric

namespace Strengths.PyNumeric
open Strengths.Gen.PyNumeric

/-- `rdgraphspace.py` never rounds, truncates, compares with a tolerance, stores numbers in less than 64 bits, or prints them with a
limited number of digits (the model computes its values exactly and its texts through `repr`) -/
theorem rdgraphspace_full_precision : fullPrecision inv_rdgraphspace = true := by decide +kernel

/-- the only maxima / minima / absolute values taken in `rdgraphspace.py` are the canonical (smaller, larger) order of an edge's ends in `get_edge`-style lookups (integers); no amount, rate, time or
coefficient is clamped, and no exception is swallowed -/
theorem rdgraphspace_no_clamping :
    clamp_rdgraphspace =
      [("clamp", "min(edge.i,edge.j)"), ("clamp", "max(edge.i,edge.j)")] := by
  decide +kernel

end Strengths.PyNumeric
