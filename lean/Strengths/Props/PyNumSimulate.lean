/-
Numeric inventory of src/strengths/simulate.py (generated: `Gen.PyNumeric.inv_simulate`, regenerated from the source on every run).
-/
import Strengths.Model.PyNumeric

namespace Strengths.PyNumeric
open Strengths.Gen.PyNumeric

/-- the only limited-digit formats in `simulate.py` are the three spellings of the progress percentage `v` printed on the
terminal (`print_progress`); nothing that reaches a result is rounded, narrowed or compared with a tolerance -/
theorem simulate_full_precision :
    fullPrecision (inv_simulate.filter fun e => !(e.1 == "format" && e.2 == "{v:.6f}")) = true ∧
    (inv_simulate.filter fun e => e.1 == "format").length = 3 := by
  decide +kernel

end Strengths.PyNumeric
