/-
Numeric inventory of src/strengths/simulate.py (generated: `Gen.PyNumeric.inv_simulate`, regenerated from the source on every run).
-/
import Strengths.Model.PyNumeric

namespace Strengths.PyNumeric
open Strengths.Gen.PyNumeric

/-- the only limited-digit formats in `simulate.py` are the three spellings of the progress percentage `v` printed on the
terminal (`print_progress`); nothing that reaches a result is rounded, narrowed or compared with a tolerance -/
theorem simulate_full_precision :
    fullPrecision (inv_simulate.filter fun e => !(e.1 == "format" && e.2 == "{v:.6f}")) = true ∧
    (inv_simulate.filter fun e => e.1 == "format").length = 3 := by
  decide +kernel

/-- the only maxima / minima / absolute values taken in `simulate.py` are the progress percentage shown on the terminal; no amount, rate, time or
coefficient is clamped, and no exception is swallowed -/
theorem simulate_no_clamping :
    clamp_simulate =
      [("clamp", "min(v,100)")] := by
  decide +kernel

end Strengths.PyNumeric
