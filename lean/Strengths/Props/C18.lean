/-
C18 — Unit and quantity text: print-parse round-trip, SI meaning, rejection.

Theorems about the executable model of `parse_units`, `parse_unitvalue`, `Units.__str__`,
`UnitValue.__str__`, `Units.__eq__` (Model/Units.lean), which is parameterised by the tables and
text-pipeline constants regenerated from units.py on every run (Gen/Units.lean, Gen/UnitsText.lean).
`float(text)` and `str(float)` are trusted primitives (parameters `pyFloat`, `pyRepr`).
-/
import Strengths.Proofs.UnitsText
import Strengths.Props.C06

namespace Strengths.C18
open Strengths Strengths.Gen

/-! ## The constants of the text pipeline (regenerated from the source) -/

/-- the order and shape of the pre/post-processing steps of `parse_units`, `parse_unitvalue`,
`Units.__str__`, `UnitValue.__str__`, `Units.__eq__` are the ones the model implements -/
theorem text_pipeline_anchors :
    puRejectsInnerBlank = true ∧ puFirstBlockSep = '.' ∧ puDefaultExp = "1" ∧ puExpReader = "int" ∧
    puNegSep = '/' ∧ puAddUnitTest = "sys[field]==Noneorsys[field]==su" ∧ puAddUnitElseRaises = true ∧
    puUnknownUnitRaises = true ∧
    uvStrips = true ∧ uvSplitter = "s.split()" ∧ uvValueReader = "float(tok[0])" ∧ uvUnitTokJoin = " " ∧
    uvUnitsArg = "us" ∧ uvEmptyValue = 0 ∧ uvEmptyUnits = "" ∧
    strSkipExp = 0 ∧ strBareExp = 1 ∧ strSep = "." ∧ strKeys = ["space", "time", "quantity"] ∧ uvStrSep = " " ∧
    unitsEqKeys = ["space", "time", "quantity"] ∧
    unitsEqTests = ["self.dim[k]!=v.dim[k]", "(self.dim[k]!=0)and(self.sys[k]!=v.sys[k])"] ∧
    sepChars = ['.', '/'] ∧ expChars = ['-', '0', '1', '2', '3', '4', '5', '6', '7', '8', '9'] ∧
    uSubst = [("um", "µm"), ("us", "µs"), ("umol", "µmol"), ("uL", "µL"), ("uM", "µM")] := by
  decide +kernel

/-! ## Round trip of unit text -/

/-- `int(str(n)) = n` for every integer (own digit printer and reader) -/
theorem int_text_roundtrip (n : Int) : pyInt (showIntChars n) = some n := pyInt_showInt n

/-- **print → parse round trip for units**: for every valid unit system (all 1100) and every integer
exponent vector, parsing the printed text succeeds and gives the same exponents and, for every
non-zero exponent, the same base unit (`Units.__eq__`). -/
theorem show_parse_units (u : Units) (hv : u.sys.valid = true) :
    ∃ u', parseUnitsChars (showUnitsChars u) = .ok u' ∧ u'.dim = u.dim ∧ Units.eqv u' u = true ∧
      u'.sys.valid = true := by
  have hv' := (Sys.valid_iff _).1 hv
  have hmem : ∀ b ∈ printedBlocks u, ∃ sym e, b = pblock sym e ∧
      sym ∈ spaceSyms ++ timeSyms ++ qtySyms ++ densitySyms ++ volumeSyms := by
    intro b hb
    simp only [printedBlocks, pblocks, List.mem_append] at hb
    rcases hb with (hb | hb) | hb <;> split at hb <;> simp only [List.mem_singleton, List.not_mem_nil] at hb
    · exact ⟨_, _, hb, by simp [hv'.1]⟩
    · exact ⟨_, _, hb, by simp [hv'.2.1]⟩
    · exact ⟨_, _, hb, by simp [hv'.2.2]⟩
  have hclean : uClean (renderBlocks (printedBlocks u)) := by
    apply uClean_renderBlocks
    intro b hb
    obtain ⟨sym, e, rfl, hs⟩ := hmem b hb
    exact ⟨(pblock_clean sym e hs).1, (pblock_clean sym e hs).2.1⟩
  have hnb : ∀ c ∈ renderBlocks (printedBlocks u), isBlank c = false := by
    intro c hc
    obtain ⟨b, hb, hcb⟩ := mem_renderBlocks hc
    obtain ⟨sym, e, rfl, hs⟩ := hmem b hb
    exact (pblock_clean sym e hs).2.2 c hcb
  rw [showUnitsChars_eq, parseUnitsChars, prepUnits_id _ hclean.1 hnb]
  cases hpb : printedBlocks u with
  | nil =>
    -- all exponents are zero: the empty text denotes the default system with zero exponents
    have hd : u.dim.space = 0 ∧ u.dim.time = 0 ∧ u.dim.qty = 0 := by
      simp only [printedBlocks, pblocks, List.append_eq_nil_iff] at hpb
      refine ⟨?_, ?_, ?_⟩
      · by_contra h; simp [h] at hpb
      · by_contra h; simp [h] at hpb
      · by_contra h; simp [h] at hpb
    refine ⟨⟨Sys.default, Dim.zero⟩, by simp [renderBlocks, parseUnitsCore], ?_, ?_, C06.default_system_valid⟩
    · cases u with | mk s d => cases d; simp_all [Dim.zero]
    · cases u with | mk s d => cases d; simp_all [Units.eqv, Dim.zero]
  | cons b bs =>
    have hall : ∀ x ∈ b :: bs, x.wf := by
      intro x hx
      obtain ⟨sym, e, rfl, hs⟩ := hmem x (by rw [hpb]; exact hx)
      exact pblock_wf sym e hs
    obtain ⟨sym, e, hbeq, hs⟩ := hmem b (by rw [hpb]; simp)
    have hne : renderBlocks (b :: bs) ≠ [] := by
      have := syms_nonempty sym hs
      subst hbeq
      simp only [renderBlocks, pblock, Block.body]
      intro h
      simp only [List.append_eq_nil_iff] at h
      exact this h.1.1
    rw [parseUnitsCore_render b bs (hall b (by simp)) (fun x hx => hall x (by simp [hx]))
      (by subst hbeq; rfl) hne (by rw [← hpb]; exact hnb)]
    have hchk : (b :: bs).any (fun b => !b.exp.isEmpty && (pyInt b.exp).isNone) = false := by
      rw [List.any_eq_false]
      intro x hx
      obtain ⟨sym', e', rfl, _⟩ := hmem x (by rw [hpb]; exact hx)
      have h := pyInt_expText_ok e'
      show ¬(!(expText e').isEmpty && (pyInt (expText e')).isNone) = true
      rw [h]; simp
    have hadd := addBlocks_printed u hv
    rw [hpb] at hadd
    simp only [finishBlocks, hchk, Bool.false_eq_true, if_false, hadd]
    have hsv : (⟨(optSym u.dim.space u.sys.space).getD defaultSpace, (optSym u.dim.time u.sys.time).getD defaultTime,
        (optSym u.dim.qty u.sys.qty).getD defaultQty⟩ : Sys).valid = true := by
      have hdv := (Sys.valid_iff _).1 C06.default_system_valid
      rw [Sys.valid_iff]
      simp only [optSym]
      refine ⟨?_, ?_, ?_⟩
      · split <;> simp [hv'.1]; exact hdv.1
      · split <;> simp [hv'.2.1]; exact hdv.2.1
      · split <;> simp [hv'.2.2]; exact hdv.2.2
    refine ⟨⟨⟨(optSym u.dim.space u.sys.space).getD defaultSpace, (optSym u.dim.time u.sys.time).getD defaultTime,
        (optSym u.dim.qty u.sys.qty).getD defaultQty⟩, u.dim⟩, by rw [if_pos hsv], rfl, ?_, hsv⟩
    simp only [Units.eqv, optSym, beq_self_eq_true, Bool.true_and, Bool.and_eq_true, Bool.or_eq_true, beq_iff_eq]
    refine ⟨⟨?_, ?_⟩, ?_⟩
    · by_cases h : u.dim.space = 0 <;> simp [h]
    · by_cases h : u.dim.time = 0 <;> simp [h]
    · by_cases h : u.dim.qty = 0 <;> simp [h]

example : parseUnitsChars (showUnitsChars ⟨⟨"km", "h", "mol"⟩, ⟨-12, 1, 105⟩⟩) =
    .ok ⟨⟨"km", "h", "mol"⟩, ⟨-12, 1, 105⟩⟩ := by decide +kernel
example : showUnitsChars ⟨⟨"km", "h", "mol"⟩, ⟨-12, 1, 105⟩⟩ = "km-12.h.mol105".toList := by decide +kernel

end Strengths.C18
